package gen

// ExpectCase is a session of the expectation tool and the line stream its subprocess prints.
type ExpectCase struct {
	Op      string                   `json:"op"`
	Id      int                      `json:"id"`
	Steps   []ExpectStep             `json:"steps"`
	Lines   []map[string]interface{} `json:"lines"` // {"json": v} | {"noise": "text"}
	End     string                   `json:"end"`   // timeout | eof
	Profile string                   `json:"profile"`
}

type ExpectOutput struct {
	Pattern  interface{} `json:"pattern"`
	Guard    *Prog       `json:"guard"`
	Inverted bool        `json:"inverted,omitempty"`
	// Stale: the output arrives with diagnostics ("bs") left by an earlier run of the session, as a
	// re-used Session value or a session file written back after a run carries them
	Stale bool `json:"stale,omitempty"`
}

type ExpectStep struct {
	Outputs []ExpectOutput `json:"outputs"`
}

var expectMsgs = []interface{}{
	map[string]interface{}{"m": "A"},
	map[string]interface{}{"m": "B"},
	map[string]interface{}{"m": "C", "n": 1.0},
	map[string]interface{}{"m": "A", "n": 2.0},
	map[string]interface{}{"x": map[string]interface{}{"y": 1.0}},
	[]interface{}{1.0, 2.0},
	"str",
}

var expectPatterns = []interface{}{
	map[string]interface{}{"m": "A"},
	map[string]interface{}{"m": "B"},
	map[string]interface{}{"m": "C"},
	map[string]interface{}{"m": "?x"},
	map[string]interface{}{"n": "?n"},
	map[string]interface{}{"m": "A", "n": "?n"},
	map[string]interface{}{"?k": "A"},
	map[string]interface{}{"?k": map[string]interface{}{"y": "?y"}},
	[]interface{}{"?e"},
	"str",
	map[string]interface{}{"m": "Z"},
}

func (g *G) ExpectCase() ExpectCase {
	c := ExpectCase{Op: "expect", End: "timeout", Profile: "expect"}
	ns := 1 + g.Intn(3)
	for i := 0; i < ns; i++ {
		st := ExpectStep{}
		no := g.Intn(4)
		for j := 0; j < no; j++ {
			o := ExpectOutput{Pattern: DeepCopy(expectPatterns[g.Intn(len(expectPatterns))])}
			if g.P(1, 5) {
				o.Inverted = true
			}
			if g.P(1, 8) {
				o.Stale = true
			}
			if g.P(1, 4) {
				gd := &Prog{Lang: "es", Ret: "bs", Ops: [][]interface{}{}}
				switch g.Intn(4) {
				case 0:
					gd.Ret = "null"
				case 1:
					gd.Ops = append(gd.Ops, []interface{}{"rejectIf", "?x", "A"})
				case 2:
					gd.Ops = append(gd.Ops, []interface{}{"rejectUnless", "?n"})
				}
				o.Guard = gd
			}
			st.Outputs = append(st.Outputs, o)
		}
		c.Steps = append(c.Steps, st)
	}
	pauses := 0
	// a stream that mostly serves the expectations in order, with repeats, noise and gaps
	for _, st := range c.Steps {
		for _, o := range st.Outputs {
			if g.P(1, 6) {
				continue // this expected message never arrives
			}
			m := instantiateFor(g, o.Pattern)
			rep := 1
			if g.P(1, 3) {
				rep = 2 // the same message twice
			}
			for k := 0; k < rep; k++ {
				c.Lines = append(c.Lines, map[string]interface{}{"json": m})
			}
			if g.P(1, 5) {
				c.Lines = append(c.Lines, map[string]interface{}{"noise": "not json {"})
			}
			if g.P(1, 4) && pauses < 3 {
				// the subprocess writes in several bursts
				pauses++
				c.Lines = append(c.Lines, map[string]interface{}{"pause": 25})
			}
			if g.P(1, 4) {
				c.Lines = append(c.Lines, map[string]interface{}{"json": DeepCopy(expectMsgs[g.Intn(len(expectMsgs))])})
			}
		}
	}
	if g.P(1, 4) {
		g.R.Shuffle(len(c.Lines), func(i, j int) { c.Lines[i], c.Lines[j] = c.Lines[j], c.Lines[i] })
	}
	if g.P(1, 8) {
		c.End = "eof"
	}
	return c
}

func instantiateFor(g *G, p interface{}) interface{} {
	switch vv := p.(type) {
	case map[string]interface{}:
		m := map[string]interface{}{}
		for k, v := range vv {
			if len(k) > 0 && k[0] == '?' {
				k = "m"
			}
			m[k] = instantiateFor(g, v)
		}
		return m
	case []interface{}:
		a := []interface{}{}
		for _, v := range vv {
			a = append(a, instantiateFor(g, v))
		}
		return a
	case string:
		if len(vv) > 0 && vv[0] == '?' {
			return g.Pick("A", "B", 1.0, 2.0)
		}
		return vv
	default:
		return p
	}
}
