package gen

// TimerStep is one scripted request of a timers scenario.
type TimerStep struct {
	Do    string `json:"do"` // add | rem | sleep | pending | restart
	Id    string `json:"id,omitempty"`
	Delay int    `json:"delay,omitempty"` // ms
	Tag   int    `json:"tag,omitempty"`   // identifies the message of an add (hence the timer generation)
	Ms    int    `json:"ms,omitempty"`
}

// TimerCase is a scenario: the requester's script and, per firing message, the requests its
// handler issues ("from inside the handler of the firing message").
type TimerCase struct {
	Op      string                `json:"op"`
	Id      int                   `json:"id"`
	Impl    string                `json:"impl"` // mcrew | sio
	Script  []TimerStep           `json:"script"`
	OnFire  map[string][]TimerStep `json:"onFire"` // key: tag as decimal string
	Profile string                `json:"profile"`
}

var timerIds = []string{"a", "b", "c"}

func (g *G) TimerCase(impl string) TimerCase {
	c := TimerCase{Op: "timers", Impl: impl, OnFire: map[string][]TimerStep{}, Profile: "timers"}
	tag := 0
	newAdd := func(delays ...int) TimerStep {
		tag++
		return TimerStep{Do: "add", Id: g.PickS(timerIds...), Delay: delays[g.Intn(len(delays))], Tag: tag}
	}
	n := 2 + g.Intn(6)
	maxDelay := 0
	for i := 0; i < n; i++ {
		switch g.Intn(10) {
		case 0, 1, 2, 3:
			st := newAdd(10, 30, 60, 90)
			if st.Delay > maxDelay {
				maxDelay = st.Delay
			}
			c.Script = append(c.Script, st)
			// sometimes the handler of this firing re-creates or cancels
			if g.P(1, 3) {
				var hs []TimerStep
				switch g.Intn(4) {
				case 0: // re-create the same id from inside the handler
					tag++
					hs = []TimerStep{{Do: "add", Id: st.Id, Delay: 25, Tag: tag}}
				case 1: // cancel (already free) and re-create
					tag++
					hs = []TimerStep{{Do: "rem", Id: st.Id}, {Do: "add", Id: st.Id, Delay: 25, Tag: tag}}
				case 2: // re-create, then cancel the new one: it must stay cancellable
					tag++
					hs = []TimerStep{{Do: "add", Id: st.Id, Delay: 40, Tag: tag}, {Do: "rem", Id: st.Id}}
				default: // touch another id
					hs = []TimerStep{{Do: "rem", Id: g.PickS(timerIds...)}}
				}
				c.OnFire[itoa(st.Tag)] = hs
			}
		case 4, 5:
			c.Script = append(c.Script, TimerStep{Do: "rem", Id: g.PickS(timerIds...)})
			if i%3 == 1 {
				// the host is busy elsewhere while a timer comes due, and the next thing it handles is
				// another timers request (queued ahead of the firing)
				st := newAdd(10)
				c.Script = append(c.Script, st, TimerStep{Do: "busy", Ms: 18}, TimerStep{Do: g.PickS("rem", "add"), Id: g.PickS(timerIds...), Delay: 40, Tag: tag + 1})
				tag++
				if maxDelay < 60 {
					maxDelay = 60
				}
			}
		case 6:
			c.Script = append(c.Script, TimerStep{Do: "pending"})
		default:
			c.Script = append(c.Script, TimerStep{Do: "sleep", Ms: g.Intn(4) * 15})
		}
	}
	if impl == "sio" && g.P(1, 3) {
		// a restart between creation and due time
		tag++
		c.Script = append(c.Script, TimerStep{Do: "add", Id: g.PickS(timerIds...), Delay: 120, Tag: tag},
			TimerStep{Do: "sleep", Ms: 20}, TimerStep{Do: "restart"})
		if maxDelay < 120 {
			maxDelay = 120
		}
		// life goes on after the restart: further requests, the reported set, another restart
		if g.P(2, 3) {
			pre := c.Script[len(c.Script)-3].Id
			tag++
			c.Script = append(c.Script, TimerStep{Do: "add", Id: g.PickS(timerIds...), Delay: 70, Tag: tag})
			if g.P(1, 2) {
				c.Script = append(c.Script, TimerStep{Do: "rem", Id: pre})
			}
			c.Script = append(c.Script, TimerStep{Do: "pending"})
			if g.P(1, 2) {
				c.Script = append(c.Script, TimerStep{Do: "sleep", Ms: 10}, TimerStep{Do: "restart"}, TimerStep{Do: "pending"})
			}
		}
	}
	c.Script = append(c.Script, TimerStep{Do: "sleep", Ms: maxDelay + 90}, TimerStep{Do: "pending"})
	return c
}

// TimerRaceCase: cancel racing the due time; the only claim is "a successful cancel is never
// followed by the firing".
func (g *G) TimerRaceCase(impl string) TimerCase {
	c := TimerCase{Op: "timers", Impl: impl, OnFire: map[string][]TimerStep{}, Profile: "race"}
	tag := 0
	for i := 0; i < 6; i++ {
		tag++
		id := timerIds[i%len(timerIds)]
		c.Script = append(c.Script, TimerStep{Do: "add", Id: id, Delay: 6, Tag: tag},
			TimerStep{Do: "sleep", Ms: 6}, TimerStep{Do: "rem", Id: id})
	}
	c.Script = append(c.Script, TimerStep{Do: "sleep", Ms: 60}, TimerStep{Do: "pending"})
	return c
}

func itoa(i int) string {
	if i == 0 {
		return "0"
	}
	s := ""
	for i > 0 {
		s = string(rune('0'+i%10)) + s
		i /= 10
	}
	return s
}
