package gen

import (
	"encoding/json"
	"fmt"
)

// MatchCase is one (pattern, message, bindings) triple, optionally with a
// planted assignment that must be among the results (C02).
type MatchCase struct {
	P       interface{}            `json:"p"`
	F       interface{}            `json:"f"`
	Bs      map[string]interface{} `json:"bs"`
	Planted map[string]interface{} `json:"planted,omitempty"`
	Profile string                 `json:"profile"`
}

var plainVars = []string{"?x", "?y", "?z", "?w", "?v1", "?v2"}
var optVars = []string{"??o", "??p", "??q"}
var ineqVars = []string{"?<n", "?<=m", "?>k", "?>=j", "?!=i", "?<=", "?<nn"}

func ineqBase(v string) (op, base string) {
	for _, ie := range []string{"<=", ">=", "!=", ">", "<"} {
		if len(v) > 2 && len(v[1:]) >= len(ie) && v[1:1+len(ie)] == ie {
			return ie, "?" + v[1+len(ie):]
		}
	}
	return "", ""
}

type planter struct {
	g      *G
	strict bool // keep the C02 side conditions (planted assignment stays a witness)
	sigma  map[string]interface{}
	bs0    map[string]interface{}
	valid  bool
}

func (pl *planter) freshValue(depth int) interface{} {
	if pl.g.P(2, 3) {
		return pl.g.Scalar()
	}
	return pl.g.Value(depth)
}

// satisfying returns a number in relation op to b (or not, if !sat).
func (pl *planter) related(op string, b float64, sat bool) float64 {
	var yes, no float64
	switch op {
	case "<":
		yes, no = b-1, b
	case "<=":
		yes, no = b, b+0.5
	case ">":
		yes, no = b+1, b
	case ">=":
		yes, no = b, b-0.5
	case "!=":
		yes, no = b+1, b
	}
	if sat {
		return yes
	}
	return no
}

// leaf generates a (pattern, message) pair for a leaf position.
// allowVar=false inside arrays that already carry a variable.
func (pl *planter) leaf(depth int, allowVar bool) (interface{}, interface{}) {
	g := pl.g
	if !allowVar || g.P(2, 5) {
		s := g.Scalar()
		return s, s
	}
	switch g.Intn(10) {
	case 0: // anonymous
		return "?", g.Value(depth)
	case 1, 2: // inequality variable, numerically pre-bound
		v := ineqVars[g.Intn(len(ineqVars))]
		op, base := ineqBase(v)
		if _, used := pl.bs0[v]; used || op == "" {
			s := g.Scalar()
			return s, s
		}
		if _, used := pl.sigma[base]; used {
			s := g.Scalar()
			return s, s
		}
		b := numbers[g.Intn(len(numbers))]
		sat := pl.strict || g.P(3, 4)
		a := pl.related(op, b, sat)
		pl.bs0[v] = b
		if sat {
			pl.sigma[base] = a
			if !pl.strict && g.P(1, 6) {
				// counterpart given, but different: no match although the relation holds
				pl.bs0[base] = a + 1
				pl.valid = false
			}
		} else {
			pl.valid = false
			if g.P(1, 2) {
				// counterpart already bound to the message value, relation false
				pl.bs0[base] = a
			}
		}
		return v, a
	default:
		v := plainVars[g.Intn(len(plainVars))]
		if old, have := pl.sigma[v]; have {
			if pl.strict && !IsScalar(old) {
				s := g.Scalar()
				return s, s
			}
			return v, DeepCopy(old)
		}
		val := pl.freshValue(depth)
		pl.sigma[v] = val
		return v, DeepCopy(val)
	}
}

func (pl *planter) gen(depth int) (interface{}, interface{}) {
	g := pl.g
	if depth <= 0 || g.P(1, 4) {
		return pl.leaf(depth, true)
	}
	if g.P(1, 2) {
		return pl.genMap(depth)
	}
	return pl.genArr(depth)
}

func (pl *planter) genMap(depth int) (interface{}, interface{}) {
	g := pl.g
	p := map[string]interface{}{}
	f := map[string]interface{}{}
	if g.P(1, 6) {
		// property variable: sole key is a variable
		var k string
		if g.P(1, 4) {
			k = "?"
		} else {
			k = plainVars[g.Intn(len(plainVars))]
		}
		fk := g.Key()
		if old, have := pl.sigma[k]; have {
			s, is := old.(string)
			if !is {
				// (not a variable: an array may call this for an element that must not be one)
				c := g.Scalar()
				return c, c
			}
			fk = s
		} else if k != "?" {
			pl.sigma[k] = fk
		}
		var pv, fv interface{}
		if depth > 0 && g.P(1, 2) {
			pv, fv = pl.genMap(depth - 1)
		} else {
			pv, fv = pl.gen(depth - 1)
		}
		p[k] = pv
		f[fk] = fv
		for i := g.Intn(3); i > 0; i-- {
			ek := g.Key()
			if _, have := f[ek]; !have {
				switch g.Intn(3) {
				case 0:
					f[ek] = DeepCopy(fv) // distractor that matches too
				case 1:
					f[ek] = g.perturb(DeepCopy(fv), depth-1) // distractor that matches in part
				default:
					f[ek] = g.Value(depth - 1)
				}
			}
		}
		return p, f
	}
	n := g.Intn(4)
	for i := 0; i < n; i++ {
		k := g.Key()
		if _, have := p[k]; have {
			continue
		}
		if g.P(1, 8) {
			// optional variable as a value
			v := optVars[g.Intn(len(optVars))]
			if _, have := pl.sigma[v]; have {
				continue
			}
			p[k] = v
			if g.P(1, 2) {
				val := pl.freshValue(depth - 1)
				pl.sigma[v] = val
				f[k] = DeepCopy(val)
			}
			continue
		}
		pv, fv := pl.gen(depth - 1)
		p[k] = pv
		f[k] = fv
	}
	// extras the pattern does not mention
	for i := g.Intn(3); i > 0; i-- {
		k := g.Key()
		if _, have := p[k]; !have {
			f[k] = g.Value(depth - 1)
		}
	}
	return p, f
}

func (pl *planter) genArr(depth int) (interface{}, interface{}) {
	g := pl.g
	p := []interface{}{}
	f := []interface{}{}
	seen := map[string]bool{} // canonical texts of scalars already in the message array (arrays are sets)
	addF := func(x interface{}) bool {
		if IsScalar(x) {
			c := Canon(x)
			if seen[c] {
				return false
			}
			seen[c] = true
		}
		f = append(f, x)
		return true
	}
	n := g.Intn(4)
	for i := 0; i < n; i++ {
		var pe, fe interface{}
		if g.P(1, 2) {
			s := g.Scalar()
			pe, fe = s, s
		} else {
			pe, fe = pl.genNoDirectVar(depth - 1)
		}
		if IsScalar(fe) && seen[Canon(fe)] {
			continue
		}
		p = append(p, pe)
		addF(fe)
	}
	hasVar := g.P(1, 2)
	extras := g.Intn(3)
	if hasVar && g.P(1, 6) {
		// an inequality variable, numerically pre-bound, as the array's variable: every left-over
		// number in the relation is a match; the bound itself is among the elements half the time
		v := ineqVars[g.Intn(len(ineqVars))]
		op, base := ineqBase(v)
		_, used := pl.bs0[v]
		_, usedBase := pl.sigma[base]
		if !used && !usedBase && op != "" {
			b := numbers[g.Intn(len(numbers))]
			a := pl.related(op, b, true)
			if !seen[Canon(a)] {
				pl.bs0[v] = b
				pl.sigma[base] = a
				p = append(p, v)
				addF(a)
				if g.P(1, 2) {
					addF(b)
				}
			}
		}
		hasVar = false
	}
	if hasVar {
		optional := g.P(1, 3)
		var v string
		if optional {
			v = optVars[g.Intn(len(optVars))]
		} else {
			v = plainVars[g.Intn(len(plainVars))]
		}
		if old, have := pl.sigma[v]; have {
			// re-used variable inside an array: its value must be a left-over element
			// (an optional variable is never re-used here: where it cannot be matched again it is
			// skipped, which makes the outcome depend on map order — known finding KF-C03-3, left
			// to the C03 profile)
			if optional || (pl.strict && !IsScalar(old)) || (IsScalar(old) && seen[Canon(old)]) {
				hasVar = false
			} else {
				p = append(p, v)
				addF(DeepCopy(old))
			}
		} else if optional && g.P(1, 2) {
			// absent: no left-over element may exist
			p = append(p, v)
			extras = 0
		} else {
			val := pl.freshValue(depth - 1)
			if IsScalar(val) && seen[Canon(val)] {
				hasVar = false
			} else {
				pl.sigma[v] = val
				p = append(p, v)
				addF(DeepCopy(val))
			}
		}
	}
	for i := 0; i < extras; i++ {
		if len(f) > 0 && g.P(1, 3) {
			// a distractor that partially matches one of the structured elements
			if e := f[g.Intn(len(f))]; !IsScalar(e) {
				addF(g.perturb(DeepCopy(e), depth-1))
				continue
			}
		}
		addF(g.Value(depth - 1))
	}
	g.R.Shuffle(len(p), func(i, j int) { p[i], p[j] = p[j], p[i] })
	g.R.Shuffle(len(f), func(i, j int) { f[i], f[j] = f[j], f[i] })
	return p, f
}

// genNoDirectVar generates a structured or scalar element that is not itself a variable
// (an array may hold at most one variable directly).
func (pl *planter) genNoDirectVar(depth int) (interface{}, interface{}) {
	g := pl.g
	if depth <= 0 {
		s := g.Scalar()
		return s, s
	}
	if g.P(2, 3) {
		return pl.genMap(depth)
	}
	return pl.genArr(depth)
}

// perturb changes the message somewhere so that the planted assignment is (probably) no longer a witness.
func (g *G) perturb(x interface{}, depth int) interface{} {
	switch vv := x.(type) {
	case map[string]interface{}:
		if len(vv) == 0 || g.P(1, 4) {
			return g.Value(depth)
		}
		ks := SortedKeys(vv)
		k := ks[g.Intn(len(ks))]
		if g.P(1, 3) {
			delete(vv, k)
		} else {
			vv[k] = g.perturb(vv[k], depth-1)
		}
		return vv
	case []interface{}:
		if len(vv) == 0 || g.P(1, 4) {
			return g.Value(depth)
		}
		i := g.Intn(len(vv))
		if g.P(1, 3) {
			return append(vv[:i:i], vv[i+1:]...)
		}
		vv[i] = g.perturb(vv[i], depth-1)
		return vv
	default:
		if g.P(1, 2) {
			return twin(x)
		}
		return g.Scalar()
	}
}

// twin returns a scalar of another JSON type that prints like the given one (1 and "1", true and
// "true", null and "<nil>" / "null"): equal to a careless comparison, different values.
func twin(x interface{}) interface{} {
	switch vv := x.(type) {
	case nil:
		return "<nil>"
	case bool:
		if vv {
			return "true"
		}
		return "false"
	case float64:
		js, _ := json.Marshal(vv)
		return string(js)
	case string:
		switch vv {
		case "true":
			return true
		case "false":
			return false
		case "<nil>", "null":
			return nil
		}
		var f float64
		if json.Unmarshal([]byte(vv), &f) == nil {
			return f
		}
		return vv + " "
	}
	return x
}

// MatchBacktrack generates a case aimed at the isolation of backtracking branches: a sub-pattern
// with a discriminating constant, an optional variable and a plain variable is tried against
// several candidates (the values under a property variable, or the elements of an array); some
// candidates bind the variables and then fail on the constant.  A binding made by a failed
// candidate must not show up in any result.
func (g *G) MatchBacktrack() MatchCase {
	disc := g.PickS("on", "off")
	sub := map[string]interface{}{"state": disc}
	if g.P(3, 4) {
		sub["level"] = g.PickS(optVars...)
	}
	if g.P(1, 2) {
		sub["name"] = g.PickS(plainVars...)
	}
	cands := []interface{}{}
	n := 2 + g.Intn(3)
	for i := 0; i < n; i++ {
		c := map[string]interface{}{"state": g.PickS("on", "off", "dim")}
		if g.P(1, 2) {
			c["level"] = numbers[g.Intn(len(numbers))]
		}
		if g.P(2, 3) {
			c["name"] = g.PickS(constStrings...)
		}
		cands = append(cands, c)
	}
	var p, f interface{}
	if g.P(1, 2) {
		k := "?"
		if g.P(1, 2) {
			k = g.PickS(plainVars...)
		}
		p = map[string]interface{}{k: sub}
		fm := map[string]interface{}{}
		for i, c := range cands {
			fm[keys[i%len(keys)]] = c
		}
		f = fm
	} else {
		p = []interface{}{sub}
		f = cands
	}
	return MatchCase{P: p, F: f, Bs: map[string]interface{}{}, Profile: "backtrack"}
}

// MatchPlanted generates a case from a planted witness.
// strict=true keeps every C02 side condition, so Planted must be among the results.
func (g *G) MatchPlanted(strict bool) MatchCase {
	pl := &planter{g: g, strict: strict, sigma: map[string]interface{}{}, bs0: map[string]interface{}{}, valid: true}
	depth := 1 + g.Intn(4)
	var p, f interface{}
	if g.P(5, 6) {
		if g.P(1, 2) {
			p, f = pl.genMap(depth)
		} else {
			p, f = pl.genArr(depth)
		}
	} else {
		p, f = pl.gen(depth)
	}
	// pre-bind some variables
	for _, v := range SortedKeys(pl.sigma) {
		val := pl.sigma[v]
		if g.P(1, 4) {
			if strict && !IsScalar(val) {
				continue
			}
			pl.bs0[v] = DeepCopy(val)
		} else if !strict && g.P(1, 10) {
			pl.bs0[v] = g.Scalar() // probably inconsistent
			pl.valid = false
		}
	}
	if g.P(1, 3) {
		pl.bs0["?u"] = g.Value(1)
	}
	c := MatchCase{P: p, F: f, Bs: pl.bs0, Profile: "planted"}
	if !strict && g.P(1, 3) {
		c.F = g.perturb(DeepCopy(f), depth)
		pl.valid = false
		c.Profile = "perturbed"
	}
	if pl.valid {
		planted := map[string]interface{}{}
		for k, v := range pl.bs0 {
			planted[k] = v
		}
		for k, v := range pl.sigma {
			planted[k] = v
		}
		if strict {
			c.Planted = planted
			c.Profile = "strict"
		}
	}
	return c
}

// MatchMalformed generates cases outside the supported fragment: several variables in one array,
// a property variable next to other keys, '?' strings in messages and bound values.
func (g *G) MatchMalformed() MatchCase {
	c := g.MatchPlanted(false)
	c.Profile = "malformed"
	switch g.Intn(7) {
	case 6: // a variable bound to its own name, or two bound to each other (a message may hold such strings)
		c.P = map[string]interface{}{"a": "?x", "b": []interface{}{"?y"}}
		c.F = map[string]interface{}{"a": g.PickS("?x", "?y", "a"), "b": []interface{}{g.PickS("?x", "?y"), 1.0}}
		if g.P(1, 2) {
			c.Bs = map[string]interface{}{"?x": "?x"}
		} else {
			c.Bs = map[string]interface{}{"?x": "?y", "?y": "?x"}
		}
	case 0: // two variables in one array, possibly next to a non-matching key
		m := map[string]interface{}{"a": []interface{}{"?x", "?y"}, "c": g.Scalar()}
		f := map[string]interface{}{"a": []interface{}{g.Scalar()}, "c": g.Scalar()}
		if g.P(1, 2) {
			m["a"] = []interface{}{"?x", "?x"}
		}
		c.P, c.F = m, f
	case 1: // property variable with other keys
		m := map[string]interface{}{"a": map[string]interface{}{"?x": 1.0, "b": 2.0}, "c": g.Scalar()}
		f := map[string]interface{}{"a": map[string]interface{}{}, "c": g.Scalar()}
		c.P, c.F = m, f
	case 2: // '?' string in the message
		c.F = map[string]interface{}{"a": "?q", "b": []interface{}{"?r", 1.0}}
		c.P = map[string]interface{}{"a": "?x", "b": []interface{}{"?y"}}
	case 5: // an optional variable used at two places (order dependence)
		c.P = map[string]interface{}{"a": map[string]interface{}{"likes": []interface{}{"??o"}, "n": []interface{}{"??o"}}, "likes": []interface{}{"?z"}}
		c.F = map[string]interface{}{"a": map[string]interface{}{"likes": []interface{}{1.0, "e"}, "n": []interface{}{1.0}}, "likes": []interface{}{3.0, "e", "tacos"}}
		c.Bs = map[string]interface{}{}
	case 3: // a variable used at two keys with structured values (order dependence)
		v1 := map[string]interface{}{"p": 1.0}
		v2 := map[string]interface{}{"p": 1.0, "q": 2.0}
		c.P = map[string]interface{}{"a": "?x", "b": "?x"}
		c.F = map[string]interface{}{"a": v1, "b": v2}
		c.Bs = map[string]interface{}{}
	default:
		// keep the planted case but make one bound value a variable-looking string
		if len(c.Bs) > 0 {
			k := SortedKeys(c.Bs)[0]
			c.Bs[k] = fmt.Sprintf("?%d", g.Intn(3))
		}
	}
	c.Planted = nil
	return c
}
