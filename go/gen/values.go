// Package gen holds the case generators of the correspondence harness.
//
// Every random choice derives from one PRNG (seeded by VERIF_SEED) so that a
// disagreement replays exactly.
package gen

import (
	"encoding/json"
	"math/rand"
	"sort"
)

// G is the single source of randomness.
type G struct {
	R   *rand.Rand
	Seq int
}

func New(seed int64) *G {
	return &G{R: rand.New(rand.NewSource(seed))}
}

func (g *G) Intn(n int) int { return g.R.Intn(n) }

// P returns true with probability num/den.
func (g *G) P(num, den int) bool { return g.R.Intn(den) < num }

func (g *G) Pick(xs ...interface{}) interface{} { return xs[g.R.Intn(len(xs))] }

func (g *G) PickS(xs ...string) string { return xs[g.R.Intn(len(xs))] }

var constStrings = []string{"a", "b", "c", "tacos", "chips", "x!", "", "é", "1", "true", "2.5", "<nil>"}
var numbers = []float64{0, 1, 2, 3, 10, -1, 0.5, 2.5}
var keys = []string{"a", "b", "c", "d", "likes", "n", "to"}

// Scalar returns a '?'-free JSON scalar (exactly representable numbers only).
func (g *G) Scalar() interface{} {
	switch g.Intn(10) {
	case 0:
		return nil
	case 1:
		return g.P(1, 2)
	case 2, 3, 4, 5:
		return numbers[g.Intn(len(numbers))]
	default:
		return constStrings[g.Intn(len(constStrings))]
	}
}

func (g *G) Key() string { return keys[g.Intn(len(keys))] }

// Value returns a '?'-free JSON value of at most the given depth.
func (g *G) Value(depth int) interface{} {
	if depth <= 0 || g.P(1, 2) {
		return g.Scalar()
	}
	if g.P(1, 2) {
		n := g.Intn(4)
		m := map[string]interface{}{}
		for i := 0; i < n; i++ {
			m[g.Key()] = g.Value(depth - 1)
		}
		return m
	}
	n := g.Intn(4)
	a := make([]interface{}, 0, n)
	for i := 0; i < n; i++ {
		a = append(a, g.Value(depth-1))
	}
	return a
}

// Canon is the canonical text of a JSON-able value (keys sorted by encoding/json).
func Canon(x interface{}) string {
	js, err := json.Marshal(x)
	if err != nil {
		return "!" + err.Error()
	}
	return string(js)
}

// DeepCopy copies plain JSON data.
func DeepCopy(x interface{}) interface{} {
	switch vv := x.(type) {
	case map[string]interface{}:
		m := make(map[string]interface{}, len(vv))
		for k, v := range vv {
			m[k] = DeepCopy(v)
		}
		return m
	case []interface{}:
		a := make([]interface{}, len(vv))
		for i, v := range vv {
			a[i] = DeepCopy(v)
		}
		return a
	default:
		return x
	}
}

func IsScalar(x interface{}) bool {
	switch x.(type) {
	case nil, bool, float64, string:
		return true
	}
	return false
}

func SortedKeys(m map[string]interface{}) []string {
	ks := make([]string, 0, len(m))
	for k := range m {
		ks = append(ks, k)
	}
	sort.Strings(ks)
	return ks
}
