package gen

import "fmt"

// MCrewCase is an operation sequence for the mcrew service, with store failures.
type MCrewCase struct {
	Op       string                   `json:"op"`
	Id       int                      `json:"id"`
	Specs    map[string]*SpecD        `json:"specs"`
	SpecYaml map[string]interface{}   `json:"specYaml"`
	Ops      []map[string]interface{} `json:"ops"`
	Profile  string                   `json:"profile"`
}

func (g *G) MCrewCase(profile string) MCrewCase {
	c := MCrewCase{Op: "mcrew", Specs: map[string]*SpecD{}, SpecYaml: map[string]interface{}{}, Profile: profile}
	ns := 1 + g.Intn(2)
	names := []string{}
	for i := 0; i < ns; i++ {
		n := fmt.Sprintf("vspec%d", i)
		s := g.relaySpec(n)
		// no emissions here: mcrew re-injects them asynchronously (exercised by the concurrency probe)
		for _, nd := range s.Nodes {
			if nd.Action != nil {
				ops := [][]interface{}{}
				for _, op := range nd.Action.Ops {
					if op[0].(string) != "emit" {
						ops = append(ops, op)
					}
				}
				nd.Action.Ops = ops
			}
		}
		c.Specs[n] = s
		c.SpecYaml[n] = InlineSpecJSON(s)
		names = append(names, n)
	}
	ids := []string{"m1", "m2", "m3"}
	n := 3 + g.Intn(10)
	down := false
	for i := 0; i < n; i++ {
		var op map[string]interface{}
		switch g.Intn(12) {
		case 0, 1, 2:
			op = map[string]interface{}{"op": "add", "spec": g.PickS(names...), "id": g.PickS(ids...), "node": g.PickS("", "listen", "start")}
			if g.P(1, 2) {
				op["bs"] = map[string]interface{}{"n": float64(g.Intn(3))}
			} else {
				op["bs"] = nil
			}
		case 3:
			op = map[string]interface{}{"op": "rem", "id": g.PickS(ids...)}
		case 4:
			if down {
				op = map[string]interface{}{"op": "storeUp"}
			} else {
				op = map[string]interface{}{"op": "storeDown"}
			}
			down = !down
		case 5:
			op = map[string]interface{}{"op": "process", "msg": map[string]interface{}{"to": "timers", "x": 1.0}}
		case 6:
			op = map[string]interface{}{"op": "process", "msg": map[string]interface{}{"d": float64(g.Intn(3))}}
		case 7:
			op = map[string]interface{}{"op": "process", "msg": g.Pick("str", 3.0, map[string]interface{}{"to": 5.0, "d": 1.0}, map[string]interface{}{"to": "nobody", "d": 1.0})}
		default:
			op = map[string]interface{}{"op": "process", "msg": map[string]interface{}{"to": g.PickS(ids...), "d": float64(g.Intn(3))}}
		}
		c.Ops = append(c.Ops, op)
	}
	return c
}
