package gen

import "fmt"

// CrewCase is a history of messages for the single-loop crew host (sio).
type CrewCase struct {
	Specs   map[string]*SpecD        `json:"specs"`
	Limit   int                      `json:"limit"`
	Init    map[string]CrewMachineD  `json:"init"`
	History []interface{}            `json:"history"`
	Profile string                   `json:"profile"`
}

type CrewMachineD struct {
	Spec  string  `json:"spec"`
	State *StateD `json:"state"`
}

var crewIds = []string{"a", "b", "c", "d", "e"}

// relaySpec: a recorder/relay machine.  It counts every message carrying a depth "d" and emits
// further routed or unrouted messages of the next depth (up to depth 2), with a per-batch index.
func (g *G) relaySpec(name string) *SpecD {
	s := &SpecD{Name: name, Nodes: map[string]*NodeD{}}
	listen := &NodeD{Branching: &BranchingD{Type: "message", Branches: []BranchD{}}}
	for d := 0; d <= 2; d++ {
		rn := fmt.Sprintf("r%d", d)
		listen.Branching.Branches = append(listen.Branching.Branches,
			BranchD{Pattern: map[string]interface{}{"d": float64(d)}, Target: rn})
		act := &Prog{Lang: "es", Ret: "bs", Ops: [][]interface{}{{"inc", "n"}}}
		if d < 2 {
			k := g.Intn(3)
			for i := 0; i < k; i++ {
				m := map[string]interface{}{"d": float64(d + 1), "tag": fmt.Sprintf("%s-%d", name, d), "i": float64(i)}
				switch g.Intn(6) {
				case 0: // unrouted: everybody
				case 1:
					m["to"] = []interface{}{g.PickS(crewIds...), g.PickS(crewIds...)}
				case 2:
					m["to"] = "*"
				default:
					m["to"] = g.PickS(crewIds...)
				}
				act.Ops = append(act.Ops, []interface{}{"emit", m})
			}
		}
		if g.P(1, 10) {
			act.Ops = append(act.Ops, []interface{}{"fail", g.boom()})
		}
		next := "listen"
		if g.P(1, 3) {
			// a second action in the same walk: when it fails (or the step limit cuts the walk short)
			// the first action has completed, and what it emitted counts
			next = fmt.Sprintf("p%d", d)
			post := &Prog{Lang: "es", Ret: "bs", Ops: [][]interface{}{{"inc", "m"}}}
			if g.P(1, 2) {
				post.Ops = append(post.Ops, []interface{}{"emit", map[string]interface{}{"tag": "post-" + name, "to": "nobody"}})
			}
			if g.P(1, 2) {
				post.Ops = append(post.Ops, []interface{}{"fail", g.boom()})
			}
			s.Nodes[next] = &NodeD{Action: post, Branching: &BranchingD{Type: "bindings", Branches: []BranchD{{Target: "listen"}}}}
		}
		s.Nodes[rn] = &NodeD{Action: act, Branching: &BranchingD{Type: "bindings", Branches: []BranchD{{Target: next}}}}
	}
	s.Nodes["listen"] = listen
	s.Nodes["start"] = &NodeD{Branching: &BranchingD{Branches: []BranchD{{Target: "listen"}}}}
	return s
}

func (g *G) crewState() *StateD {
	switch g.Intn(4) {
	case 0:
		return nil
	case 1:
		return &StateD{Node: "listen", Bs: map[string]interface{}{"n": float64(g.Intn(3) * 10)}}
	case 2:
		return &StateD{Node: "", Bs: nil}
	default:
		return &StateD{Node: "listen", Bs: map[string]interface{}{}}
	}
}

// InlineSpecJSON is set by the harness: it renders a DSL spec as the JSON of a core.Spec.
var InlineSpecJSON func(*SpecD) interface{}

func (g *G) CrewCase(profile string) CrewCase {
	c := CrewCase{Specs: map[string]*SpecD{}, Limit: 10 + g.Intn(30), Init: map[string]CrewMachineD{}, Profile: profile}

	ns := 1 + g.Intn(3)
	names := []string{}
	for i := 0; i < ns; i++ {
		n := fmt.Sprintf("spec%d", i)
		c.Specs[n] = g.relaySpec(n)
		names = append(names, n)
	}
	nm := g.Intn(4)
	for i := 0; i < nm; i++ {
		c.Init[crewIds[g.Intn(len(crewIds))]] = CrewMachineD{Spec: g.PickS(names...), State: g.crewState()}
	}
	live := map[string]bool{}
	for k := range c.Init {
		live[k] = true
	}
	stateJSON := func(s *StateD) interface{} {
		if s == nil {
			return nil
		}
		m := map[string]interface{}{"node": s.Node}
		if s.Bs != nil {
			m["bs"] = s.Bs
		}
		return m
	}
	if profile != "noresurrect" && g.P(1, 30) {
		// a machine that asks the captain to delete and re-create another machine within one round
		// (both requests are processed inside the same ProcessMsg)
		target := g.PickS(crewIds[:3]...)
		res := &SpecD{Name: "resurrector", Nodes: map[string]*NodeD{}}
		res.Nodes["start"] = &NodeD{Branching: &BranchingD{Branches: []BranchD{{Target: "listen"}}}}
		res.Nodes["listen"] = &NodeD{Branching: &BranchingD{Type: "message", Branches: []BranchD{
			{Pattern: map[string]interface{}{"go": "resurrect"}, Target: "doit"}}}}
		res.Nodes["doit"] = &NodeD{
			Action: &Prog{Lang: "es", Ret: "bs", Ops: [][]interface{}{
				{"emit", map[string]interface{}{"to": "captain", "delete": []interface{}{target}}},
				{"emit", map[string]interface{}{"to": "captain", "update": map[string]interface{}{target: map[string]interface{}{
					"spec": map[string]interface{}{"inline": InlineSpecJSON(c.Specs[names[0]])}}}}},
			}},
			Branching: &BranchingD{Type: "bindings", Branches: []BranchD{{Target: "listen"}}}}
		c.Specs["resurrector"] = res
		c.Init["z"] = CrewMachineD{Spec: "resurrector", State: nil}
		c.Init[target] = CrewMachineD{Spec: names[0], State: &StateD{Node: "listen", Bs: map[string]interface{}{"n": 5.0}}}
		c.History = append(c.History, map[string]interface{}{"d": 2.0, "to": target}, map[string]interface{}{"to": "z", "go": "resurrect"})
		c.Profile = "resurrect"
	}
	if g.P(1, 8) {
		// a machine that has the captain create a worker and hands it its first jobs in the same
		// breath: the messages to the worker are emitted before the worker exists
		worker := g.PickS("w1", "w2")
		sp := &SpecD{Name: "spawner", Nodes: map[string]*NodeD{}}
		sp.Nodes["start"] = &NodeD{Branching: &BranchingD{Branches: []BranchD{{Target: "listen"}}}}
		sp.Nodes["listen"] = &NodeD{Branching: &BranchingD{Type: "message", Branches: []BranchD{
			{Pattern: map[string]interface{}{"go": "spawn"}, Target: "doit"}}}}
		ops := [][]interface{}{
			{"emit", map[string]interface{}{"to": "captain", "update": map[string]interface{}{worker: map[string]interface{}{
				"spec": map[string]interface{}{"inline": InlineSpecJSON(c.Specs[names[0]])}}}}},
		}
		for k, nj := 0, 1+g.Intn(3); k < nj; k++ {
			ops = append(ops, []interface{}{"emit", map[string]interface{}{"d": 1.0, "to": worker, "tag": "job", "i": float64(k)}})
		}
		sp.Nodes["doit"] = &NodeD{Action: &Prog{Lang: "es", Ret: "bs", Ops: ops},
			Branching: &BranchingD{Type: "bindings", Branches: []BranchD{{Target: "listen"}}}}
		c.Specs["spawner"] = sp
		c.Init["s"] = CrewMachineD{Spec: "spawner", State: nil}
		c.History = append(c.History, map[string]interface{}{"to": "s", "go": "spawn"})
		if g.P(1, 2) {
			c.History = append(c.History, map[string]interface{}{"d": 2.0, "to": worker})
		}
	}
	if g.P(1, 25) {
		// a long cascade inside one input: a machine that keeps messaging itself until its counter
		// reaches a bound (nothing in the crew limits the number of fed-back messages)
		bound := []float64{40, 300, 1500}[g.Intn(3)]
		cd := &SpecD{Name: "countdown", Nodes: map[string]*NodeD{}}
		cd.Nodes["start"] = &NodeD{Branching: &BranchingD{Branches: []BranchD{{Target: "listen"}}}}
		cd.Nodes["listen"] = &NodeD{Branching: &BranchingD{Type: "message", Branches: []BranchD{
			{Pattern: map[string]interface{}{"tick": true}, Target: "hop"}}}}
		cd.Nodes["hop"] = &NodeD{Action: &Prog{Lang: "es", Ret: "bs", Ops: [][]interface{}{
			{"inc", "hops"}, {"emit", map[string]interface{}{"to": "k", "tick": true}}}},
			Branching: &BranchingD{Type: "bindings", Branches: []BranchD{
				{Pattern: map[string]interface{}{"hops": bound}, Target: "done"}, {Target: "listen"}}}}
		cd.Nodes["done"] = &NodeD{}
		c.Specs["countdown"] = cd
		c.Init["k"] = CrewMachineD{Spec: "countdown", State: nil}
		c.History = append(c.History, map[string]interface{}{"to": "k", "tick": true})
	}
	nh := 2 + g.Intn(7)
	for i := 0; i < nh; i++ {
		var m map[string]interface{}
		switch g.Intn(14) {
		case 0, 1: // create / re-create / replace spec and state
			mid := g.PickS(crewIds...)
			mm := map[string]interface{}{"spec": map[string]interface{}{"inline": InlineSpecJSON(c.Specs[g.PickS(names...)])}}
			if st := g.crewState(); st != nil {
				mm["state"] = stateJSON(st)
			}
			m = map[string]interface{}{"to": "captain", "update": map[string]interface{}{mid: mm}}
			live[mid] = true
		case 2: // replace the state of a machine (existing or not)
			mid := g.PickS(crewIds...)
			st := &StateD{Node: "listen", Bs: map[string]interface{}{"n": float64(100 + g.Intn(3))}}
			mm := map[string]interface{}{"state": stateJSON(st)}
			if !live[mid] && g.P(1, 2) {
				mm["spec"] = map[string]interface{}{"inline": InlineSpecJSON(c.Specs[g.PickS(names...)])}
				live[mid] = true
			}
			// (otherwise the machine exists without a spec for now: a later spec-only update
			// completes it, and from then on it is an ordinary machine like any other)
			m = map[string]interface{}{"to": "captain", "update": map[string]interface{}{mid: mm}}
		case 3: // replace the spec only
			mid := g.PickS(crewIds...)
			m = map[string]interface{}{"to": "captain", "update": map[string]interface{}{mid: map[string]interface{}{
				"spec": map[string]interface{}{"inline": InlineSpecJSON(c.Specs[g.PickS(names...)])}}}}
			live[mid] = true
		case 4: // delete
			mid := g.PickS(crewIds...)
			m = map[string]interface{}{"to": "captain", "delete": []interface{}{mid}}
			delete(live, mid)
		case 5:
			m = map[string]interface{}{"d": 0.0, "tag": "in"} // everybody
		case 6:
			m = map[string]interface{}{"d": 0.0, "to": "*"}
		case 7:
			m = map[string]interface{}{"d": 0.0, "to": []interface{}{g.PickS(crewIds...), g.PickS(crewIds...), 3.0, "nobody", g.PickS(crewIds...)}}
		case 8:
			m = map[string]interface{}{"d": 0.0, "to": g.Pick("nobody", map[string]interface{}{"x": 1.0}, 7.0, nil, true)}
		case 9:
			m = map[string]interface{}{"to": "timers", "x": 1.0}
		case 10:
			// a message of the last depth (no follow-ups) for everybody: every ordinary machine
			// counts it once
			if g.P(1, 2) {
				m = map[string]interface{}{"d": 2.0, "tag": "all"}
			} else {
				m = map[string]interface{}{"d": 2.0, "to": "*"}
			}
		default:
			m = map[string]interface{}{"d": float64(g.Intn(3)), "to": g.PickS(crewIds...)}
		}
		c.History = append(c.History, m)
	}
	return c
}
