package gen

import (
	"encoding/json"
	"fmt"
	"strings"
)

// The action DSL shared with the Lean model (Sheens/ES.lean).

type Prog struct {
	Ops     [][]interface{} `json:"ops"`
	Ret     string          `json:"ret"`
	Lang    string          `json:"lang"` // "es" | "native"
	Partial bool            `json:"partial,omitempty"`
}

type BranchD struct {
	Pattern interface{} `json:"pattern"`
	Guard   *Prog       `json:"guard"`
	Target  string      `json:"target"`
}

type BranchingD struct {
	Type     string    `json:"type"`
	Branches []BranchD `json:"branches"`
}

type NodeD struct {
	Action           *Prog       `json:"action"`
	Branching        *BranchingD `json:"branching"`
	UncompiledSource bool        `json:"uncompiledSource,omitempty"`
}

type SpecD struct {
	Name                string            `json:"name"`
	Nodes               map[string]*NodeD `json:"nodes"`
	ActionErrorBranches bool              `json:"actionErrorBranches,omitempty"`
	ActionErrorNode     string            `json:"actionErrorNode,omitempty"`
	NoErrorNode         bool              `json:"noErrorNode,omitempty"`
	Uncompiled          bool              `json:"uncompiled,omitempty"`
}

type StateD struct {
	Node string                 `json:"node"`
	Bs   map[string]interface{} `json:"bs"` // nil = nil bindings
}

// WalkCase is one Walk (or Step) call.
type WalkCase struct {
	Spec    *SpecD        `json:"spec"`
	St      StateD        `json:"st"`
	Msgs    []interface{} `json:"msgs"`
	Limit   *int          `json:"limit"` // nil = nil *Control
	Bp      []string      `json:"bp,omitempty"`
	Profile string        `json:"profile"`
}

func js(x interface{}) string {
	b, _ := json.Marshal(x)
	return string(b)
}

// JS renders a program as ECMAScript source for interpreters/ecmascript.
func (p *Prog) JS() string {
	var sb strings.Builder
	sb.WriteString("var bs = _.bindings || {};\n")
	pollute := false
	for _, op := range p.Ops {
		name := op[0].(string)
		switch name {
		case "set":
			fmt.Fprintf(&sb, "bs[%s] = %s;\n", js(op[1]), js(op[2]))
		case "del":
			fmt.Fprintf(&sb, "delete bs[%s];\n", js(op[1]))
		case "emit":
			fmt.Fprintf(&sb, "_.out(%s);\n", js(op[1]))
		case "emitb":
			fmt.Fprintf(&sb, "_.out({\"k\": %s, \"v\": (%s in bs) ? bs[%s] : null});\n", js(op[1]), js(op[1]), js(op[1]))
		case "inc":
			fmt.Fprintf(&sb, "bs[%s] = ((typeof bs[%s] === \"number\") ? bs[%s] : 0) + 1;\n", js(op[1]), js(op[1]), js(op[1]))
		case "fail":
			fmt.Fprintf(&sb, "throw %s;\n", js(op[1]))
		case "iffail":
			fmt.Fprintf(&sb, "if (%s in bs) { throw %s; }\n", js(op[1]), js(op[2]))
		case "clear":
			sb.WriteString("bs = {};\n")
		case "setnested":
			k := js(op[1])
			fmt.Fprintf(&sb, "if (typeof bs[%s] !== \"object\" || bs[%s] === null || Array.isArray(bs[%s])) { bs[%s] = {}; }\nbs[%s][%s] = %s;\n",
				k, k, k, k, k, js(op[2]), js(op[3]))
		case "markdeep":
			// an in-place update of every object nested in bs[k], through arrays and objects alike
			fmt.Fprintf(&sb, "if (%s in bs) { (function mk(x) { if (Array.isArray(x)) { for (var i = 0; i < x.length; i++) { mk(x[i]); } } else if (x !== null && typeof x === \"object\") { for (var kk in x) { mk(x[kk]); } x[%s] = %s; } })(bs[%s]); }\n",
				js(op[1]), js(op[2]), js(op[3]), js(op[1]))
		case "rejectUnless":
			fmt.Fprintf(&sb, "if (!(%s in bs)) { return null; }\n", js(op[1]))
		case "rejectIf":
			fmt.Fprintf(&sb, "if (bs[%s] === %s) { return null; }\n", js(op[1]), js(op[2]))
		case "pollute":
			// takes effect as the last thing the script does (see below): it must not disturb the
			// script's own loops
			pollute = true
		case "forin":
			fmt.Fprintf(&sb, "bs[%s] = (function(){ var c = 0; for (var kk in [1, 2]) { c++; } return c; })();\n", js(op[1]))
		case "loop":
			sb.WriteString("for(;;){}\n")
		case "emitBad":
			if len(op) > 1 && op[1] == "cycle" {
				// a value that contains itself cannot be serialised either
				sb.WriteString("var cyc = {\"to\": \"audit\"}; cyc.self = [cyc]; _.out(cyc);\n")
			} else {
				sb.WriteString("_.out(function(){});\n")
			}
		}
	}
	if pollute {
		sb.WriteString("Array.prototype.zz = 1; Object.prototype.yy = 1;\n")
	}
	switch p.Ret {
	case "null", "nilexe": // (a script has no way to hand back no execution at all: it returns null)
		sb.WriteString("return null;\n")
	case "scalar":
		sb.WriteString("return 3;\n")
	case "array":
		sb.WriteString("return [1];\n")
	case "fresh":
		sb.WriteString("return {\"fresh\": true};\n")
	case "nan":
		sb.WriteString("bs[\"bad\"] = 0/0;\nreturn bs;\n")
	case "getter":
		// the returned object computes a property when it is converted, and that code throws
		sb.WriteString("return {get boom(){ throw \"json: unsupported:getter\"; }};\n")
	case "cyclic":
		// bindings that contain themselves
		sb.WriteString("var r = {\"count\": 1}; r.me = [r];\nreturn r;\n") // same shape of cycle as the cyclic emission: the texts are equal
	default:
		sb.WriteString("return bs;\n")
	}
	return sb.String()
}

func (p *Prog) HasLoop() bool {
	if p == nil {
		return false
	}
	for _, op := range p.Ops {
		if op[0].(string) == "loop" {
			return true
		}
	}
	return false
}

func (s *SpecD) HasLoop() bool {
	for _, n := range s.Nodes {
		if n == nil {
			continue
		}
		if n.Action.HasLoop() {
			return true
		}
		if n.Branching != nil {
			for _, b := range n.Branching.Branches {
				if b.Guard.HasLoop() {
					return true
				}
			}
		}
	}
	return false
}

// ---------------------------------------------------------------------------
// generation

var nodeNames = []string{"start", "a", "b", "c", "d"}
var bkeys = []string{"count", "flag", "t", "keep!", "cfg!", "note"}

// boom returns a failure message that is unique to its site: the ECMAScript interpreter appends
// the source position to a thrown message, so two sites with the same message would give texts
// that differ in the implementation only after the position is normalised away.
func (g *G) boom() string {
	g.Seq++
	return fmt.Sprintf("boom:%d", g.Seq)
}

func (g *G) litValue() interface{} {
	switch g.Intn(8) {
	case 7:
		// empty containers: an empty array and `null` are different JSON, and a copy that turns one
		// into the other shows only after a round trip
		switch g.Intn(3) {
		case 0:
			return []interface{}{}
		case 1:
			return map[string]interface{}{}
		default:
			return map[string]interface{}{"items": []interface{}{}, "k": []interface{}{[]interface{}{}}}
		}
	case 0:
		return map[string]interface{}{"k": g.Scalar()}
	case 1:
		return []interface{}{g.Scalar(), 1.0}
	case 2:
		// objects inside arrays (inside objects): where a copy that is one level short shows
		if g.P(1, 2) {
			return []interface{}{map[string]interface{}{"id": g.Scalar()}, []interface{}{map[string]interface{}{"k": 1.0}}}
		}
		return map[string]interface{}{"items": []interface{}{map[string]interface{}{"id": g.Scalar()}, 2.0}}
	default:
		return g.Scalar()
	}
}

// Action generates a program for an action (guard=false) or a guard.
func (g *G) Action(guard bool, mode string) *Prog {
	p := &Prog{Lang: "es", Ret: "bs", Ops: [][]interface{}{}}
	if g.P(1, 3) {
		p.Lang = "native"
		p.Partial = g.P(1, 2)
	}
	n := 1 + g.Intn(4)
	for i := 0; i < n; i++ {
		switch g.Intn(16) {
		case 14:
			// a script that changes a built-in of its runtime …
			p.Ops = append(p.Ops, []interface{}{"pollute"})
		case 15:
			// … and one that would notice
			p.Ops = append(p.Ops, []interface{}{"forin", g.PickS("count", "flag", "note")})
		case 13:
			p.Ops = append(p.Ops, []interface{}{"markdeep", g.PickS("keep!", "cfg!", "note", "t", "?x", "flag"), g.PickS("seen", "id", "k"), g.Scalar()})
		case 0, 1:
			p.Ops = append(p.Ops, []interface{}{"set", g.PickS(bkeys...), g.litValue()})
		case 2:
			p.Ops = append(p.Ops, []interface{}{"del", g.PickS(append(bkeys, "?x", "?n")...)})
		case 3, 4, 11:
			if !guard || g.P(1, 3) {
				p.Ops = append(p.Ops, []interface{}{"emit", map[string]interface{}{"tag": g.PickS("e1", "e2", "e3"), "i": float64(i)}})
			}
		case 5:
			p.Ops = append(p.Ops, []interface{}{"emitb", g.PickS("count", "?x", "flag")})
		case 6, 7:
			p.Ops = append(p.Ops, []interface{}{"inc", "count"})
		case 8:
			p.Ops = append(p.Ops, []interface{}{"setnested", g.PickS("t", "note"), g.Key(), g.Scalar()})
		case 9:
			p.Ops = append(p.Ops, []interface{}{"set", "t", g.PickS(nodeNames...)})
		case 10:
			if g.P(1, 3) {
				p.Ops = append(p.Ops, []interface{}{"clear"})
			} else {
				p.Ops = append(p.Ops, []interface{}{"set", g.PickS("?x", "?n"), g.Scalar()})
			}
		default:
			p.Ops = append(p.Ops, []interface{}{"iffail", g.PickS("flag", "count", "?x"), g.boom()})
		}
	}
	// failure modes, at a random position so that emissions precede some of them
	if g.P(1, 5) || mode == "failing" && g.P(1, 2) {
		var f []interface{}
		switch g.Intn(8) {
		case 0, 1, 2, 3:
			f = []interface{}{"fail", g.boom()}
		case 4:
			f = []interface{}{"emitBad"}
			if g.P(1, 2) {
				f = append(f, "cycle")
			}
		case 5:
			if mode == "timeouts" {
				f = []interface{}{"loop"}
			} else {
				f = []interface{}{"fail", g.boom()}
			}
		default:
			f = nil
			p.Ret = g.PickS("scalar", "array", "null", "nan", "cyclic", "getter")
		}
		if f != nil {
			at := g.Intn(len(p.Ops) + 1)
			ops := append([][]interface{}{}, p.Ops[:at]...)
			ops = append(ops, f)
			p.Ops = append(ops, p.Ops[at:]...)
		}
	} else if g.P(1, 12) {
		p.Ret = g.PickS("fresh", "null")
		if p.Lang == "native" && g.P(1, 2) {
			// a native action or guard that hands back nothing at all: (nil, nil)
			p.Ret = "nilexe"
			p.Ops = [][]interface{}{}
		}
	}
	if guard {
		switch g.Intn(4) {
		case 0:
			p.Ops = append([][]interface{}{{"rejectUnless", g.PickS("?x", "count", "flag")}}, p.Ops...)
		case 1:
			p.Ops = append([][]interface{}{{"rejectIf", g.PickS("?x", "count"), g.Scalar()}}, p.Ops...)
		case 2:
			if g.P(1, 2) {
				p.Ret = "null"
			}
		}
	}
	return p
}

var msgVocab = []interface{}{
	map[string]interface{}{"k": "a"},
	map[string]interface{}{"k": "b", "n": 1.0},
	map[string]interface{}{"n": 2.0},
	map[string]interface{}{"k": "a", "n": 2.0, "extra": true},
	map[string]interface{}{"likes": "tacos"},
	map[string]interface{}{"k": map[string]interface{}{"deep": "a"}},
	"str",
	3.0,
	[]interface{}{1.0, 2.0},
	map[string]interface{}{"t": "b"},
	true,
	map[string]interface{}{"k": []interface{}{}},
	[]interface{}{1.0, 2.0, 3.0},
	map[string]interface{}{"k": "a", "t": "a"},
	map[string]interface{}{"k": []interface{}{map[string]interface{}{"id": 1.0}, map[string]interface{}{"id": 2.0}}},
	map[string]interface{}{"likes": map[string]interface{}{"items": []interface{}{map[string]interface{}{"id": "a"}}}},
}

func (g *G) Msg() interface{} {
	return DeepCopy(msgVocab[g.Intn(len(msgVocab))])
}

var msgPatterns = []interface{}{
	map[string]interface{}{"k": "a"},
	map[string]interface{}{"k": "?x"},
	map[string]interface{}{"n": "?n"},
	map[string]interface{}{"k": "?x", "n": "?n"},
	map[string]interface{}{"k": "b", "n": "?n"},
	map[string]interface{}{"likes": "?x"},
	map[string]interface{}{"k": map[string]interface{}{"deep": "?x"}},
	map[string]interface{}{"t": "?t"},
	map[string]interface{}{"k": "??opt"},
	"?any",
	"?",
	"str",
	[]interface{}{"?e"},
	[]interface{}{1.0, "?e"},
	[]interface{}{"?e", 2.0, 1.0},
	map[string]interface{}{},
	map[string]interface{}{"?p": "a"},
	map[string]interface{}{"n": "?<lim"},
}

// patterns with several matches against the multi-valued messages of msgVocab
var multiPatterns = []interface{}{
	[]interface{}{"?e"},
	[]interface{}{1.0, "?e"},
	map[string]interface{}{"?p": "a"},
	map[string]interface{}{"k": []interface{}{"?e"}},
	map[string]interface{}{"k": []interface{}{map[string]interface{}{"id": "?i"}}},
}

var bsPatterns = []interface{}{
	map[string]interface{}{"count": 1.0},
	map[string]interface{}{"count": 2.0},
	map[string]interface{}{"count": "?c"},
	map[string]interface{}{"flag": "?f"},
	map[string]interface{}{"flag": true},
	map[string]interface{}{"actionError": "?err"},
	map[string]interface{}{"error": "?err", "lastNode": "?ln"},
	map[string]interface{}{"lastBindings": map[string]interface{}{"count": "?c"}},
	map[string]interface{}{"t": map[string]interface{}{"a": "?v"}},
	map[string]interface{}{"keep!": "?k"},
	map[string]interface{}{"?x": "a"},
	map[string]interface{}{"count": "?<lim"},
	map[string]interface{}{},
	map[string]interface{}{"fresh": true},
	map[string]interface{}{"note": "??maybe"},
	// values produced by earlier actions, looked into (an integer inside an array is where an
	// in-memory state and its JSON round trip could differ)
	map[string]interface{}{"flag": []interface{}{1.0}},
	map[string]interface{}{"t": []interface{}{1.0}},
	map[string]interface{}{"note": []interface{}{1.0, "?other"}},
	map[string]interface{}{"count": []interface{}{1.0}},
	map[string]interface{}{"flag": []interface{}{}},
	map[string]interface{}{"?x": []interface{}{}},
	map[string]interface{}{"?x": []interface{}{map[string]interface{}{"seen": "?s"}}},
	map[string]interface{}{"keep!": []interface{}{map[string]interface{}{"seen": "?s"}}},
	map[string]interface{}{"lastBindings": map[string]interface{}{"?x": []interface{}{map[string]interface{}{"seen": "?s"}}}},
}

func (g *G) target() string {
	switch g.Intn(12) {
	case 0:
		return "nowhere"
	case 1:
		return "@t"
	case 2:
		return "error"
	default:
		return g.PickS(nodeNames...)
	}
}

func (g *G) branch(msgType bool, mode string) BranchD {
	b := BranchD{Target: g.target()}
	if g.P(4, 5) {
		if msgType {
			b.Pattern = DeepCopy(msgPatterns[g.Intn(len(msgPatterns))])
		} else {
			b.Pattern = DeepCopy(bsPatterns[g.Intn(len(bsPatterns))])
		}
	}
	if msgType && g.P(1, 10) {
		// a guarded branch whose pattern can match in several ways (the candidates come out of map
		// iteration in any order): the guard is native and treats every candidate alike — hands back
		// fixed bindings, says no, or fails — so the step's outcome does not depend on that order,
		// while the harness's log of guard calls shows whether the loop stopped at the first accept
		b.Pattern = DeepCopy(multiPatterns[g.Intn(len(multiPatterns))])
		gd := &Prog{Lang: "native", Ret: "fresh", Ops: [][]interface{}{}}
		switch g.Intn(6) {
		case 0:
			gd.Ret = "null"
		case 1:
			gd.Ops = append(gd.Ops, []interface{}{"fail", g.boom()})
		}
		b.Guard = gd
		return b
	}
	if g.P(1, 4) {
		// a guarded branch: keep to patterns that yield at most one candidate
		if a, is := b.Pattern.([]interface{}); is && len(a) > 0 {
			b.Pattern = map[string]interface{}{"k": "?x"}
		}
		if m, is := b.Pattern.(map[string]interface{}); is && len(m) == 1 {
			for k := range m {
				if strings.HasPrefix(k, "?") {
					b.Pattern = map[string]interface{}{"count": "?c"}
				}
			}
		}
		b.Guard = g.Action(true, mode)
	}
	return b
}

// Spec generates a small spec graph.  mode biases towards a property's interesting arms.
func (g *G) Spec(mode string) *SpecD {
	s := &SpecD{Name: g.PickS("", "s1"), Nodes: map[string]*NodeD{}}
	nn := 1 + g.Intn(len(nodeNames))
	for i := 0; i < nn; i++ {
		n := &NodeD{}
		msgType := g.P(1, 2)
		if !msgType || g.P(1, 25) {
			if g.P(2, 3) {
				n.Action = g.Action(false, mode)
			}
		}
		nb := g.Intn(4)
		if nb > 0 || g.P(1, 2) {
			n.Branching = &BranchingD{Branches: []BranchD{}}
			if msgType {
				n.Branching.Type = "message"
			} else if g.P(1, 2) {
				n.Branching.Type = "bindings"
			}
			for j := 0; j < nb; j++ {
				n.Branching.Branches = append(n.Branching.Branches, g.branch(msgType, mode))
			}
			if !msgType && nb > 0 && g.P(2, 3) {
				// default branch, so that action nodes usually go somewhere
				n.Branching.Branches = append(n.Branching.Branches, BranchD{Target: g.PickS(nodeNames...)})
			}
		}
		s.Nodes[nodeNames[i]] = n
	}
	if g.P(1, 4) {
		// an explicit error node that handles errors
		n := &NodeD{Branching: &BranchingD{Type: "bindings", Branches: []BranchD{
			{Pattern: map[string]interface{}{"error": "?err"}, Target: g.PickS("start", "a", "nowhere")}}}}
		if g.P(1, 2) {
			n.Branching.Type = "message"
			n.Branching.Branches[0].Pattern = DeepCopy(msgPatterns[g.Intn(len(msgPatterns))])
		}
		s.Nodes["error"] = n
	}
	switch g.Intn(6) {
	case 0, 1:
		s.ActionErrorBranches = true
	case 2:
		s.ActionErrorNode = g.PickS("a", "error", "oops")
	case 3:
		s.ActionErrorBranches = true
		s.ActionErrorNode = "a"
	}
	if g.P(1, 20) {
		s.NoErrorNode = true
	}
	return s
}

func (g *G) Bindings(mode string) map[string]interface{} {
	if g.P(1, 10) {
		return nil
	}
	bs := map[string]interface{}{}
	n := g.Intn(4)
	for i := 0; i < n; i++ {
		switch g.Intn(7) {
		case 0:
			bs["count"] = numbers[g.Intn(4)]
		case 1:
			bs["flag"] = g.P(1, 2)
		case 2:
			bs["keep!"] = g.litValue()
		case 3:
			bs["cfg!"] = g.Scalar()
		case 4:
			bs["?x"] = g.PickS("a", "b")
		case 5:
			bs["?<lim"] = numbers[g.Intn(len(numbers))]
		default:
			bs["t"] = g.PickS(nodeNames...)
		}
	}
	if mode == "permanent" {
		bs["keep!"] = g.litValue()
		if g.P(1, 2) {
			bs["cfg!"] = g.Value(2)
		}
	}
	return bs
}

// RecoveryCase is a scenario template: a message binds a structured value (arrays of objects), an
// action fails, and the node that handles the failure updates nested values of the bindings in
// place before the machine carries on.  What is random: the programs around the fixed skeleton,
// the handling style, the messages.
func (g *G) RecoveryCase(mode string) WalkCase {
	work := g.Action(false, mode)
	work.Lang = "es"
	if g.P(3, 4) {
		work.Ops = append(work.Ops, []interface{}{"fail", g.boom()})
	}
	key := g.PickS("?x", "keep!", "?x")
	fix := g.Action(false, mode)
	fix.Lang = g.PickS("es", "es", "native")
	fix.Ret = "bs"
	fix.Ops = append([][]interface{}{{"markdeep", key, g.PickS("seen", "id"), g.Scalar()}}, fix.Ops...)
	if g.P(1, 2) {
		fix.Ops = append(fix.Ops, []interface{}{"markdeep", "lastBindings", "again", g.Scalar()})
	}
	s := &SpecD{Name: "recovery", Nodes: map[string]*NodeD{
		"start": {Branching: &BranchingD{Type: "message", Branches: []BranchD{
			{Pattern: map[string]interface{}{"k": "?x"}, Target: "a"},
			{Pattern: map[string]interface{}{"likes": "?x"}, Target: "a"}}}},
		"a": {Action: work, Branching: &BranchingD{Type: "bindings", Branches: []BranchD{{Target: g.PickS("start", "b")}}}},
		"b": {Action: fix, Branching: &BranchingD{Type: "bindings", Branches: []BranchD{
			{Pattern: DeepCopy(bsPatterns[g.Intn(len(bsPatterns))]), Target: "start"}, {Target: "start"}}}},
	}}
	switch g.Intn(3) {
	case 0:
		s.ActionErrorNode = "b"
	case 1:
		s.ActionErrorBranches = true
		s.Nodes["a"].Branching.Branches = append([]BranchD{{Pattern: map[string]interface{}{"actionError": "?err"}, Target: "b"}}, s.Nodes["a"].Branching.Branches...)
	default:
		s.Nodes["error"] = &NodeD{Action: fix, Branching: &BranchingD{Type: "bindings", Branches: []BranchD{{Target: "start"}}}}
	}
	c := WalkCase{Spec: s, Profile: mode, St: StateD{Node: "start", Bs: g.Bindings(mode)}}
	if c.St.Bs == nil {
		c.St.Bs = map[string]interface{}{}
	}
	delete(c.St.Bs, "?x")
	c.St.Bs["keep!"] = []interface{}{map[string]interface{}{"id": g.Scalar()}, []interface{}{map[string]interface{}{"k": 1.0}}}
	c.Msgs = []interface{}{}
	for i, n := 0, 2+g.Intn(3); i < n; i++ {
		if g.P(2, 3) {
			c.Msgs = append(c.Msgs, DeepCopy(msgVocab[len(msgVocab)-1-g.Intn(2)]))
		} else {
			c.Msgs = append(c.Msgs, g.Msg())
		}
	}
	l := 12
	c.Limit = &l
	return c
}

// TimeoutThenGuardCase is a scenario template: an action spins until the deadline, the spec routes
// action errors through the node's branches, and the branch that handles the error has a guard
// that does not terminate either.  The guard starts under a context that is already over, so it
// is stopped at once and the step reports the timeout; nothing here depends on timing.
func (g *G) TimeoutThenGuardCase(mode string) WalkCase {
	spin := func() *Prog { return &Prog{Lang: "es", Ret: "bs", Ops: [][]interface{}{{"loop"}}} }
	act := spin()
	if g.P(1, 2) {
		act.Ops = append([][]interface{}{{"set", "count", 1.0}}, act.Ops...)
	}
	s := &SpecD{Name: "timeoutThenGuard", ActionErrorBranches: true, Nodes: map[string]*NodeD{
		"start": {Action: act, Branching: &BranchingD{Type: "bindings", Branches: []BranchD{
			{Pattern: map[string]interface{}{"actionError": "?err"}, Guard: spin(), Target: "a"},
			{Target: "b"}}}},
		"a": {}, "b": {},
	}}
	if g.P(1, 3) {
		s.ActionErrorNode = "b"
	}
	l := 3 + g.Intn(5)
	return WalkCase{Spec: s, Profile: mode, St: StateD{Node: "start", Bs: g.Bindings(mode)}, Msgs: []interface{}{}, Limit: &l}
}

func (g *G) WalkCase(mode string) WalkCase {
	if mode == "persist" && g.P(1, 3) || mode != "timeouts" && g.P(1, 10) {
		return g.RecoveryCase(mode)
	}
	if mode == "timeouts" && g.P(1, 6) {
		return g.TimeoutThenGuardCase(mode)
	}
	c := WalkCase{Spec: g.Spec(mode), Profile: mode}
	names := []string{}
	for _, n := range nodeNames {
		if _, have := c.Spec.Nodes[n]; have {
			names = append(names, n)
		}
	}
	c.St = StateD{Node: g.PickS(names...), Bs: g.Bindings(mode)}
	if g.P(1, 25) {
		c.St.Node = g.PickS("nowhere", "error")
	}
	nm := g.Intn(6)
	c.Msgs = []interface{}{}
	for i := 0; i < nm; i++ {
		c.Msgs = append(c.Msgs, g.Msg())
	}
	switch g.Intn(10) {
	case 0:
		c.Limit = nil
	case 1:
		l := g.Intn(3)
		c.Limit = &l
	case 2:
		l := -1
		c.Limit = &l
	default:
		l := 3 + g.Intn(12)
		c.Limit = &l
	}
	if c.Limit != nil && g.P(1, 8) {
		c.Bp = []string{g.PickS(nodeNames...)}
	}
	// an expired context interrupts later ECMAScript runs at an unpredictable point:
	// where an action spins until the deadline, the guards of that node are native
	for _, n := range c.Spec.Nodes {
		if n.Action.HasLoop() && n.Branching != nil {
			for i := range n.Branching.Branches {
				if gd := n.Branching.Branches[i].Guard; gd != nil {
					gd.Lang = "native"
				}
			}
		}
	}
	return c
}
