package main

// Added to /repo/cmd/mcrew at build time by `go test -overlay` (nothing is written into /repo).
// Drives Service / Storage in-process for the correspondence run of C14 (routing) and C16.

import (
	"bufio"
	"context"
	"encoding/json"
	"fmt"
	"os"
	"path/filepath"
	"sort"
	"strings"
	"sync"
	"sync/atomic"
	"testing"
	"time"

	"github.com/Comcast/sheens/core"
	"github.com/Comcast/sheens/crew"
	"github.com/Comcast/sheens/match"
)

type verifCase struct {
	Op       string                   `json:"op"`
	Id       int                      `json:"id"`
	Specs    json.RawMessage          `json:"specs"`
	SpecYaml map[string]interface{}   `json:"specYaml"`
	Ops      []map[string]interface{} `json:"ops"`
	Profile  string                   `json:"profile"`
	Go       map[string]interface{}   `json:"go"`
	Probe    map[string]interface{}   `json:"probe,omitempty"`
}

func verifNorm(x interface{}) interface{} {
	js, _ := json.Marshal(x)
	var y interface{}
	json.Unmarshal(js, &y)
	return y
}

// verifNormErr removes source positions from error texts that travel through bindings.
func verifNormErr(x interface{}) interface{} {
	switch vv := x.(type) {
	case map[string]interface{}:
		m := make(map[string]interface{}, len(vv))
		for k, v := range vv {
			m[k] = verifNormErr(v)
		}
		return m
	case []interface{}:
		a := make([]interface{}, len(vv))
		for i, v := range vv {
			a[i] = verifNormErr(v)
		}
		return a
	case string:
		if i := strings.Index(vv, " at <eval>"); i >= 0 {
			return vv[:i]
		}
		return vv
	default:
		return x
	}
}

func verifStateJSON(node string, bs match.Bindings) interface{} {
	var b interface{}
	if bs != nil {
		b = verifNormErr(verifNorm(map[string]interface{}(bs)))
	}
	return map[string]interface{}{"node": node, "bs": b}
}

func verifMem(s *Service) map[string]interface{} {
	v := map[string]interface{}{}
	s.crew.RLock()
	for mid, m := range s.crew.Machines {
		name := ""
		if m.SpecSource != nil {
			name = m.SpecSource.Name
		}
		v[mid] = map[string]interface{}{"spec": name, "state": verifStateJSON(m.State.NodeName, m.State.Bs)}
	}
	s.crew.RUnlock()
	return v
}

func verifStore(ctx context.Context, s *Service, down bool) map[string]interface{} {
	if down {
		s.store.Open(ctx)
		defer s.store.Close(ctx)
	}
	v := map[string]interface{}{}
	mss, err := s.store.GetCrew(ctx, s.crewName)
	if err != nil {
		return map[string]interface{}{"err": err.Error()}
	}
	for _, ms := range mss {
		name := ""
		if ms.SpecSource != nil {
			name = ms.SpecSource.Name
		}
		v[ms.Mid] = map[string]interface{}{"spec": name, "state": verifStateJSON(ms.NodeName, ms.Bs)}
		if !verifPlain(map[string]interface{}(ms.Bs)) {
			verifReloadPlain = false
		}
	}
	return v
}

// verifReloadPlain: every state read back from the store is plain JSON data as the engine knows it
// (nil, bool, float64, string, []interface{}, map[string]interface{}) — a reloaded machine is made
// of the same kinds of values as one that stayed in memory.
var verifReloadPlain = true

func verifPlain(x interface{}) bool {
	switch vv := x.(type) {
	case nil, bool, float64, string:
		return true
	case []interface{}:
		for _, y := range vv {
			if !verifPlain(y) {
				return false
			}
		}
		return true
	case map[string]interface{}:
		for _, y := range vv {
			if !verifPlain(y) {
				return false
			}
		}
		return true
	}
	return false
}

func verifRunCase(dir string, c *verifCase) {
	defer func() {
		if r := recover(); r != nil {
			c.Go = map[string]interface{}{"panic": fmt.Sprint(r)}
		}
	}()
	ctx, cancel := context.WithCancel(context.Background())
	defer cancel()
	specDir := filepath.Join(dir, fmt.Sprintf("specs-%d", c.Id))
	os.MkdirAll(specDir, 0o755)
	defer os.RemoveAll(specDir)
	for name, spec := range c.SpecYaml {
		js, _ := json.Marshal(spec)
		os.WriteFile(filepath.Join(specDir, name+".yaml"), js, 0o644)
	}
	dbFile := filepath.Join(dir, fmt.Sprintf("case-%d.db", c.Id))
	os.Remove(dbFile)
	defer os.Remove(dbFile)
	s, err := NewService(context.Background(), specDir, dbFile, "lib")
	if err != nil {
		c.Go = map[string]interface{}{"bootErr": err.Error()}
		return
	}
	down := false
	steps := []interface{}{}
	for _, op := range c.Ops {
		res := "ok"
		switch op["op"] {
		case "storeDown":
			if !down {
				s.store.Close(ctx)
				down = true
			}
		case "storeUp":
			if down {
				s.store.Open(ctx)
				down = false
			}
		case "add":
			var bs match.Bindings
			if m, is := op["bs"].(map[string]interface{}); is {
				bs = match.Bindings(verifNorm(m).(map[string]interface{}))
			}
			node, _ := op["node"].(string)
			err := s.AddMachine(ctx, op["spec"].(string), op["id"].(string), node, bs)
			if err == Exists {
				res = "exists"
			} else if err != nil {
				res = "writeFailed"
			}
		case "rem":
			if err := s.RemMachine(ctx, op["id"].(string)); err != nil {
				res = "writeFailed"
			}
		case "process":
			_, err := s.Process(ctx, verifNorm(op["msg"]), nil)
			if err != nil {
				if strings.Contains(err.Error(), "database not open") {
					res = "writeFailed"
				} else {
					res = "specError"
				}
			}
		}
		steps = append(steps, map[string]interface{}{"res": res, "mem": verifMem(s), "store": verifStore(ctx, s, down)})
	}
	c.Go = map[string]interface{}{"steps": steps}
	if c.Probe == nil {
		c.Probe = map[string]interface{}{}
	}
	c.Probe["storeReloadPlain"] = verifReloadPlain
	verifReloadPlain = true
	if !down {
		c.Probe["noLostUpdate"] = verifConcurrent(ctx, s)
		if c.Id%20 == 2 {
			c.Probe["readIsSnapshot"] = verifReadSnapshot(ctx, s)
		}
		if c.Id%3 == 0 {
			c.Probe["emissionsFedBackOnce"] = verifFanout(ctx, s, specDir)
		}
		if c.Id%3 == 1 {
			c.Probe["emissionsReportedUnderStoreFault"] = verifFanoutStoreDown(ctx, s, specDir)
		}
	}
	if !down {
		s.store.Close(ctx)
	}
}

// verifConcurrent: concurrent clients (process, add, remove, read-crew); every counting machine
// must end with exactly the number of messages addressed to it (no update lost) and memory must
// equal the store.
// verifWait waits for the group, but not for ever: a client that never comes back (a lock that is
// never released) is a failure of the probe, not of the run.
var verifStuck bool // a client got stuck in an earlier case: later cases do not wait again

func verifWait(wg *sync.WaitGroup, d time.Duration) bool {
	if verifStuck {
		d = 200 * time.Millisecond
	}
	done := make(chan bool)
	go func() { wg.Wait(); close(done) }()
	select {
	case <-done:
		return true
	case <-time.After(d):
		verifStuck = true
		return false
	}
}

func verifConcurrent(ctx context.Context, s *Service) bool {
	mids := []string{}
	before := map[string]float64{}
	s.crew.RLock()
	for mid, m := range s.crew.Machines {
		if m.State.NodeName == "listen" || m.State.NodeName == "start" {
			mids = append(mids, mid)
			n, _ := m.State.Bs["n"].(float64)
			before[mid] = n
		}
	}
	s.crew.RUnlock()
	sort.Strings(mids)
	if len(mids) == 0 {
		return true
	}
	const clients, per = 6, 5
	var wg sync.WaitGroup
	for k := 0; k < clients; k++ {
		wg.Add(1)
		go func(k int) {
			defer wg.Done()
			for i := 0; i < per; i++ {
				for _, mid := range mids {
					s.Process(ctx, map[string]interface{}{"to": mid, "d": 2.0}, nil)
				}
				switch (k + i) % 3 {
				case 0:
					s.AddMachine(ctx, "nospec", fmt.Sprintf("tmp-%d-%d", k, i), "idle", nil)
				case 1:
					s.RemMachine(ctx, fmt.Sprintf("tmp-%d-%d", k, i-1))
				default:
					s.crew.Copy()
				}
			}
		}(k)
	}
	if !verifWait(&wg, 20*time.Second) {
		return false
	}
	ok := true
	// several clients add the same new id at once: one is told it succeeded, the others that it exists
	var won, lost int32
	for k := 0; k < 8; k++ {
		wg.Add(1)
		go func() {
			defer wg.Done()
			switch err := s.AddMachine(ctx, "nospec", "contested", "idle", nil); err {
			case nil:
				atomic.AddInt32(&won, 1)
			case Exists:
				atomic.AddInt32(&lost, 1)
			}
		}()
	}
	if !verifWait(&wg, 20*time.Second) {
		return false
	}
	if won != 1 || lost != 7 {
		ok = false
	}
	s.RemMachine(ctx, "contested")
	s.crew.RLock()
	for _, mid := range mids {
		m := s.crew.Machines[mid]
		n, _ := m.State.Bs["n"].(float64)
		if m.State.NodeName != "error" && n != before[mid]+clients*per {
			ok = false
		}
	}
	s.crew.RUnlock()
	mem, store := verifMem(s), verifStore(ctx, s, false)
	a, _ := json.Marshal(mem)
	b, _ := json.Marshal(store)
	if string(a) != string(b) {
		ok = false
	}
	return ok
}

// verifReadSnapshot: a read of the crew is a snapshot.  One writer sends a message to counting
// machine A, then one to counting machine B, over and over; every state between two requests has
// A's count equal to B's or one ahead.  Readers copy the crew meanwhile (a few idle machines with
// large bindings make a copy take its time): what a reader sees must be such a state.
func verifReadSnapshot(ctx context.Context, s *Service) bool {
	mids := []string{}
	before := map[string]float64{}
	s.crew.RLock()
	for mid, m := range s.crew.Machines {
		if m.State.NodeName == "listen" {
			mids = append(mids, mid)
			n, _ := m.State.Bs["n"].(float64)
			before[mid] = n
		}
	}
	s.crew.RUnlock()
	sort.Strings(mids)
	if len(mids) < 2 {
		return true
	}
	a, b := mids[0], mids[1]
	big := match.Bindings{}
	for i := 0; i < 20000; i++ {
		big[fmt.Sprintf("k%d", i)] = float64(i)
	}
	for i := 0; i < 3; i++ {
		s.AddMachine(ctx, "nospec", fmt.Sprintf("big-%d", i), "idle", big)
	}
	defer func() {
		for i := 0; i < 3; i++ {
			s.RemMachine(ctx, fmt.Sprintf("big-%d", i))
		}
	}()
	count := func(c *crew.Crew, mid string) (float64, bool) {
		m := c.Machines[mid]
		if m == nil || m.State == nil || m.State.NodeName != "listen" {
			return 0, false
		}
		n, _ := m.State.Bs["n"].(float64)
		return n - before[mid], true
	}
	var stop int32
	ok := int32(1)
	var wg sync.WaitGroup
	for r := 0; r < 4; r++ {
		wg.Add(1)
		go func() {
			defer wg.Done()
			for atomic.LoadInt32(&stop) == 0 {
				c := s.crew.Copy()
				na, okA := count(c, a)
				nb, okB := count(c, b)
				if okA && okB && !(na == nb || na == nb+1) {
					atomic.StoreInt32(&ok, 0)
				}
			}
		}()
	}
	for i := 0; i < 30; i++ {
		s.Process(ctx, map[string]interface{}{"to": a, "d": 2.0}, nil)
		s.Process(ctx, map[string]interface{}{"to": b, "d": 2.0}, nil)
	}
	atomic.StoreInt32(&stop, 1)
	if !verifWait(&wg, 20*time.Second) {
		return false
	}
	return ok == 1
}

// verifFanout: one action emits several messages in a single stride; the service feeds each of
// them back (asynchronously); a recorder machine must see every one of them exactly once.
func verifFanout(ctx context.Context, s *Service, specDir string) bool {
	const k = 6
	fan := map[string]interface{}{"name": "vfan", "nodes": map[string]interface{}{
		"start":  map[string]interface{}{"branching": map[string]interface{}{"branches": []interface{}{map[string]interface{}{"target": "listen"}}}},
		"listen": map[string]interface{}{"branching": map[string]interface{}{"type": "message", "branches": []interface{}{map[string]interface{}{"pattern": map[string]interface{}{"fan": "?n"}, "target": "emit"}}}},
		"emit": map[string]interface{}{"action": map[string]interface{}{"interpreter": "ecmascript",
			"source": fmt.Sprintf("for (var i = 0; i < %d; i++) { _.out({\"to\": \"vrec\", \"i\": i}); } return {};", k)},
			"branching": map[string]interface{}{"branches": []interface{}{map[string]interface{}{"target": "listen"}}}}}}
	rec := map[string]interface{}{"name": "vrec", "nodes": map[string]interface{}{
		"start":  map[string]interface{}{"branching": map[string]interface{}{"branches": []interface{}{map[string]interface{}{"target": "listen"}}}},
		"listen": map[string]interface{}{"branching": map[string]interface{}{"type": "message", "branches": []interface{}{map[string]interface{}{"pattern": map[string]interface{}{"i": "?i"}, "target": "rec"}}}},
		"rec": map[string]interface{}{"action": map[string]interface{}{"interpreter": "ecmascript",
			"source": "var b = _.bindings; var key = \"seen\" + b[\"?i\"]; b[key] = (b[key] || 0) + 1; delete b[\"?i\"]; return b;"},
			"branching": map[string]interface{}{"branches": []interface{}{map[string]interface{}{"target": "listen"}}}}}}
	for name, spec := range map[string]interface{}{"vfan": fan, "vrec": rec} {
		js, _ := json.Marshal(spec)
		os.WriteFile(filepath.Join(specDir, name+".yaml"), js, 0o644)
	}
	if err := s.AddMachine(ctx, "vfan", "vfan", "start", nil); err != nil {
		return true
	}
	if err := s.AddMachine(ctx, "vrec", "vrec", "start", nil); err != nil {
		return true
	}
	if _, err := s.Process(ctx, map[string]interface{}{"to": "vfan", "fan": 1.0}, nil); err != nil {
		return true
	}
	// the re-injection is asynchronous: wait until the recorder has settled
	total := func() (int, bool) {
		s.crew.RLock()
		defer s.crew.RUnlock()
		m := s.crew.Machines["vrec"]
		sum, each := 0, true
		for i := 0; i < k; i++ {
			n, _ := m.State.Bs[fmt.Sprintf("seen%d", i)].(float64)
			sum += int(n)
			if n != 1 {
				each = false
			}
		}
		return sum, each
	}
	deadline := time.Now().Add(3 * time.Second)
	for time.Now().Before(deadline) {
		if sum, _ := total(); sum >= k {
			break
		}
		time.Sleep(10 * time.Millisecond)
	}
	time.Sleep(50 * time.Millisecond) // a duplicate, if any, would arrive now
	_, each := total()
	s.RemMachine(ctx, "vfan")
	s.RemMachine(ctx, "vrec")
	return each
}

// verifFanoutStoreDown: the store fails while a machine that emits k messages is processed.  The
// machine's state does not advance (C16), yet what its action emitted is still handed to the host
// (Service.Emitted) once each and fed back — emission is not a part of the write.
func verifFanoutStoreDown(ctx context.Context, s *Service, specDir string) bool {
	const k = 4
	fan := map[string]interface{}{"name": "vfan2", "nodes": map[string]interface{}{
		"start":  map[string]interface{}{"branching": map[string]interface{}{"branches": []interface{}{map[string]interface{}{"target": "listen"}}}},
		"listen": map[string]interface{}{"branching": map[string]interface{}{"type": "message", "branches": []interface{}{map[string]interface{}{"pattern": map[string]interface{}{"fan": "?n"}, "target": "emit"}}}},
		"emit": map[string]interface{}{"action": map[string]interface{}{"interpreter": "ecmascript",
			"source": fmt.Sprintf("for (var i = 0; i < %d; i++) { _.out({\"to\": \"nobody-there\", \"j\": i}); } return {};", k)},
			"branching": map[string]interface{}{"branches": []interface{}{map[string]interface{}{"target": "listen"}}}}}}
	js, _ := json.Marshal(fan)
	os.WriteFile(filepath.Join(specDir, "vfan2.yaml"), js, 0o644)
	if err := s.AddMachine(ctx, "vfan2", "vfan2", "start", nil); err != nil {
		return true
	}
	reported := make(chan interface{}, 64)
	old := s.Emitted
	s.Emitted = reported
	s.store.Close(ctx)
	_, err := s.Process(ctx, map[string]interface{}{"to": "vfan2", "fan": 1.0}, nil)
	time.Sleep(60 * time.Millisecond) // the re-injected messages (addressed to nobody) settle
	s.store.Open(ctx)
	s.Emitted = old
	seen := map[float64]int{}
	n := 0
drain:
	for {
		select {
		case m := <-reported:
			n++
			if mm, is := m.(map[string]interface{}); is {
				if j, is := mm["j"].(float64); is {
					seen[j]++
				}
			}
		default:
			break drain
		}
	}
	s.RemMachine(ctx, "vfan2")
	if err == nil {
		return true // the store did not fail: nothing to judge
	}
	if n != k {
		return false
	}
	for j := 0; j < k; j++ {
		if seen[float64(j)] != 1 {
			return false
		}
	}
	return true
}

func TestVerifMCrewDriver(t *testing.T) {
	in, outp := os.Getenv("VERIF_CASES"), os.Getenv("VERIF_OUT")
	if in == "" || outp == "" {
		t.Skip("not a verification run")
	}
	f, err := os.Open(in)
	if err != nil {
		t.Fatal(err)
	}
	defer f.Close()
	o, err := os.Create(outp)
	if err != nil {
		t.Fatal(err)
	}
	defer o.Close()
	w := bufio.NewWriter(o)
	defer w.Flush()
	dir := filepath.Dir(outp)
	sc := bufio.NewScanner(f)
	sc.Buffer(make([]byte, 1<<20), 1<<26)
	enc := json.NewEncoder(w)
	_ = core.DefaultControl
	for sc.Scan() {
		var c verifCase
		if err := json.Unmarshal(sc.Bytes(), &c); err != nil {
			continue
		}
		verifRunCase(dir, &c)
		enc.Encode(&c)
	}
}
