package main

// Added to /repo/cmd/mcrew at build time by `go test -overlay`.  Replays scripted timer
// scenarios against the real Timers and logs every request result and every firing.

import (
	"bufio"
	"context"
	"encoding/json"
	"os"
	"sort"
	"strconv"
	"sync"
	"testing"
	"time"
)

type verifTStep struct {
	Do    string `json:"do"`
	Id    string `json:"id,omitempty"`
	Delay int    `json:"delay,omitempty"`
	Tag   int    `json:"tag,omitempty"`
	Ms    int    `json:"ms,omitempty"`
}

type verifTCase struct {
	Op      string                  `json:"op"`
	Id      int                     `json:"id"`
	Impl    string                  `json:"impl"`
	Script  []verifTStep            `json:"script"`
	OnFire  map[string][]verifTStep `json:"onFire"`
	Profile string                  `json:"profile"`
	Go      map[string]interface{}  `json:"go"`
}

type verifTLog struct {
	sync.Mutex
	t0     time.Time
	events []map[string]interface{}
}

func (l *verifTLog) us(t time.Time) int64 { return t.Sub(l.t0).Microseconds() }

func (l *verifTLog) add(ev map[string]interface{}) {
	l.Lock()
	ev["t"] = l.us(time.Now())
	l.events = append(l.events, ev)
	l.Unlock()
}

func verifRunTimers(c *verifTCase) {
	lg := &verifTLog{t0: time.Now()}
	ctx, cancel := context.WithCancel(context.Background())
	defer cancel()
	var ts *Timers
	var doStep func(ctx context.Context, st verifTStep, who string)
	emitter := func(ectx context.Context, m interface{}) error {
		mm, _ := m.(map[string]interface{})
		tag, _ := mm["tag"].(int)
		lg.add(map[string]interface{}{"ev": "fire", "tag": tag})
		// the handler of a firing message works under the context the timers hand to the emitter
		// (Service.Process passes it on to the requests the handler makes)
		for _, st := range c.OnFire[strconv.Itoa(tag)] {
			doStep(ectx, st, "handler")
		}
		return nil
	}
	ts = NewTimers(emitter)
	doStep = func(ctx context.Context, st verifTStep, who string) {
		switch st.Do {
		case "add":
			before := lg.us(time.Now())
			err := ts.Add(ctx, st.Id, map[string]interface{}{"tag": st.Tag}, time.Duration(st.Delay)*time.Millisecond)
			res := "ok"
			if err == Exists {
				res = "exists"
			} else if err != nil {
				res = "err"
			}
			lg.add(map[string]interface{}{"ev": "add", "id": st.Id, "delay": st.Delay * 1000, "tag": st.Tag, "res": res, "at": before, "who": who})
		case "rem":
			err := ts.Rem(ctx, st.Id)
			res := "ok"
			if err == NotFound {
				res = "notfound"
			} else if err != nil {
				res = "err"
			}
			lg.add(map[string]interface{}{"ev": "rem", "id": st.Id, "res": res, "who": who})
		case "sleep", "busy":
			time.Sleep(time.Duration(st.Ms) * time.Millisecond)
		case "pending":
			ts.Lock()
			ids := []string{}
			for id := range ts.timers {
				ids = append(ids, id)
			}
			ts.Unlock()
			sort.Strings(ids)
			lg.add(map[string]interface{}{"ev": "pending", "ids": ids})
		}
	}
	for _, st := range c.Script {
		doStep(ctx, st, "requester")
	}
	lg.Lock()
	c.Go = map[string]interface{}{"events": lg.events}
	lg.Unlock()
}

func TestVerifTimersDriver(t *testing.T) {
	in, outp := os.Getenv("VERIF_CASES"), os.Getenv("VERIF_OUT")
	if in == "" || outp == "" {
		t.Skip("not a verification run")
	}
	f, err := os.Open(in)
	if err != nil {
		t.Fatal(err)
	}
	defer f.Close()
	var cases []*verifTCase
	sc := bufio.NewScanner(f)
	sc.Buffer(make([]byte, 1<<20), 1<<26)
	for sc.Scan() {
		var c verifTCase
		if json.Unmarshal(sc.Bytes(), &c) == nil && c.Impl == "mcrew" {
			cases = append(cases, &c)
		}
	}
	sem := make(chan bool, 12)
	var wg sync.WaitGroup
	for _, c := range cases {
		wg.Add(1)
		sem <- true
		go func(c *verifTCase) {
			defer wg.Done()
			defer func() { <-sem }()
			verifRunTimers(c)
		}(c)
	}
	wg.Wait()
	o, err := os.Create(outp)
	if err != nil {
		t.Fatal(err)
	}
	defer o.Close()
	w := bufio.NewWriter(o)
	defer w.Flush()
	enc := json.NewEncoder(w)
	for _, c := range cases {
		enc.Encode(c)
	}
}
