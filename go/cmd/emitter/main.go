// Command emitter is the subprocess driven by the expectation tool in the C19 correspondence run:
// it prints the lines of the file given as its first argument and then either exits ("eof") or
// waits for its stdin to be closed.
package main

import (
	"bufio"
	"io"
	"os"
)

func main() {
	data, err := os.ReadFile(os.Args[1])
	if err != nil {
		os.Exit(3)
	}
	w := bufio.NewWriter(os.Stdout)
	w.Write(data)
	w.Flush()
	if len(os.Args) > 2 && os.Args[2] == "eof" {
		return
	}
	io.Copy(io.Discard, os.Stdin)
}
