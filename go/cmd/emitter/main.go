// Command emitter is the subprocess driven by the expectation tool in the C19 correspondence run:
// it prints the lines of the file given as its first argument — a line "#pause <ms>" is not printed:
// what came before it is flushed as one write and the emitter waits — and then either exits ("eof")
// or waits for its stdin to be closed.
package main

import (
	"bufio"
	"bytes"
	"io"
	"os"
	"strconv"
	"time"
)

func main() {
	data, err := os.ReadFile(os.Args[1])
	if err != nil {
		os.Exit(3)
	}
	w := bufio.NewWriterSize(os.Stdout, 1<<16)
	for _, line := range bytes.SplitAfter(data, []byte("\n")) {
		if bytes.HasPrefix(line, []byte("#pause ")) {
			ms, _ := strconv.Atoi(string(bytes.TrimSpace(line[len("#pause "):])))
			w.Flush()
			time.Sleep(time.Duration(ms) * time.Millisecond)
			continue
		}
		w.Write(line)
	}
	w.Flush()
	if len(os.Args) > 2 && os.Args[2] == "eof" {
		return
	}
	io.Copy(io.Discard, os.Stdin)
}
