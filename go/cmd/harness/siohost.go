package main

// siohostgen: cases for the hosted-crew run (go/overlay/sio_host_test.go, added to package sio with
// `go test -overlay`): the histories of the crew generator, fully rendered — the initial machines
// arrive as captain requests, as a host's user would create them.

import (
	"encoding/json"
	"sort"

	"verifharness/gen"
)

func init() {
	ops["siohostgen"] = func(cfg Config) {
		enc := json.NewEncoder(out)
		g := gen.New(cfg.Seed)
		for i := 0; i < cfg.N; i++ {
			c := g.CrewCase("noresurrect")
			mids := []string{}
			for mid := range c.Init {
				mids = append(mids, mid)
			}
			sort.Strings(mids)
			history := []interface{}{}
			for _, mid := range mids {
				md := c.Init[mid]
				mm := map[string]interface{}{"spec": map[string]interface{}{"inline": gen.InlineSpecJSON(c.Specs[md.Spec])}}
				if md.State != nil {
					sm := map[string]interface{}{"node": md.State.Node}
					if md.State.Bs != nil {
						sm["bs"] = md.State.Bs
					}
					mm["state"] = sm
				}
				history = append(history, map[string]interface{}{"to": "captain", "update": map[string]interface{}{mid: mm}})
			}
			history = append(history, c.History...)
			enc.Encode(map[string]interface{}{"op": "siohost", "id": i, "limit": c.Limit, "history": history, "profile": c.Profile})
		}
	}
}
