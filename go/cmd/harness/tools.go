package main

import (
	"bytes"
	"context"
	"encoding/json"
	"fmt"
	"regexp"
	"sort"
	"strings"

	"github.com/Comcast/sheens/core"
	"github.com/Comcast/sheens/tools"

	"verifharness/gen"
)

func init() {
	ops["tools"] = runTools
}

type bufCloser struct{ bytes.Buffer }

func (b *bufCloser) Close() error { return nil }

var (
	dotNodeRe = regexp.MustCompile(`(?m)^  (.*?) \[shape="[^"]*", style="`)
	dotEdgeRe = regexp.MustCompile(`(?m)^  (.*?) -> (.*?) \[ color="`)
	mmNodeRe  = regexp.MustCompile(`(?m)^  (n\d+)[\(\[]"(.*?)"[\)\]]$`)
	mmEdgeRe  = regexp.MustCompile(`(?ms)^  (n\d+) (?:-- "<pre>.*?</pre>")? ?--> (n\d+)$`)
)

func sortedStrings(xs []string) []interface{} {
	s := append([]string{}, xs...)
	sort.Strings(s)
	acc := []interface{}{}
	for _, x := range s {
		acc = append(acc, x)
	}
	return acc
}

func runOneTools(id int, d *gen.SpecD) map[string]interface{} {
	line := map[string]interface{}{"op": "tools", "id": id}
	spec, err := buildSpec(context.Background(), d)
	if err != nil {
		line["go"] = map[string]interface{}{"compileErr": err.Error()}
		line["tspec"] = map[string]interface{}{}
		return line
	}
	// the structural view of the compiled spec, for the model
	ts := map[string]interface{}{}
	for name, n := range spec.Nodes {
		tn := map[string]interface{}{"hasAction": n.Action != nil || n.ActionSource != nil, "actionInterp": nil, "branches": nil}
		if n.ActionSource != nil {
			tn["actionInterp"] = n.ActionSource.Interpreter
		}
		if n.Branches != nil {
			bs := []interface{}{}
			for _, b := range n.Branches.Branches {
				tb := map[string]interface{}{"target": b.Target, "hasGuard": b.Guard != nil || b.GuardSource != nil, "guardInterp": nil}
				if b.GuardSource != nil {
					tb["guardInterp"] = b.GuardSource.Interpreter
				}
				bs = append(bs, tb)
			}
			tn["branches"] = bs
		}
		ts[name] = tn
	}
	line["tspec"] = ts
	obs := map[string]interface{}{}
	func() {
		defer func() {
			if r := recover(); r != nil {
				obs["panic"] = fmt.Sprint(r)
			}
		}()
		a, err := tools.Analyze(spec)
		if err != nil {
			obs["analysisErr"] = err.Error()
		} else {
			obs["analysis"] = analysisObs(a)
			// a result belongs to its caller: the analysis handed out for the previous spec still
			// says what it said when it was returned
			if prevAnalysis != nil {
				line["probe"] = map[string]interface{}{"resultsIndependent": gen.Canon(analysisObs(prevAnalysis)) == prevAnalysisText}
			}
			prevAnalysis, prevAnalysisText = a, gen.Canon(obs["analysis"])
		}
		var db bufCloser
		if err := tools.Dot(spec, &db, "", ""); err != nil {
			obs["dotErr"] = err.Error()
		}
		nodes := []string{}
		for _, m := range dotNodeRe.FindAllStringSubmatch(db.String(), -1) {
			nodes = append(nodes, m[1])
		}
		edges := map[string]interface{}{}
		for name, n := range spec.Nodes {
			if n.Branches != nil {
				edges[name] = []interface{}{}
			}
		}
		for _, m := range dotEdgeRe.FindAllStringSubmatch(db.String(), -1) {
			l, _ := edges[m[1]].([]interface{})
			edges[m[1]] = append(l, m[2])
		}
		obs["dot"] = map[string]interface{}{"nodes": sortedStrings(nodes), "edges": edges}
		var mb bufCloser
		if err := tools.Mermaid(spec, &mb, nil, "", ""); err != nil {
			obs["mermaidErr"] = err.Error()
		}
		names := map[string]string{}
		mnodes := []string{}
		for _, m := range mmNodeRe.FindAllStringSubmatch(mb.String(), -1) {
			names[m[1]] = m[2]
			mnodes = append(mnodes, m[2])
		}
		medges := map[string]interface{}{}
		for name, n := range spec.Nodes {
			if n.Branches != nil {
				medges[name] = []interface{}{}
			}
		}
		for _, m := range mmEdgeRe.FindAllStringSubmatch(mb.String(), -1) {
			from := names[m[1]]
			l, _ := medges[from].([]interface{})
			medges[from] = append(l, names[m[2]])
		}
		obs["mermaid"] = map[string]interface{}{"nodes": sortedStrings(mnodes), "edges": medges}
		_ = strings.TrimSpace
	}()
	line["go"] = obs
	return line
}

var (
	prevAnalysis     *tools.SpecAnalysis
	prevAnalysisText string
)

func analysisObs(a *tools.SpecAnalysis) map[string]interface{} {
	return map[string]interface{}{
		"nodeCount": a.NodeCount, "branches": a.Branches, "actions": a.Actions, "guards": a.Guards,
		"terminal": sortedStrings(a.TerminalNodes), "orphans": sortedStrings(a.Orphans),
		"emptyTargets": sortedStrings(a.EmptyTargets), "missing": sortedStrings(a.MissingTargets),
		"targetVars": sortedStrings(a.BranchTargetVariables), "interpreters": sortedStrings(a.Interpreters)}
}

func runTools(cfg Config) {
	enc := json.NewEncoder(out)
	g := gen.New(cfg.Seed)
	for i := 0; i < cfg.N; i++ {
		d := g.Spec("tools")
		if g.P(1, 6) {
			// an empty target
			for _, n := range d.Nodes {
				if n.Branching != nil && len(n.Branching.Branches) > 0 {
					n.Branching.Branches[0].Target = ""
					break
				}
			}
		}
		mark(i)
		enc.Encode(runOneTools(i, d))
	}
	_ = core.DefaultControl
}
