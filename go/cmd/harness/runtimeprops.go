package main

// Probes for the properties whose truth lives partly in the runtime (C09 state round trips,
// C10 ECMAScript isolation, C11 timeouts, C12 concurrency).  They validate the models against the
// code and search for failing inputs; they are testing and are labelled so in the evidence.

import (
	"context"
	"encoding/json"
	"fmt"
	"reflect"
	"sort"
	"strings"
	"runtime"
	"sync"
	"time"

	"github.com/Comcast/sheens/core"
	es "github.com/Comcast/sheens/interpreters/ecmascript"
	"github.com/Comcast/sheens/match"

	"verifharness/gen"
)

func init() {
	ops["persist"] = runPersist
	ops["isolation"] = runIsolation
	ops["timeouts"] = runTimeouts
	ops["concurrent"] = runConcurrent
}

func probeLine(id int, c interface{}, probe map[string]interface{}, feat []string) map[string]interface{} {
	return map[string]interface{}{"op": "probe", "id": id, "case": c, "probe": probe, "feat": feat}
}

// ---------------------------------------------------------------------------
// C09: persisting and restoring a machine at any message boundary is unobservable

func roundTripState(st *core.State) (*core.State, error) {
	js, err := json.Marshal(st)
	if err != nil {
		return nil, err
	}
	var out core.State
	if err := json.Unmarshal(js, &out); err != nil {
		return nil, err
	}
	return &out, nil
}

func runPersist(cfg Config) {
	enc := json.NewEncoder(out)
	for i := 0; i < cfg.N; i++ {
		g := gen.New(cfg.Seed*1000003 + int64(i)) // one stream per case: skipping a case leaves the others as they were
		c := g.WalkCase("persist")
		// ECMAScript actions only return JSON-representable values; keep natives out of this property
		for _, n := range c.Spec.Nodes {
			if n.Action != nil {
				n.Action.Lang = "es"
			}
			if n.Branching != nil {
				for k := range n.Branching.Branches {
					if gd := n.Branching.Branches[k].Guard; gd != nil {
						gd.Lang = "es"
					}
				}
			}
		}
		l := 30
		c.Limit = &l
		c.Bp = nil
		for len(c.Msgs) < 3 {
			c.Msgs = append(c.Msgs, g.Msg())
		}
		mark(i)
		if crashedCases[i] {
			// the process died while running this case in an earlier attempt
			enc.Encode(probeLine(i, map[string]interface{}{"crashed": fatalText}, map[string]interface{}{"noPanic": false}, []string{"crashed"}))
			continue
		}
		probe := map[string]interface{}{}
		feat := []string{}
		func() {
			defer func() {
				if r := recover(); r != nil {
					probe["noPanic"] = false
				}
			}()
			spec, err := buildSpec(context.Background(), c.Spec)
			if err != nil {
				return
			}
			ctl := controlOf(c)
			run := func(save map[int]bool) ([]string, bool) {
				st := stateOf(c.St)
				obs := []string{}
				typed := true
				for k, m := range c.Msgs {
					w, err := spec.Walk(context.Background(), st, []interface{}{gen.DeepCopy(m)}, ctl, nil)
					if err != nil {
						obs = append(obs, "err")
						continue
					}
					obs = append(obs, gen.Canon(walkedJSON(w)))
					if to := w.To(); to != nil {
						st = to
					}
					// every reachable state equals its own JSON round trip, type for type
					if rt, err := roundTripState(st); err != nil || !reflect.DeepEqual(map[string]interface{}(rt.Bs), map[string]interface{}(st.Bs)) {
						if !(rt != nil && len(rt.Bs) == 0 && len(st.Bs) == 0) {
							typed = false
						}
					}
					if save[k] {
						rt, err := roundTripState(st)
						if err != nil {
							obs = append(obs, "unserialisable")
							continue
						}
						st = rt
					}
				}
				return obs, typed
			}
			base, typed := run(map[int]bool{})
			same := true
			all := map[int]bool{}
			for k := range c.Msgs {
				all[k] = true
				o, _ := run(map[int]bool{k: true})
				if gen.Canon(o) != gen.Canon(base) {
					same = false
				}
			}
			o, _ := run(all)
			if gen.Canon(o) != gen.Canon(base) {
				same = false
			}
			probe["persistUnobservable"] = same
			probe["statePlain"] = typed
			for _, b := range base {
				if len(b) > 400 {
					feat = append(feat, "longWalk")
					break
				}
			}
		}()
		enc.Encode(probeLine(i, c, probe, feat))
	}
}

// ---------------------------------------------------------------------------
// C10: ECMAScript actions are isolated from the host and from each other

var polluters = []string{
	`leak = 42; Object.prototype.polluted = "yes"; Array.prototype.first = function(){ return 1; }; return _.bindings;`,
	`_.out = function(x){ return "hijacked"; }; _.extra = 7; return _.bindings;`,
	`var b = _.bindings; b.nested = b.nested || {}; b.nested.deep = {"changed": true}; b.list = [9,9,9]; delete b.keep; return {};`,
	`JSON.stringify = function(){ return "broken"; }; Math.max = function(){ return -1; }; return _.bindings;`,
	`_.bindings = null; String.prototype.trim = function(){ return "x"; }; return {};`,
	// in-place updates at every depth of the bindings, through arrays and objects alike
	`(function w(x){ if (Array.isArray(x)) { for (var i = 0; i < x.length; i++) { w(x[i]); } if (x.length > 0) { x[0] = "polluted"; } } else if (x !== null && typeof x === "object") { for (var k in x) { w(x[k]); } x.polluted = true; } })(_.bindings); return {};`,
	`(function w(x){ if (Array.isArray(x)) { for (var i = 0; i < x.length; i++) { w(x[i]); } } else if (x !== null && typeof x === "object") { for (var k in x) { w(x[k]); } x.polluted = true; } })(_.bindings); throw "after polluting";`,
}

const probeScript = `
var seen = {
  leak: (typeof leak !== "undefined"),
  proto: ({}).polluted === "yes",
  arr: (typeof [].first === "function"),
  out: (typeof _.out === "function") && (_.out({"probe":1}) !== "hijacked"),
  extra: (typeof _.extra !== "undefined"),
  json: JSON.stringify({"a":1}) === '{"a":1}',
  math: Math.max(1,2) === 2,
  trim: " a ".trim() === "a",
  bindings: JSON.stringify(_.bindings)
};
return {"seen": seen};
`

const propsMutator = `_.props.top = "changed"; if (_.props.nested) { _.props.nested.k = 2; } return _.bindings;`

func runIsolation(cfg Config) {
	enc := json.NewEncoder(out)
	interp := es.NewInterpreter()
	ctx := context.Background()
	compile := func(src string) interface{} {
		c, err := interp.Compile(ctx, src)
		if err != nil {
			panic(err)
		}
		return c
	}
	probeProg := compile(probeScript)
	pristine := func(exe *core.Execution, err error, bs match.Bindings) bool {
		if err != nil || exe == nil || exe.Bs == nil {
			return false
		}
		seen, _ := exe.Bs["seen"].(map[string]interface{})
		if seen == nil {
			return false
		}
		want, _ := json.Marshal(map[string]interface{}(bs))
		var gotB, wantB interface{}
		json.Unmarshal([]byte(fmt.Sprint(seen["bindings"])), &gotB)
		json.Unmarshal(want, &wantB)
		return seen["leak"] == false && seen["proto"] == false && seen["arr"] == false && seen["out"] == true &&
			seen["extra"] == false && seen["json"] == true && seen["math"] == true && seen["trim"] == true &&
			reflect.DeepEqual(gotB, wantB)
	}
	for i := 0; i < cfg.N; i++ {
		g := gen.New(cfg.Seed*1000003 + int64(i)) // one stream per case: skipping a case leaves the others as they were
		mark(i)
		if crashedCases[i] {
			// the process died while running this case in an earlier attempt
			enc.Encode(probeLine(i, map[string]interface{}{"crashed": fatalText}, map[string]interface{}{"noPanic": false}, []string{"crashed"}))
			continue
		}
		bs := match.Bindings{"keep": "me", "nested": map[string]interface{}{"deep": map[string]interface{}{"v": 1.0}}, "list": []interface{}{1.0, 2.0}, "n": float64(g.Intn(5)),
			"orders": []interface{}{map[string]interface{}{"paid": false}, []interface{}{map[string]interface{}{"x": 1.0}}}, "rand": g.Value(3)}
		if i%4 == 3 {
			// bindings a host built by hand: Go-typed compounds, nothing generic at the top level
			bs = match.Bindings{"keep": "me", "n": float64(g.Intn(5)), "tags": []string{"a", "b"}, "attrs": map[string]string{"k": "v"},
				"counts": []int{1, 2}}
		}
		bs0 := gen.Canon(map[string]interface{}(bs))
		props := core.StepProps{"top": "orig", "nested": map[string]interface{}{"k": 1.0}}
		props0 := gen.Canon(map[string]interface{}(props))
		pol := polluters[g.Intn(len(polluters))]
		polProg := compile(pol)
		probe := map[string]interface{}{}
		feat := []string{}
		// sequential: polluter, then probe (same and different compiled source)
		interp.Exec(ctx, bs, props, pol, polProg)
		probe["bindingsUntouched"] = gen.Canon(map[string]interface{}(bs)) == bs0
		exe, err := interp.Exec(ctx, bs, props, probeScript, probeProg)
		probe["laterExecutionPristine"] = pristine(exe, err, bs)
		// the polluter run twice must not see its own earlier run either
		exe2, err2 := interp.Exec(ctx, bs, props, probeScript, probeProg)
		probe["repeatPristine"] = pristine(exe2, err2, bs)
		// concurrent: many goroutines run the same compiled polluter and probe
		var wg sync.WaitGroup
		okc := true
		var mu sync.Mutex
		for k := 0; k < 16; k++ {
			wg.Add(1)
			go func(k int) {
				defer wg.Done()
				mine := match.Bindings(gen.DeepCopy(map[string]interface{}(bs)).(map[string]interface{}))
				// every execution has data of its own: whatever it sees must be its own
				mine["owner"] = fmt.Sprintf("machine-%04d-%d", i, k)
				mine["payload"] = strings.Repeat(fmt.Sprintf("%02d", k), 64)
				for r := 0; r < 6; r++ {
					if k%2 == 0 {
						interp.Exec(ctx, mine, nil, pol, polProg)
					} else {
						e, err := interp.Exec(ctx, mine, nil, probeScript, probeProg)
						if !pristine(e, err, mine) {
							mu.Lock()
							okc = false
							mu.Unlock()
						}
					}
				}
			}(k)
		}
		wg.Wait()
		probe["concurrentPristine"] = okc
		// executions without step properties share nothing through `_.props` either
		interp.Exec(ctx, bs, nil, `if (_.props) { _.props.planted = 1; } return {};`, nil)
		if e, err := interp.Exec(ctx, bs, nil, `return {"seen": !!(_.props && _.props.planted === 1)};`, nil); err == nil && e != nil && e.Bs != nil {
			probe["propsNotShared"] = e.Bs["seen"] == false
		}
		if e, err := es.NewInterpreter().Exec(ctx, bs, core.StepProps{}, `return {"seen": !!(_.props && _.props.planted === 1)};`, nil); err == nil && e != nil && e.Bs != nil && e.Bs["seen"] != false {
			probe["propsNotShared"] = false
		}
		// step properties: a script must not be able to change the caller's
		if g.P(1, 2) {
			feat = append(feat, "propsMutator")
			interp.Exec(ctx, bs, props, propsMutator, nil)
			probe["propsUntouched"] = gen.Canon(map[string]interface{}(props)) == props0
		}
		enc.Encode(probeLine(i, map[string]interface{}{"polluter": pol, "props": feat, "bindings": json.RawMessage(bs0)}, probe, feat))
	}
}

// ---------------------------------------------------------------------------
// C11: action timeouts are enforced

var spinners = []string{
	`for(;;){}`,
	`function f(n){ return f(n+1) + 1; } return f(0);`,
	`var a = []; for(;;){ a.push(1); if (a.length > 1000) { a = []; } }`,
	`var o = {}; var i = 0; for(;;){ o["k"+(i%50)] = i; i++; }`,
	`var s = 0; while(true){ for (var i = 0; i < 1000; i++) { s += i; } }`,
}

// scripts that end by themselves
var finishers = []string{
	`return _.bindings;`,
	`throw "ordinary failure";`,
	`return undefinedFunction(1);`,
	`var x = null; return x.field;`,
	`_.out(function(){}); return {};`,
	`return 3;`,
	`return null;`,
}

func runTimeouts(cfg Config) {
	enc := json.NewEncoder(out)
	interp := es.NewInterpreter()
	// warm up, then take the goroutine baseline
	func() {
		ctx, cancel := context.WithTimeout(context.Background(), 5*time.Millisecond)
		defer cancel()
		interp.Exec(ctx, match.NewBindings(), nil, spinners[0], nil)
	}()
	time.Sleep(50 * time.Millisecond)
	for i := 0; i < cfg.N; i++ {
		g := gen.New(cfg.Seed*1000003 + int64(i)) // one stream per case: skipping a case leaves the others as they were
		mark(i)
		if crashedCases[i] {
			// the process died while running this case in an earlier attempt
			enc.Encode(probeLine(i, map[string]interface{}{"crashed": fatalText}, map[string]interface{}{"noPanic": false}, []string{"crashed"}))
			continue
		}
		src := spinners[g.Intn(len(spinners))]
		deadline := []int{0, 1, 5, 20, 80, 200}[g.Intn(6)]
		conc := []int{1, 1, 4, 16}[g.Intn(4)]
		cancelAt := -1
		if g.P(1, 3) {
			cancelAt = g.Intn(40)
		}
		if i%8 == 5 {
			// a deadline far away and a cancellation long before it (0 = cancelled before the call)
			deadline = 4000
			cancelAt = []int{0, 0, 3, 15, 40}[g.Intn(5)]
		}
		base := runtime.NumGoroutine()
		var wg sync.WaitGroup
		var mu sync.Mutex
		allInterrupted, prompt := true, true
		for k := 0; k < conc; k++ {
			wg.Add(1)
			go func() {
				defer wg.Done()
				ctx, cancel := context.WithTimeout(context.Background(), time.Duration(deadline)*time.Millisecond)
				defer cancel()
				if cancelAt == 0 {
					cancel()
				} else if cancelAt > 0 {
					go func() {
						time.Sleep(time.Duration(cancelAt) * time.Millisecond)
						cancel()
					}()
				}
				t0 := time.Now()
				_, err := interp.Exec(ctx, match.NewBindings(), nil, src, nil)
				el := time.Since(t0)
				mu.Lock()
				if err == nil || err.Error() != es.InterruptedMessage {
					// unbounded recursion may also end in a stack error of the runtime; that is a stop, too
					if err == nil {
						allInterrupted = false
					}
				}
				limit := time.Duration(deadline) * time.Millisecond
				if cancelAt >= 0 && time.Duration(cancelAt)*time.Millisecond < limit {
					limit = time.Duration(cancelAt) * time.Millisecond
				}
				if el > limit+1500*time.Millisecond {
					prompt = false
				}
				mu.Unlock()
			}()
		}
		// an execution that does not come back at all (well past its deadline and its cancellation)
		// would hang the run: it is reported, and the run ends with this case
		hung := false
		{
			done := make(chan bool)
			go func() { wg.Wait(); close(done) }()
			select {
			case <-done:
			case <-time.After(time.Duration(deadline)*time.Millisecond + 6*time.Second):
				hung = true
			}
		}
		if hung {
			enc.Encode(probeLine(i, map[string]interface{}{"script": src, "deadlineMs": deadline, "concurrency": conc, "cancelAtMs": cancelAt, "hung": true},
				map[string]interface{}{"stopsWithError": false, "prompt": false}, []string{"hung"}))
			return
		}
		// many more executions than processors, most of them long-running: a short one among them
		// still ends at its own deadline or cancellation
		if i%15 == 7 {
			long := runtime.GOMAXPROCS(0) + 4
			var cw sync.WaitGroup
			crowdPrompt := true
			for k := 0; k < long; k++ {
				cw.Add(1)
				go func() {
					defer cw.Done()
					ctx, cancel := context.WithTimeout(context.Background(), 1800*time.Millisecond)
					defer cancel()
					interp.Exec(ctx, match.NewBindings(), nil, spinners[0], nil)
				}()
			}
			time.Sleep(20 * time.Millisecond)
			for k := 0; k < 4; k++ {
				cw.Add(1)
				go func(k int) {
					defer cw.Done()
					ctx, cancel := context.WithTimeout(context.Background(), 50*time.Millisecond)
					defer cancel()
					if k%2 == 1 {
						ctx, cancel = context.WithCancel(context.Background())
						defer cancel()
						go func() { time.Sleep(50 * time.Millisecond); cancel() }()
					}
					t0 := time.Now()
					interp.Exec(ctx, match.NewBindings(), nil, spinners[0], nil)
					if time.Since(t0) > 50*time.Millisecond+900*time.Millisecond {
						mu.Lock()
						crowdPrompt = false
						mu.Unlock()
					}
				}(k)
			}
			{
				done := make(chan bool)
				go func() { cw.Wait(); close(done) }()
				select {
				case <-done:
				case <-time.After(8 * time.Second):
					enc.Encode(probeLine(i, map[string]interface{}{"script": spinners[0], "crowd": true, "hung": true},
						map[string]interface{}{"stopsWithError": false, "prompt": false}, []string{"hung"}))
					return
				}
			}
			if !crowdPrompt {
				prompt = false
			}
		}
		// no goroutine started for the execution outlives the call (after a grace period)
		leaked := true
		for w := 0; w < 40; w++ {
			if runtime.NumGoroutine() <= base {
				leaked = false
				break
			}
			time.Sleep(10 * time.Millisecond)
		}
		probe := map[string]interface{}{"stopsWithError": allInterrupted, "prompt": prompt, "noGoroutineLeak": !leaked}
		// a script that ends by itself (with a result or with an ordinary error) under a context that
		// stays alive: nothing started for the execution is left behind when the call has returned
		fin := finishers[g.Intn(len(finishers))]
		func() {
			base := runtime.NumGoroutine()
			ctx, cancel := context.WithCancel(context.Background())
			defer cancel()
			for k := 0; k < 8; k++ {
				interp.Exec(ctx, match.Bindings{"n": 1.0}, nil, fin, nil)
			}
			left := true
			for w := 0; w < 40; w++ {
				if runtime.NumGoroutine() <= base {
					left = false
					break
				}
				time.Sleep(10 * time.Millisecond)
			}
			probe["nothingLeftUnderLiveContext"] = !left
		}()
		// the step reports the timeout routed like any other action error
		if i%4 == 0 {
			spec := &core.Spec{Nodes: map[string]*core.Node{
				"start": {ActionSource: &core.ActionSource{Interpreter: "ecmascript", Source: src}, Branches: &core.Branches{Branches: []*core.Branch{{Target: "next"}}}},
				"next":  {}}, ActionErrorNode: "oops"}
			if err := spec.Compile(context.Background(), nil, true); err == nil {
				ctx, cancel := context.WithTimeout(context.Background(), 10*time.Millisecond)
				stride, err := spec.Step(ctx, &core.State{NodeName: "start", Bs: match.NewBindings()}, nil, nil, nil)
				cancel()
				routed := err == nil && stride != nil && stride.To != nil && stride.To.NodeName == "oops"
				if routed {
					_, has := stride.To.Bs["actionError"]
					routed = has
				}
				probe["timeoutRoutedAsActionError"] = routed
			}
		}
		enc.Encode(probeLine(i, map[string]interface{}{"script": src, "deadlineMs": deadline, "concurrency": conc, "cancelAtMs": cancelAt, "finisher": fin}, probe,
			[]string{fmt.Sprintf("deadline%d", deadline), fmt.Sprintf("conc%d", conc)}))
	}
}

// ---------------------------------------------------------------------------
// C12: a compiled spec is shared immutable data; spec updates are atomic

// specObjects renders the identities of the pattern objects of a compiled spec: a spec that is
// shared is never written to, so they cannot change.
func specObjects(s *core.Spec) string {
	var sb strings.Builder
	names := []string{}
	for n := range s.Nodes {
		names = append(names, n)
	}
	sort.Strings(names)
	for _, n := range names {
		node := s.Nodes[n]
		if node == nil || node.Branches == nil {
			continue
		}
		for i, b := range node.Branches.Branches {
			if b == nil {
				continue
			}
			switch reflect.ValueOf(b.Pattern).Kind() {
			case reflect.Map, reflect.Slice:
				fmt.Fprintf(&sb, "%s#%d:%x;", n, i, reflect.ValueOf(b.Pattern).Pointer())
			}
		}
	}
	return sb.String()
}

func runConcurrent(cfg Config) {
	enc := json.NewEncoder(out)
	for i := 0; i < cfg.N; i++ {
		g := gen.New(cfg.Seed*1000003 + int64(i)) // one stream per case: skipping a case leaves the others as they were
		mark(i)
		if crashedCases[i] {
			// the process died while running this case in an earlier attempt
			enc.Encode(probeLine(i, map[string]interface{}{"crashed": fatalText}, map[string]interface{}{"noPanic": false}, []string{"crashed"}))
			continue
		}
		c1 := g.WalkCase("walk")
		c2 := g.WalkCase("walk")
		l := 12
		probe := map[string]interface{}{}
		func() {
			defer func() {
				if r := recover(); r != nil {
					probe["noPanic"] = false
				}
			}()
			s1, err1 := buildSpec(context.Background(), c1.Spec)
			s2, err2 := buildSpec(context.Background(), c2.Spec)
			if err1 != nil || err2 != nil || c1.Spec.HasLoop() || c2.Spec.HasLoop() {
				return
			}
			ctl := &core.Control{Limit: l}
			// taken before anything walks the spec
			snap := specSnapshot(s1)
			objs := specObjects(s1)
			// distinct machine states over one spec object
			states := []gen.StateD{}
			for k := 0; k < 8; k++ {
				states = append(states, gen.StateD{Node: c1.St.Node, Bs: g.Bindings("walk")})
			}
			walkOn := func(s *core.Spec, sd gen.StateD) string {
				w, err := s.Walk(context.Background(), stateOf(sd), gen.DeepCopy(c1.Msgs).([]interface{}), ctl, nil)
				if err != nil {
					return "err"
				}
				return gen.Canon(walkedJSON(w))
			}
			alone1 := make([]string, len(states))
			alone2 := make([]string, len(states))
			for k, sd := range states {
				alone1[k] = walkOn(s1, sd)
				alone2[k] = walkOn(s2, sd)
			}
			var wg sync.WaitGroup
			var mu sync.Mutex
			same := true
			for r := 0; r < 3; r++ {
				for k, sd := range states {
					wg.Add(1)
					go func(k int, sd gen.StateD) {
						defer wg.Done()
						if walkOn(s1, sd) != alone1[k] {
							mu.Lock()
							same = false
							mu.Unlock()
						}
					}(k, sd)
				}
			}
			wg.Wait()
			probe["concurrentSameAsAlone"] = same
			probe["specUntouched"] = specSnapshot(s1) == snap
			// an updatable spec swapped while machines are being processed: every call sees one version
			us := core.NewUpdatableSpec(s1)
			oneVersion := true
			stop := make(chan bool)
			go func() {
				for {
					select {
					case <-stop:
						return
					default:
						us.SetSpec(s2)
						us.SetSpec(s1)
					}
				}
			}()
			for r := 0; r < 3; r++ {
				for k, sd := range states {
					wg.Add(1)
					go func(k int, sd gen.StateD) {
						defer wg.Done()
						got := walkOn(us.Spec(), sd)
						if got != alone1[k] && got != alone2[k] {
							mu.Lock()
							oneVersion = false
							mu.Unlock()
						}
					}(k, sd)
				}
			}
			wg.Wait()
			close(stop)
			probe["oneCompleteVersion"] = oneVersion
			// nothing wrote to the spec while it was shared: same content, same objects
			if specSnapshot(s1) != snap {
				probe["specUntouched"] = false
			}
			probe["specObjectsKept"] = specObjects(s1) == objs
			// a version derived from the published one (Spec.Copy), edited and compiled, leaves the
			// published one as it is
			func() {
				defer func() {
					if r := recover(); r != nil {
						probe["copyIndependent"] = false
					}
				}()
				before := specSnapshot(s1)
				cp := s1.Copy("v2")
				for _, n := range cp.Nodes {
					if n == nil || n.Branches == nil {
						continue
					}
					for _, b := range n.Branches.Branches {
						if b != nil {
							b.Target = "elsewhere"
							b.Pattern = map[string]interface{}{"edited": true}
						}
					}
				}
				cp.Compile(context.Background(), nil, true)
				probe["copyIndependent"] = specSnapshot(s1) == before && specObjects(s1) == objs
			}()
		}()
		enc.Encode(probeLine(i, map[string]interface{}{"spec": c1.Spec, "spec2": c2.Spec}, probe, []string{"walks24", "swap"}))
	}
}
