package main

import (
	"math"
	"sync"
	"context"
	"encoding/json"
	"errors"
	"fmt"
	"os"
	"reflect"
	"strings"
	"time"

	"github.com/Comcast/sheens/core"
	_ "github.com/Comcast/sheens/interpreters/ecmascript"
	"github.com/Comcast/sheens/match"

	"verifharness/gen"
)

func init() {
	ops["walk"] = runWalk
	ops["step"] = runWalk
	ops["split"] = runSplit
}

// runSplit: the whole batch in one Walk versus the same messages delivered in consecutive
// batches (every split point, and one at a time); where neither the limit nor a breakpoint
// intervenes the final state and the emitted messages must be the same (C05).
func runSplit(cfg Config) {
	enc := json.NewEncoder(out)
	g := gen.New(cfg.Seed)
	for i := 0; i < cfg.N; i++ {
		c := g.WalkCase("split")
		l := 40
		c.Limit = &l
		c.Bp = nil
		if len(c.Msgs) == 0 {
			c.Msgs = []interface{}{g.Msg(), g.Msg()}
		}
		mark(i)
		line := runOneWalk("walk", i, c)
		line.Probe["splitEq"] = splitProbe(c)
		enc.Encode(line)
	}
}

type walkSummary struct {
	done    bool
	final   string
	emitted []interface{}
	ok      bool
}

func walkSummarize(spec *core.Spec, st *core.State, msgs []interface{}, ctl *core.Control) (sum walkSummary, next *core.State) {
	defer func() {
		if r := recover(); r != nil {
			sum.ok = false
		}
	}()
	w, err := spec.Walk(context.Background(), st, msgs, ctl, nil)
	if err != nil {
		return walkSummary{}, st
	}
	next = st
	if to := w.To(); to != nil {
		next = to
	}
	sum = walkSummary{done: w.StoppedBecause == core.Done, final: gen.Canon(stateJSON(next.Copy())), ok: true}
	w.DoEmitted(func(x interface{}) error { sum.emitted = append(sum.emitted, x); return nil })
	return sum, next
}

func splitProbe(c gen.WalkCase) bool {
	spec, err := buildSpec(context.Background(), c.Spec)
	if err != nil || c.Spec.HasLoop() {
		return true
	}
	ctl := controlOf(c)
	whole, _ := walkSummarize(spec, stateOf(c.St), gen.DeepCopy(c.Msgs).([]interface{}), ctl)
	if !whole.ok || !whole.done {
		return true // the claim is conditional on completion
	}
	check := func(cuts []int) bool {
		st := stateOf(c.St)
		var emitted []interface{}
		final := ""
		prev := 0
		cuts = append(cuts, len(c.Msgs))
		for _, cut := range cuts {
			part := gen.DeepCopy(c.Msgs[prev:cut]).([]interface{})
			prev = cut
			sum, next := walkSummarize(spec, st, part, ctl)
			if !sum.ok || !sum.done {
				return true
			}
			emitted = append(emitted, sum.emitted...)
			final = sum.final
			st = next
		}
		return final == whole.final && gen.Canon(emitted) == gen.Canon(whole.emitted)
	}
	for k := 0; k <= len(c.Msgs); k++ {
		if !check([]int{k}) {
			return false
		}
	}
	ones := []int{}
	for k := 1; k < len(c.Msgs); k++ {
		ones = append(ones, k)
	}
	return check(ones)
}

// normErr maps error texts to the form the model produces (positions, Go type names and
// map-order dependent key names removed).
func normErr(s string) string {
	switch {
	case strings.Contains(s, "can't have a variable as a key"):
		return "badPropVar"
	case strings.Contains(s, "repeated variables not supported"):
		return "repeatedVar"
	case strings.Contains(s, "multiple variables not supported"):
		return "multiVar"
	case strings.Contains(s, "unknown pattern type"):
		return "unknownPatternType"
	case strings.HasSuffix(s, "isn't Bindings"):
		// the text names the Go value; keep what distinguishes the two bad returns of the DSL
		if strings.HasPrefix(s, "3 (int64)") {
			return "isn't Bindings:scalar"
		}
		return "isn't Bindings:array"
	// the three ways a value fails to serialise stay apart: a pattern may bind one text and meet another
	case strings.HasPrefix(s, "json: unsupported type: func("):
		return "json: unsupported:type"
	case strings.HasPrefix(s, "json: unsupported value: encountered a cycle"):
		return "json: unsupported:cycle"
	case strings.HasPrefix(s, "json: unsupported value: NaN"):
		return "json: unsupported:nan"
	}
	if i := strings.Index(s, " at <eval>"); i >= 0 {
		return s[:i]
	}
	// thrown inside a named function (a getter): "<text> at <name> (<eval>:L:C(n))"
	if i := strings.Index(s, " (<eval>"); i >= 0 {
		if j := strings.LastIndex(s[:i], " at "); j >= 0 {
			return s[:j]
		}
	}
	return s
}

// normBs copies bindings for printing, normalising error texts (also inside lastBindings).
func normBs(x interface{}) interface{} {
	switch vv := x.(type) {
	case match.Bindings:
		return normBs(map[string]interface{}(vv))
	case map[string]interface{}:
		m := make(map[string]interface{}, len(vv))
		for k, v := range vv {
			m[k] = normBs(v)
		}
		return m
	case []interface{}:
		a := make([]interface{}, len(vv))
		for i, v := range vv {
			a[i] = normBs(v)
		}
		return a
	case string:
		// error texts travel through bindings under any name (a pattern may bind them)
		return normErr(vv)
	default:
		return x
	}
}

func copyNested(x interface{}) interface{} { return gen.DeepCopy(x) }

// markDeep writes k2 := v into every object reachable inside x (children first); Sheens/ES.lean markV.
func markDeep(x interface{}, k2 string, v interface{}) interface{} {
	switch vv := x.(type) {
	case []interface{}:
		for i := range vv {
			vv[i] = markDeep(vv[i], k2, v)
		}
	case map[string]interface{}:
		for k := range vv {
			vv[k] = markDeep(vv[k], k2, v)
		}
		vv[k2] = v
	}
	return x
}

// inPlaceInterpreter is a host's own interpreter whose code works on the bindings it is given.
type inPlaceInterpreter struct {
	mut func(b match.Bindings) match.Bindings
}

func (i *inPlaceInterpreter) Compile(ctx context.Context, code interface{}) (interface{}, error) {
	return nil, nil
}

func (i *inPlaceInterpreter) Exec(ctx context.Context, bs match.Bindings, props core.StepProps, code interface{}, compiled interface{}) (*core.Execution, error) {
	return core.NewExecution(i.mut(bs)), nil
}

// permanentInPlaceProbe: FuncAction.Exec around native code that works on the very map it is given
// (what match.Bindings' Remove, Extend, DeleteExcept do) — "whatever the code deleted, overwrote or
// returned instead", every '!' binding present beforehand is there afterwards with its previous value.
func permanentInPlaceProbe(given map[string]interface{}) bool {
	mutators := []func(b match.Bindings) match.Bindings{
		func(b match.Bindings) match.Bindings { // delete every binding, hand the map back
			for k := range b {
				delete(b, k)
			}
			return b
		},
		func(b match.Bindings) match.Bindings { // overwrite every binding, hand the map back
			for k := range b {
				b[k] = "overwritten"
			}
			return b
		},
		func(b match.Bindings) match.Bindings { // overwrite in place, hand back something else
			for k := range b {
				b[k] = nil
			}
			return match.Bindings{"other": true}
		},
		func(b match.Bindings) match.Bindings { // the helper the package offers
			return b.DeleteExcept("nothing")
		},
	}
	// two executions of one shared action overlap (a compiled spec's actions are shared by all its
	// machines): each gets its own permanent bindings back
	{
		var inside, release sync.WaitGroup
		inside.Add(2)
		release.Add(1)
		shared := &core.FuncAction{F: func(ctx context.Context, b match.Bindings, props core.StepProps) (*core.Execution, error) {
			inside.Done()
			release.Wait()
			return core.NewExecution(match.Bindings{"done": true}), nil
		}}
		results := make([]match.Bindings, 2)
		inputs := []match.Bindings{
			match.Bindings(gen.DeepCopy(given).(map[string]interface{})),
			{"keep!": "the other machine's", "only!": 1.0},
		}
		var wg sync.WaitGroup
		for k := 0; k < 2; k++ {
			wg.Add(1)
			go func(k int) {
				defer wg.Done()
				defer func() { recover() }()
				if exe, err := shared.Exec(context.Background(), inputs[k], nil); err == nil && exe != nil {
					results[k] = exe.Bs
				}
			}(k)
		}
		waited := make(chan bool)
		go func() { inside.Wait(); close(waited) }()
		select {
		case <-waited:
		case <-time.After(2 * time.Second):
			// the executions are serialised: nothing overlaps, nothing to judge
		}
		release.Done()
		wg.Wait()
		for k := 0; k < 2; k++ {
			if results[k] == nil {
				return false
			}
			for key, v := range inputs[k] {
				if strings.HasSuffix(key, "!") {
					got, have := results[k][key]
					if !have || gen.Canon(got) != gen.Canon(v) {
						return false
					}
				}
			}
			for key := range results[k] {
				if strings.HasSuffix(key, "!") {
					if _, mine := inputs[k][key]; !mine {
						return false
					}
				}
			}
		}
	}
	// the same mutators behind a custom core.Interpreter, compiled through ActionSource.Compile (a host's
	// own native interpreter is an action like any other)
	for _, mut := range mutators {
		bs := match.Bindings(gen.DeepCopy(given).(map[string]interface{}))
		before := map[string]string{}
		for k, v := range bs {
			if strings.HasSuffix(k, "!") {
				before[k] = gen.Canon(v)
			}
		}
		src := &core.ActionSource{Interpreter: "inplace", Source: "x"}
		act, err := src.Compile(context.Background(), core.InterpretersMap{"inplace": &inPlaceInterpreter{mut}})
		if err != nil || act == nil {
			continue
		}
		ok := true
		func() {
			defer func() {
				if r := recover(); r != nil {
					ok = false
				}
			}()
			exe, err := act.Exec(context.Background(), bs, nil)
			if err != nil || exe == nil || exe.Bs == nil {
				ok = false
				return
			}
			for k, want := range before {
				v, have := exe.Bs[k]
				if !have || gen.Canon(v) != want {
					ok = false
				}
			}
		}()
		if !ok {
			return false
		}
	}
	for _, mut := range mutators {
		bs := match.Bindings(gen.DeepCopy(given).(map[string]interface{}))
		before := map[string]string{}
		for k, v := range bs {
			if strings.HasSuffix(k, "!") {
				before[k] = gen.Canon(v)
			}
		}
		mut := mut
		a := &core.FuncAction{F: func(ctx context.Context, b match.Bindings, props core.StepProps) (*core.Execution, error) {
			return core.NewExecution(mut(b)), nil
		}}
		ok := true
		func() {
			defer func() {
				if r := recover(); r != nil {
					ok = false
				}
			}()
			exe, err := a.Exec(context.Background(), bs, nil)
			if err != nil || exe == nil || exe.Bs == nil {
				ok = false
				return
			}
			for k, want := range before {
				v, have := exe.Bs[k]
				if !have || gen.Canon(v) != want {
					ok = false
				}
			}
		}()
		if !ok {
			return false
		}
	}
	return true
}

// watched runs f; where the case has a script that spins until its deadline (150 ms), f runs in a
// goroutine of its own and is given four seconds: processing that has not come back by then is
// reported as hung (the goroutine is left behind, spinning).
func watched(mayHang bool, f func()) (hung bool) {
	if !mayHang {
		f()
		return false
	}
	done := make(chan interface{}, 1)
	go func() {
		defer func() { done <- recover() }()
		f()
	}()
	select {
	case r := <-done:
		if r != nil {
			panic(r)
		}
		return false
	case <-time.After(4 * time.Second):
		return true
	}
}

// guardLog records, for the native guards of the case being run, whether each call accepted its
// candidate (returned bindings without an error), in call order.
var guardLog []bool
var guardLogMu sync.Mutex // walks of one spec run concurrently in the C12 op

// nativeGuard is nativeAction with the call logged.
func nativeGuard(p *gen.Prog) *core.FuncAction {
	inner := nativeAction(p)
	return &core.FuncAction{F: func(ctx context.Context, given match.Bindings, props core.StepProps) (*core.Execution, error) {
		exe, err := inner.F(ctx, given, props)
		guardLogMu.Lock()
		guardLog = append(guardLog, err == nil && exe != nil && exe.Bs != nil)
		guardLogMu.Unlock()
		return exe, err
	}}
}

// nativeAction compiles a program to a Go closure with the same meaning as Sheens/ES.lean Prog.run.
func nativeAction(p *gen.Prog) *core.FuncAction {
	return &core.FuncAction{F: func(ctx context.Context, given match.Bindings, props core.StepProps) (*core.Execution, error) {
		if p.Ret == "nilexe" {
			return nil, nil // neither an execution nor an error
		}
		work := given.Copy()
		mutated := false
		exe := core.NewExecution(nil)
		fail := func(msg string) (*core.Execution, error) {
			if p.Partial {
				exe.Bs = work
				return exe, errors.New(msg)
			}
			return nil, errors.New(msg)
		}
		for _, op := range p.Ops {
			switch op[0].(string) {
			case "set":
				work[op[1].(string)] = copyNested(op[2])
				mutated = true
			case "del":
				delete(work, op[1].(string))
				mutated = true
			case "emit":
				exe.AddEmitted(copyNested(op[1]))
			case "emitb":
				k := op[1].(string)
				v, have := work[k]
				if !have {
					v = nil
				}
				exe.AddEmitted(map[string]interface{}{"k": k, "v": v})
			case "inc":
				k := op[1].(string)
				n, _ := work[k].(float64)
				work[k] = n + 1
				mutated = true
			case "fail":
				return fail(op[1].(string))
			case "iffail":
				if _, have := work[op[1].(string)]; have {
					return fail(op[2].(string))
				}
			case "clear":
				work = match.NewBindings()
				mutated = true
			case "setnested":
				k := op[1].(string)
				m, is := work[k].(map[string]interface{})
				if is {
					m = copyNested(m).(map[string]interface{})
				} else {
					m = map[string]interface{}{}
				}
				m[op[2].(string)] = copyNested(op[3])
				work[k] = m
				mutated = true
			case "pollute":
				// nothing to change in Go
			case "forin":
				work[op[1].(string)] = 2.0
				mutated = true
			case "markdeep":
				k := op[1].(string)
				if x, have := work[k]; have {
					work[k] = markDeep(copyNested(x), op[2].(string), op[3])
					mutated = true
				}
			case "rejectUnless":
				if _, have := work[op[1].(string)]; !have {
					return exe, nil
				}
			case "rejectIf":
				if v, have := work[op[1].(string)]; have && gen.IsScalar(v) && gen.IsScalar(op[2]) && reflect.DeepEqual(v, op[2]) {
					return exe, nil
				}
			case "loop":
				return fail("RuntimeError: timeout")
			case "emitBad":
				// a native action's own error texts (kept apart from the interpreter's: a pattern may
				// bind one and meet the other)
				if len(op) > 1 && op[1] == "cycle" {
					return fail("json: unsupported:cycle:native")
				}
				return fail("json: unsupported:type:native")
			}
		}
		switch p.Ret {
		case "null":
			exe.Bs = nil
		case "fresh":
			exe.Bs = match.Bindings{"fresh": true}
		default:
			if !mutated && given != nil {
				exe.Bs = given // a native action may hand back the very map it was given
			} else {
				exe.Bs = work
			}
		}
		return exe, nil
	}}
}

// buildSpec turns the DSL spec into a compiled core.Spec.
func buildSpec(ctx context.Context, d *gen.SpecD) (*core.Spec, error) {
	s := &core.Spec{Name: d.Name, Nodes: map[string]*core.Node{},
		ActionErrorBranches: d.ActionErrorBranches, ActionErrorNode: d.ActionErrorNode, NoAutoErrorNode: d.NoErrorNode}
	var uncompiled []*core.Node
	for name, nd := range d.Nodes {
		n := &core.Node{}
		if nd.Action != nil {
			if nd.Action.Lang == "native" {
				n.Action = nativeAction(nd.Action)
			} else {
				n.ActionSource = &core.ActionSource{Interpreter: "ecmascript", Source: nd.Action.JS()}
			}
		}
		if nd.UncompiledSource {
			uncompiled = append(uncompiled, n)
		}
		if nd.Branching != nil {
			n.Branches = &core.Branches{Type: nd.Branching.Type}
			for _, bd := range nd.Branching.Branches {
				b := &core.Branch{Pattern: gen.DeepCopy(bd.Pattern), Target: bd.Target}
				if bd.Guard != nil {
					if bd.Guard.Lang == "native" {
						b.Guard = nativeGuard(bd.Guard)
					} else {
						b.GuardSource = &core.ActionSource{Interpreter: "ecmascript", Source: bd.Guard.JS()}
					}
				}
				n.Branches.Branches = append(n.Branches.Branches, b)
			}
		}
		s.Nodes[name] = n
	}
	if d.Uncompiled {
		return s, nil
	}
	if err := s.Compile(ctx, nil, true); err != nil {
		return nil, err
	}
	for _, n := range uncompiled {
		n.Action = nil
		n.ActionSource = &core.ActionSource{Interpreter: "ecmascript", Source: "return _.bindings;"}
	}
	return s, nil
}

func stateJSON(st *core.State) interface{} {
	if st == nil {
		return nil
	}
	var bs interface{}
	if st.Bs != nil {
		bs = normBs(st.Bs)
	}
	return map[string]interface{}{"node": st.NodeName, "bs": bs}
}

func strideJSON(s *core.Stride) interface{} {
	if s == nil {
		return nil
	}
	em := []interface{}{}
	if s.Events != nil {
		for _, x := range s.Events.Emitted {
			em = append(em, x)
		}
	}
	return map[string]interface{}{"from": stateJSON(s.From), "to": stateJSON(s.To), "consumed": s.Consumed, "emitted": em}
}

func walkedJSON(w *core.Walked) map[string]interface{} {
	strides := []interface{}{}
	for _, s := range w.Strides {
		strides = append(strides, strideJSON(s))
	}
	rem := []interface{}{}
	for _, x := range w.Remaining {
		rem = append(rem, x)
	}
	return map[string]interface{}{"strides": strides, "remaining": rem, "stopped": w.StoppedBecause.String()}
}

func controlOf(c gen.WalkCase) *core.Control {
	if c.Limit == nil {
		return nil
	}
	ctl := &core.Control{Limit: *c.Limit}
	if len(c.Bp) > 0 {
		ctl.Breakpoints = map[string]core.Breakpoint{}
		for _, name := range c.Bp {
			name := name
			ctl.Breakpoints["bp-"+name] = func(ctx context.Context, st *core.State) bool { return st.NodeName == name }
		}
	}
	return ctl
}

func stateOf(d gen.StateD) *core.State {
	st := &core.State{NodeName: d.Node}
	if d.Bs != nil {
		st.Bs = match.Bindings(gen.DeepCopy(d.Bs).(map[string]interface{}))
	}
	return st
}

func specSnapshot(s *core.Spec) string {
	// patterns, targets, types, settings: what a step could conceivably write
	acc := map[string]interface{}{"errNode": s.ActionErrorNode, "errBranches": s.ActionErrorBranches, "name": s.Name, "n": len(s.Nodes)}
	for name, n := range s.Nodes {
		if n == nil {
			continue
		}
		m := map[string]interface{}{"action": n.Action != nil, "source": n.ActionSource != nil}
		if n.Branches != nil {
			bl := []interface{}{n.Branches.Type}
			for _, b := range n.Branches.Branches {
				bl = append(bl, []interface{}{b.Pattern, b.Target, b.Guard != nil})
			}
			m["branches"] = bl
		}
		acc[name] = m
	}
	return gen.Canon(acc)
}

type walkLine struct {
	Op      string                 `json:"op"`
	Id      int                    `json:"id"`
	Spec    *gen.SpecD             `json:"spec"`
	St      gen.StateD             `json:"st"`
	Msgs    []interface{}          `json:"msgs,omitempty"`
	Pending interface{}            `json:"pending,omitempty"`
	Limit   *int                   `json:"limit"`
	Bp      []string               `json:"bp,omitempty"`
	Profile string                 `json:"profile"`
	Go      map[string]interface{} `json:"go"`
	Probe   map[string]interface{} `json:"probe,omitempty"`
}

func runOneWalk(op string, id int, c gen.WalkCase) (line walkLine) {
	line = walkLine{Op: op, Id: id, Spec: c.Spec, St: c.St, Limit: c.Limit, Bp: c.Bp, Profile: c.Profile}
	if crashedCases[id] {
		if op == "step" {
			if len(c.Msgs) > 0 {
				line.Pending = c.Msgs[0]
			}
		} else {
			line.Msgs = c.Msgs
		}
		line.Go = map[string]interface{}{"panic": fatalText}
		return
	}
	ctx := context.Background()
	if c.Spec.HasLoop() {
		var cancel func()
		ctx, cancel = context.WithTimeout(ctx, 150*time.Millisecond)
		defer cancel()
	}
	spec, err := buildSpec(context.Background(), c.Spec)
	if err != nil {
		line.Go = map[string]interface{}{"compileErr": normErr(err.Error())}
		return
	}
	st := stateOf(c.St)
	msgs := gen.DeepCopy(c.Msgs).([]interface{})
	props := core.StepProps{"p": map[string]interface{}{"nested": 1.0}}
	ctl := controlOf(c)
	// snapshots for the C06 probes
	st0, msgs0, spec0, props0 := gen.Canon(stateJSONraw(st)), gen.Canon(msgs), specSnapshot(spec), gen.Canon(props)
	var ctl0 string
	if ctl != nil {
		ctl0 = fmt.Sprint(ctl.Limit, len(ctl.Breakpoints))
	}
	givenPtr := uintptr(0)
	if st.Bs != nil {
		givenPtr = reflect.ValueOf(st.Bs).Pointer()
	}
	fresh := true
	checkFresh := func(s *core.State) {
		if s != nil && s.Bs != nil && givenPtr != 0 && reflect.ValueOf(s.Bs).Pointer() == givenPtr {
			fresh = false
		}
	}
	defer func() {
		if r := recover(); r != nil {
			line.Go = map[string]interface{}{"panic": fmt.Sprint(r)}
		}
	}()
	var obs map[string]interface{}
	guardStops, guardCalls := true, 0
	if op == "step" {
		var pending interface{}
		if len(msgs) > 0 {
			pending = msgs[0]
			line.Pending = c.Msgs[0]
		}
		guardLog = guardLog[:0]
		var stride *core.Stride
		var err error
		if hung := watched(c.Spec.HasLoop(), func() { stride, err = spec.Step(ctx, st, pending, ctl, props) }); hung {
			line.Go = map[string]interface{}{"hang": true}
			line.Probe = map[string]interface{}{"returns": false}
			return
		}
		// the first branch whose guard returns bindings decides: within one step no guard runs
		// after a guard has accepted
		guardStops = true
		for i, acc := range guardLog {
			if acc && i != len(guardLog)-1 {
				guardStops = false
			}
		}
		guardCalls = len(guardLog)
		obs = map[string]interface{}{"stride": strideJSON(stride), "err": nil}
		if err != nil {
			obs["err"] = normErr(err.Error())
		}
		if stride != nil {
			checkFresh(stride.From)
			checkFresh(stride.To)
		}
	} else {
		line.Msgs = c.Msgs
		var w *core.Walked
		var err error
		if hung := watched(c.Spec.HasLoop(), func() { w, err = spec.Walk(ctx, st, msgs, ctl, props) }); hung {
			line.Go = map[string]interface{}{"hang": true}
			line.Probe = map[string]interface{}{"returns": false}
			return
		}
		if err != nil {
			obs = map[string]interface{}{"walkErr": err.Error()}
		} else {
			obs = walkedJSON(w)
			for _, s := range w.Strides {
				checkFresh(s.From)
				checkFresh(s.To)
			}
		}
	}
	line.Go = obs
	untouched := gen.Canon(stateJSONraw(st)) == st0 && gen.Canon(msgs) == msgs0 && specSnapshot(spec) == spec0 && gen.Canon(props) == props0
	if ctl != nil && fmt.Sprint(ctl.Limit, len(ctl.Breakpoints)) != ctl0 {
		untouched = false
	}
	line.Probe = map[string]interface{}{"untouched": untouched, "fresh": fresh}
	if op == "walk" && !c.Spec.HasLoop() {
		if ok, ran := nonJSONTwinProbe(ctx, c, ctl, props); ran {
			line.Probe["consumesNonJSON"] = ok
		}
	}
	if op == "step" {
		line.Probe["guardStopsAtFirstAccept"] = guardStops
		line.Probe["guardCalls"] = guardCalls
	}
	if c.Profile == "permanent" && c.St.Bs != nil {
		line.Probe["permanentInPlace"] = permanentInPlaceProbe(c.St.Bs)
	}
	// a second, identical call must give an equal result (deterministic DSL actions)
	if !c.Spec.HasLoop() {
		st2 := stateOf(c.St)
		msgs2 := gen.DeepCopy(c.Msgs).([]interface{})
		var obs2 map[string]interface{}
		func() {
			defer func() {
				if r := recover(); r != nil {
					obs2 = map[string]interface{}{"panic": fmt.Sprint(r)}
				}
			}()
			if op == "step" {
				var pending interface{}
				if len(msgs2) > 0 {
					pending = msgs2[0]
				}
				stride, err := spec.Step(ctx, st2, pending, ctl, props)
				obs2 = map[string]interface{}{"stride": strideJSON(stride), "err": nil}
				if err != nil {
					obs2["err"] = normErr(err.Error())
				}
			} else {
				w, err := spec.Walk(ctx, st2, msgs2, ctl, props)
				if err == nil {
					obs2 = walkedJSON(w)
				}
			}
		}()
		line.Probe["repeatable"] = gen.Canon(obs) == gen.Canon(obs2)
	}
	return
}

// nonJSONTwinProbe walks the case again with messages that are not JSON data: every message that
// is a map gets a member holding +Inf (a float64 that encoding/json refuses).  Messages are Go
// values; whether one can be serialised must not matter to the accounting.  Judged on the walk's
// own report: at a node with message branching and no action, a pending message is consumed by the
// stride, and what a stride consumed is the first message still pending (the very object).
func nonJSONTwinProbe(ctx context.Context, c gen.WalkCase, ctl *core.Control, props core.StepProps) (ok bool, ran bool) {
	msgs := gen.DeepCopy(c.Msgs).([]interface{})
	any := false
	for _, m := range msgs {
		if mm, is := m.(map[string]interface{}); is {
			mm["zz"] = math.Inf(1)
			any = true
		}
	}
	if !any {
		return true, false
	}
	spec, err := buildSpec(context.Background(), c.Spec)
	if err != nil || c.Spec.Uncompiled {
		return true, false
	}
	ok = true
	defer func() {
		if r := recover(); r != nil {
			ok, ran = false, true
		}
	}()
	w, err := spec.Walk(ctx, stateOf(c.St), msgs, ctl, props)
	if err != nil || w == nil {
		return true, false
	}
	pend := msgs
	for _, s := range w.Strides {
		if s == nil || s.From == nil {
			continue
		}
		n := spec.Nodes[s.From.NodeName]
		if n != nil && n.Branches != nil && n.Branches.Type == "message" && n.Action == nil && n.ActionSource == nil && len(pend) > 0 && s.Consumed == nil {
			ok = false
		}
		if s.Consumed != nil {
			if len(pend) == 0 {
				ok = false
				break
			}
			a, isA := s.Consumed.(map[string]interface{})
			b, isB := pend[0].(map[string]interface{})
			if isA != isB || (isA && reflect.ValueOf(a).Pointer() != reflect.ValueOf(b).Pointer()) {
				ok = false
			}
			pend = pend[1:]
		}
	}
	if len(w.Remaining) > len(pend) {
		ok = false
	}
	return ok, true
}

func stateJSONraw(st *core.State) interface{} {
	if st == nil {
		return nil
	}
	var bs interface{}
	if st.Bs != nil {
		bs = map[string]interface{}(st.Bs)
	}
	return map[string]interface{}{"node": st.NodeName, "bs": bs}
}

func runWalk(cfg Config) {
	enc := json.NewEncoder(out)
	op := os.Args[1]
	if cfg.Replay != "" {
		data, err := os.ReadFile(cfg.Replay)
		if err != nil {
			panic(err)
		}
		var wrap struct {
			Case json.RawMessage `json:"case"`
		}
		raw := data
		if json.Unmarshal(data, &wrap) == nil && len(wrap.Case) > 0 {
			raw = wrap.Case
		}
		var c gen.WalkCase
		if err := json.Unmarshal(raw, &c); err != nil {
			panic(err)
		}
		var pend struct {
			Pending interface{} `json:"pending"`
			Op      string      `json:"op"`
		}
		json.Unmarshal(raw, &pend)
		if pend.Op != "" {
			op = pend.Op
		}
		if op == "step" && pend.Pending != nil {
			c.Msgs = []interface{}{pend.Pending}
		}
		enc.Encode(runOneWalk(op, 0, c))
		return
	}
	g := gen.New(cfg.Seed)
	nc := 0
	for _, l := range corpusLines(cfg.Corpus) {
		var c gen.WalkCase
		if json.Unmarshal(l, &c) != nil || c.Spec == nil {
			continue
		}
		nc++
		mark(-nc)
		c.Profile = "corpus"
		enc.Encode(runOneWalk(op, -nc, c))
	}
	for i := 0; i < cfg.N; i++ {
		c := g.WalkCase(cfg.Profile)
		mark(i)
		line := runOneWalk(op, i, c)
		enc.Encode(line)
		if line.Go["hang"] == true {
			// processing that never came back is still spinning in this process: the run ends here
			return
		}
	}
}
