// Command harness generates cases, runs the real sheens code on them in-process and
// prints one JSON line per case: the input together with the implementation's
// canonical observation.  The same lines are fed to the Lean driver.
package main

import (
	"runtime/debug"
	"bufio"
	"flag"
	"fmt"
	"os"
	"strconv"
	"strings"
)

var (
	out      *bufio.Writer
	progress *os.File
	// crashedCases: indexes of cases that killed the process in an earlier attempt (fatal runtime
	// errors cannot be recovered); they are reported as such instead of being executed again
	crashedCases = map[int]bool{}
)

const fatalText = "fatal: the process died while running this case (unrecoverable runtime error, e.g. stack overflow)"

// mark records the index of the case about to run, so that a fatal crash (stack
// overflow) can be attributed to it by the check driver.
func mark(i int) {
	if progress != nil {
		progress.Seek(0, 0)
		fmt.Fprintf(progress, "%012d\n", i)
	}
}

func parseSkips(s string) map[int]bool {
	m := map[int]bool{}
	for _, t := range strings.Split(s, ",") {
		if t == "" {
			continue
		}
		if i, err := strconv.Atoi(t); err == nil {
			m[i] = true
		}
	}
	return m
}

func main() {
	if len(os.Args) < 2 {
		fmt.Fprintln(os.Stderr, "usage: harness <op> [flags]")
		os.Exit(2)
	}
	op := os.Args[1]
	fs := flag.NewFlagSet(op, flag.ExitOnError)
	seed := fs.Int64("seed", 1, "PRNG seed")
	n := fs.Int("n", 1000, "number of cases")
	profile := fs.String("profile", "", "generator profile")
	reps := fs.Int("reps", 4, "repeated evaluations per case")
	crashed := fs.String("crashed", "", "comma-separated case indexes known to crash the process (not executed)")
	progressFile := fs.String("progress", "", "file receiving the index of the running case")
	replay := fs.String("replay", "", "replay file (one case)")
	corpus := fs.String("corpus", "", "JSONL file of cases that run first (minimised past failures, witnesses of known findings)")
	fs.Parse(os.Args[2:])

	// an unbounded recursion in the code under test ends the process at this stack size (the
	// default is 1 GB); the crashed case is then attributed and re-run alone by the check
	debug.SetMaxStack(96 << 20)
	out = bufio.NewWriterSize(os.Stdout, 1<<20)
	defer out.Flush()
	if *progressFile != "" {
		f, err := os.Create(*progressFile)
		if err == nil {
			progress = f
			defer f.Close()
		}
	}
	crashedCases = parseSkips(*crashed)
	cfg := Config{Seed: *seed, N: *n, Profile: *profile, Reps: *reps, Crashed: parseSkips(*crashed), Replay: *replay, Corpus: *corpus}

	switch op {
	case "match":
		runMatch(cfg)
	default:
		if f, ok := ops[op]; ok {
			f(cfg)
		} else {
			fmt.Fprintln(os.Stderr, "unknown op", op)
			os.Exit(2)
		}
	}
}

// Config is what every runner gets.
type Config struct {
	Seed    int64
	N       int
	Profile string
	Reps    int
	Crashed map[int]bool
	Replay  string
	Corpus  string
}

// corpusLines returns the non-empty lines of the corpus file.
func corpusLines(path string) [][]byte {
	if path == "" {
		return nil
	}
	data, err := os.ReadFile(path)
	if err != nil {
		return nil
	}
	var acc [][]byte
	for _, l := range strings.Split(string(data), "\n") {
		if strings.TrimSpace(l) != "" {
			acc = append(acc, []byte(l))
		}
	}
	return acc
}

// ops registers further runners (one file per property family).
var ops = map[string]func(Config){}
