package main

import (
	"context"
	"encoding/json"
	"fmt"
	"runtime/debug"
	"sort"

	"github.com/Comcast/sheens/core"
	"github.com/Comcast/sheens/crew"
	"github.com/Comcast/sheens/sio"

	"verifharness/gen"
)

func init() {
	ops["crew"] = runCrew
	ops["timersgen"] = func(cfg Config) {
		enc := json.NewEncoder(out)
		g := gen.New(cfg.Seed)
		for i := 0; i < cfg.N; i++ {
			var c gen.TimerCase
			if i%5 == 4 {
				c = g.TimerRaceCase(cfg.Profile)
			} else {
				c = g.TimerCase(cfg.Profile)
			}
			c.Id = i
			enc.Encode(c)
		}
	}
	ops["mcrewgen"] = func(cfg Config) {
		enc := json.NewEncoder(out)
		g := gen.New(cfg.Seed)
		for i := 0; i < cfg.N; i++ {
			c := g.MCrewCase(cfg.Profile)
			c.Id = i
			enc.Encode(c)
		}
	}
	gen.InlineSpecJSON = func(d *gen.SpecD) interface{} {
		s := rawSpec(d)
		js, err := json.Marshal(s)
		if err != nil {
			panic(err)
		}
		var x interface{}
		json.Unmarshal(js, &x)
		return x
	}
}

// rawSpec renders a DSL spec (ECMAScript actions only) as an uncompiled core.Spec.
func rawSpec(d *gen.SpecD) *core.Spec {
	s := &core.Spec{Name: d.Name, Nodes: map[string]*core.Node{},
		ActionErrorBranches: d.ActionErrorBranches, ActionErrorNode: d.ActionErrorNode, NoAutoErrorNode: d.NoErrorNode}
	for name, nd := range d.Nodes {
		n := &core.Node{}
		if nd.Action != nil {
			n.ActionSource = &core.ActionSource{Interpreter: "ecmascript", Source: nd.Action.JS()}
		}
		if nd.Branching != nil {
			n.Branches = &core.Branches{Type: nd.Branching.Type}
			for _, bd := range nd.Branching.Branches {
				b := &core.Branch{Pattern: gen.DeepCopy(bd.Pattern), Target: bd.Target}
				if bd.Guard != nil {
					b.GuardSource = &core.ActionSource{Interpreter: "ecmascript", Source: bd.Guard.JS()}
				}
				n.Branches.Branches = append(n.Branches.Branches, b)
			}
		}
		s.Nodes[name] = n
	}
	return s
}

type nullCouplings struct {
	in  chan interface{}
	out chan *sio.Result
}

func (n *nullCouplings) Start(context.Context) error { return nil }
func (n *nullCouplings) IO(context.Context) (chan interface{}, chan *sio.Result, error) {
	return n.in, n.out, nil
}
func (n *nullCouplings) Read(context.Context) (map[string]*crew.Machine, error) { return nil, nil }
func (n *nullCouplings) Stop(context.Context) error                             { return nil }

func newSioCrew(ctx context.Context, limit int) (*sio.Crew, error) {
	cpl := &nullCouplings{in: make(chan interface{}, 64), out: make(chan *sio.Result, 64)}
	return sio.NewCrew(ctx, &sio.CrewConf{Id: "verif", Ctl: &core.Control{Limit: limit}}, cpl)
}

func srcName(s *crew.SpecSource) interface{} {
	if s == nil || s.Inline == nil {
		if s != nil {
			return ""
		}
		return nil
	}
	return s.Inline.Name
}

func machineView(st *core.State, src *crew.SpecSource) interface{} {
	d := sio.DefaultState(nil)
	if st != nil {
		c := st.Copy()
		d = sio.DefaultState(c)
	}
	return map[string]interface{}{"state": stateJSON(d), "src": srcName(src)}
}

func liveView(c *sio.Crew) map[string]interface{} {
	v := map[string]interface{}{}
	for mid, m := range c.Machines {
		if mid == sio.CaptainMachine || mid == sio.TimersMachine {
			continue
		}
		v[mid] = machineView(m.State, m.SpecSource)
	}
	return v
}

func storeView(store map[string]*crew.Machine) map[string]interface{} {
	v := map[string]interface{}{}
	for mid, m := range store {
		if mid == sio.CaptainMachine || mid == sio.TimersMachine {
			continue
		}
		v[mid] = machineView(m.State, m.SpecSource)
	}
	return v
}

// applyChanges is the reference consumer's fold (sio/stdio.go).
func applyChanges(store map[string]*crew.Machine, changed map[string]*sio.Changed) {
	for mid, m := range changed {
		if m.Deleted {
			delete(store, mid)
			continue
		}
		n, have := store[mid]
		if !have {
			n = &crew.Machine{}
			store[mid] = n
		}
		if m.State != nil {
			n.State = m.State.Copy()
		}
		if m.SpecSrc != nil {
			n.SpecSource = m.SpecSrc.Copy()
		}
	}
}

func depthOf(x interface{}) float64 {
	if m, is := x.(map[string]interface{}); is {
		if d, is := m["d"].(float64); is {
			return d
		}
	}
	return -1
}

func serviceState(c *sio.Crew, mid string) string {
	m, have := c.Machines[mid]
	if !have || m.State == nil {
		return "-"
	}
	return gen.Canon(stateJSON(m.State))
}

func addressedTo(msg interface{}, who string) bool {
	m, is := msg.(map[string]interface{})
	if !is {
		return false
	}
	switch t := m["to"].(type) {
	case string:
		return t == who
	case []interface{}:
		for _, x := range t {
			if s, is := x.(string); is && s == who {
				return true
			}
		}
	}
	return false
}

type crewLine struct {
	Op      string                     `json:"op"`
	Id      int                        `json:"id"`
	Specs   map[string]*gen.SpecD      `json:"specs"`
	Limit   int                        `json:"limit"`
	Init    map[string]gen.CrewMachineD `json:"init"`
	History []interface{}              `json:"history"`
	Profile string                     `json:"profile"`
	Go      map[string]interface{}     `json:"go"`
	Probe   map[string]interface{}     `json:"probe"`
}

func bootCrew(ctx context.Context, c gen.CrewCase) (*sio.Crew, error) {
	cr, err := newSioCrew(ctx, c.Limit)
	if err != nil {
		return nil, err
	}
	mids := make([]string, 0, len(c.Init))
	for mid := range c.Init {
		mids = append(mids, mid)
	}
	sort.Strings(mids)
	for _, mid := range mids {
		md := c.Init[mid]
		var st *core.State
		if md.State != nil {
			st = stateOf(*md.State)
		}
		if err := cr.SetMachine(ctx, mid, &crew.SpecSource{Inline: rawSpec(c.Specs[md.Spec])}, st); err != nil {
			return nil, err
		}
	}
	return cr, nil
}

// relayCounters: for every machine that is waiting at "listen", its message counter (and a marker
// for every machine that exists).
func relayCounters(c *sio.Crew) map[string]float64 {
	acc := map[string]float64{}
	for mid, m := range c.Machines {
		acc["\x00exists:"+mid] = 1
		if m.State != nil && m.State.NodeName == "start" {
			acc["\x00atstart:"+mid] = 1
		}
		if mid == sio.CaptainMachine || mid == sio.TimersMachine || m.State == nil || m.State.NodeName != "listen" {
			continue
		}
		if m.Specter == nil || m.Specter.Spec() == nil {
			continue // no spec yet: the machine is inert and counts nothing
		}
		n, _ := m.State.Bs["n"].(float64)
		acc[mid] = n
	}
	return acc
}

// relayRoundAccounted checks one round of the crew on its own report: the messages processed in
// the round are the inbound one and every reported emission, each once; a relay machine (gen/crew.go)
// that waits at "listen" before and after the round has counted exactly the depth-carrying messages
// addressed to it.  Rounds with crew operations, unrouted or "*" messages are not judged (who is
// addressed then depends on the crew's membership during the round).
func relayRoundAccounted(msg interface{}, r *sio.Result, before, after map[string]float64, members map[string]bool) bool {
	processed := []interface{}{msg}
	for _, batch := range r.Emitted {
		processed = append(processed, batch...)
	}
	want := map[string]float64{}
	created := map[string]bool{}
	for _, m := range processed {
		mm, is := m.(map[string]interface{})
		if !is {
			return true
		}
		if up, op := mm["update"]; op {
			// a machine created in this round (new id, a spec, no state) starts counting from here;
			// any other crew operation leaves the round unjudged
			um, is := up.(map[string]interface{})
			if !is || mm["to"] != sio.CaptainMachine {
				return true
			}
			for mid, x := range um {
				xm, is := x.(map[string]interface{})
				if !is || members[mid] || created[mid] {
					return true
				}
				if _, hasSpec := xm["spec"]; !hasSpec {
					return true
				}
				if _, hasState := xm["state"]; hasState {
					return true
				}
				created[mid] = true
				delete(want, mid) // what was addressed to it before it existed went nowhere
			}
			continue
		}
		if _, op := mm["delete"]; op {
			return true
		}
		_, counted := mm["d"].(float64)
		seen := map[string]bool{}
		switch t := mm["to"].(type) {
		case string:
			if t == "*" || t == sio.CaptainMachine || t == sio.TimersMachine {
				return true
			}
			seen[t] = true
		case []interface{}:
			for _, x := range t {
				s, is := x.(string)
				if !is || s == "*" || s == sio.CaptainMachine || s == sio.TimersMachine {
					return true
				}
				seen[s] = true
			}
		default:
			return true
		}
		if counted {
			for s := range seen {
				want[s]++
			}
		}
	}
	for mid, n0 := range before {
		n1, still := after[mid]
		if !still {
			continue
		}
		if n1 != n0+want[mid] {
			return false
		}
	}
	for mid := range created {
		if n1, listening := after[mid]; listening && n1 != want[mid] {
			return false
		}
		if _, listening := after[mid]; !listening && want[mid] > 0 && !members[mid] {
			// it was handed work and is neither waiting nor counted: look whether it exists at all
			if _, exists := after["\x00exists:"+mid]; !exists {
				return false
			}
			// handed work, yet still where it was put: it never walked
			if _, idle := after["\x00atstart:"+mid]; idle {
				return false
			}
		}
	}
	return true
}

func runOneCrew(id int, c gen.CrewCase) (line crewLine) {
	line = crewLine{Op: "crew", Id: id, Specs: c.Specs, Limit: c.Limit, Init: c.Init, History: c.History, Profile: c.Profile}
	ctx, cancel := context.WithCancel(context.Background())
	defer cancel()
	defer func() {
		if r := recover(); r != nil {
			line.Go = map[string]interface{}{"panic": fmt.Sprint(r), "stack": string(debug.Stack())}
		}
	}()
	cr, err := bootCrew(ctx, c)
	if err != nil {
		line.Go = map[string]interface{}{"bootErr": err.Error()}
		return
	}
	store := map[string]*crew.Machine{}
	steps := []interface{}{}
	bfsOrdered, batchOrder, servicesQuiet, storeEq := true, true, true, true
	snapshots := []map[string]*crew.Machine{} // the store after each message, for the restart probe
	fedBackCount := true
	for _, msg := range c.History {
		cap0, tim0 := serviceState(cr, sio.CaptainMachine), serviceState(cr, sio.TimersMachine)
		before := relayCounters(cr)
		members := map[string]bool{}
		for mid := range cr.Machines {
			members[mid] = true
		}
		r, err := cr.ProcessMsg(ctx, gen.DeepCopy(msg))
		if err == nil && c.Limit >= 10 && !relayRoundAccounted(msg, r, before, relayCounters(cr), members) {
			fedBackCount = false
		}
		if err != nil {
			steps = append(steps, map[string]interface{}{"err": err.Error()})
			continue
		}
		if !addressedTo(msg, sio.CaptainMachine) && serviceState(cr, sio.CaptainMachine) != cap0 {
			servicesQuiet = false
		}
		if !addressedTo(msg, sio.TimersMachine) && serviceState(cr, sio.TimersMachine) != tim0 {
			servicesQuiet = false
		}
		changed := map[string]interface{}{}
		for mid, ch := range r.Changed {
			var st interface{}
			if ch.State != nil {
				st = stateJSON(ch.State)
			}
			changed[mid] = map[string]interface{}{"state": st, "src": srcName(ch.SpecSrc), "deleted": ch.Deleted}
		}
		flat := []string{}
		batches := []string{}
		last := -1.0
		for _, batch := range r.Emitted {
			if len(batch) > 0 {
				batches = append(batches, gen.Canon(batch))
			}
			idx := map[string]float64{}
			for _, m := range batch {
				flat = append(flat, gen.Canon(m))
				d := depthOf(m)
				if d >= 0 {
					if d < last {
						bfsOrdered = false
					}
					last = d
				}
				if mm, is := m.(map[string]interface{}); is {
					tag, _ := mm["tag"].(string)
					i, is := mm["i"].(float64)
					if is {
						if prev, have := idx[tag]; have && i < prev {
							batchOrder = false
						}
						idx[tag] = i
					}
				}
			}
		}
		sort.Strings(flat)
		sort.Strings(batches)
		applyChanges(store, r.Changed)
		lv, sv := liveView(cr), storeView(store)
		if gen.Canon(lv) != gen.Canon(sv) {
			storeEq = false
		}
		steps = append(steps, map[string]interface{}{"changed": changed, "emitted": flat, "batches": batches, "live": lv, "store": sv})
		snap := map[string]*crew.Machine{}
		for mid, m := range store {
			cp := &crew.Machine{SpecSource: m.SpecSource}
			if m.State != nil {
				cp.State = m.State.Copy()
			}
			snap[mid] = cp
		}
		snapshots = append(snapshots, snap)
	}
	line.Go = map[string]interface{}{"steps": steps}
	final := gen.Canon(liveView(cr))
	// restart probe: a crew rebuilt from the store at any message boundary behaves identically from then on
	rebuildEquiv := true
	for k := 0; k < len(snapshots) && k < len(c.History); k++ {
		func() {
			ctx2, cancel2 := context.WithCancel(context.Background())
			defer cancel2()
			cr2, err := newSioCrew(ctx2, c.Limit)
			if err != nil {
				return
			}
			mids := make([]string, 0)
			for mid := range snapshots[k] {
				mids = append(mids, mid)
			}
			sort.Strings(mids)
			for _, mid := range mids {
				m := snapshots[k][mid]
				var st *core.State
				if m.State != nil {
					st = m.State.Copy()
				}
				if err := cr2.SetMachine(ctx2, mid, m.SpecSource, st); err != nil {
					rebuildEquiv = false
					return
				}
			}
			for _, msg := range c.History[k+1:] {
				if _, err := cr2.ProcessMsg(ctx2, gen.DeepCopy(msg)); err != nil {
					return
				}
			}
			if gen.Canon(liveView(cr2)) != final {
				rebuildEquiv = false
			}
		}()
	}
	if c.Limit < 10 {
		// the depth and index bookkeeping of the relay machines presupposes walks that run to
		// quiescence (an emission's depth is its cause's depth plus one)
		bfsOrdered, batchOrder = true, true
	}
	line.Probe = map[string]interface{}{"bfsOrdered": bfsOrdered, "batchOrder": batchOrder, "servicesQuiet": servicesQuiet, "fedBackCount": fedBackCount,
		"storeEqLive": storeEq, "rebuildEquiv": rebuildEquiv}
	return
}

func runCrew(cfg Config) {
	enc := json.NewEncoder(out)
	g := gen.New(cfg.Seed)
	nc := 0
	for _, l := range corpusLines(cfg.Corpus) {
		var c gen.CrewCase
		if json.Unmarshal(l, &c) != nil || c.Specs == nil {
			continue
		}
		nc++
		mark(-nc)
		enc.Encode(runOneCrew(-nc, c))
	}
	for i := 0; i < cfg.N; i++ {
		c := g.CrewCase(cfg.Profile)
		mark(i)
		enc.Encode(runOneCrew(i, c))
	}
}
