package main

import (
	"context"
	"encoding/json"
	"fmt"
	"os"
	"path/filepath"
	"sync"
	"time"

	"github.com/Comcast/sheens/core"
	"github.com/Comcast/sheens/match"
	"github.com/Comcast/sheens/tools/expect"

	"verifharness/gen"
)

func init() {
	ops["expect"] = runExpect
}

func runOneExpect(dir string, emitter string, c gen.ExpectCase) (res string) {
	defer func() {
		if r := recover(); r != nil {
			res = "panic:" + fmt.Sprint(r)
		}
	}()
	s := &expect.Session{DefaultTimeout: 400 * time.Millisecond, Interpreters: core.DefaultInterpreters}
	for _, st := range c.Steps {
		iop := expect.IO{}
		for _, o := range st.Outputs {
			out := expect.Output{Pattern: gen.DeepCopy(o.Pattern), Inverted: o.Inverted}
			if o.Stale {
				out.Bindingss = []match.Bindings{{"?stale": true}}
			}
			if o.Guard != nil {
				out.GuardSource = &core.ActionSource{Interpreter: "ecmascript", Source: o.Guard.JS()}
			}
			iop.OutputSet = append(iop.OutputSet, out)
		}
		s.IOs = append(s.IOs, iop)
	}
	f := filepath.Join(dir, fmt.Sprintf("lines-%d.txt", c.Id))
	var data []byte
	for _, l := range c.Lines {
		if x, have := l["json"]; have {
			js, _ := json.Marshal(x)
			data = append(data, js...)
		} else if ms, have := l["pause"]; have {
			data = append(data, []byte(fmt.Sprintf("#pause %v", ms))...)
		} else {
			data = append(data, []byte(l["noise"].(string))...)
		}
		data = append(data, '\n')
	}
	os.WriteFile(f, data, 0o644)
	defer os.Remove(f)
	args := []string{emitter, f}
	if c.End == "eof" {
		args = append(args, "eof")
	}
	ctx, cancel := context.WithTimeout(context.Background(), 20*time.Second)
	defer cancel()
	if err := s.Run(ctx, "", args...); err != nil {
		return "fail"
	}
	return "pass"
}

func runExpect(cfg Config) {
	enc := json.NewEncoder(out)
	g := gen.New(cfg.Seed)
	dir, err := os.MkdirTemp("", "verif-expect")
	if err != nil {
		panic(err)
	}
	defer os.RemoveAll(dir)
	emitter := os.Getenv("VERIF_EMITTER")
	cases := []gen.ExpectCase{}
	for _, l := range corpusLines(cfg.Corpus) {
		var c gen.ExpectCase
		if json.Unmarshal(l, &c) == nil && c.Steps != nil {
			cases = append(cases, c)
		}
	}
	nCorpus := len(cases)
	for i := 0; i < cfg.N; i++ {
		c := g.ExpectCase()
		cases = append(cases, c)
	}
	for i := range cases {
		cases[i].Id = i
		cases[i].Op = "expect"
	}
	results := make([]string, len(cases))
	// the corpus cases run one at a time, each announced first: a panic inside the tool's own
	// goroutines cannot be recovered here and kills the process; the driver then runs the op again
	// with that case marked, and it is reported as a crash of the tool
	if len(crashedCases) > 0 {
		// an earlier attempt died (while sessions ran in parallel, or at a case already marked):
		// this time every session runs alone and is announced first
		nCorpus = len(cases)
	}
	for i := 0; i < nCorpus; i++ {
		mark(i)
		if crashedCases[i] {
			results[i] = "crash"
			continue
		}
		results[i] = runOneExpect(dir, emitter, cases[i])
	}
	mark(-1)
	sem := make(chan bool, 16)
	var wg sync.WaitGroup
	for i := range cases {
		if i < nCorpus {
			continue
		}
		wg.Add(1)
		sem <- true
		go func(i int) {
			defer wg.Done()
			defer func() { <-sem }()
			results[i] = runOneExpect(dir, emitter, cases[i])
		}(i)
	}
	wg.Wait()
	for i, c := range cases {
		js, _ := json.Marshal(c)
		var m map[string]interface{}
		json.Unmarshal(js, &m)
		m["go"] = results[i]
		enc.Encode(m)
	}
}
