package main

import (
	"context"
	"encoding/json"
	"fmt"
	"os"
	"path/filepath"
	"strings"

	"github.com/Comcast/sheens/core"
	"github.com/Comcast/sheens/crew"
	"github.com/Comcast/sheens/sio"
	jyaml "github.com/jsccast/yaml"

	"verifharness/gen"
)

func init() {
	ops["compile"] = runCompile
}

func compileErrClass(err error) string {
	s := err.Error()
	switch {
	case strings.Contains(s, "interpreter not found"):
		return "interpreterNotFound"
	case strings.Contains(s, "unknown branching type"):
		return "unknownBranchingType"
	case strings.Contains(s, "null branch"):
		return "nullBranch"
	case strings.Contains(s, "unsupposed pattern syntax"):
		return "badSyntax"
	case strings.Contains(s, "SyntaxError"), strings.Contains(s, "Unexpected"):
		return "badSource"
	case strings.Contains(s, "invalid character"), strings.Contains(s, "unexpected end of JSON"), strings.Contains(s, "cannot unmarshal"):
		return "badPatternText"
	case strings.Contains(s, "json: unsupported"):
		return "notSerialisable"
	}
	return "other:" + s
}

func compiledJSON(s *core.Spec) interface{} {
	acc := map[string]interface{}{}
	for name, n := range s.Nodes {
		m := map[string]interface{}{"action": n.Action != nil, "branching": nil}
		if n.Branches != nil {
			bs := []interface{}{}
			for _, b := range n.Branches.Branches {
				bs = append(bs, map[string]interface{}{"pattern": b.Pattern, "guard": b.Guard != nil, "target": b.Target})
			}
			m["branching"] = map[string]interface{}{"type": n.Branches.Type, "branches": bs}
		}
		acc[name] = m
	}
	return acc
}

var reprMsgs = [][]interface{}{
	{map[string]interface{}{"k": "a"}, map[string]interface{}{"n": 2.0}},
	{map[string]interface{}{"k": "b", "n": 1.0}, "str", map[string]interface{}{"likes": "tacos"}},
	{3.0, map[string]interface{}{"t": "b"}, map[string]interface{}{"k": "a", "n": 2.0, "extra": true}},
	// arrays: a number inside an array pattern is compared as it was decoded (no coercion there)
	{[]interface{}{1.0, 2.0}, map[string]interface{}{"k": "a"}, []interface{}{2.0, 1.0, 3.0}, map[string]interface{}{"n": 2.0}},
	{map[string]interface{}{"k": []interface{}{map[string]interface{}{"id": 1.0}, map[string]interface{}{"id": 2.0}}}, []interface{}{1.0, 2.0}},
}

// behaviour of a compiled spec on fixed message sequences
func behaviour(s *core.Spec) string {
	acc := []interface{}{}
	for _, msgs := range reprMsgs {
		func() {
			defer func() {
				if r := recover(); r != nil {
					acc = append(acc, "panic")
				}
			}()
			st := &core.State{NodeName: "start", Bs: map[string]interface{}{"count": 1.0}}
			w, err := s.Walk(context.Background(), st, gen.DeepCopy(msgs).([]interface{}), &core.Control{Limit: 12}, nil)
			if err != nil {
				acc = append(acc, "err")
				return
			}
			acc = append(acc, walkedJSON(w))
		}()
	}
	return gen.Canon(acc)
}

func compileDoc(doc interface{}, loader string, dir string, id int) (s *core.Spec, err error) {
	js, _ := json.Marshal(doc)
	s = &core.Spec{}
	switch loader {
	case "json":
		if err = json.Unmarshal(js, s); err != nil {
			return nil, err
		}
	case "yaml":
		// the YAML rendering of the same specification (field names as the yaml tags give them)
		var tmp core.Spec
		if err = json.Unmarshal(js, &tmp); err != nil {
			return nil, err
		}
		ys, e := jyaml.Marshal(&tmp)
		if e != nil {
			return nil, e
		}
		if err = jyaml.Unmarshal(ys, s); err != nil {
			return nil, err
		}
	case "sio":
		var tmp core.Spec
		if err = json.Unmarshal(js, &tmp); err != nil {
			return nil, err
		}
		ys, e := jyaml.Marshal(&tmp)
		if e != nil {
			return nil, e
		}
		f := filepath.Join(dir, fmt.Sprintf("spec-%d.yaml", id))
		os.WriteFile(f, ys, 0o644)
		defer os.Remove(f)
		_, sp, e := sio.ResolveSpecSource(context.Background(), &crew.SpecSource{URL: "file://" + f})
		return sp, e
	case "sio-json", "sio-json-noext":
		// the JSON text of the same specification, fetched by the sio crew from a URL whose name
		// says ".json" or says nothing
		name := fmt.Sprintf("spec-%d.json", id)
		if loader == "sio-json-noext" {
			name = fmt.Sprintf("spec-%d", id)
		}
		f := filepath.Join(dir, name)
		os.WriteFile(f, js, 0o644)
		defer os.Remove(f)
		_, sp, e := sio.ResolveSpecSource(context.Background(), &crew.SpecSource{URL: "file://" + f})
		return sp, e
	}
	err = s.Compile(context.Background(), nil, true)
	return s, err
}

func textPatterns(doc map[string]interface{}) map[string]interface{} {
	d := gen.DeepCopy(doc).(map[string]interface{})
	d["patternSyntax"] = "json"
	nodes, _ := d["nodes"].(map[string]interface{})
	for _, n := range nodes {
		nm, _ := n.(map[string]interface{})
		br, _ := nm["branching"].(map[string]interface{})
		bs, _ := br["branches"].([]interface{})
		for _, b := range bs {
			bm, is := b.(map[string]interface{})
			if !is {
				continue
			}
			if p, have := bm["pattern"]; have && p != nil {
				js, _ := json.Marshal(p)
				bm["pattern"] = string(js)
			}
		}
	}
	return d
}

func runOneCompile(id int, doc map[string]interface{}, wellFormed bool, dir string) map[string]interface{} {
	line := map[string]interface{}{"op": "compile", "id": id, "doc": doc}
	obs := map[string]interface{}{}
	probe := map[string]interface{}{}
	if crashedCases[id] {
		line["go"] = map[string]interface{}{"panic": fatalText}
		line["probe"] = probe
		return line
	}
	func() {
		defer func() {
			if r := recover(); r != nil {
				obs["panic"] = fmt.Sprint(r)
			}
		}()
		s, err := compileDoc(doc, "json", dir, id)
		if err != nil {
			obs["doc"] = map[string]interface{}{"err": compileErrClass(err)}
			// a rejected compile leaves the spec as it was: compiling the same value again is
			// rejected for the same reason (a host that retries, or reports and retries)
			js, _ := json.Marshal(doc)
			var s2 core.Spec
			if json.Unmarshal(js, &s2) == nil {
				e1 := s2.Compile(context.Background(), nil, true)
				e2 := s2.Compile(context.Background(), nil, true)
				probe["compileRetrySame"] = (e1 == nil) == (e2 == nil) && (e1 == nil || compileErrClass(e1) == compileErrClass(e2))
			}
		} else {
			obs["doc"] = map[string]interface{}{"ok": compiledJSON(s)}
		}
		if err == nil && wellFormed {
			base := behaviour(s)
			same := true
			// other representations of the same specification
			for _, loader := range []string{"yaml", "sio", "sio-json", "sio-json-noext"} {
				s2, err := compileDoc(doc, loader, dir, id)
				if err != nil || behaviour(s2) != base {
					same = false
					if os.Getenv("VERIF_DEBUG") != "" {
						fmt.Fprintf(os.Stderr, "case %d loader %s: err=%v\nbase=%s\nthis=%s\n", id, loader, err, base, func() string { if err != nil { return "" }; return behaviour(s2) }())
					}
				}
			}
			if doc["patternSyntax"] == nil || doc["patternSyntax"] == "" {
				s3, err := compileDoc(textPatterns(doc), "json", dir, id)
				if err != nil || behaviour(s3) != base {
					same = false
					if os.Getenv("VERIF_DEBUG") != "" {
						fmt.Fprintf(os.Stderr, "case %d text patterns: err=%v\n", id, err)
					}
				}
			}
			probe["reprIndependent"] = same
			// compile again (and again): nothing changes
			idem := true
			for k := 0; k < 2; k++ {
				if err := s.Compile(context.Background(), nil, true); err != nil || behaviour(s) != base {
					idem = false
				}
			}
			probe["compileIdempotent"] = idem
			// serialise the compiled spec and reload it
			js, err := json.Marshal(s)
			reload := err == nil
			if reload {
				var s4 core.Spec
				if json.Unmarshal(js, &s4) != nil || s4.Compile(context.Background(), nil, true) != nil || behaviour(&s4) != base {
					reload = false
				}
			}
			probe["reloadSame"] = reload
		}
	}()
	line["go"] = obs
	line["probe"] = probe
	return line
}

func runCompile(cfg Config) {
	enc := json.NewEncoder(out)
	g := gen.New(cfg.Seed)
	dir, err := os.MkdirTemp("", "verif-compile")
	if err != nil {
		panic(err)
	}
	defer os.RemoveAll(dir)
	for i := 0; i < cfg.N; i++ {
		d := g.Spec("compile")
		// sources only (a document has no native actions)
		for _, n := range d.Nodes {
			if n.Action != nil {
				n.Action.Lang = "es"
			}
			if n.Branching != nil {
				for k := range n.Branching.Branches {
					if gd := n.Branching.Branches[k].Guard; gd != nil {
						gd.Lang = "es"
					}
				}
			}
		}
		doc := gen.InlineSpecJSON(d).(map[string]interface{})
		wellFormed := true
		nodes, _ := doc["nodes"].(map[string]interface{})
		names := gen.SortedKeys(nodes)
		pickNode := func() map[string]interface{} {
			if len(names) == 0 {
				return nil
			}
			n, _ := nodes[names[g.Intn(len(names))]].(map[string]interface{})
			return n
		}
		// a guard on some branch that cannot be compiled (case 10: bad source, 11: unknown interpreter)
		badGuard := func(src map[string]interface{}) {
			for _, k := range g.R.Perm(len(names)) {
				n, _ := nodes[names[k]].(map[string]interface{})
				br, _ := n["branching"].(map[string]interface{})
				bs, _ := br["branches"].([]interface{})
				if len(bs) == 0 {
					continue
				}
				if b, is := bs[g.Intn(len(bs))].(map[string]interface{}); is {
					b["guard"] = src
					wellFormed = false
					return
				}
			}
		}
		switch g.Intn(16) {
		case 10:
			badGuard(map[string]interface{}{"interpreter": "ecmascript", "source": "return this is a SYNTAX ERROR ((("})
		case 11:
			badGuard(map[string]interface{}{"interpreter": "cobol", "source": "return _.bindings;"})
		case 0:
			if len(names) > 0 {
				nodes[names[g.Intn(len(names))]] = nil // a null node
			}
		case 1:
			if n := pickNode(); n != nil {
				if br, is := n["branching"].(map[string]interface{}); is {
					bs, _ := br["branches"].([]interface{})
					br["branches"] = append(bs, nil) // a null branch
					wellFormed = false
				}
			}
		case 2:
			if n := pickNode(); n != nil {
				n["action"] = map[string]interface{}{"interpreter": "cobol", "source": "return _.bindings;"}
				wellFormed = false
			}
		case 3:
			if n := pickNode(); n != nil {
				if br, is := n["branching"].(map[string]interface{}); is {
					// unknown types, including near misses of the two known ones
					br["type"] = []string{"sideways", "Message", "BINDINGS", "message ", "msg"}[i%5]
					wellFormed = false
				}
			}
		case 4:
			doc["patternSyntax"] = "xml"
			wellFormed = false
		case 5:
			doc = textPatterns(doc)
		case 6:
			// bare string and bare variable patterns
			if n := pickNode(); n != nil {
				if br, is := n["branching"].(map[string]interface{}); is {
					bs, _ := br["branches"].([]interface{})
					br["branches"] = append(bs, map[string]interface{}{"pattern": g.Pick("?whole", "str", "?"), "target": "start"})
				}
			}
		case 7:
			if n := pickNode(); n != nil {
				n["action"] = map[string]interface{}{"interpreter": "ecmascript", "source": "this is a SYNTAX ERROR ((("}
				wellFormed = false
			}
		case 8:
			d2 := textPatterns(doc)
			if n, _ := d2["nodes"].(map[string]interface{}); len(n) > 0 {
				nn, _ := n[gen.SortedKeys(n)[0]].(map[string]interface{})
				if br, is := nn["branching"].(map[string]interface{}); is {
					bs, _ := br["branches"].([]interface{})
					br["branches"] = append(bs, map[string]interface{}{"pattern": "{not json", "target": "start"})
					wellFormed = false
				}
			}
			doc = d2
		case 9:
			doc["nodes"] = nil
		case 12:
			// two things at once: bare string / bare variable patterns written as JSON text, and a
			// spec that is rejected while its nodes are being compiled
			for _, name := range names {
				if n, _ := nodes[name].(map[string]interface{}); n != nil {
					if br, is := n["branching"].(map[string]interface{}); is {
						bs, _ := br["branches"].([]interface{})
						br["branches"] = append(bs, map[string]interface{}{"pattern": g.Pick("?whole", "str", "1"), "target": "start"})
					}
				}
			}
			doc = textPatterns(doc)
			if dn, _ := doc["nodes"].(map[string]interface{}); len(dn) > 0 {
				ks := gen.SortedKeys(dn)
				if n, _ := dn[ks[g.Intn(len(ks))]].(map[string]interface{}); n != nil {
					n["action"] = map[string]interface{}{"interpreter": "cobol", "source": "return _.bindings;"}
					wellFormed = false
				}
			}
		}
		mark(i)
		enc.Encode(runOneCompile(i, doc, wellFormed, dir))
	}
	_ = core.DefaultControl
}
