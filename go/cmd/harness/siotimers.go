package main

import (
	"context"
	"encoding/json"
	"fmt"
	"os"
	"runtime/debug"
	"sort"
	"strconv"
	"sync"
	"time"

	"github.com/Comcast/sheens/core"
	"github.com/Comcast/sheens/sio"

	"verifharness/gen"
)

func init() {
	ops["siotimers"] = runSioTimers
}

type sioTimerRun struct {
	c      gen.TimerCase
	t0     time.Time
	events []map[string]interface{}
	ctx    context.Context
	cancel func()
	cr     *sio.Crew
	in     chan interface{}
	dues   []time.Time // when the timers requested so far are due
	// discard: a firing reached the old crew's input between the harness's snapshot and the
	// shutdown; the harness cannot order the two, so the scenario says nothing and is run again
	discard bool
}

// quiet waits until no requested timer is due within a few milliseconds: the harness is about to
// read the live timers state itself (to "persist" it), which the timer goroutines write without a
// lock the harness could take (known finding KF-C17-1 is about the crew's own reads).
func (r *sioTimerRun) quiet() {
	for tries := 0; tries < 50; tries++ {
		now := time.Now()
		var wait time.Duration
		for _, d := range r.dues {
			if d.After(now.Add(-2*time.Millisecond)) && d.Before(now.Add(6*time.Millisecond)) {
				if w := d.Sub(now) + 6*time.Millisecond; w > wait {
					wait = w
				}
			}
		}
		if wait == 0 {
			return
		}
		r.wait(wait)
	}
}

func (r *sioTimerRun) us(t time.Time) int64 { return t.Sub(r.t0).Microseconds() }

func (r *sioTimerRun) log(ev map[string]interface{}) {
	ev["t"] = r.us(time.Now())
	r.events = append(r.events, ev)
}

func (r *sioTimerRun) boot(state *core.State) error {
	ctx, cancel := context.WithCancel(context.Background())
	cpl := &nullCouplings{in: make(chan interface{}), out: make(chan *sio.Result, 256)} // in: unbuffered, as the stdio coupling makes it
	cr, err := sio.NewCrew(ctx, &sio.CrewConf{Id: "verif", Ctl: &core.Control{Limit: 50}}, cpl)
	if err != nil {
		cancel()
		return err
	}
	r.ctx, r.cancel, r.cr, r.in = ctx, cancel, cr, cpl.in
	if state != nil {
		return cr.SetMachine(ctx, sio.TimersMachine, nil, state)
	}
	return nil
}

func (r *sioTimerRun) timersError() bool {
	m, have := r.cr.Machines[sio.TimersMachine]
	if !have || m.State == nil {
		return false
	}
	_, has := m.State.Bs["error"]
	return has
}

func (r *sioTimerRun) step(st gen.TimerStep, who string) {
	switch st.Do {
	case "add":
		before := r.us(time.Now())
		msg := map[string]interface{}{"to": "timers", "makeTimer": map[string]interface{}{
			"id": st.Id, "in": fmt.Sprintf("%dms", st.Delay), "msg": map[string]interface{}{"to": "nobody", "tag": float64(st.Tag)}}}
		_, err := r.cr.ProcessMsg(r.ctx, msg)
		r.dues = append(r.dues, time.Now().Add(time.Duration(st.Delay)*time.Millisecond))
		res := "ok"
		ev := map[string]interface{}{"ev": "add", "id": st.Id, "delay": st.Delay * 1000, "tag": st.Tag, "at": before, "who": who}
		if err != nil || r.timersError() {
			res = "err"
			// what went wrong, for the replay file
			if err != nil {
				ev["errText"] = err.Error()
			} else if m, have := r.cr.Machines[sio.TimersMachine]; have && m.State != nil {
				ev["errText"] = fmt.Sprint(m.State.Bs["error"]) + " @" + m.State.NodeName
			}
		}
		ev["res"] = res
		r.log(ev)
	case "rem":
		_, err := r.cr.ProcessMsg(r.ctx, map[string]interface{}{"to": "timers", "cancelTimer": st.Id})
		res := "ok"
		if err != nil {
			res = "err"
		} else if r.timersError() {
			res = "notfound"
		}
		r.log(map[string]interface{}{"ev": "rem", "id": st.Id, "res": res, "who": who})
	case "sleep":
		r.wait(time.Duration(st.Ms) * time.Millisecond)
	case "busy":
		// the loop is occupied with something else: nothing reads the crew's input meanwhile
		time.Sleep(time.Duration(st.Ms) * time.Millisecond)
	case "pending":
		if os.Getenv("VERIF_NO_PENDING") != "" {
			// race-detector run: the harness itself must not read the live timer table
			return
		}
		ids := []string{}
		if m, have := r.cr.Machines[sio.TimersMachine]; have && m.State != nil {
			if tm, is := m.State.Bs["timers"].(map[string]*sio.TimerEntry); is {
				for id := range tm {
					ids = append(ids, id)
				}
			}
		}
		sort.Strings(ids)
		r.log(map[string]interface{}{"ev": "pending", "ids": ids})
	case "restart":
		// the state a host would have persisted: the timers machine's state as JSON
		r.quiet()
		var js []byte
		if m, have := r.cr.Machines[sio.TimersMachine]; have {
			js, _ = json.Marshal(m.State)
		}
		r.cancel()
		time.Sleep(5 * time.Millisecond)
	drain:
		for {
			select {
			case <-r.in:
				r.discard = true
			default:
				break drain
			}
		}
		var state core.State
		if err := json.Unmarshal(js, &state); err != nil {
			r.log(map[string]interface{}{"ev": "restartErr", "err": err.Error()})
			return
		}
		if err := r.boot(&state); err != nil {
			r.log(map[string]interface{}{"ev": "restartErr", "err": err.Error()})
			return
		}
		r.log(map[string]interface{}{"ev": "restart"})
	}
}

// wait serves the crew's input channel (firing messages) for the given time, as Crew.Loop would.
func (r *sioTimerRun) wait(d time.Duration) {
	deadline := time.Now().Add(d)
	for {
		rem := time.Until(deadline)
		if rem <= 0 {
			// drain what is already queued
			select {
			case m := <-r.in:
				r.fired(m)
				continue
			default:
				return
			}
		}
		select {
		case m := <-r.in:
			r.fired(m)
		case <-time.After(rem):
		}
	}
}

func (r *sioTimerRun) fired(m interface{}) {
	mm, _ := m.(map[string]interface{})
	tagf, _ := mm["tag"].(float64)
	tag := int(tagf)
	r.log(map[string]interface{}{"ev": "fire", "tag": tag})
	if os.Getenv("VERIF_NO_PENDING") == "" {
		// After its send the firing goroutine still records a change in the crew's change cache,
		// unsynchronised with the crew's own processing (known finding KF-C17-1).  Processing the
		// fired message at once, as Crew.Loop does, regularly crashes the run on that race; outside
		// the race-detector run the harness gives the goroutine a moment to finish.
		time.Sleep(time.Millisecond)
	}
	r.cr.ProcessMsg(r.ctx, m)
	for _, st := range r.c.OnFire[strconv.Itoa(tag)] {
		r.step(st, "handler")
	}
}

func runOneSioTimers(c gen.TimerCase) map[string]interface{} {
	for attempt := 0; attempt < 3; attempt++ {
		res, discard := runOneSioTimersOnce(c)
		if !discard {
			return res
		}
	}
	return map[string]interface{}{"events": []interface{}{}, "discarded": true}
}

func runOneSioTimersOnce(c gen.TimerCase) (res map[string]interface{}, discard bool) {
	r := &sioTimerRun{c: c, t0: time.Now()}
	defer func() {
		if x := recover(); x != nil {
			res = map[string]interface{}{"panic": fmt.Sprint(x), "stack": string(debug.Stack())}
		}
		if r.cancel != nil {
			r.cancel()
		}
	}()
	if err := r.boot(nil); err != nil {
		return map[string]interface{}{"bootErr": err.Error()}, false
	}
	for _, st := range c.Script {
		r.step(st, "requester")
		r.wait(0)
		if r.discard {
			return nil, true
		}
	}
	return map[string]interface{}{"events": r.events}, false
}

func runSioTimers(cfg Config) {
	enc := json.NewEncoder(out)
	g := gen.New(cfg.Seed)
	cases := []gen.TimerCase{}
	for _, l := range corpusLines(cfg.Corpus) {
		var c gen.TimerCase
		if json.Unmarshal(l, &c) == nil && c.Script != nil {
			c.Impl = "sio"
			cases = append(cases, c)
		}
	}
	for i := 0; i < cfg.N; i++ {
		var c gen.TimerCase
		if i%5 == 4 {
			c = g.TimerRaceCase("sio")
		} else {
			c = g.TimerCase("sio")
		}
		c.Id = i
		cases = append(cases, c)
	}
	results := make([]map[string]interface{}, len(cases))
	sem := make(chan bool, 12)
	var wg sync.WaitGroup
	for i := range cases {
		wg.Add(1)
		sem <- true
		go func(i int) {
			defer wg.Done()
			defer func() { <-sem }()
			// a scenario lasts well under a second; one that does not come to an end is stuck
			// (a request or a firing blocked for good) and is reported as such
			done := make(chan map[string]interface{}, 1)
			go func() { done <- runOneSioTimers(cases[i]) }()
			select {
			case r := <-done:
				results[i] = r
			case <-time.After(20 * time.Second):
				results[i] = map[string]interface{}{"hang": true, "events": []interface{}{}}
			}
		}(i)
	}
	wg.Wait()
	for i, c := range cases {
		line := map[string]interface{}{"op": "timers", "id": c.Id, "impl": "sio", "script": c.Script, "onFire": c.OnFire,
			"profile": c.Profile, "go": results[i]}
		enc.Encode(line)
	}
	_ = os.Stderr
}
