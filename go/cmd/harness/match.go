package main

import (
	"encoding/json"
	"os"
	"reflect"
	"sort"
	"strings"
	"sync"

	"github.com/Comcast/sheens/match"

	"verifharness/gen"
)

type matchLine struct {
	Op      string                   `json:"op"`
	Id      int                      `json:"id"`
	P       interface{}              `json:"p"`
	F       interface{}              `json:"f"`
	Bs      map[string]interface{}   `json:"bs"`
	Planted map[string]interface{}   `json:"planted,omitempty"`
	Profile string                   `json:"profile"`
	Go      []map[string]interface{} `json:"go"`
	Probe   map[string]interface{}   `json:"probe,omitempty"`
}

func errClass(err error) string {
	s := err.Error()
	switch {
	case strings.Contains(s, "can't have a variable as a key"):
		return "badPropVar"
	case strings.Contains(s, "repeated variables"):
		return "repeatedVar"
	case strings.Contains(s, "multiple variables"):
		return "multiVar"
	case strings.Contains(s, "unknown pattern type"):
		return "unknownPatternType"
	}
	return "other:" + s
}

// matchOnce runs the real matcher; panics are reported as an outcome.
func matchOnce(p, f interface{}, bs match.Bindings) (o map[string]interface{}, bss []match.Bindings) {
	defer func() {
		if r := recover(); r != nil {
			o = map[string]interface{}{"panic": true}
		}
	}()
	bss, err := match.Match(p, f, bs)
	if err != nil {
		return map[string]interface{}{"err": errClass(err)}, nil
	}
	res := make([]interface{}, 0, len(bss))
	for _, b := range bss {
		res = append(res, map[string]interface{}(b))
	}
	// results come out of map iteration: compare as a sorted multiset
	sort.SliceStable(res, func(i, j int) bool { return gen.Canon(res[i]) < gen.Canon(res[j]) })
	return map[string]interface{}{"res": res}, bss
}

func mapPtr(m interface{}) uintptr { return reflect.ValueOf(m).Pointer() }

// mapPool holds map objects of earlier patterns, by number of keys.  recycle rebuilds a pattern
// out of them: same value as a fresh pattern, but living in objects that earlier matches have
// already seen with other contents (a caller re-using its maps; what address re-use after a
// collection does without any caller's help).  A matcher that is a function of its arguments
// cannot tell the difference.
var mapPool = map[int][]map[string]interface{}{}
var recycledMaps int

func recycle(v interface{}, used *[]map[string]interface{}) interface{} {
	switch vv := v.(type) {
	case map[string]interface{}:
		var m map[string]interface{}
		if l := mapPool[len(vv)]; len(l) > 0 {
			m, mapPool[len(vv)] = l[len(l)-1], l[:len(l)-1]
			for k := range m {
				delete(m, k)
			}
			recycledMaps++
		} else {
			m = make(map[string]interface{}, len(vv))
		}
		for k, x := range vv {
			m[k] = recycle(x, used)
		}
		*used = append(*used, m)
		return m
	case []interface{}:
		acc := make([]interface{}, len(vv))
		for i, x := range vv {
			acc[i] = recycle(x, used)
		}
		return acc
	}
	return v
}

// pureProbe: the outcome on a pattern built from recycled map objects is one of the outcomes on
// the fresh pattern.
func pureProbe(c gen.MatchCase, seen map[string]bool, reps int) bool {
	var used []map[string]interface{}
	p := recycle(c.P, &used)
	ok := true
	for i := 0; i < reps; i++ {
		bs := match.Bindings(gen.DeepCopy(c.Bs).(map[string]interface{}))
		o, _ := matchOnce(p, c.F, bs)
		if !seen[gen.Canon(o)] {
			ok = false
		}
	}
	for _, m := range used {
		if len(mapPool[len(m)]) < 64 {
			mapPool[len(m)] = append(mapPool[len(m)], m)
		}
	}
	return ok
}

func runMatchCase(id int, c gen.MatchCase, reps int, crashed bool, probe bool) (matchLine, map[string]bool) {
	line := matchLine{Op: "match", Id: id, P: c.P, F: c.F, Bs: c.Bs, Planted: c.Planted, Profile: c.Profile}
	if crashed {
		line.Go = []map[string]interface{}{{"crash": true}}
		return line, nil
	}
	seen := map[string]bool{}
	untouched, fresh, independent := true, true, true
	p0, f0, b0 := gen.Canon(c.P), gen.Canon(c.F), gen.Canon(c.Bs)
	for i := 0; i < reps; i++ {
		bs := match.Bindings(c.Bs)
		if len(c.Bs) == 0 && i == reps-1 && reps > 1 {
			bs = nil // no bindings given, as the Go zero value (a State whose Bs was never set)
		}
		o, bss := matchOnce(c.P, c.F, bs)
		k := gen.Canon(o)
		if !seen[k] {
			seen[k] = true
			// parse back through JSON so that the line carries plain data
			var plain map[string]interface{}
			json.Unmarshal([]byte(k), &plain)
			line.Go = append(line.Go, plain)
		}
		if gen.Canon(c.P) != p0 || gen.Canon(c.F) != f0 || gen.Canon(c.Bs) != b0 {
			untouched = false
		}
		if probe && len(bss) > 0 {
			ptrs := map[uintptr]bool{}
			if c.Bs != nil {
				ptrs[mapPtr(c.Bs)] = true
			}
			for _, b := range bss {
				if ptrs[mapPtr(b)] {
					fresh = false
				}
				ptrs[mapPtr(b)] = true
			}
			// mutate the first result; nothing else may change
			before := make([]string, len(bss))
			for j, b := range bss {
				before[j] = gen.Canon(map[string]interface{}(b))
			}
			bss[0]["?verif-probe"] = 1.0
			delete(bss[0], "?x")
			for j := 1; j < len(bss); j++ {
				if gen.Canon(map[string]interface{}(bss[j])) != before[j] {
					independent = false
				}
			}
			if gen.Canon(c.P) != p0 || gen.Canon(c.F) != f0 || gen.Canon(c.Bs) != b0 {
				independent = false
			}
		}
	}
	if probe {
		line.Probe = map[string]interface{}{"untouched": untouched, "fresh": fresh, "independent": independent}
	}
	return line, seen
}

// concurrentProbe matches one shared pattern value from many goroutines and
// compares every outcome with the sequential one.
func concurrentProbe(c gen.MatchCase, seq map[string]bool) bool {
	var wg sync.WaitGroup
	ok := true
	var mu sync.Mutex
	for i := 0; i < 32; i++ {
		wg.Add(1)
		go func() {
			defer wg.Done()
			for j := 0; j < 4; j++ {
				bs := match.Bindings(gen.DeepCopy(c.Bs).(map[string]interface{}))
				o, _ := matchOnce(c.P, c.F, bs)
				if !seq[gen.Canon(o)] {
					mu.Lock()
					ok = false
					mu.Unlock()
				}
			}
		}()
	}
	wg.Wait()
	return ok
}

func runMatch(cfg Config) {
	enc := json.NewEncoder(out)
	if cfg.Replay != "" {
		data, err := os.ReadFile(cfg.Replay)
		if err != nil {
			panic(err)
		}
		var c gen.MatchCase
		var wrap struct {
			Case gen.MatchCase `json:"case"`
		}
		if json.Unmarshal(data, &wrap) == nil && wrap.Case.P != nil {
			c = wrap.Case
		} else if err := json.Unmarshal(data, &c); err != nil {
			panic(err)
		}
		if c.Bs == nil {
			c.Bs = map[string]interface{}{}
		}
		line, _ := runMatchCase(0, c, cfg.Reps, false, true)
		enc.Encode(line)
		return
	}
	g := gen.New(cfg.Seed)
	nc := 0
	for _, l := range corpusLines(cfg.Corpus) {
		var c gen.MatchCase
		if json.Unmarshal(l, &c) != nil {
			continue
		}
		if c.Bs == nil {
			c.Bs = map[string]interface{}{}
		}
		c.Profile = "corpus"
		nc++
		mark(-nc)
		line, _ := runMatchCase(-nc, c, cfg.Reps*8, cfg.Crashed[-nc], cfg.Profile == "c03")
		enc.Encode(line)
	}
	for i := 0; i < cfg.N; i++ {
		var c gen.MatchCase
		switch cfg.Profile {
		case "c02":
			c = g.MatchPlanted(true)
		case "c03":
			switch {
			case i%7 == 3:
				c = g.MatchBacktrack()
			case i%5 == 0:
				c = g.MatchMalformed()
			case i%2 == 0:
				c = g.MatchPlanted(true)
			default:
				c = g.MatchPlanted(false)
			}
		default: // c01
			if i%10 == 9 {
				c = g.MatchBacktrack()
			} else if i%3 == 0 {
				c = g.MatchPlanted(true)
			} else {
				c = g.MatchPlanted(false)
			}
		}
		mark(i)
		line, seen := runMatchCase(i, c, cfg.Reps, cfg.Crashed[i], cfg.Profile == "c03")
		if cfg.Profile == "c03" && !cfg.Crashed[i] {
			line.Probe["pure"] = pureProbe(c, seen, cfg.Reps)
		}
		if cfg.Profile == "c03" && !cfg.Crashed[i] && i%16 == 1 && len(seen) == 1 {
			// only where the sequential outcome is unique is "same result as alone" well defined
			line.Probe["concurrent"] = concurrentProbe(c, seen)
		}
		enc.Encode(line)
	}
}
