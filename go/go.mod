module verifharness

go 1.20

require (
	github.com/Comcast/sheens v0.0.0
	github.com/jsccast/yaml v0.0.0-20171213031114-31aa0bbd42f2
)

require (
	github.com/dlclark/regexp2 v1.7.0 // indirect
	github.com/dop251/goja v0.0.0-20240220182346-e401ed450204 // indirect
	github.com/go-sourcemap/sourcemap v2.1.3+incompatible // indirect
	github.com/google/pprof v0.0.0-20230207041349-798e818bf904 // indirect
	github.com/gorhill/cronexpr v0.0.0-20180427100037-88b0669f7d75 // indirect
	github.com/russross/blackfriday/v2 v2.1.0 // indirect
	golang.org/x/text v0.13.0 // indirect
	gopkg.in/yaml.v2 v2.4.0 // indirect
)

replace github.com/Comcast/sheens => /repo
