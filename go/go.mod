module verifharness

go 1.20

require github.com/Comcast/sheens v0.0.0

replace github.com/Comcast/sheens => /repo
