// Command go2lean is the translator of the tie between the Lean development and the source:
// it parses Go files of /repo with go/parser on every run and emits the declarations of the
// selected functions as values of the abstract syntax of `Sheens/GoSem.lean`
// (`Sheens/Gen/GoAst.lean`).  The translation is syntax-directed and total: a construct outside
// the supported subset becomes a call of an `unsupported:…` function at that point, on which the
// interpreter is stuck if it is ever reached — never a silent default.
//
// No type information is used.  Methods are keyed by ".Name" (the receiver's type is recorded
// for the reader only); a call `x.f(…)` is a package call when `x` is an imported package name,
// a method call otherwise.
package main

import (
	"flag"
	"fmt"
	"go/ast"
	"go/parser"
	"go/token"
	"go/types"
	"os"
	"path/filepath"
	"sort"
	"strconv"
	"strings"
)

type unit struct {
	name  string   // Lean name of the program
	file  string   // file below the repository root
	funcs []string // declarations to translate ("*" = all); methods as ".Name"
	vars  []string // package-level variables whose initialiser is translated
	extra [][3]string // functions of other files, linked in under another name: {file, name, as}
	xvars [][2]string // package-level variables of other files of the package: {file, name}
}

var units = []unit{
	{"matchProg", "match/match.go", []string{"*"}, []string{"DefaultMatcher"}, nil, nil},
	{"coreStepProg", "core/step.go", []string{"IsBranchTargetVariable", ".target"}, nil, nil, nil},
	{"coreActionsProg", "core/actions.go", []string{"isPermanent"}, nil, nil, nil},
	{"coreUtilProg", "core/util.go", []string{"Unquestion"}, nil, nil, nil},
	{"toolsProg", "tools/analysis.go", []string{"*"}, nil, [][3]string{{"core/step.go", "IsBranchTargetVariable", "core.IsBranchTargetVariable"}}, nil},
	{"sioCrewProg", "sio/crew.go", []string{".allMachines", ".toMachines"}, nil, nil,
		[][2]string{{"sio/timers.go", "TimersMachine"}, {"sio/captainspec.go", "CaptainMachine"}}},
}

var (
	fset    = token.NewFileSet()
	imports map[string]bool          // local names of imported packages
	mapTys  map[string]bool          // named types whose underlying type is a map
	structs map[string][]string      // struct type -> field names in order
	structTys map[string][]ast.Expr  // struct type -> field types in order
	unsupp  []string
)

func lstr(s string) string {
	var b strings.Builder
	b.WriteByte('"')
	for _, r := range s {
		switch r {
		case '"':
			b.WriteString("\\\"")
		case '\\':
			b.WriteString("\\\\")
		case '\n':
			b.WriteString("\\n")
		case '\t':
			b.WriteString("\\t")
		case '\r':
			b.WriteString("\\r")
		default:
			if r < 32 {
				fmt.Fprintf(&b, "\\x%02x", r)
			} else {
				b.WriteRune(r)
			}
		}
	}
	b.WriteByte('"')
	return b.String()
}

func llist(xs []string) string { return "[" + strings.Join(xs, ", ") + "]" }

func lopt(s string, some bool) string {
	if !some {
		return "none"
	}
	return "(some " + s + ")"
}

func tyStr(e ast.Expr) string { return types.ExprString(e) }

func unsupported(what string, n ast.Node) string {
	msg := "unsupported: " + what
	unsupp = append(unsupp, msg)
	return "(GE.call " + lstr(msg) + " [])"
}

func isMapType(e ast.Expr) bool {
	switch t := e.(type) {
	case *ast.MapType:
		return true
	case *ast.Ident:
		return mapTys[t.Name]
	}
	return false
}

func isTypeExpr(e ast.Expr) bool {
	switch t := e.(type) {
	case *ast.MapType, *ast.ArrayType, *ast.InterfaceType:
		return true
	case *ast.Ident:
		switch t.Name {
		case "float64", "float32", "int", "int32", "int64", "string", "bool":
			return true
		}
		return mapTys[t.Name]
	}
	return false
}

func zeroOf(e ast.Expr) string {
	if id, ok := e.(*ast.Ident); ok {
		switch id.Name {
		case "string":
			return "(GV.str \"\")"
		case "bool":
			return "(GV.bool false)"
		case "int":
			return "(GV.int 0)"
		case "float64":
			return "(GV.f64 0)"
		}
	}
	return "GV.nil"
}

func exprs(es []ast.Expr) string {
	var out []string
	for _, e := range es {
		out = append(out, expr(e))
	}
	return llist(out)
}

func expr(e ast.Expr) string {
	switch x := e.(type) {
	case *ast.ParenExpr:
		return expr(x.X)
	case *ast.Ident:
		switch x.Name {
		case "nil":
			return "(GE.lit GV.nil)"
		case "true":
			return "(GE.lit (GV.bool true))"
		case "false":
			return "(GE.lit (GV.bool false))"
		}
		return "(GE.var " + lstr(x.Name) + ")"
	case *ast.BasicLit:
		switch x.Kind {
		case token.STRING:
			s, err := strconv.Unquote(x.Value)
			if err != nil {
				return unsupported("string literal", x)
			}
			return "(GE.lit (GV.str " + lstr(s) + "))"
		case token.CHAR:
			s, err := strconv.Unquote(x.Value)
			if err != nil || len([]rune(s)) != 1 {
				return unsupported("char literal", x)
			}
			return fmt.Sprintf("(GE.lit (GV.int %d))", []rune(s)[0])
		case token.INT:
			n, err := strconv.ParseInt(x.Value, 0, 64)
			if err != nil {
				return unsupported("int literal", x)
			}
			return fmt.Sprintf("(GE.lit (GV.int %d))", n)
		}
		return unsupported("literal "+x.Value, x)
	case *ast.SelectorExpr:
		if id, ok := x.X.(*ast.Ident); ok && imports[id.Name] {
			return unsupported("package value "+id.Name+"."+x.Sel.Name, x)
		}
		return "(GE.field " + expr(x.X) + " " + lstr(x.Sel.Name) + ")"
	case *ast.StarExpr:
		return expr(x.X)
	case *ast.UnaryExpr:
		switch x.Op {
		case token.NOT:
			return "(GE.un \"!\" " + expr(x.X) + ")"
		case token.AND:
			return "(GE.un \"&\" " + expr(x.X) + ")"
		case token.SUB:
			if l, ok := x.X.(*ast.BasicLit); ok && l.Kind == token.INT {
				n, _ := strconv.ParseInt(l.Value, 0, 64)
				return fmt.Sprintf("(GE.lit (GV.int (-%d)))", n)
			}
		}
		return unsupported("unary "+x.Op.String(), x)
	case *ast.BinaryExpr:
		return "(GE.bin " + lstr(x.Op.String()) + " " + expr(x.X) + " " + expr(x.Y) + ")"
	case *ast.IndexExpr:
		return "(GE.index " + expr(x.X) + " " + expr(x.Index) + ")"
	case *ast.SliceExpr:
		if x.Slice3 {
			return unsupported("3-index slice", x)
		}
		lo, hi := "none", "none"
		if x.Low != nil {
			lo = "(some " + expr(x.Low) + ")"
		}
		if x.High != nil {
			hi = "(some " + expr(x.High) + ")"
		}
		return "(GE.sliceE " + expr(x.X) + " " + lo + " " + hi + ")"
	case *ast.TypeAssertExpr:
		if x.Type == nil {
			return unsupported("x.(type) outside a type switch", x)
		}
		return "(GE.assert " + expr(x.X) + " " + lstr(tyStr(x.Type)) + ")"
	case *ast.CompositeLit:
		return composite(x, "")
	case *ast.CallExpr:
		return call(x)
	}
	return unsupported(fmt.Sprintf("%T", e), e)
}

func composite(x *ast.CompositeLit, elided string) string {
	var ty ast.Expr = x.Type
	tys := elided
	if ty != nil {
		tys = tyStr(ty)
	}
	if at, ok := ty.(*ast.ArrayType); ok || (ty == nil && strings.HasPrefix(elided, "[]")) {
		elem := strings.TrimPrefix(tys, "[]")
		if ok && at.Len != nil {
			return unsupported("array literal", x)
		}
		var out []string
		for _, el := range x.Elts {
			if c, ok := el.(*ast.CompositeLit); ok && c.Type == nil {
				out = append(out, composite(c, elem))
			} else if _, ok := el.(*ast.KeyValueExpr); ok {
				return unsupported("keyed slice literal", x)
			} else {
				out = append(out, expr(el))
			}
		}
		return "(GE.comp " + lstr(tys) + " " + llist(out) + ")"
	}
	if id, ok := ty.(*ast.Ident); ok {
		if fields, ok := structs[id.Name]; ok {
			var out []string
			for i, el := range x.Elts {
				if kv, ok := el.(*ast.KeyValueExpr); ok {
					k, ok := kv.Key.(*ast.Ident)
					if !ok {
						return unsupported("struct literal key", x)
					}
					out = append(out, "("+lstr(k.Name)+", "+expr(kv.Value)+")")
				} else if i < len(fields) {
					out = append(out, "("+lstr(fields[i])+", "+expr(el)+")")
				} else {
					return unsupported("struct literal arity", x)
				}
			}
			// fields the literal does not mention hold their zero values
			given := map[string]bool{}
			for i, el := range x.Elts {
				if kv, ok := el.(*ast.KeyValueExpr); ok {
					given[kv.Key.(*ast.Ident).Name] = true
				} else if i < len(fields) {
					given[fields[i]] = true
				}
			}
			for i, f := range fields {
				if !given[f] {
					out = append(out, "("+lstr(f)+", (GE.lit "+zeroOf(structTys[id.Name][i])+"))")
				}
			}
			return "(GE.compKV " + lstr(id.Name) + " " + llist(out) + ")"
		}
	}
	return unsupported("composite literal of "+tys, x)
}

func call(x *ast.CallExpr) string {
	spread := x.Ellipsis != token.NoPos
	switch f := x.Fun.(type) {
	case *ast.Ident:
		switch f.Name {
		case "len", "delete":
			return "(GE.call " + lstr(f.Name) + " " + exprs(x.Args) + ")"
		case "append":
			if spread {
				return "(GE.call \"append...\" " + exprs(x.Args) + ")"
			}
			return "(GE.call \"append\" " + exprs(x.Args) + ")"
		case "make":
			if len(x.Args) >= 1 {
				if isMapType(x.Args[0]) {
					// (the size hint of a map is not evaluated: it has no effect on the map)
					return "(GE.call \"makemap\" [(GE.lit (GV.str " + lstr(tyStr(x.Args[0])) + "))])"
				}
				if _, ok := x.Args[0].(*ast.ArrayType); ok && len(x.Args) >= 2 {
					return "(GE.call \"makeslice\" [(GE.lit (GV.str " + lstr(tyStr(x.Args[0])) + ")), " + expr(x.Args[1]) + "])"
				}
			}
			return unsupported("make", x)
		case "new", "copy", "cap", "panic", "recover", "print", "println", "close":
			return unsupported("builtin "+f.Name, x)
		}
		if isTypeExpr(f) && len(x.Args) == 1 {
			return "(GE.call " + lstr("conv:"+f.Name) + " " + exprs(x.Args) + ")"
		}
		if spread {
			return unsupported("spread call", x)
		}
		return "(GE.call " + lstr(f.Name) + " " + exprs(x.Args) + ")"
	case *ast.SelectorExpr:
		if id, ok := f.X.(*ast.Ident); ok && imports[id.Name] {
			if spread {
				return unsupported("spread call", x)
			}
			return "(GE.call " + lstr(id.Name+"."+f.Sel.Name) + " " + exprs(x.Args) + ")"
		}
		if spread {
			return unsupported("spread call", x)
		}
		return "(GE.mcall " + expr(f.X) + " " + lstr("."+f.Sel.Name) + " " + exprs(x.Args) + ")"
	case *ast.MapType, *ast.ArrayType, *ast.InterfaceType:
		if len(x.Args) == 1 {
			return "(GE.call " + lstr("conv:"+tyStr(f)) + " " + exprs(x.Args) + ")"
		}
	case *ast.ParenExpr:
		if isTypeExpr(f.X) && len(x.Args) == 1 {
			return "(GE.call " + lstr("conv:"+tyStr(f.X)) + " " + exprs(x.Args) + ")"
		}
	}
	return unsupported("call of "+tyStr(x.Fun), x)
}

func lhs(e ast.Expr) string {
	switch x := e.(type) {
	case *ast.Ident:
		if x.Name == "_" {
			return "GL.blank"
		}
		return "(GL.var " + lstr(x.Name) + ")"
	case *ast.IndexExpr:
		return "(GL.index " + expr(x.X) + " " + expr(x.Index) + ")"
	case *ast.ParenExpr:
		return lhs(x.X)
	case *ast.SelectorExpr:
		if id, ok := x.X.(*ast.Ident); !ok || !imports[id.Name] {
			return "(GL.field " + expr(x.X) + " " + lstr(x.Sel.Name) + ")"
		}
	}
	unsupp = append(unsupp, "unsupported: assignment target "+tyStr(e))
	return "(GL.index " + unsupported("assignment target "+tyStr(e), e) + " (GE.lit GV.nil))"
}

func stuckStmt(what string, n ast.Node) string {
	return "(GS.expr " + unsupported(what, n) + ")"
}

func block(b *ast.BlockStmt) string {
	if b == nil {
		return "[]"
	}
	return stmts(b.List)
}

func stmts(l []ast.Stmt) string {
	var out []string
	for _, s := range l {
		out = append(out, stmt(s, ""))
	}
	return llist(out)
}

func optStmt(s ast.Stmt) string {
	if s == nil {
		return "none"
	}
	return "(some " + stmt(s, "") + ")"
}

func optExpr(e ast.Expr) string {
	if e == nil {
		return "none"
	}
	return "(some " + expr(e) + ")"
}

func stmt(s ast.Stmt, label string) string {
	switch x := s.(type) {
	case *ast.EmptyStmt:
		return "(GS.block [])"
	case *ast.BlockStmt:
		return "(GS.block " + block(x) + ")"
	case *ast.ExprStmt:
		// sort.Strings(x) sorts in place; slices are values here, so it becomes x = sorted(x)
		if c, ok := x.X.(*ast.CallExpr); ok && tyStr(c.Fun) == "sort.Strings" && len(c.Args) == 1 {
			if id, ok := c.Args[0].(*ast.Ident); ok {
				return "(GS.assign false [(GL.var " + lstr(id.Name) + ")] [" + expr(c) + "])"
			}
		}
		return "(GS.expr " + expr(x.X) + ")"
	case *ast.LabeledStmt:
		switch x.Stmt.(type) {
		case *ast.ForStmt, *ast.RangeStmt:
			return stmt(x.Stmt, x.Label.Name)
		}
		return stuckStmt("label on a non-loop", x)
	case *ast.ReturnStmt:
		return "(GS.ret " + exprs(x.Results) + ")"
	case *ast.BranchStmt:
		l := ""
		if x.Label != nil {
			l = x.Label.Name
		}
		switch x.Tok {
		case token.BREAK:
			return "(GS.brk " + lstr(l) + ")"
		case token.CONTINUE:
			return "(GS.cont " + lstr(l) + ")"
		}
		return stuckStmt(x.Tok.String(), x)
	case *ast.IncDecStmt:
		op := "+"
		if x.Tok == token.DEC {
			op = "-"
		}
		return "(GS.opAssign " + lstr(op) + " " + lhs(x.X) + " (GE.lit (GV.int 1)))"
	case *ast.AssignStmt:
		switch x.Tok {
		case token.DEFINE, token.ASSIGN:
			def := "false"
			if x.Tok == token.DEFINE {
				def = "true"
			}
			if len(x.Lhs) == 2 && len(x.Rhs) == 1 {
				switch r := x.Rhs[0].(type) {
				case *ast.IndexExpr:
					return "(GS.assignOk " + def + " " + lhs(x.Lhs[0]) + " " + lhs(x.Lhs[1]) + " " + expr(r) + ")"
				case *ast.TypeAssertExpr:
					if r.Type != nil {
						return "(GS.assignOk " + def + " " + lhs(x.Lhs[0]) + " " + lhs(x.Lhs[1]) + " " + expr(r) + ")"
					}
				}
			}
			var ls []string
			for _, l := range x.Lhs {
				ls = append(ls, lhs(l))
			}
			return "(GS.assign " + def + " " + llist(ls) + " " + exprs(x.Rhs) + ")"
		case token.ADD_ASSIGN, token.SUB_ASSIGN:
			if len(x.Lhs) == 1 && len(x.Rhs) == 1 {
				op := "+"
				if x.Tok == token.SUB_ASSIGN {
					op = "-"
				}
				return "(GS.opAssign " + lstr(op) + " " + lhs(x.Lhs[0]) + " " + expr(x.Rhs[0]) + ")"
			}
		}
		return stuckStmt("assignment "+x.Tok.String(), x)
	case *ast.DeclStmt:
		gd, ok := x.Decl.(*ast.GenDecl)
		if !ok || gd.Tok != token.VAR {
			return stuckStmt("declaration", x)
		}
		var out []string
		for _, sp := range gd.Specs {
			vs := sp.(*ast.ValueSpec)
			var names []string
			for _, n := range vs.Names {
				names = append(names, lstr(n.Name))
			}
			if len(vs.Values) == 0 {
				out = append(out, "(GS.varDecl "+llist(names)+" "+zeroOf(vs.Type)+")")
			} else {
				var ls []string
				for _, n := range vs.Names {
					ls = append(ls, "(GL.var "+lstr(n.Name)+")")
				}
				out = append(out, "(GS.assign true "+llist(ls)+" "+exprs(vs.Values)+")")
			}
		}
		if len(out) == 1 {
			return out[0]
		}
		return stuckStmt("grouped var declaration", x)
	case *ast.IfStmt:
		els := "[]"
		switch e := x.Else.(type) {
		case *ast.BlockStmt:
			els = block(e)
		case *ast.IfStmt:
			els = "[" + stmt(e, "") + "]"
		}
		return "(GS.ifs " + optStmt(x.Init) + " " + expr(x.Cond) + " " + block(x.Body) + " " + els + ")"
	case *ast.ForStmt:
		return "(GS.for3 " + lstr(label) + " " + optStmt(x.Init) + " " + optExpr(x.Cond) + " " + optStmt(x.Post) + " " + block(x.Body) + ")"
	case *ast.RangeStmt:
		name := func(e ast.Expr) (string, bool) {
			if e == nil {
				return "", true
			}
			if id, ok := e.(*ast.Ident); ok {
				return id.Name, true
			}
			return "", false
		}
		k, ok1 := name(x.Key)
		v, ok2 := name(x.Value)
		if !ok1 || !ok2 || (x.Tok != token.DEFINE && x.Key != nil) {
			return stuckStmt("range with assignment to existing places", x)
		}
		return "(GS.range " + lstr(label) + " " + lstr(k) + " " + lstr(v) + " " + expr(x.X) + " " + block(x.Body) + ")"
	case *ast.SwitchStmt:
		var cases []string
		dflt := "none"
		for _, c := range x.Body.List {
			cc := c.(*ast.CaseClause)
			for _, st := range cc.Body {
				if b, ok := st.(*ast.BranchStmt); ok && b.Tok == token.FALLTHROUGH {
					return stuckStmt("fallthrough", x)
				}
			}
			if cc.List == nil {
				dflt = "(some " + stmts(cc.Body) + ")"
			} else {
				cases = append(cases, "("+exprs(cc.List)+", "+stmts(cc.Body)+")")
			}
		}
		return "(GS.switchV " + optStmt(x.Init) + " " + optExpr(x.Tag) + " " + llist(cases) + " " + dflt + ")"
	case *ast.TypeSwitchStmt:
		if x.Init != nil {
			return stuckStmt("type switch with init", x)
		}
		bind := ""
		var subject ast.Expr
		switch a := x.Assign.(type) {
		case *ast.ExprStmt:
			subject = a.X.(*ast.TypeAssertExpr).X
		case *ast.AssignStmt:
			bind = a.Lhs[0].(*ast.Ident).Name
			subject = a.Rhs[0].(*ast.TypeAssertExpr).X
		}
		var cases []string
		dflt := "none"
		for _, c := range x.Body.List {
			cc := c.(*ast.CaseClause)
			if cc.List == nil {
				dflt = "(some " + stmts(cc.Body) + ")"
				continue
			}
			var tys []string
			for _, t := range cc.List {
				tys = append(tys, lstr(tyStr(t)))
			}
			cases = append(cases, "("+llist(tys)+", "+stmts(cc.Body)+")")
		}
		return "(GS.switchT " + lstr(bind) + " " + expr(subject) + " " + llist(cases) + " " + dflt + ")"
	}
	return stuckStmt(fmt.Sprintf("%T", s), s)
}

func leanIdent(s string) string {
	s = strings.TrimPrefix(s, ".")
	return s
}

func main() {
	repo := flag.String("repo", "/repo", "repository root")
	out := flag.String("out", "", "output .lean file")
	flag.Parse()
	var b strings.Builder
	b.WriteString("import Sheens.GoSem\n\n/-! GENERATED by go/go2lean from the Go source on every run.  Do not edit. -/\n\nopen Go\n\nnamespace Gen.GoAst\n\nset_option maxRecDepth 8000\n\n")
	for _, u := range units {
		f, err := parser.ParseFile(fset, filepath.Join(*repo, u.file), nil, 0)
		if err != nil {
			fmt.Fprintln(os.Stderr, "go2lean:", err)
			os.Exit(2)
		}
		imports = map[string]bool{}
		for _, im := range f.Imports {
			p, _ := strconv.Unquote(im.Path.Value)
			n := p[strings.LastIndex(p, "/")+1:]
			if im.Name != nil {
				n = im.Name.Name
			}
			imports[n] = true
		}
		mapTys = map[string]bool{}
		structs = map[string][]string{}
		structTys = map[string][]ast.Expr{}
		// type declarations of the whole package directory
		pkgs, _ := parser.ParseDir(fset, filepath.Dir(filepath.Join(*repo, u.file)), nil, 0)
		for _, pkg := range pkgs {
			for _, pf := range pkg.Files {
				for _, d := range pf.Decls {
					gd, ok := d.(*ast.GenDecl)
					if !ok || gd.Tok != token.TYPE {
						continue
					}
					for _, sp := range gd.Specs {
						ts := sp.(*ast.TypeSpec)
						switch t := ts.Type.(type) {
						case *ast.MapType:
							mapTys[ts.Name.Name] = true
						case *ast.StructType:
							var fs []string
							var tys []ast.Expr
							for _, fl := range t.Fields.List {
								for _, n := range fl.Names {
									fs = append(fs, n.Name)
									tys = append(tys, fl.Type)
								}
							}
							structs[ts.Name.Name] = fs
							structTys[ts.Name.Name] = tys
						}
					}
				}
			}
		}
		want := map[string]bool{}
		all := false
		for _, n := range u.funcs {
			if n == "*" {
				all = true
			}
			want[n] = true
		}
		var names []string
		emit := func(fd *ast.FuncDecl, file, asName string) {
			key := fd.Name.Name
			recv, recvTy := "", ""
			if fd.Recv != nil && len(fd.Recv.List) == 1 {
				key = "." + key
				recvTy = tyStr(fd.Recv.List[0].Type)
				if len(fd.Recv.List[0].Names) == 1 {
					recv = fd.Recv.List[0].Names[0].Name
				} else {
					recv = "_recv"
				}
			}
			if asName == "" && !all && !want[key] {
				return
			}
			var params []string
			variadic := false
			for _, p := range fd.Type.Params.List {
				if _, ok := p.Type.(*ast.Ellipsis); ok {
					variadic = true
				}
				if len(p.Names) == 0 {
					params = append(params, lstr("_"))
				}
				for _, n := range p.Names {
					params = append(params, lstr(n.Name))
				}
			}
			body := block(fd.Body)
			if fd.Type.Results != nil {
				for _, r := range fd.Type.Results.List {
					if len(r.Names) > 0 {
						body = "[" + stuckStmt("named results", fd) + "]"
					}
				}
			}
			if asName != "" {
				key = asName
			}
			ln := u.name + "_" + strings.Map(func(r rune) rune {
				if r == '.' {
					return 'M'
				}
				return r
			}, key)
			names = append(names, ln)
			fmt.Fprintf(&b, "/-- `%s` of %s%s -/\ndef %s : FnDecl :=\n  { name := %s, recv := %s, params := %s, variadic := %v,\n    body := %s }\n\n",
				fd.Name.Name, file, map[bool]string{true: " (receiver " + recvTy + ")", false: ""}[recvTy != ""], ln, lstr(key), lstr(recv), llist(params), variadic, body)
		}
		for _, d := range f.Decls {
			if fd, ok := d.(*ast.FuncDecl); ok && fd.Body != nil {
				emit(fd, u.file, "")
			}
		}
		for _, ex := range u.extra {
			xf, err := parser.ParseFile(fset, filepath.Join(*repo, ex[0]), nil, 0)
			if err != nil {
				fmt.Fprintln(os.Stderr, "go2lean:", err)
				os.Exit(2)
			}
			saved := imports
			imports = map[string]bool{}
			for _, im := range xf.Imports {
				p, _ := strconv.Unquote(im.Path.Value)
				n := p[strings.LastIndex(p, "/")+1:]
				if im.Name != nil {
					n = im.Name.Name
				}
				imports[n] = true
			}
			for _, d := range xf.Decls {
				if fd, ok := d.(*ast.FuncDecl); ok && fd.Body != nil && fd.Recv == nil && fd.Name.Name == ex[1] {
					emit(fd, ex[0], ex[2])
				}
			}
			imports = saved
		}
		var globals []string
		for _, d := range f.Decls {
			gd, ok := d.(*ast.GenDecl)
			if !ok || gd.Tok != token.VAR {
				continue
			}
			for _, sp := range gd.Specs {
				vs := sp.(*ast.ValueSpec)
				for i, n := range vs.Names {
					for _, w := range u.vars {
						if w == n.Name && i < len(vs.Values) {
							globals = append(globals, "("+lstr(n.Name)+", "+expr(vs.Values[i])+")")
						}
					}
				}
			}
		}
		for _, xv := range u.xvars {
			xf, err := parser.ParseFile(fset, filepath.Join(*repo, xv[0]), nil, 0)
			if err != nil {
				fmt.Fprintln(os.Stderr, "go2lean:", err)
				os.Exit(2)
			}
			for _, d := range xf.Decls {
				gd, ok := d.(*ast.GenDecl)
				if !ok || gd.Tok != token.VAR {
					continue
				}
				for _, sp := range gd.Specs {
					vs := sp.(*ast.ValueSpec)
					for i, n := range vs.Names {
						if n.Name == xv[1] && i < len(vs.Values) {
							globals = append(globals, "("+lstr(n.Name)+", "+expr(vs.Values[i])+")")
						}
					}
				}
			}
		}
		fmt.Fprintf(&b, "def %s : Prog :=\n  { fns := %s,\n    globals := %s }\n\n", u.name, llist(names), llist(globals))
	}
	sort.Strings(unsupp)
	var us []string
	seen := map[string]bool{}
	for _, s := range unsupp {
		if !seen[s] {
			seen[s] = true
			us = append(us, lstr(s))
		}
	}
	fmt.Fprintf(&b, "/-- constructs the translator could not express (each is a stuck point of the interpreter) -/\ndef unsupported : List String := %s\n\nend Gen.GoAst\n", llist(us))
	if *out == "" {
		fmt.Print(b.String())
		return
	}
	if err := os.WriteFile(*out, []byte(b.String()), 0o644); err != nil {
		fmt.Fprintln(os.Stderr, err)
		os.Exit(2)
	}
}
