package sio

// Added to package sio at build time by the verification harness (go test -overlay); nothing is
// written into the repository.
//
// The single-loop crew hosted the way cmd/siostd hosts it: the real Stdio coupling reads the
// messages from its input, Crew.Loop processes them, and the coupling itself folds every reported
// change into its state map and writes the state file (sio/stdio.go).  C15's "a store that applies
// each reported change in order always equals the live crew" is checked on the repository's own
// reference consumer, and "a crew rebuilt from that store behaves identically" on the file it
// wrote, through the boot path of sio/siostd/main.go (Read, then SetMachine per stored machine).

import (
	"bufio"
	"context"
	"encoding/json"
	"fmt"
	"io"
	"os"
	"path/filepath"
	"sort"
	"testing"
	"time"

	"github.com/Comcast/sheens/core"
	"github.com/Comcast/sheens/crew"
)

type verifHostCase struct {
	Op      string                 `json:"op"`
	Id      int                    `json:"id"`
	Limit   int                    `json:"limit"`
	History []interface{}          `json:"history"`
	Profile string                 `json:"profile"`
	Probe   map[string]interface{} `json:"probe"`
	Feat    []string               `json:"feat"`
	Case    map[string]interface{} `json:"case"`
}

type verifHost struct {
	ctx    context.Context
	cancel func()
	cr     *Crew
	st     *Stdio
	in     *io.PipeWriter
	done   chan bool
}

// verifBoot starts a hosted crew; machines come from the state file (if any) as siostd does it.
func verifBoot(limit int, stateIn, stateOut string) (*verifHost, error) {
	ctx, cancel := context.WithCancel(context.Background())
	pr, pw := io.Pipe()
	st := NewStdio(false)
	st.In, st.Out = pr, io.Discard
	st.StateOutputFilename = stateOut
	st.StateInputFilename = stateIn
	// the state file is written by the harness calling the coupling's own writeState at a quiet
	// moment (with WriteStatePerMsg the empty result used for synchronisation would rewrite it
	// while it is being read)
	st.WriteStatePerMsg = false
	c, err := NewCrew(ctx, &CrewConf{Ctl: &core.Control{Limit: limit}}, st)
	if err != nil {
		cancel()
		return nil, err
	}
	// Interpose on the result channel, only to learn when the coupling has dealt with a result:
	// its consumer takes the next result when it has finished the previous one, so once an empty
	// result has been accepted after r, r has been folded (and the state file written).
	orig := c.out
	mine := make(chan *Result)
	c.out = mine
	h := &verifHost{ctx: ctx, cancel: cancel, cr: c, st: st, in: pw, done: make(chan bool, 1)}
	go func() {
		for {
			select {
			case <-ctx.Done():
				return
			case r := <-mine:
				select {
				case orig <- r:
				case <-ctx.Done():
					return
				}
				select {
				case orig <- &Result{}:
				case <-ctx.Done():
					return
				}
				h.done <- true
			}
		}
	}()
	if err = st.Start(ctx); err != nil {
		cancel()
		return nil, err
	}
	ms, err := st.Read(ctx)
	if err != nil {
		cancel()
		return nil, err
	}
	mids := []string{}
	for mid := range ms {
		mids = append(mids, mid)
	}
	sort.Strings(mids)
	for _, mid := range mids {
		m := ms[mid]
		if err := c.SetMachine(ctx, mid, m.SpecSource, m.State); err != nil {
			cancel()
			return nil, err
		}
	}
	go c.Loop(ctx)
	return h, nil
}

// send feeds one line to the coupling's input and waits until the crew has processed it and the
// coupling has dealt with the result.
func (h *verifHost) send(msg interface{}) bool {
	js, _ := json.Marshal(msg)
	if _, err := h.in.Write(append(js, '\n')); err != nil {
		return false
	}
	select {
	case <-h.done:
		return true
	case <-time.After(30 * time.Second):
		return false
	}
}

func (h *verifHost) stop() {
	h.cancel()
	h.in.Close()
}

func verifView(ms map[string]*crew.Machine) string {
	v := map[string]interface{}{}
	for mid, m := range ms {
		if mid == CaptainMachine || mid == TimersMachine || m == nil {
			continue
		}
		// a stored machine is read as SetMachine will read it at boot: no state, no node and no
		// bindings mean the defaults
		d := DefaultState(nil)
		if m.State != nil {
			d = DefaultState(m.State.Copy())
		}
		st := map[string]interface{}{"node": d.NodeName, "bs": d.Bs}
		src := ""
		if m.SpecSource != nil && m.SpecSource.Inline != nil {
			src = m.SpecSource.Inline.Name
		} else if m.SpecSource != nil {
			src = m.SpecSource.Name + "|" + m.SpecSource.URL
		}
		v[mid] = map[string]interface{}{"state": st, "src": src}
	}
	js, _ := json.Marshal(v)
	// through JSON once more: the live crew may hold Go-typed values that print alike
	var x interface{}
	json.Unmarshal(js, &x)
	js, _ = json.Marshal(x)
	return string(js)
}

func verifRunHost(c *verifHostCase, dir string) {
	c.Probe = map[string]interface{}{}
	c.Feat = []string{}
	c.Case = map[string]interface{}{"limit": c.Limit, "history": c.History, "profile": c.Profile}
	defer func() {
		if r := recover(); r != nil {
			c.Probe["noPanic"] = false
			c.Case["panic"] = fmt.Sprint(r)
		}
	}()
	f := filepath.Join(dir, fmt.Sprintf("state-%d.json", c.Id))
	defer os.Remove(f)
	h, err := verifBoot(c.Limit, "", f)
	if err != nil {
		return
	}
	defer h.stop()
	storeEq, fileEq, responsive := true, true, true
	snaps := []string{}
	defer func() {
		for _, s := range snaps {
			os.Remove(s)
		}
	}()
	for k, msg := range c.History {
		if !h.send(msg) {
			responsive = false
			break
		}
		live := verifView(h.cr.Machines)
		if verifView(h.st.state) != live {
			storeEq = false
			if c.Case["firstDiff"] == nil {
				c.Case["firstDiff"] = map[string]interface{}{"step": k, "live": live, "store": verifView(h.st.state)}
			}
		}
		// the file the coupling writes, read back the way it will be read at boot
		if err := h.st.writeState(h.ctx); err != nil {
			fileEq = false
		}
		data, err := os.ReadFile(f)
		if err != nil {
			data = []byte("{}")
		}
		onDisk := map[string]*crew.Machine{}
		json.Unmarshal(data, &onDisk)
		if verifView(onDisk) != live {
			fileEq = false
		}
		snap := filepath.Join(dir, fmt.Sprintf("state-%d-at-%d.json", c.Id, k))
		os.WriteFile(snap, data, 0o644)
		snaps = append(snaps, snap)
	}
	c.Probe["hostResponsive"] = responsive
	if !responsive {
		return
	}
	c.Probe["hostStoreEqLive"] = storeEq
	c.Probe["hostFileEqLive"] = fileEq
	final := verifView(h.cr.Machines)
	rebuild := true
	for _, k := range []int{len(c.History) / 2, len(c.History) - 2} {
		if k < 0 || k >= len(snaps) {
			continue
		}
		f2 := filepath.Join(dir, fmt.Sprintf("state-%d-re.json", c.Id))
		h2, err := verifBoot(c.Limit, snaps[k], f2)
		if err != nil {
			rebuild = false
			continue
		}
		ok := true
		for _, msg := range c.History[k+1:] {
			if !h2.send(msg) {
				ok = false
				break
			}
		}
		if !ok || verifView(h2.cr.Machines) != final {
			rebuild = false
			if c.Case["rebuildDiff"] == nil {
				c.Case["rebuildDiff"] = map[string]interface{}{"at": k, "orig": final, "rebuilt": verifView(h2.cr.Machines)}
			}
		}
		h2.stop()
		os.Remove(f2)
		c.Feat = append(c.Feat, "rebuilt")
	}
	c.Probe["hostRebuildEquiv"] = rebuild
}

func TestVerifSioHost(t *testing.T) {
	in, outp := os.Getenv("VERIF_CASES"), os.Getenv("VERIF_OUT")
	if in == "" || outp == "" {
		t.Skip("not a verification run")
	}
	f, err := os.Open(in)
	if err != nil {
		t.Fatal(err)
	}
	defer f.Close()
	o, err := os.Create(outp)
	if err != nil {
		t.Fatal(err)
	}
	defer o.Close()
	w := bufio.NewWriter(o)
	defer w.Flush()
	dir := t.TempDir()
	sc := bufio.NewScanner(f)
	sc.Buffer(make([]byte, 1<<20), 1<<26)
	for sc.Scan() {
		var c verifHostCase
		if err := json.Unmarshal(sc.Bytes(), &c); err != nil {
			t.Fatal(err)
		}
		verifRunHost(&c, dir)
		js, _ := json.Marshal(map[string]interface{}{"op": "probe", "id": c.Id, "case": c.Case, "probe": c.Probe, "feat": c.Feat})
		w.Write(js)
		w.WriteByte('\n')
	}
}
