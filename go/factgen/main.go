// Command factgen is the translator-style half of the tie between the Lean models and the
// source: it parses the anchored Go files of /repo with go/parser on every run and emits
// `Sheens/Gen/Facts.lean` — write sites, selected statements, call sequences, constants —
// with positions erased.  `Sheens/Props/FactsOK.lean` re-proves, by `decide`, that these
// facts are the ones the hand-written models assume.
package main

import (
	"bytes"
	"flag"
	"fmt"
	"go/ast"
	"go/parser"
	"go/printer"
	"go/token"
	"os"
	"path/filepath"
	"sort"
	"strings"
)

var mutators = map[string]bool{"Extend": true, "Extendm": true, "Remove": true, "DeleteExcept": true}

type write struct {
	fn, kind, rootKind, root, path string
	fresh                bool
	guard                string
}

var (
	fset   = token.NewFileSet()
	writes []write
	stmts  [][2]string          // key -> normalised source text
	seqs   = map[string][]string{} // key -> call sequence
	consts [][2]string
)

func text(n ast.Node) string {
	var buf bytes.Buffer
	printer.Fprint(&buf, fset, n)
	return strings.Join(strings.Fields(buf.String()), " ")
}

func root(e ast.Expr) (string, []string) {
	var path []string
	for {
		switch x := e.(type) {
		case *ast.Ident:
			return x.Name, path
		case *ast.SelectorExpr:
			path = append([]string{x.Sel.Name}, path...)
			e = x.X
		case *ast.IndexExpr:
			path = append([]string{"[]"}, path...)
			e = x.X
		case *ast.StarExpr:
			e = x.X
		case *ast.ParenExpr:
			e = x.X
		case *ast.CallExpr:
			// a method call on something: X.Copy().Extendm(...) is rooted in the call
			if sel, ok := x.Fun.(*ast.SelectorExpr); ok {
				return "<call:" + sel.Sel.Name + ">", path
			}
			return "<call>", path
		case *ast.TypeAssertExpr:
			e = x.X
		default:
			return fmt.Sprintf("<%T>", e), path
		}
	}
}

func isFreshExpr(e ast.Expr) bool {
	switch x := e.(type) {
	case *ast.CallExpr:
		switch f := x.Fun.(type) {
		case *ast.Ident:
			return f.Name == "make" || f.Name == "new" || strings.HasPrefix(f.Name, "New") || strings.HasPrefix(f.Name, "new")
		case *ast.SelectorExpr:
			return f.Sel.Name == "Copy" || strings.HasPrefix(f.Sel.Name, "New")
		}
	case *ast.CompositeLit:
		return true
	case *ast.UnaryExpr:
		_, ok := x.X.(*ast.CompositeLit)
		return ok
	}
	return false
}

func funcName(fd *ast.FuncDecl) string {
	name := fd.Name.Name
	if fd.Recv != nil {
		for _, fl := range fd.Recv.List {
			t := fl.Type
			if st, ok := t.(*ast.StarExpr); ok {
				t = st.X
			}
			if id, ok := t.(*ast.Ident); ok {
				name = id.Name + "." + name
			}
		}
	}
	return name
}

// analyseWrites records every index assignment, field assignment through a selector,
// delete() and mutator call in the function, with the class of the written root and
// whether the written object is provably fresh at that point: the receiver is itself a
// Copy()/New…/make call, or a local whose most recent assignment in the enclosing block
// (before the write, same statement list) is from such a call.
func analyseWrites(fd *ast.FuncDecl) {
	name := funcName(fd)
	params := map[string]string{}
	if fd.Recv != nil {
		for _, fl := range fd.Recv.List {
			for _, n := range fl.Names {
				params[n.Name] = "recv"
			}
		}
	}
	for _, fl := range fd.Type.Params.List {
		for _, n := range fl.Names {
			params[n.Name] = "param:" + n.Name
		}
	}
	locals := map[string]bool{}
	ast.Inspect(fd.Body, func(n ast.Node) bool {
		switch s := n.(type) {
		case *ast.AssignStmt:
			if s.Tok == token.DEFINE {
				for _, l := range s.Lhs {
					if id, ok := l.(*ast.Ident); ok {
						locals[id.Name] = true
					}
				}
			}
		case *ast.ValueSpec:
			for _, id := range s.Names {
				locals[id.Name] = true
			}
		case *ast.RangeStmt:
			if id, ok := s.Key.(*ast.Ident); ok {
				locals[id.Name] = true
			}
			if id, ok := s.Value.(*ast.Ident); ok {
				locals[id.Name] = true
			}
		}
		return true
	})
	rootClass := func(r string) (string, string) {
		if strings.HasPrefix(r, "<call") {
			return "call", strings.Trim(strings.TrimPrefix(r, "<call"), ":>")
		}
		if locals[r] {
			return "local", r
		}
		if c, ok := params[r]; ok {
			if c == "recv" {
				return "recv", r
			}
			return "param", r
		}
		return "free", r
	}
	var walkBlock func(list []ast.Stmt, guards []string)
	record := func(list []ast.Stmt, idx int, kind string, target ast.Expr, guards []string) {
		r, path := root(target)
		fresh := strings.HasPrefix(r, "<call:Copy") || strings.HasPrefix(r, "<call:New")
		if !fresh {
			// most recent assignment to the root in this statement list before idx
			for j := idx - 1; j >= 0; j-- {
				as, ok := list[j].(*ast.AssignStmt)
				if !ok {
					continue
				}
				hit := false
				for k, l := range as.Lhs {
					if id, ok := l.(*ast.Ident); ok && id.Name == r {
						hit = true
						var rhs ast.Expr
						if len(as.Rhs) == len(as.Lhs) {
							rhs = as.Rhs[k]
						} else if len(as.Rhs) > 0 {
							rhs = as.Rhs[0]
						}
						if rhs != nil && isFreshExpr(rhs) {
							fresh = true
						}
					}
				}
				if hit {
					break
				}
			}
		}
		rk, rn := rootClass(r)
		writes = append(writes, write{name, kind, rk, rn, strings.Join(path, "."), fresh, strings.Join(guards, " && ")})
	}
	var visitStmt func(list []ast.Stmt, idx int, s ast.Stmt, guards []string)
	visitExprCalls := func(list []ast.Stmt, idx int, n ast.Node, guards []string) {
		ast.Inspect(n, func(x ast.Node) bool {
			if _, isFunc := x.(*ast.FuncLit); isFunc {
				return false
			}
			if c, ok := x.(*ast.CallExpr); ok {
				if id, ok := c.Fun.(*ast.Ident); ok && id.Name == "delete" && len(c.Args) > 0 {
					record(list, idx, "delete", c.Args[0], guards)
				}
				if sel, ok := c.Fun.(*ast.SelectorExpr); ok && mutators[sel.Sel.Name] {
					record(list, idx, "call:"+sel.Sel.Name, sel.X, guards)
				}
			}
			return true
		})
	}
	visitStmt = func(list []ast.Stmt, idx int, s ast.Stmt, guards []string) {
		switch st := s.(type) {
		case *ast.AssignStmt:
			for _, lhs := range st.Lhs {
				switch lhs.(type) {
				case *ast.IndexExpr, *ast.SelectorExpr, *ast.StarExpr:
					record(list, idx, "assign", lhs, guards)
				}
			}
			for _, r := range st.Rhs {
				visitExprCalls(list, idx, r, guards)
			}
		case *ast.ExprStmt:
			visitExprCalls(list, idx, st.X, guards)
		case *ast.ReturnStmt:
			for _, r := range st.Results {
				visitExprCalls(list, idx, r, guards)
			}
		case *ast.IfStmt:
			if st.Init != nil {
				visitStmt(list, idx, st.Init, guards)
			}
			g := append(append([]string{}, guards...), text(st.Cond))
			walkBlock(st.Body.List, g)
			if st.Else != nil {
				ng := append(append([]string{}, guards...), "!("+text(st.Cond)+")")
				switch e := st.Else.(type) {
				case *ast.BlockStmt:
					walkBlock(e.List, ng)
				case *ast.IfStmt:
					visitStmt(list, idx, e, ng)
				}
			}
		case *ast.ForStmt:
			walkBlock(st.Body.List, guards)
		case *ast.RangeStmt:
			walkBlock(st.Body.List, guards)
		case *ast.BlockStmt:
			walkBlock(st.List, guards)
		case *ast.SwitchStmt:
			for _, c := range st.Body.List {
				walkBlock(c.(*ast.CaseClause).Body, guards)
			}
		case *ast.TypeSwitchStmt:
			for _, c := range st.Body.List {
				walkBlock(c.(*ast.CaseClause).Body, guards)
			}
		case *ast.SelectStmt:
			for _, c := range st.Body.List {
				walkBlock(c.(*ast.CommClause).Body, guards)
			}
		case *ast.LabeledStmt:
			visitStmt(list, idx, st.Stmt, guards)
		case *ast.DeferStmt:
			visitExprCalls(list, idx, st.Call, guards)
		case *ast.GoStmt:
			if fl, ok := st.Call.Fun.(*ast.FuncLit); ok {
				walkBlock(fl.Body.List, guards)
			}
		}
	}
	walkBlock = func(list []ast.Stmt, guards []string) {
		for i, s := range list {
			visitStmt(list, i, s, guards)
		}
	}
	walkBlock(fd.Body.List, nil)
}

// callSeq lists, in source order, the calls in the function whose selector or name is in `names`.
func callSeq(fd *ast.FuncDecl, names map[string]bool) []string {
	var acc []string
	ast.Inspect(fd.Body, func(n ast.Node) bool {
		switch x := n.(type) {
		case *ast.DeferStmt:
			if sel, ok := x.Call.Fun.(*ast.SelectorExpr); ok && names[sel.Sel.Name] {
				acc = append(acc, "defer "+sel.Sel.Name)
				return false
			}
		case *ast.GoStmt:
			if sel, ok := x.Call.Fun.(*ast.SelectorExpr); ok && names[sel.Sel.Name] {
				acc = append(acc, "go "+sel.Sel.Name)
				return false
			}
			if id, ok := x.Call.Fun.(*ast.Ident); ok && names[id.Name] {
				acc = append(acc, "go "+id.Name)
				return false
			}
		case *ast.CallExpr:
			if sel, ok := x.Fun.(*ast.SelectorExpr); ok && names[sel.Sel.Name] {
				acc = append(acc, sel.Sel.Name)
			}
			if id, ok := x.Fun.(*ast.Ident); ok && names[id.Name] {
				acc = append(acc, id.Name)
			}
		}
		return true
	})
	return acc
}

func parse(repo, rel string) *ast.File {
	f, err := parser.ParseFile(fset, filepath.Join(repo, rel), nil, 0)
	if err != nil {
		fmt.Fprintln(os.Stderr, "factgen:", err)
		os.Exit(1)
	}
	return f
}

func funcs(f *ast.File) map[string]*ast.FuncDecl {
	m := map[string]*ast.FuncDecl{}
	for _, d := range f.Decls {
		if fd, ok := d.(*ast.FuncDecl); ok && fd.Body != nil {
			m[funcName(fd)] = fd
		}
	}
	return m
}

func addStmt(key, val string) { stmts = append(stmts, [2]string{key, val}) }

// stmtsAfter returns the texts of the `n` statements following the first statement of the
// function body (searched recursively, in the same block) whose text contains `needle`.
func stmtsAfter(fd *ast.FuncDecl, needle string, n int) []string {
	var res []string
	var search func(list []ast.Stmt) bool
	search = func(list []ast.Stmt) bool {
		for i, s := range list {
			if _, isBlock := s.(*ast.BlockStmt); !isBlock {
				if as, ok := s.(*ast.AssignStmt); ok && strings.Contains(text(as), needle) {
					for j := i + 1; j < len(list) && j <= i+n; j++ {
						res = append(res, text(list[j]))
					}
					return true
				}
			}
			found := false
			ast.Inspect(s, func(x ast.Node) bool {
				if found {
					return false
				}
				if b, ok := x.(*ast.BlockStmt); ok && x != s {
					if search(b.List) {
						found = true
					}
					return false
				}
				return true
			})
			if found {
				return true
			}
		}
		return false
	}
	search(fd.Body.List)
	return res
}

func leanStr(s string) string {
	s = strings.ReplaceAll(s, "\\", "\\\\")
	s = strings.ReplaceAll(s, "\"", "\\\"")
	s = strings.ReplaceAll(s, "\n", " ")
	return "\"" + s + "\""
}

func main() {
	repo := flag.String("repo", "/repo", "repository root")
	outp := flag.String("out", "", "output Lean file")
	flag.Parse()

	// ---- F1 write sites ----------------------------------------------------
	for _, rel := range []string{"match/match.go", "core/step.go", "core/actions.go", "interpreters/ecmascript/ecmascript.go"} {
		f := parse(*repo, rel)
		for _, d := range f.Decls {
			if fd, ok := d.(*ast.FuncDecl); ok && fd.Body != nil {
				analyseWrites(fd)
			}
		}
	}

	// ---- match.go: selected statements and constants ------------------------
	mf := funcs(parse(*repo, "match/match.go"))
	if fd := mf["Matcher.Match"]; fd != nil {
		for _, s := range fd.Body.List {
			if r, ok := s.(*ast.ReturnStmt); ok {
				addStmt("Matcher.Match.return", text(r))
			}
		}
	}
	if fd := mf["copyBindingss"]; fd != nil {
		ast.Inspect(fd.Body, func(n ast.Node) bool {
			if c, ok := n.(*ast.CallExpr); ok {
				if id, ok := c.Fun.(*ast.Ident); ok && id.Name == "append" {
					addStmt("copyBindingss.append", text(c))
				}
			}
			return true
		})
	}
	if fd := mf["Matcher.inequal"]; fd != nil {
		ast.Inspect(fd.Body, func(n ast.Node) bool {
			if r, ok := n.(*ast.RangeStmt); ok {
				if cl, ok := r.X.(*ast.CompositeLit); ok {
					addStmt("Matcher.inequal.ops", text(cl))
				}
			}
			if sw, ok := n.(*ast.SwitchStmt); ok && sw.Tag != nil && text(sw.Tag) == "ineq" {
				for _, c := range sw.Body.List {
					cc := c.(*ast.CaseClause)
					if len(cc.List) == 1 && len(cc.Body) == 1 {
						if ifs, ok := cc.Body[0].(*ast.IfStmt); ok {
							addStmt("Matcher.inequal.case "+text(cc.List[0]), text(ifs.Cond))
						}
					}
				}
			}
			return true
		})
	}
	if fd := mf["Matcher.arraycatMatch"]; fd != nil {
		seqs["Matcher.arraycatMatch"] = callSeq(fd, map[string]bool{"copyBindingss": true, "matchWithBindingss": true, "copyMap": true, "delete": true})
	}
	if fd := mf["Matcher.mapcatMatch"]; fd != nil {
		seqs["Matcher.mapcatMatch"] = callSeq(fd, map[string]bool{"copyBindingss": true, "matchWithBindingss": true, "checkForBadPropertyVariables": true})
	}
	if fd := mf["Matcher.matchWithBindingss"]; fd != nil {
		seqs["Matcher.matchWithBindingss"] = callSeq(fd, map[string]bool{"Match": true, "match": true})
	}
	for _, d := range parse(*repo, "match/match.go").Decls {
		if gd, ok := d.(*ast.GenDecl); ok && gd.Tok == token.VAR {
			for _, sp := range gd.Specs {
				vs := sp.(*ast.ValueSpec)
				for i, n := range vs.Names {
					if n.Name == "DefaultMatcher" && i < len(vs.Values) {
						consts = append(consts, [2]string{"DefaultMatcher", text(vs.Values[i])})
					}
				}
			}
		}
	}
	for _, name := range []string{"Matcher.IsVariable", "Matcher.IsOptionalVariable", "Matcher.IsAnonymousVariable", "isPermanent", "IsBranchTargetVariable"} {
		var fd *ast.FuncDecl
		if fd = mf[name]; fd == nil {
			fd = funcs(parse(*repo, "core/actions.go"))[name]
		}
		if fd == nil {
			fd = funcs(parse(*repo, "core/step.go"))[name]
		}
		if fd != nil {
			var rets []string
			ast.Inspect(fd.Body, func(n ast.Node) bool {
				if r, ok := n.(*ast.ReturnStmt); ok {
					rets = append(rets, text(r))
				}
				return true
			})
			consts = append(consts, [2]string{name, strings.Join(rets, " ; ")})
		}
	}

	// ---- core: constants, selected statements --------------------------------
	for _, rel := range []string{"core/step.go", "core/spec.go", "core/actions.go"} {
		for _, d := range parse(*repo, rel).Decls {
			if gd, ok := d.(*ast.GenDecl); ok && gd.Tok == token.VAR {
				for _, sp := range gd.Specs {
					vs := sp.(*ast.ValueSpec)
					for i, n := range vs.Names {
						switch n.Name {
						case "DefaultControl", "Exp_BranchTargetVariables", "DefaultBranchType", "DefaultErrorNodeName", "Exp_PermanentBindings":
							if i < len(vs.Values) {
								consts = append(consts, [2]string{n.Name, text(vs.Values[i])})
							}
						}
					}
				}
			}
		}
	}
	sf := funcs(parse(*repo, "core/step.go"))
	if fd := sf["Spec.Step"]; fd != nil {
		// every assignment to stride.To / stride.From
		ast.Inspect(fd.Body, func(n ast.Node) bool {
			if as, ok := n.(*ast.AssignStmt); ok && len(as.Lhs) == 1 && len(as.Rhs) == 1 {
				l := text(as.Lhs[0])
				if l == "stride.To" || l == "stride.From" {
					addStmt("Spec.Step."+l, text(as.Rhs[0]))
				}
			}
			return true
		})
		seqs["Spec.Step"] = callSeq(fd, map[string]bool{"Exec": true, "consider": true, "AddEvents": true, "Copy": true})
		// the allocation and write sites of the ownership model (Sheens/Own.lean stepH), in source order
		seqs["Spec.Step.ownership"] = callSeq(fd, map[string]bool{"Exec": true, "consider": true, "Copy": true, "Extend": true, "Extendm": true, "NewBindings": true})
	}
	if fd := sf["Spec.Walk"]; fd != nil {
		seqs["Spec.Walk.ownership"] = callSeq(fd, map[string]bool{"Step": true, "Copy": true, "Extend": true, "Extendm": true, "NewStride": true})
		ast.Inspect(fd.Body, func(n ast.Node) bool {
			if as, ok := n.(*ast.AssignStmt); ok && len(as.Lhs) == 1 && len(as.Rhs) == 1 {
				l := text(as.Lhs[0])
				if l == "stride.To" || l == "st" || l == "walked.Remaining" || l == "pendings" {
					addStmt("Spec.Walk."+l, text(as.Rhs[0]))
				}
			}
			if fs, ok := n.(*ast.ForStmt); ok && fs.Cond != nil {
				addStmt("Spec.Walk.for", text(fs.Cond))
			}
			return true
		})
		var first string
		if len(fd.Body.List) > 0 {
			first = text(fd.Body.List[0])
		}
		addStmt("Spec.Walk.first", first)
	}
	if fd := sf["Branch.try"]; fd != nil {
		seqs["Branch.try"] = callSeq(fd, map[string]bool{"Match": true, "Exec": true, "target": true, "AddEvents": true, "AddEmitted": true})
	}
	if fd := sf["Branches.consider"]; fd != nil {
		ast.Inspect(fd.Body, func(n ast.Node) bool {
			if r, ok := n.(*ast.RangeStmt); ok {
				addStmt("Branches.consider.range", text(r.X))
			}
			return true
		})
	}
	af := funcs(parse(*repo, "core/actions.go"))
	if fd := af["FuncAction.Exec"]; fd != nil {
		seqs["FuncAction.Exec"] = callSeq(fd, map[string]bool{"F": true, "NewExecution": true, "isPermanent": true})
	}

	// ---- ecmascript: F2, F3 ---------------------------------------------------
	ef := parse(*repo, "interpreters/ecmascript/ecmascript.go")
	efs := funcs(ef)
	if fd := efs["Interpreter.Exec"]; fd != nil {
		newCalls, stored := 0, 0
		var newVar string
		ast.Inspect(fd.Body, func(n ast.Node) bool {
			if as, ok := n.(*ast.AssignStmt); ok {
				for i, r := range as.Rhs {
					if text(r) == "goja.New()" {
						newCalls++
						if as.Tok == token.DEFINE && i < len(as.Lhs) {
							if id, ok := as.Lhs[i].(*ast.Ident); ok {
								newVar = id.Name
							}
						}
					}
				}
			}
			return true
		})
		if newVar != "" {
			ast.Inspect(fd.Body, func(n ast.Node) bool {
				if as, ok := n.(*ast.AssignStmt); ok {
					for i, r := range as.Rhs {
						if id, ok := r.(*ast.Ident); ok && id.Name == newVar && i < len(as.Lhs) {
							if _, isIdent := as.Lhs[i].(*ast.Ident); !isIdent {
								stored++
							}
						}
					}
				}
				return true
			})
		}
		addStmt("Interpreter.Exec.gojaNew", fmt.Sprintf("calls=%d local=%v stored=%d", newCalls, newVar != "", stored))
		after := stmtsAfter(fd, "RunProgram(", 4)
		addStmt("Interpreter.Exec.afterRun", strings.Join(after, " ;; "))
		if ex := efs["export"]; ex != nil {
			addStmt("ecmascript.export", text(ex.Body))
		}
		// every return that follows the start of the run and carries an error: what execution
		// does it hand back?  (a non-nil execution would carry the emission buffer)
		var runPos token.Pos
		ast.Inspect(fd.Body, func(n ast.Node) bool {
			if c, ok := n.(*ast.CallExpr); ok && runPos == 0 && strings.Contains(text(c.Fun), "RunProgram") {
				runPos = c.Pos()
			}
			return true
		})
		ast.Inspect(fd.Body, func(n ast.Node) bool {
			if _, isLit := n.(*ast.FuncLit); isLit {
				return false
			}
			if r, ok := n.(*ast.ReturnStmt); ok && runPos != 0 && r.Pos() > runPos && len(r.Results) == 2 && text(r.Results[1]) != "nil" {
				addStmt("Interpreter.Exec.errorReturnsAfterRun", text(r.Results[0]))
			}
			return true
		})
		// the watcher goroutine
		ast.Inspect(fd.Body, func(n ast.Node) bool {
			if g, ok := n.(*ast.GoStmt); ok {
				if fl, ok := g.Call.Fun.(*ast.FuncLit); ok {
					var parts []string
					for _, s := range fl.Body.List {
						parts = append(parts, text(s))
					}
					addStmt("Interpreter.Exec.watcher", strings.Join(parts, " ;; "))
				}
			}
			return true
		})
		// deep copy of the bindings before they reach the script
		ast.Inspect(fd.Body, func(n ast.Node) bool {
			if as, ok := n.(*ast.AssignStmt); ok && len(as.Lhs) == 1 && text(as.Lhs[0]) == `env["bindings"]` {
				addStmt("Interpreter.Exec.envBindings", text(as.Rhs[0]))
			}
			if as, ok := n.(*ast.AssignStmt); ok && len(as.Rhs) == 1 && strings.HasPrefix(text(as.Rhs[0]), "deepCopy(") {
				addStmt("Interpreter.Exec.deepCopy", text(as.Rhs[0]))
			}
			return true
		})
	}
	// package-level variables and struct fields of a runtime type
	rtGlobals := 0
	for _, d := range ef.Decls {
		if gd, ok := d.(*ast.GenDecl); ok {
			for _, sp := range gd.Specs {
				switch s := sp.(type) {
				case *ast.ValueSpec:
					if gd.Tok == token.VAR {
						t := ""
						if s.Type != nil {
							t = text(s.Type)
						}
						for _, v := range s.Values {
							t += " " + text(v)
						}
						if strings.Contains(t, "goja.Runtime") || strings.Contains(t, "goja.New") || strings.Contains(t, "sync.Pool") {
							rtGlobals++
						}
					}
				case *ast.TypeSpec:
					if st, ok := s.Type.(*ast.StructType); ok {
						for _, fl := range st.Fields.List {
							if strings.Contains(text(fl.Type), "goja.Runtime") || strings.Contains(text(fl.Type), "sync.Pool") {
								rtGlobals++
							}
						}
					}
				}
			}
		}
	}
	addStmt("ecmascript.runtimeHolders", fmt.Sprint(rtGlobals))
	for _, d := range ef.Decls {
		if gd, ok := d.(*ast.GenDecl); ok && gd.Tok == token.VAR {
			for _, sp := range gd.Specs {
				vs := sp.(*ast.ValueSpec)
				for i, n := range vs.Names {
					if n.Name == "InterruptedMessage" && i < len(vs.Values) {
						consts = append(consts, [2]string{"InterruptedMessage", text(vs.Values[i])})
					}
				}
			}
		}
	}

	// ---- specter: F5 ----------------------------------------------------------
	spf := funcs(parse(*repo, "core/specter.go"))
	for _, name := range []string{"UpdatableSpec.Spec", "UpdatableSpec.SetSpec"} {
		if fd := spf[name]; fd != nil {
			seqs[name] = callSeq(fd, map[string]bool{"LoadPointer": true, "StorePointer": true})
		}
	}

	extra(*repo)

	// ---- emit ---------------------------------------------------------------
	var b strings.Builder
	b.WriteString("/-! GENERATED by /verif/go/factgen from /repo's working tree on every check run.  Do not edit. -/\n\n")
	b.WriteString("namespace Facts\n\n")
	b.WriteString("structure Write where\n  fn : String\n  kind : String\n  rootKind : String\n  root : String\n  path : String\n  fresh : Bool\n  guard : String\n  deriving DecidableEq, Repr\n\n")
	b.WriteString("def writes : List Write := [\n")
	for i, w := range writes {
		sep := ","
		if i == len(writes)-1 {
			sep = ""
		}
		fmt.Fprintf(&b, "  ⟨%s, %s, %s, %s, %s, %v, %s⟩%s\n", leanStr(w.fn), leanStr(w.kind), leanStr(w.rootKind), leanStr(w.root), leanStr(w.path), w.fresh, leanStr(w.guard), sep)
	}
	b.WriteString("]\n\n")
	b.WriteString("def stmts : List (String × String) := [\n")
	for i, s := range stmts {
		sep := ","
		if i == len(stmts)-1 {
			sep = ""
		}
		fmt.Fprintf(&b, "  (%s, %s)%s\n", leanStr(s[0]), leanStr(s[1]), sep)
	}
	b.WriteString("]\n\n")
	b.WriteString("def consts : List (String × String) := [\n")
	for i, s := range consts {
		sep := ","
		if i == len(consts)-1 {
			sep = ""
		}
		fmt.Fprintf(&b, "  (%s, %s)%s\n", leanStr(s[0]), leanStr(s[1]), sep)
	}
	b.WriteString("]\n\n")
	keys := make([]string, 0, len(seqs))
	for k := range seqs {
		keys = append(keys, k)
	}
	sort.Strings(keys)
	b.WriteString("def seqs : List (String × List String) := [\n")
	for i, k := range keys {
		sep := ","
		if i == len(keys)-1 {
			sep = ""
		}
		var items []string
		for _, x := range seqs[k] {
			items = append(items, leanStr(x))
		}
		fmt.Fprintf(&b, "  (%s, [%s])%s\n", leanStr(k), strings.Join(items, ", "), sep)
	}
	b.WriteString("]\n\nend Facts\n")
	if *outp == "" {
		fmt.Print(b.String())
		return
	}
	os.MkdirAll(filepath.Dir(*outp), 0o755)
	if err := os.WriteFile(*outp, []byte(b.String()), 0o644); err != nil {
		fmt.Fprintln(os.Stderr, err)
		os.Exit(1)
	}
}
