package main

import (
	"go/ast"
	"go/token"
	"os"
	"path/filepath"
	"sort"
	"strings"
)

// pkgState lists, for the packages whose functions the models treat as pure, every package-level
// variable (name only) declared in a non-test file, and every function that assigns to one or
// calls a method on one outside its declaration.  A cache, pool or counter added at package level
// shows up here.
func pkgState(repo string) {
	for _, dir := range []string{"match", "core", "interpreters/ecmascript"} {
		ents, err := os.ReadDir(filepath.Join(repo, dir))
		if err != nil {
			continue
		}
		var names []string
		var files []*ast.File
		for _, e := range ents {
			n := e.Name()
			if !strings.HasSuffix(n, ".go") || strings.HasSuffix(n, "_test.go") {
				continue
			}
			f := parse(repo, filepath.Join(dir, n))
			files = append(files, f)
			for _, d := range f.Decls {
				gd, ok := d.(*ast.GenDecl)
				if !ok || gd.Tok != token.VAR {
					continue
				}
				for _, s := range gd.Specs {
					for _, id := range s.(*ast.ValueSpec).Names {
						if id.Name != "_" {
							names = append(names, id.Name)
						}
					}
				}
			}
		}
		sort.Strings(names)
		seqs["pkgvars:"+dir] = names
		// struct fields of sync / atomic / map-of-cache kind in the types the models treat as values
		var fields []string
		for _, f := range files {
			for _, d := range f.Decls {
				gd, ok := d.(*ast.GenDecl)
				if !ok || gd.Tok != token.TYPE {
					continue
				}
				for _, s := range gd.Specs {
					ts := s.(*ast.TypeSpec)
					st, ok := ts.Type.(*ast.StructType)
					if !ok {
						continue
					}
					for _, fl := range st.Fields.List {
						t := text(fl.Type)
						for _, id := range fl.Names {
							if ast.IsExported(id.Name) {
								continue
							}
							fields = append(fields, ts.Name.Name+"."+id.Name+":"+t)
						}
						if len(fl.Names) == 0 {
							fields = append(fields, ts.Name.Name+".:"+t)
						}
					}
				}
			}
		}
		sort.Strings(fields)
		seqs["hiddenfields:"+dir] = fields
	}
}
