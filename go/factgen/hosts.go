package main

import (
	"go/ast"
	"strings"
)

// hostFacts: lock spans and write order of the mcrew service (C16), timer fire paths (C17),
// routing loops of the sio crew (C14).
func hostFacts(repo string) {
	sf := funcs(parse(repo, "cmd/mcrew/service.go"))
	names := map[string]bool{"Lock": true, "Unlock": true, "RLock": true, "RUnlock": true, "WriteState": true,
		"Route": true, "GetSpec": true, "Walk": true, "Process": true}
	for _, fn := range []string{"Service.Process", "Service.AddMachine", "Service.RemMachine"} {
		if fd := sf[fn]; fd != nil {
			seqs[fn] = callSeq(fd, names)
			// where the in-memory crew is changed, relative to the write
			var order []string
			ast.Inspect(fd.Body, func(n ast.Node) bool {
				switch x := n.(type) {
				case *ast.AssignStmt:
					for _, l := range x.Lhs {
						t := text(l)
						if strings.Contains(t, "Machines[") {
							order = append(order, "mem:"+t)
						}
					}
				case *ast.CallExpr:
					if id, ok := x.Fun.(*ast.Ident); ok && id.Name == "delete" && len(x.Args) > 0 && strings.Contains(text(x.Args[0]), "Machines") {
						order = append(order, "mem:delete")
					}
					if sel, ok := x.Fun.(*ast.SelectorExpr); ok && sel.Sel.Name == "WriteState" {
						order = append(order, "write")
					}
				}
				return true
			})
			seqs[fn+".order"] = order
		}
	}
	// timers: the fire path decides under the lock, by entry identity, before emitting
	tf := funcs(parse(repo, "cmd/mcrew/timers.go"))
	if fd := tf["Timers.Add"]; fd != nil {
		seqs["mcrew.Timers.Add"] = callSeq(fd, map[string]bool{"Lock": true, "Unlock": true, "emit": true, "delete": true, "NewTimer": true, "Rem": true})
		ast.Inspect(fd.Body, func(n ast.Node) bool {
			if cc, ok := n.(*ast.CommClause); ok && cc.Comm != nil && strings.Contains(text(cc.Comm), "timer.C") {
				for _, s := range cc.Body {
					if ifs, ok := s.(*ast.IfStmt); ok {
						addStmt("mcrew.Timers.fire.guard", text(ifs.Cond))
					}
				}
			}
			return true
		})
	}
	stf := funcs(parse(repo, "sio/timers.go"))
	if fd := stf["TimerEntry.run"]; fd != nil {
		seqs["sio.TimerEntry.run"] = callSeq(fd, map[string]bool{"Lock": true, "Unlock": true, "Emitter": true, "delete": true, "changed": true})
		ast.Inspect(fd.Body, func(n ast.Node) bool {
			if cc, ok := n.(*ast.CommClause); ok && cc.Comm != nil && strings.Contains(text(cc.Comm), "t.C") {
				for _, s := range cc.Body {
					if ifs, ok := s.(*ast.IfStmt); ok {
						addStmt("sio.TimerEntry.fire.guard", text(ifs.Cond))
					}
				}
			}
			return true
		})
	}
	if fd := stf["Timers.add"]; fd != nil {
		seqs["sio.Timers.add"] = callSeq(fd, map[string]bool{"cancel": true, "changed": true, "run": true})
	}
	// sio crew: recipients are de-duplicated; emitted messages are appended to the end of the queue
	cf := funcs(parse(repo, "sio/crew.go"))
	if fd := cf["Crew.ProcessMsg"]; fd != nil {
		ast.Inspect(fd.Body, func(n ast.Node) bool {
			if as, ok := n.(*ast.AssignStmt); ok && len(as.Lhs) == 1 && text(as.Lhs[0]) == "pending" && len(as.Rhs) == 1 {
				addStmt("Crew.ProcessMsg.pending", text(as.Rhs[0]))
			}
			return true
		})
	}
	if fd := cf["Crew.allMachines"]; fd != nil {
		ast.Inspect(fd.Body, func(n ast.Node) bool {
			if cc, ok := n.(*ast.CaseClause); ok {
				for _, e := range cc.List {
					addStmt("Crew.allMachines.case", text(e))
				}
			}
			return true
		})
	}
}

// condSeq lists the conditions of every `if` (and the tags of every `for`/`range`) in a function, in
// source order, function literals included: the decision skeleton of the function.
func condSeq(fd *ast.FuncDecl) []string {
	var acc []string
	ast.Inspect(fd.Body, func(n ast.Node) bool {
		switch x := n.(type) {
		case *ast.IfStmt:
			acc = append(acc, "if "+text(x.Cond))
		case *ast.RangeStmt:
			acc = append(acc, "range "+text(x.X))
		case *ast.ForStmt:
			if x.Cond != nil {
				acc = append(acc, "for "+text(x.Cond))
			}
		case *ast.SwitchStmt:
			if x.Tag != nil {
				acc = append(acc, "switch "+text(x.Tag))
			}
		case *ast.CaseClause:
			for _, e := range x.List {
				acc = append(acc, "case "+text(e))
			}
		}
		return true
	})
	return acc
}

// skeletons: decision skeletons of the functions whose models are written by hand and have no
// other structural tie (C13 Compile/ParsePatterns, C15 GetChanged/SetMachine/DeleteMachine,
// C19 Session.Run, C20 Analyze).
func skeletons(repo string) {
	for _, it := range []struct{ file, fn, key string }{
		{"tools/expect/expect.go", "Session.Run", "skeleton:expect.Session.Run"},
		{"sio/crew.go", "Crew.GetChanged", "skeleton:sio.Crew.GetChanged"},
		{"sio/crew.go", "Crew.SetMachine", "skeleton:sio.Crew.SetMachine"},
		{"sio/crew.go", "Crew.DeleteMachine", "skeleton:sio.Crew.DeleteMachine"},
		{"sio/crew.go", "Crew.ProcessMsg", "skeleton:sio.Crew.ProcessMsg"},
		{"core/spec.go", "Spec.Compile", "skeleton:core.Spec.Compile"},
		{"core/spec.go", "Spec.ParsePatterns", "skeleton:core.Spec.ParsePatterns"},
		{"tools/analysis.go", "Analyze", "skeleton:tools.Analyze"},
	} {
		fs := funcs(parse(repo, it.file))
		if fd := fs[it.fn]; fd != nil {
			seqs[it.key] = condSeq(fd)
		} else {
			seqs[it.key] = []string{"<missing>"}
		}
	}
}
