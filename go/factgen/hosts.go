package main

func hostFacts(repo string) {}
