package main

// extra collects the facts of the hosts (mcrew service and timers, sio crew and timers);
// filled in as those models land.
func extra(repo string) {
	hostFacts(repo)
	pkgState(repo)
	skeletons(repo)
}
