#!/usr/bin/env python3
"""Rewrite DESIGN.md section 12a from seeded/*/meta.json (which tools_seeded.py fills in)."""
import json, glob, os, re
VERIF = os.path.dirname(os.path.abspath(__file__))
def first_sentence(t, n=170):
    t = " ".join(t.split())
    t = re.sub(r"^#+\s*", "", t)
    return (t[:n] + "…") if len(t) > n else t
rows = []
for d in sorted(glob.glob(os.path.join(VERIF, "seeded", "*"))):
    mp = os.path.join(d, "meta.json")
    if not os.path.exists(mp):
        continue
    m = json.load(open(mp))
    sid = m["id"]
    if sid.startswith("revfix-"):
        what = "reversal of `%s` (%s)" % (m.get("commit", sid[7:]), first_sentence(m.get("subject", "").replace("fix: ", ""), 110))
    else:
        title = ""
        rp = os.path.join(d, "README.md")
        if os.path.exists(rp):
            for l in open(rp):
                if l.startswith("#"):
                    title = l.strip("# \n")
                    break
        what = first_sentence(re.sub(r"^C\d\d\s+mutant\s*[AB]\s*[—-]+\s*", "", title, flags=re.I), 150)
    det = m.get("detected_by", {})
    rows.append((sid, ", ".join(m.get("breaks", [])), what,
                 "; ".join("%s: %s" % (k, v) for k, v in sorted(det.items())) or "not run"))
out = ["| Change | Breaks | What it is | Caught by (quick tier) |", "|---|---|---|---|"]
for r in rows:
    out.append("| `%s` | %s | %s | %s |" % r)
n_fail = sum(1 for r in rows if "failing-input" in r[3])
n_obl = sum(1 for r in rows if "failing-input" not in r[3] and "obligation-broken" in r[3])
n_miss = sum(1 for r in rows if "failing-input" not in r[3] and "obligation-broken" not in r[3])
out.append("")
out.append("%d changes: %d caught with a concrete failing input, %d only as a broken obligation "
           "(`no-failing-input-found`), %d missed." % (len(rows), n_fail, n_obl, n_miss))
p = os.path.join(VERIF, "DESIGN.md")
s = open(p).read()
s = re.sub(r"<!-- seeded-table:begin -->.*?<!-- seeded-table:end -->",
           "<!-- seeded-table:begin -->\n" + "\n".join(out) + "\n<!-- seeded-table:end -->", s, flags=re.S)
open(p, "w").write(s)
print("\n".join(out[-1:]))
