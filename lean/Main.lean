import Sheens.Driver.Match
import Sheens.Driver.Engine
import Sheens.Driver.Crew
import Sheens.Driver.MCrew
import Sheens.Driver.Timers
import Sheens.Driver.Expect
import Sheens.Driver.Tools
import Sheens.Driver.Compile

/-! `driver`: one JSON op per line in, one JSON verdict line out. -/

open Lean

def dispatch (j : Json) : Json :=
  match Wire.getStr j "op" with
  | "match" => Driver.handleMatch j
  | "walk" => Driver.handleWalk j
  | "step" => Driver.handleStep j
  | "crew" => Driver.handleCrew j
  | "mcrew" => Driver.handleMCrew j
  | "timers" => Driver.handleTimers j
  | "expect" => Driver.handleExpect j
  | "tools" => Driver.handleTools j
  | "compile" => Driver.handleCompile j
  | "probe" =>
    -- observations made entirely on the implementation side (runtime behaviour the model cannot
    -- exhibit); the probes travel in the input line and are judged by the check driver
    Json.mkObj [("corr", true), ("prop", Json.mkObj []), ("feat", (Wire.getObj? j "feat").getD (Json.arr #[])),
                ("nontrivial", true), ("key", ((Wire.getObj? j "case").getD .null).compress)]
  | op => Json.mkObj [("error", Json.str ("unknown op " ++ op))]

partial def loop (hin : IO.FS.Stream) (hout : IO.FS.Stream) : IO Unit := do
  let line ← hin.getLine
  if line.isEmpty then return ()
  let t := line.trimAscii.toString
  if t.isEmpty then
    loop hin hout
  else
    match Json.parse t with
    | .ok j =>
      let r := dispatch j
      let r := match Wire.getObj? j "id" with
        | some i => r.setObjVal! "id" i
        | none => r
      hout.putStrLn r.compress
    | .error e => hout.putStrLn (Json.mkObj [("error", Json.str ("parse: " ++ e))]).compress
    loop hin hout

def main : IO Unit := do
  let hin ← IO.getStdin
  let hout ← IO.getStdout
  loop hin hout
  hout.flush
