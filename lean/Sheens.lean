-- Root of the `Sheens` library: models, specs, oracles, wire (core Lean only).
import Sheens.Value
import Sheens.Match
import Sheens.MatchSpec
import Sheens.Oracle
import Sheens.Wire
import Sheens.Engine
import Sheens.ES
import Sheens.EngineOracle
import Sheens.SioCrew
import Sheens.MatchSpecC
import Sheens.MCrew
import Sheens.Timers
import Sheens.Expect
import Sheens.Tools
import Sheens.Compile
import Sheens.Watcher
import Sheens.Specter
