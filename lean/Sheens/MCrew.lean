import Sheens.SioCrew

/-!
# Model of the mcrew service (`cmd/mcrew/service.go`, `storage.go`), the repaired tree

`Route`, `Process`, `AddMachine`, `RemMachine` over a store that may fail.  The store's failures are
an explicit part of the operation sequence (`storeDown` / `storeUp`), so a theorem over all operation
sequences quantifies over every position at which the store starts or stops failing.  Each operation
is one atomic region: the repaired code holds the crew lock from the existence check / the walks to
the write and the in-memory update (`FactsOK.mcrew_*`).
-/

namespace MCrew

open Sio (find put del)

structure Rec where
  spec  : String
  state : State

structure Svc where
  mem     : List (String × Rec)
  store   : List (String × Rec)
  storeUp : Bool

inductive Op where
  | add (spec id node : String) (bs : Option Bs)
  | rem (id : String)
  | process (msg : V)
  | storeDown
  | storeUp

inductive Res where
  | ok
  | exists_          -- `Exists`
  | writeFailed
  | specError
  deriving DecidableEq, Repr

/-- `Route`: a string `to` names one machine; the reserved names go to services (no machine sees the
    message); anything else goes to every machine -/
def route (s : Svc) (msg : V) : List String :=
  match msg with
  | .obj kvs =>
    (match lookup "to" kvs with
     | some (.str t) => if t == "ws" || t == "http" || t == "timers" then [] else [t]
     | _ => s.mem.map (·.1))
  | _ => s.mem.map (·.1)

/-- the new states of one `Process`: every addressed, existing machine walks the message -/
def walkAll (specs : String → Option Spec) (limit : Option Int) (s : Svc) (msg : V) (mids : List String) :
    Option (List (String × Rec)) :=
  mids.foldl (fun acc mid =>
    match acc with
    | none => none
    | some l =>
      match find mid s.mem with
      | none => some l
      | some r =>
        match specs r.spec with
        | none => none                                   -- `GetSpec` failed: the whole call fails
        | some spec =>
          let msgs := match msg with | .null => [] | m => [m]
          let w := walk spec r.state msgs limit (fun _ => false)
          match lastTo w.strides with
          | some t => some (put mid { r with state := stateCopy t } l)
          | none => some l) (some [])

/-- one write transaction -/
def writeAll (s : Svc) (changes : List (String × Option Rec)) : Option (List (String × Rec)) :=
  if changes.isEmpty then some s.store
  else if !s.storeUp then none
  else some (changes.foldl (fun st (mid, r) => match r with | some x => put mid x st | none => del mid st) s.store)

def step (specs : String → Option Spec) (limit : Option Int) (s : Svc) : Op → Svc × Res
  | .storeDown => ({ s with storeUp := false }, .ok)
  | .storeUp => ({ s with storeUp := true }, .ok)
  | .add spec id node bs =>
    if (find id s.mem).isSome then (s, .exists_)
    else
      let r : Rec := { spec := spec, state := { node := if node == "" then "start" else node, bs := some (copyB bs) } }
      (match writeAll s [(id, some r)] with
       | none => (s, .writeFailed)
       | some st => ({ s with store := st, mem := put id r s.mem }, .ok))
  | .rem id =>
    (match writeAll s [(id, none)] with
     | none => (s, .writeFailed)
     | some st => ({ s with store := st, mem := del id s.mem }, .ok))
  | .process msg =>
    (match walkAll specs limit s msg (route s msg) with
     | none => (s, .specError)
     | some changed =>
       match writeAll s (changed.map (fun (mid, r) => (mid, some r))) with
       | none => (s, .writeFailed)
       | some st => ({ s with store := st, mem := changed.foldl (fun m (mid, r) => put mid r m) s.mem }, .ok))

def run (specs : String → Option Spec) (limit : Option Int) (s : Svc) (ops : List Op) : Svc :=
  ops.foldl (fun s op => (step specs limit s op).1) s

def init : Svc := { mem := [], store := [], storeUp := true }

end MCrew
