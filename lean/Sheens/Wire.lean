import Lean.Data.Json
import Sheens.Value

/-!
# Line protocol: `Lean.Json` ⇄ `V`, canonical printing and comparison

Go-typed values that JSON cannot express travel tagged: `{"$int":3}`,
`{"$bs":{…}}`, `{"$other":"func"}`.  Object keys are sorted on input (the Go side
prints maps with sorted keys anyway) so list order = sorted order by default.
-/

open Lean

namespace Wire

def ratOfJsonNumber (n : JsonNumber) : Rat :=
  mkRat n.mantissa (10 ^ n.exponent)

partial def toV : Json → V
  | .null => .null
  | .bool b => .bool b
  | .num n => .num (ratOfJsonNumber n)
  | .str s => .str s
  | .arr xs => .arr (xs.toList.map toV)
  | .obj kvs =>
    let l := kvs.toList
    match l with
    | [("$int", .num n)] => .int (ratOfJsonNumber n).floor
    | [("$bs", .obj m)] => .bobj (m.toList.map (fun (k, v) => (k, toV v)))
    | [("$other", .str t)] => .other t
    | _ => .obj (l.map (fun (k, v) => (k, toV v)))

/-- smallest `e ≤ 12` with `den ∣ 10^e` -/
def decExp (den : Nat) : Option Nat :=
  (List.range 13).find? (fun e => (10 ^ e) % den == 0)

def ratToJson (q : Rat) : Json :=
  match decExp q.den with
  | some e => .num ⟨q.num * ((10 ^ e) / q.den), e⟩
  | none => Json.mkObj [("$rat", .arr #[.num ⟨q.num, 0⟩, .num ⟨q.den, 0⟩])]

partial def ofV : V → Json
  | .null => .null
  | .bool b => .bool b
  | .num q => ratToJson q
  | .str s => .str s
  | .arr xs => .arr (xs.map ofV).toArray
  | .obj kvs => Json.mkObj (kvs.map (fun (k, v) => (k, ofV v)))
  | .int i => Json.mkObj [("$int", .num ⟨i, 0⟩)]
  | .bobj kvs => Json.mkObj [("$bs", Json.mkObj (kvs.map (fun (k, v) => (k, ofV v))))]
  | .other t => Json.mkObj [("$other", .str t)]

/-- canonical text of a value: keys sorted (Json objects are ordered maps), numbers normalised -/
def canonStr (v : V) : String := (ofV v).compress

/-- normalise numbers (and key order) of arbitrary JSON, for textual comparison -/
partial def normJson : Json → Json
  | .num n => ratToJson (ratOfJsonNumber n)
  | .arr xs => .arr (xs.map normJson)
  | .obj kvs => Json.mkObj (kvs.toList.map (fun (k, v) => (k, normJson v)))
  | j => j

def bsToV (bs : Bs) : V := .obj bs

def canonBs (bs : Bs) : String := canonStr (.obj bs)

/-- a list of binding sets as a sorted list of canonical texts (multiset comparison) -/
def canonBss (bss : List Bs) : List String :=
  (bss.map canonBs).toArray.qsort (· < ·) |>.toList

def bsOfJson (j : Json) : Bs :=
  match toV j with
  | .obj kvs => kvs
  | .bobj kvs => kvs
  | _ => []

def getObj? (j : Json) (k : String) : Option Json := (j.getObjVal? k).toOption
def getStr (j : Json) (k : String) : String := ((j.getObjVal? k).toOption.bind (fun x => x.getStr?.toOption)).getD ""
def getNat (j : Json) (k : String) : Nat := ((j.getObjVal? k).toOption.bind (fun x => x.getNat?.toOption)).getD 0
def getInt? (j : Json) (k : String) : Option Int := (j.getObjVal? k).toOption.bind (fun x => x.getInt?.toOption)
def getBool (j : Json) (k : String) : Bool := ((j.getObjVal? k).toOption.bind (fun x => x.getBool?.toOption)).getD false
def getArr (j : Json) (k : String) : List Json :=
  match (j.getObjVal? k).toOption with
  | some (.arr xs) => xs.toList
  | _ => []
def getV (j : Json) (k : String) : V := ((j.getObjVal? k).toOption.map toV).getD .null
def getV? (j : Json) (k : String) : Option V :=
  match (j.getObjVal? k).toOption with
  | some .null => none
  | some x => some (toV x)
  | none => none

end Wire
