import Sheens.Engine

/-!
# Ownership layer: `Spec.Step` over a heap of bindings maps (C06)

The pure model (`Engine.lean`) cannot say "never modifies what it is given" or "returns no shared
map": values there are immutable.  This file models the same function one level down: a bindings
map is a *cell* of a heap, named by an address; `bs.Copy()` allocates a cell, `bs.Extend(k, v)`
and `exe.Bs[p] = v` write into one, and a `*State` holds the address of its map.  Only top-level
bindings maps are cells — they are the only objects `Step`, `consider`, `try` and `FuncAction.Exec`
ever write to (regenerated facts `engine_writes_only_locals`, `engine_mutators_on_fresh_maps`,
`exec_writeback_guarded`); nested values are immutable `V`s here.

What is external is a parameter with a stated contract:
* an action or guard is an `ActionH` (it gets the heap and the address of its bindings, nil = `none`);
  the contract `Respects` says it leaves every existing cell as it is, and hands back the map it
  was given or a new one (the ECMAScript interpreter always hands back a new one: deep copy in,
  conversion out — facts `bindings_deep_copied`; a native action is trusted to keep the contract);
* the matcher returns new maps (`Match` copies the bindings first, `copyBindingss` copies every
  result — facts `match_copies_first`, `copyBindingss_copies`): `allocAll` of the pure results.

Every allocation and write below stands for one statement of core/step.go / core/actions.go, in
the order of the source; the regenerated fact `step_copy_sites` pins that list.
-/

namespace Own

abbrev Addr := Nat

/-- the bindings maps that exist; the first entry for an address is its current content;
    `next` is the first address never handed out -/
structure Heap where
  cells : List (Addr × Bs)
  next  : Addr

def Heap.get (h : Heap) (a : Addr) : Option Bs :=
  match h.cells.find? (fun c => c.1 == a) with
  | some c => some c.2
  | none => none

/-- every cell was handed out by `alloc` -/
def Heap.WF (h : Heap) : Prop := ∀ c ∈ h.cells, c.1 < h.next

/-- `make(map…)` / `Copy()`: a new cell -/
def Heap.alloc (h : Heap) (b : Bs) : Heap × Addr :=
  ({ cells := (h.next, b) :: h.cells, next := h.next + 1 }, h.next)

/-- replace the content of a cell (all writes go through this) -/
def Heap.set (h : Heap) (a : Addr) (b : Bs) : Heap := { h with cells := (a, b) :: h.cells }

/-- the content behind a possibly-nil map -/
def content (h : Heap) (oa : Option Addr) : Option Bs := oa.bind h.get

/-- `bs.Copy()` of a possibly-nil map: a new non-nil map -/
def copyH (h : Heap) (oa : Option Addr) : Heap × Addr := h.alloc (copyB (content h oa))

/-- `bs[k] = v` -/
def writeH (h : Heap) (a : Addr) (k : String) (v : V) : Heap :=
  h.set a (insertB k v ((h.get a).getD []))

def allocAll (h : Heap) : List Bs → Heap × List Addr
  | [] => (h, [])
  | b :: rest =>
    let (h1, a) := h.alloc b
    let (h2, as) := allocAll h1 rest
    (h2, a :: as)

/-- what an `Action.F` returns, with addresses for maps -/
structure ExecOutH where
  exe : Option (Option Addr × List V)
  err : Option String

abbrev ActionH := Heap → Option Addr → Heap × ExecOutH

/-- the pure reading of a heap-level result -/
def absOut (h : Heap) (o : ExecOutH) : ExecOut :=
  { exe := o.exe.map (fun p => (content h p.1, p.2)), err := o.err }

/-- a heap-level action together with its pure meaning -/
structure Act where
  run  : ActionH
  pure : ActionF

/-- The contract of an external action or guard: existing cells are left as they are, nothing is
    freed, the map handed back is the one given or a new one, and the pure meaning is `pure`.
    `result` speaks about calls on a map that exists (`< next` and present): an action that hands
    back the very map it was given can promise that the map it hands back exists only then. -/
structure Respects (a : Act) : Prop where
  wf      : ∀ h arg, h.WF → (∀ x, arg = some x → x < h.next) → (a.run h arg).1.WF
  mono    : ∀ h arg, h.next ≤ (a.run h arg).1.next
  frame   : ∀ h arg x, x < h.next → (a.run h arg).1.get x = h.get x
  result  : ∀ h arg r em, h.WF → (∀ x, arg = some x → x < h.next ∧ (h.get x).isSome) →
              (a.run h arg).2.exe = some (some r, em) →
              (some r = arg ∨ h.next ≤ r) ∧ r < (a.run h arg).1.next ∧ ((a.run h arg).1.get r).isSome
  refines : ∀ h arg, h.WF → (∀ x, arg = some x → x < h.next) →
              absOut (a.run h arg).1 (a.run h arg).2 = a.pure (content h arg)

structure BranchH where
  pattern : Option V
  guard   : Option Act
  target  : String

structure BranchesH where
  type     : String
  branches : List BranchH

structure NodeH where
  action    : Option Act
  hasSource : Bool
  branches  : Option BranchesH

structure SpecH where
  name                : String
  nodes               : List (String × NodeH)
  actionErrorBranches : Bool
  actionErrorNode     : String
  compiled            : Bool

def BranchH.abs (b : BranchH) : Branch := { pattern := b.pattern, guard := b.guard.map (·.pure), target := b.target }
def BranchesH.abs (b : BranchesH) : Branches := { type := b.type, branches := b.branches.map BranchH.abs }
def NodeH.abs (n : NodeH) : Node :=
  { action := n.action.map (·.pure), hasSource := n.hasSource, branches := n.branches.map BranchesH.abs }
def SpecH.abs (s : SpecH) : Spec :=
  { name := s.name, nodes := s.nodes.map (fun kn => (kn.1, kn.2.abs)),
    actionErrorBranches := s.actionErrorBranches, actionErrorNode := s.actionErrorNode, compiled := s.compiled }

/-- every action and guard of the spec keeps the contract -/
def SpecH.Good (s : SpecH) : Prop :=
  ∀ kn ∈ s.nodes,
    (∀ a, kn.2.action = some a → Respects a) ∧
    (∀ bs, kn.2.branches = some bs → ∀ b ∈ bs.branches, ∀ g, b.guard = some g → Respects g)

structure StateH where
  node : String
  bs   : Option Addr

def StateH.abs (h : Heap) (st : StateH) : State := { node := st.node, bs := content h st.bs }

structure StrideH where
  frm      : StateH
  to       : Option StateH
  consumed : Option V
  emitted  : List V

def StrideH.abs (h : Heap) (s : StrideH) : Stride :=
  { frm := s.frm.abs h, to := s.to.map (StateH.abs h), consumed := s.consumed, emitted := s.emitted }

structure StepOutH where
  stride : Option StrideH
  err    : Option StepErr

def StepOutH.abs (h : Heap) (o : StepOutH) : StepOut := { stride := o.stride.map (StrideH.abs h), err := o.err }

def findNodeH (k : String) : List (String × NodeH) → Option NodeH
  | [] => none
  | (k', n) :: rest => if k = k' then some n else findNodeH k rest

/-- `exe.Bs[p] = v` for every permanent binding -/
def restoreH (h : Heap) (r : Addr) (perm : Bs) : Heap :=
  h.set r (restore perm ((h.get r).getD []))

/-- `FuncAction.Exec`: read the permanent bindings of the given map, run, write them into the map
    that came back (whichever map that is) -/
def execWrapH (a : Act) (arg : Option Addr) (h : Heap) : Heap × ExecOutH :=
  let permanent := permanentOf (copyB (content h arg))
  let (h1, out) := a.run h arg
  match out.exe with
  | none => (h1, { exe := some (none, []), err := out.err })
  | some (none, em) => (h1, { exe := some (none, em), err := out.err })
  | some (some r, em) => (restoreH h1 r permanent, { exe := some (some r, em), err := out.err })

def guardLoopH (g : Act) : List Addr → Heap → Heap × Except StepErr (Option Addr)
  | [], h => (h, .ok none)
  | c :: cs, h =>
    let (h1, out) := execWrapH g (some c) h
    match out.err with
    | some e => (h1, .error (.guard e))
    | none =>
      match out.exe with
      | some (some b, _) => (h1, .ok (some b))
      | _ => guardLoopH g cs h1

/-- `DefaultMatcher.Match(b.Pattern, against, bs)`: new maps; no pattern: the very map given -/
def candidatesH (b : BranchH) (bs : Option Addr) (against : V) (h : Heap) :
    Heap × Except StepErr (List (Option Addr)) :=
  match b.pattern with
  | none => (h, .ok [bs])
  | some p =>
    match matchErrOf (matchTop p against (copyB (content h bs))) with
    | .error e => (h, .error e)
    | .ok l =>
      let (h1, as) := allocAll h l
      (h1, .ok (as.map some))

/-- `Branch.try` -/
def tryBranchH (b : BranchH) (bs : Option Addr) (against : V) (h : Heap) :
    Heap × Except StepErr (Option StateH) :=
  match candidatesH b bs against h with
  | (h1, .error e) => (h1, .error e)
  | (h1, .ok bss) =>
    let chosen : Heap × Except StepErr (Option Addr) :=
      match b.guard with
      | none =>
        match bss with
        | [] => (h1, .ok none)
        | [c] => (h1, .ok c)
        | _ => (h1, .error .tooManyBindingss)
      | some g =>
        match bss with
        | [none] =>
          let (h2, out) := execWrapH g none h1
          (match out.err with
           | some e => (h2, .error (.guard e))
           | none => match out.exe with
             | some (some b', _) => (h2, .ok (some b'))
             | _ => (h2, .ok none))
        | _ => guardLoopH g (bss.filterMap id) h1
    match chosen with
    | (h2, .error e) => (h2, .error e)
    | (h2, .ok none) => (h2, .ok none)
    | (h2, .ok (some c)) =>
      (h2, .ok (some { node := targetOf b.abs ((h2.get c).getD []), bs := some c }))

def tryAllH (bs : Option Addr) (against : V) : List BranchH → Heap → Heap × Except StepErr (Option StateH)
  | [], h => (h, .ok none)
  | b :: rest, h =>
    match tryBranchH b bs against h with
    | (h1, .error e) => (h1, .error e)
    | (h1, .ok (some st)) => (h1, .ok (some st))
    | (h1, .ok none) => tryAllH bs against rest h1

/-- `Branches.consider` -/
def considerH (b : Option BranchesH) (bs : Option Addr) (pending : Option V) (h : Heap) :
    Heap × (Option StateH × Bool × Option StepErr) :=
  match b with
  | none => (h, (none, false, none))
  | some br =>
    let consumer := br.type == "message"
    if consumer then
      match pending with
      | none => (h, (none, true, none))
      | some m =>
        match tryAllH bs m br.branches h with
        | (h1, .error e) => (h1, (none, true, some e))
        | (h1, .ok to) => (h1, (to, true, none))
    else
      match tryAllH bs (.obj (copyB (content h bs))) br.branches h with
      | (h1, .error e) => (h1, (none, false, some e))
      | (h1, .ok to) => (h1, (to, false, none))

/-- `Spec.Step` -/
def stepH (s : SpecH) (st : StateH) (pending : Option V) (h : Heap) : Heap × StepOutH :=
  if !s.compiled then (h, { stride := none, err := some .notCompiled }) else
  match findNodeH st.node s.nodes with
  | none => (h, { stride := none, err := some (.unknownNode st.node) })
  | some n =>
    if n.action.isNone && n.hasSource then (h, { stride := none, err := some (.uncompiledAction st.node) }) else
    if n.action.isSome && (match n.branches with | some b => b.type == "message" | none => false) then
      (h, { stride := none, err := some (.badBranching st.node) }) else
    -- stride.From = st.Copy()
    let (h0, fa) := copyH h st.bs
    let stride0 : StrideH := { frm := { node := st.node, bs := some fa }, to := none, consumed := none, emitted := [] }
    -- the action, if any: `inl` = return now, `inr` = go on to the branches with (bs, emitted)
    let afterAction : Heap × Sum StepOutH (Option Addr × List V) :=
      match n.action with
      | none => (h0, .inr (st.bs, []))
      | some a =>
        let (h1, out) := execWrapH a st.bs h0
        -- e.Bs == nil: e.Bs = NewBindings()
        let (h2, ebs, emitted) : Heap × Addr × List V :=
          match out.exe with
          | none => let (hh, x) := h1.alloc []; (hh, x, [])
          | some (none, em) => let (hh, x) := h1.alloc []; (hh, x, em)
          | some (some b, em) => (h1, b, em)
        match out.err with
        | none => (h2, .inr (some ebs, emitted))
        | some e =>
          -- bs = bs.Copy(); bs.Extend("actionError", …); bs.Extend("error", …)   (bs is still st.Bs)
          let (h3, b2) := copyH h2 st.bs
          let h4 := writeH (writeH h3 b2 "actionError" (.str e)) b2 "error" (.str e)
          if !s.actionErrorBranches then
            if s.actionErrorNode == "" then (h4, .inl { stride := none, err := some (.action e) })
            else
              -- Bs: bs.Copy()
              let (h5, b3) := copyH h4 (some b2)
              (h5, .inl { stride := some { stride0 with emitted := emitted,
                                                         to := some { node := s.actionErrorNode, bs := some b3 } },
                          err := none })
          else (h4, .inr (some b2, emitted))
    match afterAction with
    | (h5, .inl r) => (h5, r)
    | (h5, .inr (bs, emitted)) =>
      match considerH n.branches bs pending h5 with
      | (h6, (to, consumed, err)) =>
        -- stride.To = st.Copy()
        let (h7, to') : Heap × Option StateH :=
          match to with
          | none => (h6, none)
          | some t => let (hh, x) := copyH h6 t.bs; (hh, some { node := t.node, bs := some x })
        let stride1 : StrideH := { stride0 with emitted := emitted,
                                                 consumed := if consumed then pending else none,
                                                 to := to' }
        if to.isNone && n.action.isSome then
          -- bs.Copy().Extendm("error", …, "lastNode", …, "lastBindings", givenState.Bs.Copy())
          let (h8, b) := copyH h7 bs
          let h9 := writeH (writeH (writeH h8 b "error" (.str "Action node followed no branch"))
                                b "lastNode" (.str st.node))
                          b "lastBindings" (.obj (copyB (content h8 st.bs)))
          (h9, { stride := some { stride1 with to := some { node := "error", bs := some b } }, err := err })
        else (h7, { stride := some stride1, err := err })


/-! ## `Spec.Walk` over the heap -/

structure WalkedH where
  strides   : List StrideH
  remaining : List V
  stopped   : StopReason

def WalkedH.abs (h : Heap) (w : WalkedH) : Walked :=
  { strides := w.strides.map (StrideH.abs h), remaining := w.remaining, stopped := w.stopped }

/-- one iteration of `Spec.Walk` without the bookkeeping -/
def walkStrideH (s : SpecH) (st : StateH) (pending : Option V) (h : Heap) : Heap × StrideH :=
  match stepH s st pending h with
  | (h1, out) =>
    -- stride == nil: stride = NewStride(); stride.From = st.Copy()
    let (h2, stride) : Heap × StrideH :=
      match out.stride with
      | some x => (h1, x)
      | none =>
        let (hh, fa) := copyH h1 st.bs
        (hh, { frm := { node := st.node, bs := some fa }, to := none, consumed := none, emitted := [] })
    match out.err with
    | none => (h2, stride)
    | some e =>
      if st.node == "error" then (h2, stride)
      else
        -- st.Bs.Copy().Extendm("error", …, "lastNode", …, "lastBindings", st.Bs.Copy())
        let (h3, b) := copyH h2 st.bs
        let h4 := writeH (writeH (writeH h3 b "error" (.str (errText s.name e)))
                              b "lastNode" (.str st.node))
                        b "lastBindings" (.obj (copyB (content h3 st.bs)))
        (h4, { stride with to := some { node := "error", bs := some b } })

/-- the loop of `Spec.Walk`; breakpoints read the state -/
def walkLoopH (s : SpecH) (bp : State → Bool) :
    Nat → StateH → List V → List StrideH → Heap → Heap × WalkedH
  | 0, _, pendings, acc, h => (h, { strides := acc.reverse, remaining := pendings, stopped := .limited })
  | i+1, st, pendings, acc, h =>
    if bp (st.abs h) then (h, { strides := acc.reverse, remaining := pendings, stopped := .breakpoint }) else
    match walkStrideH s st (pendingOf pendings) h with
    | (h1, stride) =>
      let pendings' := if stride.consumed.isSome then pendings.drop 1 else pendings
      match stride.to with
      | none =>
        if pendings'.isEmpty then (h1, { strides := (stride :: acc).reverse, remaining := [], stopped := .done })
        else if stride.consumed.isNone then (h1, { strides := (stride :: acc).reverse, remaining := [], stopped := .done })
        else walkLoopH s bp i st pendings' (stride :: acc) h1
      | some to =>
        -- st = stride.To.Copy()
        match copyH h1 to.bs with
        | (h2, a) => walkLoopH s bp i { node := to.node, bs := some a } pendings' (stride :: acc) h2

/-- `Spec.Walk` -/
def walkH (s : SpecH) (st : StateH) (msgs : List V) (limit : Option Int) (bp : State → Bool) (h : Heap) :
    Heap × WalkedH :=
  let l : Int := match limit with | none => defaultLimit | some l => l
  walkLoopH s bp l.toNat st msgs [] h

end Own
