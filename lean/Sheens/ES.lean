import Sheens.Engine

/-!
# The action DSL and its interpreter; the ECMAScript interpreter *glue*

The theorems quantify over arbitrary `ActionF`; this small language exists so
that the correspondence run can execute *the same* action on both sides: the Go
harness compiles a `Prog` to ECMAScript source (run by the real
`interpreters/ecmascript`) or to a native Go closure, and `Prog.run` below is
its meaning as an `ActionF`.

The `es` flavour follows `(*Interpreter).Exec` (ecmascript.go): the bindings are
deep-copied, emissions go to the execution's buffer, **a run-time error returns
no execution at all** (so the buffer is dropped), `null` returns nil bindings,
any other non-object is an error.  The `native` flavour is a Go closure that
works on a copy and may return a partial execution together with its error.
-/

inductive Op where
  | set (k : String) (v : V)
  | del (k : String)
  | emit (v : V)
  | emitb (k : String)                 -- emit {"k":k,"v":bs[k] or null}
  | inc (k : String)
  | fail (msg : String)
  | iffail (k : String) (msg : String) -- fail when the key is present
  | clear
  | setnested (k k2 : String) (v : V)
  | rejectUnless (k : String)          -- return null unless the key is present
  | rejectIf (k : String) (v : V)      -- return null when bs[k] === v (scalar)
  | markdeep (k k2 : String) (v : V)   -- write k2 := v into every object reachable inside bs[k], in place
  | pollute                            -- change a built-in of the runtime (`Array.prototype.zz = 1`): no effect on the result
  | forin (k : String)                 -- bs[k] := the number of keys a `for … in` over `[1, 2]` visits (2 in a pristine runtime)
  | loop                               -- spin until the deadline
  | emitBad (kind : String)            -- emit a value that cannot be serialised (":type" a function, ":cycle" a value containing itself)

inductive Ret where
  | bs | null | scalar | array | fresh
  | bad (kind : String)   -- bindings that cannot be converted (":nan" 0/0, ":cycle" they contain themselves): the conversion of the result fails

structure Prog where
  ops           : List Op
  ret           : Ret
  native        : Bool
  partialOnFail : Bool     -- native only: return the partial execution together with the error

/-- early exits of a program -/
inductive Exit where
  | fail (msg : String) | reject | timeout | badEmit (kind : String)

def scalarEq (a b : V) : Bool :=
  match a.scalar?, b.scalar? with
  | some x, some y => x == y
  | _, _ => false

/-! `markV k2 v x`: `x` with `k2 := v` written into every object reachable inside it (through
arrays and objects alike), children first.  In ECMAScript this is an in-place update of nested
values of the bindings the script was handed — harmless exactly when those are a deep copy. -/
mutual
def markV (k2 : String) (v : V) : V → V
  | .arr xs => .arr (markVs k2 v xs)
  | .obj kvs => .obj (insertB k2 v (markKvs k2 v kvs))
  | x => x
def markVs (k2 : String) (v : V) : List V → List V
  | [] => []
  | x :: xs => markV k2 v x :: markVs k2 v xs
def markKvs (k2 : String) (v : V) : List (String × V) → List (String × V)
  | [] => []
  | (k, x) :: rest => (k, markV k2 v x) :: markKvs k2 v rest
end

def Op.apply (o : Op) (bs : Bs) (em : List V) : Except Exit (Bs × List V) :=
  match o with
  | .set k v => .ok (insertB k v bs, em)
  | .del k => .ok (eraseB k bs, em)
  | .emit v => .ok (bs, em ++ [v])
  | .emitb k => .ok (bs, em ++ [.obj [("k", .str k), ("v", (lookup k bs).getD .null)]])
  | .inc k =>
    let n : Rat := match lookup k bs with | some (.num q) => q | _ => 0
    .ok (insertB k (.num (n + 1)) bs, em)
  | .fail m => .error (.fail m)
  | .iffail k m => if (lookup k bs).isSome then .error (.fail m) else .ok (bs, em)
  | .clear => .ok ([], em)
  | .setnested k k2 v =>
    match lookup k bs with
    | some (.obj m) => .ok (insertB k (.obj (insertB k2 v m)) bs, em)
    | _ => .ok (insertB k (.obj [(k2, v)]) bs, em)
  | .markdeep k k2 v =>
    match lookup k bs with
    | some x => .ok (insertB k (markV k2 v x) bs, em)
    | none => .ok (bs, em)
  | .rejectUnless k => if (lookup k bs).isSome then .ok (bs, em) else .error .reject
  | .rejectIf k v =>
    match lookup k bs with
    | some x => if scalarEq x v then .error .reject else .ok (bs, em)
    | none => .ok (bs, em)
  | .pollute => .ok (bs, em)
  | .forin k => .ok (insertB k (.num 2) bs, em)
  | .loop => .error .timeout
  | .emitBad k => .error (.badEmit k)

def runOps : List Op → Bs → List V → Except (Exit × Bs × List V) (Bs × List V)
  | [], bs, em => .ok (bs, em)
  | o :: rest, bs, em =>
    match o.apply bs em with
    | .ok (bs', em') => runOps rest bs' em'
    | .error x => .error (x, bs, em)

def timeoutMsg : String := "RuntimeError: timeout"
def notBindingsMsg : String := "isn't Bindings"
def badEmitMsg : String := "json: unsupported"
def badRetMsg : String := "json: unsupported"

/-- the meaning of a program as an `ActionF` -/
def Prog.run (p : Prog) : ActionF := fun bs =>
  match runOps p.ops (copyB bs) [] with
  | .error (.reject, _, em) => { exe := some (none, em), err := none }
  | .error (x, b, em) =>
    let msg := match x with
      | .fail m => m | .timeout => timeoutMsg | .badEmit k => badEmitMsg ++ k ++ (if p.native then ":native" else "") | .reject => ""
    if p.native && p.partialOnFail then { exe := some (some b, em), err := some msg }
    else { exe := none, err := some msg }
  | .ok (b, em) =>
    match p.ret with
    | .bs => { exe := some (some b, em), err := none }
    | .fresh => { exe := some (some [("fresh", .bool true)], em), err := none }
    | .null => { exe := some (none, em), err := none }
    | .scalar =>
      if p.native then { exe := some (some b, em), err := none }
      else { exe := none, err := some (notBindingsMsg ++ ":scalar") }
    | .array =>
      if p.native then { exe := some (some b, em), err := none }
      else { exe := none, err := some (notBindingsMsg ++ ":array") }
    | .bad k =>
      if p.native then { exe := some (some b, em), err := none }
      else { exe := none, err := some (badRetMsg ++ k) }
