import Sheens.ES

/-!
# Model of the expectation tool's verdict (`tools/expect/expect.go`, `Session.Run`), repaired tree

A session is a sequence of steps; each step has a set of expected (and inverted = forbidden) output
patterns with optional guards.  The subprocess's output is a stream of events: a JSON line, a
non-JSON noise line, the step's timeout, end of file.  The verdict is a fold: within a step every
JSON line is offered to every not-yet-satisfied output, in order; a satisfied expected output is
remembered and decrements the count of outstanding outputs; a matching inverted output fails the
session; the step is done when the count is zero (checked after each JSON line).  The input side
(writing the step's inputs to the subprocess) is not modelled: it always succeeds.
-/

namespace Expect

structure Output where
  pattern  : V
  guard    : Option ActionF
  inverted : Bool

structure IOStep where
  outputs : List Output

inductive Event where
  | line (v : V)
  | noise
  | timeout
  | eof

inductive Verdict where
  | pass
  | fail (why : String)
  deriving DecidableEq, Repr

/-- does this output accept this message: the pattern matches (from empty bindings) and the guard,
    if any, returns bindings for the first binding set -/
def accepts (o : Output) (msg : V) : Except String Bool :=
  match matchTop o.pattern msg [] with
  | .err _ => .error "match error"
  | .diverge => .error "diverged"
  | .ok [] => .ok false
  | .ok (b :: _) =>
    match o.guard with
    | none => .ok true
    | some g =>
      let out := execWrap g (some b)
      match out.err with
      | some e => .error e
      | none => match out.exe with
        | some (some _, _) => .ok true
        | _ => .ok false

/-- offer one message to the outputs in order; `sat` are the satisfied flags;
    returns the new flags and the number of newly satisfied expected outputs, or a failure -/
def offer (msg : V) : List Output → List Bool → Except String (List Bool × Nat)
  | [], _ => .ok ([], 0)
  | _ :: _, [] => .ok ([], 0)
  | o :: os, s :: ss =>
    if s then
      (match offer msg os ss with
       | .ok (fl, k) => .ok (true :: fl, k)
       | .error e => .error e)
    else
      match accepts o msg with
      | .error e => .error e
      | .ok false =>
        (match offer msg os ss with
         | .ok (fl, k) => .ok (false :: fl, k)
         | .error e => .error e)
      | .ok true =>
        if o.inverted then .error "undesired output"
        else
          (match offer msg os ss with
           | .ok (fl, k) => .ok (true :: fl, k + 1)
           | .error e => .error e)

/-- run one step over the events; returns the remaining events when the step is done -/
def runStep (outs : List Output) : List Bool → Int → List Event → Except String (List Event)
  | _, _, [] => .error "timeout"            -- nothing more will arrive
  | _, _, .timeout :: _ => .error "timeout"
  | _, _, .eof :: _ => .error "EOF"
  | sat, need, .noise :: rest => runStep outs sat need rest
  | sat, need, .line v :: rest =>
    match offer v outs sat with
    | .error e => .error e
    | .ok (sat', k) =>
      let need' := need - (k : Int)
      if need' == 0 then .ok rest else runStep outs sat' need' rest

def needOf (outs : List Output) : Int := ((outs.filter (fun o => !o.inverted)).length : Int)

def verdict : List IOStep → List Event → Verdict
  | [], _ => .pass
  | st :: more, evs =>
    match runStep st.outputs (st.outputs.map (fun _ => false)) (needOf st.outputs) evs with
    | .error e => .fail e
    | .ok rest => verdict more rest

end Expect
