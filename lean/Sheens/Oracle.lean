import Sheens.MatchSpec

/-!
# Executable versions of the property conclusions (used on the *implementation's* outputs)

`satB` decides `Sat` by bounded search (fuel = structural depth; the array
embedding is searched by backtracking over picks).  `Sheens/Proofs/OracleSound`
proves `satB … = true → Sat …`.
-/

/-- all ways of removing one element -/
def picks {α : Type} : List α → List (α × List α)
  | [] => []
  | x :: xs => (x, xs) :: (picks xs).map (fun (y, ys) => (y, x :: ys))

mutual
def satB : Nat → Bs → Bs → V → V → Bool
  | 0, _, _, _, _ => false
  | n+1, bs₀, r, p, f =>
    match p with
    | .null => (match f with | .null => true | _ => false)
    | .bool a => (match f with | .bool b => a == b | _ => false)
    | .num a => (match f with | .num b => a == b | _ => false)
    | .str s =>
      if !isVar s then (match f with | .str t => s == t | _ => false)
      else if isAnon s then true
      else if ineqActive bs₀ r s f then
        match ineqOf s, lookup s bs₀, asNum f with
        | some (op, base), some bv, some a =>
          (match asNum bv, lookup base r with
           | some b, some cv => op.rel a b && (asNum cv == some a)
           | _, _ => false)
        | _, _, _ => false
      else
        match lookup s r with
        | some b => satB n bs₀ r b f
        | none => false
    | .obj pm =>
      (match f with
       | .obj fm =>
         match pm with
         | [] => true
         | [(k, pv)] =>
           if isVar k then fm.any (fun (fk, fv) => satB n bs₀ r (.str k) (.str fk) && satB n bs₀ r pv fv)
           else objSatB n bs₀ r pm fm
         | _ => objSatB n bs₀ r pm fm
       | _ => false)
    | .arr ps => (match f with | .arr fs => arrEmbB n bs₀ r ps fs | _ => false)
    | _ => false
def objSatB : Nat → Bs → Bs → List (String × V) → List (String × V) → Bool
  | 0, _, _, _, _ => false
  | _+1, _, _, [], _ => true
  | n+1, bs₀, r, (k, pv) :: rest, fm =>
    !isVar k &&
    (match lookup k fm with
     | some fv => satB n bs₀ r pv fv
     | none => isOptVar pv) && objSatB n bs₀ r rest fm
def arrEmbB : Nat → Bs → Bs → List V → List V → Bool
  | 0, _, _, _, _ => false
  | _+1, _, _, [], _ => true
  | n+1, bs₀, r, p :: ps, fs =>
    (picks fs).any (fun (f, fs') => satB n bs₀ r p f && arrEmbB n bs₀ r ps fs')
      || (isOptVar p && arrEmbB n bs₀ r ps fs)
end

def oracleFuel : Nat := 200

/-- `Extends bs₀ r`, executable: equality of values via canonical structure -/
partial def vEq : V → V → Bool
  | .null, .null => true
  | .bool a, .bool b => a == b
  | .num a, .num b => a == b
  | .str a, .str b => a == b
  | .int a, .int b => a == b
  | .other a, .other b => a == b
  | .arr xs, .arr ys => xs.length == ys.length && (xs.zip ys).all (fun (x, y) => vEq x y)
  | .obj a, .obj b => a.length == b.length && a.all (fun (k, v) => match lookup k b with | some w => vEq v w | none => false)
  | .bobj a, .bobj b => a.length == b.length && a.all (fun (k, v) => match lookup k b with | some w => vEq v w | none => false)
  | _, _ => false

def extendsB (bs₀ r : Bs) : Bool :=
  bs₀.all (fun (k, v) => match lookup k r with | some w => vEq v w | none => false)

/-- every key of `r` is given, a variable of the pattern, or a counterpart of one of its inequality variables -/
def onlyPatternVarsB (p : V) (bs₀ r : Bs) : Bool :=
  let vs := varsOf p
  let bases := ineqBases p
  r.all (fun (k, _) => (lookup k bs₀).isSome || vs.contains k || bases.contains k)

/-- the conclusion of `match_sound`, for one returned set -/
def soundOneB (p f : V) (bs₀ r : Bs) : Bool :=
  extendsB bs₀ r && onlyPatternVarsB p bs₀ r && satB oracleFuel bs₀ r p f

def soundB (p f : V) (bs₀ : Bs) (rs : List Bs) : Bool := rs.all (soundOneB p f bs₀)
