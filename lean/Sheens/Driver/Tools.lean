import Sheens.Driver.Common
import Sheens.Tools
import Sheens.GoRun
import Sheens.Gen.GoAst

/-! Driver op `tools`: analysis sets/counts and rendered node/edge structure. -/

open Lean Wire

namespace Driver

open Tools

def sortS (l : List String) : List String := l.toArray.qsort (· < ·) |>.toList

def tnodeOfJson (j : Json) : TNode :=
  { hasAction := getBool j "hasAction"
    actionInterp := match getObj? j "actionInterp" with | some (.str s) => some s | _ => none
    branches := match getObj? j "branches" with
      | some (.arr bs) => some (bs.toList.map (fun b =>
          { target := getStr b "target", hasGuard := getBool b "hasGuard",
            guardInterp := match getObj? b "guardInterp" with | some (.str s) => some s | _ => none }))
      | _ => none }

def analysisJson (a : Analysis) : Json :=
  Json.mkObj [("nodeCount", a.nodeCount), ("branches", a.branches), ("actions", a.actions), ("guards", a.guards),
              ("terminal", jstrs (sortS a.terminal)), ("orphans", jstrs (sortS a.orphans)),
              ("emptyTargets", jstrs (sortS a.emptyTargets)), ("missing", jstrs (sortS a.missing)),
              ("targetVars", jstrs (sortS a.targetVars)), ("interpreters", jstrs (sortS a.interpreters))]

def renderingJson (r : Rendering) : Json :=
  Json.mkObj [("nodes", jstrs (sortS r.nodes)),
              ("edges", Json.mkObj (r.edges.map (fun (f, ts) => (f, jstrs ts))))]

/-- the property on an observed rendering, stated independently of `render`: exactly one declaration
    per spec node, the other declarations are exactly the branch targets that are not spec nodes
    (missing or variable), once each; one edge per branch, in branch order per node -/
def faithful (s : TSpec) (j : Json) : Bool :=
  let nodes := (getArr j "nodes").filterMap (fun x => x.getStr?.toOption)
  let specNames := s.map (·.1)
  let extra := dedupS (((allBranches s).map (·.target)).filter (fun t => !hasNode s t))
  let once := fun (n : String) => (nodes.filter (· == n)).length == 1
  specNames.all once && extra.all once &&
    nodes.all (fun n => specNames.contains n || extra.contains n) &&
    s.all (fun (name, nd) =>
      let got : List String := match getObj? ((getObj? j "edges").getD .null) name with
        | some (.arr a) => a.toList.filterMap (fun x => x.getStr?.toOption)
        | _ => []
      got == (branchesOf nd).map (·.target))

/-- the translated `tools.Analyze` (regenerated from tools/analysis.go) on the same structural view -/
def trAnalysis (s : TSpec) : Json :=
  let nodes := s.map (fun (name, nd) =>
    (name, nd.hasAction, nd.actionInterp, nd.branches.map (fun bl => bl.map (fun b => (b.target, b.hasGuard, b.guardInterp)))))
  match Go.runAnalyze 1000000 Gen.GoAst.toolsProg nodes with
  | .error e => Json.mkObj [("error", e)]
  | .ok a =>
    Json.mkObj [("nodeCount", a.nodeCount), ("branches", a.branches), ("actions", a.actions), ("guards", a.guards),
                ("terminal", jstrs (sortS a.terminal)), ("orphans", jstrs (sortS a.orphans)),
                ("emptyTargets", jstrs (sortS a.emptyTargets)), ("missing", jstrs (sortS a.missing)),
                ("targetVars", jstrs (sortS a.targetVars)), ("interpreters", jstrs (sortS a.interpreters))]

def handleTools (j : Json) : Json :=
  let s : TSpec := match getObj? j "tspec" with
    | some (.obj m) => m.toList.map (fun (k, v) => (k, tnodeOfJson v))
    | _ => []
  let go := (getObj? j "go").getD .null
  let goPanic := (getObj? go "panic").isSome
  let a := analysisJson (analyze s)
  let ta := trAnalysis s
  let r := renderingJson (render s)
  let ga := (getObj? go "analysis").getD .null
  let gd := (getObj? go "dot").getD .null
  let gm := (getObj? go "mermaid").getD .null
  let corr := !goPanic && ga.compress == a.compress && gd.compress == r.compress && gm.compress == r.compress
  let props : List (String × Bool) :=
    if goPanic then [("total", false)]
    else [("total", true), ("analysisExact", ga.compress == a.compress), ("dotFaithful", faithful s gd), ("mermaidFaithful", faithful s gm)]
  let feats : List String :=
    (if !(analyze s).missing.isEmpty then ["missingTarget"] else []) ++
    (if !(analyze s).targetVars.isEmpty then ["variableTarget"] else []) ++
    (if !(analyze s).orphans.isEmpty then ["orphans"] else []) ++
    (if s.any (fun p => p.2.hasAction && p.2.actionInterp.isNone) then ["nativeAction"] else []) ++
    (if s.any (fun p => p.2.actionInterp.isSome) then ["sourceAction"] else []) ++
    (if (analyze s).guards > 0 then ["guards"] else []) ++
    (if s.any (fun p => match p.2.branches with | some [] => true | _ => false) then ["emptyBranchList"] else [])
  Json.mkObj [("corr", corr), ("tr", ta.compress == a.compress),
              ("trDiff", if ta.compress == a.compress then Json.null else Json.mkObj [("translated", ta), ("model", a)]),
              ("prop", boolsJson props), ("model", Json.mkObj [("analysis", a), ("render", r)]),
              ("feat", jstrs feats), ("nontrivial", decide (s.length > 1)),
              ("key", ((getObj? j "tspec").getD .null).compress)]

end Driver
