import Sheens.Driver.Common
import Sheens.ES
import Sheens.EngineOracle

/-! Driver ops `step` and `walk`: parse the DSL spec, run the model, print / compare the observation,
evaluate the property oracles on the implementation's observation. -/

open Lean Wire

namespace Driver

def opOfJson (j : Json) : Option Op :=
  match j with
  | .arr a =>
    let l := a.toList
    match l with
    | [.str "set", .str k, v] => some (.set k (toV v))
    | [.str "del", .str k] => some (.del k)
    | [.str "emit", v] => some (.emit (toV v))
    | [.str "emitb", .str k] => some (.emitb k)
    | [.str "inc", .str k] => some (.inc k)
    | [.str "fail", .str m] => some (.fail m)
    | [.str "iffail", .str k, .str m] => some (.iffail k m)
    | [.str "clear"] => some .clear
    | [.str "setnested", .str k, .str k2, v] => some (.setnested k k2 (toV v))
    | [.str "markdeep", .str k, .str k2, v] => some (.markdeep k k2 (toV v))
    | [.str "rejectUnless", .str k] => some (.rejectUnless k)
    | [.str "rejectIf", .str k, v] => some (.rejectIf k (toV v))
    | [.str "loop"] => some .loop
    | [.str "pollute"] => some .pollute
    | [.str "forin", .str k] => some (.forin k)
    | [.str "emitBad"] => some (.emitBad ":type")
    | [.str "emitBad", .str k] => some (.emitBad (":" ++ k))
    | _ => none
  | _ => none

def progOfJson (j : Json) : Prog :=
  { ops := (getArr j "ops").filterMap opOfJson
    ret := match getStr j "ret" with
      | "null" => .null | "nilexe" => .null | "scalar" => .scalar | "array" => .array | "fresh" => .fresh | "nan" => .bad ":nan" | "cyclic" => .bad ":cycle" | "getter" => .bad ":getter" | _ => .bs
    native := getStr j "lang" == "native"
    partialOnFail := getBool j "partial" }

def progOpt (j : Json) (k : String) : Option Prog :=
  match getObj? j k with
  | some .null => none
  | some x => some (progOfJson x)
  | none => none

def branchOfJson (j : Json) : Branch :=
  { pattern := getV? j "pattern"
    guard := (progOpt j "guard").map Prog.run
    target := getStr j "target" }

def nodeOfJson (j : Json) : Node :=
  { action := (progOpt j "action").map Prog.run
    hasSource := getBool j "uncompiledSource" || (match progOpt j "action" with | some p => !p.native | none => false)
    branches := match getObj? j "branching" with
      | some .null => none
      | some b => some { type := (let t := getStr b "type"; if t == "" then "bindings" else t),
                         branches := (getArr b "branches").map branchOfJson }
      | none => none }

def specOfJson (j : Json) : Spec :=
  let nodes : List (String × Node) :=
    match getObj? j "nodes" with
    | some (.obj m) => m.toList.map (fun (k, v) => (k, nodeOfJson v))
    | _ => []
  -- Compile adds the error node unless told otherwise
  let nodes := if (findNode "error" nodes).isNone && !(getBool j "noErrorNode")
    then nodes ++ [("error", { action := none, hasSource := false, branches := none })] else nodes
  { name := getStr j "name"
    nodes := nodes
    actionErrorBranches := getBool j "actionErrorBranches"
    actionErrorNode := getStr j "actionErrorNode"
    compiled := !(getBool j "uncompiled") }

def stateOfJson (j : Json) : State :=
  { node := getStr j "node"
    bs := match getObj? j "bs" with
      | some .null => none
      | some b => some (bsOfJson b)
      | none => none }

def stateToJson (st : State) : Json :=
  Json.mkObj [("node", .str st.node), ("bs", match st.bs with | none => .null | some b => ofV (.obj b))]

def strideToJson (s : Stride) : Json :=
  Json.mkObj [("from", stateToJson s.frm),
              ("to", match s.to with | none => .null | some t => stateToJson t),
              ("consumed", match s.consumed with | none => .null | some m => ofV m),
              ("emitted", .arr (s.emitted.map ofV).toArray)]

def stopStr : StopReason → String
  | .done => "Done" | .limited => "Limited" | .breakpoint => "BreakpointReached"

def walkedToJson (w : Walked) : Json :=
  Json.mkObj [("strides", .arr (w.strides.map strideToJson).toArray),
              ("remaining", .arr (w.remaining.map ofV).toArray),
              ("stopped", .str (stopStr w.stopped))]

def strideOfJson (j : Json) : Stride :=
  { frm := stateOfJson ((getObj? j "from").getD .null)
    to := match getObj? j "to" with | some .null => none | some t => some (stateOfJson t) | none => none
    consumed := getV? j "consumed"
    emitted := (getArr j "emitted").map toV }

def walkedOfJson (j : Json) : Walked :=
  { strides := (getArr j "strides").map strideOfJson
    remaining := (getArr j "remaining").map toV
    stopped := match getStr j "stopped" with | "Limited" => .limited | "BreakpointReached" => .breakpoint | _ => .done }

def stepOutToJson (specName : String) (o : StepOut) : Json :=
  Json.mkObj [("stride", match o.stride with | none => .null | some s => strideToJson s),
              ("err", match o.err with | none => .null | some e => .str (errText specName e))]


def handleWalk (j : Json) : Json :=
  let spec := specOfJson ((getObj? j "spec").getD .null)
  let st := stateOfJson ((getObj? j "st").getD .null)
  let msgs := (getArr j "msgs").map toV
  let limit := getInt? j "limit"
  let bpNodes := (getArr j "bp").filterMap (fun x => x.getStr?.toOption)
  let bp : State → Bool := fun s => bpNodes.contains s.node
  let w := walk spec st msgs limit bp
  let mine := walkedToJson w
  let go := (getObj? j "go").getD .null
  let goPanic := (getObj? go "panic").isSome
  let corr := !goPanic && (normJson go).compress == (normJson mine).compress
  let gw := walkedOfJson go
  let lim : Nat := (match limit with | none => defaultLimit | some l => l).toNat
  let props : List (String × Bool) :=
    if goPanic then [("total", false)]
    else [("total", true)] ++ walkOracles spec st msgs lim gw
  let feats := walkFeatures spec st msgs w
  Json.mkObj [("corr", corr), ("prop", boolsJson props), ("model", mine),
              ("feat", jstrs feats), ("nontrivial", decide (w.strides.length > 1) || feats.contains "action"),
              ("key", (Json.mkObj [("spec", (getObj? j "spec").getD .null), ("st", (getObj? j "st").getD .null),
                                   ("msgs", (getObj? j "msgs").getD .null), ("limit", (getObj? j "limit").getD .null)]).compress)]

def handleStep (j : Json) : Json :=
  let spec := specOfJson ((getObj? j "spec").getD .null)
  let st := stateOfJson ((getObj? j "st").getD .null)
  let pending := getV? j "pending"
  let o := step spec st pending
  let mine := stepOutToJson spec.name o
  let go := (getObj? j "go").getD .null
  let goPanic := (getObj? go "panic").isSome
  let corr := !goPanic && (normJson go).compress == (normJson mine).compress
  let gstride : Option Stride := match getObj? go "stride" with
    | some .null => none | some s => some (strideOfJson s) | none => none
  let gerr : Option String := match getObj? go "err" with | some (.str e) => some e | _ => none
  let props : List (String × Bool) :=
    if goPanic then [("total", false)]
    else [("total", true)] ++ stepOracles spec st pending gstride gerr
  let feats := stepFeatures spec st pending o
  Json.mkObj [("corr", corr), ("prop", boolsJson props), ("model", mine),
              ("feat", jstrs feats), ("nontrivial", !feats.isEmpty),
              ("key", (Json.mkObj [("spec", (getObj? j "spec").getD .null), ("st", (getObj? j "st").getD .null),
                                   ("pending", (getObj? j "pending").getD .null)]).compress)]

end Driver
