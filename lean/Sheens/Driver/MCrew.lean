import Sheens.Driver.Crew
import Sheens.MCrew

/-! Driver op `mcrew`: replay an operation sequence (with store failures) against the model of the
mcrew service; compare per-operation results, memory and store; evaluate the C16 conclusions on the
implementation's observations. -/

open Lean Wire

namespace Driver

open MCrew

def recViewJson (l : List (String × Rec)) : Json :=
  Json.mkObj (l.map (fun (mid, r) => (mid, Json.mkObj [("spec", .str r.spec), ("state", stateToJson r.state)])))

def resStr : Res → String
  | .ok => "ok" | .exists_ => "exists" | .writeFailed => "writeFailed" | .specError => "specError"

def mcrewOpOfJson (j : Json) : Option MCrew.Op :=
  match getStr j "op" with
  | "add" => some (.add (getStr j "spec") (getStr j "id") (getStr j "node")
      (match getObj? j "bs" with | some .null => none | some b => some (bsOfJson b) | none => none))
  | "rem" => some (.rem (getStr j "id"))
  | "process" => some (.process (getV j "msg"))
  | "storeDown" => some .storeDown
  | "storeUp" => some .storeUp
  | _ => none

def handleMCrew (j : Json) : Json :=
  let specsJ := (getObj? j "specs").getD (Json.mkObj [])
  let specTable : List (String × Spec) :=
    match specsJ with
    | .obj m => m.toList.map (fun (k, v) => (k, specOfJson v))
    | _ => []
  let specs : String → Option Spec := fun n => Sio.find n specTable
  let ops := (getArr j "ops").filterMap mcrewOpOfJson
  let run := ops.foldl (fun (acc : Svc × List Json) op =>
      let (s', r) := step specs none acc.1 op
      (s', acc.2 ++ [Json.mkObj [("res", .str (resStr r)), ("mem", recViewJson s'.mem), ("store", recViewJson s'.store)]]))
    (MCrew.init, [])
  let mine := Json.arr run.2.toArray
  let go := (getObj? j "go").getD .null
  let goSteps := getArr go "steps"
  let corr := (getObj? go "panic").isNone && (normJson (Json.arr goSteps.toArray)).compress == (normJson mine).compress
  -- C16 on the implementation's observations
  let memEqStore := goSteps.all (fun o => (normJson ((getObj? o "mem").getD .null)).compress == (normJson ((getObj? o "store").getD .null)).compress)
  let pairs := (List.range goSteps.length).map (fun i => (i, goSteps[i]!))
  let failedIsNoop := pairs.all (fun (i, o) =>
    if getStr o "res" != "ok" && i > 0 then
      (normJson ((getObj? o "mem").getD .null)).compress == (normJson ((getObj? goSteps[i-1]! "mem").getD .null)).compress
    else true)
  let feats : List String :=
    (if ops.any (fun o => match o with | .storeDown => true | _ => false) then ["storeFails"] else []) ++
    (if run.2.any (fun o => getStr o "res" == "writeFailed") then ["writeFailed"] else []) ++
    (if run.2.any (fun o => getStr o "res" == "exists") then ["exists"] else []) ++
    (if ops.any (fun o => match o with | .rem _ => true | _ => false) then ["rem"] else []) ++
    (if ops.any (fun o => match o with | .process _ => true | _ => false) then ["process"] else [])
  Json.mkObj [("corr", corr), ("prop", boolsJson [("memEqStore", memEqStore), ("failedIsNoop", failedIsNoop)]),
              ("model", mine), ("feat", jstrs feats), ("nontrivial", decide (ops.length > 2)),
              ("key", (Json.mkObj [("specs", specsJ), ("ops", (getObj? j "ops").getD .null)]).compress)]

end Driver
