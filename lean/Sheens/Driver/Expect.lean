import Sheens.Driver.Engine
import Sheens.Expect

/-! Driver op `expect`: the verdict of a session over a scripted line stream. -/

open Lean Wire

namespace Driver

open Expect

def outputOfJson (j : Json) : Output :=
  { pattern := getV j "pattern", guard := (progOpt j "guard").map Prog.run, inverted := getBool j "inverted" }

def eventOfJson (j : Json) : Event :=
  match getObj? j "json" with
  | some v => .line (toV v)
  | none => .noise

/-- declarative soundness condition, independent of the fold: the JSON lines can be cut into
    consecutive chunks, one per step, such that in every chunk each expected output accepts some
    line and no forbidden output accepts any line -/
def chunkOk (st : IOStep) (chunk : List V) : Bool :=
  st.outputs.all (fun o =>
    if o.inverted then chunk.all (fun l => match accepts o l with | .ok true => false | _ => true)
    else chunk.any (fun l => match accepts o l with | .ok true => true | _ => false))

def segmentable : List IOStep → List V → Bool
  | [], _ => true
  | st :: more, lines =>
    (List.range (lines.length + 1)).any (fun k => chunkOk st (lines.take k) && segmentable more (lines.drop k))

def handleExpect (j : Json) : Json :=
  let steps : List IOStep := (getArr j "steps").map (fun s => { outputs := (getArr s "outputs").map outputOfJson })
  let evs := (getArr j "lines").map eventOfJson ++ [if getStr j "end" == "eof" then Event.eof else Event.timeout]
  let v := verdict steps evs
  let mine := match v with | .pass => "pass" | .fail _ => "fail"
  let go := getStr j "go"
  let corr := go == mine
  let lines := evs.filterMap (fun e => match e with | .line x => some x | _ => none)
  -- (a tool that dies on the session has given no verdict at all: "crash" is neither pass nor fail)
  let sound := if go == "pass" then segmentable steps lines else go != "crash"
  -- the dangerous direction, step by step: the tool passed a session which, with every step ending
  -- at the line that completes it (the tool's documented reading of the stream), has a step whose
  -- expected output never came or whose forbidden output did
  let noFalsePass := !(go == "pass" && mine == "fail")
  let feats : List String :=
    (if mine == "pass" then ["pass"] else ["fail"]) ++
    (if steps.any (fun s => s.outputs.any (·.inverted)) then ["inverted"] else []) ++
    (if steps.any (fun s => s.outputs.any (·.guard.isSome)) then ["guard"] else []) ++
    (if evs.any (fun e => match e with | .noise => true | _ => false) then ["noise"] else []) ++
    (if decide (steps.length > 1) then ["multiStep"] else []) ++
    (match v with | .fail w => ["fail:" ++ w] | _ => [])
  Json.mkObj [("corr", corr), ("prop", boolsJson [("verdictSound", sound), ("noFalsePass", noFalsePass)]), ("model", .str mine),
              ("feat", jstrs feats), ("nontrivial", decide (lines.length > 0)),
              ("key", (Json.mkObj [("steps", (getObj? j "steps").getD .null), ("lines", (getObj? j "lines").getD .null),
                                   ("end", (getObj? j "end").getD .null)]).compress)]

end Driver
