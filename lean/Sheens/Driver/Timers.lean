import Sheens.Driver.Common
import Sheens.Timers

/-! Driver op `timers`: the event log of a scripted scenario run against a real timer service is
replayed on the transition system of `Sheens/Timers.lean` (trace inclusion): every request result,
every firing and every reported pending set must be possible in the model; the trace invariants
(C17) are evaluated on the resulting model state, timing against the recorded timestamps. -/

open Lean Wire

namespace Driver

open Timers

structure TEv where
  kind  : String
  id    : String
  delay : Nat
  tag   : Nat
  res   : String
  at_   : Nat
  t     : Nat
  ids   : List String

def tevOfJson (j : Json) : TEv :=
  { kind := getStr j "ev", id := getStr j "id", delay := getNat j "delay", tag := getNat j "tag",
    res := getStr j "res", at_ := getNat j "at", t := getNat j "t",
    ids := (getArr j "ids").filterMap (fun x => x.getStr?.toOption) }

structure TSim where
  st      : St
  tags    : List (Nat × Gen)      -- message tag ↦ generation
  applied : List Gen              -- firings already applied by look-ahead
  ok      : Bool                  -- the log is accepted so far
  why     : List String

def genOfTag (tags : List (Nat × Gen)) (tag : Nat) : Option Gen := (tags.find? (fun p => p.1 == tag)).map (·.2)
def tagOfGen (tags : List (Nat × Gen)) (g : Gen) : Option Nat := (tags.find? (fun p => p.2 == g)).map (·.1)

def advance (s : St) (t : Nat) : St := { s with now := max s.now t }

/-- a firing of generation `g` appears later in the log -/
def firesLater (tags : List (Nat × Gen)) (g : Gen) (rest : List TEv) : Option TEv :=
  match tagOfGen tags g with
  | some tag => rest.find? (fun e => e.kind == "fire" && e.tag == tag)
  | none => none

/-- apply the firing of `g` now (it really happened before the request being replayed: the entry was
    removed under the lock, the handler's log line came later) -/
def applyFire (rep : Bool) (sim : TSim) (g : Gen) (t : Nat) : TSim :=
  match step rep (advance sim.st t) (.due g) with
  | some s' =>
    if (s'.fired.map (·.1)).contains g && !(sim.st.fired.map (·.1)).contains g then
      { sim with st := s', applied := g :: sim.applied }
    else { sim with st := s', ok := false, why := sim.why ++ ["firing of a timer that no longer stands"] }
  | none => { sim with ok := false, why := sim.why ++ ["firing not enabled (early, double or unknown)"] }

def replayEv (rep : Bool) (sim : TSim) (e : TEv) (rest : List TEv) : TSim :=
  match e.kind with
  | "add" =>
    let sim0 := { sim with st := advance sim.st e.at_ }
    let cur := lookupT e.id sim0.st.table
    -- an entry that the log shows firing later may already have been removed
    let sim1 := match cur with
      | some g =>
        (match firesLater sim0.tags g rest with
         | some _ => if e.res == "ok" then applyFire rep sim0 g e.at_ else sim0
         | none => sim0)
      | none => sim0
    let expected := match lookupT e.id sim1.st.table with
      | none => "ok"
      | some _ => if rep then "ok" else "exists"
    if e.res != expected then { sim1 with ok := false, why := sim1.why ++ ["add " ++ e.id ++ ": " ++ e.res ++ " but model says " ++ expected] }
    else if e.res == "ok" then
      let g := sim1.st.nextGen
      match step rep sim1.st (.add e.id e.delay) with
      | some s' => { sim1 with st := s', tags := (e.tag, g) :: sim1.tags }
      | none => { sim1 with ok := false, why := sim1.why ++ ["add refused by model"] }
    else sim1
  | "rem" =>
    let sim0 := { sim with st := advance sim.st e.t }
    let sim1 := match lookupT e.id sim0.st.table with
      | some g =>
        if e.res == "notfound" then
          (match firesLater sim0.tags g rest with
           | some _ => applyFire rep sim0 g e.t
           | none => sim0)
        else sim0
      | none => sim0
    let expected := match lookupT e.id sim1.st.table with | none => "notfound" | some _ => "ok"
    if e.res != expected then { sim1 with ok := false, why := sim1.why ++ ["rem " ++ e.id ++ ": " ++ e.res ++ " but model says " ++ expected] }
    else if e.res == "ok" then
      match step rep sim1.st (.rem e.id) with
      | some s' => { sim1 with st := s' }
      | none => sim1
    else sim1
  | "fire" =>
    match genOfTag sim.tags e.tag with
    | none => { sim with ok := false, why := sim.why ++ ["firing of an unknown message"] }
    | some g =>
      if sim.applied.contains g then { sim with applied := sim.applied.erase g }
      else
        let sim' := applyFire rep sim g e.t
        { sim' with applied := sim'.applied.erase g }
  | "pending" =>
    let sim00 := { sim with st := advance sim.st e.t }
    -- an entry the reader no longer saw and that the log shows firing later was already removed
    -- (under the lock) when the table was read; its handler's log line came afterwards
    let sim0 := sim00.st.table.foldl (fun s idg =>
        if e.ids.contains idg.1 then s
        else match firesLater s.tags idg.2 rest with
          | some _ => applyFire rep s idg.2 e.t
          | none => s) sim00
    let mine := (sim0.st.table.map (·.1)).toArray.qsort (· < ·) |>.toList
    if mine == e.ids then sim0
    else { sim0 with ok := false, why := sim0.why ++ ["pending set " ++ toString e.ids ++ " but model has " ++ toString mine] }
  | "restart" => { sim with st := restart (advance sim.st e.t) }
  | _ => sim

def replayLog (rep : Bool) : TSim → List TEv → TSim
  | sim, [] => sim
  | sim, e :: rest => replayLog rep (replayEv rep sim e rest) rest

def handleTimers (j : Json) : Json :=
  let rep := getStr j "impl" == "sio"
  let go := (getObj? j "go").getD .null
  let evs := (getArr go "events").map tevOfJson
  let sim := replayLog rep { st := St.init, tags := [], applied := [], ok := true, why := [] } evs
  let s := sim.st
  let endT := (evs.map (·.t)).foldl max 0
  -- every accepted timer that was not cancelled and whose due time is well past has fired
  let noMissed := s.procs.all (fun p =>
    s.cancelled.contains p.gen || (s.fired.map (·.1)).contains p.gen || p.due + 60000 > endT || !s.accepted.contains p.gen)
  let goPanic := (getObj? go "panic").isSome
  -- the scenario came to an end: no request and no firing blocked for good
  let responsive := (getObj? go "hang").isNone
  let props : List (String × Bool) :=
    [("logAccepted", sim.ok && !goPanic), ("firedOnce", firedOnce s), ("neverEarly", neverEarly s), ("neverBoth", neverBoth s),
     ("tableIsPending", tableIsPending s), ("tableLive", tableLive s), ("noMissedFire", noMissed && responsive),
     ("responsive", responsive)]
  let feats : List String :=
    (if evs.any (fun e => e.kind == "fire") then ["fire"] else []) ++
    (if evs.any (fun e => e.kind == "rem" && e.res == "ok") then ["cancel"] else []) ++
    (if evs.any (fun e => e.kind == "add" && e.res == "exists") then ["exists"] else []) ++
    (if !s.cancelled.isEmpty && rep then ["replaceOrCancel"] else []) ++
    (if evs.any (fun e => e.kind == "restart") then ["restart"] else []) ++
    (if getStr j "profile" == "race" then ["race"] else []) ++
    (if (match getObj? j "onFire" with | some (.obj m) => !m.isEmpty | _ => false) then ["handlerRequests"] else [])
  Json.mkObj [("corr", sim.ok && !goPanic && responsive), ("prop", boolsJson props), ("why", jstrs sim.why),
              ("feat", jstrs feats), ("nontrivial", evs.any (fun e => e.kind == "fire" || e.res == "ok")),
              ("key", (Json.mkObj [("impl", (getObj? j "impl").getD .null), ("script", (getObj? j "script").getD .null),
                                   ("onFire", (getObj? j "onFire").getD .null)]).compress)]

end Driver
