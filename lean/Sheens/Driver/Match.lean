import Sheens.Driver.Common
import Sheens.Oracle
import Sheens.GoRun
import Sheens.Gen.GoAst

/-! Driver op `match`: model outcomes over all key orders, comparison with the
implementation's outcomes, and the property oracles evaluated on the
implementation's outputs. -/

open Lean Wire

namespace Driver

partial def anyStr (pred : String → Bool) : V → Bool
  | .str s => pred s
  | .arr xs => xs.any (anyStr pred)
  | .obj kvs => kvs.any (fun (k, v) => pred k || anyStr pred v)
  | .bobj kvs => kvs.any (fun (k, v) => pred k || anyStr pred v)
  | _ => false

partial def anyNode (pred : V → Bool) (v : V) : Bool :=
  pred v || (match v with
    | .arr xs => xs.any (anyNode pred)
    | .obj kvs => kvs.any (fun (_, x) => anyNode pred x)
    | .bobj kvs => kvs.any (fun (_, x) => anyNode pred x)
    | _ => false)

def isStructured : V → Bool
  | .arr _ | .obj _ | .bobj _ => true
  | _ => false

/-- which arms of the model a case aims at (for the measured distribution) -/
def matchFeatures (p f : V) (bs : Bs) (outs : List MRes) : List String :=
  let vs := varsOf p
  let feats : List (String × Bool) := [
    ("var", !vs.isEmpty),
    ("boundVar", vs.any (fun v => (lookup v bs).isSome)),
    ("boundStructured", vs.any (fun v => match lookup v bs with | some b => isStructured b | none => false)),
    ("repeatedVar", vs.any (fun v => (vs.filter (· == v)).length > 1 && v != "?")),
    ("anon", vs.contains "?"),
    ("optVar", vs.any (fun v => isOptVar (.str v))),
    ("ineq", vs.any (fun v => (ineqOf v).isSome && (lookup v bs).isSome)),
    ("arr", anyNode (fun x => match x with | .arr _ => true | _ => false) p),
    ("arrVar", anyNode (fun x => match x with | .arr xs => xs.any (fun e => match e with | .str s => isVar s | _ => false) | _ => false) p),
    ("arrStruct", anyNode (fun x => match x with | .arr xs => xs.any isStructured | _ => false) p),
    ("obj", anyNode (fun x => match x with | .obj (_ :: _) => true | _ => false) p),
    ("propVar", anyNode (fun x => match x with | .obj kvs => kvs.any (fun kv => isVar kv.1) | _ => false) p),
    ("multi", outs.any (fun o => match o with | .ok l => l.length > 1 | _ => false)),
    ("nomatch", outs.any (fun o => match o with | .ok [] => true | _ => false)),
    ("matched", outs.any (fun o => match o with | .ok (_ :: _) => true | _ => false)),
    ("err", outs.any (fun o => match o with | .err _ => true | _ => false)),
    ("diverge", outs.any (fun o => match o with | .diverge => true | _ => false))]
  feats.filterMap (fun (n, b) => if b then some n else none)

/-- parse one implementation outcome -/
def goOutcome (j : Json) : String × Option (List Bs) :=
  match getObj? j "res" with
  | some (.arr xs) =>
    let bss := xs.toList.map bsOfJson
    ("ok:" ++ toString (canonBss bss), some bss)
  | some .null => ("ok:" ++ toString (canonBss []), some [])
  | _ =>
    match getObj? j "err" with
    | some (.str e) => ("err:" ++ e, none)
    | _ => if (getObj? j "crash").isSome then ("diverge", none) else ("?", none)

def variantCap : Nat := 720

/-- how many key orders of a case the translated matcher is run on -/
def trVariants : Nat := 12

def trFuel : Nat := 1000000

/-- outcome of the *translated* matcher (the program `go2lean` regenerated from match/match.go, run by
    the interpreter of `GoSem.lean`) in the vocabulary of `outcomeStr` -/
def trOutcome (r : Go.RunRes) : String :=
  match r with
  | .ok bss => "ok:" ++ toString (canonBss bss)
  | .err t =>
    if t.startsWith "can't have a variable as a key" then "err:badPropVar"
    else if t.startsWith "multiple variables" then "err:multiVar"
    else if t.startsWith "repeated variables" then "err:repeatedVar"
    else if t == "UnknownPatternType" then "err:unknownPatternType"
    else "err:" ++ t
  | .fail .fuel => "diverge"
  | .fail (.panic m) => "panic:" ++ m
  | .fail (.stuck m) => "stuck:" ++ m

def handleMatch (j : Json) : Json :=
  let p := getV j "p"
  let f := getV j "f"
  let bs := bsOfJson ((getObj? j "bs").getD (Json.mkObj []))
  let pvs := variants variantCap p
  let capped : Bool := decide (pvs.length ≥ variantCap)
  let outs := pvs.map (fun p' => matchTop p' f bs)
  let modelSet := dedupStr (outs.map outcomeStr)
  let gos := (getArr j "go").map goOutcome
  let goSet := dedupStr (gos.map (·.1))
  let corrOk := goSet.all (fun g => modelSet.contains g)
  -- property oracles on the implementation's outputs
  let inDomain := !(anyStr isVar f) && bs.all (fun (_, v) => !(anyStr isVar v))
  let soundOk := gos.all (fun (_, r) => match r with | some rs => soundB p f bs rs | none => true)
  let detOk : Bool := decide (goSet.length ≤ 1)
  let modelDet : Bool := decide (modelSet.length ≤ 1)
  let plantedOk :=
    match getObj? j "planted" with
    | some pl =>
      let want := canonBs (bsOfJson pl)
      gos.all (fun (_, r) => match r with | some rs => (rs.map canonBs).contains want | none => false)
    | none => true
  -- C07: the call returned (a result or an error): it neither killed the process nor panicked
  let totalOk := (getArr j "go").all (fun g => (getObj? g "crash").isNone && (getObj? g "panic").isNone)
  -- the translated matcher against the hand-written model, key order by key order
  let trDiffs := (pvs.take trVariants).filterMap (fun p' =>
    let m := outcomeStr (matchTop p' f bs)
    let t := trOutcome (Go.runMatch trFuel Gen.GoAst.matchProg p' f bs)
    if m == t then none else some (Json.mkObj [("p", ofV p'), ("model", m), ("translated", t)]))
  let feats := matchFeatures p f bs outs
  let nontrivial := feats.any (fun s => s == "var" || s == "arr" || s == "obj")
  Json.mkObj [
    ("corr", corrOk), ("tr", trDiffs.isEmpty), ("trDiff", (trDiffs.head?).getD Json.null), ("capped", capped), ("inDomain", inDomain),
    ("sound", soundOk), ("det", detOk), ("modelDet", modelDet), ("planted", plantedOk),
    ("model", jstrs modelSet), ("go", jstrs goSet),
    ("feat", jstrs feats), ("nontrivial", nontrivial),
    ("prop", boolsJson [("total", totalOk)]),
    ("key", canonStr (.arr [p, f, .obj bs]))]

end Driver
