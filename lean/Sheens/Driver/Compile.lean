import Sheens.Driver.Common
import Sheens.Compile

/-! Driver op `compile`: compile a specification document with the model and compare outcome and
compiled structure with the implementation. -/

open Lean Wire

namespace Driver

open Compile

def jsonCodec : Codec :=
  { marshal := fun v => some (canonStr v)
    unmarshal := fun s => match Json.parse s with | .ok j => some (toV j) | .error _ => none }

def sourceOf (j : Json) : Option Source :=
  match j with
  | .obj _ => some { interpreter := getStr j "interpreter", source := getStr j "source" }
  | _ => none

def rawBranchOf (j : Json) : Option RawBranch :=
  match j with
  | .null => none
  | _ => some { pattern := getV? j "pattern", guard := (getObj? j "guard").bind sourceOf, target := getStr j "target" }

def rawNodeOf (j : Json) : Option RawNode :=
  match j with
  | .null => none
  | _ => some { action := (getObj? j "action").bind sourceOf
                branching := match getObj? j "branching" with
                  | some .null => none
                  | some b => some { type := getStr b "type", branches := (getArr b "branches").map rawBranchOf }
                  | none => none }

def rawSpecOf (j : Json) : RawSpec :=
  { name := getStr j "name"
    nodes := match getObj? j "nodes" with
      | some (.obj m) => some (m.toList.map (fun (k, v) => (k, rawNodeOf v)))
      | _ => none
    patternSyntax := getStr j "patternSyntax"
    errorNode := getStr j "errorNode"
    noAutoErrorNode := getBool j "noErrorNode"
    actionErrorBranches := getBool j "actionErrorBranches"
    actionErrorNode := getStr j "actionErrorNode" }

def errClassC : CompileErr → String
  | .badPatternText => "badPatternText"
  | .badSyntax _ => "badSyntax"
  | .notSerialisable => "notSerialisable"
  | .interpreterNotFound => "interpreterNotFound"
  | .badSource => "badSource"
  | .unknownBranchingType _ => "unknownBranchingType"
  | .nullBranch => "nullBranch"

def cspecJson (cs : CSpec) : Json :=
  Json.mkObj (cs.nodes.map (fun (n, nd) =>
    (n, Json.mkObj [("action", nd.action.isSome),
                    ("branching", match nd.branches with
                      | none => Json.null
                      | some (ty, bs) => Json.mkObj [("type", .str ty),
                          ("branches", .arr (bs.map (fun b => Json.mkObj [
                            ("pattern", match b.pattern with | some p => ofV p | none => .null),
                            ("guard", b.guard.isSome), ("target", .str b.target)])).toArray)])])))

def handleCompile (j : Json) : Json :=
  let doc := (getObj? j "doc").getD .null
  let raw := rawSpecOf doc
  let known := fun (i : String) => i == "ecmascript"
  let srcOk := fun (s : Source) => (s.source.splitOn "SYNTAX ERROR").length == 1
  let res := compile jsonCodec known srcOk raw
  let mine : Json := match res with
    | .ok cs => Json.mkObj [("ok", cspecJson cs)]
    | .error e => Json.mkObj [("err", .str (errClassC e))]
  let go := (getObj? j "go").getD .null
  let goPanic := (getObj? go "panic").isSome
  let goDoc := (getObj? go "doc").getD .null
  let corr := !goPanic && (normJson goDoc).compress == (normJson mine).compress
  -- idempotence in the model, evaluated on this document (a test; the theorem is Sheens.C13.compile_idempotent)
  let idem := match res with
    | .ok cs => (match compile jsonCodec known srcOk (decompile cs) with
                 | .ok cs2 => (cspecJson cs2).compress == (cspecJson cs).compress
                 | .error _ => false)
    | .error _ => true
  -- C13 on the implementation's outcome: a document with an unknown interpreter, an unknown branching
  -- type or an unknown pattern syntax is rejected (with whatever error)
  let mustReject := match res with
    | .error .interpreterNotFound => true
    | .error (.unknownBranchingType _) => true
    | .error (.badSyntax _) => true
    | _ => false
  let rejects := !mustReject || goPanic || (getObj? goDoc "err").isSome
  let feats : List String :=
    (match res with | .ok _ => ["compiles"] | .error e => ["err:" ++ errClassC e]) ++
    (if raw.patternSyntax == "json" then ["jsonSyntax"] else []) ++
    (if (raw.nodes.getD []).any (fun p => p.2.isNone) then ["nullNode"] else [])
  Json.mkObj [("corr", corr), ("prop", boolsJson [("total", !goPanic), ("modelIdempotent", idem), ("rejectsUnknown", rejects)]),
              ("model", mine), ("feat", jstrs feats), ("nontrivial", decide ((raw.nodes.getD []).length > 1)),
              ("key", doc.compress)]

end Driver
