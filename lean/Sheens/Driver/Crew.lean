import Sheens.Driver.Engine
import Sheens.SioCrew
import Sheens.GoRun
import Sheens.Gen.GoAst

/-! Driver op `crew`: replay a history of messages against the model of the sio crew, compare the
per-message observations (reported changes, emitted multiset, live view), evaluate the C14/C15
conclusions on the implementation's observations. -/

open Lean Wire

namespace Driver

open Sio

def srcName (v : Option V) : Json :=
  match v with
  | some (.str s) => .str s
  | _ => .null

def optStateJson : Option State → Json
  | none => .null
  | some s => stateToJson s

def changedJson (l : List (String × Changed)) : Json :=
  Json.mkObj (l.map (fun (mid, ch) =>
    (mid, Json.mkObj [("state", optStateJson ch.state), ("src", srcName ch.src), ("deleted", ch.deleted)])))

def viewJson (l : List (String × State × Option V)) : Json :=
  Json.mkObj (l.map (fun (mid, st, src) => (mid, Json.mkObj [("state", stateToJson st), ("src", srcName src)])))

def sortedTexts (l : List V) : Json :=
  .arr ((l.map canonStr).toArray.qsort (· < ·) |>.map Json.str)

def sameChanged (a b : Changed) : Bool :=
  (optStateJson a.state).compress == (optStateJson b.state).compress &&
    (srcName a.src).compress == (srcName b.src).compress

/-- `AsCrewOp` on a message: `update` (object of machines) and `delete` (list of ids) -/
def asCrewOp (msg : V) : Option CrewOp :=
  match msg with
  | .obj kvs =>
    let upd : Option (List (String × Option V × Option State)) :=
      match lookup "update" kvs with
      | some (.obj ms) => some (ms.map (fun (mid, m) =>
          match m with
          | .obj fields =>
            let src : Option V :=
              match lookup "spec" fields with
              | some (.obj sf) =>
                (match lookup "inline" sf with
                 | some (.obj inl) => (match lookup "name" inl with | some (.str n) => some (.str n) | _ => some (.str ""))
                 | _ => some (.str ""))
              | _ => none
            let st : Option State :=
              match lookup "state" fields with
              | some (.obj sf) =>
                some { node := (match lookup "node" sf with | some (.str n) => n | _ => ""),
                       bs := (match lookup "bs" sf with | some (.obj b) => some b | _ => none) }
              | _ => none
            (mid, src, st)
          | _ => (mid, none, none)))
      | _ => none
    let dels : Option (List String) :=
      match lookup "delete" kvs with
      | some (.arr xs) => some (xs.filterMap (fun x => match x with | .str s => some s | _ => none))
      | _ => none
    if upd.isNone && dels.isNone then none
    else some { update := upd.getD [], delete := dels.getD [] }
  | _ => none

def handleCrew (j : Json) : Json :=
  let specsJ := (getObj? j "specs").getD (Json.mkObj [])
  let specTable : List (String × Spec) :=
    match specsJ with
    | .obj m => m.toList.map (fun (k, v) => (k, specOfJson v))
    | _ => []
  let resolve : V → Option Spec := fun v =>
    match v with
    | .str n => find n specTable
    | _ => none
  let limit := getInt? j "limit"
  let c0 : Crew := { machines := [(captainId, { spec := none, src := none, state := defaultState none }),
                                  (timersId, { spec := none, src := none, state := defaultState none })],
                     changed := [], previous := [], limit := limit }
  let initJ := (getObj? j "init").getD (Json.mkObj [])
  let c1 : Crew :=
    match initJ with
    | .obj m => m.toList.foldl (fun c (mid, mj) =>
        let src : Option V := match getObj? mj "spec" with | some (.str n) => some (.str n) | _ => none
        let st : Option State := match getObj? mj "state" with | some .null => none | some s => some (stateOfJson s) | none => none
        setMachine resolve c mid src st) c0
    | _ => c0
  -- the initial SetMachine calls are reported with the first message
  let history := (getArr j "history").map toV
  let run := history.foldl
    (fun (acc : Option (Crew × List (String × Stored)) × List Json) msg =>
      match acc.1 with
      | none => acc
      | some (c, store) =>
        match processMsg resolve asCrewOp sameChanged 4000 c msg with
        | none => (none, acc.2 ++ [Json.mkObj [("diverged", true)]])
        | some (c', r) =>
          let store' := applyChanges store r.changed
          let obs := Json.mkObj [("changed", changedJson r.changed),
                                 ("emitted", sortedTexts r.emitted.flatten),
                                 ("batches", sortedTexts ((r.emitted.filter (fun b => !b.isEmpty)).map V.arr)),
                                 ("live", viewJson (liveView c')),
                                 ("store", viewJson (storeView store'))]
          (some (c', store'), acc.2 ++ [obs]))
    (some (c1, []), [])
  -- Tie C: the routing functions regenerated from sio/crew.go against the model's `toMachines`, on
  -- every message of the history with the crew as the model has it at that point (same order of
  -- machines on both sides, so the lists are compared as they are)
  let routeDiffs : List Json := (history.foldl
    (fun (acc : Option Crew × List Json) msg =>
      match acc.1 with
      | none => acc
      | some c =>
        let ids := c.machines.map (·.1)
        let mine := toMachines c msg
        let d : List Json := match Go.runToMachines 100000 Gen.GoAst.sioCrewProg ids msg with
          | .ok tr => if tr == mine then [] else [Json.mkObj [("msg", ofV msg), ("translated", jstrs tr), ("model", jstrs mine)]]
          | .error e => [Json.mkObj [("msg", ofV msg), ("translated", Json.str ("error:" ++ e)), ("model", jstrs mine)]]
        ((processMsg resolve asCrewOp sameChanged 4000 c msg).map (·.1), acc.2 ++ d))
    (some c1, [])).2
  let mine := Json.arr run.2.toArray
  let go := (getObj? j "go").getD .null
  let goSteps := getArr go "steps"
  let strip := fun (o : Json) => Json.mkObj [("changed", (getObj? o "changed").getD .null),
                                             ("emitted", (getObj? o "emitted").getD .null),
                                             ("live", (getObj? o "live").getD .null)]
  let corr := (getObj? go "panic").isNone &&
    (normJson (Json.arr (goSteps.map strip).toArray)).compress == (normJson (Json.arr (run.2.map strip).toArray)).compress
  -- C08 on the implementation's observations: where the crews agree on every machine's state, the
  -- reported batches are the walks' emissions (those of the completed actions, in execution order)
  let statesOf := fun (o : Json) => (normJson (Json.mkObj [("changed", (getObj? o "changed").getD .null), ("live", (getObj? o "live").getD .null)])).compress
  let batchesOf := fun (o : Json) => (normJson ((getObj? o "batches").getD (Json.arr #[]))).compress
  let crewEmitExact := goSteps.length != run.2.length ||
    (goSteps.zip run.2).all (fun (g, m) => statesOf g != statesOf m || batchesOf g == batchesOf m)
  -- C15 on the implementation's observations: the shadow store folded from the reported changes equals the live crew
  let storeEq := goSteps.all (fun o => (normJson ((getObj? o "store").getD .null)).compress == (normJson ((getObj? o "live").getD .null)).compress)
  -- C14 on the implementation's observations: a message of the last depth (no follow-ups) is
  -- presented exactly once to each addressed machine and to nobody else
  let liveOf := fun (o : Json) => match getObj? o "live" with | some (.obj m) => m.toList | _ => []
  let nOf := fun (mj : Json) => match getObj? ((getObj? mj "state").getD .null) "bs" with
    | some b => (match getObj? b "n" with | some (.num x) => ratOfJsonNumber x | _ => 0)
    | none => 0
  let nodeOf := fun (mj : Json) => getStr ((getObj? mj "state").getD .null) "node"
  let pairs := (List.range history.length).map (fun i => (i, history[i]!))
  -- (judged on walks that run to quiescence: where the step limit cuts walks short a machine may
  -- be met away from its listening node, and the counters say nothing)
  let delivered := limit.any (fun l => decide (l < 10)) || pairs.all (fun (i, msg) =>
    match msg with
    | .obj kvs =>
      if (lookup "d" kvs).isSome && canonStr ((lookup "d" kvs).getD .null) == "2" && i > 0 && i < goSteps.length then
        let before := liveOf goSteps[i-1]!
        let after := liveOf goSteps[i]!
        let everybody := before.map (·.1)
        let addressees : List String :=
          match lookup "to" kvs with
          | some (.str t) => if t == "*" then everybody else [t]
          | some (.arr xs) => xs.filterMap (fun x => match x with | .str t => some t | _ => none)
          | _ => everybody
        before.all (fun (mid, mb) =>
          match after.find? (fun p => p.1 == mid) with
          | none => false
          | some (_, ma) =>
            -- (a machine that has no spec yet is inert: it counts nothing; and only the relay
            -- machines — specs "spec0", "spec1", … of the generator — keep the counter this is read off)
            if (getObj? mb "src").isNone || (getObj? mb "src") == some Json.null then ma.compress == mb.compress
            else if !((getStr mb "src").startsWith "spec") then true
            else if addressees.contains mid then
              nOf ma == nOf mb + 1 || nodeOf ma == "error" || nodeOf mb == "error"
            else ma.compress == mb.compress)
      else true
    | _ => true)
  let feats : List String :=
    (if history.any (fun m => match m with | .obj kvs => (lookup "update" kvs).isSome | _ => false) then ["update"] else []) ++
    (if history.any (fun m => match m with | .obj kvs => (lookup "delete" kvs).isSome | _ => false) then ["delete"] else []) ++
    (if history.any (fun m => match m with | .obj kvs => (match lookup "to" kvs with | some (.arr _) => true | _ => false) | _ => false) then ["toList"] else []) ++
    (if history.any (fun m => match m with | .obj kvs => (match lookup "to" kvs with | some (.str _) => true | _ => false) | _ => false) then ["toOne"] else []) ++
    (if history.any (fun m => match m with | .obj kvs => (lookup "to" kvs).isNone | _ => true) then ["broadcast"] else []) ++
    (if run.2.any (fun o => match getObj? o "emitted" with | some (.arr a) => a.size > 0 | _ => false) then ["emits"] else []) ++
    (if run.2.any (fun o => match getObj? o "changed" with | some (.obj m) => m.toList.any (fun (_, c) => getBool c "deleted") | _ => false) then ["deleted"] else [])
  Json.mkObj [("corr", corr), ("tr", routeDiffs.isEmpty), ("trDiff", (routeDiffs.head?).getD Json.null),
              ("prop", boolsJson [("storeEqLive", storeEq), ("deliveredOnce", delivered), ("crewEmitExact", crewEmitExact)]), ("model", mine),
              ("feat", jstrs feats), ("nontrivial", decide (history.length > 1)),
              ("key", (Json.mkObj [("specs", specsJ), ("init", initJ), ("history", (getObj? j "history").getD .null)]).compress)]

end Driver
