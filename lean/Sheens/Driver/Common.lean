import Sheens.Wire
import Sheens.Match

/-! Shared helpers of the line-protocol driver. -/

open Lean

namespace Driver

def permsOf {α : Type} : List α → List (List α)
  | [] => [[]]
  | x :: xs => (permsOf xs).flatMap (fun p => (List.range (p.length + 1)).map (fun i => p.take i ++ [x] ++ p.drop i))

/-- cartesian product of per-position variants, truncated -/
def productCap {α : Type} (cap : Nat) : List (List α) → List (List α)
  | [] => [[]]
  | vs :: rest =>
    let tails := productCap cap rest
    ((vs.flatMap (fun v => tails.map (fun t => v :: t))).take cap)

/-- All hereditary key-order variants of a value (pattern maps iterate in an arbitrary order in Go),
    truncated at `cap`. -/
partial def variants (cap : Nat) : V → List V
  | .obj kvs =>
    let inner : List (List (String × V)) :=
      productCap cap (kvs.map (fun (k, v) => (variants cap v).map (fun v' => (k, v'))))
    ((inner.flatMap permsOf).take cap).map V.obj
  | .arr xs => (productCap cap (xs.map (variants cap))).map V.arr
  | v => [v]

def countVariantsUpTo (cap : Nat) (v : V) : Nat := (variants (cap + 1) v).length

def errClass : MatchErr → String
  | .badPropVar => "badPropVar"
  | .multiVar => "multiVar"
  | .repeatedVar => "repeatedVar"
  | .unknownPatternType => "unknownPatternType"

/-- canonical text of a matcher outcome -/
def outcomeStr : MRes → String
  | .ok bss => "ok:" ++ toString (Wire.canonBss bss)
  | .err e => "err:" ++ errClass e
  | .diverge => "diverge"

def dedupStr (l : List String) : List String :=
  l.foldl (fun acc s => if acc.contains s then acc else acc ++ [s]) []

def jstrs (l : List String) : Json := .arr (l.map Json.str).toArray

def boolsJson (l : List (String × Bool)) : Json := Json.mkObj (l.map (fun (k, b) => (k, Json.bool b)))

end Driver
