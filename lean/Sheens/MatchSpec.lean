import Sheens.Match

/-!
# The declarative containment relation ("the spec you can read in a minute")

`Sat bs₀ r p f`: the pattern `p`, instantiated by the returned bindings `r`, is
contained in the message `f` under the documented partial-matching rules.
`bs₀` are the bindings the match was *given*: an inequality variable is one
whose name carries an operator **and** which is numerically pre-bound in
`bs₀` (README / `match.go` doc: "the input bindings should include a binding
for a variable with a name that contains …").
-/

def isScalarConst : V → Bool
  | .null | .bool _ | .num _ => true
  | .str s => !isVar s
  | _ => false

/-- one element picked out of a list, rest kept -/
inductive Pick {α : Type} : α → List α → List α → Prop
  | here  : Pick a (a :: l) l
  | there : Pick a l l' → Pick a (b :: l) (b :: l')

/-- Does the inequality reading apply to variable `v` at message value `f`?
    (name carries an operator, numerically pre-bound, numeric message value,
    plain-named counterpart absent or numeric) -/
def ineqActive (bs₀ r : Bs) (v : String) (f : V) : Bool :=
  match ineqOf v with
  | none => false
  | some (_, base) =>
    match lookup v bs₀ with
    | none => false
    | some bv =>
      (asNum bv).isSome && (asNum f).isSome &&
        (match lookup base r with
         | none => true
         | some c => (asNum c).isSome)

mutual
inductive Sat (bs₀ r : Bs) : V → V → Prop
  /-- scalars equal -/
  | scalar   : isScalarConst p = true → p = f → Sat bs₀ r p f
  | anon     : Sat bs₀ r (.str "?") f
  /-- a variable stands for its binding, re-used as a sub-pattern -/
  | var      : isVar v = true → ineqActive bs₀ r v f = false → lookup v r = some b → Sat bs₀ r b f →
               Sat bs₀ r (.str v) f
  /-- an inequality variable: the message value is in the stated relation to the bound,
      and the plain-named counterpart carries the message value -/
  | ineq     : ineqOf v = some (op, base) → lookup v bs₀ = some bv → asNum bv = some b →
               asNum f = some a → op.rel a b = true → lookup base r = some cv → asNum cv = some a →
               Sat bs₀ r (.str v) f
  | objEmpty : Sat bs₀ r (.obj []) (.obj fm)
  /-- property variable: the sole key is a variable -/
  | objProp  : isVar k = true → (fk, fv) ∈ fm → Sat bs₀ r (.str k) (.str fk) → Sat bs₀ r pv fv →
               Sat bs₀ r (.obj [(k, pv)]) (.obj fm)
  | obj      : ObjSat bs₀ r pm fm → Sat bs₀ r (.obj pm) (.obj fm)
  | arr      : ArrEmb bs₀ r ps fs → Sat bs₀ r (.arr ps) (.arr fs)
/-- every pattern key present in the message with a contained value (or optional and absent) -/
inductive ObjSat (bs₀ r : Bs) : List (String × V) → List (String × V) → Prop
  | nil     : ObjSat bs₀ r [] fm
  | present : isVar k = false → lookup k fm = some fv → Sat bs₀ r pv fv → ObjSat bs₀ r rest fm →
              ObjSat bs₀ r ((k, pv) :: rest) fm
  | absent  : isVar k = false → lookup k fm = none → isOptVar pv = true → ObjSat bs₀ r rest fm →
              ObjSat bs₀ r ((k, pv) :: rest) fm
/-- pattern array elements matched by *distinct* message elements -/
inductive ArrEmb (bs₀ r : Bs) : List V → List V → Prop
  | nil  : ArrEmb bs₀ r [] fs
  | cons : Pick f fs fs' → Sat bs₀ r p f → ArrEmb bs₀ r ps fs' → ArrEmb bs₀ r (p :: ps) fs
  | skip : isOptVar p = true → ArrEmb bs₀ r ps fs → ArrEmb bs₀ r (p :: ps) fs
end

/-- every given binding present, unchanged -/
def Extends (a b : Bs) : Prop := ∀ k v, lookup k a = some v → lookup k b = some v

mutual
/-- variables occurring in a pattern (values and keys) -/
def varsOf : V → List String
  | .str s => if isVar s then [s] else []
  | .arr xs => varsOfList xs
  | .obj kvs => varsOfKvs kvs
  | _ => []
def varsOfList : List V → List String
  | [] => []
  | x :: xs => varsOf x ++ varsOfList xs
def varsOfKvs : List (String × V) → List String
  | [] => []
  | (k, v) :: rest => (if isVar k then [k] else []) ++ varsOf v ++ varsOfKvs rest
end

/-- the plain-named counterparts of the inequality variables of a pattern -/
def ineqBases (p : V) : List String :=
  (varsOf p).filterMap (fun v => (ineqOf v).map (·.2))
