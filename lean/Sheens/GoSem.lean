import Sheens.Value

/-!
# A small Go: abstract syntax and a definitional interpreter

`go/go2lean` translates the function declarations of `match/match.go` (and a
few leaf functions of `core`) into values of the syntax below on every run
(`Sheens/Gen/GoAst.lean`).  The interpreter here gives them a meaning, so the
regenerated syntax is an *executable model that comes from the source*: the
driver runs it next to the hand-written model on every generated case, and
`Sheens/Props/Translated.lean` proves, for all inputs, that the translated leaf
functions compute what the hand-written model says.

What is modelled of Go (and only that; anything else is `stuck`, never a
default):

* values of dynamic type `nil`, `bool`, `float64`, `int`, other numeric types
  (by name), `string`, slices **by value** (no aliasing of backing arrays),
  maps **by reference** (a heap of map objects; insertion order = iteration
  order, which stands for one run of Go's map iterator), `error`;
* a *nil slice* (`nil`) is kept apart from an empty one (`slice []`), because
  `match.go` tests `nil == bsss` and `nil != matches`;
* block scoping (`:=` shadows, assignment updates the innermost binding,
  leaving a block forgets what it defined);
* `if`, `for`, `for … range` over slices and maps (the entries are those
  present at the start; entries deleted meanwhile are still visited — no loop
  of the translated code deletes an entry it has not yet reached other than the
  current one), `switch` with and without tag, type switches with and without
  binding, labelled `continue`, `break`, multi-value `return`, comma-ok index
  and type assertion;
* strings as sequences of characters with **byte** lengths and offsets
  (`len(s)`, `s[i:]`, `s[0]`): a slice at an offset inside a character is
  `stuck`.

Every recursive call of the interpreter decrements the fuel, so the recursion
is structural; `Fail.fuel` is "not decided with this fuel", never a result.
-/

namespace Go

/-- the numeric Go types other than `float64` and `int` that `fudge` knows -/
inductive NumTy where
  | f32 | i64 | i32
  deriving Repr, Inhabited, DecidableEq

inductive GV where
  | nil
  | bool (b : Bool)
  | f64 (q : Rat)
  | int (i : Int)
  | numT (ty : NumTy) (i : Int)
  | str (s : String)
  | slice (xs : List GV)
  | ref (a : Nat)
  | err (msg : String)
  | other (tag : String)
  deriving Repr, Inhabited

structure MapObj where
  ty : String
  kvs : List (GV × GV)
  deriving Repr, Inhabited

abbrev Heap := List MapObj
abbrev Env := List (String × GV)

/-- equality of map keys and of comparable interface values (scalars only) -/
def keyEq : GV → GV → Bool
  | .nil, .nil => true
  | .bool a, .bool b => a == b
  | .f64 a, .f64 b => a == b
  | .int a, .int b => a == b
  | .numT s a, .numT t b => decide (s = t) && a == b
  | .str a, .str b => a == b
  | .err a, .err b => a == b
  | _, _ => false

def mlookup (k : GV) : List (GV × GV) → Option GV
  | [] => none
  | (k', v) :: rest => if keyEq k k' then some v else mlookup k rest

def minsert (k v : GV) : List (GV × GV) → List (GV × GV)
  | [] => [(k, v)]
  | (k', v') :: rest => if keyEq k k' then (k', v) :: rest else (k', v') :: minsert k v rest

def mdelete (k : GV) : List (GV × GV) → List (GV × GV)
  | [] => []
  | (k', v') :: rest => if keyEq k k' then rest else (k', v') :: mdelete k rest

inductive GE where
  | lit (v : GV)
  | var (x : String)
  | field (e : GE) (f : String)
  | call (f : String) (args : List GE)
  | mcall (recv : GE) (f : String) (args : List GE)
  | bin (op : String) (a b : GE)
  | un (op : String) (a : GE)
  | index (a i : GE)
  | sliceE (a : GE) (lo hi : Option GE)
  | assert (a : GE) (ty : String)
  | comp (ty : String) (elts : List GE)
  | compKV (ty : String) (kvs : List (String × GE))
  deriving Repr, Inhabited

inductive GL where
  | var (x : String)
  | index (a i : GE)
  | field (e : GE) (f : String)
  | blank
  deriving Repr, Inhabited

inductive GS where
  | assign (define : Bool) (lhs : List GL) (rhs : List GE)
  | assignOk (define : Bool) (x ok : GL) (rhs : GE)
  | opAssign (op : String) (lhs : GL) (rhs : GE)
  | varDecl (names : List String) (zero : GV)
  | expr (e : GE)
  | ret (es : List GE)
  | ifs (init : Option GS) (cond : GE) (thn els : List GS)
  | for3 (label : String) (init : Option GS) (cond : Option GE) (post : Option GS) (body : List GS)
  | range (label : String) (k v : String) (e : GE) (body : List GS)
  | switchV (init : Option GS) (tag : Option GE) (cases : List (List GE × List GS)) (dflt : Option (List GS))
  | switchT (bind : String) (e : GE) (cases : List (List String × List GS)) (dflt : Option (List GS))
  | brk (label : String)
  | cont (label : String)
  | block (body : List GS)
  deriving Repr, Inhabited

structure FnDecl where
  name : String
  recv : String          -- "" when it is not a method
  params : List String
  variadic : Bool
  body : List GS
  deriving Repr, Inhabited

structure Prog where
  fns : List FnDecl
  globals : List (String × GE)
  deriving Repr, Inhabited

inductive Fail where
  | panic (msg : String)
  | fuel
  | stuck (msg : String)
  deriving Repr, Inhabited, DecidableEq

inductive Flow where
  | next
  | brk (l : String)
  | cont (l : String)
  | ret (vs : List GV)
  deriving Repr, Inhabited

abbrev R (α : Type) := Except Fail α

def findFn (p : Prog) (name : String) : Option FnDecl := p.fns.find? (fun d => d.name == name)

def envGet (x : String) : Env → Option GV
  | [] => none
  | (y, v) :: rest => if x = y then some v else envGet x rest

def envSet (x : String) (v : GV) : Env → Option Env
  | [] => none
  | (y, w) :: rest => if x = y then some ((y, v) :: rest) else (envSet x v rest).map ((y, w) :: ·)

/-- leave a block: forget what it defined (definitions are prepended, updates keep the length) -/
def envLeave (entry : Nat) (env : Env) : Env := env.drop (env.length - entry)

def heapGet (h : Heap) (a : Nat) : Option MapObj := h[a]?

def heapSet (h : Heap) (a : Nat) (o : MapObj) : Heap := h.set a o

/-- dynamic types: the predeclared ones apart, a map or struct type by name, so that no map object
    can pass for a string whatever its type is called -/
inductive GT where
  | nil | bool | f64 | int | num (t : NumTy) | str | slice | err
  | named (n : String)
  | other (tag : String)
  | dangling
  deriving Repr, Inhabited, DecidableEq

def typeOf (h : Heap) : GV → GT
  | .nil => .nil
  | .bool _ => .bool
  | .f64 _ => .f64
  | .int _ => .int
  | .numT ty _ => .num ty
  | .str _ => .str
  | .slice _ => .slice
  | .ref a => match heapGet h a with | some o => .named o.ty | none => .dangling
  | .err _ => .err
  | .other t => .other t

/-- a type as written in a `case` of a type switch or in a type assertion -/
def parseTy (s : String) : GT :=
  if s = "nil" then .nil
  else if s = "bool" then .bool
  else if s = "float64" then .f64
  else if s = "int" then .int
  else if s = "float32" then .num .f32
  else if s = "int64" then .num .i64
  else if s = "int32" then .num .i32
  else if s = "string" then .str
  else if s = "[]interface{}" then .slice
  else if s = "error" then .err
  else .named s

/-- the UTF-8 length of a string (`len(s)`) on `toList`, so that it reduces in the kernel -/
def byteLen (cs : List Char) : Nat := (cs.map (fun c => c.utf8Size)).sum

/-- `s[n:]`: only at a character boundary -/
def dropBytes : List Char → Nat → Option (List Char)
  | [], n => if n = 0 then some [] else none
  | c :: cs, n => if n = 0 then some (c :: cs) else if c.utf8Size ≤ n then dropBytes cs (n - c.utf8Size) else none

/-- `s[:n]`: only at a character boundary -/
def takeBytes : List Char → Nat → Option (List Char)
  | [], n => if n = 0 then some [] else none
  | c :: cs, n => if n = 0 then some [] else if c.utf8Size ≤ n then (takeBytes cs (n - c.utf8Size)).map (c :: ·) else none

def truthy : GV → Option Bool
  | .bool b => some b
  | _ => none

def asInt : GV → Option Int
  | .int i => some i
  | _ => none

def sliceElems : GV → Option (List GV)
  | .nil => some []
  | .slice xs => some xs
  | _ => none

/-- `==` on two evaluated operands; `none` = Go would not compile it or panics (uncomparable) -/
def goEq (a b : GV) : Option Bool :=
  match a, b with
  | .nil, .nil => some true
  | .nil, .slice _ => some false
  | .slice _, .nil => some false
  | .nil, .ref _ => some false
  | .ref _, .nil => some false
  | .nil, .err _ => some false
  | .err _, .nil => some false
  | .ref _, .ref _ => none
  | .slice _, .slice _ => none
  | .nil, _ => some false
  | _, .nil => some false
  | a, b => some (keyEq a b)

def binop (op : String) (a b : GV) : R GV :=
  match op with
  | "==" => match goEq a b with | some r => .ok (.bool r) | none => .error (.stuck "==")
  | "!=" => match goEq a b with | some r => .ok (.bool (!r)) | none => .error (.stuck "!=")
  | "+" =>
    match a, b with
    | .str s, .str t => .ok (.str (s ++ t))
    | .int i, .int j => .ok (.int (i + j))
    | _, _ => .error (.stuck "+")
  | "-" =>
    match a, b with
    | .int i, .int j => .ok (.int (i - j))
    | _, _ => .error (.stuck "-")
  | "<" =>
    match a, b with
    | .f64 x, .f64 y => .ok (.bool (x < y))
    | .int i, .int j => .ok (.bool (i < j))
    | _, _ => .error (.stuck "<")
  | "<=" =>
    match a, b with
    | .f64 x, .f64 y => .ok (.bool (x ≤ y))
    | .int i, .int j => .ok (.bool (i ≤ j))
    | _, _ => .error (.stuck "<=")
  | ">" =>
    match a, b with
    | .f64 x, .f64 y => .ok (.bool (y < x))
    | .int i, .int j => .ok (.bool (j < i))
    | _, _ => .error (.stuck ">")
  | ">=" =>
    match a, b with
    | .f64 x, .f64 y => .ok (.bool (y ≤ x))
    | .int i, .int j => .ok (.bool (j ≤ i))
    | _, _ => .error (.stuck ">=")
  | _ => .error (.stuck ("binop " ++ op))

/-- the numeric conversion `float64(x)` -/
def toF64 : GV → R GV
  | .f64 q => .ok (.f64 q)
  | .int i => .ok (.f64 i)
  | .numT _ i => .ok (.f64 i)
  | _ => .error (.stuck "float64()")

def goLen (h : Heap) : GV → R GV
  | .nil => .ok (.int 0)
  | .str s => .ok (.int (byteLen s.toList))
  | .slice xs => .ok (.int xs.length)
  | .ref a => match heapGet h a with | some o => .ok (.int o.kvs.length) | none => .error (.stuck "len: dangling")
  | _ => .error (.stuck "len")

def insertSorted (s : String) : List String → List String
  | [] => [s]
  | t :: rest => if s < t then s :: t :: rest else t :: insertSorted s rest

def insertionSort : List String → List String
  | [] => []
  | s :: rest => insertSorted s (insertionSort rest)

/-- builtins and the library functions the translated code calls -/
def builtin (f : String) (args : List GV) (h : Heap) : Option (R (List GV × Heap)) :=
  match f, args with
  | "len", [x] => some ((goLen h x).map (fun v => ([v], h)))
  | "strings.HasPrefix", [.str s, .str p] => some (.ok ([.bool (p.toList.isPrefixOf s.toList)], h))
  | "strings.HasSuffix", [.str s, .str p] => some (.ok ([.bool (p.toList.reverse.isPrefixOf s.toList.reverse)], h))
  | "errors.New", [.str s] => some (.ok ([.err s], h))
  | "conv:float64", [x] => some ((toF64 x).map (fun v => ([v], h)))
  | "conv:string", [.str s] => some (.ok ([.str s], h))
  | "append", x :: ys =>
    match sliceElems x with
    | some xs => some (.ok ([if xs.isEmpty && ys.isEmpty then x else .slice (xs ++ ys)], h))
    | none => some (.error (.stuck "append"))
  | "append...", [x, y] =>
    match sliceElems x, sliceElems y with
    | some xs, some ys => some (.ok ([if xs.isEmpty && ys.isEmpty then x else .slice (xs ++ ys)], h))
    | _, _ => some (.error (.stuck "append..."))
  | "delete", [.ref a, k] =>
    match heapGet h a with
    | some o => some (.ok ([], heapSet h a { o with kvs := mdelete k o.kvs }))
    | none => some (.error (.stuck "delete: dangling"))
  | "delete", [.nil, _] => some (.ok ([], h))
  | "sort.Strings", [x] =>
    match sliceElems x with
    | some xs =>
      match xs.mapM (fun v => match v with | .str s => some s | _ => none) with
      | some ss => some (.ok ([if xs.isEmpty then x else .slice ((insertionSort ss).map GV.str)], h))
      | none => some (.error (.stuck "sort.Strings: not strings"))
    | none => some (.error (.stuck "sort.Strings"))
  | "makemap", [.str ty] => some (.ok ([.ref h.length], h ++ [{ ty := ty, kvs := [] }]))
  | "makeslice", [.str _, .int 0] => some (.ok ([.slice []], h))
  | "makeslice", _ => some (.error (.stuck "make: non-zero length"))
  | _, _ => none

def errorText (h : Heap) : GV → String
  | .err m => m
  | .ref a => match heapGet h a with | some o => o.ty | none => "?"
  | _ => "?"

def bindParams : List String → Bool → List GV → Option Env
  | [], _, [] => some []
  | [p], true, vs => some [(p, if vs.isEmpty then .nil else .slice vs)]
  | p :: ps, vr, v :: vs => (bindParams ps vr vs).map ((p, v) :: ·)
  | _, _, _ => none

/-- the first byte of the UTF-8 encoding of a character -/
def leadByte (c : Char) : Nat :=
  if c.toNat < 128 then c.toNat
  else if c.toNat < 2048 then 192 + c.toNat / 64
  else if c.toNat < 65536 then 224 + c.toNat / 4096
  else 240 + c.toNat / 262144

/-- `a[i]` with the comma-ok flag -/
def indexV (h : Heap) (a i : GV) : R (GV × Bool) :=
  match a with
  | .ref ad =>
    match heapGet h ad with
    | some o => match mlookup i o.kvs with
      | some v => .ok (v, true)
      | none => .ok (.nil, false)      -- the element type's zero value: every map of the translated code holds interfaces or bools
    | none => .error (.stuck "index: dangling")
  | .nil => .ok (.nil, false)
  | .slice xs =>
    match i with
    | .int j => if 0 ≤ j then match xs[j.toNat]? with
        | some v => .ok (v, true)
        | none => .error (.panic "index out of range")
      else .error (.panic "index out of range")
    | _ => .error (.stuck "slice index")
  | .str s =>
    match i with
    | .int j =>
      -- a byte of a string: only the first one is modelled
      if j = 0 then match s.toList with
        | c :: _ => .ok (.int (leadByte c), true)
        | [] => .error (.panic "index out of range")
      else .error (.stuck "string index other than 0")
    | _ => .error (.stuck "string index")
  | _ => .error (.stuck "index of an unsupported value")

def sliceV (a : GV) (lo hi : Option GV) : R GV :=
  match a with
  | .str s =>
    let cs := s.toList
    let l : Option Nat := match lo with | none => some 0 | some (.int i) => if 0 ≤ i then some i.toNat else none | _ => none
    match l with
    | none => .error (.stuck "slice bound")
    | some l =>
      match dropBytes cs l with
      | none => .error (.stuck "string slice inside a character or out of range")
      | some rest =>
        match hi with
        | none => .ok (.str (String.ofList rest))
        | some (.int j) =>
          if l ≤ j.toNat ∧ 0 ≤ j then
            match takeBytes rest (j.toNat - l) with
            | some t => .ok (.str (String.ofList t))
            | none => .error (.stuck "string slice inside a character or out of range")
          else .error (.panic "slice bounds out of range")
        | _ => .error (.stuck "slice bound")
  | .slice xs =>
    let l : Option Nat := match lo with | none => some 0 | some (.int i) => if 0 ≤ i then some i.toNat else none | _ => none
    let u : Option Nat := match hi with | none => some xs.length | some (.int i) => if 0 ≤ i then some i.toNat else none | _ => none
    match l, u with
    | some l, some u => if l ≤ u ∧ u ≤ xs.length then .ok (.slice ((xs.take u).drop l)) else .error (.panic "slice bounds out of range")
    | _, _ => .error (.stuck "slice bound")
  | .nil =>
    match lo, hi with
    | none, none => .ok .nil
    | _, _ => .error (.stuck "slice of nil")
  | _ => .error (.stuck "slice of an unsupported value")

def zeroOf (ty : String) : GV :=
  match ty with
  | "string" => .str ""
  | "bool" => .bool false
  | "float64" => .f64 0
  | "int" => .int 0
  | _ => .nil

def rangeItems (h : Heap) : GV → Option (List (GV × GV))
  | .nil => some []
  | .slice xs => some ((List.range xs.length).zip xs |>.map (fun (i, x) => (GV.int i, x)))
  | .ref a => (heapGet h a).map (·.kvs)
  | _ => none

mutual

def evalE : Nat → Prog → Env → Env → Heap → GE → R (List GV × Heap)
  | 0, _, _, _, _, _ => .error .fuel
  | n+1, p, g, env, h, e =>
    match e with
    | .lit v => .ok ([v], h)
    | .var x =>
      match envGet x env with
      | some v => .ok ([v], h)
      | none => match envGet x g with
        | some v => .ok ([v], h)
        | none => .error (.stuck ("unbound " ++ x))
    | .field e f =>
      match eval1 n p g env h e with
      | .error er => .error er
      | .ok (.ref a, h1) =>
        match heapGet h1 a with
        | some o => match mlookup (.str f) o.kvs with
          | some v => .ok ([v], h1)
          | none => .error (.stuck ("no field " ++ f))
        | none => .error (.stuck "field: dangling")
      | .ok (.nil, _) => .error (.panic "nil dereference")
      | .ok _ => .error (.stuck "field of a non-struct")
    | .call f args =>
      match evalArgs n p g env h args with
      | .error er => .error er
      | .ok (vs, h1) =>
        match builtin f vs h1 with
        | some r => r
        | none => callFn n p g f .nil vs h1
    | .mcall r f args =>
      match eval1 n p g env h r with
      | .error er => .error er
      | .ok (rv, h1) =>
        match evalArgs n p g env h1 args with
        | .error er => .error er
        | .ok (vs, h2) => callFn n p g f rv vs h2
    | .bin "&&" a b =>
      match eval1 n p g env h a with
      | .error er => .error er
      | .ok (.bool false, h1) => .ok ([.bool false], h1)
      | .ok (.bool true, h1) => evalE n p g env h1 b
      | .ok _ => .error (.stuck "&&")
    | .bin "||" a b =>
      match eval1 n p g env h a with
      | .error er => .error er
      | .ok (.bool true, h1) => .ok ([.bool true], h1)
      | .ok (.bool false, h1) => evalE n p g env h1 b
      | .ok _ => .error (.stuck "||")
    | .bin op a b =>
      match eval1 n p g env h a with
      | .error er => .error er
      | .ok (va, h1) =>
        match eval1 n p g env h1 b with
        | .error er => .error er
        | .ok (vb, h2) => (binop op va vb).map (fun v => ([v], h2))
    | .un "!" a =>
      match eval1 n p g env h a with
      | .error er => .error er
      | .ok (.bool b, h1) => .ok ([.bool (!b)], h1)
      | .ok _ => .error (.stuck "!")
    | .un "&" a => evalE n p g env h a
    | .un op _ => .error (.stuck ("unary " ++ op))
    | .index a i =>
      match eval1 n p g env h a with
      | .error er => .error er
      | .ok (va, h1) =>
        match eval1 n p g env h1 i with
        | .error er => .error er
        | .ok (vi, h2) => (indexV h2 va vi).map (fun v => ([v.1], h2))
    | .sliceE a lo hi =>
      match eval1 n p g env h a with
      | .error er => .error er
      | .ok (va, h1) =>
        match evalOpt n p g env h1 lo with
        | .error er => .error er
        | .ok (vlo, h2) =>
          match evalOpt n p g env h2 hi with
          | .error er => .error er
          | .ok (vhi, h3) => (sliceV va vlo vhi).map (fun v => ([v], h3))
    | .assert a ty =>
      match eval1 n p g env h a with
      | .error er => .error er
      | .ok (va, h1) =>
        if typeOf h1 va = parseTy ty then .ok ([va], h1) else .error (.panic ("interface conversion: not " ++ ty))
    | .comp _ elts =>
      match evalArgs n p g env h elts with
      | .error er => .error er
      | .ok (vs, h1) => .ok ([.slice vs], h1)
    | .compKV ty kvs =>
      match evalFields n p g env h kvs with
      | .error er => .error er
      | .ok (fs, h1) => .ok ([.ref h1.length], h1 ++ [{ ty := ty, kvs := fs }])

/-- an expression in single-value context -/
def eval1 : Nat → Prog → Env → Env → Heap → GE → R (GV × Heap)
  | 0, _, _, _, _, _ => .error .fuel
  | n+1, p, g, env, h, e =>
    match evalE n p g env h e with
    | .error er => .error er
    | .ok ([v], h1) => .ok (v, h1)
    | .ok _ => .error (.stuck "multi-value in single-value context")

def evalOpt : Nat → Prog → Env → Env → Heap → Option GE → R (Option GV × Heap)
  | 0, _, _, _, _, _ => .error .fuel
  | _+1, _, _, _, h, none => .ok (none, h)
  | n+1, p, g, env, h, some e =>
    match eval1 n p g env h e with
    | .error er => .error er
    | .ok (v, h1) => .ok (some v, h1)

def evalArgs : Nat → Prog → Env → Env → Heap → List GE → R (List GV × Heap)
  | 0, _, _, _, _, _ => .error .fuel
  | _+1, _, _, _, h, [] => .ok ([], h)
  | n+1, p, g, env, h, e :: es =>
    match eval1 n p g env h e with
    | .error er => .error er
    | .ok (v, h1) =>
      match evalArgs n p g env h1 es with
      | .error er => .error er
      | .ok (vs, h2) => .ok (v :: vs, h2)

def evalFields : Nat → Prog → Env → Env → Heap → List (String × GE) → R (List (GV × GV) × Heap)
  | 0, _, _, _, _, _ => .error .fuel
  | _+1, _, _, _, h, [] => .ok ([], h)
  | n+1, p, g, env, h, (k, e) :: es =>
    match eval1 n p g env h e with
    | .error er => .error er
    | .ok (v, h1) =>
      match evalFields n p g env h1 es with
      | .error er => .error er
      | .ok (vs, h2) => .ok ((.str k, v) :: vs, h2)

/-- a call of a declared function or method -/
def callFn : Nat → Prog → Env → String → GV → List GV → Heap → R (List GV × Heap)
  | 0, _, _, _, _, _, _ => .error .fuel
  | n+1, p, g, f, recv, args, h =>
    match findFn p f with
    | none => .error (.stuck ("unknown function " ++ f))
    | some d =>
      match bindParams d.params d.variadic args with
      | none => .error (.stuck ("arity of " ++ f))
      | some env0 =>
        let env := if d.recv = "" then env0 else (d.recv, recv) :: env0
        match execB n p g env h d.body with
        | .error er => .error er
        | .ok (.ret vs, _, h1) => .ok (vs, h1)
        | .ok (.next, _, h1) => .ok ([], h1)
        | .ok _ => .error (.stuck "break/continue left a function")

/-- assignment to one place -/
def assignTo : Nat → Prog → Env → Env → Heap → Bool → GL → GV → R (Env × Heap)
  | 0, _, _, _, _, _, _, _ => .error .fuel
  | n+1, p, g, env, h, define, l, v =>
    match l with
    | .blank => .ok (env, h)
    | .var x =>
      if define then .ok ((x, v) :: env, h)
      else match envSet x v env with
        | some env' => .ok (env', h)
        | none => .error (.stuck ("assignment to undeclared " ++ x))
    | .index a i =>
      match eval1 n p g env h a with
      | .error er => .error er
      | .ok (va, h1) =>
        match eval1 n p g env h1 i with
        | .error er => .error er
        | .ok (vi, h2) =>
          match va with
          | .ref ad =>
            match heapGet h2 ad with
            | some o => .ok (env, heapSet h2 ad { o with kvs := minsert vi v o.kvs })
            | none => .error (.stuck "store: dangling")
          | .nil => .error (.panic "assignment to entry in nil map")
          | _ => .error (.stuck "store into a non-map")
    | .field e f =>
      match eval1 n p g env h e with
      | .error er => .error er
      | .ok (.ref ad, h1) =>
        match heapGet h1 ad with
        | some o => .ok (env, heapSet h1 ad { o with kvs := minsert (.str f) v o.kvs })
        | none => .error (.stuck "field store: dangling")
      | .ok (.nil, _) => .error (.panic "nil dereference")
      | .ok _ => .error (.stuck "field store into a non-struct")

def assignAll : Nat → Prog → Env → Env → Heap → Bool → List GL → List GV → R (Env × Heap)
  | 0, _, _, _, _, _, _, _ => .error .fuel
  | _+1, _, _, env, h, _, [], [] => .ok (env, h)
  | n+1, p, g, env, h, define, l :: ls, v :: vs =>
    match assignTo n p g env h define l v with
    | .error er => .error er
    | .ok (env1, h1) => assignAll n p g env1 h1 define ls vs
  | _+1, _, _, _, _, _, _, _ => .error (.stuck "assignment count")

def execS : Nat → Prog → Env → Env → Heap → GS → R (Flow × Env × Heap)
  | 0, _, _, _, _, _ => .error .fuel
  | n+1, p, g, env, h, s =>
    match s with
    | .assign define lhs [rhs] =>
      match evalE n p g env h rhs with
      | .error er => .error er
      | .ok (vs, h1) =>
        match assignAll n p g env h1 define lhs vs with
        | .error er => .error er
        | .ok (env1, h2) => .ok (.next, env1, h2)
    | .assign define lhs rhs =>
      match evalArgs n p g env h rhs with
      | .error er => .error er
      | .ok (vs, h1) =>
        match assignAll n p g env h1 define lhs vs with
        | .error er => .error er
        | .ok (env1, h2) => .ok (.next, env1, h2)
    | .assignOk define x ok rhs =>
      match rhs with
      | .index a i =>
        match eval1 n p g env h a with
        | .error er => .error er
        | .ok (va, h1) =>
          match eval1 n p g env h1 i with
          | .error er => .error er
          | .ok (vi, h2) =>
            match indexV h2 va vi with
            | .error er => .error er
            | .ok (v, found) =>
              match assignAll n p g env h2 define [x, ok] [v, .bool found] with
              | .error er => .error er
              | .ok (env1, h3) => .ok (.next, env1, h3)
      | .assert a ty =>
        match eval1 n p g env h a with
        | .error er => .error er
        | .ok (va, h1) =>
          let is := typeOf h1 va = parseTy ty
          match assignAll n p g env h1 define [x, ok] [if is then va else zeroOf ty, .bool is] with
          | .error er => .error er
          | .ok (env1, h2) => .ok (.next, env1, h2)
      | _ => .error (.stuck "comma-ok of an unsupported form")
    | .opAssign op l rhs =>
      match l with
      | .var x =>
        match eval1 n p g env h (.bin op (.var x) rhs) with
        | .error er => .error er
        | .ok (v, h1) =>
          match assignTo n p g env h1 false (.var x) v with
          | .error er => .error er
          | .ok (env1, h2) => .ok (.next, env1, h2)
      | .field e f =>
        match eval1 n p g env h (.bin op (.field e f) rhs) with
        | .error er => .error er
        | .ok (v, h1) =>
          match assignTo n p g env h1 false (.field e f) v with
          | .error er => .error er
          | .ok (env1, h2) => .ok (.next, env1, h2)
      | _ => .error (.stuck "op-assignment to an unsupported place")
    | .varDecl names zero => .ok (.next, names.map (fun x => (x, zero)) ++ env, h)
    | .expr e =>
      match evalE n p g env h e with
      | .error er => .error er
      | .ok (_, h1) => .ok (.next, env, h1)
    | .ret [e] =>
      match evalE n p g env h e with
      | .error er => .error er
      | .ok (vs, h1) => .ok (.ret vs, env, h1)
    | .ret es =>
      match evalArgs n p g env h es with
      | .error er => .error er
      | .ok (vs, h1) => .ok (.ret vs, env, h1)
    | .ifs init cond thn els =>
      match execOpt n p g env h init with
      | .error er => .error er
      | .ok (env1, h1) =>
        match eval1 n p g env1 h1 cond with
        | .error er => .error er
        | .ok (c, h2) =>
          match truthy c with
          | none => .error (.stuck "if: not a bool")
          | some b =>
            match execBlock n p g env1 h2 (if b then thn else els) with
            | .error er => .error er
            | .ok (fl, env2, h3) => .ok (fl, envLeave env.length env2, h3)
    | .for3 label init cond post body =>
      match execOpt n p g env h init with
      | .error er => .error er
      | .ok (env1, h1) =>
        match loop3 n p g env1 h1 label cond post body with
        | .error er => .error er
        | .ok (fl, env2, h2) => .ok (fl, envLeave env.length env2, h2)
    | .range label k v e body =>
      match eval1 n p g env h e with
      | .error er => .error er
      | .ok (c, h1) =>
        match rangeItems h1 c with
        | none => .error (.stuck "range over an unsupported value")
        | some items => loopR n p g env h1 label k v items body
    | .switchV init tag cases dflt =>
      match execOpt n p g env h init with
      | .error er => .error er
      | .ok (env1, h1) =>
        match evalOpt n p g env1 h1 tag with
        | .error er => .error er
        | .ok (tv, h2) =>
          match pickCase n p g env1 h2 tv cases with
          | .error er => .error er
          | .ok (body, h3) =>
            match execBlock n p g env1 h3 (match body with | some b => b | none => dflt.getD []) with
            | .error er => .error er
            | .ok (.brk "", env2, h4) => .ok (.next, envLeave env.length env2, h4)
            | .ok (fl, env2, h4) => .ok (fl, envLeave env.length env2, h4)
    | .switchT bind e cases dflt =>
      match eval1 n p g env h e with
      | .error er => .error er
      | .ok (v, h1) =>
        let ty := typeOf h1 v
        let body := match cases.find? (fun c => c.1.any (fun t => parseTy t = ty)) with
          | some c => c.2
          | none => dflt.getD []
        let env1 := if bind = "" then env else (bind, v) :: env
        match execBlock n p g env1 h1 body with
        | .error er => .error er
        | .ok (.brk "", env2, h2) => .ok (.next, envLeave env.length env2, h2)
        | .ok (fl, env2, h2) => .ok (fl, envLeave env.length env2, h2)
    | .brk l => .ok (.brk l, env, h)
    | .cont l => .ok (.cont l, env, h)
    | .block body => execBlock n p g env h body

def execOpt : Nat → Prog → Env → Env → Heap → Option GS → R (Env × Heap)
  | 0, _, _, _, _, _ => .error .fuel
  | _+1, _, _, env, h, none => .ok (env, h)
  | n+1, p, g, env, h, some s =>
    match execS n p g env h s with
    | .error er => .error er
    | .ok (.next, env1, h1) => .ok (env1, h1)
    | .ok _ => .error (.stuck "control flow in an init statement")

/-- the case of a value switch that is taken: the first one with an equal expression (or, without a
    tag, a true one) -/
def pickCase : Nat → Prog → Env → Env → Heap → Option GV → List (List GE × List GS) → R (Option (List GS) × Heap)
  | 0, _, _, _, _, _, _ => .error .fuel
  | _+1, _, _, _, h, _, [] => .ok (none, h)
  | n+1, p, g, env, h, tv, (es, body) :: rest =>
    match anyCase n p g env h tv es with
    | .error er => .error er
    | .ok (true, h1) => .ok (some body, h1)
    | .ok (false, h1) => pickCase n p g env h1 tv rest

def anyCase : Nat → Prog → Env → Env → Heap → Option GV → List GE → R (Bool × Heap)
  | 0, _, _, _, _, _, _ => .error .fuel
  | _+1, _, _, _, h, _, [] => .ok (false, h)
  | n+1, p, g, env, h, tv, e :: es =>
    match eval1 n p g env h e with
    | .error er => .error er
    | .ok (v, h1) =>
      let hit : Option Bool := match tv with
        | some t => goEq t v
        | none => truthy v
      match hit with
      | none => .error (.stuck "switch: uncomparable case")
      | some true => .ok (true, h1)
      | some false => anyCase n p g env h1 tv es

/-- a block: its statements in order, then its definitions are forgotten -/
def execBlock : Nat → Prog → Env → Env → Heap → List GS → R (Flow × Env × Heap)
  | 0, _, _, _, _, _ => .error .fuel
  | n+1, p, g, env, h, body =>
    match execB n p g env h body with
    | .error er => .error er
    | .ok (fl, env1, h1) => .ok (fl, envLeave env.length env1, h1)

def execB : Nat → Prog → Env → Env → Heap → List GS → R (Flow × Env × Heap)
  | 0, _, _, _, _, _ => .error .fuel
  | _+1, _, _, env, h, [] => .ok (.next, env, h)
  | n+1, p, g, env, h, s :: rest =>
    match execS n p g env h s with
    | .error er => .error er
    | .ok (.next, env1, h1) => execB n p g env1 h1 rest
    | .ok r => .ok r

def loop3 : Nat → Prog → Env → Env → Heap → String → Option GE → Option GS → List GS → R (Flow × Env × Heap)
  | 0, _, _, _, _, _, _, _, _ => .error .fuel
  | n+1, p, g, env, h, label, cond, post, body =>
    match evalOpt n p g env h cond with
    | .error er => .error er
    | .ok (c, h1) =>
      match (match c with | none => some true | some v => truthy v) with
      | none => .error (.stuck "for: not a bool")
      | some false => .ok (.next, env, h1)
      | some true =>
        match execBlock n p g env h1 body with
        | .error er => .error er
        | .ok (fl, env1, h2) =>
          let continues : Option Bool := match fl with
            | .next => some true
            | .cont l => if l = "" || l = label then some true else none
            | .brk l => if l = "" || l = label then some false else none
            | .ret _ => none
          match continues with
          | none => .ok (fl, env1, h2)
          | some false => .ok (.next, env1, h2)
          | some true =>
            match execOpt n p g env1 h2 post with
            | .error er => .error er
            | .ok (env2, h3) => loop3 n p g env2 h3 label cond post body

def loopR : Nat → Prog → Env → Env → Heap → String → String → String → List (GV × GV) → List GS → R (Flow × Env × Heap)
  | 0, _, _, _, _, _, _, _, _, _ => .error .fuel
  | _+1, _, _, env, h, _, _, _, [], _ => .ok (.next, env, h)
  | n+1, p, g, env, h, label, k, v, (ik, iv) :: items, body =>
    let env1 := (if v = "" || v = "_" then [] else [(v, iv)]) ++ (if k = "" || k = "_" then [] else [(k, ik)]) ++ env
    match execBlock n p g env1 h body with
    | .error er => .error er
    | .ok (fl, env2, h1) =>
      let env3 := envLeave env.length env2
      match fl with
      | .next => loopR n p g env3 h1 label k v items body
      | .cont l => if l = "" || l = label then loopR n p g env3 h1 label k v items body else .ok (fl, env3, h1)
      | .brk l => if l = "" || l = label then .ok (.next, env3, h1) else .ok (fl, env3, h1)
      | .ret _ => .ok (fl, env3, h1)

end

end Go
