/-!
# The per-execution watcher / cancel protocol of `(*Interpreter).Exec` (`ecmascript.go`)

```
ictx, cancel := context.WithCancel(ctx)
go func() { <-ictx.Done(); o.Interrupt(InterruptedMessage) }()
v, err := RunProgram(o, p)
cancel()
… return
```

A transition system over all interleavings of: the caller's context ending (`parentDone`, at any
moment), the watcher goroutine waking up once the derived context is done (`wake`) and delivering
the interrupt (`interrupt`), the program finishing by itself (`finish`, possible only for programs
that terminate) or stopping at its next instruction because an interrupt is pending (`stop`), the
main goroutine calling `cancel()` after the program returned, and `Exec` returning.
Assumed of goja (trusted): a pending interrupt stops interpreted code at its next instruction.
-/

namespace Watcher

inductive MainPc where
  | running | returned (interrupted : Bool) | cancelled (interrupted : Bool) | done (interrupted : Bool)
  deriving DecidableEq, Repr

inductive WatchPc where
  | waiting | woke | gone
  deriving DecidableEq, Repr

structure St where
  main       : MainPc
  watch      : WatchPc
  parentDone : Bool       -- the caller's context is cancelled or past its deadline
  cancelled  : Bool       -- `cancel()` was called
  pending    : Bool       -- an interrupt is pending in the runtime
  deriving DecidableEq, Repr

def St.init (expired : Bool) : St :=
  { main := .running, watch := .waiting, parentDone := expired, cancelled := false, pending := false }

inductive Act where
  | parentDone | wake | interrupt | finish | stop | cancel | ret
  deriving DecidableEq, Repr

/-- `terminates`: whether the script would finish by itself (an infinite loop never does) -/
def step (terminates : Bool) (s : St) : Act → Option St
  | .parentDone => some { s with parentDone := true }
  | .wake => if s.watch == .waiting && (s.parentDone || s.cancelled) then some { s with watch := .woke } else none
  | .interrupt => if s.watch == .woke then some { s with watch := .gone, pending := true } else none
  | .finish => if s.main == .running && terminates then some { s with main := .returned false } else none
  | .stop => if s.main == .running && s.pending then some { s with main := .returned true } else none
  | .cancel =>
    match s.main with
    | .returned i => some { s with main := .cancelled i, cancelled := true }
    | _ => none
  | .ret =>
    match s.main with
    | .cancelled i => some { s with main := .done i }
    | _ => none

def run (terminates : Bool) : St → List Act → Option St
  | s, [] => some s
  | s, a :: as => match step terminates s a with
    | some s' => run terminates s' as
    | none => none

def enabled (terminates : Bool) (s : St) (a : Act) : Bool := (step terminates s a).isSome

/-- the steps of the two goroutines (everything but the environment's `parentDone`) -/
def internal : List Act := [.wake, .interrupt, .finish, .stop, .cancel, .ret]

/-- nothing more can happen inside `Exec` and its watcher -/
def quiescent (terminates : Bool) (s : St) : Bool := internal.all (fun a => !enabled terminates s a)

end Watcher
