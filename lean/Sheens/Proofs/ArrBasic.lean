import Sheens.Proofs.MatchSound

/-! # Array arm, part 1: `getVariable`, indexes, branch lists, the branch invariant -/

/-- a pattern element that is a variable -/
def isVarV : V → Bool
  | .str s => isVar s
  | _ => false

theorem getVariable_some (l : List V) : ∀ (s : String) (acc : List V) (v' : Option String)
    (out : List V), getVariable l (some s) acc = .ok (v', out) →
    v' = some s ∧ out = acc.reverse ++ l ∧ ∀ x ∈ l, isVarV x = false := by
  induction l with
  | nil =>
    intro s acc v' out h
    simp only [getVariable] at h
    cases h
    simp
  | cons x xs ih =>
    intro s acc v' out h
    cases x
    case str t =>
      simp only [getVariable] at h
      split at h
      · split at h <;> cases h
      · next hv =>
        obtain ⟨h1, h2, h3⟩ := ih s _ v' out h
        refine ⟨h1, by simp [h2], ?_⟩
        intro y hy
        rcases List.mem_cons.mp hy with rfl | hy
        · simpa [isVarV] using hv
        · exact h3 y hy
    all_goals
      simp only [getVariable] at h
      obtain ⟨h1, h2, h3⟩ := ih s _ v' out h
      refine ⟨h1, by simp [h2], ?_⟩
      intro y hy
      rcases List.mem_cons.mp hy with rfl | hy
      · rfl
      · exact h3 y hy

theorem getVariable_none (l : List V) : ∀ (acc : List V) (v' : Option String)
    (out : List V), getVariable l none acc = .ok (v', out) →
    (v' = none ∧ out = acc.reverse ++ l ∧ ∀ x ∈ l, isVarV x = false) ∨
    (∃ s a b, v' = some s ∧ isVar s = true ∧ l = a ++ .str s :: b ∧ out = acc.reverse ++ (a ++ b) ∧
      ∀ x ∈ a ++ b, isVarV x = false) := by
  induction l with
  | nil =>
    intro acc v' out h
    simp only [getVariable] at h
    cases h
    simp
  | cons x xs ih =>
    intro acc v' out h
    have generic : ∀ (hx : isVarV x = false), getVariable xs none (x :: acc) = .ok (v', out) →
        (v' = none ∧ out = acc.reverse ++ x :: xs ∧ ∀ y ∈ x :: xs, isVarV y = false) ∨
        (∃ s a b, v' = some s ∧ isVar s = true ∧ x :: xs = a ++ .str s :: b ∧
          out = acc.reverse ++ (a ++ b) ∧ ∀ y ∈ a ++ b, isVarV y = false) := by
      intro hx h
      rcases ih _ v' out h with ⟨h1, h2, h3⟩ | ⟨s, a, b, h1, h2, h3, h4, h5⟩
      · left
        refine ⟨h1, by simp [h2], ?_⟩
        intro y hy
        rcases List.mem_cons.mp hy with rfl | hy
        · exact hx
        · exact h3 y hy
      · right
        refine ⟨s, x :: a, b, h1, h2, by simp [h3], by simp [h4], ?_⟩
        intro y hy
        rcases List.mem_cons.mp hy with rfl | hy
        · exact hx
        · exact h5 y hy
    cases x
    case str t =>
      simp only [getVariable] at h
      split at h
      · next hv =>
        obtain ⟨h1, h2, h3⟩ := getVariable_some xs t acc v' out h
        right
        exact ⟨t, [], xs, h1, hv, rfl, by simpa using h2, by simpa using h3⟩
      · next hv => exact generic (by simpa [isVarV] using hv) h
    all_goals
      simp only [getVariable] at h
      exact generic rfl h

theorem scalar_toV {x : V} {sc : Scalar} (h : x.scalar? = some sc) : x = sc.toV := by
  cases x <;> simp [V.scalar?] at h <;> subst h <;> rfl

theorem scalar_const {x : V} {sc : Scalar} (h : x.scalar? = some sc) (hv : isVarV x = false) :
    isScalarConst x = true := by
  cases x <;> simp_all [V.scalar?, isScalarConst, isVarV]

/-! ## the facts still available to a branch -/

def remOf (mm : List (Nat × V)) (fxs : List Scalar) : List V :=
  mm.map (·.2) ++ fxs.map Scalar.toV

def idxFresh (j : Nat) : List (Nat × V) → Prop
  | [] => True
  | e :: rest => e.1 ≠ j ∧ idxFresh j rest
def IdxNodup : List (Nat × V) → Prop
  | [] => True
  | e :: rest => idxFresh e.1 rest ∧ IdxNodup rest

theorem idxFresh_of_forall {j : Nat} {l : List (Nat × V)} (h : ∀ e ∈ l, e.1 ≠ j) : idxFresh j l := by
  induction l with
  | nil => trivial
  | cons e rest ih =>
    exact ⟨h e List.mem_cons_self, ih (fun e' he' => h e' (List.mem_cons_of_mem _ he'))⟩

theorem filter_of_idxFresh {j : Nat} {l : List (Nat × V)} (h : idxFresh j l) :
    l.filter (fun e => e.1 != j) = l := by
  induction l with
  | nil => rfl
  | cons e rest ih =>
    simp only [idxFresh] at h
    have h1 : (e.1 != j) = true := by simpa using h.1
    simp [h1, ih h.2]

theorem ne_of_idxFresh {i j : Nat} {fact : V} : ∀ (l : List (Nat × V)), idxFresh i l →
    (j, fact) ∈ l → i ≠ j := by
  intro l
  induction l with
  | nil => intro _ h; cases h
  | cons x l ihl =>
    intro hfr hmem
    simp only [idxFresh] at hfr
    rcases List.mem_cons.mp hmem with h | h
    · subst h; exact fun e' => hfr.1 e'.symm
    · exact ihl hfr.2 h

theorem split_of_mem {mm : List (Nat × V)} {j : Nat} {fact : V} (hn : IdxNodup mm)
    (hm : (j, fact) ∈ mm) :
    ∃ a b, mm = a ++ (j, fact) :: b ∧ mm.filter (fun e => e.1 != j) = a ++ b := by
  induction mm with
  | nil => cases hm
  | cons e rest ih =>
    simp only [IdxNodup] at hn
    rcases List.mem_cons.mp hm with heq | hm'
    · subst heq
      refine ⟨[], rest, rfl, ?_⟩
      simp [filter_of_idxFresh hn.1]
    · obtain ⟨a, b, hab, hf⟩ := ih hn.2 hm'
      have hne : e.1 ≠ j := ne_of_idxFresh rest hn.1 hm'
      refine ⟨e :: a, b, by simp [hab], ?_⟩
      have h1 : (e.1 != j) = true := by simpa using hne
      simp [h1, hf]

theorem idxFresh_remove {i : Nat} {x : Nat × V} {b : List (Nat × V)} :
    ∀ (l : List (Nat × V)), idxFresh i (l ++ x :: b) → idxFresh i (l ++ b) := by
  intro l
  induction l with
  | nil => intro h; simp only [List.nil_append, idxFresh] at h ⊢; exact h.2
  | cons y l ihl => intro h; simp only [List.cons_append, idxFresh] at h ⊢; exact ⟨h.1, ihl h.2⟩

theorem idxNodup_remove {x : Nat × V} {b : List (Nat × V)} :
    ∀ (a : List (Nat × V)), IdxNodup (a ++ x :: b) → IdxNodup (a ++ b) := by
  intro a
  induction a with
  | nil => intro hn; simp only [List.nil_append, IdxNodup] at hn ⊢; exact hn.2
  | cons e a ih =>
    intro hn
    simp only [List.cons_append, IdxNodup] at hn ⊢
    exact ⟨idxFresh_remove a hn.1, ih hn.2⟩

/-! ## the two indexes of the message array -/

theorem indexStruct_mem {fa : List V} : ∀ {i : Nat} {e : Nat × V}, e ∈ indexStruct fa i →
    i ≤ e.1 ∧ e.2 ∈ fa := by
  induction fa with
  | nil => intro i e h; simp [indexStruct] at h
  | cons x fa ih =>
    intro i e h
    simp only [indexStruct] at h
    split at h
    · obtain ⟨h1, h2⟩ := ih h
      exact ⟨by omega, List.mem_cons_of_mem _ h2⟩
    · rcases List.mem_cons.mp h with rfl | h
      · exact ⟨Nat.le_refl _, List.mem_cons_self⟩
      · obtain ⟨h1, h2⟩ := ih h
        exact ⟨by omega, List.mem_cons_of_mem _ h2⟩

theorem indexStruct_nodup {fa : List V} : ∀ {i : Nat}, IdxNodup (indexStruct fa i) := by
  induction fa with
  | nil => intro i; simp [indexStruct, IdxNodup]
  | cons x fa ih =>
    intro i
    simp only [indexStruct]
    split
    · exact ih
    · refine ⟨idxFresh_of_forall ?_, ih⟩
      intro e he
      have := (indexStruct_mem he).1
      simp only
      omega

/-- structured elements and de-duplicated scalars are distinct elements of the message array -/
theorem index_pickAll (fa : List V) : ∀ (acc : List Scalar) (i : Nat) (X L : List V),
    PickAll (X ++ acc.reverse.map Scalar.toV) L →
    PickAll ((X ++ (indexStruct fa i).map (·.2)) ++ (indexScalars fa acc).map Scalar.toV)
      (L ++ fa) := by
  induction fa with
  | nil =>
    intro acc i X L h
    simpa [indexStruct, indexScalars] using h
  | cons x fa ih =>
    intro acc i X L h
    have hL : L ++ x :: fa = (L ++ [x]) ++ fa := by simp
    rw [hL]
    simp only [indexStruct, indexScalars]
    cases hsc : x.scalar? with
    | some sc =>
      simp only
      split
      · exact ih acc (i+1) X (L ++ [x]) (h.weaken (Pick.snoc L x))
      · refine ih (sc :: acc) (i+1) X (L ++ [x]) ?_
        have h0 : PickAll ((X ++ acc.reverse.map Scalar.toV) ++ []) L := by simpa using h
        have := h0.insert (y := x) (Pick.snoc L x)
        rw [scalar_toV hsc] at this ⊢
        simpa using this
    | none =>
      simp only
      have := h.insert (y := x) (Pick.snoc L x)
      have h2 := ih acc (i+1) (X ++ [x]) (L ++ [x]) (by simpa using this)
      simpa using h2

theorem leftovers_mem {ss : List Scalar} : ∀ {i : Nat} {e : Nat × V}, e ∈ leftovers ss i →
    ∃ sc ∈ ss, e.2 = sc.toV := by
  induction ss with
  | nil => intro i e h; simp [leftovers] at h
  | cons s ss ih =>
    intro i e h
    simp only [leftovers] at h
    rcases List.mem_cons.mp h with rfl | h
    · exact ⟨s, List.mem_cons_self, rfl⟩
    · obtain ⟨sc, h1, h2⟩ := ih h
      exact ⟨sc, List.mem_cons_of_mem _ h1, h2⟩

/-! ## parallel lists of branches -/

inductive Brs (P : List Bs → List (Nat × V) → Prop) :
    List (List Bs) → List (List (Nat × V)) → Prop
  | nil : Brs P [] []
  | cons : P bss mm → Brs P bsss fxas → Brs P (bss :: bsss) (mm :: fxas)

theorem Brs.append {P} {a a' : List (List Bs)} {f f' : List (List (Nat × V))}
    (h : Brs P a f) (h' : Brs P a' f') : Brs P (a ++ a') (f ++ f') := by
  induction h with
  | nil => exact h'
  | cons hp _ ih => exact Brs.cons hp ih

theorem Brs.imp {P Q : List Bs → List (Nat × V) → Prop} {a : List (List Bs)}
    {f : List (List (Nat × V))} (hpq : ∀ bss mm, P bss mm → Q bss mm) (h : Brs P a f) :
    Brs Q a f := by
  induction h with
  | nil => exact Brs.nil
  | cons hp _ ih => exact Brs.cons (hpq _ _ hp) ih

theorem Brs.map_right {P Q : List Bs → List (Nat × V) → Prop} {a : List (List Bs)}
    {f : List (List (Nat × V))} (g : List (Nat × V) → List (Nat × V))
    (hpq : ∀ bss mm, P bss mm → Q bss (g mm)) (h : Brs P a f) : Brs Q a (f.map g) := by
  induction h with
  | nil => exact Brs.nil
  | cons hp _ ih => exact Brs.cons (hpq _ _ hp) ih

theorem Brs.mem {P} {a : List (List Bs)} {f : List (List (Nat × V))} {bss : List Bs}
    (h : Brs P a f) (hm : bss ∈ a) : ∃ mm, P bss mm := by
  induction h with
  | nil => cases hm
  | cons hp _ ih =>
    rcases List.mem_cons.mp hm with rfl | hm
    · exact ⟨_, hp⟩
    · exact ih hm

/-! ## the branch invariant -/

/-- what one `arrayOne` step delivers for the new branch `(acc, mm')` made from `(bss, mm)` -/
def StepRes (bs₀ : Bs) (vs : List String) (pat : V) (bss : List Bs) (mm : List (Nat × V))
    (acc : List Bs) (mm' : List (Nat × V)) : Prop :=
  ∃ j fact, (j, fact) ∈ mm ∧ mm' = mm.filter (fun e => e.1 != j) ∧
    ∀ r ∈ acc, ∃ b ∈ bss, Post vs b r ∧ Sat bs₀ r pat fact

/-- invariant for one backtracking branch: the pattern elements `done` are embedded in the
    message array `fa`, and the facts still on offer are distinct left-over elements -/
structure BInv (bs₀ : Bs) (vs : List String) (bs : Bs) (fa done : List V) (fxs : List Scalar)
    (bss : List Bs) (mm : List (Nat × V)) : Prop where
  goodFacts : ∀ e ∈ mm, e.2.good = true
  nodup : IdxNodup mm
  each : ∀ r ∈ bss, Post vs bs r ∧ ∃ L, ArrEmbL bs₀ r done fa L ∧ PickAll (remOf mm fxs) L

/-- one structured step for one result branch -/
theorem BInv.step_struct {bs₀ : Bs} {vs : List String} {bs : Bs} {fa done : List V}
    {fxs : List Scalar} {bss acc : List Bs} {mm mm' : List (Nat × V)} {x : V}
    (inv : BInv bs₀ vs bs fa done fxs bss mm) (hstep : StepRes bs₀ vs x bss mm acc mm') :
    BInv bs₀ vs bs fa (done ++ [x]) fxs acc mm' := by
  obtain ⟨j, fact, hm, rfl, hacc⟩ := hstep
  obtain ⟨a, b, hab, hf⟩ := split_of_mem inv.nodup hm
  refine ⟨?_, ?_, ?_⟩
  · intro e he; exact inv.goodFacts e ((List.mem_filter.mp he).1)
  · rw [hf]
    have hn := inv.nodup
    rw [hab] at hn
    exact idxNodup_remove a hn
  · intro r hr
    obtain ⟨b1, hb1, hpost, hsat⟩ := hacc r hr
    obtain ⟨hpost0, L, hemb, hpick⟩ := inv.each b1 hb1
    refine ⟨hpost0.trans hpost, ?_⟩
    have hrem : remOf mm fxs = (a.map (·.2)) ++ fact :: (b.map (·.2) ++ fxs.map Scalar.toV) := by
      simp [remOf, hab]
    rw [hrem] at hpick
    obtain ⟨L', hp1, hp2⟩ := hpick.remove
    refine ⟨L', (hemb.mono hpost.ext).snoc hp1 hsat, ?_⟩
    simpa [remOf, hf] using hp2

/-- one scalar step (all branches share the scalar set) -/
theorem BInv.step_scalar {bs₀ : Bs} {vs : List String} {bs : Bs} {fa done : List V}
    {fxs : List Scalar} {bss : List Bs} {mm : List (Nat × V)} {x : V} {sc : Scalar}
    (inv : BInv bs₀ vs bs fa done fxs bss mm) (hsc : x.scalar? = some sc)
    (hv : isVarV x = false) (hm : sc ∈ fxs) :
    BInv bs₀ vs bs fa (done ++ [x]) (fxs.erase sc) bss mm := by
  obtain ⟨l1, l2, _, hl, he⟩ := List.exists_erase_eq hm
  refine ⟨inv.goodFacts, inv.nodup, ?_⟩
  intro r hr
  obtain ⟨hpost, L, hemb, hpick⟩ := inv.each r hr
  refine ⟨hpost, ?_⟩
  have hrem : remOf mm fxs =
      (mm.map (·.2) ++ l1.map Scalar.toV) ++ sc.toV :: l2.map Scalar.toV := by
    simp [remOf, hl]
  rw [hrem] at hpick
  obtain ⟨L', hp1, hp2⟩ := hpick.remove
  refine ⟨L', hemb.snoc hp1 (Sat.scalar (scalar_const hsc hv) (scalar_toV hsc)), ?_⟩
  simpa [remOf, he] using hp2
