import Sheens.MCrew
import Sheens.Proofs.AssocLemmas

/-! # Lemmas about the mcrew service model (`MCrew.step`, `MCrew.writeAll`) -/

namespace MCrew

open Sio (find put del)

/-- what a write transaction does to a list of records -/
def applyW (st : List (String × Rec)) (changes : List (String × Option Rec)) : List (String × Rec) :=
  changes.foldl (fun st (mid, r) => match r with | some x => put mid x st | none => del mid st) st

/-- a successful write stored exactly the folded changes -/
theorem writeAll_some {s : Svc} {ch : List (String × Option Rec)} {st : List (String × Rec)}
    (h : writeAll s ch = some st) : st = applyW s.store ch := by
  unfold writeAll at h
  split at h
  · next he =>
    cases ch with
    | nil => cases h; rfl
    | cons _ _ => simp at he
  · split at h
    · cases h
    · cases h; rfl

/-- with the store down only the empty transaction succeeds -/
theorem writeAll_down {s : Svc} {ch : List (String × Option Rec)} {st : List (String × Rec)}
    (hd : s.storeUp = false) (h : writeAll s ch = some st) : ch = [] ∧ st = s.store := by
  unfold writeAll at h
  split at h
  · next he =>
    cases ch with
    | nil => cases h; exact ⟨rfl, rfl⟩
    | cons _ _ => simp at he
  · simp [hd] at h

theorem applyW_map_some (l : List (String × Rec)) (st : List (String × Rec)) :
    applyW st (l.map (fun (mid, r) => (mid, some r))) = l.foldl (fun m (mid, r) => put mid r m) st := by
  induction l generalizing st with
  | nil => rfl
  | cons x rest ih =>
    obtain ⟨mid, r⟩ := x
    simp only [List.map_cons, List.foldl_cons]
    unfold applyW at ih ⊢
    simp only [List.foldl_cons]
    exact ih _

/-- `step`, result by result -/
theorem step_add (specs : String → Option Spec) (limit : Option Int) (s : Svc) (spec id node : String)
    (bs : Option Bs) :
    let r : Rec := { spec := spec, state := { node := if node == "" then "start" else node, bs := some (copyB bs) } }
    step specs limit s (.add spec id node bs) =
      if (find id s.mem).isSome then (s, .exists_)
      else if s.storeUp then ({ s with store := put id r s.store, mem := put id r s.mem }, .ok)
      else (s, .writeFailed) := by
  intro r
  simp only [step]
  split
  · rfl
  · cases hu : s.storeUp <;> simp [writeAll, hu, r]

theorem step_rem (specs : String → Option Spec) (limit : Option Int) (s : Svc) (id : String) :
    step specs limit s (.rem id) =
      if s.storeUp then ({ s with store := del id s.store, mem := del id s.mem }, .ok)
      else (s, .writeFailed) := by
  simp only [step]
  cases hu : s.storeUp <;> simp [writeAll, hu]

end MCrew
