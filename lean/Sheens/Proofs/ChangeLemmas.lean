import Sheens.SioCrew
import Sheens.Proofs.AssocLemmas

/-!
# Lemmas about reported changes: `applyChanges`, the net list of `getChanged`, its suppression fold

Everything is stated per machine id: what a list of changes with distinct keys does to the store
entry of one id depends only on the entry for that id.
-/

namespace Sio

/-! ## `defaultState` / `stateCopy` -/

theorem copyB_some_copyB (b : Option Bs) : copyB (some (copyB b)) = copyB b := rfl

theorem defaultState_stateCopy (s : State) : defaultState (some (stateCopy s)) = defaultState (some s) := rfl

theorem stateCopy_stateCopy (s : State) : stateCopy (stateCopy s) = stateCopy s := rfl

theorem defaultState_defaultState (o : Option State) : defaultState (some (defaultState o)) = defaultState o := by
  cases o with
  | none => simp [defaultState, copyB]
  | some st =>
    simp only [defaultState, copyB]
    by_cases h : (st.node == "") = true
    · simp [h]
    · simp [h]

/-! ## one change applied to a store -/

def noStored : Stored := { state := none, src := none }

/-- a non-deleting change applied to a stored record -/
def upd (old : Stored) (ch : Changed) : Stored :=
  let s1 := match ch.state with | some x => { old with state := some (stateCopy x) } | none => old
  match ch.src with | some x => { s1 with src := some x } | none => s1

/-- one step of the consumer's fold -/
def applyOne (st : List (String × Stored)) (mid : String) (ch : Changed) : List (String × Stored) :=
  if ch.deleted then del mid st else put mid (upd ((find mid st).getD noStored) ch) st

/-- what one change does to the entry of its own id -/
def app1 (o : Option Stored) (ch : Changed) : Option Stored :=
  if ch.deleted then none else some (upd (o.getD noStored) ch)

theorem applyChanges_nil (st : List (String × Stored)) : applyChanges st [] = st := rfl

theorem applyChanges_cons (st : List (String × Stored)) (mid : String) (ch : Changed)
    (rest : List (String × Changed)) :
    applyChanges st ((mid, ch) :: rest) = applyChanges (applyOne st mid ch) rest := rfl

theorem applyChanges_one (st : List (String × Stored)) (mid : String) (ch : Changed) :
    applyChanges st [(mid, ch)] = applyOne st mid ch := rfl

theorem applyChanges_append (st : List (String × Stored)) (l1 l2 : List (String × Changed)) :
    applyChanges st (l1 ++ l2) = applyChanges (applyChanges st l1) l2 := by
  simp only [applyChanges, List.foldl_append]

theorem upd_state (old : Stored) (ch : Changed) :
    (upd old ch).state = match ch.state with | some x => some (stateCopy x) | none => old.state := by
  unfold upd
  cases ch.state <;> cases ch.src <;> rfl

theorem upd_src (old : Stored) (ch : Changed) :
    (upd old ch).src = match ch.src with | some x => some x | none => old.src := by
  unfold upd
  cases ch.state <;> cases ch.src <;> rfl

theorem stored_ext {a b : Stored} (h1 : a.state = b.state) (h2 : a.src = b.src) : a = b := by
  cases a; cases b; simp only at h1 h2; subst h1; subst h2; rfl

theorem upd_upd (old : Stored) (ch : Changed) : upd (upd old ch) ch = upd old ch := by
  apply stored_ext
  · rw [upd_state, upd_state]; cases ch.state <;> rfl
  · rw [upd_src, upd_src]; cases ch.src <;> rfl

theorem find_applyOne_self (st : List (String × Stored)) (mid : String) (ch : Changed) :
    find mid (applyOne st mid ch) = app1 (find mid st) ch := by
  unfold applyOne app1
  split
  · exact find_del_self _ _
  · exact find_put_self _ _ _

theorem find_applyOne_ne (st : List (String × Stored)) {mid k : String} (ch : Changed) (h : k ≠ mid) :
    find k (applyOne st mid ch) = find k st := by
  unfold applyOne
  split
  · exact find_del_ne _ h
  · exact find_put_ne _ _ h

/-- whether a change is a fixpoint of a store depends only on the store's entry for that id -/
theorem applyOne_fix_iff (st : List (String × Stored)) (mid : String) (q : Changed) :
    applyOne st mid q = st ↔ app1 (find mid st) q = find mid st := by
  unfold applyOne app1
  split
  · rw [del_eq_self_iff]; exact ⟨fun h => h.symm, fun h => h.symm⟩
  · rw [put_eq_self_iff]; exact ⟨fun h => h.symm, fun h => h.symm⟩

theorem applyOne_fix_congr {st1 st2 : List (String × Stored)} {mid : String} {q : Changed}
    (hf : find mid st2 = find mid st1) (h : applyOne st1 mid q = st1) : applyOne st2 mid q = st2 := by
  rw [applyOne_fix_iff] at h ⊢
  rw [hf]; exact h

theorem applyOne_idem (st : List (String × Stored)) (mid : String) (p : Changed) :
    applyOne (applyOne st mid p) mid p = applyOne st mid p := by
  rw [applyOne_fix_iff, find_applyOne_self]
  unfold app1
  split
  · rfl
  · simp only [Option.getD_some, upd_upd]

/-- a list of changes with distinct ids, seen from one id -/
theorem find_applyChanges (l : List (String × Changed)) (hn : (l.map (·.1)).Nodup) :
    ∀ (st : List (String × Stored)) (mid : String),
      find mid (applyChanges st l) =
        match find mid l with
        | none => find mid st
        | some ch => app1 (find mid st) ch := by
  induction l with
  | nil => intro st mid; rfl
  | cons p rest ih =>
    obtain ⟨k, ch⟩ := p
    intro st mid
    simp only [List.map_cons, List.nodup_cons] at hn
    rw [applyChanges_cons, ih hn.2]
    by_cases hk : mid = k
    · subst hk
      rw [find_eq_none_of_not_mem hn.1]
      simp only [find, if_true]
      exact find_applyOne_self _ _ _
    · simp only [find, if_neg hk]
      rw [find_applyOne_ne _ _ hk]

/-! ## the net report -/

/-- the net form of one cached change -/
def net (ch : Changed) : Changed :=
  if ch.deleted then { state := none, src := none, deleted := true }
  else { state := ch.state.map stateCopy, src := ch.src, deleted := false }

def netList (changed : List (String × Changed)) : List (String × Changed) :=
  (changed.filter (fun p => p.1 != captainId)).map (fun p => (p.1, net p.2))

theorem netList_eq (changed : List (String × Changed)) :
    (changed.filter (fun p => p.1 != captainId)).map (fun (mid, ch) =>
      if ch.deleted then (mid, ({ state := none, src := none, deleted := true } : Changed))
      else (mid, { state := ch.state.map stateCopy, src := ch.src, deleted := false })) = netList changed := by
  unfold netList
  congr 1
  funext p
  obtain ⟨mid, ch⟩ := p
  simp only [net]
  split <;> rfl

theorem find_netList (changed : List (String × Changed)) (mid : String) (h : mid ≠ captainId) :
    find mid (netList changed) = (find mid changed).map net := by
  unfold netList
  rw [find_map_snd, find_filter_key _ _ _ h]

theorem keys_netList (changed : List (String × Changed)) :
    (netList changed).map (·.1) = (changed.map (·.1)).filter (fun k => k != captainId) := by
  unfold netList
  induction changed with
  | nil => rfl
  | cons p rest ih =>
    simp only [List.filter_cons, List.map_cons]
    split <;> simp_all

theorem nodup_netList {changed : List (String × Changed)} (h : (changed.map (·.1)).Nodup) :
    ((netList changed).map (·.1)).Nodup := by
  rw [keys_netList]
  exact List.Pairwise.filter _ h

theorem net_deleted (ch : Changed) : (net ch).deleted = ch.deleted := by
  unfold net
  split
  · next h => simp [h]
  · next h => simp at h; simp [h]

/-- the pending effect on one stored entry -/
def eff (o : Option Stored) (och : Option Changed) : Option Stored :=
  match och with
  | none => o
  | some ch => app1 o (net ch)

theorem find_apply_netList (changed : List (String × Changed)) (hn : (changed.map (·.1)).Nodup)
    (st : List (String × Stored)) (mid : String) (h : mid ≠ captainId) :
    find mid (applyChanges st (netList changed)) = eff (find mid st) (find mid changed) := by
  rw [find_applyChanges _ (nodup_netList hn), find_netList _ _ h]
  unfold eff
  cases find mid changed <;> rfl

theorem app1_net_not_deleted (o : Option Stored) (ch : Changed) (h : ch.deleted = false) :
    app1 o (net ch) = some (upd (o.getD noStored) (net ch)) := by
  unfold app1
  rw [net_deleted, h]; rfl

theorem app1_net_deleted (o : Option Stored) (ch : Changed) (h : ch.deleted = true) :
    app1 o (net ch) = none := by
  unfold app1
  rw [net_deleted, h]; rfl

theorem upd_net_state (old : Stored) (ch : Changed) (h : ch.deleted = false) :
    (upd old (net ch)).state =
      match ch.state with | some x => some (stateCopy (stateCopy x)) | none => old.state := by
  rw [upd_state]
  unfold net
  simp only [h, Bool.false_eq_true, if_false]
  cases ch.state <;> rfl

theorem upd_net_src (old : Stored) (ch : Changed) (h : ch.deleted = false) :
    (upd old (net ch)).src = match ch.src with | some x => some x | none => old.src := by
  rw [upd_src]
  unfold net
  simp only [h, Bool.false_eq_true, if_false]

/-- with no pending deletion, the pending effect that yields an entry is `upd` of the cached change -/
theorem eff_some {o : Option Stored} {och : Option Changed} {E : Stored}
    (hnd : (och.getD emptyChanged).deleted = false) (h : eff o och = some E) :
    upd (o.getD noStored) (net (och.getD emptyChanged)) = E := by
  cases och with
  | none =>
    simp only [eff] at h
    subst h
    apply stored_ext
    · rw [upd_net_state _ _ hnd]; rfl
    · rw [upd_net_src _ _ hnd]; rfl
  | some ch =>
    simp only [Option.getD_some] at hnd ⊢
    simp only [eff, app1_net_not_deleted _ _ hnd, Option.some.injEq] at h
    exact h

/-- with no pending deletion, a missing entry means nothing is pending and nothing is stored -/
theorem eff_none {o : Option Stored} {och : Option Changed}
    (hnd : (och.getD emptyChanged).deleted = false) (h : eff o och = none) : och = none ∧ o = none := by
  cases och with
  | none => exact ⟨rfl, h⟩
  | some ch =>
    simp only [Option.getD_some] at hnd
    simp [eff, app1_net_not_deleted _ _ hnd] at h

/-! ## views -/

/-- what a store says about a stored record -/
def sview (s : Stored) : State × Option V := (defaultState s.state, s.src)

/-- what the live crew says about a machine -/
def mview (m : Machine) : State × Option V := (defaultState (some m.state), m.src)

/-! ## `setMachine`, field by field -/

def newM (resolve : V → Option Spec) (om : Option Machine) (src : Option V) (state : Option State) : Machine :=
  let m : Machine := match om with
    | none => { spec := none, src := none, state := defaultState state }
    | some m => (match state with
      | some _ => { m with state := defaultState state }
      | none => m)
  match src with
  | some s => { m with src := some s, spec := resolve s }
  | none => m

def newCh (ch : Changed) (src : Option V) (state : Option State) : Changed :=
  let ch := match src with | some s => { ch with src := some s } | none => ch
  match state with | some _ => { ch with state := some (defaultState state) } | none => ch

theorem setMachine_machines (resolve : V → Option Spec) (c : Crew) (mid : String) (src : Option V)
    (state : Option State) :
    (setMachine resolve c mid src state).machines = put mid (newM resolve (find mid c.machines) src state) c.machines := by
  unfold setMachine newM
  cases find mid c.machines <;> cases state <;> cases src <;> rfl

theorem setMachine_changed (resolve : V → Option Spec) (c : Crew) (mid : String) (src : Option V)
    (state : Option State) :
    (setMachine resolve c mid src state).changed =
      if src.isSome || state.isSome then put mid (newCh (changeOf c mid) src state) c.changed else c.changed := by
  unfold setMachine newCh
  cases find mid c.machines <;> cases state <;> cases src <;> rfl

theorem setMachine_previous (resolve : V → Option Spec) (c : Crew) (mid : String) (src : Option V)
    (state : Option State) : (setMachine resolve c mid src state).previous = c.previous := by
  unfold setMachine
  cases find mid c.machines <;> cases state <;> cases src <;> rfl

theorem newCh_deleted (ch : Changed) (src : Option V) (state : Option State) :
    (newCh ch src state).deleted = ch.deleted := by
  unfold newCh; cases src <;> cases state <;> rfl

theorem newCh_state (ch : Changed) (src : Option V) (state : Option State) :
    (newCh ch src state).state = match state with | some _ => some (defaultState state) | none => ch.state := by
  unfold newCh; cases src <;> cases state <;> rfl

theorem newCh_src (ch : Changed) (src : Option V) (state : Option State) :
    (newCh ch src state).src = match src with | some s => some s | none => ch.src := by
  unfold newCh; cases src <;> cases state <;> rfl

theorem mview_newM_none (resolve : V → Option Spec) (src : Option V) (state : Option State) :
    mview (newM resolve none src state) = (defaultState state, src) := by
  unfold newM mview
  cases src <;> simp only [defaultState_defaultState]

theorem mview_newM_some (resolve : V → Option Spec) (m : Machine) (src : Option V) (state : Option State) :
    mview (newM resolve (some m) src state) =
      ((match state with | some _ => defaultState state | none => defaultState (some m.state)),
       (match src with | some s => some s | none => m.src)) := by
  unfold newM mview
  cases src <;> cases state <;> simp only [defaultState_defaultState]

/-! ## the suppression fold of `getChanged` -/

def gstep (same : Changed → Changed → Bool)
    (acc : List (String × Changed) × List (String × Changed)) (p : String × Changed) :
    List (String × Changed) × List (String × Changed) :=
  let (prev, out) := acc
  if p.2.deleted then (del p.1 prev, out ++ [p])
  else
    match find p.1 prev with
    | some q => if same p.2 q then (prev, out) else (put p.1 p.2 prev, out ++ [p])
    | none => (put p.1 p.2 prev, out ++ [p])

theorem getChanged_eq (same : Changed → Changed → Bool) (c : Crew) :
    getChanged same c =
      ({ c with changed := [], previous := ((netList c.changed).foldl (gstep same) (c.previous, [])).1 },
       ((netList c.changed).foldl (gstep same) (c.previous, [])).2) := by
  rw [← netList_eq]
  rfl

/-- the cache after a report was emitted for `k` -/
theorem cache_after_emit {st : List (String × Stored)} {prev prev' : List (String × Changed)}
    {k : String} {ch : Changed}
    (hI : ∀ mid q, find mid prev = some q → applyOne st mid q = st)
    (hother : ∀ mid, mid ≠ k → find mid prev' = find mid prev)
    (hself : ∀ q, find k prev' = some q → q = ch ∧ ch.deleted = false) :
    ∀ mid q, find mid prev' = some q → applyOne (applyOne st k ch) mid q = applyOne st k ch := by
  intro mid q hq
  by_cases hk : mid = k
  · subst hk
    obtain ⟨rfl, _⟩ := hself q hq
    exact applyOne_idem _ _ _
  · rw [hother mid hk] at hq
    exact applyOne_fix_congr (find_applyOne_ne _ _ hk) (hI mid q hq)

/-- The fold invariant: the emitted reports have the same effect on the store as the whole net
    list, and the store reflects every report in the cache. -/
theorem gfold_inv (same : Changed → Changed → Bool)
    (hsame : ∀ a b, same a b = true → ∀ st mid, applyChanges st [(mid, a)] = applyChanges st [(mid, b)])
    (store : List (String × Stored)) (l : List (String × Changed)) :
    ∀ (prev out : List (String × Changed)),
      (∀ mid q, find mid prev = some q → applyOne (applyChanges store out) mid q = applyChanges store out) →
      applyChanges store (l.foldl (gstep same) (prev, out)).2 = applyChanges (applyChanges store out) l ∧
      (∀ mid q, find mid (l.foldl (gstep same) (prev, out)).1 = some q →
        applyOne (applyChanges store (l.foldl (gstep same) (prev, out)).2) mid q =
          applyChanges store (l.foldl (gstep same) (prev, out)).2) := by
  induction l with
  | nil => intro prev out hI; exact ⟨rfl, hI⟩
  | cons p rest ih =>
    obtain ⟨k, ch⟩ := p
    intro prev out hI
    simp only [List.foldl_cons]
    rw [applyChanges_cons]
    have hemit : ∀ prev', (∀ mid, mid ≠ k → find mid prev' = find mid prev) →
        (∀ q, find k prev' = some q → q = ch ∧ ch.deleted = false) →
        applyChanges store (rest.foldl (gstep same) (prev', out ++ [(k, ch)])).2 =
          applyChanges (applyOne (applyChanges store out) k ch) rest ∧
        (∀ mid q, find mid (rest.foldl (gstep same) (prev', out ++ [(k, ch)])).1 = some q →
          applyOne (applyChanges store (rest.foldl (gstep same) (prev', out ++ [(k, ch)])).2) mid q =
            applyChanges store (rest.foldl (gstep same) (prev', out ++ [(k, ch)])).2) := by
      intro prev' hother hself
      have hst : applyChanges store (out ++ [(k, ch)]) = applyOne (applyChanges store out) k ch := by
        rw [applyChanges_append, applyChanges_one]
      have := ih prev' (out ++ [(k, ch)]) (by rw [hst]; exact cache_after_emit hI hother hself)
      rw [hst] at this
      exact this
    cases hd : ch.deleted with
    | true =>
      have hg : gstep same (prev, out) (k, ch) = (del k prev, out ++ [(k, ch)]) := by
        simp only [gstep, hd, if_true]
      rw [hg]
      refine hemit _ (fun mid hm => find_del_ne _ hm) ?_
      intro q hq; rw [find_del_self] at hq; cases hq
    | false =>
      cases hf : find k prev with
      | none =>
        have hg : gstep same (prev, out) (k, ch) = (put k ch prev, out ++ [(k, ch)]) := by
          simp only [gstep, hd, hf, Bool.false_eq_true, if_false]
        rw [hg]
        refine hemit _ (fun mid hm => find_put_ne _ _ hm) ?_
        intro q hq; rw [find_put_self] at hq; cases hq; exact ⟨rfl, hd⟩
      | some q =>
        cases hs : same ch q with
        | true =>
          have hg : gstep same (prev, out) (k, ch) = (prev, out) := by
            simp only [gstep, hd, hf, hs, Bool.false_eq_true, if_false, if_true]
          rw [hg]
          have hfix : applyOne (applyChanges store out) k ch = applyChanges store out := by
            have := hsame ch q hs (applyChanges store out) k
            rw [applyChanges_one, applyChanges_one] at this
            rw [this]; exact hI k q hf
          rw [hfix]
          exact ih prev out hI
        | false =>
          have hg : gstep same (prev, out) (k, ch) = (put k ch prev, out ++ [(k, ch)]) := by
            simp only [gstep, hd, hf, hs, Bool.false_eq_true, if_false]
          rw [hg]
          refine hemit _ (fun mid hm => find_put_ne _ _ hm) ?_
          intro q' hq; rw [find_put_self] at hq; cases hq; exact ⟨rfl, hd⟩

end Sio
