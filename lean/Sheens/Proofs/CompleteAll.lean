import Sheens.Proofs.CompleteMain
import Sheens.Proofs.CompleteNoErr
import Sheens.Props.MatchTotal

/-!
# Completeness (C02), part 5: termination + no error + the embedding argument
-/

namespace Sheens.Complete

/-- The general form of the completeness theorem: besides `r ⊆ σ`, the result `r` extends the given
    bindings, binds every non-optional, non-anonymous variable of the pattern, and binds nothing but
    given keys, variables of the pattern and scalar-valued counterparts of inequality variables. -/
theorem complete_gen (p f : V) (bs₀ σ : Bs)
    (hp : p.plainPat = true) (hf : f.good = true) (hs : setLike f = true)
    (hb : GoodBs bs₀) (hσ : GoodBs σ) (hext : Extends bs₀ σ) (hi : IneqPrebound p bs₀)
    (hrep : RepeatScalar p bs₀ σ) (hibn : IBN (varsOf p) bs₀ σ)
    (hemb : Emb bs₀ σ p f) :
    ∃ n rs, matchF n p f bs₀ = .ok rs ∧ ∃ r ∈ rs, Res bs₀ σ bs₀ (varsOf p) r := by
  have hPB : PB (varsOf p) bs₀ := hi
  have hS : Side bs₀ σ (varsOf p) := ⟨hPB, hibn, hσ⟩
  have hok : Ok σ (varsOf p) bs₀ := by
    intro v _ hc x hx
    refine hrep v x hx ?_
    rcases hc with hc | hc
    · exact Or.inr hc
    · left
      unfold occurrences
      rw [← List.count_eq_length_filter]
      exact hc
  obtain ⟨N, hN⟩ := Sheens.MatchTotal.matchF_terminates p f bs₀
  refine ⟨N, ?_⟩
  cases h : matchF N p f bs₀ with
  | diverge => exact absurd h (hN N (Nat.le_refl _))
  | err e =>
    exact absurd h ((noerr_all hPB N).1 p f bs₀ e hp (emb_patOK hemb) hf (fun _ h => h)
      ⟨Extends.refl _, hb⟩)
  | ok rs =>
    exact ⟨rs, rfl, main_all hS hemb N bs₀ rs ⟨Extends.refl _, hb, hext⟩ hok (fun _ h => h)
      hp hf hs h⟩

end Sheens.Complete
