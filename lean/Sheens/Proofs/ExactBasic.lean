import Sheens.MatchSpecC
import Sheens.Proofs.All
import Sheens.Proofs.CompleteBasic

/-!
# Exact soundness of the matcher (C02, second sentence), part 1: bookkeeping

For a *linear* pattern whose variables are *plain* (neither optional nor inequality-named) and a
run that starts from bindings in which no variable of the pattern is bound, every variable position
is reached with that variable still unbound; the matcher then conses `(v, message value)`.

* `Lin vs`      : the non-anonymous names of `vs` are pairwise distinct
* `PV vs`       : no name of `vs` is optional or inequality-named
* `Fresh vs bs` : no non-anonymous name of `vs` is bound in `bs`
* `XPost vs bs r` : `r` extends `bs` and the new keys are non-anonymous names of `vs`

plus monotonicity of `Emb` in the assignment and the `ArrEmbX` counterparts of the `ArrEmbL` lemmas.
-/

namespace Sheens.Exact

open Sheens.Complete (varsOfList_append varsOf_str_var varsOfList_split varsOfList_mem_sub)

/-! ## lists of variable names -/

def Lin (vs : List String) : Prop := (vs.filter (fun v => !isAnon v)).Nodup

def PV (vs : List String) : Prop := ∀ v ∈ vs, isOptVar (.str v) = false ∧ ineqOf v = none

def Fresh (vs : List String) (bs : Bs) : Prop := ∀ v ∈ vs, isAnon v = false → lookup v bs = none

structure XPost (vs : List String) (bs r : Bs) : Prop where
  ext  : Extends bs r
  keys : ∀ k, lookup k r ≠ none → lookup k bs ≠ none ∨ (k ∈ vs ∧ isAnon k = false)

theorem Lin.left {a b : List String} (h : Lin (a ++ b)) : Lin a := by
  unfold Lin at h ⊢
  rw [List.filter_append] at h
  exact (List.nodup_append.mp h).1

theorem Lin.right {a b : List String} (h : Lin (a ++ b)) : Lin b := by
  unfold Lin at h ⊢
  rw [List.filter_append] at h
  exact (List.nodup_append.mp h).2.1

theorem Lin.disj {a b : List String} (h : Lin (a ++ b)) {v : String} (ha : v ∈ a) (hb : v ∈ b)
    (hn : isAnon v = false) : False := by
  unfold Lin at h
  rw [List.filter_append] at h
  have := (List.nodup_append.mp h).2.2 v (List.mem_filter.mpr ⟨ha, by simp [hn]⟩) v
    (List.mem_filter.mpr ⟨hb, by simp [hn]⟩)
  exact this rfl

theorem Lin.perm {a b : List String} (hp : a.Perm b) (h : Lin a) : Lin b := by
  unfold Lin at h ⊢
  exact ((hp.filter _).nodup_iff).mp h

theorem Lin.nil : Lin [] := by simp [Lin]

theorem PV.sub {a b : List String} (hs : ∀ v ∈ a, v ∈ b) (h : PV b) : PV a :=
  fun v hv => h v (hs v hv)

theorem Fresh.sub {a b : List String} {bs : Bs} (hs : ∀ v ∈ a, v ∈ b) (h : Fresh b bs) :
    Fresh a bs := fun v hv => h v (hs v hv)

theorem XPost.refl (vs : List String) (bs : Bs) : XPost vs bs bs :=
  ⟨Extends.refl _, fun _ h => Or.inl h⟩

theorem XPost.sub {a b : List String} {bs r : Bs} (hs : ∀ v ∈ a, v ∈ b) (h : XPost a bs r) :
    XPost b bs r :=
  ⟨h.ext, fun k hk => by
    rcases h.keys k hk with h' | ⟨h1, h2⟩
    · exact Or.inl h'
    · exact Or.inr ⟨hs k h1, h2⟩⟩

theorem XPost.seq {a b : List String} {bs r1 r2 : Bs} (h1 : XPost a bs r1) (h2 : XPost b r1 r2) :
    XPost (a ++ b) bs r2 :=
  ⟨h1.ext.trans h2.ext, fun k hk => by
    rcases h2.keys k hk with h' | ⟨h3, h4⟩
    · rcases h1.keys k h' with h'' | ⟨h3, h4⟩
      · exact Or.inl h''
      · exact Or.inr ⟨List.mem_append_left _ h3, h4⟩
    · exact Or.inr ⟨List.mem_append_right _ h3, h4⟩⟩

/-- after the part `a` has been processed, the variables of the part `b` are still unbound -/
theorem Fresh.step {a b : List String} {bs r : Bs} (hf : Fresh (a ++ b) bs) (hl : Lin (a ++ b))
    (hp : XPost a bs r) : Fresh b r := by
  intro v hv hn
  cases hr : lookup v r with
  | none => rfl
  | some x =>
    exfalso
    rcases hp.keys v (by rw [hr]; simp) with h | ⟨h1, _⟩
    · exact h (hf v (List.mem_append_right _ hv) hn)
    · exact hl.disj h1 hv hn

/-! ## `Emb` is monotone in the assignment -/

theorem _root_.VarAt.mono {bs₀ r r' : Bs} (he : Extends r r') {v : String} {f : V}
    (h : VarAt bs₀ r v f) : VarAt bs₀ r' v f := by
  rcases h with h | ⟨h1, h2, h3⟩ | ⟨op, base, bv, b, a, cv, h1, h2, h3, h4, h5, h6, h7⟩
  · exact Or.inl h
  · exact Or.inr (Or.inl ⟨h1, ineqActive_mono he h2, he _ _ h3⟩)
  · exact Or.inr (Or.inr ⟨op, base, bv, b, a, cv, h1, h2, h3, h4, h5, he _ _ h6, h7⟩)

theorem _root_.Emb.mono {bs₀ r r' : Bs} (he : Extends r r') : ∀ {p f}, Emb bs₀ r p f → Emb bs₀ r' p f := by
  intro p f h
  refine Emb.rec (bs₀ := bs₀) (σ := r)
    (motive_1 := fun p f _ => Emb bs₀ r' p f)
    (motive_2 := fun pm fm _ => ObjEmb bs₀ r' pm fm)
    (motive_3 := fun ps fs L _ => ArrEmbX bs₀ r' ps fs L)
    ?_ ?_ ?_ ?_ ?_ ?_ ?_ ?_ ?_ ?_ ?_ h
  · intro p f hp heq; exact Emb.scalar hp heq
  · intro v f hv hva; exact Emb.var hv (hva.mono he)
  · intro fm; exact Emb.objEmpty
  · intro k fm fk fv pv hk hm hva _ ih; exact Emb.objProp hk hm (hva.mono he) ih
  · intro pm fm hne _ ih; exact Emb.obj hne ih
  · intro ps vo xs fs L hg _ hvo ih
    refine Emb.arr hg ih ?_
    cases vo with
    | none => trivial
    | some v =>
      rcases hvo with ⟨f, hf, hva⟩ | h
      · exact Or.inl ⟨f, hf, hva.mono he⟩
      · exact Or.inr h
  · intro fm; exact ObjEmb.nil
  · intro k fm fv pv rest hk hl _ _ ih1 ih2; exact ObjEmb.present hk hl ih1 ih2
  · intro k fm pv rest hk hl ho _ ih; exact ObjEmb.absent hk hl ho ih
  · intro fs; exact ArrEmbX.nil
  · intro f fs fs' p ps L hp _ _ ih1 ih2; exact ArrEmbX.cons hp ih1 ih2

theorem _root_.ObjEmb.mono {bs₀ r r' : Bs} (he : Extends r r') :
    ∀ {pm fm}, ObjEmb bs₀ r pm fm → ObjEmb bs₀ r' pm fm := by
  intro pm fm h
  induction pm with
  | nil => exact ObjEmb.nil
  | cons kv rest ih =>
    cases h with
    | present hk hl hs hr => exact ObjEmb.present hk hl (Emb.mono he hs) (ih hr)
    | absent hk hl ho hr => exact ObjEmb.absent hk hl ho (ih hr)

theorem _root_.ArrEmbX.mono {bs₀ r r' : Bs} (he : Extends r r') {ps fs L : List V}
    (h : ArrEmbX bs₀ r ps fs L) : ArrEmbX bs₀ r' ps fs L := by
  induction ps generalizing fs with
  | nil => cases h; exact ArrEmbX.nil
  | cons p ps ih =>
    cases h with
    | cons hp hs hrest => exact ArrEmbX.cons hp (Emb.mono he hs) (ih hrest)

/-- a variable pattern is embedded only by `VarAt` -/
theorem _root_.Emb.var_inv {bs₀ r : Bs} {v : String} {f : V} (hv : isVar v = true)
    (h : Emb bs₀ r (.str v) f) : VarAt bs₀ r v f := by
  cases h with
  | scalar hc _ => simp [isScalarConst, hv] at hc
  | var _ hva => exact hva

/-! ## `ArrEmbX`: pick first, insert, snoc -/

theorem _root_.ArrEmbX.pick_first {bs₀ r : Bs} {ps fs L L' : List V} {f : V}
    (h : ArrEmbX bs₀ r ps fs L) (hp : Pick f L L') :
    ∃ fs', Pick f fs fs' ∧ ArrEmbX bs₀ r ps fs' L' := by
  induction ps generalizing fs with
  | nil => cases h; exact ⟨_, hp, ArrEmbX.nil⟩
  | cons p ps ih =>
    cases h with
    | cons hg hs hrest =>
      obtain ⟨fs1', h1, h2⟩ := ih hrest
      obtain ⟨m, hm1, hm2⟩ := Pick.comm hg h1
      exact ⟨m, hm1, ArrEmbX.cons hm2 hs h2⟩

theorem _root_.ArrEmbX.insert {bs₀ r : Bs} {a b fs L L' : List V} {x f : V}
    (h : ArrEmbX bs₀ r (a ++ b) fs L) (hp : Pick f L L') (hs : Emb bs₀ r x f) :
    ArrEmbX bs₀ r (a ++ x :: b) fs L' := by
  induction a generalizing fs with
  | nil =>
    obtain ⟨fs', h1, h2⟩ := h.pick_first hp
    exact ArrEmbX.cons h1 hs h2
  | cons y a ih =>
    cases h with
    | cons hg hy hrest => exact ArrEmbX.cons hg hy (ih hrest)

theorem _root_.ArrEmbX.snoc {bs₀ r : Bs} {done fs L L' : List V} {x f : V}
    (h : ArrEmbX bs₀ r done fs L) (hp : Pick f L L') (hs : Emb bs₀ r x f) :
    ArrEmbX bs₀ r (done ++ [x]) fs L' := by
  have h0 : ArrEmbX bs₀ r (done ++ []) fs L := by simpa using h
  exact h0.insert hp hs

/-! ## the matcher never takes the inequality reading for a plain name -/

theorem inequal_plain {f : V} {bs : Bs} {s : String} (h : ineqOf s = none) :
    inequal f bs s = none := by
  unfold inequal
  split
  · rfl
  · split
    · rfl
    · split
      · rfl
      · rw [h]

theorem ineqActive_nil (r : Bs) (v : String) (f : V) : ineqActive [] r v f = false := by
  unfold ineqActive
  split
  · rfl
  · simp [lookup]

theorem varAt_cons {s : String} {f : V} {bs : Bs} (hn : isAnon s = false) :
    VarAt [] ((s, f) :: bs) s f :=
  Or.inr (Or.inl ⟨hn, ineqActive_nil _ _ _, by simp [lookup]⟩)

end Sheens.Exact
