import Sheens.SioCrew

/-! # Lemmas about the association-list helpers `Sio.find` / `Sio.put` / `Sio.del` -/

namespace Sio

variable {α : Type}

theorem find_put_self (k : String) (v : α) (l : List (String × α)) :
    find k (put k v l) = some v := by
  induction l with
  | nil => simp [put, find]
  | cons kv rest ih =>
    obtain ⟨k', v'⟩ := kv
    simp only [put]
    split
    · simp [find]
    · next hne => simp only [find, if_neg hne]; exact ih

theorem find_put_ne {k k' : String} (v : α) (l : List (String × α)) (h : k ≠ k') :
    find k (put k' v l) = find k l := by
  induction l with
  | nil => simp [put, find, h]
  | cons kv rest ih =>
    obtain ⟨k'', v''⟩ := kv
    simp only [put]
    split
    · next heq => subst heq; simp [find, h]
    · next hne =>
      simp only [find]
      split
      · rfl
      · exact ih

theorem find_put (k k' : String) (v : α) (l : List (String × α)) :
    find k (put k' v l) = if k = k' then some v else find k l := by
  split
  · next h => subst h; exact find_put_self _ _ _
  · next h => exact find_put_ne _ _ h

theorem find_del_self (k : String) (l : List (String × α)) : find k (del k l) = none := by
  induction l with
  | nil => simp [del, find]
  | cons kv rest ih =>
    obtain ⟨k', v'⟩ := kv
    simp only [del]
    split
    · exact ih
    · next hne => simp only [find, if_neg hne]; exact ih

theorem find_del_ne {k k' : String} (l : List (String × α)) (h : k ≠ k') :
    find k (del k' l) = find k l := by
  induction l with
  | nil => simp [del, find]
  | cons kv rest ih =>
    obtain ⟨k'', v''⟩ := kv
    simp only [del]
    split
    · next heq => subst heq; simp only [find, if_neg h]; exact ih
    · next hne =>
      simp only [find]
      split
      · rfl
      · exact ih

theorem find_del (k k' : String) (l : List (String × α)) :
    find k (del k' l) = if k = k' then none else find k l := by
  split
  · next h => subst h; exact find_del_self _ _
  · next h => exact find_del_ne _ h

/-- writing back the value that is already there changes no lookup -/
theorem find_put_same {k : String} {v : α} {l : List (String × α)} (h : find k l = some v) (k' : String) :
    find k' (put k v l) = find k' l := by
  rw [find_put]
  split
  · next heq => subst heq; exact h.symm
  · rfl

theorem find_eq_none_of_not_mem {k : String} {l : List (String × α)} (h : k ∉ l.map (·.1)) :
    find k l = none := by
  induction l with
  | nil => rfl
  | cons kv rest ih =>
    obtain ⟨k', v'⟩ := kv
    simp only [List.map_cons, List.mem_cons, not_or] at h
    simp only [find, if_neg h.1]
    exact ih h.2

theorem mem_keys_of_find {k : String} {v : α} {l : List (String × α)} (h : find k l = some v) :
    k ∈ l.map (·.1) := by
  false_or_by_contra
  next hn => rw [find_eq_none_of_not_mem hn] at h; cases h

/-- the keys after a `put`: the same keys, or one more at the end -/
theorem keys_put (k : String) (v : α) (l : List (String × α)) :
    (put k v l).map (·.1) = if k ∈ l.map (·.1) then l.map (·.1) else l.map (·.1) ++ [k] := by
  induction l with
  | nil => simp [put]
  | cons kv rest ih =>
    obtain ⟨k', v'⟩ := kv
    simp only [put]
    split
    · next heq => subst heq; simp
    · next hne =>
      simp only [List.map_cons, List.mem_cons, hne, false_or, ih]
      split <;> simp

theorem nodup_keys_put {k : String} {v : α} {l : List (String × α)} (h : (l.map (·.1)).Nodup) :
    ((put k v l).map (·.1)).Nodup := by
  rw [keys_put]
  split
  · exact h
  · next hn =>
    rw [List.nodup_append]
    refine ⟨h, by simp, ?_⟩
    intro a ha b hb
    simp only [List.mem_singleton] at hb
    subst hb
    intro heq; subst heq; exact hn ha

theorem del_eq_self_iff (k : String) (l : List (String × α)) : del k l = l ↔ find k l = none := by
  constructor
  · intro h; rw [← h]; exact find_del_self _ _
  · intro h
    induction l with
    | nil => rfl
    | cons kv rest ih =>
      obtain ⟨k', v'⟩ := kv
      simp only [find] at h
      split at h
      · cases h
      · next hne => simp only [del, if_neg hne, ih h]

theorem put_eq_self_iff (k : String) (v : α) (l : List (String × α)) :
    put k v l = l ↔ find k l = some v := by
  constructor
  · intro h; rw [← h]; exact find_put_self _ _ _
  · intro h
    induction l with
    | nil => cases h
    | cons kv rest ih =>
      obtain ⟨k', v'⟩ := kv
      simp only [find] at h
      split at h
      · next heq => cases h; subst heq; simp [put]
      · next hne => simp only [put, if_neg hne, ih h]

theorem put_put_self (k : String) (v w : α) (l : List (String × α)) :
    put k v (put k w l) = put k v l := by
  induction l with
  | nil => simp [put]
  | cons kv rest ih =>
    obtain ⟨k', v'⟩ := kv
    simp only [put]
    split
    · simp [put]
    · next hne => simp only [put, if_neg hne, ih]

theorem find_map_snd {β : Type} (f : α → β) (k : String) (l : List (String × α)) :
    find k (l.map (fun p => (p.1, f p.2))) = (find k l).map f := by
  induction l with
  | nil => rfl
  | cons kv rest ih =>
    obtain ⟨k', v'⟩ := kv
    simp only [List.map_cons, find]
    split
    · rfl
    · exact ih

theorem find_filter_key (x : String) (k : String) (l : List (String × α)) (h : k ≠ x) :
    find k (l.filter (fun p => p.1 != x)) = find k l := by
  induction l with
  | nil => rfl
  | cons kv rest ih =>
    obtain ⟨k', v'⟩ := kv
    simp only [List.filter_cons]
    split
    · simp only [find]
      split
      · rfl
      · exact ih
    · next hx =>
      have hx' : k' = x := by simpa using hx
      subst hx'
      simp only [find, if_neg h]
      exact ih

end Sio
