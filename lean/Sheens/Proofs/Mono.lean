import Sheens.Proofs.Good

/-! # `Extends`, `GoodBs` and monotonicity of `Sat` in the result bindings -/

theorem Extends.refl (a : Bs) : Extends a a := fun _ _ h => h
theorem Extends.trans {a b c : Bs} (h1 : Extends a b) (h2 : Extends b c) : Extends a c :=
  fun k v h => h2 k v (h1 k v h)

theorem extends_cons_fresh {s : String} {v : V} {bs : Bs} (h : lookup s bs = none) :
    Extends bs ((s, v) :: bs) := by
  intro k w hk
  simp only [lookup]
  split
  · next heq => subst heq; rw [h] at hk; cases hk
  · exact hk

theorem goodBs_cons {s : String} {v : V} {bs : Bs} (hv : v.good = true) (hb : GoodBs bs) :
    GoodBs ((s, v) :: bs) := by
  intro k w hk
  simp only [lookup] at hk
  split at hk
  · cases hk; exact hv
  · exact hb k w hk

/-- the inequality reading, once off, stays off when the bindings grow -/
theorem ineqActive_mono {bs₀ r r' : Bs} {v : String} {f : V} (he : Extends r r')
    (h : ineqActive bs₀ r v f = false) : ineqActive bs₀ r' v f = false := by
  unfold ineqActive at h ⊢
  split
  · rfl
  · next op base hio =>
    rw [hio] at h
    simp only at h
    split
    · rfl
    · next bv hbv =>
      rw [hbv] at h
      simp only at h
      cases hl : lookup base r with
      | none =>
        rw [hl] at h
        simp only [Bool.and_true] at h
        rw [h]; rfl
      | some c =>
        rw [hl] at h
        rw [he _ _ hl]
        exact h

theorem Sat.mono {bs₀ r r' : Bs} (he : Extends r r') : ∀ {p f}, Sat bs₀ r p f → Sat bs₀ r' p f := by
  intro p f h
  refine Sat.rec (bs₀ := bs₀) (r := r)
    (motive_1 := fun p f _ => Sat bs₀ r' p f)
    (motive_2 := fun pm fm _ => ObjSat bs₀ r' pm fm)
    (motive_3 := fun ps fs _ => ArrEmb bs₀ r' ps fs)
    ?_ ?_ ?_ ?_ ?_ ?_ ?_ ?_ ?_ ?_ ?_ ?_ ?_ ?_ h
  · intro p f hp heq; exact Sat.scalar hp heq
  · intro f; exact Sat.anon
  · intro v f b hv hi hl _ ih; exact Sat.var hv (ineqActive_mono he hi) (he _ _ hl) ih
  · intro v op base bv b f a cv h1 h2 h3 h4 h5 h6 h7
    exact Sat.ineq h1 h2 h3 h4 h5 (he _ _ h6) h7
  · intro fm; exact Sat.objEmpty
  · intro k fk fv fm pv hk hm _ _ ih1 ih2; exact Sat.objProp hk hm ih1 ih2
  · intro pm fm _ ih; exact Sat.obj ih
  · intro ps fs _ ih; exact Sat.arr ih
  · intro fm; exact ObjSat.nil
  · intro k fm fv pv rest hk hl _ _ ih1 ih2; exact ObjSat.present hk hl ih1 ih2
  · intro k fm pv rest hk hl ho _ ih; exact ObjSat.absent hk hl ho ih
  · intro fs; exact ArrEmb.nil
  · intro f fs fs' p ps hp _ _ ih1 ih2; exact ArrEmb.cons hp ih1 ih2
  · intro p ps fs ho _ ih; exact ArrEmb.skip ho ih

theorem ObjSat.mono {bs₀ r r' : Bs} (he : Extends r r') :
    ∀ {pm fm}, ObjSat bs₀ r pm fm → ObjSat bs₀ r' pm fm := by
  intro pm fm h
  induction pm with
  | nil => exact ObjSat.nil
  | cons kv rest ih =>
    cases h with
    | present hk hl hs hr => exact ObjSat.present hk hl (hs.mono he) (ih hr)
    | absent hk hl ho hr => exact ObjSat.absent hk hl ho (ih hr)
