import Sheens.Props.C19

/-!
# Helper lemmas for C19, both directions (`Sheens/Props/C19Exact.lean`)

An exact invariant for `Expect.offer` / `Expect.runStep` (a flag is set **iff** the output is expected
and some consumed line accepts it), and the characterisation of a completed step by a declarative
chunk predicate `GChunk outs seen chunk`, generalised over the lines `seen` already consumed by the
step.  `StepChunk st chunk` of `C19Exact` is `GChunk st.outputs [] chunk` (definitionally, field by
field).  `accepts` is treated opaquely throughout.
-/

namespace Sheens.C19

open Expect

/-- some line accepts the output (`SatisfiedBy` of `C19Exact`) -/
def Sat (o : Output) (ls : List V) : Prop := ∃ l ∈ ls, accepts o l = .ok true

/-- every expected output is accepted by some line (`Completes` of `C19Exact`, on the output list) -/
def Comp (outs : List Output) (ls : List V) : Prop :=
  ∀ o ∈ outs, o.inverted = false → Sat o ls

/-- no forbidden output accepts the line -/
def NoForb (outs : List Output) (v : V) : Prop :=
  ∀ o ∈ outs, o.inverted = true → accepts o v ≠ .ok true

/-- no outstanding output errs on the line -/
def NoErr (outs : List Output) (seen : List V) (v : V) : Prop :=
  ∀ o ∈ outs, (o.inverted = true ∨ ¬ Sat o seen) → ∀ e, accepts o v ≠ .error e

theorem linesOf_noise (evs : List Event) : linesOf (.noise :: evs) = linesOf evs := rfl
theorem linesOf_line (v : V) (evs : List Event) : linesOf (.line v :: evs) = v :: linesOf evs := rfl
theorem linesOf_append (a b : List Event) : linesOf (a ++ b) = linesOf a ++ linesOf b := by
  simp [linesOf, List.filterMap_append]

theorem line_noEnd (v : V) : Event.line v ≠ .timeout ∧ Event.line v ≠ .eof :=
  ⟨(by intro h; cases h), (by intro h; cases h)⟩
theorem noise_noEnd : Event.noise ≠ .timeout ∧ Event.noise ≠ .eof :=
  ⟨(by intro h; cases h), (by intro h; cases h)⟩

theorem Sat.nil (o : Output) : ¬ Sat o [] := by
  rintro ⟨l, hl, _⟩; cases hl

theorem Sat.append_single {o : Output} {seen : List V} {v : V} :
    Sat o (seen ++ [v]) ↔ Sat o seen ∨ accepts o v = .ok true := by
  unfold Sat
  constructor
  · rintro ⟨l, hl, ha⟩
    rcases List.mem_append.mp hl with h | h
    · exact Or.inl ⟨l, h, ha⟩
    · have hlv : l = v := by simpa using h
      subst hlv; exact Or.inr ha
  · rintro (⟨l, hl, ha⟩ | ha)
    · exact ⟨l, List.mem_append_left _ hl, ha⟩
    · exact ⟨v, by simp, ha⟩

/-- the exact invariant: a flag is set iff the output is expected and accepted by a consumed line -/
inductive Inv (seen : List V) : List Output → List Bool → Prop
  | nil : Inv seen [] []
  | cons {o : Output} {s : Bool} {os : List Output} {ss : List Bool} :
      (s = true ↔ (o.inverted = false ∧ Sat o seen)) →
      Inv seen os ss → Inv seen (o :: os) (s :: ss)

theorem Inv.init (outs : List Output) : Inv [] outs (outs.map (fun _ => false)) := by
  induction outs with
  | nil => exact .nil
  | cons o os ih =>
    refine .cons ⟨?_, ?_⟩ ih
    · intro h; cases h
    · intro h; exact (Sat.nil o h.2).elim

theorem Inv.cnt_zero_iff {seen : List V} {outs : List Output} {sat : List Bool}
    (h : Inv seen outs sat) : cnt outs sat = 0 ↔ Comp outs seen := by
  induction h with
  | nil =>
    refine ⟨fun _ o ho => ?_, fun _ => rfl⟩
    cases ho
  | @cons o s os ss h1 _ ih =>
    simp only [cnt]
    constructor
    · intro hc
      have hc2 : cnt os ss = 0 := by omega
      have hc1 : (if (!o.inverted && !s) = true then 1 else 0) = 0 := by omega
      intro o' ho' hi'
      rcases List.mem_cons.mp ho' with rfl | ho'
      · have hs : s = true := by
          cases s
          · simp [hi'] at hc1
          · rfl
        exact (h1.mp hs).2
      · exact ih.mp hc2 o' ho' hi'
    · intro hC
      have h2 : cnt os ss = 0 := ih.mpr (fun o' ho' => hC o' (List.mem_cons_of_mem _ ho'))
      have h3 : (if (!o.inverted && !s) = true then 1 else 0) = 0 := by
        cases hi : o.inverted with
        | true => simp
        | false =>
          have hs : s = true := h1.mpr ⟨hi, hC o (List.mem_cons_self ..) hi⟩
          simp [hs]
      omega

/-- a successful offer preserves the exact invariant, decreases the count by the reported number,
    and shows that no forbidden output accepted and no outstanding output erred -/
theorem offer_fwd (v : V) {seen : List V} {outs : List Output} {sat : List Bool}
    (h : Inv seen outs sat) :
    ∀ sat' k, offer v outs sat = .ok (sat', k) →
      Inv (seen ++ [v]) outs sat' ∧ cnt outs sat' + k = cnt outs sat ∧
        NoForb outs v ∧ NoErr outs seen v := by
  induction h with
  | nil =>
    intro sat' k ho
    simp only [offer, Except.ok.injEq, Prod.mk.injEq] at ho
    obtain ⟨rfl, rfl⟩ := ho
    exact ⟨.nil, rfl, fun o ho => (by cases ho), fun o ho => (by cases ho)⟩
  | @cons o s os ss h1 _ ih =>
    intro sat' k ho
    cases s with
    | true =>
      simp only [offer, if_true] at ho
      cases hoff : offer v os ss with
      | error e => simp [hoff] at ho
      | ok r =>
        obtain ⟨fl, k'⟩ := r
        simp only [hoff, Except.ok.injEq, Prod.mk.injEq] at ho
        obtain ⟨rfl, rfl⟩ := ho
        obtain ⟨ihI, ihC, ihF, ihE⟩ := ih fl k' hoff
        obtain ⟨hi, hs⟩ := h1.mp rfl
        refine ⟨.cons ?_ ihI, ?_, ?_, ?_⟩
        · exact ⟨fun _ => ⟨hi, Sat.append_single.mpr (Or.inl hs)⟩, fun _ => rfl⟩
        · simp only [cnt]; omega
        · intro o' ho' hi'
          rcases List.mem_cons.mp ho' with rfl | ho'
          · rw [hi] at hi'; cases hi'
          · exact ihF o' ho' hi'
        · intro o' ho' hc
          rcases List.mem_cons.mp ho' with rfl | ho'
          · rcases hc with hc | hc
            · rw [hi] at hc; cases hc
            · exact (hc hs).elim
          · exact ihE o' ho' hc
    | false =>
      simp only [offer, Bool.false_eq_true, if_false] at ho
      cases hacc : accepts o v with
      | error e => simp [hacc] at ho
      | ok a =>
        cases a with
        | false =>
          simp only [hacc] at ho
          cases hoff : offer v os ss with
          | error e => simp [hoff] at ho
          | ok r =>
            obtain ⟨fl, k'⟩ := r
            simp only [hoff, Except.ok.injEq, Prod.mk.injEq] at ho
            obtain ⟨rfl, rfl⟩ := ho
            obtain ⟨ihI, ihC, ihF, ihE⟩ := ih fl k' hoff
            refine ⟨.cons ?_ ihI, ?_, ?_, ?_⟩
            · refine ⟨fun hs => (by cases hs), ?_⟩
              rintro ⟨hi, hs⟩
              rcases Sat.append_single.mp hs with hs | hs
              · exact h1.mpr ⟨hi, hs⟩
              · rw [hacc] at hs; cases hs
            · simp only [cnt]; omega
            · intro o' ho' hi'
              rcases List.mem_cons.mp ho' with rfl | ho'
              · rw [hacc]; intro hc; cases hc
              · exact ihF o' ho' hi'
            · intro o' ho' hc
              rcases List.mem_cons.mp ho' with rfl | ho'
              · intro e; rw [hacc]; intro hc; cases hc
              · exact ihE o' ho' hc
        | true =>
          simp only [hacc] at ho
          cases hinv : o.inverted with
          | true => simp [hinv] at ho
          | false =>
            simp only [hinv, Bool.false_eq_true, if_false] at ho
            cases hoff : offer v os ss with
            | error e => simp [hoff] at ho
            | ok r =>
              obtain ⟨fl, k'⟩ := r
              simp only [hoff, Except.ok.injEq, Prod.mk.injEq] at ho
              obtain ⟨rfl, rfl⟩ := ho
              obtain ⟨ihI, ihC, ihF, ihE⟩ := ih fl k' hoff
              refine ⟨.cons ?_ ihI, ?_, ?_, ?_⟩
              · exact ⟨fun _ => ⟨hinv, Sat.append_single.mpr (Or.inr hacc)⟩, fun _ => rfl⟩
              · simp only [cnt, hinv]
                simp only [Bool.not_false, Bool.not_true, Bool.and_false, Bool.false_eq_true,
                  if_false, Bool.and_self, if_true]
                omega
              · intro o' ho' hi'
                rcases List.mem_cons.mp ho' with rfl | ho'
                · rw [hinv] at hi'; cases hi'
                · exact ihF o' ho' hi'
              · intro o' ho' hc
                rcases List.mem_cons.mp ho' with rfl | ho'
                · intro e; rw [hacc]; intro hc; cases hc
                · exact ihE o' ho' hc

/-- conversely: if no forbidden output accepts and no outstanding output errs, the offer succeeds -/
theorem offer_bwd (v : V) {seen : List V} {outs : List Output} {sat : List Bool}
    (h : Inv seen outs sat) (hF : NoForb outs v) (hE : NoErr outs seen v) :
    ∃ sat' k, offer v outs sat = .ok (sat', k) := by
  induction h with
  | nil => exact ⟨[], 0, rfl⟩
  | @cons o s os ss h1 _ ih =>
    obtain ⟨fl, k', hoff⟩ := ih (fun o' ho' => hF o' (List.mem_cons_of_mem _ ho'))
      (fun o' ho' => hE o' (List.mem_cons_of_mem _ ho'))
    have hFo := hF o (List.mem_cons_self ..)
    have hEo := hE o (List.mem_cons_self ..)
    cases s with
    | true => exact ⟨true :: fl, k', by simp [offer, hoff]⟩
    | false =>
      have hout : o.inverted = true ∨ ¬ Sat o seen := by
        cases hi : o.inverted with
        | true => exact Or.inl rfl
        | false =>
          refine Or.inr (fun hs => ?_)
          have := h1.mpr ⟨hi, hs⟩
          cases this
      cases hacc : accepts o v with
      | error e => exact (hEo hout e hacc).elim
      | ok a =>
        cases a with
        | false => exact ⟨false :: fl, k', by simp [offer, hacc, hoff]⟩
        | true =>
          cases hinv : o.inverted with
          | true => exact (hFo hinv hacc).elim
          | false => exact ⟨true :: fl, k' + 1, by simp [offer, hacc, hinv, hoff]⟩

/-- the chunk a step reads and passes on, after having consumed the lines `seen` (without completing) -/
structure GChunk (outs : List Output) (seen : List V) (chunk : List Event) : Prop where
  noEnd : ∀ e ∈ chunk, e ≠ .timeout ∧ e ≠ .eof
  completes : ∃ pre v, chunk = pre ++ [.line v] ∧ Comp outs (seen ++ linesOf chunk)
  minimal : ∀ pre v rest, chunk = pre ++ [.line v] ++ rest → rest ≠ [] →
              ¬ Comp outs (seen ++ linesOf (pre ++ [.line v]))
  noForbidden : ∀ o ∈ outs, o.inverted = true → ∀ l ∈ linesOf chunk, accepts o l ≠ .ok true
  noError : ∀ pre l post, linesOf chunk = pre ++ l :: post → ∀ o ∈ outs,
              (o.inverted = true ∨ ¬ Sat o (seen ++ pre)) → ∀ e, accepts o l ≠ .error e

theorem GChunk.single {outs : List Output} {seen : List V} {v : V}
    (hC : Comp outs (seen ++ [v])) (hF : NoForb outs v) (hE : NoErr outs seen v) :
    GChunk outs seen [.line v] where
  noEnd := by
    intro e he
    have : e = .line v := by simpa using he
    subst this
    exact line_noEnd v
  completes := ⟨[], v, rfl, hC⟩
  minimal := by
    intro pre v' rest h hr
    have hl := congrArg List.length h
    simp only [List.length_cons, List.length_nil, List.length_append] at hl
    exact (hr (List.length_eq_zero_iff.mp (by omega))).elim
  noForbidden := by
    intro o ho hi l hl
    have : l = v := by simpa [linesOf] using hl
    subst this
    exact hF o ho hi
  noError := by
    intro pre l post h o ho hc
    have h' : [v] = pre ++ l :: post := h
    cases pre with
    | nil =>
      simp only [List.nil_append, List.cons.injEq] at h'
      obtain ⟨rfl, _⟩ := h'
      exact hE o ho (by simpa using hc)
    | cons a pre' =>
      simp only [List.cons_append, List.cons.injEq] at h'
      have hl := congrArg List.length h'.2
      simp at hl

theorem GChunk.noise_cons {outs : List Output} {seen : List V} {chunk : List Event}
    (h : GChunk outs seen chunk) : GChunk outs seen (.noise :: chunk) where
  noEnd := by
    intro e he
    rcases List.mem_cons.mp he with rfl | he
    · exact noise_noEnd
    · exact h.noEnd e he
  completes := by
    obtain ⟨pre, v, hc, hC⟩ := h.completes
    exact ⟨.noise :: pre, v, by rw [hc]; rfl, hC⟩
  minimal := by
    intro pre v rest hc hr
    cases pre with
    | nil =>
      simp only [List.nil_append, List.cons_append, List.cons.injEq] at hc
      exact nomatch hc.1
    | cons a pre' =>
      simp only [List.cons_append, List.cons.injEq] at hc
      obtain ⟨rfl, hc⟩ := hc
      exact h.minimal pre' v rest (by simpa using hc) hr
  noForbidden := h.noForbidden
  noError := h.noError

theorem GChunk.noise_tail {outs : List Output} {seen : List V} {chunk : List Event}
    (h : GChunk outs seen (.noise :: chunk)) : GChunk outs seen chunk where
  noEnd := fun e he => h.noEnd e (List.mem_cons_of_mem _ he)
  completes := by
    obtain ⟨pre, v, hc, hC⟩ := h.completes
    cases pre with
    | nil =>
      simp only [List.nil_append, List.cons.injEq] at hc
      exact nomatch hc.1
    | cons a pre' =>
      simp only [List.cons_append, List.cons.injEq] at hc
      exact ⟨pre', v, hc.2, hC⟩
  minimal := by
    intro pre v rest hc hr
    exact h.minimal (.noise :: pre) v rest (by rw [hc]; rfl) hr
  noForbidden := h.noForbidden
  noError := h.noError

theorem GChunk.line_cons {outs : List Output} {seen : List V} {v : V} {chunk : List Event}
    (h : GChunk outs (seen ++ [v]) chunk) (hN : ¬ Comp outs (seen ++ [v]))
    (hF : NoForb outs v) (hE : NoErr outs seen v) : GChunk outs seen (.line v :: chunk) where
  noEnd := by
    intro e he
    rcases List.mem_cons.mp he with rfl | he
    · exact line_noEnd v
    · exact h.noEnd e he
  completes := by
    obtain ⟨pre, v', hc, hC⟩ := h.completes
    refine ⟨.line v :: pre, v', by rw [hc]; rfl, ?_⟩
    rw [linesOf_line]
    simpa [List.append_assoc] using hC
  minimal := by
    intro pre v' rest hc hr
    cases pre with
    | nil =>
      simp only [List.nil_append, List.cons_append, List.cons.injEq, Event.line.injEq] at hc
      obtain ⟨rfl, _⟩ := hc
      exact hN
    | cons a pre' =>
      simp only [List.cons_append, List.cons.injEq] at hc
      obtain ⟨rfl, hc⟩ := hc
      have := h.minimal pre' v' rest (by simpa using hc) hr
      rw [List.cons_append, linesOf_line]
      simpa [List.append_assoc] using this
  noForbidden := by
    intro o ho hi l hl
    rw [linesOf_line] at hl
    rcases List.mem_cons.mp hl with rfl | hl
    · exact hF o ho hi
    · exact h.noForbidden o ho hi l hl
  noError := by
    intro pre l post hc o ho hcond
    rw [linesOf_line] at hc
    cases pre with
    | nil =>
      simp only [List.nil_append, List.cons.injEq] at hc
      obtain ⟨rfl, _⟩ := hc
      exact hE o ho (by simpa using hcond)
    | cons a pre' =>
      simp only [List.cons_append, List.cons.injEq] at hc
      obtain ⟨rfl, hc⟩ := hc
      exact h.noError pre' l post hc o ho (by simpa [List.append_assoc] using hcond)

theorem GChunk.line_head {outs : List Output} {seen : List V} {v : V} {chunk : List Event}
    (h : GChunk outs seen (.line v :: chunk)) : NoForb outs v ∧ NoErr outs seen v := by
  refine ⟨fun o ho hi => h.noForbidden o ho hi v ?_, fun o ho hc => ?_⟩
  · rw [linesOf_line]; exact List.mem_cons_self ..
  · exact h.noError [] v (linesOf chunk) rfl o ho (by simpa using hc)

theorem GChunk.line_tail {outs : List Output} {seen : List V} {v : V} {chunk : List Event}
    (h : GChunk outs seen (.line v :: chunk)) (hne : chunk ≠ []) :
    GChunk outs (seen ++ [v]) chunk where
  noEnd := fun e he => h.noEnd e (List.mem_cons_of_mem _ he)
  completes := by
    obtain ⟨pre, v', hc, hC⟩ := h.completes
    cases pre with
    | nil =>
      simp only [List.nil_append, List.cons.injEq] at hc
      exact (hne hc.2).elim
    | cons a pre' =>
      simp only [List.cons_append, List.cons.injEq] at hc
      refine ⟨pre', v', hc.2, ?_⟩
      rw [linesOf_line] at hC
      simpa [List.append_assoc] using hC
  minimal := by
    intro pre v' rest hc hr
    have := h.minimal (.line v :: pre) v' rest (by rw [hc]; rfl) hr
    rw [List.cons_append, linesOf_line] at this
    simpa [List.append_assoc] using this
  noForbidden := by
    intro o ho hi l hl
    refine h.noForbidden o ho hi l ?_
    rw [linesOf_line]; exact List.mem_cons_of_mem _ hl
  noError := by
    intro pre l post hc o ho hcond
    refine h.noError (v :: pre) l post ?_ o ho (by simpa [List.append_assoc] using hcond)
    rw [linesOf_line, hc]; rfl

/-- (←) on any chunk satisfying the conditions, the step completes exactly at the end of the chunk -/
theorem runStep_of_chunk (outs : List Output) (rest : List Event) :
    ∀ (chunk : List Event) (seen : List V) (sat : List Bool) (need : Int),
      Inv seen outs sat → need = (cnt outs sat : Int) → GChunk outs seen chunk →
      runStep outs sat need (chunk ++ rest) = .ok rest := by
  intro chunk
  induction chunk with
  | nil =>
    intro seen sat need _ _ hC
    obtain ⟨pre, v, hc, _⟩ := hC.completes
    have hl := congrArg List.length hc
    simp at hl
  | cons e chunk ih =>
    intro seen sat need hI hn hC
    cases e with
    | timeout => exact ((hC.noEnd .timeout (List.mem_cons_self ..)).1 rfl).elim
    | eof => exact ((hC.noEnd .eof (List.mem_cons_self ..)).2 rfl).elim
    | noise =>
      simp only [List.cons_append, runStep]
      exact ih seen sat need hI hn hC.noise_tail
    | line v =>
      obtain ⟨hF, hE⟩ := hC.line_head
      obtain ⟨sat', k, hoff⟩ := offer_bwd v hI hF hE
      obtain ⟨hI', hcnt, _, _⟩ := offer_fwd v hI sat' k hoff
      simp only [List.cons_append, runStep, hoff]
      by_cases hnil : chunk = []
      · subst hnil
        have hcomp : Comp outs (seen ++ [v]) := by
          obtain ⟨_, _, _, hc⟩ := hC.completes
          exact hc
        have h0 : cnt outs sat' = 0 := hI'.cnt_zero_iff.mpr hcomp
        have hz : need - (k : Int) = 0 := by omega
        simp [hz]
      · have hnc : ¬ Comp outs (seen ++ [v]) := hC.minimal [] v chunk rfl hnil
        have h0 : cnt outs sat' ≠ 0 := fun h => hnc (hI'.cnt_zero_iff.mp h)
        have hz : ¬ (need - (k : Int) = 0) := by omega
        simp only [beq_iff_eq, hz, if_false]
        exact ih (seen ++ [v]) sat' _ hI' (by omega) (hC.line_tail hnil)

/-- (→) a completed step has read a chunk satisfying the conditions -/
theorem runStep_chunk (outs : List Output) (rest : List Event) :
    ∀ (evs : List Event) (seen : List V) (sat : List Bool) (need : Int),
      Inv seen outs sat → need = (cnt outs sat : Int) → runStep outs sat need evs = .ok rest →
      ∃ chunk, evs = chunk ++ rest ∧ GChunk outs seen chunk := by
  intro evs
  induction evs with
  | nil => intro seen sat need _ _ h; simp [runStep] at h
  | cons e evs ih =>
    intro seen sat need hI hn h
    cases e with
    | timeout => simp [runStep] at h
    | eof => simp [runStep] at h
    | noise =>
      simp only [runStep] at h
      obtain ⟨chunk, he, hC⟩ := ih seen sat need hI hn h
      exact ⟨.noise :: chunk, by rw [he]; rfl, hC.noise_cons⟩
    | line v =>
      simp only [runStep] at h
      cases hoff : offer v outs sat with
      | error e => simp [hoff] at h
      | ok r =>
        obtain ⟨sat', k⟩ := r
        simp only [hoff] at h
        obtain ⟨hI', hcnt, hF, hE⟩ := offer_fwd v hI sat' k hoff
        by_cases hz : (need - (k : Int) == 0) = true
        · simp only [hz, if_true, Except.ok.injEq] at h
          subst h
          have hz' : need - (k : Int) = 0 := by simpa using hz
          have h0 : cnt outs sat' = 0 := by omega
          exact ⟨[.line v], rfl, GChunk.single (hI'.cnt_zero_iff.mp h0) hF hE⟩
        · simp only [hz, Bool.false_eq_true, if_false] at h
          have hz' : ¬ (need - (k : Int) = 0) := by simpa using hz
          have hN : ¬ Comp outs (seen ++ [v]) := by
            intro hc
            have := hI'.cnt_zero_iff.mpr hc
            omega
          obtain ⟨chunk, he, hC⟩ := ih (seen ++ [v]) sat' (need - (k : Int)) hI' (by omega) h
          exact ⟨.line v :: chunk, by rw [he]; rfl, hC.line_cons hN hF hE⟩

/-- one step, from its initial state, completes with `rest` remaining **iff** the stream is a chunk
    satisfying the conditions followed by `rest` -/
theorem runStep_ok_iff (outs : List Output) (evs rest : List Event) :
    runStep outs (outs.map (fun _ => false)) (needOf outs) evs = .ok rest ↔
      ∃ chunk, evs = chunk ++ rest ∧ GChunk outs [] chunk := by
  have hn : needOf outs = (cnt outs (outs.map (fun _ => false)) : Int) := by
    rw [cnt_init]; rfl
  constructor
  · exact runStep_chunk outs rest evs [] _ _ (Inv.init outs) hn
  · rintro ⟨chunk, rfl, hC⟩
    exact runStep_of_chunk outs rest chunk [] _ _ (Inv.init outs) hn hC

end Sheens.C19
