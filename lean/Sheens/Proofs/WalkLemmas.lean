import Sheens.Proofs.EngineLemmas

/-! # Lemmas about `walkStride` and `walkLoop` -/

/-! ## what a single stride looks like -/

theorem stepRest_pending (st : State) (n : Node) (bs : Option Bs) (em : List V) (p q : Option V)
    (hm : ∀ br, n.branches = some br → br.type ≠ "message") :
    stepRest st n bs em p = stepRest st n bs em q := by
  unfold stepRest
  simp only [consider_nonmsg_pending n.branches bs p q hm, consider_nonmsg n.branches bs q hm]
  rfl

/-- away from a consuming node a step does not look at the pending message -/
theorem step_indep (s : Spec) (st : State) (h : canConsume s st.node = false) (p q : Option V) :
    step s st p = step s st q := by
  cases hc : s.compiled with
  | false => rw [step_not_compiled s st p hc, step_not_compiled s st q hc]
  | true =>
  cases hn : findNode st.node s.nodes with
  | none => rw [step_unknown s st p hc hn, step_unknown s st q hc hn]
  | some n =>
  by_cases hm : ∀ br, n.branches = some br → br.type ≠ "message"
  · cases ha : n.action with
    | none =>
      cases hs : n.hasSource with
      | true => rw [step_uncompiled_action s st p n hc hn ha hs,
          step_uncompiled_action s st q n hc hn ha hs]
      | false =>
        rw [step_noaction s st p n hc hn ha hs, step_noaction s st q n hc hn ha hs]
        exact stepRest_pending _ _ _ _ _ _ hm
    | some a =>
      cases he : (execWrap a st.bs).err with
      | none =>
        rw [step_action_ok s st p n a hc hn ha hm he, step_action_ok s st q n a hc hn ha hm he]
        exact stepRest_pending _ _ _ _ _ _ hm
      | some e =>
        cases hb : s.actionErrorBranches with
        | true =>
          rw [step_action_err_branches s st p n a e hc hn ha hm he hb,
            step_action_err_branches s st q n a e hc hn ha hm he hb]
          exact stepRest_pending _ _ _ _ _ _ hm
        | false =>
          by_cases ht : s.actionErrorNode = ""
          · rw [step_action_err_ret s st p n a e hc hn ha hm he hb ht,
              step_action_err_ret s st q n a e hc hn ha hm he hb ht]
          · rw [step_action_err_node s st p n a e hc hn ha hm he hb ht,
              step_action_err_node s st q n a e hc hn ha hm he hb ht]
  · have : ∃ br, n.branches = some br ∧ br.type = "message" := by
      apply Classical.byContradiction
      intro hne
      exact hm (fun br hbr hty => hne ⟨br, hbr, hty⟩)
    obtain ⟨br, hbr, hty⟩ := this
    cases ha : n.action with
    | some a =>
      rw [step_bad_branching s st p n a br hc hn ha hbr hty,
        step_bad_branching s st q n a br hc hn ha hbr hty]
    | none =>
      cases hs : n.hasSource with
      | true => rw [step_uncompiled_action s st p n hc hn ha hs,
          step_uncompiled_action s st q n hc hn ha hs]
      | false =>
        exfalso
        unfold canConsume at h
        simp [hc, hn, ha, hs, hbr, hty] at h

theorem canConsume_true {s : Spec} {node : String} (h : canConsume s node = true) :
    s.compiled = true ∧ ∃ n br, findNode node s.nodes = some n ∧ n.action = none ∧
      n.hasSource = false ∧ n.branches = some br ∧ br.type = "message" := by
  unfold canConsume at h
  simp only [Bool.and_eq_true] at h
  obtain ⟨hc, h⟩ := h
  refine ⟨hc, ?_⟩
  split at h
  · next n hn =>
    simp only [Bool.and_eq_true] at h
    obtain ⟨⟨ha, hs⟩, hb⟩ := h
    split at hb
    · next br hbr =>
      exact ⟨n, br, hn, by simpa using ha, by simpa using hs, hbr, by simpa using hb⟩
    · cases hb
  · cases h

def idleStride (st : State) : Stride :=
  { frm := stateCopy st, to := none, consumed := none, emitted := [] }

/-- at a consuming node without a message: the idle step -/
theorem step_consumer_none (s : Spec) (st : State) (h : canConsume s st.node = true) :
    step s st none = { stride := some (idleStride st), err := none } := by
  obtain ⟨hc, n, br, hn, ha, hs, hb, ht⟩ := canConsume_true h
  rw [step_noaction s st _ n hc hn ha hs, stepRest_noaction _ _ _ _ _ ha, hb,
    consider_msg_none br st.bs ht]
  rfl

/-- at a consuming node with a message: it is consumed, nothing is emitted, no error-free stride is
    missing -/
theorem step_consumer_some (s : Spec) (st : State) (m : V) (h : canConsume s st.node = true) :
    ∃ sd, (step s st (some m)).stride = some sd ∧ sd.consumed = some m ∧ sd.emitted = [] := by
  obtain ⟨hc, n, br, hn, ha, hs, hb, ht⟩ := canConsume_true h
  rw [step_noaction s st _ n hc hn ha hs, stepRest_noaction _ _ _ _ _ ha, hb]
  refine ⟨_, rfl, ?_, rfl⟩
  simp only [consider_msg_some br st.bs m ht, if_true]

/-- the stride `walkStride` starts from: the step's, or a made-up one -/
def baseStride (s : Spec) (st : State) (pending : Option V) : Stride :=
  match (step s st pending).stride with
  | some x => x
  | none => idleStride st

theorem walkStride_eq (s : Spec) (st : State) (pending : Option V) :
    walkStride s st pending = baseStride s st pending ∨
    ∃ b, walkStride s st pending =
      { baseStride s st pending with to := some { node := "error", bs := some b } } := by
  unfold walkStride baseStride idleStride
  simp only
  split
  · exact Or.inl rfl
  · split
    · exact Or.inl rfl
    · exact Or.inr ⟨_, rfl⟩

theorem walkStride_frm' (s : Spec) (st : State) (p : Option V) :
    (walkStride s st p).frm = (baseStride s st p).frm := by
  rcases walkStride_eq s st p with h | ⟨b, h⟩ <;> rw [h]
theorem walkStride_consumed' (s : Spec) (st : State) (p : Option V) :
    (walkStride s st p).consumed = (baseStride s st p).consumed := by
  rcases walkStride_eq s st p with h | ⟨b, h⟩ <;> rw [h]
theorem walkStride_emitted' (s : Spec) (st : State) (p : Option V) :
    (walkStride s st p).emitted = (baseStride s st p).emitted := by
  rcases walkStride_eq s st p with h | ⟨b, h⟩ <;> rw [h]
theorem walkStride_to_none (s : Spec) (st : State) (p : Option V)
    (h : (walkStride s st p).to = none) : (baseStride s st p).to = none := by
  rcases walkStride_eq s st p with h' | ⟨b, h'⟩
  · rw [← h']; exact h
  · rw [h'] at h; cases h

theorem stateCopy_idem (t : State) : stateCopy (stateCopy t) = stateCopy t := rfl

theorem stepRest_to (st : State) (n : Node) (bs : Option Bs) (em : List V) (pending : Option V)
    (sd : Stride) (h : (stepRest st n bs em pending).stride = some sd) :
    (∀ t, sd.to = some t → stateCopy t = t) ∧ (sd.to = none → n.action = none) := by
  unfold stepRest at h
  simp only at h
  split at h
  · cases h
    exact ⟨fun t ht => (by cases ht; rfl), fun h => (by cases h)⟩
  · next hcond =>
    cases h
    refine ⟨?_, ?_⟩
    · intro t ht
      simp only [Option.map_eq_some_iff] at ht
      obtain ⟨t', _, rfl⟩ := ht
      rfl
    · intro hto
      simp only [Option.map_eq_none_iff] at hto
      cases ha : n.action with
      | none => rfl
      | some a => simp [hto, ha] at hcond

/-- facts about the base stride -/
theorem baseStride_facts (s : Spec) (st : State) (p : Option V) :
    (baseStride s st p).frm = stateCopy st ∧
    (∀ t, (baseStride s st p).to = some t → stateCopy t = t) ∧
    ((baseStride s st p).to = none → (baseStride s st p).emitted = []) := by
  unfold baseStride
  cases step_cases s st p with
  | nostride h => rw [h]; exact ⟨rfl, fun t ht => (by cases ht), fun _ => rfl⟩
  | noaction n hn ha h =>
    obtain ⟨sd, h1, h2, h3, _⟩ := stepRest_stride st n st.bs [] p
    obtain ⟨h5, _⟩ := stepRest_to st n st.bs [] p sd h1
    rw [h, h1]
    exact ⟨h3, h5, fun _ => h2⟩
  | ok n a hn ha hm he h =>
    obtain ⟨sd, h1, h2, h3, _⟩ := stepRest_stride st n (some (exeOut (execWrap a st.bs).exe).1)
      (exeOut (execWrap a st.bs).exe).2 p
    obtain ⟨h5, h6⟩ := stepRest_to _ _ _ _ _ sd h1
    rw [h, h1]
    exact ⟨h3, h5, fun hto => by rw [ha] at h6; cases h6 hto⟩
  | errBranches n a e hn ha hm he h =>
    obtain ⟨sd, h1, h2, h3, _⟩ := stepRest_stride st n (some (actErrBs e st.bs))
      (exeOut (execWrap a st.bs).exe).2 p
    obtain ⟨h5, h6⟩ := stepRest_to _ _ _ _ _ sd h1
    rw [h, h1]
    exact ⟨h3, h5, fun hto => by rw [ha] at h6; cases h6 hto⟩
  | errNode n a e hn ha hm he h =>
    rw [h]
    exact ⟨rfl, fun t ht => (by cases ht; rfl), fun hto => (by cases hto)⟩

theorem walkStride_frm (s : Spec) (st : State) (p : Option V) :
    (walkStride s st p).frm = stateCopy st := by
  rw [walkStride_frm']; exact (baseStride_facts s st p).1

/-- every target has bindings, so copying it changes nothing -/
theorem walkStride_to_copy (s : Spec) (st : State) (p : Option V) (t : State)
    (h : (walkStride s st p).to = some t) : stateCopy t = t := by
  rcases walkStride_eq s st p with h' | ⟨b, h'⟩
  · rw [h'] at h; exact (baseStride_facts s st p).2.1 t h
  · rw [h'] at h; cases h; rfl

/-- a stride that goes nowhere emits nothing -/
theorem walkStride_stuck_emits (s : Spec) (st : State) (p : Option V)
    (h : (walkStride s st p).to = none) : (walkStride s st p).emitted = [] := by
  rw [walkStride_emitted']
  exact (baseStride_facts s st p).2.2 (walkStride_to_none s st p h)

theorem walkStride_indep (s : Spec) (st : State) (h : canConsume s st.node = false)
    (p q : Option V) : walkStride s st p = walkStride s st q := by
  unfold walkStride
  rw [step_indep s st h p q]

theorem walkStride_consumer_none (s : Spec) (st : State) (h : canConsume s st.node = true) :
    walkStride s st none = idleStride st := by
  unfold walkStride
  rw [step_consumer_none s st h]

theorem walkStride_consumer_some (s : Spec) (st : State) (m : V)
    (h : canConsume s st.node = true) : (walkStride s st (some m)).consumed = some m := by
  obtain ⟨sd, h1, h2, _⟩ := step_consumer_some s st m h
  rw [walkStride_consumed']
  unfold baseStride
  rw [h1]; exact h2

theorem walkStride_nonconsumer (s : Spec) (st : State) (p : Option V)
    (h : canConsume s st.node = false) : (walkStride s st p).consumed = none := by
  rw [walkStride_consumed']
  unfold baseStride
  have key : ∀ n bs em, (∀ br, n.branches = some br → br.type ≠ "message") →
      ∀ sd, (stepRest st n bs em p).stride = some sd → sd.consumed = none := by
    intro n bs em hm sd hsd
    obtain ⟨sd', h1, _, _, h4⟩ := stepRest_stride st n bs em p
    rw [h1] at hsd; cases hsd
    rw [h4, consider_nonmsg n.branches bs p hm]; rfl
  cases step_cases s st p with
  | nostride h' => rw [h']; rfl
  | noaction n hn ha h' hc hs =>
    have hm : ∀ br, n.branches = some br → br.type ≠ "message" := by
      intro br hbr hty
      unfold canConsume at h
      simp [hc, hn, ha, hs, hbr, hty] at h
    obtain ⟨sd, h1, _⟩ := stepRest_stride st n st.bs [] p
    rw [h', h1]; exact key n _ _ hm sd h1
  | ok n a hn ha hm he h' =>
    obtain ⟨sd, h1, _⟩ := stepRest_stride st n (some (exeOut (execWrap a st.bs).exe).1)
      (exeOut (execWrap a st.bs).exe).2 p
    rw [h', h1]; exact key n _ _ hm sd h1
  | errBranches n a e hn ha hm he h' =>
    obtain ⟨sd, h1, _⟩ := stepRest_stride st n (some (actErrBs e st.bs))
      (exeOut (execWrap a st.bs).exe).2 p
    rw [h', h1]; exact key n _ _ hm sd h1
  | errNode n a e hn ha hm he h' => rw [h']

/-- a stride consumes nothing or the pending message -/
theorem walkStride_consumed (s : Spec) (st : State) (p : Option V) :
    (walkStride s st p).consumed = none ∨ (walkStride s st p).consumed = p := by
  cases h : canConsume s st.node with
  | false => exact Or.inl (walkStride_nonconsumer s st p h)
  | true =>
    cases p with
    | none => rw [walkStride_consumer_none s st h]; exact Or.inl rfl
    | some m => exact Or.inr (walkStride_consumer_some s st m h)

/-! ## the loop -/

def Walked.cons (sd : Stride) (w : Walked) : Walked := { w with strides := sd :: w.strides }

theorem walkLoop_acc (s : Spec) (bp : State → Bool) (i : Nat) (st : State) (p : List V)
    (acc : List Stride) :
    walkLoop s bp i st p acc =
      { strides := acc.reverse ++ (walkLoop s bp i st p []).strides,
        remaining := (walkLoop s bp i st p []).remaining,
        stopped := (walkLoop s bp i st p []).stopped } := by
  induction i generalizing st p acc with
  | zero => simp [walkLoop]
  | succ i ih =>
    simp only [walkLoop]
    cases hb : bp st with
    | true => simp
    | false =>
      simp only [Bool.false_eq_true, if_false]
      generalize walkStride s st (pendingOf p) = sd
      cases hto : sd.to with
      | some t =>
        simp only []
        rw [ih _ _ (sd :: acc), ih _ _ [sd]]
        simp
      | none =>
        simp only []
        generalize (if sd.consumed.isSome = true then List.drop 1 p else p) = p'
        cases h1 : p'.isEmpty with
        | true => simp only [if_true, List.reverse_cons, List.reverse_nil, List.nil_append]
        | false =>
          cases h2 : sd.consumed.isNone with
          | true =>
            simp only [if_true, Bool.false_eq_true, if_false, List.reverse_cons, List.reverse_nil,
              List.nil_append]
          | false =>
            simp only [Bool.false_eq_true, if_false]
            rw [ih _ _ (sd :: acc), ih _ _ [sd]]
            simp

/-- the walk from a state, with an empty accumulator -/
def W (s : Spec) (bp : State → Bool) (i : Nat) (st : State) (p : List V) : Walked :=
  walkLoop s bp i st p []

/-- the pending messages after a stride -/
def after (sd : Stride) (p : List V) : List V := if sd.consumed.isSome then p.drop 1 else p

theorem W_zero (s : Spec) (bp : State → Bool) (st : State) (p : List V) :
    W s bp 0 st p = { strides := [], remaining := p, stopped := .limited } := rfl

theorem W_bp (s : Spec) (bp : State → Bool) (i : Nat) (st : State) (p : List V)
    (h : bp st = true) :
    W s bp (i+1) st p = { strides := [], remaining := p, stopped := .breakpoint } := by
  simp [W, walkLoop, h]

theorem W_some (s : Spec) (bp : State → Bool) (i : Nat) (st : State) (p : List V) (t : State)
    (h : bp st = false) (ht : (walkStride s st (pendingOf p)).to = some t) :
    W s bp (i+1) st p =
      (W s bp i (stateCopy t) (after (walkStride s st (pendingOf p)) p)).cons
        (walkStride s st (pendingOf p)) := by
  simp only [W, walkLoop, h, ht, after, Walked.cons]
  rw [walkLoop_acc]
  simp

theorem W_stop (s : Spec) (bp : State → Bool) (i : Nat) (st : State) (p : List V)
    (h : bp st = false) (ht : (walkStride s st (pendingOf p)).to = none)
    (hs : (after (walkStride s st (pendingOf p)) p).isEmpty = true ∨
      (walkStride s st (pendingOf p)).consumed = none) :
    W s bp (i+1) st p =
      { strides := [walkStride s st (pendingOf p)], remaining := [], stopped := .done } := by
  unfold W
  simp only [walkLoop, h, Bool.false_eq_true, if_false, ht]
  rcases hs with hs | hs
  · unfold after at hs
    rw [if_pos hs]; rfl
  · rw [hs]
    simp only [Option.isSome_none, Option.isNone_none, Bool.false_eq_true, if_false, if_true]
    split <;> rfl

theorem W_go (s : Spec) (bp : State → Bool) (i : Nat) (st : State) (p : List V)
    (h : bp st = false) (ht : (walkStride s st (pendingOf p)).to = none)
    (hne : (after (walkStride s st (pendingOf p)) p).isEmpty = false)
    (hc : (walkStride s st (pendingOf p)).consumed ≠ none) :
    W s bp (i+1) st p =
      (W s bp i st (after (walkStride s st (pendingOf p)) p)).cons
        (walkStride s st (pendingOf p)) := by
  have : (walkStride s st (pendingOf p)).consumed.isNone = false := by
    cases hx : (walkStride s st (pendingOf p)).consumed with
    | none => exact absurd hx hc
    | some _ => rfl
  simp only [W, walkLoop, h, ht, after, Walked.cons] at hne ⊢
  simp only [Bool.false_eq_true, if_false, hne, this]
  rw [walkLoop_acc]
  simp

/-- induction over the iterations of the walk -/
theorem W_ind (s : Spec) (bp : State → Bool) {P : Nat → State → List V → Walked → Prop}
    (h0 : ∀ st p, P 0 st p { strides := [], remaining := p, stopped := .limited })
    (hbp : ∀ i st p, bp st = true →
      P (i+1) st p { strides := [], remaining := p, stopped := .breakpoint })
    (hstop : ∀ i st p, bp st = false → (walkStride s st (pendingOf p)).to = none →
      ((after (walkStride s st (pendingOf p)) p).isEmpty = true ∨
        (walkStride s st (pendingOf p)).consumed = none) →
      P (i+1) st p { strides := [walkStride s st (pendingOf p)], remaining := [], stopped := .done })
    (hgo : ∀ i st p w, bp st = false → (walkStride s st (pendingOf p)).to = none →
      (after (walkStride s st (pendingOf p)) p).isEmpty = false →
      (walkStride s st (pendingOf p)).consumed ≠ none →
      P i st (after (walkStride s st (pendingOf p)) p) w →
      P (i+1) st p (w.cons (walkStride s st (pendingOf p))))
    (hsome : ∀ i st p t w, bp st = false → (walkStride s st (pendingOf p)).to = some t →
      P i (stateCopy t) (after (walkStride s st (pendingOf p)) p) w →
      P (i+1) st p (w.cons (walkStride s st (pendingOf p)))) :
    ∀ i st p, P i st p (W s bp i st p) := by
  intro i
  induction i with
  | zero => intro st p; exact h0 st p
  | succ i ih =>
    intro st p
    cases hb : bp st with
    | true => rw [W_bp s bp i st p hb]; exact hbp i st p hb
    | false =>
      cases ht : (walkStride s st (pendingOf p)).to with
      | some t => rw [W_some s bp i st p t hb ht]; exact hsome i st p t _ hb ht (ih _ _)
      | none =>
        by_cases hs : (after (walkStride s st (pendingOf p)) p).isEmpty = true ∨
            (walkStride s st (pendingOf p)).consumed = none
        · rw [W_stop s bp i st p hb ht hs]; exact hstop i st p hb ht hs
        · have h1 : (after (walkStride s st (pendingOf p)) p).isEmpty = false := by
            cases hx : (after (walkStride s st (pendingOf p)) p).isEmpty with
            | true => exact absurd (Or.inl hx) hs
            | false => rfl
          have h2 : (walkStride s st (pendingOf p)).consumed ≠ none := fun hx => hs (Or.inr hx)
          rw [W_go s bp i st p hb ht h1 h2]
          exact hgo i st p _ hb ht h1 h2 (ih _ _)

/-! ## accounting -/

def NonNullL (msgs : List V) : Prop := ∀ m ∈ msgs, m ≠ V.null

theorem pendingOf_cons {m : V} (p : List V) (h : m ≠ V.null) : pendingOf (m :: p) = some m := by
  cases m <;> first | rfl | exact absurd rfl h

/-- what a stride consumed, as a list -/
def consL (sd : Stride) : List V := match sd.consumed with | some m => [m] | none => []

theorem consumedOf_cons (sd : Stride) (w : Walked) :
    consumedOf (w.cons sd) = consL sd ++ consumedOf w := by
  unfold consumedOf Walked.cons consL
  simp only [List.filterMap_cons]
  split <;> simp_all

theorem emittedOf_cons (sd : Stride) (w : Walked) :
    emittedOf (w.cons sd) = sd.emitted ++ emittedOf w := by
  unfold emittedOf Walked.cons
  simp

theorem lastTo_cons_getD (sd : Stride) (ws : List Stride) (st : State) :
    (lastTo (sd :: ws)).getD st = (lastTo ws).getD (sd.to.getD st) := by
  simp only [lastTo]
  cases lastTo ws with
  | some x => rfl
  | none => cases sd.to <;> rfl

/-- the consumed message and the rest make up the pending messages -/
theorem consumed_after (s : Spec) (st : State) (p : List V) (hnn : NonNullL p) :
    consL (walkStride s st (pendingOf p)) ++ after (walkStride s st (pendingOf p)) p = p ∧
    NonNullL (after (walkStride s st (pendingOf p)) p) := by
  rcases walkStride_consumed s st (pendingOf p) with h | h
  · unfold consL after
    rw [h]
    exact ⟨rfl, hnn⟩
  · cases p with
    | nil =>
      unfold consL after
      rw [h]
      exact ⟨rfl, hnn⟩
    | cons m p' =>
      rw [pendingOf_cons p' (hnn m List.mem_cons_self)] at h
      unfold consL after
      rw [pendingOf_cons p' (hnn m List.mem_cons_self), h]
      exact ⟨rfl, fun x hx => hnn x (List.mem_cons_of_mem _ hx)⟩
