import Sheens.Proofs.ArrSound

/-! # All arms together: simultaneous induction on the fuel -/

theorem sound_all {bs₀ : Bs} {vs : List String} (hPB : PB vs bs₀) : ∀ n,
    StmtMatch bs₀ vs n ∧ StmtBound bs₀ vs n ∧ StmtStr bs₀ vs n ∧ StmtObj bs₀ vs n ∧
    StmtArr bs₀ vs n ∧ StmtWith bs₀ vs n ∧ StmtMapcat bs₀ vs n ∧ StmtGather bs₀ vs n ∧
    StmtOne bs₀ vs n ∧ StmtCat bs₀ vs n ∧ StmtLoop bs₀ vs n := by
  intro n
  induction n with
  | zero =>
    refine ⟨?_, ?_, ?_, ?_, ?_, ?_, ?_, ?_, ?_, ?_, ?_⟩
    · intro p f bs rs _ _ _ _ h; simp [matchF] at h
    · intro b f bs rs _ _ _ h; simp [matchBound] at h
    · intro s f bs rs _ _ _ h; simp [matchStr] at h
    · intro pm f bs rs _ _ _ _ h; simp [matchObj] at h
    · intro ps f bs rs _ _ _ _ h; simp [matchArr] at h
    · intro bss p f rs _ _ _ _ h; simp [matchWith] at h
    · intro bss pm fm rs _ _ _ _ h; simp [mapcat] at h
    · intro bss k v fm rs _ _ _ _ _ h; simp [propGather] at h
    · intro bss pat mm todo a f _ _ _ _ _ h; simp [arrayOne] at h
    · intro P bsss pat fxas a f _ _ _ _ h; simp [arraycat] at h
    · intro bs fa xs fxs bsss fxas flag done fxs' bsss' fxas' _ _ _ h; simp [loopXs] at h
  | succ n ih =>
    obtain ⟨ihM, ihB, ihS, ihO, ihA, ihW, ihMc, ihG, ihOne, ihCat, ihL⟩ := ih
    exact ⟨sound_match_step ihS ihO ihA, sound_bound_step ihM, sound_str_step hPB ihB,
      sound_obj_step ihMc ihG, sound_arr_step ihCat ihL, sound_with_step ihM ihW,
      sound_mapcat_step ihW ihMc, sound_gather_step ihW ihG, sound_one_step ihW ihOne,
      sound_cat_step ihOne ihCat, sound_loop_step ihCat ihL⟩
