import Sheens.Proofs.CompleteBasic

/-!
# Completeness (C02), part 2: the list-traversing functions try every candidate

If `matchWith / arrayOne / arraycat / propGather` return at all, the sub-call for any chosen
candidate returned and its results are among the results (`*_complete`); the shape of the new
branch lists (`*_shape`); the two indexes of a set-like array are a permutation of it.
-/

namespace Sheens.Complete

theorem with_complete : ∀ (bss : List Bs) (n : Nat) (p f : V) (acc : List Bs) (b : Bs),
    matchWith n bss p f = .ok acc → b ∈ bss →
    ∃ m rs, matchF m p f b = .ok rs ∧ ∀ r ∈ rs, r ∈ acc := by
  intro bss
  induction bss with
  | nil => intro n p f acc b _ hb; cases hb
  | cons bs rest ih =>
    intro n p f acc b h hb
    cases n with
    | zero => simp [matchWith] at h
    | succ n =>
      simp only [matchWith] at h
      split at h
      · next r1 h1 =>
        split at h
        · next r2 h2 =>
          cases h
          rcases List.mem_cons.mp hb with rfl | hb
          · exact ⟨n, r1, h1, fun r hr => List.mem_append_left _ hr⟩
          · obtain ⟨m, rs, hm, hsub⟩ := ih n p f r2 b h2 hb
            exact ⟨m, rs, hm, fun r hr => List.mem_append_right _ (hsub r hr)⟩
        · next hne => rename_i e; cases e <;> simp_all
      · next hne => rename_i e; cases e <;> simp_all

theorem one_shape {bss : List Bs} {pat : V} {mm : List (Nat × V)} :
    ∀ (todo : List (Nat × V)) (n : Nat) a f, arrayOne n bss pat mm todo = .inr (a, f) →
    Brs (fun _ mm' => ∃ j fact, (j, fact) ∈ todo ∧ mm' = mm.filter (fun e => e.1 != j)) a f := by
  intro todo
  induction todo with
  | nil =>
    intro n a f h
    cases n with
    | zero => simp [arrayOne] at h
    | succ n => simp only [arrayOne] at h; cases h; exact Brs.nil
  | cons jf todo ih =>
    intro n a f h
    obtain ⟨j, fact⟩ := jf
    cases n with
    | zero => simp [arrayOne] at h
    | succ n =>
      simp only [arrayOne] at h
      split at h
      · next acc hW =>
        split at h
        · cases h
        · next a' f' hO =>
          have hR := (ih n a' f' hO).imp
            (Q := fun _ mm' => ∃ j' fact', (j', fact') ∈ (j, fact) :: todo ∧
              mm' = mm.filter (fun e => e.1 != j'))
            (fun _ _ ⟨j', fact', h1, h2⟩ => ⟨j', fact', List.mem_cons_of_mem _ h1, h2⟩)
          split at h
          · cases h; exact hR
          · cases h
            exact Brs.cons ⟨j, fact, List.mem_cons_self, rfl⟩ hR
      · cases h

theorem one_complete {bss : List Bs} {pat : V} {mm : List (Nat × V)} {j : Nat} {fact : V} :
    ∀ (todo : List (Nat × V)) (n : Nat) a f, arrayOne n bss pat mm todo = .inr (a, f) →
    (j, fact) ∈ todo → ∃ m acc, matchWith m bss pat fact = .ok acc ∧
      (acc ≠ [] → MemBr acc (mm.filter (fun e => e.1 != j)) a f) := by
  intro todo
  induction todo with
  | nil => intro n a f _ hm; cases hm
  | cons jf todo ih =>
    intro n a f h hm
    obtain ⟨j', fact'⟩ := jf
    cases n with
    | zero => simp [arrayOne] at h
    | succ n =>
      simp only [arrayOne] at h
      split at h
      · next acc hW =>
        split at h
        · cases h
        · next a' f' hO =>
          split at h
          · next he =>
            cases h
            rcases List.mem_cons.mp hm with heq | hm
            · cases heq
              refine ⟨n, acc, hW, fun hne => ?_⟩
              exact absurd (List.isEmpty_iff.mp he) hne
            · exact ih n a f hO hm
          · next he =>
            cases h
            rcases List.mem_cons.mp hm with heq | hm
            · cases heq
              exact ⟨n, acc, hW, fun _ => MemBr.here⟩
            · obtain ⟨m, acc', h1, h2⟩ := ih n a' f' hO hm
              exact ⟨m, acc', h1, fun hne => MemBr.there (h2 hne)⟩
      · cases h

theorem cat_shape {P : List Bs → List (Nat × V) → Prop} {pat : V} :
    ∀ (bsss : List (List Bs)) (fxas : List (List (Nat × V))) (n : Nat) a f, Brs P bsss fxas →
    arraycat n bsss pat fxas = .inr (a, f) →
    Brs (fun _ mm' => ∃ bss mm j fact, P bss mm ∧ (j, fact) ∈ mm ∧
      mm' = mm.filter (fun e => e.1 != j)) a f := by
  intro bsss fxas n a f hb
  induction hb generalizing n a f with
  | nil =>
    intro h
    cases n with
    | zero => simp [arraycat] at h
    | succ n => simp only [arraycat] at h; cases h; exact Brs.nil
  | @cons bss mm bsss fxas hp _ ih =>
    intro h
    cases n with
    | zero => simp [arraycat] at h
    | succ n =>
      simp only [arraycat] at h
      split at h
      · cases h
      · next a1 f1 h1 =>
        split at h
        · cases h
        · next a2 f2 h2 =>
          cases h
          refine Brs.append ?_ (ih n a2 f2 h2)
          exact (one_shape mm n a1 f1 h1).imp
            (fun _ _ ⟨j, fact, hm, he⟩ => ⟨bss, mm, j, fact, hp, hm, he⟩)

theorem cat_complete {pat : V} {bss : List Bs} {mm : List (Nat × V)} {j : Nat} {fact : V}
    {bsss : List (List Bs)} {fxas : List (List (Nat × V))} (hm : MemBr bss mm bsss fxas) :
    ∀ (n : Nat) a f, arraycat n bsss pat fxas = .inr (a, f) → (j, fact) ∈ mm →
    ∃ m acc, matchWith m bss pat fact = .ok acc ∧
      (acc ≠ [] → MemBr acc (mm.filter (fun e => e.1 != j)) a f) := by
  induction hm with
  | @here bsss fxas =>
    intro n a f h hj
    cases n with
    | zero => simp [arraycat] at h
    | succ n =>
      simp only [arraycat] at h
      split at h
      · cases h
      · next a1 f1 h1 =>
        split at h
        · cases h
        · next a2 f2 h2 =>
          cases h
          obtain ⟨m, acc, hw, hmem⟩ := one_complete mm n a1 f1 h1 hj
          exact ⟨m, acc, hw, fun hne => (hmem hne).append_left _ _⟩
  | @there bsss fxas x y _ ih =>
    intro n a f h hj
    cases n with
    | zero => simp [arraycat] at h
    | succ n =>
      simp only [arraycat] at h
      split at h
      · cases h
      · next a1 f1 h1 =>
        split at h
        · cases h
        · next a2 f2 h2 =>
          cases h
          obtain ⟨m, acc, hw, hmem⟩ := ih n a2 f2 h2 hj
          exact ⟨m, acc, hw, fun hne =>
            (hmem hne).append_right (Brs.length_eq (one_shape y n a1 f1 h1))⟩

theorem _root_.Brs.false_nil {P} {a : List (List Bs)} {f : List (List (Nat × V))} (h : Brs P a f)
    (hP : ∀ x y, ¬ P x y) : a = [] := by
  cases h with
  | nil => rfl
  | cons hp _ => exact absurd hp (hP _ _)

/-- no facts on offer in any branch ⇒ no new branch -/
theorem cat_empty {P : List Bs → List (Nat × V) → Prop} {pat : V} {bsss : List (List Bs)}
    {fxas : List (List (Nat × V))} {n : Nat} {a f} (hb : Brs P bsss fxas)
    (hP : ∀ bss mm, P bss mm → mm = [])
    (h : arraycat n bsss pat fxas = .inr (a, f)) : a = [] := by
  refine (cat_shape bsss fxas n a f hb h).false_nil ?_
  intro x y ⟨bss, mm, j, fact, hp, hm, _⟩
  rw [hP bss mm hp] at hm
  cases hm

theorem gather_complete {bss : List Bs} {k : String} {v : V} {fk : String} {fv : V} :
    ∀ (fm : List (String × V)) (n : Nat) rs, propGather n bss k v fm = .ok rs → (fk, fv) ∈ fm →
    ∃ m ext, matchWith m bss (.str k) (.str fk) = .ok ext ∧
      (ext ≠ [] → ∃ m' ext2, matchWith m' ext v fv = .ok ext2 ∧ ∀ r ∈ ext2, r ∈ rs) := by
  intro fm
  induction fm with
  | nil => intro n rs _ hm; cases hm
  | cons kv rest ih =>
    intro n rs h hm
    obtain ⟨fk', fv'⟩ := kv
    cases n with
    | zero => simp [propGather] at h
    | succ n =>
      simp only [propGather] at h
      split at h
      · next ext hext =>
        split at h
        · next ext2 hext2 =>
          split at h
          · next more hmore =>
            cases h
            rcases List.mem_cons.mp hm with heq | hm
            · cases heq
              refine ⟨n, ext, hext, fun hne => ?_⟩
              split at hext2
              · next he => exact absurd (List.isEmpty_iff.mp he) hne
              · exact ⟨n, ext2, hext2, fun r hr => List.mem_append_left _ hr⟩
            · obtain ⟨m, ext', h1, h2⟩ := ih n more hmore hm
              refine ⟨m, ext', h1, fun hne => ?_⟩
              obtain ⟨m', e2, h3, h4⟩ := h2 hne
              exact ⟨m', e2, h3, fun r hr => List.mem_append_right _ (h4 r hr)⟩
          · next hne => rename_i e; cases e <;> simp_all
        · next hne => rename_i e; cases e <;> simp_all
      · next hne => rename_i e; cases e <;> simp_all

/-! ## `Pick` and permutations; the indexes of a set-like array -/

theorem _root_.Pick.perm {α} {f : α} {l l' : List α} (h : Pick f l l') : l.Perm (f :: l') := by
  induction h with
  | here => exact List.Perm.refl _
  | there _ ih => exact (List.Perm.cons _ ih).trans (List.Perm.swap _ _ _)

theorem _root_.Pick.sub {α} {f : α} {l l' : List α} (h : Pick f l l') : ∀ x ∈ l', x ∈ l := by
  intro x hx
  exact h.perm.mem_iff.mpr (List.mem_cons_of_mem _ hx)

theorem toV_scalar (sc : Scalar) : sc.toV.scalar? = some sc := by
  cases sc <;> rfl

theorem toV_inj {a b : Scalar} (h : a.toV = b.toV) : a = b := by
  have := congrArg V.scalar? h
  rw [toV_scalar, toV_scalar] at this
  exact Option.some.inj this

theorem indexStruct_struct {fa : List V} : ∀ {i : Nat} {e : Nat × V}, e ∈ indexStruct fa i →
    e.2.scalar? = none := by
  induction fa with
  | nil => intro i e h; simp [indexStruct] at h
  | cons x fa ih =>
    intro i e h
    simp only [indexStruct] at h
    split at h
    · exact ih h
    · next hx =>
      rcases List.mem_cons.mp h with rfl | h
      · exact hx
      · exact ih h

theorem index_perm (fa : List V) : ∀ (acc : List Scalar) (i : Nat),
    scalarsNodup fa = true → (∀ x ∈ fa, ∀ sc, x.scalar? = some sc → sc ∉ acc) →
    ((indexStruct fa i).map (·.2) ++ (indexScalars fa acc).map Scalar.toV).Perm
      (fa ++ acc.reverse.map Scalar.toV) := by
  induction fa with
  | nil => intro acc i _ _; simp [indexStruct, indexScalars]
  | cons x fa ih =>
    intro acc i hn hacc
    simp only [scalarsNodup, Bool.and_eq_true] at hn
    cases hsc : x.scalar? with
    | some sc =>
      have hnot : acc.contains sc = false := by
        have := hacc x List.mem_cons_self sc hsc
        cases hc : acc.contains sc with
        | false => rfl
        | true => exact absurd (List.contains_iff_mem.mp hc) this
      have hfresh : ∀ y ∈ fa, ∀ s', y.scalar? = some s' → s' ∉ sc :: acc := by
        intro y hy s' hs' hmem
        rcases List.mem_cons.mp hmem with heq | hmem
        · subst heq
          have h1 := hn.1
          rw [hsc] at h1
          simp only [Bool.not_eq_true', List.any_eq_false] at h1
          have := h1 y hy
          rw [hs'] at this
          simp at this
        · exact hacc y (List.mem_cons_of_mem _ hy) s' hs' hmem
      have := ih (sc :: acc) (i+1) hn.2 hfresh
      simp only [indexStruct, indexScalars, hsc, hnot]
      refine this.trans ?_
      rw [scalar_toV hsc]
      simp only [List.reverse_cons, List.map_append, List.map_cons, List.map_nil]
      have h2 : (fa ++ (acc.reverse.map Scalar.toV ++ [sc.toV])).Perm
          ([sc.toV] ++ (fa ++ acc.reverse.map Scalar.toV)) := by
        rw [← List.append_assoc]
        exact List.perm_append_comm
      simpa using h2
    | none =>
      have := ih acc (i+1) hn.2
        (fun y hy s' hs' => hacc y (List.mem_cons_of_mem _ hy) s' hs')
      simp only [indexStruct, indexScalars, hsc]
      simpa using this

theorem index_perm0 {fa : List V} (hn : scalarsNodup fa = true) :
    fa.Perm (remOf (indexStruct fa 0) (indexScalars fa [])) := by
  have := index_perm fa [] 0 hn (fun _ _ _ _ h => nomatch h)
  simpa [remOf] using this.symm

end Sheens.Complete
