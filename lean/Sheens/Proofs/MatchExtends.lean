import Sheens.Proofs.ArrSound

/-!
# The matcher only ever extends the bindings

Every result of the matcher is related to the bindings it started from by any relation that is
reflexive, transitive and contains "cons a key that is currently unbound" — the only way the matcher
ever changes bindings (`matchStr` and `inequal`).  No well-formedness hypotheses are needed.
Instances: `Extends` (`matchF_extends`) and preservation of `NoDupKeys` (`matchF_nodup`).
-/

structure StepRel (R : Bs → Bs → Prop) : Prop where
  refl  : ∀ a, R a a
  trans : ∀ {a b c}, R a b → R b c → R a c
  fresh : ∀ {s v bs}, lookup s bs = none → R bs ((s, v) :: bs)

/-- `r` comes from one of `bss` -/
def FromL (R : Bs → Bs → Prop) (bss : List Bs) (r : Bs) : Prop := ∃ bs ∈ bss, R bs r

theorem FromL.trans {R : Bs → Bs → Prop} (hR : StepRel R) {bss acc : List Bs} {r : Bs}
    (h1 : ∀ b ∈ acc, FromL R bss b) (h2 : FromL R acc r) : FromL R bss r := by
  obtain ⟨b, hb, hr⟩ := h2
  obtain ⟨b0, hb0, hr0⟩ := h1 b hb
  exact ⟨b0, hb0, hR.trans hr0 hr⟩

section
variable (R : Bs → Bs → Prop)

def EMatch (n : Nat) : Prop := ∀ p f bs rs, matchF n p f bs = .ok rs → ∀ r ∈ rs, R bs r
def EBound (n : Nat) : Prop := ∀ b f bs rs, matchBound n b f bs = .ok rs → ∀ r ∈ rs, R bs r
def EStr (n : Nat) : Prop := ∀ s f bs rs, matchStr n s f bs = .ok rs → ∀ r ∈ rs, R bs r
def EObj (n : Nat) : Prop := ∀ pm f bs rs, matchObj n pm f bs = .ok rs → ∀ r ∈ rs, R bs r
def EArr (n : Nat) : Prop := ∀ ps f bs rs, matchArr n ps f bs = .ok rs → ∀ r ∈ rs, R bs r
def EWith (n : Nat) : Prop :=
  ∀ bss p f rs, matchWith n bss p f = .ok rs → ∀ r ∈ rs, FromL R bss r
def EMapcat (n : Nat) : Prop :=
  ∀ bss pm fm rs, mapcat n bss pm fm = .ok rs → ∀ r ∈ rs, FromL R bss r
def EGather (n : Nat) : Prop :=
  ∀ bss k v fm rs, propGather n bss k v fm = .ok rs → ∀ r ∈ rs, FromL R bss r
def EOne (n : Nat) : Prop :=
  ∀ bss pat mm todo a f, arrayOne n bss pat mm todo = .inr (a, f) →
    ∀ l ∈ a, ∀ r ∈ l, FromL R bss r
def ECat (n : Nat) : Prop :=
  ∀ bsss pat fxas a f, arraycat n bsss pat fxas = .inr (a, f) →
    ∀ l ∈ a, ∀ r ∈ l, ∃ bss ∈ bsss, FromL R bss r
def ELoop (n : Nat) : Prop :=
  ∀ xs fxs bsss fxas flag fxs' bsss' fxas',
    loopXs n xs fxs bsss fxas flag = .inr (fxs', bsss', fxas') →
    ∀ l ∈ bsss', ∀ r ∈ l, ∃ bss ∈ bsss, FromL R bss r
end

section
variable {R : Bs → Bs → Prop}

theorem ext_with_step {n : Nat} (ihM : EMatch R n) (ihW : EWith R n) : EWith R (n+1) := by
  intro bss p f rs h r hr
  cases bss with
  | nil => simp [matchWith] at h; subst h; cases hr
  | cons bs rest =>
    simp only [matchWith] at h
    split at h
    · next r1 h1 =>
      split at h
      · next r2 h2 =>
        cases h
        rcases List.mem_append.mp hr with hr | hr
        · exact ⟨bs, List.mem_cons_self, ihM p f bs r1 h1 r hr⟩
        · obtain ⟨b, hb, hx⟩ := ihW rest p f r2 h2 r hr
          exact ⟨b, List.mem_cons_of_mem _ hb, hx⟩
      · next hne => rename_i e; cases e <;> simp_all
    · next hne => rename_i e; cases e <;> simp_all

theorem ext_mapcat_step (hR : StepRel R) {n : Nat} (ihW : EWith R n) (ihC : EMapcat R n) :
    EMapcat R (n+1) := by
  intro bss pm fm rs h r hr
  cases pm with
  | nil =>
    simp only [mapcat] at h; cases h
    exact ⟨r, hr, hR.refl r⟩
  | cons kv rest =>
    obtain ⟨k, v⟩ := kv
    simp only [mapcat] at h
    split at h
    · cases h
    · split at h
      · split at h
        · exact ihC bss rest fm rs h r hr
        · cases h; cases hr
      · next fv hl =>
        split at h
        · cases h; cases hr
        · next acc hne hacc =>
          exact FromL.trans hR (ihW bss v fv acc hacc) (ihC acc rest fm rs h r hr)
        · next hne1 hne2 => rename_i e; cases e <;> simp_all

theorem ext_gather_step (hR : StepRel R) {n : Nat} (ihW : EWith R n) (ihG : EGather R n) :
    EGather R (n+1) := by
  intro bss k v fm rs h r hr
  cases fm with
  | nil => simp only [propGather] at h; cases h; cases hr
  | cons kv rest =>
    obtain ⟨fk, fv⟩ := kv
    simp only [propGather] at h
    split at h
    · next ext hext =>
      split at h
      · next ext2 hext2 =>
        split at h
        · next more hmore =>
          cases h
          rcases List.mem_append.mp hr with hr | hr
          · split at hext2
            · cases hext2; cases hr
            · exact FromL.trans hR (ihW bss _ _ ext hext) (ihW ext v fv ext2 hext2 r hr)
          · exact ihG bss k v rest more hmore r hr
        · next hne => rename_i e; cases e <;> simp_all
      · next hne => rename_i e; cases e <;> simp_all
    · next hne => rename_i e; cases e <;> simp_all

theorem inequal_rel (hR : StepRel R) {f : V} {bs : Bs} {s : String} {rs : List Bs}
    (h : inequal f bs s = some rs) : ∀ r ∈ rs, R bs r := by
  intro r hr
  unfold inequal at h
  split at h
  · cases h
  · split at h
    · cases h
    · split at h
      · cases h
      · split at h
        · cases h
        · split at h
          · cases h; cases hr
          · split at h
            · split at h
              · cases h
              · split at h
                · cases h; simp at hr; subst hr; exact hR.refl _
                · cases h; cases hr
            · next hnone =>
              cases h; simp at hr; subst hr
              exact hR.fresh hnone

theorem ext_bound_step {n : Nat} (ihM : EMatch R n) (hR : StepRel R) : EBound R (n+1) := by
  intro b f bs rs h r hr
  simp only [matchBound] at h
  split at h
  · split at h
    · split at h
      · split at h
        · cases h; simp at hr; subst hr; exact hR.refl _
        · cases h; cases hr
      · cases h; cases hr
    · exact ihM _ f bs rs h r hr
  · exact ihM b f bs rs h r hr

theorem ext_str_step (hR : StepRel R) {n : Nat} (ihB : EBound R n) : EStr R (n+1) := by
  intro s f bs rs h r hr
  simp only [matchStr] at h
  split at h
  · split at h
    · split at h
      · cases h; simp at hr; subst hr; exact hR.refl _
      · cases h; cases hr
    · cases h; cases hr
  · split at h
    · cases h; simp at hr; subst hr; exact hR.refl _
    · split at h
      · next rs' hq => cases h; exact inequal_rel hR hq r hr
      · split at h
        · next b hl => exact ihB b f bs rs h r hr
        · next hl => cases h; simp at hr; subst hr; exact hR.fresh hl

theorem fromL_single {bs r : Bs} (h : FromL R [bs] r) : R bs r := by
  obtain ⟨b, hb, hr⟩ := h
  simp at hb; subst hb; exact hr

theorem ext_obj_step (hR : StepRel R) {n : Nat} (ihC : EMapcat R n) (ihG : EGather R n) :
    EObj R (n+1) := by
  intro pm f bs rs h r hr
  simp only [matchObj] at h
  split at h
  · next fm =>
    split at h
    · cases h; simp at hr; subst hr; exact hR.refl _
    · split at h
      · cases h
      · split at h
        · next k v =>
          split at h
          · exact fromL_single (ihG [bs] _ _ fm rs h r hr)
          · exact fromL_single (ihC [bs] _ fm rs h r hr)
        · exact fromL_single (ihC [bs] pm fm rs h r hr)
  · cases h; cases hr

theorem ext_match_step (hR : StepRel R) {n : Nat} (ihS : EStr R n) (ihO : EObj R n)
    (ihA : EArr R n) : EMatch R (n+1) := by
  intro p f bs rs h r hr
  unfold matchF at h
  split at h
  · simp only [matchNull] at h
    split at h <;> cases h
    · simp at hr; subst hr; exact hR.refl _
    · cases hr
  · simp only [matchBool] at h
    split at h
    · split at h <;> cases h
      · simp at hr; subst hr; exact hR.refl _
      · cases hr
    · cases h; cases hr
  · simp only [matchNum] at h
    split at h
    · split at h <;> cases h
      · simp at hr; subst hr; exact hR.refl _
      · cases hr
    · cases h; cases hr
  · exact ihS _ _ bs rs h r hr
  · exact ihO _ _ bs rs h r hr
  · exact ihA _ _ bs rs h r hr
  · cases h

theorem ext_one_step {n : Nat} (ihW : EWith R n) (ihO : EOne R n) : EOne R (n+1) := by
  intro bss pat mm todo a f h l hl r hr
  cases todo with
  | nil => simp only [arrayOne] at h; cases h; cases hl
  | cons e todo =>
    obtain ⟨j, fact⟩ := e
    simp only [arrayOne] at h
    split at h
    · next acc hacc =>
      split at h
      · cases h
      · next a' f' hrec =>
        split at h
        · cases h; exact ihO bss pat mm todo _ _ hrec l hl r hr
        · cases h
          rcases List.mem_cons.mp hl with hl | hl
          · subst hl; exact ihW bss pat fact _ hacc r hr
          · exact ihO bss pat mm todo _ _ hrec l hl r hr
    · cases h

theorem ext_cat_step {n : Nat} (ihO : EOne R n) (ihC : ECat R n) : ECat R (n+1) := by
  intro bsss pat fxas a f h l hl r hr
  cases bsss with
  | nil => simp only [arraycat] at h; cases h; cases hl
  | cons bss bsss =>
    cases fxas with
    | nil => simp only [arraycat] at h; cases h; cases hl
    | cons mm fxas =>
      simp only [arraycat] at h
      split at h
      · cases h
      · next a1 f1 h1 =>
        split at h
        · cases h
        · next a2 f2 h2 =>
          cases h
          rcases List.mem_append.mp hl with hl | hl
          · exact ⟨bss, List.mem_cons_self, ihO bss pat mm mm a1 f1 h1 l hl r hr⟩
          · obtain ⟨b, hb, hx⟩ := ihC bsss pat fxas a2 f2 h2 l hl r hr
            exact ⟨b, List.mem_cons_of_mem _ hb, hx⟩

theorem ext_loop_step (hR : StepRel R) {n : Nat} (ihC : ECat R n) (ihL : ELoop R n) :
    ELoop R (n+1) := by
  intro xs fxs bsss fxas flag fxs' bsss' fxas' h l hl r hr
  cases xs with
  | nil =>
    simp only [loopXs] at h
    cases h
    exact ⟨l, hl, r, hr, hR.refl r⟩
  | cons x xs =>
    simp only [loopXs] at h
    split at h
    · split at h
      · exact ihL xs _ bsss fxas flag fxs' bsss' fxas' h l hl r hr
      · cases h
    · split at h
      · cases h
      · split at h
        · cases h
        · next b1 f1 hcat =>
          split at h
          · cases h
          · obtain ⟨acc, hacc, b, hb, hbr⟩ := ihL xs fxs b1 f1 flag fxs' bsss' fxas' h l hl r hr
            obtain ⟨bss, hbss, b0, hb0, hb0r⟩ := ihC bsss x fxas b1 f1 hcat acc hacc b hb
            exact ⟨bss, hbss, b0, hb0, hR.trans hb0r hbr⟩

theorem ext_arr_step (hR : StepRel R) {n : Nat} (ihC : ECat R n) (ihL : ELoop R n) :
    EArr R (n+1) := by
  intro ps f bs rs h r hr
  simp only [matchArr] at h
  split at h
  · cases h
  · next v xs hgv =>
    split at h
    · next fa =>
      split at h
      · next r' hl =>
        subst h
        have := loopXs_inl _ _ _ _ _ _ _ hl
        subst this; cases hr
      · next fxs' bsss fxas hl =>
        have hloop : ∀ l ∈ bsss, ∀ r ∈ l, R bs r := by
          intro l hl' r hr
          obtain ⟨bss, hbss, hfrom⟩ := ihL xs _ _ _ _ fxs' bsss fxas hl l hl' r hr
          simp at hbss; subst hbss
          exact fromL_single hfrom
        have hflat : ∀ r ∈ bsss.flatten, R bs r := by
          intro r hr
          obtain ⟨l, h1, h2⟩ := List.mem_flatten.mp hr
          exact hloop l h1 r h2
        split at h
        · cases h; exact hflat r hr
        · next vn =>
          split at h
          · next r' hcat =>
            subst h
            exact absurd rfl (arraycat_inl _ _ _ _ _ hcat rs)
          · next bsss' fx' hcat =>
            split at h
            · cases h; exact hflat r hr
            · cases h
              obtain ⟨l, h1, h2⟩ := List.mem_flatten.mp hr
              obtain ⟨bss, hbss, b, hb, hbr⟩ := ihC bsss _ _ bsss' fx' hcat l h1 r h2
              exact hR.trans (hloop bss hbss b hb) hbr
    · cases h; cases hr

theorem ext_all (hR : StepRel R) : ∀ n,
    EMatch R n ∧ EBound R n ∧ EStr R n ∧ EObj R n ∧ EArr R n ∧ EWith R n ∧ EMapcat R n ∧
    EGather R n ∧ EOne R n ∧ ECat R n ∧ ELoop R n := by
  intro n
  induction n with
  | zero =>
    refine ⟨?_, ?_, ?_, ?_, ?_, ?_, ?_, ?_, ?_, ?_, ?_⟩
    · intro p f bs rs h; simp [matchF] at h
    · intro b f bs rs h; simp [matchBound] at h
    · intro s f bs rs h; simp [matchStr] at h
    · intro pm f bs rs h; simp [matchObj] at h
    · intro ps f bs rs h; simp [matchArr] at h
    · intro bss p f rs h; simp [matchWith] at h
    · intro bss pm fm rs h; simp [mapcat] at h
    · intro bss k v fm rs h; simp [propGather] at h
    · intro bss pat mm todo a f h; simp [arrayOne] at h
    · intro bsss pat fxas a f h; simp [arraycat] at h
    · intro xs fxs bsss fxas flag fxs' bsss' fxas' h; simp [loopXs] at h
  | succ n ih =>
    obtain ⟨ihM, ihB, ihS, ihO, ihA, ihW, ihMc, ihG, ihOne, ihCat, ihL⟩ := ih
    exact ⟨ext_match_step hR ihS ihO ihA, ext_bound_step ihM hR, ext_str_step hR ihB,
      ext_obj_step hR ihMc ihG, ext_arr_step hR ihCat ihL, ext_with_step ihM ihW,
      ext_mapcat_step hR ihW ihMc, ext_gather_step hR ihW ihG, ext_one_step ihW ihOne,
      ext_cat_step ihOne ihCat, ext_loop_step hR ihCat ihL⟩

end

theorem matchF_rel {R : Bs → Bs → Prop} (hR : StepRel R) {n : Nat} {p f : V} {bs : Bs}
    {rs : List Bs} (h : matchF n p f bs = .ok rs) : ∀ r ∈ rs, R bs r :=
  (ext_all hR n).1 p f bs rs h

theorem stepRel_extends : StepRel Extends :=
  ⟨Extends.refl, Extends.trans, extends_cons_fresh⟩

/-- the matcher only extends: every binding given is in every result, with the same value -/
theorem matchF_extends {n : Nat} {p f : V} {bs r : Bs} {rs : List Bs}
    (h : matchF n p f bs = .ok rs) (hr : r ∈ rs) :
    ∀ k v, lookup k bs = some v → lookup k r = some v :=
  matchF_rel stepRel_extends h r hr
