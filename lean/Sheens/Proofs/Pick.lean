import Sheens.Proofs.Mono

/-! # `Pick` lemmas, array embeddings with explicit left-over (`ArrEmbL`), `PickAll` -/

theorem Pick.comm {α} {f g : α} {l l1 l2 : List α} (h1 : Pick g l l1) (h2 : Pick f l1 l2) :
    ∃ l', Pick f l l' ∧ Pick g l' l2 := by
  induction h1 generalizing l2 with
  | here => exact ⟨_, Pick.there h2, Pick.here⟩
  | there h1 ih =>
    cases h2 with
    | here => exact ⟨_, Pick.here, h1⟩
    | there h2 =>
      obtain ⟨m, hm1, hm2⟩ := ih h2
      exact ⟨_, Pick.there hm1, Pick.there hm2⟩

theorem Pick.mem {α} {f : α} {l l' : List α} (h : Pick f l l') : f ∈ l := by
  induction h with
  | here => exact List.mem_cons_self
  | there _ ih => exact List.mem_cons_of_mem _ ih

theorem Pick.of_append {α} (a : List α) (x : α) (b : List α) : Pick x (a ++ x :: b) (a ++ b) := by
  induction a with
  | nil => exact Pick.here
  | cons y a ih => exact Pick.there ih

theorem Pick.snoc {α} (l : List α) (x : α) : Pick x (l ++ [x]) l := by
  have := Pick.of_append l x []
  simpa using this

/-- embedding of a pattern list into the facts, leaving `L` -/
inductive ArrEmbL (bs₀ r : Bs) : List V → List V → List V → Prop
  | nil  : ArrEmbL bs₀ r [] fs fs
  | cons : Pick f fs fs' → Sat bs₀ r p f → ArrEmbL bs₀ r ps fs' L → ArrEmbL bs₀ r (p :: ps) fs L
  | skip : isOptVar p = true → ArrEmbL bs₀ r ps fs L → ArrEmbL bs₀ r (p :: ps) fs L

theorem ArrEmbL.toArrEmb {bs₀ r : Bs} {ps fs L : List V} (h : ArrEmbL bs₀ r ps fs L) :
    ArrEmb bs₀ r ps fs := by
  induction h with
  | nil => exact ArrEmb.nil
  | cons hp hs _ ih => exact ArrEmb.cons hp hs ih
  | skip ho _ ih => exact ArrEmb.skip ho ih

theorem ArrEmbL.mono {bs₀ r r' : Bs} (he : Extends r r') {ps fs L : List V}
    (h : ArrEmbL bs₀ r ps fs L) : ArrEmbL bs₀ r' ps fs L := by
  induction h with
  | nil => exact ArrEmbL.nil
  | cons hp hs _ ih => exact ArrEmbL.cons hp (hs.mono he) ih
  | skip ho _ ih => exact ArrEmbL.skip ho ih

/-- pick `f` from the left-over first instead of last -/
theorem ArrEmbL.pick_first {bs₀ r : Bs} {ps fs L L' : List V} {f : V}
    (h : ArrEmbL bs₀ r ps fs L) (hp : Pick f L L') :
    ∃ fs', Pick f fs fs' ∧ ArrEmbL bs₀ r ps fs' L' := by
  induction h generalizing L' with
  | nil => exact ⟨_, hp, ArrEmbL.nil⟩
  | cons hg hs _ ih =>
    obtain ⟨fs1', h1, h2⟩ := ih hp
    obtain ⟨m, hm1, hm2⟩ := Pick.comm hg h1
    exact ⟨m, hm1, ArrEmbL.cons hm2 hs h2⟩
  | skip ho _ ih =>
    obtain ⟨fs1', h1, h2⟩ := ih hp
    exact ⟨fs1', h1, ArrEmbL.skip ho h2⟩

/-- insert one more matched pattern element anywhere in the pattern list -/
theorem ArrEmbL.insert {bs₀ r : Bs} {a b fs L L' : List V} {x f : V}
    (h : ArrEmbL bs₀ r (a ++ b) fs L) (hp : Pick f L L') (hs : Sat bs₀ r x f) :
    ArrEmbL bs₀ r (a ++ x :: b) fs L' := by
  induction a generalizing fs with
  | nil =>
    obtain ⟨fs', h1, h2⟩ := h.pick_first hp
    exact ArrEmbL.cons h1 hs h2
  | cons y a ih =>
    cases h with
    | cons hg hy hrest => exact ArrEmbL.cons hg hy (ih hrest)
    | skip ho hrest => exact ArrEmbL.skip ho (ih hrest)

theorem ArrEmbL.insert_skip {bs₀ r : Bs} {a b fs L : List V} {x : V}
    (h : ArrEmbL bs₀ r (a ++ b) fs L) (ho : isOptVar x = true) :
    ArrEmbL bs₀ r (a ++ x :: b) fs L := by
  induction a generalizing fs with
  | nil => exact ArrEmbL.skip ho h
  | cons y a ih =>
    cases h with
    | cons hg hy hrest => exact ArrEmbL.cons hg hy (ih hrest)
    | skip ho' hrest => exact ArrEmbL.skip ho' (ih hrest)

/-- append one more matched pattern element at the end -/
theorem ArrEmbL.snoc {bs₀ r : Bs} {done fs L L' : List V} {x f : V}
    (h : ArrEmbL bs₀ r done fs L) (hp : Pick f L L') (hs : Sat bs₀ r x f) :
    ArrEmbL bs₀ r (done ++ [x]) fs L' := by
  have h0 : ArrEmbL bs₀ r (done ++ []) fs L := by simpa using h
  exact h0.insert hp hs

/-- `rem` can be picked, one element at a time, out of `L` -/
inductive PickAll : List V → List V → Prop
  | nil  : PickAll [] L
  | cons : Pick x L L' → PickAll xs L' → PickAll (x :: xs) L

theorem PickAll.weaken {rem L L' : List V} {y : V} (h : PickAll rem L) (hp : Pick y L' L) :
    PickAll rem L' := by
  induction h generalizing L' with
  | nil => exact PickAll.nil
  | cons hx _ ih =>
    obtain ⟨m, hm1, hm2⟩ := Pick.comm hp hx
    exact PickAll.cons hm1 (ih hm2)

/-- remove the element at a given position of `rem` -/
theorem PickAll.remove {a b L : List V} {x : V} (h : PickAll (a ++ x :: b) L) :
    ∃ L', Pick x L L' ∧ PickAll (a ++ b) L' := by
  induction a generalizing L with
  | nil => cases h with | cons hx hr => exact ⟨_, hx, hr⟩
  | cons y a ih =>
    cases h with
    | cons hy hr =>
      obtain ⟨L1, h1, h2⟩ := ih hr
      obtain ⟨m, hm1, hm2⟩ := Pick.comm hy h1
      exact ⟨m, hm1, PickAll.cons hm2 h2⟩

/-- add an element at a given position of `rem`, taking it from a bigger `L` -/
theorem PickAll.insert {a b L L' : List V} {y : V} (h : PickAll (a ++ b) L) (hp : Pick y L' L) :
    PickAll (a ++ y :: b) L' := by
  induction a generalizing L L' with
  | nil => exact PickAll.cons hp h
  | cons z a ih =>
    cases h with
    | cons hz hr =>
      obtain ⟨m, hm1, hm2⟩ := Pick.comm hp hz
      exact PickAll.cons hm1 (ih hr hm2)

theorem PickAll.pick_mem {rem L : List V} {x : V} (h : PickAll rem L) (hm : x ∈ rem) :
    ∃ L', Pick x L L' := by
  obtain ⟨a, b, rfl⟩ := List.append_of_mem hm
  obtain ⟨L', h1, _⟩ := h.remove
  exact ⟨L', h1⟩

theorem PickAll.mem {rem L : List V} {x : V} (h : PickAll rem L) (hm : x ∈ rem) : x ∈ L := by
  obtain ⟨_, h1⟩ := h.pick_mem hm
  exact h1.mem

theorem PickAll.refl (l : List V) : PickAll l l := by
  induction l with
  | nil => exact PickAll.nil
  | cons x l ih => exact PickAll.cons Pick.here ih
