import Sheens.Proofs.EnginePlain

/-!
# The DSL's programs are `PredAction`s when their literals satisfy the predicate
-/

namespace Plain

/-- the literals an operation writes into the bindings or emits satisfy `P` -/
def PredOp (P : V → Prop) : Op → Prop
  | .set _ v => P v
  | .emit v => P v
  | .setnested _ _ v => P v
  | .markdeep _ _ v => P v
  | _ => True

section
variable {P : V → Prop}

mutual
theorem markV_pred (hP : ValPred P) {k2 : String} {v : V} (hv : P v) : ∀ x, P x → P (markV k2 v x)
  | .arr xs, h => by
    simp only [markV]
    exact (hP.arr _).mpr (markVs_pred hP hv xs ((hP.arr _).mp h))
  | .obj kvs, h => by
    simp only [markV]
    exact (hP.obj _).mpr (allBs_insertB hv (markKvs_pred hP hv kvs ((hP.obj _).mp h)))
  | .null, h => by simpa only [markV] using h
  | .bool _, h => by simpa only [markV] using h
  | .num _, h => by simpa only [markV] using h
  | .str _, h => by simpa only [markV] using h
  | .int _, h => by simpa only [markV] using h
  | .bobj _, h => by simpa only [markV] using h
  | .other _, h => by simpa only [markV] using h
theorem markVs_pred (hP : ValPred P) {k2 : String} {v : V} (hv : P v) :
    ∀ xs : List V, (∀ x ∈ xs, P x) → ∀ y ∈ markVs k2 v xs, P y
  | [], _ => by simp [markVs]
  | x :: xs, h => by
    intro y hy
    simp only [markVs, List.mem_cons] at hy
    rcases hy with hy | hy
    · subst hy; exact markV_pred hP hv x (h x List.mem_cons_self)
    · exact markVs_pred hP hv xs (fun z hz => h z (List.mem_cons_of_mem _ hz)) y hy
theorem markKvs_pred (hP : ValPred P) {k2 : String} {v : V} (hv : P v) :
    ∀ kvs : List (String × V), AllBs P kvs → AllBs P (markKvs k2 v kvs)
  | [], _ => by simp [markKvs, AllBs]
  | (k, x) :: rest, h => by
    simp only [markKvs]
    exact allBs_cons (markV_pred hP hv x (h (k, x) List.mem_cons_self))
      (markKvs_pred hP hv rest (fun z hz => h z (List.mem_cons_of_mem _ hz)))
end

theorem apply_pred (hP : ValPred P) {o : Op} (ho : PredOp P o) {bs : Bs} {em : List V}
    (hb : AllBs P bs) (he : AllMsgs P em) {bs' : Bs} {em' : List V}
    (h : o.apply bs em = .ok (bs', em')) : AllBs P bs' ∧ AllMsgs P em' := by
  cases o with
  | set k v => simp only [Op.apply] at h; cases h; exact ⟨allBs_insertB ho hb, he⟩
  | del k => simp only [Op.apply] at h; cases h; exact ⟨allBs_eraseB hb, he⟩
  | emit v =>
    simp only [Op.apply] at h; cases h
    refine ⟨hb, allMsgs_append he ?_⟩
    intro m hm
    simp at hm; subst hm; exact ho
  | emitb k =>
    simp only [Op.apply] at h; cases h
    refine ⟨hb, allMsgs_append he ?_⟩
    intro m hm
    simp only [List.mem_singleton] at hm
    subst hm
    have hv : P ((lookup k bs).getD .null) := by
      cases hl : lookup k bs with
      | none => exact hP.null
      | some v => exact all_lookup hb hl
    exact (hP.obj _).mpr (allBs_cons (hP.str _) (allBs_cons hv allBs_nil))
  | inc k => simp only [Op.apply] at h; cases h; exact ⟨allBs_insertB (hP.num _) hb, he⟩
  | fail m => simp only [Op.apply] at h; cases h
  | iffail k m =>
    simp only [Op.apply] at h
    split at h
    · cases h
    · cases h; exact ⟨hb, he⟩
  | clear => simp only [Op.apply] at h; cases h; exact ⟨allBs_nil, he⟩
  | setnested k k2 v =>
    simp only [Op.apply] at h
    split at h
    · next m hl =>
      cases h
      have hm : AllBs P m := (hP.obj m).mp (all_lookup hb hl)
      exact ⟨allBs_insertB ((hP.obj _).mpr (allBs_insertB ho hm)) hb, he⟩
    · cases h
      exact ⟨allBs_insertB ((hP.obj _).mpr (allBs_cons ho allBs_nil)) hb, he⟩
  | markdeep k k2 v =>
    simp only [Op.apply] at h
    split at h
    · next x hl =>
      cases h
      exact ⟨allBs_insertB (markV_pred hP ho x (all_lookup hb hl)) hb, he⟩
    · cases h; exact ⟨hb, he⟩
  | rejectUnless k =>
    simp only [Op.apply] at h
    split at h
    · cases h; exact ⟨hb, he⟩
    · cases h
  | rejectIf k v =>
    simp only [Op.apply] at h
    split at h
    · split at h
      · cases h
      · cases h; exact ⟨hb, he⟩
    · cases h; exact ⟨hb, he⟩
  | pollute => simp only [Op.apply] at h; cases h; exact ⟨hb, he⟩
  | forin k => simp only [Op.apply] at h; cases h; exact ⟨allBs_insertB (hP.num _) hb, he⟩
  | loop => simp only [Op.apply] at h; cases h
  | emitBad k => simp only [Op.apply] at h; cases h

theorem runOps_pred (hP : ValPred P) {ops : List Op} (ho : ∀ o ∈ ops, PredOp P o) {bs : Bs}
    {em : List V} (hb : AllBs P bs) (he : AllMsgs P em) :
    (∀ b' em', runOps ops bs em = .ok (b', em') → AllBs P b' ∧ AllMsgs P em') ∧
    (∀ x b' em', runOps ops bs em = .error (x, b', em') → AllBs P b' ∧ AllMsgs P em') := by
  induction ops generalizing bs em with
  | nil =>
    refine ⟨fun b' em' h => ?_, fun x b' em' h => ?_⟩
    · simp only [runOps] at h; cases h; exact ⟨hb, he⟩
    · simp only [runOps] at h; cases h
  | cons o rest ih =>
    have ho' : PredOp P o := ho o List.mem_cons_self
    have hrest : ∀ o ∈ rest, PredOp P o := fun x hx => ho x (List.mem_cons_of_mem _ hx)
    simp only [runOps]
    cases hap : o.apply bs em with
    | ok r =>
      obtain ⟨bs1, em1⟩ := r
      obtain ⟨h1, h2⟩ := apply_pred hP ho' hb he hap
      exact ih hrest h1 h2
    | error x =>
      refine ⟨fun b' em' h => ?_, fun y b' em' h => ?_⟩
      · cases h
      · cases h; exact ⟨hb, he⟩

theorem prog_pred (hP : ValPred P) (p : Prog) (ho : ∀ o ∈ p.ops, PredOp P o) :
    PredAction P p.run := by
  intro bs hbs bo em hx
  obtain ⟨hok, herr⟩ := runOps_pred hP ho hbs (allMsgs_nil (P := P))
  unfold Prog.run at hx
  split at hx
  · next b0 em0 hr =>
    cases hx
    exact ⟨(herr _ _ _ hr).2, fun b hb => by cases hb⟩
  · next x b0 em0 hne hr =>
    obtain ⟨h1, h2⟩ := herr _ _ _ hr
    simp only at hx
    split at hx
    · cases hx
      exact ⟨h2, fun b hb => by cases hb; exact h1⟩
    · cases hx
  · next b0 em0 hr =>
    obtain ⟨h1, h2⟩ := hok _ _ hr
    split at hx
    · cases hx; exact ⟨h2, fun b hb => by cases hb; exact h1⟩
    · cases hx
      exact ⟨h2, fun b hb => by cases hb; exact allBs_cons (hP.bool _) allBs_nil⟩
    · cases hx; exact ⟨h2, fun b hb => by cases hb⟩
    · split at hx
      · cases hx; exact ⟨h2, fun b hb => by cases hb; exact h1⟩
      · cases hx
    · split at hx
      · cases hx; exact ⟨h2, fun b hb => by cases hb; exact h1⟩
      · cases hx
    · split at hx
      · cases hx; exact ⟨h2, fun b hb => by cases hb; exact h1⟩
      · cases hx

end

end Plain
