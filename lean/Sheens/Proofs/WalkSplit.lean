import Sheens.Proofs.WalkLemmas

/-! # Splitting a batch of messages (`walk_split`): limit independence and the simulation lemma -/


def nobp : State → Bool := fun _ => false

/-- the state a list of strides ends in, falling back to the start state -/
def finalOf (st : State) (l : List Stride) : State := (lastTo l).getD st

def emS (l : List Stride) : List V := l.flatMap (·.emitted)

theorem finalOf_cons (st : State) (sd : Stride) (l : List Stride) :
    finalOf st (sd :: l) = finalOf (sd.to.getD st) l := lastTo_cons_getD sd l st

theorem finalOf_nil (st : State) : finalOf st [] = st := rfl

theorem emS_cons (sd : Stride) (l : List Stride) : emS (sd :: l) = sd.emitted ++ emS l := by
  simp [emS]

theorem emS_nil : emS [] = [] := rfl

theorem W_done_pos {s : Spec} {bp : State → Bool} {i : Nat} {st : State} {p : List V}
    (h : (W s bp i st p).stopped = .done) : ∃ i', i = i' + 1 := by
  cases i with
  | zero => rw [W_zero] at h; cases h
  | succ i' => exact ⟨i', rfl⟩

/-- a run that completes does not depend on the limit -/
theorem W_limit_indep (s : Spec) : ∀ i k st p,
    (W s nobp i st p).stopped = .done → (W s nobp k st p).stopped = .done →
    (W s nobp i st p).strides = (W s nobp k st p).strides := by
  intro i
  induction i with
  | zero => intro k st p h; rw [W_zero] at h; cases h
  | succ i ih =>
    intro k st p h1 h2
    obtain ⟨k', rfl⟩ := W_done_pos h2
    cases ht : (walkStride s st (pendingOf p)).to with
    | some t =>
      rw [W_some s nobp i st p t rfl ht] at h1 ⊢
      rw [W_some s nobp k' st p t rfl ht] at h2 ⊢
      simp only [Walked.cons] at h1 h2 ⊢
      rw [ih k' _ _ h1 h2]
    | none =>
      by_cases hs : (after (walkStride s st (pendingOf p)) p).isEmpty = true ∨
          (walkStride s st (pendingOf p)).consumed = none
      · rw [W_stop s nobp i st p rfl ht hs, W_stop s nobp k' st p rfl ht hs]
      · have h3 : (after (walkStride s st (pendingOf p)) p).isEmpty = false := by
          cases hx : (after (walkStride s st (pendingOf p)) p).isEmpty with
          | true => exact absurd (Or.inl hx) hs
          | false => rfl
        have h4 : (walkStride s st (pendingOf p)).consumed ≠ none := fun hx => hs (Or.inr hx)
        rw [W_go s nobp i st p rfl ht h3 h4] at h1 ⊢
        rw [W_go s nobp k' st p rfl ht h3 h4] at h2 ⊢
        simp only [Walked.cons] at h1 h2 ⊢
        rw [ih k' _ _ h1 h2]

/-- away from a consuming node, a stride that goes nowhere ends any run at once -/
theorem W_stuck (s : Spec) (st : State) (q : Option V) (hc : canConsume s st.node = false)
    (ht : (walkStride s st q).to = none) (k : Nat) (p : List V) :
    W s nobp (k+1) st p = { strides := [walkStride s st q], remaining := [], stopped := .done } := by
  have hq : walkStride s st (pendingOf p) = walkStride s st q := walkStride_indep s st hc _ _
  rw [W_stop s nobp k st p rfl (by rw [hq]; exact ht)
    (Or.inr (walkStride_nonconsumer s st _ hc)), hq]

/-- a consuming node without messages: one idle stride -/
theorem W_idle (s : Spec) (st : State) (hc : canConsume s st.node = true) (k : Nat) :
    W s nobp (k+1) st [] = { strides := [idleStride st], remaining := [], stopped := .done } := by
  have hq : walkStride s st (pendingOf []) = idleStride st := walkStride_consumer_none s st hc
  rw [W_stop s nobp k st [] rfl (by rw [hq]; rfl) (Or.inr (by rw [hq]; rfl)), hq]

theorem finalOf_single (st : State) (sd : Stride) (h : sd.to = none) : finalOf st [sd] = st := by
  rw [finalOf_cons, h]; rfl

theorem after_of_none (sd : Stride) (p : List V) (h : sd.consumed = none) : after sd p = p := by
  unfold after; rw [h]; rfl

theorem after_of_some (sd : Stride) (m x : V) (p : List V) (h : sd.consumed = some x) :
    after sd (m :: p) = p := by
  unfold after; rw [h]; rfl

theorem after_append (sd : Stride) (m : V) (a b : List V) :
    after sd ((m :: a) ++ b) = after sd (m :: a) ++ b := by
  unfold after; split <;> rfl

theorem after_mem (sd : Stride) (p : List V) : ∀ x ∈ after sd p, x ∈ p := by
  intro x hx
  unfold after at hx
  split at hx
  · exact List.mem_of_mem_drop hx
  · exact hx

theorem emS_single_stuck (s : Spec) (st : State) (q : Option V)
    (h : (walkStride s st q).to = none) : emS [walkStride s st q] = [] := by
  rw [emS_cons, walkStride_stuck_emits s st q h]; rfl

theorem emS_idle (st : State) : emS [idleStride st] = [] := rfl

theorem W_split (s : Spec) : ∀ j i k st a b, NonNullL (a ++ b) →
    (W s nobp j st a).stopped = .done →
    (W s nobp i st (a ++ b)).stopped = .done →
    (W s nobp k (finalOf st (W s nobp j st a).strides) b).stopped = .done →
    finalOf st (W s nobp i st (a ++ b)).strides =
      finalOf (finalOf st (W s nobp j st a).strides)
        (W s nobp k (finalOf st (W s nobp j st a).strides) b).strides ∧
    emS (W s nobp i st (a ++ b)).strides =
      emS (W s nobp j st a).strides ++
        emS (W s nobp k (finalOf st (W s nobp j st a).strides) b).strides := by
  intro j
  induction j with
  | zero => intro i k st a b _ h; rw [W_zero] at h; cases h
  | succ j ih =>
    intro i k st a b hnn h1 h2 h3
    obtain ⟨i', rfl⟩ := W_done_pos h2
    cases a with
    | nil =>
      simp only [List.nil_append] at hnn h2 ⊢
      cases hc : canConsume s st.node with
      | true =>
        rw [W_idle s st hc j] at h3 ⊢
        rw [finalOf_single st _ rfl] at h3 ⊢
        rw [W_limit_indep s (i'+1) k st b h2 h3, emS_idle]
        exact ⟨rfl, rfl⟩
      | false =>
        have hq : walkStride s st (pendingOf b) = walkStride s st (pendingOf []) :=
          walkStride_indep s st hc _ _
        have hcons := walkStride_nonconsumer s st (pendingOf []) hc
        cases ht : (walkStride s st (pendingOf [])).to with
        | some t =>
          have hcopy := walkStride_to_copy s st _ t ht
          have hwa := W_some s nobp j st [] t rfl ht
          have hwab := W_some s nobp i' st b t rfl (by rw [hq]; exact ht)
          rw [hq] at hwab
          rw [after_of_none _ _ hcons, hcopy] at hwa hwab
          rw [hwa] at h1 h3 ⊢
          rw [hwab] at h2 ⊢
          simp only [Walked.cons, finalOf_cons, ht, Option.getD_some, emS_cons] at h1 h2 h3 ⊢
          obtain ⟨e1, e2⟩ := ih i' k t [] b hnn h1 h2 h3
          simp only [List.nil_append] at e1 e2
          exact ⟨e1, by rw [e2, List.append_assoc]⟩
        | none =>
          obtain ⟨k', rfl⟩ := W_done_pos h3
          rw [W_stuck s st _ hc ht j []] at h3 ⊢
          rw [W_stuck s st _ hc ht i' b]
          rw [finalOf_single st _ ht] at h3 ⊢
          rw [W_stuck s st _ hc ht k' b]
          rw [finalOf_single st _ ht, emS_single_stuck s st _ ht]
          exact ⟨rfl, rfl⟩
    | cons m a' =>
      have hm : m ≠ V.null := hnn m (List.mem_append_left _ List.mem_cons_self)
      have hp : pendingOf (m :: a') = some m := pendingOf_cons a' hm
      have hpab : pendingOf ((m :: a') ++ b) = some m := pendingOf_cons (a' ++ b) hm
      cases ht : (walkStride s st (some m)).to with
      | some t =>
        have hcopy := walkStride_to_copy s st _ t ht
        have hwa := W_some s nobp j st (m :: a') t rfl (by rw [hp]; exact ht)
        have hwab := W_some s nobp i' st ((m :: a') ++ b) t rfl (by rw [hpab]; exact ht)
        rw [hp, hcopy] at hwa
        rw [hpab, hcopy, after_append] at hwab
        rw [hwa] at h1 h3 ⊢
        rw [hwab] at h2 ⊢
        simp only [Walked.cons, finalOf_cons, ht, Option.getD_some, emS_cons] at h1 h2 h3 ⊢
        have hnn' : NonNullL (after (walkStride s st (some m)) (m :: a') ++ b) := by
          intro x hx
          rcases List.mem_append.mp hx with hx | hx
          · exact hnn x (List.mem_append_left _ (after_mem _ _ x hx))
          · exact hnn x (List.mem_append_right _ hx)
        obtain ⟨e1, e2⟩ := ih i' k t _ b hnn' h1 h2 h3
        exact ⟨e1, by rw [e2, List.append_assoc]⟩
      | none =>
        cases hcons : (walkStride s st (some m)).consumed with
        | none =>
          have hc : canConsume s st.node = false := by
            cases hc : canConsume s st.node with
            | false => rfl
            | true => rw [walkStride_consumer_some s st m hc] at hcons; cases hcons
          obtain ⟨k', rfl⟩ := W_done_pos h3
          rw [W_stuck s st _ hc ht j (m :: a')] at h3 ⊢
          rw [W_stuck s st _ hc ht i' ((m :: a') ++ b)]
          rw [finalOf_single st _ ht] at h3 ⊢
          rw [W_stuck s st _ hc ht k' b]
          rw [finalOf_single st _ ht, emS_single_stuck s st _ ht]
          exact ⟨rfl, rfl⟩
        | some x =>
          have hc : canConsume s st.node = true := by
            cases hc : canConsume s st.node with
            | true => rfl
            | false => rw [walkStride_nonconsumer s st _ hc] at hcons; cases hcons
          have hne : (walkStride s st (some m)).consumed ≠ none := by rw [hcons]; simp
          cases a' with
          | nil =>
            have hwa := W_stop s nobp j st [m] rfl (by rw [hp]; exact ht)
              (Or.inl (by rw [hp, after_of_some _ _ _ _ hcons]; rfl))
            rw [hp] at hwa
            rw [hwa] at h3 ⊢
            rw [finalOf_single st _ ht] at h3 ⊢
            cases b with
            | nil =>
              obtain ⟨k', rfl⟩ := W_done_pos h3
              rw [W_idle s st hc k']
              have hwab := W_stop s nobp i' st ([m] ++ []) rfl (by rw [hpab]; exact ht)
                (Or.inl (by rw [hpab, after_append, after_of_some _ _ _ _ hcons]; rfl))
              rw [hpab] at hwab
              rw [hwab, finalOf_single st _ ht, finalOf_single st _ rfl, emS_idle,
                List.append_nil]
              exact ⟨rfl, rfl⟩
            | cons m2 b' =>
              have hwab := W_go s nobp i' st ([m] ++ m2 :: b') rfl (by rw [hpab]; exact ht)
                (by rw [hpab, after_append, after_of_some _ _ _ _ hcons]; rfl)
                (by rw [hpab]; exact hne)
              rw [hpab, after_append, after_of_some _ _ _ _ hcons] at hwab
              rw [hwab] at h2 ⊢
              simp only [Walked.cons, List.nil_append] at h2 ⊢
              rw [W_limit_indep s i' k st _ h2 h3]
              rw [finalOf_cons, ht, emS_cons, emS_cons, emS_nil, List.append_nil]
              exact ⟨rfl, rfl⟩
          | cons m' a'' =>
            have hwa := W_go s nobp j st (m :: m' :: a'') rfl (by rw [hp]; exact ht)
              (by rw [hp, after_of_some _ _ _ _ hcons]; rfl) (by rw [hp]; exact hne)
            have hwab := W_go s nobp i' st ((m :: m' :: a'') ++ b) rfl (by rw [hpab]; exact ht)
              (by rw [hpab, after_append, after_of_some _ _ _ _ hcons]; rfl)
              (by rw [hpab]; exact hne)
            rw [hp, after_of_some _ _ _ _ hcons] at hwa
            rw [hpab, after_append, after_of_some _ _ _ _ hcons] at hwab
            rw [hwa] at h1 h3 ⊢
            rw [hwab] at h2 ⊢
            simp only [Walked.cons, finalOf_cons, ht, Option.getD_none, emS_cons] at h1 h2 h3 ⊢
            have hnn' : NonNullL ((m' :: a'') ++ b) :=
              fun x hx => hnn x (List.mem_cons_of_mem _ hx)
            obtain ⟨e1, e2⟩ := ih i' k st _ b hnn' h1 h2 h3
            exact ⟨e1, by rw [e2, List.append_assoc]⟩
