import Sheens.Proofs.MatchPlain
import Sheens.Proofs.WalkLemmas

/-!
# A step and a walk only build states and emissions out of what they are given

For a value predicate `P` (`ValPred`): when the spec's actions and guards return `P`-values on
`P`-bindings (`PredSpec`), every state a step or a walk produces from a `P`-state and `P`-messages is
a `P`-state, and every emission is a `P`-value.  Same chain of lemmas as the "keeps permanent"
one in `Permanent.lean`.
-/

namespace Plain

section
variable (P : V → Prop)

def PredState (st : State) : Prop := ∀ bs, st.bs = some bs → AllBs P bs

def PredAction (a : ActionF) : Prop :=
  ∀ bs, AllBs P (copyB bs) → ∀ bo em, (a bs).exe = some (bo, em) →
    AllMsgs P em ∧ ∀ b, bo = some b → AllBs P b

def PredNode (n : Node) : Prop :=
  (∀ a, n.action = some a → PredAction P a) ∧
  (∀ br, n.branches = some br → ∀ b ∈ br.branches, ∀ g, b.guard = some g → PredAction P g)

def PredSpec (s : Spec) : Prop := ∀ name n, (name, n) ∈ s.nodes → PredNode P n

/-- what is claimed of a stride -/
def PredStride (sd : Stride) : Prop := (∀ t, sd.to = some t → PredState P t) ∧ AllMsgs P sd.emitted
end

section
variable {P : V → Prop}

theorem predState_iff (st : State) : PredState P st ↔ AllBs P (copyB st.bs) := by
  unfold PredState
  cases st.bs with
  | none => exact ⟨fun _ => allBs_nil, fun _ bs h => by cases h⟩
  | some b => exact ⟨fun h => h b rfl, fun h bs hb => by cases hb; exact h⟩

theorem predState_mk {node : String} {b : Bs} (h : AllBs P b) :
    PredState P { node := node, bs := some b } := fun bs hb => by cases hb; exact h

theorem predState_copy {t : State} (h : PredState P t) : PredState P (stateCopy t) :=
  predState_mk ((predState_iff t).mp h)

theorem mem_of_findNode {k : String} {n : Node} {nodes : List (String × Node)}
    (h : findNode k nodes = some n) : (k, n) ∈ nodes := by
  induction nodes with
  | nil => cases h
  | cons kn rest ih =>
    obtain ⟨k', n'⟩ := kn
    simp only [findNode] at h
    split at h
    · next heq => cases h; subst heq; exact List.mem_cons_self
    · exact List.mem_cons_of_mem _ (ih h)

/-! ## `execWrap` -/

theorem execWrap_pred {a : ActionF} (ha : PredAction P a) : PredAction P (execWrap a) := by
  intro bs hbs bo em hx
  unfold execWrap at hx
  simp only at hx
  split at hx
  · cases hx; exact ⟨allMsgs_nil, fun b hb => by cases hb⟩
  · next em' h0 =>
    cases hx
    exact ⟨(ha bs hbs _ _ h0).1, fun b hb => by cases hb⟩
  · next b0 em' h0 =>
    cases hx
    obtain ⟨h1, h2⟩ := ha bs hbs _ _ h0
    refine ⟨h1, fun b hb => ?_⟩
    cases hb
    exact allBs_restore (allBs_permanentOf hbs) (h2 b0 rfl)

theorem exeOut_pred {a : ActionF} (ha : PredAction P a) {bs : Option Bs}
    (hbs : AllBs P (copyB bs)) :
    AllBs P (exeOut (execWrap a bs).exe).1 ∧ AllMsgs P (exeOut (execWrap a bs).exe).2 := by
  have h := execWrap_pred ha bs hbs
  generalize (execWrap a bs).exe = x at h
  rcases x with _ | ⟨_ | b, em⟩
  · exact ⟨allBs_nil, allMsgs_nil⟩
  · exact ⟨allBs_nil, (h _ _ rfl).1⟩
  · exact ⟨(h _ _ rfl).2 b rfl, (h _ _ rfl).1⟩

/-! ## guards, branches, `consider` -/

theorem guardLoop_pred {g : ActionF} (hg : PredAction P g) {cs : List Bs} {b : Bs}
    (hcs : ∀ c ∈ cs, AllBs P c) (h : guardLoop g cs = .ok (some b)) : AllBs P b := by
  induction cs with
  | nil => simp [guardLoop] at h
  | cons c rest ih =>
    simp only [guardLoop] at h
    split at h
    · cases h
    · split at h
      · next b' em hx =>
        cases h
        exact (execWrap_pred hg (some c) (hcs c List.mem_cons_self) _ _ hx).2 _ rfl
      · exact ih (fun x hx => hcs x (List.mem_cons_of_mem _ hx)) h

theorem candidates_pred (hP : ValPred P) {b : Branch} {bs : Option Bs} {against : V}
    {bss : List (Option Bs)} (ha : P against) (hbs : AllBs P (copyB bs))
    (h : candidates b bs against = .ok bss) : ∀ c ∈ bss, AllBs P (copyB c) := by
  unfold candidates at h
  split at h
  · cases h
    intro c hc
    simp at hc; subst hc; exact hbs
  · next p hp =>
    unfold matchTop at h
    cases hm : matchF matchFuel p against (copyB bs) with
    | ok rs =>
      rw [hm] at h
      simp only [matchErrOf] at h
      cases h
      intro c hc
      obtain ⟨r, hr, rfl⟩ := List.mem_map.mp hc
      exact matchF_pred hP ha hbs hm r hr
    | err e => rw [hm] at h; simp only [matchErrOf] at h; cases h
    | diverge => rw [hm] at h; simp only [matchErrOf] at h; cases h

theorem tryBranch_pred (hP : ValPred P) {b : Branch} {bs : Option Bs} {against : V} {t : State}
    (hg : ∀ g, b.guard = some g → PredAction P g) (ha : P against) (hbs : AllBs P (copyB bs))
    (h : tryBranch b bs against = .ok (some t)) : PredState P t := by
  unfold tryBranch at h
  split at h
  · cases h
  · next bss hcand =>
    have hc := candidates_pred hP ha hbs hcand
    simp only at h
    split at h
    · cases h
    · cases h
    · next x hch =>
      cases h
      apply predState_mk
      split at hch
      · -- no guard
        split at hch
        · cases hch
        · next c =>
          cases hch
          exact hc (some x) List.mem_cons_self
        · cases hch
      · next g hgd =>
        have hg' := hg g hgd
        split at hch
        · -- the nil candidate
          split at hch
          · cases hch
          · split at hch
            · next b' em hx =>
              cases hch
              exact (execWrap_pred hg' none allBs_nil _ _ hx).2 _ rfl
            · cases hch
        · refine guardLoop_pred hg' ?_ hch
          intro c hcm
          obtain ⟨oc, hoc, heq⟩ := List.mem_filterMap.mp hcm
          simp only [id] at heq
          subst heq
          exact hc (some c) hoc

theorem tryAll_pred (hP : ValPred P) {brs : List Branch} {bs : Option Bs} {against : V}
    {t : State} (hg : ∀ b ∈ brs, ∀ g, b.guard = some g → PredAction P g) (ha : P against)
    (hbs : AllBs P (copyB bs)) (h : tryAll bs against brs = .ok (some t)) : PredState P t := by
  obtain ⟨pre, br, post, h1, _, h3⟩ := (tryAll_eq_iff bs against brs _ (by simp)).mp h
  refine tryBranch_pred hP (hg br ?_) ha hbs h3
  rw [h1]; simp

theorem consider_pred (hP : ValPred P) {b : Option Branches} {bs : Option Bs}
    {pending : Option V} {t : State}
    (hg : ∀ br, b = some br → ∀ x ∈ br.branches, ∀ g, x.guard = some g → PredAction P g)
    (hp : ∀ m, pending = some m → P m) (hbs : AllBs P (copyB bs))
    (h : (consider b bs pending).1 = some t) : PredState P t := by
  unfold consider at h
  split at h
  · cases h
  · next br =>
    have hg' := hg br rfl
    simp only at h
    split at h
    · split at h
      · cases h
      · next m =>
        split at h
        · cases h
        · next to hto =>
          exact tryAll_pred hP hg' (hp m rfl) hbs (by rw [hto]; exact congrArg _ h)
    · split at h
      · cases h
      · next to hto =>
        exact tryAll_pred hP hg' ((hP.obj _).mpr hbs) hbs (by rw [hto]; exact congrArg _ h)

/-! ## the whole step -/

theorem allBs_actErrBs (hP : ValPred P) {bs : Option Bs} (h : AllBs P (copyB bs)) (e : String) :
    AllBs P (actErrBs e bs) :=
  allBs_insertB (hP.str _) (allBs_insertB (hP.str _) h)

theorem allBs_noBranchBs (hP : ValPred P) {st : State} {bs : Option Bs}
    (hst : AllBs P (copyB st.bs)) (h : AllBs P (copyB bs)) : AllBs P (noBranchBs st bs) :=
  allBs_insertB ((hP.obj _).mpr hst) (allBs_insertB (hP.str _) (allBs_insertB (hP.str _) h))

theorem stepRest_pred (hP : ValPred P) {st : State} {n : Node} {bs : Option Bs} {em : List V}
    {pending : Option V} {sd : Stride} (hn : PredNode P n)
    (hst : AllBs P (copyB st.bs)) (hbs : AllBs P (copyB bs)) (hem : AllMsgs P em)
    (hp : ∀ m, pending = some m → P m)
    (h : (stepRest st n bs em pending).stride = some sd) : PredStride P sd := by
  unfold stepRest at h
  simp only at h
  split at h
  · cases h
    refine ⟨fun t ht => ?_, hem⟩
    cases ht
    exact predState_mk (allBs_noBranchBs hP hst hbs)
  · cases h
    refine ⟨fun t ht => ?_, hem⟩
    simp only [Option.map_eq_some_iff] at ht
    obtain ⟨t', ht', rfl⟩ := ht
    exact predState_copy (consider_pred hP hn.2 hp hbs ht')

theorem step_pred (hP : ValPred P) {s : Spec} (hs : PredSpec P s) {st : State}
    {pending : Option V} (hst : PredState P st) (hp : ∀ m, pending = some m → P m)
    {sd : Stride} (h : (step s st pending).stride = some sd) : PredStride P sd := by
  have hst' : AllBs P (copyB st.bs) := (predState_iff st).mp hst
  cases step_cases s st pending with
  | nostride h' => rw [h'] at h; cases h
  | noaction n hn ha h' hc hsrc =>
    rw [h'] at h
    exact stepRest_pred hP (hs _ n (mem_of_findNode hn)) hst' hst' allMsgs_nil hp h
  | ok n a hn ha hm he h' =>
    rw [h'] at h
    have hN := hs _ n (mem_of_findNode hn)
    obtain ⟨h1, h2⟩ := exeOut_pred (hN.1 a ha) hst'
    exact stepRest_pred hP hN hst' (bs := some _) h1 h2 hp h
  | errBranches n a e hn ha hm he h' =>
    rw [h'] at h
    have hN := hs _ n (mem_of_findNode hn)
    obtain ⟨_, h2⟩ := exeOut_pred (hN.1 a ha) hst'
    exact stepRest_pred hP hN hst' (bs := some _) (allBs_actErrBs hP hst' e) h2 hp h
  | errNode n a e hn ha hm he h' =>
    rw [h'] at h
    cases h
    have hN := hs _ n (mem_of_findNode hn)
    obtain ⟨_, h2⟩ := exeOut_pred (hN.1 a ha) hst'
    exact ⟨fun t ht => by cases ht; exact predState_mk (allBs_actErrBs hP hst' e), h2⟩

/-! ## strides and walks -/

theorem walkStride_pred (hP : ValPred P) {s : Spec} (hs : PredSpec P s) {st : State}
    {pending : Option V} (hst : PredState P st) (hp : ∀ m, pending = some m → P m) :
    PredStride P (walkStride s st pending) := by
  have hst' : AllBs P (copyB st.bs) := (predState_iff st).mp hst
  have hbase : PredStride P (match (step s st pending).stride with
      | some x => x
      | none => { frm := stateCopy st, to := none, consumed := none, emitted := [] }) := by
    split
    · next x hx => exact step_pred hP hs hst hp hx
    · exact ⟨fun t ht => (by cases ht), allMsgs_nil⟩
  unfold walkStride
  simp only
  split
  · exact hbase
  · split
    · exact hbase
    · refine ⟨fun t ht => ?_, hbase.2⟩
      cases ht
      exact predState_mk
        (allBs_insertB ((hP.obj _).mpr hst')
          (allBs_insertB (hP.str _) (allBs_insertB (hP.str _) hst')))

theorem pendingOf_mem {p : List V} {m : V} (h : pendingOf p = some m) : m ∈ p := by
  unfold pendingOf at h
  split at h
  · cases h
  · cases h
  · cases h; exact List.mem_cons_self

theorem after_sub (sd : Stride) (p : List V) : ∀ m ∈ after sd p, m ∈ p := by
  intro m hm
  unfold after at hm
  split at hm
  · exact List.mem_of_mem_drop hm
  · exact hm

theorem W_pred (hP : ValPred P) {s : Spec} (hs : PredSpec P s) (bp : State → Bool) :
    ∀ i st p, PredState P st → AllMsgs P p → ∀ sd ∈ (W s bp i st p).strides, PredStride P sd := by
  have hstride : ∀ st p, PredState P st → AllMsgs P p →
      PredStride P (walkStride s st (pendingOf p)) :=
    fun st p hst hp => walkStride_pred hP hs hst (fun m hm => hp m (pendingOf_mem hm))
  refine W_ind s bp
    (P := fun _ st p w => PredState P st → AllMsgs P p → ∀ sd ∈ w.strides, PredStride P sd)
    ?_ ?_ ?_ ?_ ?_
  · intro st p _ _ sd hsd; cases hsd
  · intro i st p _ _ _ sd hsd; cases hsd
  · intro i st p _ _ _ hst hp sd hsd
    simp at hsd; subst hsd; exact hstride st p hst hp
  · intro i st p w _ _ _ _ ih hst hp sd hsd
    rcases List.mem_cons.mp hsd with hsd | hsd
    · subst hsd; exact hstride st p hst hp
    · exact ih hst (fun m hm => hp m (after_sub _ _ m hm)) sd hsd
  · intro i st p t w _ ht ih hst hp sd hsd
    rcases List.mem_cons.mp hsd with hsd | hsd
    · subst hsd; exact hstride st p hst hp
    · exact ih (predState_copy ((hstride st p hst hp).1 t ht))
        (fun m hm => hp m (after_sub _ _ m hm)) sd hsd

theorem walk_pred (hP : ValPred P) {s : Spec} (hs : PredSpec P s) {st : State} {msgs : List V}
    (l : Option Int) (bp : State → Bool) (hst : PredState P st) (hm : AllMsgs P msgs) :
    ∀ sd ∈ (walk s st msgs l bp).strides, PredStride P sd :=
  W_pred hP hs bp _ st msgs hst hm

theorem lastTo_mem {sds : List Stride} {t : State} (h : lastTo sds = some t) :
    ∃ sd ∈ sds, sd.to = some t := by
  induction sds with
  | nil => cases h
  | cons sd rest ih =>
    simp only [lastTo] at h
    split at h
    · next t' ht' =>
      cases h
      obtain ⟨x, hx, hxt⟩ := ih ht'
      exact ⟨x, List.mem_cons_of_mem _ hx, hxt⟩
    · exact ⟨sd, List.mem_cons_self, h⟩

/-- the state a walk ends in -/
theorem finalState_pred (hP : ValPred P) {s : Spec} (hs : PredSpec P s) {st : State}
    {msgs : List V} (l : Option Int) (bp : State → Bool) (hst : PredState P st)
    (hm : AllMsgs P msgs) : PredState P (finalState st (walk s st msgs l bp)) := by
  unfold finalState
  cases h : lastTo (walk s st msgs l bp).strides with
  | none => exact hst
  | some t =>
    obtain ⟨sd, hsd, hto⟩ := lastTo_mem h
    exact (walk_pred hP hs l bp hst hm sd hsd).1 t hto

end

end Plain
