import Sheens.Specter

/-!
# Lemmas on the atomic-register history model (`Sheens/Specter.lean`)
-/

namespace Specter

/-- events that are not `load c` do not decide what call `c` loads: they only move the register -/
theorem loaded_append (c : Nat) (rest : List Ev) : ∀ (a : List Ev) (v0 : Nat),
    (∀ e ∈ a, e ≠ .load c) → loaded v0 c (a ++ rest) = loaded (current v0 a) c rest := by
  intro a
  induction a with
  | nil => intro v0 _; rfl
  | cons e a ih =>
    intro v0 h
    have h' : ∀ e ∈ a, e ≠ .load c := fun x hx => h x (List.mem_cons_of_mem _ hx)
    cases e with
    | write v => simp only [List.cons_append, loaded, current]; exact ih v h'
    | begin_ c' => simp only [List.cons_append, loaded, current]; exact ih v0 h'
    | end_ c' => simp only [List.cons_append, loaded, current]; exact ih v0 h'
    | load c' =>
      have hne : c' ≠ c := fun hc => h (.load c') (List.mem_cons_self) (by rw [hc])
      simp only [List.cons_append, loaded, current, if_neg hne]; exact ih v0 h'

/-- without writes the register keeps its value -/
theorem current_no_write : ∀ (b : List Ev) (v0 : Nat), (∀ e ∈ b, ∀ v, e ≠ .write v) → current v0 b = v0 := by
  intro b
  induction b with
  | nil => intro v0 _; rfl
  | cons e b ih =>
    intro v0 h
    have h' : ∀ e ∈ b, ∀ v, e ≠ .write v := fun x hx => h x (List.mem_cons_of_mem _ hx)
    cases e with
    | write v => exact absurd rfl (h (.write v) (List.mem_cons_self) v)
    | begin_ c' => simp only [current]; exact ih v0 h'
    | end_ c' => simp only [current]; exact ih v0 h'
    | load c' => simp only [current]; exact ih v0 h'

/-- before the call starts nothing is recorded; the register is tracked -/
theorem currentDuring_append_outside (c : Nat) (rest : List Ev) : ∀ (a : List Ev) (v0 : Nat),
    (∀ e ∈ a, e ≠ .begin_ c ∧ e ≠ .end_ c) →
    currentDuring v0 c (a ++ rest) false = currentDuring (current v0 a) c rest false := by
  intro a
  induction a with
  | nil => intro v0 _; rfl
  | cons e a ih =>
    intro v0 h
    have h' : ∀ e ∈ a, e ≠ .begin_ c ∧ e ≠ .end_ c := fun x hx => h x (List.mem_cons_of_mem _ hx)
    cases e with
    | write v =>
      simp only [List.cons_append, currentDuring, current, Bool.false_eq_true, if_false]; exact ih v h'
    | begin_ c' =>
      have hne : c' ≠ c := fun hc => (h (.begin_ c') (List.mem_cons_self)).1 (by rw [hc])
      simp only [List.cons_append, currentDuring, current, if_neg hne]; exact ih v0 h'
    | end_ c' =>
      have hne : c' ≠ c := fun hc => (h (.end_ c') (List.mem_cons_self)).2 (by rw [hc])
      simp only [List.cons_append, currentDuring, current, if_neg hne]; exact ih v0 h'
    | load c' => simp only [List.cons_append, currentDuring, current]; exact ih v0 h'

/-- inside the call every write is recorded: the register's value after `b` is the value at the
    start or one of the recorded ones -/
theorem current_mem_inside (c : Nat) (rest : List Ev) : ∀ (b : List Ev) (v : Nat),
    (∀ e ∈ b, e ≠ .end_ c) →
    current v b = v ∨ current v b ∈ currentDuring v c (b ++ rest) true := by
  intro b
  induction b with
  | nil => intro v _; exact Or.inl rfl
  | cons e b ih =>
    intro v h
    have h' : ∀ e ∈ b, e ≠ .end_ c := fun x hx => h x (List.mem_cons_of_mem _ hx)
    cases e with
    | write w =>
      simp only [List.cons_append, currentDuring, current, if_true]
      right
      rcases ih w h' with heq | hmem
      · rw [heq]; exact List.mem_cons_self
      · exact List.mem_cons_of_mem _ hmem
    | begin_ c' =>
      simp only [List.cons_append, currentDuring, current]
      rcases ih v h' with heq | hmem
      · exact Or.inl heq
      · right
        split
        · exact List.mem_cons_of_mem _ hmem
        · exact hmem
    | end_ c' =>
      have hne : c' ≠ c := fun hc => h (.end_ c') (List.mem_cons_self) (by rw [hc])
      simp only [List.cons_append, currentDuring, current, if_neg hne]; exact ih v h'
    | load c' => simp only [List.cons_append, currentDuring, current]; exact ih v h'

/-- the shape of a well-formed call, with the value loaded and the values recorded -/
theorem loaded_decomp (v0 c : Nat) (a b d : List Ev)
    (ha : ∀ e ∈ a, e ≠ .load c) (hb : ∀ e ∈ b, e ≠ .load c) :
    loaded v0 c (a ++ [.begin_ c] ++ b ++ [.load c] ++ d) = some (current (current v0 a) b) := by
  have e1 : a ++ [Ev.begin_ c] ++ b ++ [Ev.load c] ++ d = a ++ (Ev.begin_ c :: (b ++ (Ev.load c :: d))) := by
    simp only [List.append_assoc, List.cons_append, List.nil_append]
  rw [e1, loaded_append c _ a v0 ha]
  simp only [loaded]
  rw [loaded_append c _ b _ hb]
  simp only [loaded, if_true]

theorem currentDuring_decomp (v0 c : Nat) (a b d : List Ev)
    (ha : ∀ e ∈ a, e ≠ .begin_ c ∧ e ≠ .end_ c) :
    currentDuring v0 c (a ++ [.begin_ c] ++ b ++ [.load c] ++ d) false =
      current v0 a :: currentDuring (current v0 a) c (b ++ (.load c :: d)) true := by
  have e1 : a ++ [Ev.begin_ c] ++ b ++ [Ev.load c] ++ d = a ++ (Ev.begin_ c :: (b ++ (Ev.load c :: d))) := by
    simp only [List.append_assoc, List.cons_append, List.nil_append]
  rw [e1, currentDuring_append_outside c _ a v0 ha]
  simp only [currentDuring, if_true]

end Specter
