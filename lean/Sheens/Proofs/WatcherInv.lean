import Sheens.Watcher

/-!
# An inductive invariant of the watcher / cancel protocol (`Sheens/Watcher.lean`)

`inv t s` (decidable, a `Bool`):
* `cancelled` is set exactly when the main goroutine is past its `cancel()` call;
* an interrupt is pending exactly when the watcher delivered it and exited;
* the watcher left `waiting` only because one of the two contexts was done;
* an interrupted result implies that an interrupt is pending;
* a script that does not terminate by itself leaves `running` only as interrupted.
-/

namespace Watcher

def inv (t : Bool) (s : St) : Bool :=
  (s.cancelled == (match s.main with | .cancelled _ | .done _ => true | _ => false)) &&
  (s.pending == (s.watch == .gone)) &&
  (s.watch == .waiting || s.parentDone || s.cancelled) &&
  (match s.main with | .returned true | .cancelled true | .done true => s.pending | _ => true) &&
  (t || match s.main with | .returned false | .cancelled false | .done false => false | _ => true)

theorem inv_init (t e : Bool) : inv t (St.init e) = true := by
  cases t <;> cases e <;> rfl

/-- one step, as a Boolean check (so that it can be evaluated state by state) -/
def stepKeeps (t : Bool) (s : St) (a : Act) : Bool :=
  match step t s a with
  | some s' => inv t s'
  | none => true

theorem stepKeeps_all (t : Bool) (s : St) (a : Act) (h : inv t s = true) : stepKeeps t s a = true := by
  rcases s with ⟨m, w, pd, c, p⟩
  rcases m with _ | (_ | _) | (_ | _) | (_ | _) <;> cases w <;> cases pd <;> cases c <;> cases p <;>
    cases t <;> first | (exact absurd h (by decide)) | (cases a <;> rfl)

theorem inv_step (t : Bool) (s s' : St) (a : Act) (h : inv t s = true) (hs : step t s a = some s') :
    inv t s' = true := by
  have := stepKeeps_all t s a h
  simp only [stepKeeps, hs] at this
  exact this

theorem inv_run (t : Bool) (tr : List Act) : ∀ (s s' : St), inv t s = true → run t s tr = some s' →
    inv t s' = true := by
  induction tr with
  | nil => intro s s' h hr; simp only [run, Option.some.injEq] at hr; exact hr ▸ h
  | cons a as ih =>
    intro s s' h hr
    simp only [run] at hr
    cases hs : step t s a with
    | none => simp [hs] at hr
    | some s1 =>
      simp only [hs] at hr
      exact ih s1 s' (inv_step t s s1 a h hs) hr

theorem inv_reachable (t e : Bool) (s : St) (tr : List Act) (h : run t (St.init e) tr = some s) :
    inv t s = true :=
  inv_run t tr _ _ (inv_init t e) h

/-! ## the second invariant: a result that is not interrupted stays so -/

def cleanMain (s : St) : Bool :=
  match s.main with
  | .returned false | .cancelled false | .done false => true
  | _ => false

def stepKeepsClean (t : Bool) (s : St) (a : Act) : Bool :=
  match step t s a with
  | some s' => cleanMain s'
  | none => true

theorem stepKeepsClean_all (t : Bool) (s : St) (a : Act) (h : cleanMain s = true) :
    stepKeepsClean t s a = true := by
  rcases s with ⟨m, w, pd, c, p⟩
  rcases m with _ | (_ | _) | (_ | _) | (_ | _) <;> cases w <;> cases pd <;> cases c <;> cases p <;>
    cases t <;> first | (exact absurd h (by decide)) | (cases a <;> rfl)

theorem cleanMain_step (t : Bool) (s s' : St) (a : Act) (h : cleanMain s = true)
    (hs : step t s a = some s') : cleanMain s' = true := by
  have := stepKeepsClean_all t s a h
  simp only [stepKeepsClean, hs] at this
  exact this

theorem cleanMain_run (t : Bool) (tr : List Act) : ∀ (s s' : St), cleanMain s = true →
    run t s tr = some s' → cleanMain s' = true := by
  induction tr with
  | nil => intro s s' h hr; simp only [run, Option.some.injEq] at hr; exact hr ▸ h
  | cons a as ih =>
    intro s s' h hr
    simp only [run] at hr
    cases hs : step t s a with
    | none => simp [hs] at hr
    | some s1 =>
      simp only [hs] at hr
      exact ih s1 s' (cleanMain_step t s s1 a h hs) hr

end Watcher
