import Sheens.Proofs.KeyPermLemmas
import Sheens.Proofs.CompleteNoErr

/-!
# `patOK` does not depend on the order of the keys

Companion of `Sheens/Proofs/KeyPermLemmas.lean` for `Complete.patOK`: for a relation built like
`C03.KeyPerm` (`RelL` / `RelK` pointwise, then `List.Perm` on the entries of a map), validity of a
pattern is preserved.  `OKInv` packages "same string leaves" (needed for `getVariable`) with the
preservation of `patOK`; `OKInv.refl / OKInv.arr / OKInv.obj` are the three constructors of `KeyPerm`.
-/

namespace Sheens.KeyPermLemmas

open Sheens.Complete

/-! ## `patOKKvs` is a statement about the members -/

theorem patOKKvs_iff_forall {kvs : List (String × V)} :
    patOKKvs kvs = true ↔ ∀ kv ∈ kvs, patOK kv.2 = true := by
  induction kvs with
  | nil => simp [patOKKvs]
  | cons kv rest ih =>
    obtain ⟨k, v⟩ := kv
    simp only [patOKKvs, Bool.and_eq_true, ih, List.mem_cons, forall_eq_or_imp]

theorem patOKKvs_perm {mid kvs' : List (String × V)} (hp : mid.Perm kvs')
    (h : patOKKvs mid = true) : patOKKvs kvs' = true :=
  patOKKvs_iff_forall.mpr (fun kv hm => patOKKvs_iff_forall.mp h kv (hp.mem_iff.mpr hm))

theorem patOKKvs_rel {R : V → V → Prop} (hR : ∀ x y, R x y → patOK x = true → patOK y = true)
    {xs ys : List (String × V)} (hr : RelK R xs ys) (h : patOKKvs xs = true) :
    patOKKvs ys = true := by
  induction hr with
  | nil => rfl
  | cons hxy _ ih =>
    simp only [patOKKvs, Bool.and_eq_true] at h ⊢
    exact ⟨hR _ _ hxy h.1, ih h.2⟩

theorem patOKList_rel {R : V → V → Prop} (hR : ∀ x y, R x y → patOK x = true → patOK y = true)
    {xs ys : List V} (hr : RelL R xs ys) (h : patOKList xs = true) : patOKList ys = true := by
  induction hr with
  | nil => rfl
  | cons hxy _ ih =>
    simp only [patOKList, Bool.and_eq_true] at h ⊢
    exact ⟨hR _ _ hxy h.1, ih h.2⟩

/-! ## the property-variable check looks at the multiset of keys only -/

theorem checkBadPropVars_rel {R : V → V → Prop} {xs ys : List (String × V)} (hr : RelK R xs ys) :
    checkBadPropVars xs = checkBadPropVars ys := by
  have hboth : xs.length = ys.length ∧
      xs.any (fun kv => isVar kv.1) = ys.any (fun kv => isVar kv.1) := by
    induction hr with
    | nil => exact ⟨rfl, rfl⟩
    | cons _ _ ih => exact ⟨by simp only [List.length_cons, ih.1], by simp only [List.any_cons, ih.2]⟩
  unfold checkBadPropVars
  rw [hboth.1, hboth.2]

theorem checkBadPropVars_perm {mid kvs' : List (String × V)} (hp : mid.Perm kvs') :
    checkBadPropVars mid = checkBadPropVars kvs' := by
  have hany : mid.any (fun kv => isVar kv.1) = kvs'.any (fun kv => isVar kv.1) := by
    rw [Bool.eq_iff_iff, List.any_eq_true, List.any_eq_true]
    exact ⟨fun ⟨x, hx, h⟩ => ⟨x, hp.mem_iff.mp hx, h⟩, fun ⟨x, hx, h⟩ => ⟨x, hp.mem_iff.mpr hx, h⟩⟩
  unfold checkBadPropVars
  rw [hp.length_eq, hany]

/-! ## the invariant -/

structure OKInv (p p' : V) : Prop where
  str : StrSame p p'
  ok  : patOK p = true → patOK p' = true

theorem OKInv.refl (v : V) : OKInv v v := ⟨fun _ => Iff.rfl, id⟩

theorem OKInv.arr {xs ys : List V} (hr : RelL OKInv xs ys) : OKInv (.arr xs) (.arr ys) where
  str := fun _ => ⟨(fun h => nomatch h), (fun h => nomatch h)⟩
  ok := by
    intro h
    simp only [patOK, Bool.and_eq_true] at h ⊢
    refine ⟨?_, patOKList_rel (fun _ _ h => h.ok) hr h.2⟩
    cases hg : getVariable xs none [] with
    | error e => rw [hg] at h; exact absurd h.1 (by simp)
    | ok r =>
      obtain ⟨vo, zs⟩ := r
      obtain ⟨zs', hg', _⟩ := getVariable_rel (fun _ _ h => h.str) hr RelL.nil hg
      rw [hg']

theorem OKInv.obj {kvs mid kvs' : List (String × V)} (hr : RelK OKInv kvs mid)
    (hp : mid.Perm kvs') : OKInv (.obj kvs) (.obj kvs') where
  str := fun _ => ⟨(fun h => nomatch h), (fun h => nomatch h)⟩
  ok := by
    intro h
    simp only [patOK, Bool.and_eq_true, Bool.not_eq_true'] at h ⊢
    refine ⟨?_, patOKKvs_perm hp (patOKKvs_rel (fun _ _ h => h.ok) hr h.2)⟩
    rw [← checkBadPropVars_perm hp, ← checkBadPropVars_rel hr]
    exact h.1

/-! ## consequences of `Inv` used by the outcome theorem -/

open Sheens.C02 in
theorem Inv.plainVars {bs₀ σ : Bs} {p p' : V} (hi : Inv bs₀ σ p p') (hv : PlainVars p) :
    PlainVars p' :=
  fun v hm => hv v (hi.vars.mem_iff.mpr hm)

/-- a valid plain pattern whose variables are neither optional nor inequalities never errs from
    the empty bindings -/
theorem noerr_plain (n : Nat) (p f : V) (e : MatchErr)
    (hp : p.plainPat = true) (hok : patOK p = true) (hf : f.good = true)
    (hv : Sheens.C02.PlainVars p) : matchF n p f [] ≠ .err e := by
  have hPB : PB (varsOf p) [] := fun v hm hne => absurd (hv v hm).2 hne
  exact (noerr_all hPB n).1 p f [] e hp hok hf (fun _ h => h)
    ⟨Extends.refl _, fun _ _ h => nomatch h⟩

end Sheens.KeyPermLemmas
