import Sheens.Proofs.Fuel

/-!
# The matcher terminates on every input

`Term d g`: from some fuel on, `g n ≠ d`.  `TermMsg f`: the matcher terminates on the message `f`
for **all** patterns and bindings.  The list-traversing functions terminate if the matcher
terminates on the parts of the message they hand down (`term_with … term_loop`); the arms
(`term_obj`, `term_arr`, `term_nonvar`, `term_bound`, `term_str`) give `termMsg_core`: `TermMsg` of
the parts implies `TermMsg` of the whole, and `termMsg_all` is the induction on the message's size.
-/

namespace Sheens.Total

def Term {α : Type} (d : α) (g : Nat → α) : Prop := ∃ N, ∀ n, N ≤ n → g n ≠ d

/-- with monotonicity: the result is eventually constant -/
theorem Term.conv {α : Type} {d : α} {g : Nat → α} (ht : Term d g)
    (hs : ∀ n, g n ≠ d → g (n+1) = g n) : ∃ N r, r ≠ d ∧ ∀ n, N ≤ n → g n = r := by
  obtain ⟨N, hN⟩ := ht
  exact ⟨N, g N, hN N (Nat.le_refl _), fun n hn => stable_le hs hn (hN N (Nat.le_refl _))⟩

/-- the matcher terminates on message `f`, whatever the pattern and the bindings -/
def TermMsg (f : V) : Prop := ∀ p bs, Term MRes.diverge (fun n => matchF n p f bs)

theorem term_with {f : V} (hf : TermMsg f) (p : V) :
    ∀ bss, Term MRes.diverge (fun n => matchWith n bss p f) := by
  intro bss
  induction bss with
  | nil =>
    refine ⟨1, fun n hn => ?_⟩
    cases n with
    | zero => omega
    | succ m => simp [matchWith]
  | cons bs rest ih =>
    obtain ⟨N1, h1⟩ := hf p bs
    obtain ⟨N2, h2⟩ := ih
    refine ⟨max N1 N2 + 1, fun n hn => ?_⟩
    cases n with
    | zero => omega
    | succ m =>
      have h1 := h1 m (by omega)
      have h2 := h2 m (by omega)
      simp only at h1 h2 ⊢
      simp only [matchWith]
      cases hM : matchF m p f bs with
      | diverge => exact absurd hM h1
      | err e => simp
      | ok r1 =>
        simp only
        cases hW : matchWith m rest p f with
        | diverge => exact absurd hW h2
        | err e => simp
        | ok r2 => simp

theorem conv_with {f : V} (hf : TermMsg f) (p : V) (bss : List Bs) :
    ∃ N r, r ≠ MRes.diverge ∧ ∀ n, N ≤ n → matchWith n bss p f = r :=
  (term_with hf p bss).conv (fun n => (mono_all n).2.2.2.2.2.1 bss p f)

theorem term_mapcat {fm : List (String × V)} (hfm : ∀ k fv, lookup k fm = some fv → TermMsg fv) :
    ∀ pm bss, Term MRes.diverge (fun n => mapcat n bss pm fm) := by
  intro pm
  induction pm with
  | nil =>
    intro bss
    refine ⟨1, fun n hn => ?_⟩
    cases n with
    | zero => omega
    | succ m => simp [mapcat]
  | cons kv rest ih =>
    intro bss
    obtain ⟨k, v⟩ := kv
    by_cases hk : isVar k = true
    · refine ⟨1, fun n hn => ?_⟩
      cases n with
      | zero => omega
      | succ m => simp [mapcat, hk]
    · cases hl : lookup k fm with
      | none =>
        by_cases ho : isOptVar v = true
        · obtain ⟨N, hN⟩ := ih bss
          refine ⟨N + 1, fun n hn => ?_⟩
          cases n with
          | zero => omega
          | succ m =>
            have := hN m (by omega)
            simpa [mapcat, hk, hl, ho] using this
        · refine ⟨1, fun n hn => ?_⟩
          cases n with
          | zero => omega
          | succ m => simp [mapcat, hk, hl, ho]
      | some fv =>
        obtain ⟨N1, r1, hr1, h1⟩ := conv_with (hfm k fv hl) v bss
        cases r1 with
        | diverge => exact absurd rfl hr1
        | err e =>
          refine ⟨N1 + 1, fun n hn => ?_⟩
          cases n with
          | zero => omega
          | succ m => simp [mapcat, hk, hl, h1 m (by omega)]
        | ok acc =>
          cases acc with
          | nil =>
            refine ⟨N1 + 1, fun n hn => ?_⟩
            cases n with
            | zero => omega
            | succ m => simp [mapcat, hk, hl, h1 m (by omega)]
          | cons a as =>
            obtain ⟨N2, h2⟩ := ih (a :: as)
            refine ⟨max N1 N2 + 1, fun n hn => ?_⟩
            cases n with
            | zero => omega
            | succ m =>
              have := h2 m (by omega)
              simpa [mapcat, hk, hl, h1 m (by omega)] using this

theorem term_gather (bss : List Bs) (k : String) (v : V) :
    ∀ fm : List (String × V), (∀ kv ∈ fm, TermMsg (.str kv.1) ∧ TermMsg kv.2) →
      Term MRes.diverge (fun n => propGather n bss k v fm) := by
  intro fm
  induction fm with
  | nil =>
    intro _
    refine ⟨1, fun n hn => ?_⟩
    cases n with
    | zero => omega
    | succ m => simp [propGather]
  | cons kv rest ih =>
    intro hfm
    obtain ⟨fk, fv⟩ := kv
    obtain ⟨hk, hv⟩ := hfm (fk, fv) List.mem_cons_self
    obtain ⟨N3, h3⟩ := ih (fun kv hkv => hfm kv (List.mem_cons_of_mem _ hkv))
    obtain ⟨N1, r1, hr1, h1⟩ := conv_with hk (.str k) bss
    cases r1 with
    | diverge => exact absurd rfl hr1
    | err e =>
      refine ⟨N1 + 1, fun n hn => ?_⟩
      cases n with
      | zero => omega
      | succ m => simp [propGather, h1 m (by omega)]
    | ok ext =>
      cases he : ext.isEmpty with
      | true =>
        refine ⟨max N1 N3 + 1, fun n hn => ?_⟩
        cases n with
        | zero => omega
        | succ m =>
          have h3 := h3 m (by omega)
          simp only at h3 ⊢
          simp only [propGather, h1 m (by omega), he, if_true]
          cases hG : propGather m bss k v rest with
          | diverge => exact absurd hG h3
          | err e => simp
          | ok more => simp
      | false =>
        obtain ⟨N2, r2, hr2, h2⟩ := conv_with hv v ext
        refine ⟨max N1 (max N2 N3) + 1, fun n hn => ?_⟩
        cases n with
        | zero => omega
        | succ m =>
          have h3 := h3 m (by omega)
          simp only at h3 ⊢
          simp only [propGather, h1 m (by omega), h2 m (by omega), he, Bool.false_eq_true, if_false]
          cases r2 with
          | diverge => exact absurd rfl hr2
          | err e => simp
          | ok ext2 =>
            simp only
            cases hG : propGather m bss k v rest with
            | diverge => exact absurd hG h3
            | err e => simp
            | ok more => simp

/-! ## the array loops -/

def FactsOK (mm : List (Nat × V)) : Prop := ∀ e ∈ mm, TermMsg e.2
def AllOK (fxas : List (List (Nat × V))) : Prop := ∀ mm ∈ fxas, FactsOK mm

theorem FactsOK.filter {mm : List (Nat × V)} (h : FactsOK mm) (q : Nat × V → Bool) :
    FactsOK (mm.filter q) := fun e he => h e (List.mem_filter.mp he).1

theorem AllOK.nil : AllOK [] := fun _ h => nomatch h
theorem AllOK.cons {mm fxas} (h1 : FactsOK mm) (h2 : AllOK fxas) : AllOK (mm :: fxas) := by
  intro x hx
  rcases List.mem_cons.mp hx with rfl | hx
  · exact h1
  · exact h2 x hx
theorem AllOK.append {a b} (h1 : AllOK a) (h2 : AllOK b) : AllOK (a ++ b) := by
  intro x hx
  rcases List.mem_append.mp hx with hx | hx
  · exact h1 x hx
  · exact h2 x hx

theorem one_ok {bss : List Bs} {pat : V} {mm : List (Nat × V)} (hmm : FactsOK mm) :
    ∀ (todo : List (Nat × V)) (n : Nat) a f, arrayOne n bss pat mm todo = .inr (a, f) → AllOK f := by
  intro todo
  induction todo with
  | nil =>
    intro n a f h
    cases n with
    | zero => simp [arrayOne] at h
    | succ m => simp only [arrayOne] at h; cases h; exact AllOK.nil
  | cons jf todo ih =>
    intro n a f h
    obtain ⟨j, fact⟩ := jf
    cases n with
    | zero => simp [arrayOne] at h
    | succ m =>
      simp only [arrayOne] at h
      split at h
      · next acc hW =>
        split at h
        · cases h
        · next a' f' hO =>
          have := ih m a' f' hO
          split at h
          · cases h; exact this
          · cases h; exact AllOK.cons (hmm.filter _) this
      · cases h

theorem cat_ok {pat : V} : ∀ (bsss : List (List Bs)) (fxas : List (List (Nat × V))) (n : Nat) a f,
    AllOK fxas → arraycat n bsss pat fxas = .inr (a, f) → AllOK f := by
  intro bsss
  induction bsss with
  | nil =>
    intro fxas n a f _ h
    cases n with
    | zero => simp [arraycat] at h
    | succ m => simp only [arraycat] at h; cases h; exact AllOK.nil
  | cons bss bsss ih =>
    intro fxas n a f hok h
    cases n with
    | zero => simp [arraycat] at h
    | succ m =>
      cases fxas with
      | nil => simp only [arraycat] at h; cases h; exact AllOK.nil
      | cons mm fxas =>
        simp only [arraycat] at h
        split at h
        · cases h
        · next a1 f1 hO =>
          split at h
          · cases h
          · next a2 f2 hC =>
            cases h
            exact AllOK.append (one_ok (hok mm List.mem_cons_self) _ _ _ _ hO)
              (ih fxas m a2 f2 (fun x hx => hok x (List.mem_cons_of_mem _ hx)) hC)

theorem term_one (bss : List Bs) (pat : V) (mm : List (Nat × V)) :
    ∀ todo : List (Nat × V), FactsOK todo → Term dvg (fun n => arrayOne n bss pat mm todo) := by
  intro todo
  induction todo with
  | nil =>
    intro _
    refine ⟨1, fun n hn => ?_⟩
    cases n with
    | zero => omega
    | succ m => simp [arrayOne]
  | cons jf todo ih =>
    intro hok
    obtain ⟨j, fact⟩ := jf
    obtain ⟨N1, h1⟩ := term_with (hok (j, fact) List.mem_cons_self) pat bss
    obtain ⟨N2, h2⟩ := ih (fun e he => hok e (List.mem_cons_of_mem _ he))
    refine ⟨max N1 N2 + 1, fun n hn => ?_⟩
    cases n with
    | zero => omega
    | succ m =>
      have h1 := h1 m (by omega)
      have h2 := h2 m (by omega)
      simp only at h1 h2 ⊢
      simp only [arrayOne]
      cases hW : matchWith m bss pat fact with
      | diverge => exact absurd hW h1
      | err e => simp
      | ok acc =>
        simp only
        cases hO : arrayOne m bss pat mm todo with
        | inl r =>
          simp only
          intro hc; cases hc; exact h2 hO
        | inr x =>
          obtain ⟨a, f⟩ := x
          simp only
          split <;> simp

theorem term_cat (pat : V) : ∀ (bsss : List (List Bs)) (fxas : List (List (Nat × V))),
    AllOK fxas → Term dvg (fun n => arraycat n bsss pat fxas) := by
  intro bsss
  induction bsss with
  | nil =>
    intro fxas _
    refine ⟨1, fun n hn => ?_⟩
    cases n with
    | zero => omega
    | succ m => simp [arraycat]
  | cons bss bsss ih =>
    intro fxas hok
    cases fxas with
    | nil =>
      refine ⟨1, fun n hn => ?_⟩
      cases n with
      | zero => omega
      | succ m => simp [arraycat]
    | cons mm fxas =>
      obtain ⟨N1, h1⟩ := term_one bss pat mm mm (hok mm List.mem_cons_self)
      obtain ⟨N2, h2⟩ := ih fxas (fun x hx => hok x (List.mem_cons_of_mem _ hx))
      refine ⟨max N1 N2 + 1, fun n hn => ?_⟩
      cases n with
      | zero => omega
      | succ m =>
        have h1 := h1 m (by omega)
        have h2 := h2 m (by omega)
        simp only at h1 h2 ⊢
        simp only [arraycat]
        cases hO : arrayOne m bss pat mm mm with
        | inl r =>
          simp only
          intro hc; cases hc; exact h1 hO
        | inr x =>
          simp only
          cases hC : arraycat m bsss pat fxas with
          | inl r =>
            simp only
            intro hc; cases hc; exact h2 hC
          | inr y => simp

theorem conv_cat (pat : V) (bsss : List (List Bs)) (fxas : List (List (Nat × V)))
    (hok : AllOK fxas) : ∃ N r, r ≠ dvg ∧ ∀ n, N ≤ n → arraycat n bsss pat fxas = r :=
  (term_cat pat bsss fxas hok).conv (fun n => (mono_all n).2.2.2.2.2.2.2.2.2.1 bsss pat fxas)

theorem loop_ok : ∀ (xs : List V) (n : Nat) (fxs : List Scalar) (bsss : List (List Bs))
    (fxas : List (List (Nat × V))) (e : Bool) a b c,
    AllOK fxas → loopXs n xs fxs bsss fxas e = .inr (a, b, c) → AllOK c := by
  intro xs
  induction xs with
  | nil =>
    intro n fxs bsss fxas e a b c hok h
    cases n with
    | zero => simp [loopXs] at h
    | succ m => simp only [loopXs] at h; cases h; exact hok
  | cons x xs ih =>
    intro n fxs bsss fxas e a b c hok h
    cases n with
    | zero => simp [loopXs] at h
    | succ m =>
      simp only [loopXs] at h
      split at h
      · split at h
        · exact ih _ _ _ _ _ _ _ _ hok h
        · cases h
      · split at h
        · cases h
        · split at h
          · cases h
          · next bsss' fxas' hC =>
            split at h
            · cases h
            · exact ih _ _ _ _ _ _ _ _ (cat_ok _ _ _ _ _ hok hC) h

theorem term_loop : ∀ (xs : List V) (fxs : List Scalar) (bsss : List (List Bs))
    (fxas : List (List (Nat × V))) (e : Bool),
    AllOK fxas → Term dvg (fun n => loopXs n xs fxs bsss fxas e) := by
  intro xs
  induction xs with
  | nil =>
    intro fxs bsss fxas e _
    refine ⟨1, fun n hn => ?_⟩
    cases n with
    | zero => omega
    | succ m => simp [loopXs]
  | cons x xs ih =>
    intro fxs bsss fxas e hok
    cases hs : x.scalar? with
    | some sc =>
      by_cases hc : fxs.contains sc = true
      · obtain ⟨N, hN⟩ := ih (fxs.erase sc) bsss fxas e hok
        refine ⟨N + 1, fun n hn => ?_⟩
        cases n with
        | zero => omega
        | succ m =>
          have := hN m (by omega)
          simp only [loopXs, hs, hc, if_true]
          exact this
      · refine ⟨1, fun n hn => ?_⟩
        cases n with
        | zero => omega
        | succ m => simp only [loopXs, hs, hc]; simp
    | none =>
      cases he : e with
      | true =>
        refine ⟨1, fun n hn => ?_⟩
        cases n with
        | zero => omega
        | succ m => simp [loopXs, hs]
      | false =>
        obtain ⟨N1, r1, hr1, h1⟩ := conv_cat x bsss fxas hok
        cases r1 with
        | inl r =>
          refine ⟨N1 + 1, fun n hn => ?_⟩
          cases n with
          | zero => omega
          | succ m =>
            simp only [loopXs, hs, h1 m (by omega), Bool.false_eq_true, if_false]
            intro hc; cases hc; exact hr1 rfl
        | inr y =>
          obtain ⟨bsss', fxas'⟩ := y
          cases hb : bsss'.isEmpty with
          | true =>
            refine ⟨N1 + 1, fun n hn => ?_⟩
            cases n with
            | zero => omega
            | succ m => simp [loopXs, hs, h1 m (by omega), hb]
          | false =>
            have hok' : AllOK fxas' := cat_ok _ _ _ _ _ hok (h1 N1 (Nat.le_refl _))
            obtain ⟨N2, h2⟩ := ih fxs bsss' fxas' false hok'
            refine ⟨max N1 N2 + 1, fun n hn => ?_⟩
            cases n with
            | zero => omega
            | succ m =>
              have := h2 m (by omega)
              simp only [loopXs, hs, h1 m (by omega), hb, Bool.false_eq_true, if_false]
              exact this

theorem conv_loop (xs : List V) (fxs : List Scalar) (bsss : List (List Bs))
    (fxas : List (List (Nat × V))) (e : Bool) (hok : AllOK fxas) :
    ∃ N r, r ≠ dvg ∧ ∀ n, N ≤ n → loopXs n xs fxs bsss fxas e = r :=
  (term_loop xs fxs bsss fxas e hok).conv
    (fun n => (mono_all n).2.2.2.2.2.2.2.2.2.2 xs fxs bsss fxas e)

/-! ## the arms -/

theorem lookup_mem' {k : String} {v : V} : ∀ {l : List (String × V)}, lookup k l = some v →
    (k, v) ∈ l := by
  intro l
  induction l with
  | nil => intro h; simp [lookup] at h
  | cons kv rest ih =>
    intro h
    obtain ⟨k', v'⟩ := kv
    simp only [lookup] at h
    split at h
    · next hk => cases h; subst hk; exact List.mem_cons_self
    · exact List.mem_cons_of_mem _ (ih h)

theorem indexStruct_mem' {fa : List V} : ∀ {i : Nat} {e : Nat × V}, e ∈ indexStruct fa i →
    e.2 ∈ fa := by
  induction fa with
  | nil => intro i e h; simp [indexStruct] at h
  | cons x xs ih =>
    intro i e h
    simp only [indexStruct] at h
    split at h
    · exact List.mem_cons_of_mem _ (ih h)
    · rcases List.mem_cons.mp h with rfl | h
      · exact List.mem_cons_self
      · exact List.mem_cons_of_mem _ (ih h)

theorem leftovers_mem' {ss : List Scalar} : ∀ {i : Nat} {e : Nat × V}, e ∈ leftovers ss i →
    ∃ s : Scalar, e.2 = s.toV := by
  induction ss with
  | nil => intro i e h; simp [leftovers] at h
  | cons s ss ih =>
    intro i e h
    simp only [leftovers] at h
    rcases List.mem_cons.mp h with rfl | h
    · exact ⟨s, rfl⟩
    · exact ih h

/-- what `matchObj` needs of the message -/
def ObjParts (g : V) : Prop := ∀ fm, g = .obj fm → ∀ kv ∈ fm, TermMsg (.str kv.1) ∧ TermMsg kv.2
/-- what `matchArr` needs of the message -/
def ArrParts (g : V) : Prop :=
  ∀ fa, g = .arr fa → (∀ x ∈ fa, TermMsg x) ∧ (∀ s : Scalar, TermMsg s.toV)

theorem term_obj {g : V} (hg : ObjParts g) (pm : List (String × V)) (bs : Bs) :
    Term MRes.diverge (fun n => matchObj n pm g bs) := by
  cases g with
  | obj fm =>
    have hparts := hg fm rfl
    have hmc : ∀ pm, Term MRes.diverge (fun n => mapcat n [bs] pm fm) := fun pm =>
      term_mapcat (fun k fv hl => (hparts (k, fv) (lookup_mem' hl)).2) pm [bs]
    by_cases h1 : pm.isEmpty = true
    · refine ⟨1, fun n hn => ?_⟩
      cases n with
      | zero => omega
      | succ m => simp [matchObj, h1]
    · by_cases h2 : checkBadPropVars pm = true
      · refine ⟨1, fun n hn => ?_⟩
        cases n with
        | zero => omega
        | succ m => simp [matchObj, h1, h2]
      · cases pm with
        | nil => simp at h1
        | cons kv rest =>
          obtain ⟨k, v⟩ := kv
          cases rest with
          | nil =>
            by_cases hk : isVar k = true
            · obtain ⟨N, hN⟩ := term_gather [bs] k v fm hparts
              refine ⟨N + 1, fun n hn => ?_⟩
              cases n with
              | zero => omega
              | succ m =>
                have := hN m (by omega)
                simp only [matchObj, h1, h2, hk, if_true, if_false, Bool.false_eq_true]
                exact this
            · obtain ⟨N, hN⟩ := hmc [(k, v)]
              refine ⟨N + 1, fun n hn => ?_⟩
              cases n with
              | zero => omega
              | succ m =>
                have := hN m (by omega)
                simp only [matchObj, h1, h2, hk, if_false, Bool.false_eq_true]
                exact this
          | cons kv2 rest =>
            obtain ⟨N, hN⟩ := hmc ((k, v) :: kv2 :: rest)
            refine ⟨N + 1, fun n hn => ?_⟩
            cases n with
            | zero => omega
            | succ m =>
              have := hN m (by omega)
              simp only [matchObj, h1, h2, if_false, Bool.false_eq_true]
              exact this
  | _ =>
    refine ⟨1, fun n hn => ?_⟩
    cases n with
    | zero => omega
    | succ m => simp [matchObj]

theorem term_arr {g : V} (hg : ArrParts g) (ps : List V) (bs : Bs) :
    Term MRes.diverge (fun n => matchArr n ps g bs) := by
  cases hgv : getVariable ps none [] with
  | error e =>
    refine ⟨1, fun n hn => ?_⟩
    cases n with
    | zero => omega
    | succ m => simp [matchArr, hgv]
  | ok vx =>
    obtain ⟨v, xs⟩ := vx
    cases g with
    | arr fa =>
      obtain ⟨hel, hsc⟩ := hg fa rfl
      have hok0 : AllOK [indexStruct fa 0] := by
        intro mm hmm
        rcases List.mem_cons.mp hmm with rfl | hmm
        · intro e he; exact hel _ (indexStruct_mem' he)
        · cases hmm
      obtain ⟨N1, r1, hr1, h1⟩ :=
        conv_loop xs (indexScalars fa []) [[bs]] [indexStruct fa 0] (indexStruct fa 0).isEmpty hok0
      cases r1 with
      | inl r =>
        refine ⟨N1 + 1, fun n hn => ?_⟩
        cases n with
        | zero => omega
        | succ m =>
          simp only [matchArr, hgv, h1 m (by omega)]
          intro hc; subst hc; exact hr1 rfl
      | inr y =>
        obtain ⟨fxs', bsss, fxas⟩ := y
        cases v with
        | none =>
          refine ⟨N1 + 1, fun n hn => ?_⟩
          cases n with
          | zero => omega
          | succ m => simp [matchArr, hgv, h1 m (by omega)]
        | some vn =>
          have hok1 : AllOK fxas := loop_ok _ _ _ _ _ _ _ _ _ hok0 (h1 N1 (Nat.le_refl _))
          have hok2 : AllOK (fxas.map (fun m => m ++ leftovers fxs' fa.length)) := by
            intro mm hmm
            obtain ⟨m0, hm0, rfl⟩ := List.mem_map.mp hmm
            intro e he
            rcases List.mem_append.mp he with he | he
            · exact hok1 m0 hm0 e he
            · obtain ⟨s, hs⟩ := leftovers_mem' he
              rw [hs]; exact hsc s
          obtain ⟨N2, h2⟩ := term_cat (.str vn) bsss _ hok2
          refine ⟨max N1 N2 + 1, fun n hn => ?_⟩
          cases n with
          | zero => omega
          | succ m =>
            have h2 := h2 m (by omega)
            simp only at h2 ⊢
            simp only [matchArr, hgv, h1 m (by omega)]
            cases hC : arraycat m bsss (.str vn)
                (fxas.map (fun m => m ++ leftovers fxs' fa.length)) with
            | inl r =>
              simp only
              intro hc; subst hc; exact h2 hC
            | inr y =>
              simp only
              split <;> simp
    | _ =>
      refine ⟨1, fun n hn => ?_⟩
      cases n with
      | zero => omega
      | succ m => simp [matchArr, hgv]

theorem matchNull_ne (f : V) (bs : Bs) : matchNull f bs ≠ .diverge := by
  unfold matchNull; split <;> simp
theorem matchBool_ne (a : Bool) (f : V) (bs : Bs) : matchBool a f bs ≠ .diverge := by
  unfold matchBool; split
  · split <;> simp
  · simp
theorem matchNum_ne (a : Rat) (f : V) (bs : Bs) : matchNum a f bs ≠ .diverge := by
  unfold matchNum; split
  · split <;> simp
  · simp

theorem fudge_idem (f : V) : fudge (fudge f) = fudge f := by
  cases f <;> rfl

/-- `matchF`, given the string arm -/
theorem term_F_of_str {p f : V} {bs : Bs} (ho : ObjParts (fudge f)) (ha : ArrParts (fudge f))
    (hstr : ∀ s, fudge p = .str s → Term MRes.diverge (fun n => matchStr n s (fudge f) bs)) :
    Term MRes.diverge (fun n => matchF n p f bs) := by
  cases hq : fudge p with
  | null =>
    refine ⟨1, fun n hn => ?_⟩
    cases n with
    | zero => omega
    | succ m => simp only [matchF, hq]; exact matchNull_ne _ _
  | bool a =>
    refine ⟨1, fun n hn => ?_⟩
    cases n with
    | zero => omega
    | succ m => simp only [matchF, hq]; exact matchBool_ne _ _ _
  | num a =>
    refine ⟨1, fun n hn => ?_⟩
    cases n with
    | zero => omega
    | succ m => simp only [matchF, hq]; exact matchNum_ne _ _ _
  | str s =>
    obtain ⟨N, hN⟩ := hstr s hq
    refine ⟨N + 1, fun n hn => ?_⟩
    cases n with
    | zero => omega
    | succ m => simp only [matchF, hq]; exact hN m (by omega)
  | obj pm =>
    obtain ⟨N, hN⟩ := term_obj ho pm bs
    refine ⟨N + 1, fun n hn => ?_⟩
    cases n with
    | zero => omega
    | succ m => simp only [matchF, hq]; exact hN m (by omega)
  | arr ps =>
    obtain ⟨N, hN⟩ := term_arr ha ps bs
    refine ⟨N + 1, fun n hn => ?_⟩
    cases n with
    | zero => omega
    | succ m => simp only [matchF, hq]; exact hN m (by omega)
  | int i =>
    refine ⟨1, fun n hn => ?_⟩
    cases n with
    | zero => omega
    | succ m => simp [matchF, hq]
  | bobj kvs =>
    refine ⟨1, fun n hn => ?_⟩
    cases n with
    | zero => omega
    | succ m => simp [matchF, hq]
  | other t =>
    refine ⟨1, fun n hn => ?_⟩
    cases n with
    | zero => omega
    | succ m => simp [matchF, hq]

/-- a pattern that is not a variable: the next step is terminal or descends into the message -/
theorem term_nonvar {p f : V} {bs : Bs} (ho : ObjParts (fudge f)) (ha : ArrParts (fudge f))
    (hp : ∀ s, fudge p = .str s → isVar s = false) :
    Term MRes.diverge (fun n => matchF n p f bs) := by
  refine term_F_of_str ho ha (fun s hs => ?_)
  have hv := hp s hs
  refine ⟨1, fun n hn => ?_⟩
  cases n with
  | zero => omega
  | succ m =>
    simp only [matchStr, hv, Bool.not_false, if_true]
    split
    · split <;> simp
    · simp

theorem term_bound {f : V} (ho : ObjParts (fudge f)) (ha : ArrParts (fudge f)) (b : V) (bs : Bs) :
    Term MRes.diverge (fun n => matchBound n b f bs) := by
  by_cases hb : ∃ t, b = .str t ∧ isVar t = true
  · obtain ⟨t, rfl, ht⟩ := hb
    refine ⟨1, fun n hn => ?_⟩
    cases n with
    | zero => omega
    | succ m =>
      simp only [matchBound, ht, if_true]
      split
      · split <;> simp
      · simp
  · have hp : ∀ s, fudge b = .str s → isVar s = false := by
      intro s hs
      cases b with
      | str t =>
        cases hs
        cases hv : isVar s with
        | false => rfl
        | true => exact absurd ⟨s, rfl, hv⟩ hb
      | _ => cases hs
    obtain ⟨N, hN⟩ := term_nonvar (bs := bs) ho ha hp
    refine ⟨N + 1, fun n hn => ?_⟩
    cases n with
    | zero => omega
    | succ m =>
      have := hN m (by omega)
      simp only [matchBound]
      split
      · next t =>
        split
        · next hv => exact absurd ⟨t, rfl, hv⟩ hb
        · exact this
      · exact this

theorem term_str {f : V} (ho : ObjParts (fudge f)) (ha : ArrParts (fudge f)) (s : String) (bs : Bs) :
    Term MRes.diverge (fun n => matchStr n s f bs) := by
  cases hl : lookup s bs with
  | none =>
    refine ⟨1, fun n hn => ?_⟩
    cases n with
    | zero => omega
    | succ m =>
      simp only [matchStr, hl]
      split
      · split
        · split <;> simp
        · simp
      · split
        · simp
        · split <;> simp
  | some b =>
    obtain ⟨N, hN⟩ := term_bound ho ha b bs
    refine ⟨N + 1, fun n hn => ?_⟩
    cases n with
    | zero => omega
    | succ m =>
      have := hN m (by omega)
      simp only [matchStr, hl]
      split
      · split
        · split <;> simp
        · simp
      · split
        · simp
        · split
          · simp
          · exact this

/-- the parts terminate ⇒ the whole terminates -/
theorem termMsg_core {f : V} (ho : ObjParts (fudge f)) (ha : ArrParts (fudge f)) : TermMsg f := by
  intro p bs
  refine term_F_of_str ho ha (fun s _ => ?_)
  exact term_str (by rw [fudge_idem]; exact ho) (by rw [fudge_idem]; exact ha) s bs

theorem termMsg_leaf {f : V} (h1 : ∀ fm, fudge f ≠ .obj fm) (h2 : ∀ fa, fudge f ≠ .arr fa) :
    TermMsg f :=
  termMsg_core (fun fm h => absurd h (h1 fm)) (fun fa h => absurd h (h2 fa))

theorem termMsg_str (k : String) : TermMsg (.str k) :=
  termMsg_leaf (fun _ h => nomatch h) (fun _ h => nomatch h)

theorem termMsg_scalar (s : Scalar) : TermMsg s.toV := by
  cases s <;> exact termMsg_leaf (fun _ h => nomatch h) (fun _ h => nomatch h)

theorem termMsg_lt : ∀ (k : Nat) (f : V), sizeOf f < k → TermMsg f := by
  intro k
  induction k with
  | zero => intro f h; omega
  | succ k ih =>
    intro f hlt
    cases f with
    | arr xs =>
      refine termMsg_core (fun _ h => nomatch h) (fun fa h => ?_)
      cases h
      refine ⟨fun x hx => ih x ?_, termMsg_scalar⟩
      have h1 := List.sizeOf_lt_of_mem hx
      have h2 : sizeOf (V.arr xs) = 1 + sizeOf xs := V.arr.sizeOf_spec xs
      omega
    | obj kvs =>
      refine termMsg_core (fun fm h => ?_) (fun _ h => nomatch h)
      cases h
      intro kv hkv
      refine ⟨termMsg_str _, ih kv.2 ?_⟩
      have h1 := List.sizeOf_lt_of_mem hkv
      have h2 : sizeOf (V.obj kvs) = 1 + sizeOf kvs := V.obj.sizeOf_spec kvs
      have h3 : sizeOf kv = 1 + sizeOf kv.1 + sizeOf kv.2 := by cases kv; rfl
      omega
    | _ => exact termMsg_leaf (fun _ h => nomatch h) (fun _ h => nomatch h)

/-- the matcher terminates on every message, for every pattern and all bindings -/
theorem termMsg_all (f : V) : TermMsg f := termMsg_lt (sizeOf f + 1) f (Nat.lt_succ_self _)

end Sheens.Total
