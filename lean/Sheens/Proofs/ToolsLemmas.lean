import Sheens.Tools

/-!
# Helper lemmas for C20 (`Tools.analyze`, `Tools.render`)
-/

namespace Tools

/-! ## `dedupS` -/

theorem mem_dedupS (l : List String) (x : String) : x ∈ dedupS l ↔ x ∈ l := by
  induction l with
  | nil => simp [dedupS]
  | cons y ys ih =>
    simp only [dedupS, List.mem_cons, List.mem_filter, ih, bne_iff_ne, ne_eq]
    constructor
    · rintro (h | ⟨h, _⟩)
      · exact Or.inl h
      · exact Or.inr h
    · intro h
      by_cases hxy : x = y
      · exact Or.inl hxy
      · rcases h with h | h
        · exact Or.inl h
        · exact Or.inr ⟨h, hxy⟩

theorem dedupS_nodup (l : List String) : (dedupS l).Nodup := by
  induction l with
  | nil => simp [dedupS]
  | cons y ys ih =>
    rw [dedupS, List.nodup_cons]
    exact ⟨by simp, ih.filter _⟩

/-! ## `hasNode`, `contains` -/

theorem hasNode_eq_true (s : TSpec) (n : String) : hasNode s n = true ↔ n ∈ s.map (·.1) := by
  simp only [hasNode, List.any_eq_true, beq_iff_eq, List.mem_map]

theorem mem_allBranches (s : TSpec) (b : TBranch) :
    b ∈ allBranches s ↔ ∃ p ∈ s, b ∈ branchesOf p.2 := by
  simp only [allBranches, List.mem_flatMap]

/-! ## sums over `flatMap` -/

theorem length_flatMap_sum {α β : Type} (l : List α) (f : α → List β) :
    (l.flatMap f).length = (l.map (fun a => (f a).length)).sum := by
  induction l with
  | nil => rfl
  | cons a as ih => simp only [List.flatMap_cons, List.length_append, List.map_cons, List.sum_cons, ih]

theorem filter_flatMap' {α β : Type} (l : List α) (f : α → List β) (q : β → Bool) :
    (l.flatMap f).filter q = l.flatMap (fun a => (f a).filter q) := by
  induction l with
  | nil => rfl
  | cons a as ih => simp only [List.flatMap_cons, List.filter_append, ih]

/-! ## the `start`-first order -/

def order (s : TSpec) : TSpec :=
  (s.filter (fun p => p.1 == "start")) ++ (s.filter (fun p => p.1 != "start"))

theorem mem_order (s : TSpec) (p : String × TNode) : p ∈ order s ↔ p ∈ s := by
  simp only [order, List.mem_append, List.mem_filter, beq_iff_eq, bne_iff_ne, ne_eq]
  constructor
  · rintro (⟨h, _⟩ | ⟨h, _⟩) <;> exact h
  · intro h
    by_cases hs : p.1 = "start"
    · exact Or.inl ⟨h, hs⟩
    · exact Or.inr ⟨h, hs⟩

theorem length_filter_split {α : Type} (l : List α) (q r : α → Bool) :
    ((l.filter q ++ l.filter (fun x => !q x)).filter r).length = (l.filter r).length := by
  induction l with
  | nil => rfl
  | cons a as ih =>
    simp only [List.filter_append, List.length_append] at ih ⊢
    cases hq : q a <;> cases hr : r a <;>
      simp only [List.filter_cons, hq, hr, Bool.not_true, Bool.not_false, Bool.false_eq_true,
        ↓reduceIte, List.length_cons] <;> omega

theorem length_filter_order (s : TSpec) (r : String × TNode → Bool) :
    ((order s).filter r).length = (s.filter r).length := by
  have h := length_filter_split s (fun p => p.1 == "start") r
  simpa [order, bne] using h

/-! ## `render` as a fold -/

def addS (sn : List String) (x : String) : List String :=
  if sn.contains x then sn else sn ++ [x]

theorem mem_addS (sn : List String) (x y : String) : y ∈ addS sn x ↔ y ∈ sn ∨ y = x := by
  unfold addS
  split
  · rename_i h
    have hx : x ∈ sn := by simpa using h
    constructor
    · exact Or.inl
    · rintro (h | rfl)
      · exact h
      · exact hx
  · simp

theorem nodup_addS (sn : List String) (x : String) (h : sn.Nodup) : (addS sn x).Nodup := by
  unfold addS
  split
  · exact h
  · rename_i hc
    have hx : x ∉ sn := by simpa using hc
    rw [List.nodup_append]
    refine ⟨h, by simp, ?_⟩
    intro a ha b hb
    simp only [List.mem_singleton] at hb
    subst hb
    intro hab
    subst hab
    exact hx ha

def addTargets (sn : List String) (bs : List TBranch) : List String :=
  bs.foldl (fun sn b => addS sn b.target) sn

theorem mem_addTargets (bs : List TBranch) (sn : List String) (y : String) :
    y ∈ addTargets sn bs ↔ y ∈ sn ∨ ∃ b ∈ bs, b.target = y := by
  induction bs generalizing sn with
  | nil => simp [addTargets]
  | cons b bs ih =>
    have : addTargets sn (b :: bs) = addTargets (addS sn b.target) bs := rfl
    rw [this, ih, mem_addS]
    constructor
    · rintro ((h | h) | ⟨b', hb', h⟩)
      · exact Or.inl h
      · exact Or.inr ⟨b, List.mem_cons_self, h.symm⟩
      · exact Or.inr ⟨b', List.mem_cons_of_mem _ hb', h⟩
    · rintro (h | ⟨b', hb', h⟩)
      · exact Or.inl (Or.inl h)
      · rcases List.mem_cons.mp hb' with rfl | hb'
        · exact Or.inl (Or.inr h.symm)
        · exact Or.inr ⟨b', hb', h⟩

theorem nodup_addTargets (bs : List TBranch) (sn : List String) (h : sn.Nodup) :
    (addTargets sn bs).Nodup := by
  induction bs generalizing sn with
  | nil => exact h
  | cons b bs ih => exact ih _ (nodup_addS _ _ h)

abbrev Acc := List String × List (String × List String)

def visit (acc : Acc) (p : String × TNode) : Acc :=
  let seen := addS acc.1 p.1
  match p.2.branches with
  | none => (seen, acc.2)
  | some bs => (addTargets seen bs, acc.2 ++ [(p.1, bs.map (·.target))])

theorem render_eq (s : TSpec) :
    render s = { nodes := ((order s).foldl visit ([], [])).1,
                 edges := ((order s).foldl visit ([], [])).2 } := rfl

def edgeOf (p : String × TNode) : Option (String × List String) :=
  p.2.branches.map (fun bs => (p.1, bs.map (·.target)))

theorem visit_fst_mem (acc : Acc) (p : String × TNode) (y : String) :
    y ∈ (visit acc p).1 ↔ y ∈ acc.1 ∨ y = p.1 ∨ ∃ b ∈ branchesOf p.2, b.target = y := by
  unfold visit branchesOf
  cases hb : p.2.branches with
  | none => simp [mem_addS]
  | some bs => simp [mem_addTargets, mem_addS, or_assoc]

theorem visit_fst_nodup (acc : Acc) (p : String × TNode) (h : acc.1.Nodup) :
    (visit acc p).1.Nodup := by
  unfold visit
  cases hb : p.2.branches with
  | none => exact nodup_addS _ _ h
  | some bs => exact nodup_addTargets _ _ (nodup_addS _ _ h)

theorem visit_snd (acc : Acc) (p : String × TNode) :
    (visit acc p).2 = acc.2 ++ (edgeOf p).toList := by
  unfold visit edgeOf
  cases hb : p.2.branches with
  | none => simp
  | some bs => simp

theorem foldl_visit_mem (l : TSpec) (acc : Acc) (y : String) :
    y ∈ (l.foldl visit acc).1 ↔
      y ∈ acc.1 ∨ y ∈ l.map (·.1) ∨ ∃ b ∈ allBranches l, b.target = y := by
  induction l generalizing acc with
  | nil => simp [allBranches]
  | cons p ps ih =>
    rw [List.foldl_cons, ih, visit_fst_mem]
    simp only [allBranches, List.map_cons, List.mem_cons, List.flatMap_cons, List.mem_append]
    constructor
    · rintro ((h | h | ⟨b, hb, h⟩) | h | ⟨b, hb, h⟩)
      · exact Or.inl h
      · exact Or.inr (Or.inl (Or.inl h))
      · exact Or.inr (Or.inr ⟨b, Or.inl hb, h⟩)
      · exact Or.inr (Or.inl (Or.inr h))
      · exact Or.inr (Or.inr ⟨b, Or.inr hb, h⟩)
    · rintro (h | (h | h) | ⟨b, hb | hb, h⟩)
      · exact Or.inl (Or.inl h)
      · exact Or.inl (Or.inr (Or.inl h))
      · exact Or.inr (Or.inl h)
      · exact Or.inl (Or.inr (Or.inr ⟨b, hb, h⟩))
      · exact Or.inr (Or.inr ⟨b, hb, h⟩)

theorem foldl_visit_nodup (l : TSpec) (acc : Acc) (h : acc.1.Nodup) :
    (l.foldl visit acc).1.Nodup := by
  induction l generalizing acc with
  | nil => exact h
  | cons p ps ih => exact ih _ (visit_fst_nodup _ _ h)

theorem foldl_visit_snd (l : TSpec) (acc : Acc) :
    (l.foldl visit acc).2 = acc.2 ++ l.filterMap edgeOf := by
  induction l generalizing acc with
  | nil => simp
  | cons p ps ih =>
    rw [List.foldl_cons, ih, visit_snd, List.filterMap_cons]
    cases edgeOf p <;> simp

theorem length_filterMap_edgeOf (l : TSpec) :
    (l.filterMap edgeOf).length = (l.filter (fun p => p.2.branches.isSome)).length := by
  induction l with
  | nil => rfl
  | cons p ps ih =>
    rw [List.filterMap_cons, List.filter_cons]
    cases hb : p.2.branches with
    | none =>
      have he : edgeOf p = none := by simp [edgeOf, hb]
      simp [he, ih]
    | some bs =>
      have he : edgeOf p = some (p.1, bs.map (·.target)) := by simp [edgeOf, hb]
      simp [he, ih]

end Tools
