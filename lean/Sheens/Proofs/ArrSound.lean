import Sheens.Proofs.ArrBasic

/-! # Array arm, part 2: `arrayOne`, `arraycat`, `loopXs`, `matchArr` -/

/-! ## early exits never carry a successful result (except `loopXs`'s "no match") -/

theorem arrayOne_inl : ∀ (n : Nat) (bss : List Bs) (pat : V) (mm todo : List (Nat × V)) (r : MRes),
    arrayOne n bss pat mm todo = .inl r → ∀ rs, r ≠ .ok rs := by
  intro n
  induction n with
  | zero => intro bss pat mm todo r h rs; simp only [arrayOne] at h; cases h; intro h'; cases h'
  | succ n ih =>
    intro bss pat mm todo r h rs
    cases todo with
    | nil => simp only [arrayOne] at h; cases h
    | cons e todo =>
      obtain ⟨j, fact⟩ := e
      simp only [arrayOne] at h
      split at h
      · split at h
        · next r' hr' => cases h; exact ih _ _ _ _ _ hr' rs
        · split at h <;> cases h
      · next hne => cases h; intro heq; exact hne rs heq

theorem arraycat_inl : ∀ (n : Nat) (bsss : List (List Bs)) (pat : V) (fxas : List (List (Nat × V)))
    (r : MRes), arraycat n bsss pat fxas = .inl r → ∀ rs, r ≠ .ok rs := by
  intro n
  induction n with
  | zero => intro bsss pat fxas r h rs; simp only [arraycat] at h; cases h; intro h'; cases h'
  | succ n ih =>
    intro bsss pat fxas r h rs
    cases bsss with
    | nil => simp only [arraycat] at h; cases h
    | cons bss bsss =>
      cases fxas with
      | nil => simp only [arraycat] at h; cases h
      | cons mm fxas =>
        simp only [arraycat] at h
        split at h
        · next r' hr' => cases h; exact arrayOne_inl _ _ _ _ _ _ hr' rs
        · split at h
          · next r' hr' => cases h; exact ih _ _ _ _ hr' rs
          · cases h

theorem loopXs_inl : ∀ (n : Nat) (xs : List V) (fxs : List Scalar) (bsss : List (List Bs))
    (fxas : List (List (Nat × V))) (flag : Bool) (rs : List Bs),
    loopXs n xs fxs bsss fxas flag = .inl (.ok rs) → rs = [] := by
  intro n
  induction n with
  | zero => intro xs fxs bsss fxas flag rs h; simp only [loopXs] at h; cases h
  | succ n ih =>
    intro xs fxs bsss fxas flag rs h
    cases xs with
    | nil => simp only [loopXs] at h; cases h
    | cons x xs =>
      simp only [loopXs] at h
      split at h
      · split at h
        · exact ih _ _ _ _ _ _ h
        · cases h; rfl
      · split at h
        · cases h; rfl
        · split at h
          · next r' hr' => cases h; exact absurd rfl (arraycat_inl _ _ _ _ _ hr' rs)
          · split at h
            · cases h; rfl
            · exact ih _ _ _ _ _ _ h

section
variable (bs₀ : Bs) (vs : List String)

def StmtOne (n : Nat) : Prop :=
  ∀ bss pat mm todo a f, pat.plainPat = true → varsOf pat ⊆ vs →
    (∀ e ∈ todo, e.2.good = true) → (∀ e ∈ todo, e ∈ mm) → (∀ bs ∈ bss, Cur bs₀ bs) →
    arrayOne n bss pat mm todo = .inr (a, f) → Brs (StepRes bs₀ vs pat bss mm) a f

def StmtCat (n : Nat) : Prop :=
  ∀ (P : List Bs → List (Nat × V) → Prop) bsss pat fxas a f, pat.plainPat = true →
    varsOf pat ⊆ vs →
    (∀ bss mm, P bss mm → (∀ e ∈ mm, e.2.good = true) ∧ ∀ bs ∈ bss, Cur bs₀ bs) →
    Brs P bsss fxas → arraycat n bsss pat fxas = .inr (a, f) →
    Brs (fun acc mm' => ∃ bss mm, P bss mm ∧ StepRes bs₀ vs pat bss mm acc mm') a f

def StmtLoop (n : Nat) : Prop :=
  ∀ bs fa xs fxs bsss fxas flag done fxs' bsss' fxas', Cur bs₀ bs →
    (∀ x ∈ xs, x.plainPat = true ∧ varsOf x ⊆ vs ∧ isVarV x = false) →
    Brs (BInv bs₀ vs bs fa done fxs) bsss fxas →
    loopXs n xs fxs bsss fxas flag = .inr (fxs', bsss', fxas') →
    Brs (BInv bs₀ vs bs fa (done ++ xs) fxs') bsss' fxas' ∧ ∀ sc ∈ fxs', sc ∈ fxs
end

section
variable {bs₀ : Bs} {vs : List String}

theorem sound_one_step {n : Nat} (ihW : StmtWith bs₀ vs n) (ihO : StmtOne bs₀ vs n) :
    StmtOne bs₀ vs (n+1) := by
  intro bss pat mm todo a f hp hv hgood hsub hbss h
  cases todo with
  | nil => simp only [arrayOne] at h; cases h; exact Brs.nil
  | cons e todo =>
    obtain ⟨j, fact⟩ := e
    have hfact : fact.good = true := hgood (j, fact) List.mem_cons_self
    have hrest := ihO bss pat mm todo
    simp only [arrayOne] at h
    split at h
    · next acc hacc =>
      split at h
      · cases h
      · next a' f' hrec =>
        have hR := ihO bss pat mm todo a' f' hp hv
          (fun e he => hgood e (List.mem_cons_of_mem _ he))
          (fun e he => hsub e (List.mem_cons_of_mem _ he)) hbss hrec
        split at h
        · cases h; exact hR
        · cases h
          refine Brs.cons ?_ hR
          exact ⟨j, fact, hsub _ List.mem_cons_self, rfl,
            ihW bss pat fact acc hp hfact hv hbss hacc⟩
    · cases h

theorem sound_cat_step {n : Nat} (ihO : StmtOne bs₀ vs n) (ihC : StmtCat bs₀ vs n) :
    StmtCat bs₀ vs (n+1) := by
  intro P bsss pat fxas a f hp hv hP hbrs h
  cases hbrs with
  | nil => simp only [arraycat] at h; cases h; exact Brs.nil
  | @cons bss mm bsss fxas hp1 hrest =>
    simp only [arraycat] at h
    split at h
    · cases h
    · next a1 f1 h1 =>
      split at h
      · cases h
      · next a2 f2 h2 =>
        cases h
        obtain ⟨hg, hc⟩ := hP bss mm hp1
        have r1 := ihO bss pat mm mm a1 f1 hp hv hg (fun e he => he) hc h1
        have r2 := ihC P bsss pat fxas a2 f2 hp hv hP hrest h2
        exact (r1.imp (fun acc mm' hs => ⟨bss, mm, hp1, hs⟩)).append r2

theorem BInv.cur {bs fa done fxs bss mm} (hcur : Cur bs₀ bs)
    (inv : BInv bs₀ vs bs fa done fxs bss mm) : ∀ b ∈ bss, Cur bs₀ b :=
  fun b hb => hcur.post (inv.each b hb).1

theorem sound_loop_step {n : Nat} (ihC : StmtCat bs₀ vs n) (ihL : StmtLoop bs₀ vs n) :
    StmtLoop bs₀ vs (n+1) := by
  intro bs fa xs fxs bsss fxas flag done fxs' bsss' fxas' hcur hxs hbrs h
  cases xs with
  | nil =>
    simp only [loopXs] at h
    cases h
    exact ⟨by simpa using hbrs, fun _ h => h⟩
  | cons x xs =>
    obtain ⟨hxp, hxv, hxn⟩ := hxs x List.mem_cons_self
    have hxs' : ∀ y ∈ xs, y.plainPat = true ∧ varsOf y ⊆ vs ∧ isVarV y = false :=
      fun y hy => hxs y (List.mem_cons_of_mem _ hy)
    have happ : done ++ x :: xs = (done ++ [x]) ++ xs := by simp
    rw [happ]
    simp only [loopXs] at h
    split at h
    · next sc hsc =>
      split at h
      · next hc =>
        have hm : sc ∈ fxs := List.contains_iff_mem.mp hc
        have hbrs' : Brs (BInv bs₀ vs bs fa (done ++ [x]) (fxs.erase sc)) bsss fxas :=
          hbrs.imp (fun bss mm inv => inv.step_scalar hsc hxn hm)
        obtain ⟨r1, r2⟩ := ihL bs fa xs _ bsss fxas flag _ fxs' bsss' fxas' hcur hxs' hbrs' h
        exact ⟨r1, fun sc' h' => List.mem_of_mem_erase (r2 sc' h')⟩
      · cases h
    · split at h
      · cases h
      · split at h
        · cases h
        · next b1 f1 hcat =>
          split at h
          · cases h
          · have hstep := ihC (BInv bs₀ vs bs fa done fxs) bsss x fxas b1 f1 hxp hxv
              (fun bss mm inv => ⟨inv.goodFacts, inv.cur hcur⟩) hbrs hcat
            have hbrs' : Brs (BInv bs₀ vs bs fa (done ++ [x]) fxs) b1 f1 :=
              hstep.imp (fun acc mm' ⟨bss, mm, inv, hs⟩ => inv.step_struct hs)
            exact ihL bs fa xs fxs b1 f1 flag _ fxs' bsss' fxas' hcur hxs' hbrs' h

/-- the invariant at loop entry -/
theorem BInv.init {bs : Bs} {fa : List V} (hg : GoodBs bs) (hfa : goodList fa = true) :
    BInv bs₀ vs bs fa [] (indexScalars fa []) [bs] (indexStruct fa 0) := by
  refine ⟨?_, indexStruct_nodup, ?_⟩
  · intro e he
    exact goodList_mem hfa _ (indexStruct_mem he).2
  · intro r hr
    simp at hr; subst hr
    refine ⟨Post.refl hg, fa, ArrEmbL.nil, ?_⟩
    have := index_pickAll fa [] 0 [] [] (by simpa using PickAll.nil)
    simpa [remOf] using this

theorem indexScalars_good {fa : List V} (hfa : goodList fa = true) :
    ∀ sc ∈ indexScalars fa [], sc.toV.good = true := by
  intro sc hsc
  have := index_pickAll fa [] 0 [] [] (by simpa using PickAll.nil)
  have hmem : sc.toV ∈ ([] ++ (indexStruct fa 0).map (·.2)) ++ (indexScalars fa []).map Scalar.toV :=
    List.mem_append_right _ (List.mem_map_of_mem hsc)
  have := this.mem hmem
  exact goodList_mem hfa _ (by simpa using this)

/-- what the variable step needs from a finished branch -/
def FinInv (bs₀ : Bs) (vs : List String) (bs : Bs) (fa xs : List V) (bss : List Bs)
    (mm : List (Nat × V)) : Prop :=
  (∀ e ∈ mm, e.2.good = true) ∧
  ∀ r ∈ bss, Post vs bs r ∧ ∃ L, ArrEmbL bs₀ r xs fa L ∧ ∀ e ∈ mm, ∃ L', Pick e.2 L L'

theorem BInv.fin {bs fa xs fxs bss mm} (k : Nat) (inv : BInv bs₀ vs bs fa xs fxs bss mm)
    (hfxs : ∀ sc ∈ fxs, sc.toV.good = true) :
    FinInv bs₀ vs bs fa xs bss (mm ++ leftovers fxs k) := by
  have hmem : ∀ e ∈ mm ++ leftovers fxs k, e.2 ∈ remOf mm fxs := by
    intro e he
    rcases List.mem_append.mp he with he | he
    · exact List.mem_append_left _ (List.mem_map_of_mem he)
    · obtain ⟨sc, h1, h2⟩ := leftovers_mem he
      rw [h2]
      exact List.mem_append_right _ (List.mem_map_of_mem h1)
  refine ⟨?_, ?_⟩
  · intro e he
    rcases List.mem_append.mp he with he | he
    · exact inv.goodFacts e he
    · obtain ⟨sc, h1, h2⟩ := leftovers_mem he
      rw [h2]; exact hfxs sc h1
  · intro r hr
    obtain ⟨hpost, L, hemb, hpick⟩ := inv.each r hr
    exact ⟨hpost, L, hemb, fun e he => hpick.pick_mem (hmem e he)⟩

theorem sound_arr_step {n : Nat} (ihC : StmtCat bs₀ vs n) (ihL : StmtLoop bs₀ vs n) :
    StmtArr bs₀ vs (n+1) := by
  intro ps f bs rs hp hg hv hcur h r hr
  simp only [matchArr] at h
  split at h
  · cases h
  · next v xs hgv =>
    split at h
    · next fa =>
      have hfa : goodList fa = true := by simpa [V.good] using hg
      split at h
      · next r' hl =>
        subst h
        have := loopXs_inl _ _ _ _ _ _ _ hl
        subst this; cases hr
      · next fxs' bsss fxas hl =>
        -- facts about the pattern elements
        have hps : ∀ x ∈ ps, x.plainPat = true ∧ varsOf x ⊆ vs := by
          intro x hx
          refine ⟨plainPatList_mem hp x hx, ?_⟩
          intro k hk
          apply hv
          clear hp hgv hl h
          induction ps with
          | nil => cases hx
          | cons y ps ih =>
            simp only [varsOfList, List.mem_append]
            rcases List.mem_cons.mp hx with rfl | hx
            · exact Or.inl hk
            · exact Or.inr (ih (fun k hk => hv (by simp [varsOfList, hk])) hx)
        have hinit : Brs (BInv bs₀ vs bs fa [] (indexScalars fa [])) [[bs]] [indexStruct fa 0] :=
          Brs.cons (BInv.init hcur.good hfa) Brs.nil
        rcases getVariable_none ps [] v xs hgv with ⟨hv1, hxs, hnv⟩ | ⟨s, a, b, hv1, hsv, hpsab, hxs, hnv⟩
        · -- no variable
          subst hv1
          simp only [List.reverse_nil, List.nil_append] at hxs
          subst hxs
          simp only at h
          cases h
          obtain ⟨hfin, _⟩ := ihL bs fa xs _ _ _ _ [] fxs' bsss fxas hcur
            (fun x hx => ⟨(hps x hx).1, (hps x hx).2, hnv x hx⟩) hinit hl
          obtain ⟨bss, hb1, hb2⟩ := List.mem_flatten.mp hr
          obtain ⟨mm, inv⟩ := hfin.mem hb1
          obtain ⟨hpost, L, hemb, _⟩ := inv.each r hb2
          exact ⟨hpost, Sat.arr (by simpa using hemb.toArrEmb)⟩
        · -- one variable `s`, `ps = a ++ s :: b`, `xs = a ++ b`
          subst hv1
          simp only [List.reverse_nil, List.nil_append] at hxs
          subst hxs
          subst hpsab
          have hxsOK : ∀ x ∈ a ++ b, x.plainPat = true ∧ varsOf x ⊆ vs ∧ isVarV x = false := by
            intro x hx
            have hx' : x ∈ a ++ V.str s :: b := by
              rcases List.mem_append.mp hx with h | h
              · exact List.mem_append_left _ h
              · exact List.mem_append_right _ (List.mem_cons_of_mem _ h)
            exact ⟨(hps x hx').1, (hps x hx').2, hnv x hx⟩
          obtain ⟨hfin, hsub⟩ := ihL bs fa (a ++ b) _ _ _ _ [] fxs' bsss fxas hcur hxsOK hinit hl
          simp only [List.nil_append] at hfin
          have hfxs' : ∀ sc ∈ fxs', sc.toV.good = true :=
            fun sc h => indexScalars_good hfa sc (hsub sc h)
          -- results of the loop alone (used when the optional variable is skipped)
          have hskip : isOptVar (.str s) = true → ∀ r ∈ bsss.flatten,
              Post vs bs r ∧ Sat bs₀ r (.arr (a ++ V.str s :: b)) (.arr fa) := by
            intro ho r hr
            obtain ⟨bss, hb1, hb2⟩ := List.mem_flatten.mp hr
            obtain ⟨mm, inv⟩ := hfin.mem hb1
            obtain ⟨hpost, L, hemb, _⟩ := inv.each r hb2
            exact ⟨hpost, Sat.arr (hemb.insert_skip ho).toArrEmb⟩
          simp only at h
          split at h
          · next r' hcat =>
            subst h
            exact absurd rfl (arraycat_inl _ _ _ _ _ hcat rs)
          · next bsss' fx' hcat =>
            have hsP := hps (.str s) (List.mem_append_right _ List.mem_cons_self)
            have hfin' := hfin.map_right (fun m => m ++ leftovers fxs' fa.length)
              (Q := FinInv bs₀ vs bs fa (a ++ b))
              (fun bss mm inv => inv.fin fa.length hfxs')
            have hstep := ihC (FinInv bs₀ vs bs fa (a ++ b)) bsss (.str s) _ bsss' fx' hsP.1 hsP.2
              (fun bss mm fin => ⟨fin.1, fun b hb => hcur.post (fin.2 b hb).1⟩) hfin' hcat
            split at h
            · next hc =>
              cases h
              simp only [Bool.and_eq_true] at hc
              exact hskip hc.2 r hr
            · cases h
              obtain ⟨acc, hb1, hb2⟩ := List.mem_flatten.mp hr
              obtain ⟨mm', bss, mm, fin, j, fact, hjm, _, hacc⟩ := hstep.mem hb1
              obtain ⟨b1, hb1', hpost1, hsat⟩ := hacc r hb2
              obtain ⟨hpost0, L, hemb, hpk⟩ := fin.2 b1 hb1'
              obtain ⟨L', hpick⟩ := hpk (j, fact) hjm
              exact ⟨hpost0.trans hpost1,
                Sat.arr ((hemb.mono hpost1.ext).insert hpick hsat).toArrEmb⟩
    · cases h; cases hr

end
