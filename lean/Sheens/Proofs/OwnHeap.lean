import Sheens.Own
import Sheens.Proofs.Permanent

/-!
# Heap lemmas for the ownership layer (C06)

The definitions the C06 theorems speak about (`Clean`, `KeepsClean`, `SameBelow`, `StateOk`) and
the basic facts about `Heap.get` / `alloc` / `set`, the relation `Grows` ("`h'` is a well-formed,
clean heap in which every map of `h` still has its content") and `Alloc` ("the address names a map
that exists").
-/

namespace Sheens.C06
open Own

/-- every cell holds a map without duplicate keys -/
def Clean (h : Heap) : Prop := ∀ c ∈ h.cells, NoDupKeys c.2

/-- actions and guards hand back clean heaps (a Go map cannot hold a key twice) -/
def KeepsClean (s : SpecH) : Prop :=
  ∀ kn ∈ s.nodes,
    (∀ a, kn.2.action = some a → ∀ h arg, Clean h → Clean (a.run h arg).1) ∧
    (∀ bs, kn.2.branches = some bs → ∀ b ∈ bs.branches, ∀ g, b.guard = some g →
        ∀ h arg, Clean h → Clean (g.run h arg).1)

/-- every map that existed in `h` has the same content in `h'` -/
def SameBelow (h h' : Heap) : Prop := ∀ x, x < h.next → h'.get x = h.get x

/-- the given state's map, if any, exists -/
def StateOk (h : Heap) (st : StateH) : Prop := ∀ x, st.bs = some x → x < h.next ∧ (h.get x).isSome

/-! ## `get` after `alloc` and `set` -/

theorem get_cons_self (cells : List (Addr × Bs)) (n a : Addr) (b : Bs) :
    Heap.get { cells := (a, b) :: cells, next := n } a = some b := by
  simp [Heap.get, List.find?]

theorem get_cons_ne (cells : List (Addr × Bs)) (n m a x : Addr) (b : Bs) (hne : x ≠ a) :
    Heap.get { cells := (a, b) :: cells, next := n } x = Heap.get { cells := cells, next := m } x := by
  have : (a == x) = false := by simpa using fun h => hne h.symm
  simp [Heap.get, List.find?, this]

theorem get_alloc_self (h : Heap) (b : Bs) : (h.alloc b).1.get h.next = some b :=
  get_cons_self _ _ _ _

theorem get_alloc_ne (h : Heap) (b : Bs) (x : Addr) (hne : x ≠ h.next) :
    (h.alloc b).1.get x = h.get x :=
  get_cons_ne _ _ _ _ _ _ hne

theorem get_set_self (h : Heap) (a : Addr) (b : Bs) : (h.set a b).get a = some b :=
  get_cons_self _ _ _ _

theorem get_set_ne (h : Heap) (a x : Addr) (b : Bs) (hne : x ≠ a) : (h.set a b).get x = h.get x :=
  get_cons_ne _ _ _ _ _ _ hne

theorem alloc_next (h : Heap) (b : Bs) : (h.alloc b).1.next = h.next + 1 := rfl
theorem alloc_addr (h : Heap) (b : Bs) : (h.alloc b).2 = h.next := rfl
theorem set_next (h : Heap) (a : Addr) (b : Bs) : (h.set a b).next = h.next := rfl

theorem get_mem {h : Heap} {a : Addr} {b : Bs} (hg : h.get a = some b) : (a, b) ∈ h.cells := by
  unfold Heap.get at hg
  split at hg
  · next c hc =>
    cases hg
    have h1 := List.mem_of_find?_eq_some hc
    have h2 := List.find?_some hc
    have : c.1 = a := by simpa using h2
    rw [← this]
    exact h1
  · cases hg

theorem get_lt {h : Heap} (hwf : h.WF) {a : Addr} {b : Bs} (hg : h.get a = some b) : a < h.next :=
  hwf _ (get_mem hg)

theorem clean_get {h : Heap} (hc : Clean h) {a : Addr} {b : Bs} (hg : h.get a = some b) :
    NoDupKeys b :=
  hc _ (get_mem hg)

/-! ## well-formed and clean heaps -/

/-- the heap is well formed and every map in it is duplicate-free -/
def Inv (h : Heap) : Prop := h.WF ∧ Clean h

theorem inv_alloc {h : Heap} (hi : Inv h) {b : Bs} (hb : NoDupKeys b) : Inv (h.alloc b).1 := by
  refine ⟨?_, ?_⟩
  · intro c hc
    rcases List.mem_cons.mp hc with hc | hc
    · subst hc; exact Nat.lt_succ_self _
    · exact Nat.lt_succ_of_lt (hi.1 c hc)
  · intro c hc
    rcases List.mem_cons.mp hc with hc | hc
    · subst hc; exact hb
    · exact hi.2 c hc

theorem inv_set {h : Heap} (hi : Inv h) {a : Addr} (ha : a < h.next) {b : Bs} (hb : NoDupKeys b) :
    Inv (h.set a b) := by
  refine ⟨?_, ?_⟩
  · intro c hc
    rcases List.mem_cons.mp hc with hc | hc
    · subst hc; exact ha
    · exact hi.1 c hc
  · intro c hc
    rcases List.mem_cons.mp hc with hc | hc
    · subst hc; exact hb
    · exact hi.2 c hc

/-- the address names a map that exists -/
def Alloc (h : Heap) (x : Addr) : Prop := x < h.next ∧ (h.get x).isSome

/-- a possibly-nil map is nil or exists -/
def OptAlloc (h : Heap) (oa : Option Addr) : Prop := ∀ x, oa = some x → Alloc h x

theorem optAlloc_none (h : Heap) : OptAlloc h none := fun _ hx => by cases hx
theorem optAlloc_some {h : Heap} {x : Addr} (hx : Alloc h x) : OptAlloc h (some x) :=
  fun _ hy => by cases hy; exact hx

theorem Alloc.get_eq {h : Heap} {x : Addr} (hx : Alloc h x) : h.get x = some ((h.get x).getD []) := by
  have := hx.2
  cases hg : h.get x with
  | none => rw [hg] at this; cases this
  | some b => rfl

theorem alloc_alloc_self (h : Heap) (b : Bs) : Alloc (h.alloc b).1 h.next :=
  ⟨Nat.lt_succ_self _, by rw [get_alloc_self]; rfl⟩

/-! ## `Grows` -/

/-- `h'` is well formed and clean, nothing was freed, and every map of `h` has its content -/
structure Grows (h h' : Heap) : Prop where
  inv  : Inv h'
  mono : h.next ≤ h'.next
  same : SameBelow h h'

theorem Grows.refl {h : Heap} (hi : Inv h) : Grows h h := ⟨hi, Nat.le_refl _, fun _ _ => rfl⟩

theorem Grows.trans {a b c : Heap} (h1 : Grows a b) (h2 : Grows b c) : Grows a c :=
  ⟨h2.inv, Nat.le_trans h1.mono h2.mono,
   fun x hx => by rw [h2.same x (Nat.lt_of_lt_of_le hx h1.mono), h1.same x hx]⟩

theorem Grows.alloc {h : Heap} (hi : Inv h) {b : Bs} (hb : NoDupKeys b) : Grows h (h.alloc b).1 :=
  ⟨inv_alloc hi hb, Nat.le_succ _, fun x hx => get_alloc_ne h b x (Nat.ne_of_lt hx)⟩

/-- a write into a map that did not exist in `base` -/
theorem Grows.set_fresh {base h : Heap} (hg : Grows base h) {a : Addr} (h1 : base.next ≤ a)
    (h2 : a < h.next) {b : Bs} (hb : NoDupKeys b) : Grows base (h.set a b) :=
  ⟨inv_set hg.inv h2 hb, hg.mono,
   fun x hx => by rw [get_set_ne h a x b (Nat.ne_of_lt (Nat.lt_of_lt_of_le hx h1)), hg.same x hx]⟩

/-- a write that puts back what was there -/
theorem Grows.set_same {h : Heap} (hi : Inv h) {a : Addr} {b : Bs} (hg : h.get a = some b) :
    Grows h (h.set a b) :=
  ⟨inv_set hi (get_lt hi.1 hg) (clean_get hi.2 hg), Nat.le_refl _,
   fun x _ => by
     by_cases hx : x = a
     · subst hx; rw [get_set_self, hg]
     · exact get_set_ne h a x b hx⟩

theorem Grows.get {h h' : Heap} (hg : Grows h h') {x : Addr} (hx : x < h.next) : h'.get x = h.get x :=
  hg.same x hx

theorem Grows.alloc_of {h h' : Heap} (hg : Grows h h') {x : Addr} (hx : Alloc h x) : Alloc h' x :=
  ⟨Nat.lt_of_lt_of_le hx.1 hg.mono, by rw [hg.same x hx.1]; exact hx.2⟩

theorem Grows.optAlloc {h h' : Heap} (hg : Grows h h') {oa : Option Addr} (hx : OptAlloc h oa) :
    OptAlloc h' oa := fun x hy => hg.alloc_of (hx x hy)

theorem Grows.content {h h' : Heap} (hg : Grows h h') {oa : Option Addr} (hx : OptAlloc h oa) :
    content h' oa = content h oa := by
  cases oa with
  | none => rfl
  | some x => exact hg.same x (hx x rfl).1

theorem content_some (h : Heap) (a : Addr) : content h (some a) = h.get a := rfl
theorem content_none (h : Heap) : content h none = none := rfl

/-! ## `restore` of bindings that are already there -/

theorem insertB_of_mem_nodup {k : String} {v : V} {bs : Bs} (hnd : NoDupKeys bs) (h : (k, v) ∈ bs) :
    insertB k v bs = bs := by
  induction bs with
  | nil => cases h
  | cons kv rest ih =>
    obtain ⟨k', v'⟩ := kv
    obtain ⟨h1, h2⟩ := List.pairwise_cons.mp hnd
    simp only [insertB]
    rcases List.mem_cons.mp h with h | h
    · cases h; simp
    · split
      · next heq => exact absurd heq.symm (h1 (k, v) h)
      · rw [ih h2 h]

theorem restore_of_subset {perm bs : Bs} (hnd : NoDupKeys bs) (h : ∀ kv ∈ perm, kv ∈ bs) :
    restore perm bs = bs := by
  induction perm with
  | nil => rfl
  | cons kv rest ih =>
    rw [restore_cons, insertB_of_mem_nodup hnd (h kv List.mem_cons_self)]
    exact ih (fun x hx => h x (List.mem_cons_of_mem _ hx))

/-- writing the permanent bindings of a duplicate-free map back into it changes nothing -/
theorem restore_permanentOf_self {bs : Bs} (hnd : NoDupKeys bs) : restore (permanentOf bs) bs = bs :=
  restore_of_subset hnd (fun _ hkv => (List.mem_filter.mp hkv).1)

/-! ## `allocAll` -/

/-- the content of a list of maps -/
def contents (h : Heap) (cs : List Addr) : List Bs := cs.map (fun c => (h.get c).getD [])

theorem allocAll_spec (l : List Bs) : ∀ (h : Heap), Inv h → (∀ b ∈ l, NoDupKeys b) →
    Grows h (allocAll h l).1 ∧
    (∀ x ∈ (allocAll h l).2, Alloc (allocAll h l).1 x ∧ h.next ≤ x) ∧
    contents (allocAll h l).1 (allocAll h l).2 = l := by
  induction l with
  | nil => intro h hi _; exact ⟨Grows.refl hi, fun x hx => (by cases hx), rfl⟩
  | cons b rest ih =>
    intro h hi hnd
    have hb := hnd b List.mem_cons_self
    have g1 : Grows h (h.alloc b).1 := Grows.alloc hi hb
    obtain ⟨g2, ha, hc⟩ := ih (h.alloc b).1 g1.inv (fun x hx => hnd x (List.mem_cons_of_mem _ hx))
    have e : allocAll h (b :: rest) =
        ((allocAll (h.alloc b).1 rest).1, h.next :: (allocAll (h.alloc b).1 rest).2) := rfl
    rw [e]
    refine ⟨g1.trans g2, ?_, ?_⟩
    · intro x hx
      rcases List.mem_cons.mp hx with hx | hx
      · subst hx
        exact ⟨g2.alloc_of (alloc_alloc_self h b), Nat.le_refl _⟩
      · exact ⟨(ha x hx).1, Nat.le_trans (Nat.le_succ _) (ha x hx).2⟩
    · simp only [contents, List.map_cons] at hc ⊢
      rw [hc, g2.same _ (Nat.lt_succ_self _), get_alloc_self]
      rfl

end Sheens.C06
