import Sheens.Proofs.OwnStepH

/-!
# `walkH`: frame, freshness and refinement of a whole walk (C06)

`walkStrideH` is cut into the stride made up when `Step` returned none (`baseStrideH`) and the
transition to the error node (`errStrideH`), as the text reads (`walkStrideH_eq` is `rfl`); so is the
pure `walkStride`.  `StrideOk n0 h sd` says: the maps of the stride's `From` and `To` exist in `h`,
were handed out at or after `n0`, and are two different maps.  Along `Grows` such a stride keeps its
reading (`StrideOk.abs_eq`), which is what lets `walkLoopH_spec` read every stride through the last
heap.
-/

namespace Sheens.C06
open Own

/-! ## strides whose maps exist -/

/-- the maps of `From` and `To` exist in `h`, were handed out at or after `n0`, and differ -/
def StrideOk (n0 : Nat) (h : Heap) (sd : StrideH) : Prop :=
  (∃ a, sd.frm.bs = some a ∧ n0 ≤ a ∧ Alloc h a) ∧
  (∀ t, sd.to = some t → ∃ b, t.bs = some b ∧ n0 ≤ b ∧ sd.frm.bs ≠ some b ∧ Alloc h b)

theorem stateAbs_eq {h h' : Heap} (g : Grows h h') {st : StateH} (hst : OptAlloc h st.bs) :
    st.abs h' = st.abs h := by
  simp only [StateH.abs, g.content hst]

theorem StrideOk.grows {n0 : Nat} {h h' : Heap} {sd : StrideH} (g : Grows h h')
    (hk : StrideOk n0 h sd) : StrideOk n0 h' sd := by
  obtain ⟨⟨a, h1, h2, h3⟩, hto⟩ := hk
  refine ⟨⟨a, h1, h2, g.alloc_of h3⟩, ?_⟩
  intro t ht
  obtain ⟨b, hb1, hb2, hb3, hb4⟩ := hto t ht
  exact ⟨b, hb1, hb2, hb3, g.alloc_of hb4⟩

theorem StrideOk.base {n0 n1 : Nat} {h : Heap} {sd : StrideH} (hle : n0 ≤ n1)
    (hk : StrideOk n1 h sd) : StrideOk n0 h sd := by
  obtain ⟨⟨a, h1, h2, h3⟩, hto⟩ := hk
  refine ⟨⟨a, h1, Nat.le_trans hle h2, h3⟩, ?_⟩
  intro t ht
  obtain ⟨b, hb1, hb2, hb3, hb4⟩ := hto t ht
  exact ⟨b, hb1, Nat.le_trans hle hb2, hb3, hb4⟩

/-- a stride whose maps exist reads the same through every later heap -/
theorem StrideOk.abs_eq {n0 : Nat} {h h' : Heap} {sd : StrideH} (g : Grows h h')
    (hk : StrideOk n0 h sd) : StrideH.abs h' sd = StrideH.abs h sd := by
  obtain ⟨⟨a, ha, _, haa⟩, hto⟩ := hk
  have h1 : sd.frm.abs h' = sd.frm.abs h :=
    stateAbs_eq g (by rw [ha]; exact optAlloc_some haa)
  have h2 : sd.to.map (StateH.abs h') = sd.to.map (StateH.abs h) := by
    cases hsd : sd.to with
    | none => rfl
    | some t =>
      obtain ⟨b, hb, _, _, hbb⟩ := hto t hsd
      simp only [Option.map_some]
      rw [stateAbs_eq g (by rw [hb]; exact optAlloc_some hbb)]
  simp only [StrideH.abs, h1, h2]

theorem map_abs_eq {n0 : Nat} {h h' : Heap} (g : Grows h h') : ∀ {l : List StrideH},
    (∀ sd ∈ l, StrideOk n0 h sd) → l.map (StrideH.abs h') = l.map (StrideH.abs h) := by
  intro l
  induction l with
  | nil => intro _; rfl
  | cons x rest ih =>
    intro hl
    simp only [List.map_cons]
    rw [(hl x List.mem_cons_self).abs_eq g, ih (fun sd hsd => hl sd (List.mem_cons_of_mem _ hsd))]

/-! ## the pieces of `walkStrideH` -/

/-- `stride == nil: stride = NewStride(); stride.From = st.Copy()` -/
def baseStrideH (st : StateH) (o : Option StrideH) (h1 : Heap) : Heap × StrideH :=
  match o with
  | some x => (h1, x)
  | none =>
    let (hh, fa) := copyH h1 st.bs
    (hh, { frm := { node := st.node, bs := some fa }, to := none, consumed := none, emitted := [] })

/-- the transition to the error node, heap level -/
def errStrideH (s : SpecH) (st : StateH) (e : StepErr) (stride : StrideH) (h2 : Heap) : Heap × StrideH :=
  let (h3, b) := copyH h2 st.bs
  let h4 := writeH (writeH (writeH h3 b "error" (.str (errText s.name e)))
                        b "lastNode" (.str st.node))
                  b "lastBindings" (.obj (copyB (content h3 st.bs)))
  (h4, { stride with to := some { node := "error", bs := some b } })

theorem walkStrideH_eq (s : SpecH) (st : StateH) (pending : Option V) (h : Heap) :
    walkStrideH s st pending h =
      match stepH s st pending h with
      | (h1, out) =>
        match baseStrideH st out.stride h1 with
        | (h2, stride) =>
          match out.err with
          | none => (h2, stride)
          | some e => if st.node == "error" then (h2, stride) else errStrideH s st e stride h2 := rfl

def baseStride (st : State) (o : Option Stride) : Stride :=
  match o with
  | some x => x
  | none => { frm := stateCopy st, to := none, consumed := none, emitted := [] }

/-- the bindings of the error state a walk makes up -/
def errBs (name : String) (st : State) (e : StepErr) : Bs :=
  insertB "lastBindings" (.obj (copyB st.bs))
    (insertB "lastNode" (.str st.node)
      (insertB "error" (.str (errText name e)) (copyB st.bs)))

theorem walkStride_eq (s : Spec) (st : State) (pending : Option V) :
    walkStride s st pending =
      match (step s st pending).err with
      | none => baseStride st (step s st pending).stride
      | some e =>
        if st.node == "error" then baseStride st (step s st pending).stride
        else { baseStride st (step s st pending).stride with
                 to := some { node := "error", bs := some (errBs s.name st e) } } := rfl

theorem baseStrideH_spec {h h1 : Heap} (g : Grows h h1) {st : StateH} (hst : OptAlloc h st.bs)
    {o : Option StrideH}
    (ho : ∀ sd, o = some sd → sd.frm.bs = some h.next ∧ Alloc h1 h.next ∧
       ∀ t, sd.to = some t → ∃ b, t.bs = some b ∧ h.next < b ∧ Alloc h1 b)
    {h2 : Heap} {sd : StrideH} (hr : baseStrideH st o h1 = (h2, sd)) :
    Grows h1 h2 ∧ StrideOk h.next h2 sd ∧
    StrideH.abs h2 sd = baseStride (st.abs h) (o.map (StrideH.abs h1)) := by
  unfold baseStrideH at hr
  cases o with
  | some x =>
    obtain ⟨f1, f2, f3⟩ := ho x rfl
    simp only at hr
    cases hr
    refine ⟨Grows.refl g.inv, ⟨⟨h.next, f1, Nat.le_refl _, f2⟩, ?_⟩, rfl⟩
    intro t ht
    obtain ⟨b, hb1, hb2, hb3⟩ := f3 t ht
    refine ⟨b, hb1, Nat.le_of_lt hb2, ?_, hb3⟩
    rw [f1]
    intro heq
    cases heq
    exact Nat.lt_irrefl _ hb2
  | none =>
    simp only at hr
    obtain ⟨g2, hx, hgx, hnx⟩ := copyH_spec g.inv st.bs
    generalize copyH h1 st.bs = q at hr g2 hx hgx hnx
    obtain ⟨hh, fa⟩ := q
    simp only at hr g2 hx hgx hnx
    subst hx
    cases hr
    refine ⟨g2, ⟨⟨h1.next, rfl, g.mono, alloc_of_get g2.inv hgx⟩, fun t ht => by cases ht⟩, ?_⟩
    simp only [StrideH.abs, StateH.abs, content_some, hgx, g.content hst, Option.map_none, baseStride,
      stateCopy]

theorem errStrideH_spec (s : SpecH) {h h2 : Heap} (g : Grows h h2) {st : StateH}
    (hst : OptAlloc h st.bs) (e : StepErr) {stride : StrideH} (hok : StrideOk h.next h2 stride)
    {h4 : Heap} {sd : StrideH} (hr : errStrideH s st e stride h2 = (h4, sd)) :
    Grows h2 h4 ∧ StrideOk h.next h4 sd ∧
    StrideH.abs h4 sd =
      { StrideH.abs h2 stride with
          to := some { node := "error", bs := some (errBs s.abs.name (st.abs h) e) } } := by
  unfold errStrideH at hr
  obtain ⟨g3, hx, hgx, hnx⟩ := copyH_spec g.inv st.bs
  generalize copyH h2 st.bs = q at hr g3 hx hgx hnx
  obtain ⟨h3, b⟩ := q
  simp only at hr g3 hx hgx hnx
  subst hx
  cases hr
  obtain ⟨g4, hg4, _⟩ := writeH_spec g3 (Nat.le_refl _) hgx "error" (.str (errText s.name e))
  obtain ⟨g5, hg5, _⟩ := writeH_spec g4 (Nat.le_refl _) hg4 "lastNode" (.str st.node)
  obtain ⟨g6, hg6, _⟩ := writeH_spec g5 (Nat.le_refl _) hg5 "lastBindings"
    (.obj (copyB (content h3 st.bs)))
  obtain ⟨⟨a, ha1, ha2, ha3⟩, _⟩ := hok
  have hfrm : stride.frm.abs
      (writeH (writeH (writeH h3 h2.next "error" (.str (errText s.name e)))
                 h2.next "lastNode" (.str st.node))
         h2.next "lastBindings" (.obj (copyB (content h3 st.bs)))) = stride.frm.abs h2 :=
    stateAbs_eq g6 (by rw [ha1]; exact optAlloc_some ha3)
  refine ⟨g6, ⟨⟨a, ha1, ha2, g6.alloc_of ha3⟩, ?_⟩, ?_⟩
  · intro t ht
    cases ht
    refine ⟨h2.next, rfl, g.mono, ?_, alloc_of_get g6.inv hg6⟩
    rw [ha1]
    intro heq
    cases heq
    exact Nat.lt_irrefl _ ha3.1
  · simp only [StrideH.abs, Option.map_some, hfrm]
    simp only [StateH.abs, content_some]
    rw [hg6]
    simp only [(g.trans g3).content hst, g.content hst, errBs]
    rfl

/-- everything about one iteration of `Spec.Walk` at heap level -/
theorem walkStrideH_spec (s : SpecH) (hs : s.Good) (hk : KeepsClean s) (st : StateH)
    (pending : Option V) {h : Heap} (hi : Inv h) (hst : OptAlloc h st.bs) {h' : Heap} {sd : StrideH}
    (hr : walkStrideH s st pending h = (h', sd)) :
    Grows h h' ∧ StrideOk h.next h' sd ∧
    StrideH.abs h' sd = walkStride s.abs (st.abs h) pending := by
  rw [walkStrideH_eq] at hr
  rw [walkStride_eq]
  cases hstep : stepH s st pending h with
  | mk h1 out =>
  obtain ⟨g1, hab, hfr⟩ := stepH_spec s hs hk st pending hi hst hstep
  rw [hstep] at hr
  simp only at hr
  have hstr : (step s.abs (st.abs h) pending).stride = out.stride.map (StrideH.abs h1) := by
    rw [← hab]; rfl
  have herr : (step s.abs (st.abs h) pending).err = out.err := by rw [← hab]; rfl
  rw [hstr, herr]
  cases hb : baseStrideH st out.stride h1 with
  | mk h2 stride =>
  obtain ⟨g2, hok, habs⟩ := baseStrideH_spec g1 hst hfr hb
  rw [hb] at hr
  simp only at hr
  rw [← habs]
  have g12 := g1.trans g2
  cases he : out.err with
  | none =>
    simp only [he] at hr ⊢
    cases hr
    exact ⟨g12, hok, rfl⟩
  | some e =>
    simp only [he] at hr ⊢
    have hnode : (st.abs h).node = st.node := rfl
    rw [hnode]
    rcases Bool.eq_false_or_eq_true (st.node == "error") with hn | hn
    · simp only [hn, if_true] at hr ⊢
      cases hr
      exact ⟨g12, hok, rfl⟩
    · simp only [hn, Bool.false_eq_true, if_false] at hr ⊢
      obtain ⟨g3, hok3, habs3⟩ := errStrideH_spec s g12 hst e hok hr
      exact ⟨g12.trans g3, hok3, habs3⟩

/-! ## the loop -/

theorem strideAbs_consumed (h : Heap) (sd : StrideH) : (StrideH.abs h sd).consumed = sd.consumed := rfl
theorem strideAbs_to (h : Heap) (sd : StrideH) : (StrideH.abs h sd).to = sd.to.map (StateH.abs h) := rfl

theorem walkLoopH_spec (s : SpecH) (hs : s.Good) (hk : KeepsClean s) (bp : State → Bool) (n0 : Nat) :
    ∀ (i : Nat) (st : StateH) (pendings : List V) (acc : List StrideH) (h : Heap),
      Inv h → OptAlloc h st.bs → n0 ≤ h.next → (∀ sd ∈ acc, StrideOk n0 h sd) →
      Grows h (walkLoopH s bp i st pendings acc h).1 ∧
      (∀ sd ∈ (walkLoopH s bp i st pendings acc h).2.strides,
         StrideOk n0 (walkLoopH s bp i st pendings acc h).1 sd) ∧
      (walkLoopH s bp i st pendings acc h).2.abs (walkLoopH s bp i st pendings acc h).1 =
        walkLoop s.abs bp i (st.abs h) pendings (acc.map (StrideH.abs h)) := by
  intro i
  induction i with
  | zero =>
    intro st pendings acc h hi _ _ hacc
    refine ⟨Grows.refl hi, ?_, ?_⟩
    · intro sd hsd
      exact hacc sd (List.mem_reverse.mp hsd)
    · simp only [walkLoopH, walkLoop, WalkedH.abs, List.map_reverse]
  | succ i ih =>
    intro st pendings acc h hi hst hn0 hacc
    have stop : ∀ (h1 : Heap) (sd : StrideH) (r : StopReason) (rem : List V), Grows h h1 →
        StrideOk h.next h1 sd →
        StrideH.abs h1 sd = walkStride s.abs (st.abs h) (pendingOf pendings) →
        Grows h h1 ∧
        (∀ x ∈ (sd :: acc).reverse, StrideOk n0 h1 x) ∧
        WalkedH.abs h1 { strides := (sd :: acc).reverse, remaining := rem, stopped := r } =
          { strides := (walkStride s.abs (st.abs h) (pendingOf pendings) ::
                          acc.map (StrideH.abs h)).reverse,
            remaining := rem, stopped := r } := by
      intro h1 sd r rem g1 hok habs
      refine ⟨g1, ?_, ?_⟩
      · intro x hx
        rcases List.mem_cons.mp (List.mem_reverse.mp hx) with hx | hx
        · subst hx; exact hok.base hn0
        · exact (hacc x hx).grows g1
      · simp only [WalkedH.abs, List.map_reverse, List.map_cons, habs, map_abs_eq g1 hacc]
    simp only [walkLoopH, walkLoop]
    rcases Bool.eq_false_or_eq_true (bp (st.abs h)) with hb | hb
    · simp only [hb, if_true]
      refine ⟨Grows.refl hi, ?_, ?_⟩
      · intro sd hsd
        exact hacc sd (List.mem_reverse.mp hsd)
      · simp only [WalkedH.abs, List.map_reverse]
    · simp only [hb, Bool.false_eq_true, if_false]
      cases hw : walkStrideH s st (pendingOf pendings) h with
      | mk h1 stride =>
      obtain ⟨g1, hok, habs⟩ := walkStrideH_spec s hs hk st (pendingOf pendings) hi hst hw
      simp only
      have hcons : (walkStride s.abs (st.abs h) (pendingOf pendings)).consumed = stride.consumed := by
        rw [← habs]; rfl
      have hto : (walkStride s.abs (st.abs h) (pendingOf pendings)).to =
          stride.to.map (StateH.abs h1) := by
        rw [← habs]; rfl
      rw [hcons, hto]
      have hn1 : n0 ≤ h1.next := Nat.le_trans hn0 g1.mono
      have hacc1 : ∀ x ∈ stride :: acc, StrideOk n0 h1 x := by
        intro x hx
        rcases List.mem_cons.mp hx with hx | hx
        · subst hx; exact hok.base hn0
        · exact (hacc x hx).grows g1
      have hmap1 : (stride :: acc).map (StrideH.abs h1) =
          walkStride s.abs (st.abs h) (pendingOf pendings) :: acc.map (StrideH.abs h) := by
        simp only [List.map_cons, habs, map_abs_eq g1 hacc]
      generalize (if stride.consumed.isSome then pendings.drop 1 else pendings) = pendings'
      cases hsto : stride.to with
      | none =>
        simp only [Option.map_none]
        rcases Bool.eq_false_or_eq_true pendings'.isEmpty with hp | hp
        · simp only [hp, if_true]
          exact stop h1 stride _ _ g1 hok habs
        · simp only [hp, Bool.false_eq_true, if_false]
          rcases Bool.eq_false_or_eq_true stride.consumed.isNone with hcn | hcn
          · simp only [hcn, if_true]
            exact stop h1 stride _ _ g1 hok habs
          · simp only [hcn, Bool.false_eq_true, if_false]
            obtain ⟨g2, hall, hab2⟩ :=
              ih st pendings' (stride :: acc) h1 g1.inv (g1.optAlloc hst) hn1 hacc1
            refine ⟨g1.trans g2, hall, ?_⟩
            rw [hab2, hmap1, stateAbs_eq g1 hst]
      | some to =>
        simp only [Option.map_some]
        obtain ⟨b, hb1, _, _, hb4⟩ := hok.2 to hsto
        obtain ⟨g2, hx, hgx, hnx⟩ := copyH_spec g1.inv to.bs
        generalize copyH h1 to.bs = q at g2 hx hgx hnx ⊢
        obtain ⟨h2, a⟩ := q
        simp only at g2 hx hgx hnx ⊢
        subst hx
        have g12 := g1.trans g2
        obtain ⟨g3, hall, hab3⟩ :=
          ih { node := to.node, bs := some h1.next } pendings' (stride :: acc) h2
            g2.inv (optAlloc_some (alloc_of_get g2.inv hgx)) (Nat.le_trans hn1 g2.mono)
            (fun x hx => (hacc1 x hx).grows g2)
        refine ⟨g12.trans g3, hall, ?_⟩
        rw [hab3, map_abs_eq g2 hacc1, hmap1]
        simp only [StateH.abs, content_some, hgx, stateCopy]

end Sheens.C06
