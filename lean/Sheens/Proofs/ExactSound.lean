import Sheens.Proofs.ExactBasic

/-!
# Exact soundness, part 2: everything except the array arm

The same simultaneous induction as `MatchSound.lean`, with `Emb []` for `Sat` and the freshness
invariant (`Fresh`) for `Cur`.  `matchBound` is never reached.
-/

namespace Sheens.Exact

open Sheens.Complete (varsOfList_append varsOf_str_var varsOfList_split varsOfList_mem_sub)

def XMatch (n : Nat) : Prop :=
  ∀ p f bs rs, p.plainPat = true → f.good = true → Lin (varsOf p) → PV (varsOf p) →
    Fresh (varsOf p) bs →
    matchF n p f bs = .ok rs → ∀ r ∈ rs, XPost (varsOf p) bs r ∧ Emb [] r p f
def XObj (n : Nat) : Prop :=
  ∀ pm f bs rs, plainPatKvs pm = true → f.good = true → Lin (varsOfKvs pm) → PV (varsOfKvs pm) →
    Fresh (varsOfKvs pm) bs →
    matchObj n pm f bs = .ok rs → ∀ r ∈ rs, XPost (varsOfKvs pm) bs r ∧ Emb [] r (.obj pm) f
def XArr (n : Nat) : Prop :=
  ∀ ps f bs rs, plainPatList ps = true → f.good = true → Lin (varsOfList ps) →
    PV (varsOfList ps) → Fresh (varsOfList ps) bs →
    matchArr n ps f bs = .ok rs → ∀ r ∈ rs, XPost (varsOfList ps) bs r ∧ Emb [] r (.arr ps) f
def XWith (n : Nat) : Prop :=
  ∀ bss p f rs, p.plainPat = true → f.good = true → Lin (varsOf p) → PV (varsOf p) →
    (∀ bs ∈ bss, Fresh (varsOf p) bs) →
    matchWith n bss p f = .ok rs → ∀ r ∈ rs, ∃ bs ∈ bss, XPost (varsOf p) bs r ∧ Emb [] r p f
def XMapcat (n : Nat) : Prop :=
  ∀ bss pm fm rs, plainPatKvs pm = true → goodKvs fm = true → Lin (varsOfKvs pm) →
    PV (varsOfKvs pm) → (∀ bs ∈ bss, Fresh (varsOfKvs pm) bs) →
    mapcat n bss pm fm = .ok rs →
    ∀ r ∈ rs, ∃ bs ∈ bss, XPost (varsOfKvs pm) bs r ∧ ObjEmb [] r pm fm
def XGather (n : Nat) : Prop :=
  ∀ bss k v fm rs, v.plainPat = true → (∀ kv ∈ fm, isVar kv.1 = false ∧ kv.2.good = true) →
    isVar k = true → Lin ([k] ++ varsOf v) → PV ([k] ++ varsOf v) →
    (∀ bs ∈ bss, Fresh ([k] ++ varsOf v) bs) →
    propGather n bss k v fm = .ok rs → ∀ r ∈ rs, ∃ bs ∈ bss, XPost ([k] ++ varsOf v) bs r ∧
      ∃ fk fv, (fk, fv) ∈ fm ∧ VarAt [] r k (.str fk) ∧ Emb [] r v fv

/-- the `case string` arm needs no induction hypothesis: the variable is unbound -/
theorem x_str (n : Nat) (s : String) (f : V) (bs : Bs) (rs : List Bs)
    (hpv : PV (varsOf (.str s))) (hfr : Fresh (varsOf (.str s)) bs)
    (h : matchStr n s f bs = .ok rs) :
    ∀ r ∈ rs, XPost (varsOf (.str s)) bs r ∧ Emb [] r (.str s) f := by
  intro r hr
  cases n with
  | zero => simp [matchStr] at h
  | succ n =>
    have here : XPost (varsOf (.str s)) bs bs := XPost.refl _ _
    simp only [matchStr] at h
    split at h
    · next hc =>
      have hc' : isVar s = false := by simpa using hc
      split at h
      · next t =>
        split at h
        · next heq =>
          cases h; simp at hr; subst hr; subst heq
          exact ⟨here, Emb.scalar (isScalarConst_of_const hc') rfl⟩
        · cases h; cases hr
      · cases h; cases hr
    · next hv =>
      have hv' : isVar s = true := by simpa using hv
      rw [varsOf_str_var hv'] at hpv hfr here ⊢
      split at h
      · next ha =>
        cases h; simp at hr; subst hr
        exact ⟨here, Emb.var hv' (Or.inl ha)⟩
      · next ha =>
        have ha' : isAnon s = false := by simpa using ha
        rw [inequal_plain (hpv s List.mem_cons_self).2] at h
        simp only at h
        rw [hfr s List.mem_cons_self ha'] at h
        simp only at h
        cases h; simp at hr; subst hr
        refine ⟨⟨extends_cons_fresh (hfr s List.mem_cons_self ha'), ?_⟩,
          Emb.var hv' (varAt_cons ha')⟩
        intro k hk
        simp only [lookup] at hk
        split at hk
        · next hks => subst hks; exact Or.inr ⟨List.mem_cons_self, ha'⟩
        · exact Or.inl hk

theorem x_with_step {n : Nat} (ihM : XMatch n) (ihW : XWith n) : XWith (n+1) := by
  intro bss p f rs hp hg hl hpv hbss h r hr
  cases bss with
  | nil => simp [matchWith] at h; subst h; cases hr
  | cons bs rest =>
    simp only [matchWith] at h
    split at h
    · next r1 h1 =>
      split at h
      · next r2 h2 =>
        cases h
        rcases List.mem_append.mp hr with hr | hr
        · exact ⟨bs, List.mem_cons_self,
            ihM p f bs r1 hp hg hl hpv (hbss bs List.mem_cons_self) h1 r hr⟩
        · obtain ⟨b, hb, hx⟩ := ihW rest p f r2 hp hg hl hpv
            (fun b hb => hbss b (List.mem_cons_of_mem _ hb)) h2 r hr
          exact ⟨b, List.mem_cons_of_mem _ hb, hx⟩
      · next hne => rename_i e; cases e <;> simp_all
    · next hne => rename_i e; cases e <;> simp_all

/-- an optional-variable pattern has an optional variable -/
theorem not_opt_of_pv {v : V} (hpv : PV (varsOf v)) : isOptVar v = false := by
  cases ho : isOptVar v with
  | false => rfl
  | true =>
    cases v with
    | str s =>
      have hv : isVar s = true := by
        simp only [isOptVar] at ho
        unfold isVar
        split at ho
        · next heq => rw [heq]; rfl
        · cases ho
      have := (hpv s (by rw [varsOf_str_var hv]; exact List.mem_cons_self)).1
      rw [this] at ho; cases ho
    | _ => simp [isOptVar] at ho

theorem x_mapcat_step {n : Nat} (ihW : XWith n) (ihC : XMapcat n) : XMapcat (n+1) := by
  intro bss pm fm rs hp hg hl hpv hbss h r hr
  cases pm with
  | nil =>
    simp only [mapcat] at h; cases h
    exact ⟨r, hr, XPost.refl _ _, ObjEmb.nil⟩
  | cons kv rest =>
    obtain ⟨k, v⟩ := kv
    simp only [plainPatKvs, Bool.and_eq_true] at hp
    simp only [mapcat] at h
    split at h
    · cases h
    · next hk =>
      have hk' : isVar k = false := by simpa using hk
      have hvars : varsOfKvs ((k, v) :: rest) = varsOf v ++ varsOfKvs rest := by
        simp [varsOfKvs, hk']
      rw [hvars] at hl hpv hbss ⊢
      have hpvv : PV (varsOf v) := hpv.sub (fun _ hx => List.mem_append_left _ hx)
      have hpvr : PV (varsOfKvs rest) := hpv.sub (fun _ hx => List.mem_append_right _ hx)
      split at h
      · next hlk =>
        split at h
        · next ho => rw [not_opt_of_pv hpvv] at ho; cases ho
        · cases h; cases hr
      · next fv hlk =>
        have hfv : fv.good = true := good_lookup hg hlk
        split at h
        · cases h; cases hr
        · next acc hne hacc =>
          have hAcc := ihW bss v fv acc hp.1.1 hfv hl.left hpvv
            (fun b hb => (hbss b hb).sub (fun _ hx => List.mem_append_left _ hx)) hacc
          have hAccFr : ∀ b ∈ acc, Fresh (varsOfKvs rest) b := fun b hb => by
            obtain ⟨b0, hb0, hpost, _⟩ := hAcc b hb
            exact (hbss b0 hb0).step hl hpost
          obtain ⟨b1, hb1, hpost1, hs1⟩ := ihC acc rest fm rs hp.2 hg hl.right hpvr hAccFr h r hr
          obtain ⟨b0, hb0, hpost0, hs0⟩ := hAcc b1 hb1
          exact ⟨b0, hb0, hpost0.seq hpost1,
            ObjEmb.present hk' hlk (Emb.mono hpost1.ext hs0) hs1⟩
        · next hne1 hne2 => rename_i e; cases e <;> simp_all

theorem x_gather_step {n : Nat} (ihW : XWith n) (ihG : XGather n) : XGather (n+1) := by
  intro bss k v fm rs hp hfm hk hl hpv hbss h r hr
  cases fm with
  | nil => simp only [propGather] at h; cases h; cases hr
  | cons kv rest =>
    obtain ⟨fk, fv⟩ := kv
    have hfk := hfm (fk, fv) List.mem_cons_self
    have hrest : ∀ kv ∈ rest, isVar kv.1 = false ∧ kv.2.good = true :=
      fun kv hm => hfm kv (List.mem_cons_of_mem _ hm)
    have hkvars : varsOf (.str k) = [k] := varsOf_str_var hk
    simp only [propGather] at h
    split at h
    · next ext hext =>
      have hExt := ihW bss (.str k) (.str fk) ext rfl (by simpa [V.good] using hfk.1)
        (by rw [hkvars]; exact hl.left)
        (by rw [hkvars]; exact hpv.sub (fun _ hx => List.mem_append_left _ hx))
        (by rw [hkvars]; exact fun b hb => (hbss b hb).sub (fun _ hx => List.mem_append_left _ hx))
        hext
      rw [hkvars] at hExt
      split at h
      · next ext2 hext2 =>
        split at h
        · next more hmore =>
          cases h
          rcases List.mem_append.mp hr with hr | hr
          · split at hext2
            · cases hext2; cases hr
            · have hExtFr : ∀ b ∈ ext, Fresh (varsOf v) b := fun b hb => by
                obtain ⟨b0, hb0, hpost, _⟩ := hExt b hb
                exact (hbss b0 hb0).step hl hpost
              obtain ⟨b1, hb1, hpost1, hs1⟩ := ihW ext v fv ext2 hp hfk.2 hl.right
                (hpv.sub (fun _ hx => List.mem_append_right _ hx)) hExtFr hext2 r hr
              obtain ⟨b0, hb0, hpost0, hs0⟩ := hExt b1 hb1
              exact ⟨b0, hb0, hpost0.seq hpost1, fk, fv, List.mem_cons_self,
                (Emb.var_inv hk hs0).mono hpost1.ext, hs1⟩
          · obtain ⟨b, hb, hpost, fk', fv', hm, h1, h2⟩ :=
              ihG bss k v rest more hp hrest hk hl hpv hbss hmore r hr
            exact ⟨b, hb, hpost, fk', fv', List.mem_cons_of_mem _ hm, h1, h2⟩
        · next hne => rename_i e; cases e <;> simp_all
      · next hne => rename_i e; cases e <;> simp_all
    · next hne => rename_i e; cases e <;> simp_all

theorem x_obj_step {n : Nat} (ihC : XMapcat n) (ihG : XGather n) : XObj (n+1) := by
  intro pm f bs rs hp hg hl hpv hfr h r hr
  have hone : ∀ {W : List String}, Fresh W bs → ∀ b ∈ [bs], Fresh W b := by
    intro W hW b hb; simp at hb; subst hb; exact hW
  simp only [matchObj] at h
  split at h
  · next fm =>
    have hgm : goodKvs fm = true := by simpa [V.good] using hg
    split at h
    · next he =>
      cases h; simp at hr; subst hr
      have : pm = [] := by simpa using he
      subst this; exact ⟨XPost.refl _ _, Emb.objEmpty⟩
    · next hne =>
      have hne' : pm ≠ [] := by simpa using hne
      have hmap : ∀ rs, mapcat n [bs] pm fm = .ok rs → ∀ r ∈ rs,
          XPost (varsOfKvs pm) bs r ∧ Emb [] r (.obj pm) (.obj fm) := by
        intro rs h r hr
        obtain ⟨b, hb, hpost, hs⟩ := ihC [bs] pm fm rs hp hgm hl hpv (hone hfr) h r hr
        simp at hb; subst hb
        exact ⟨hpost, Emb.obj hne' hs⟩
      split at h
      · cases h
      · next hnb =>
        split at h
        · next k v =>
          split at h
          · next hk =>
            simp only [plainPatKvs, Bool.and_eq_true] at hp
            have hvars : varsOfKvs [(k, v)] = [k] ++ varsOf v := by simp [varsOfKvs, hk]
            rw [hvars] at hl hpv hfr ⊢
            obtain ⟨b, hb, hpost, fk, fv, hm, h1, h2⟩ :=
              ihG [bs] k v fm rs hp.1.1 (goodKvs_mem hgm) hk hl hpv (hone hfr) h r hr
            simp at hb; subst hb
            exact ⟨hpost, Emb.objProp hk hm h1 h2⟩
          · exact hmap rs h r hr
        · exact hmap rs h r hr
  · cases h; cases hr

theorem x_match_step {n : Nat} (ihO : XObj n) (ihA : XArr n) : XMatch (n+1) := by
  intro p f bs rs hp hg hl hpv hfr h r hr
  have here : XPost (varsOf p) bs bs := XPost.refl _ _
  unfold matchF at h
  rw [fudge_plainPat hp, fudge_good hg] at h
  cases p with
  | int _ => simp [V.plainPat] at hp
  | bobj _ => simp [V.plainPat] at hp
  | other _ => simp [V.plainPat] at hp
  | arr ps =>
    simp only [varsOf] at hl hpv hfr ⊢
    exact ihA ps f bs rs (by simpa [V.plainPat] using hp) hg hl hpv hfr h r hr
  | null =>
    simp only [matchNull] at h
    split at h <;> cases h
    · simp at hr; subst hr; exact ⟨here, Emb.scalar rfl rfl⟩
    · cases hr
  | bool a =>
    simp only [matchBool] at h
    split at h
    · split at h <;> cases h
      · next heq => simp at hr; subst hr; subst heq; exact ⟨here, Emb.scalar rfl rfl⟩
      · cases hr
    · cases h; cases hr
  | num a =>
    simp only [matchNum] at h
    split at h
    · split at h <;> cases h
      · next heq => simp at hr; subst hr; subst heq; exact ⟨here, Emb.scalar rfl rfl⟩
      · cases hr
    · cases h; cases hr
  | str s => exact x_str n s f bs rs hpv hfr h r hr
  | obj pm =>
    simp only [varsOf] at hl hpv hfr ⊢
    exact ihO pm f bs rs (by simpa [V.plainPat] using hp) hg hl hpv hfr h r hr

end Sheens.Exact
