import Sheens.ES

/-! # Basic lemmas about `insertB`, `lookup` and the engine functions -/

theorem lookup_insertB_self (k : String) (v : V) (bs : Bs) :
    lookup k (insertB k v bs) = some v := by
  induction bs with
  | nil => simp [insertB, lookup]
  | cons kv rest ih =>
    obtain ⟨k', v'⟩ := kv
    simp only [insertB]
    split
    · simp [lookup]
    · next hne => simp only [lookup, if_neg hne]; exact ih

theorem lookup_insertB_ne {k k' : String} (v : V) (bs : Bs) (h : k ≠ k') :
    lookup k (insertB k' v bs) = lookup k bs := by
  induction bs with
  | nil => simp [insertB, lookup, h]
  | cons kv rest ih =>
    obtain ⟨k'', v''⟩ := kv
    simp only [insertB]
    split
    · next heq =>
      subst heq
      simp [lookup, h]
    · next hne =>
      simp only [lookup]
      split
      · rfl
      · exact ih

/-- `insertB` keeps every other binding and the one it writes -/
theorem lookup_insertB (k k' : String) (v : V) (bs : Bs) :
    lookup k (insertB k' v bs) = if k = k' then some v else lookup k bs := by
  split
  · next h => subst h; exact lookup_insertB_self _ _ _
  · next h => exact lookup_insertB_ne _ _ h

theorem execWrap_err (a : ActionF) (bs : Option Bs) : (execWrap a bs).err = (a bs).err := by
  unfold execWrap
  simp only
  split <;> rfl

theorem execWrap_exe_ne_none (a : ActionF) (bs : Option Bs) : (execWrap a bs).exe ≠ none := by
  unfold execWrap
  simp only
  split <;> simp

/-! ## `step`, case by case -/

theorem notMsg_of (n : Node) (hm : ∀ br, n.branches = some br → br.type ≠ "message") :
    (match n.branches with | some b => b.type == "message" | none => false) = false := by
  split
  · next b hb => simpa using hm b hb
  · rfl

/-- bindings and emissions taken from an execution (`e.Bs = NewBindings()` when nil) -/
def exeOut : Option (Option Bs × List V) → Bs × List V
  | none => ([], [])
  | some (none, em) => ([], em)
  | some (some b, em) => (b, em)

def actErrBs (e : String) (bs : Option Bs) : Bs :=
  insertB "error" (.str e) (insertB "actionError" (.str e) (copyB bs))

def noBranchBs (st : State) (bs : Option Bs) : Bs :=
  insertB "lastBindings" (.obj (copyB st.bs))
    (insertB "lastNode" (.str st.node)
      (insertB "error" (.str "Action node followed no branch") (copyB bs)))

/-- the part of `step` after the action -/
def stepRest (st : State) (n : Node) (bs : Option Bs) (emitted : List V) (pending : Option V) :
    StepOut :=
  let c := consider n.branches bs pending
  if c.1.isNone && n.action.isSome then
    { stride := some { frm := stateCopy st, to := some { node := "error", bs := some (noBranchBs st bs) },
                       consumed := if c.2.1 then pending else none, emitted := emitted },
      err := c.2.2 }
  else
    { stride := some { frm := stateCopy st, to := c.1.map stateCopy,
                       consumed := if c.2.1 then pending else none, emitted := emitted },
      err := c.2.2 }

theorem step_not_compiled (s : Spec) (st : State) (pending : Option V) (hc : s.compiled = false) :
    step s st pending = { stride := none, err := some .notCompiled } := by
  unfold step; simp [hc]

theorem step_unknown (s : Spec) (st : State) (pending : Option V)
    (hc : s.compiled = true) (hn : findNode st.node s.nodes = none) :
    step s st pending = { stride := none, err := some (.unknownNode st.node) } := by
  unfold step; simp [hc, hn]

theorem step_uncompiled_action (s : Spec) (st : State) (pending : Option V) (n : Node)
    (hc : s.compiled = true) (hn : findNode st.node s.nodes = some n)
    (ha : n.action = none) (hs : n.hasSource = true) :
    step s st pending = { stride := none, err := some (.uncompiledAction st.node) } := by
  unfold step; simp [hc, hn, ha, hs]

theorem step_bad_branching (s : Spec) (st : State) (pending : Option V) (n : Node) (a : ActionF)
    (br : Branches)
    (hc : s.compiled = true) (hn : findNode st.node s.nodes = some n)
    (ha : n.action = some a) (hb : n.branches = some br) (ht : br.type = "message") :
    step s st pending = { stride := none, err := some (.badBranching st.node) } := by
  unfold step; simp [hc, hn, ha, hb, ht]

theorem step_noaction (s : Spec) (st : State) (pending : Option V) (n : Node)
    (hc : s.compiled = true) (hn : findNode st.node s.nodes = some n)
    (ha : n.action = none) (hs : n.hasSource = false) :
    step s st pending = stepRest st n st.bs [] pending := by
  unfold step stepRest; simp [hc, hn, ha, hs]

theorem step_action_ok (s : Spec) (st : State) (pending : Option V) (n : Node) (a : ActionF)
    (hc : s.compiled = true) (hn : findNode st.node s.nodes = some n) (ha : n.action = some a)
    (hm : ∀ br, n.branches = some br → br.type ≠ "message")
    (he : (execWrap a st.bs).err = none) :
    step s st pending =
      stepRest st n (some (exeOut (execWrap a st.bs).exe).1) (exeOut (execWrap a st.bs).exe).2 pending := by
  unfold step stepRest
  cases hbr : n.branches with
  | none =>
    simp only [hc, hn, ha, he, hbr]
    generalize (execWrap a st.bs).exe = x
    rcases x with _ | ⟨_ | b, em⟩ <;> rfl
  | some br =>
    have := hm br hbr
    simp only [hc, hn, ha, he, hbr]
    generalize (execWrap a st.bs).exe = x
    rcases x with _ | ⟨_ | b, em⟩ <;> simp [this] <;> rfl

theorem step_action_err_branches (s : Spec) (st : State) (pending : Option V) (n : Node)
    (a : ActionF) (e : String)
    (hc : s.compiled = true) (hn : findNode st.node s.nodes = some n) (ha : n.action = some a)
    (hm : ∀ br, n.branches = some br → br.type ≠ "message")
    (he : (execWrap a st.bs).err = some e) (hb : s.actionErrorBranches = true) :
    step s st pending =
      stepRest st n (some (actErrBs e st.bs)) (exeOut (execWrap a st.bs).exe).2 pending := by
  unfold step stepRest
  cases hbr : n.branches with
  | none =>
    simp only [hc, hn, ha, he, hbr, hb]
    generalize (execWrap a st.bs).exe = x
    rcases x with _ | ⟨_ | b, em⟩ <;> rfl
  | some br =>
    have := hm br hbr
    simp only [hc, hn, ha, he, hbr, hb]
    generalize (execWrap a st.bs).exe = x
    rcases x with _ | ⟨_ | b, em⟩ <;> simp [this] <;> rfl

theorem step_action_err_node (s : Spec) (st : State) (pending : Option V) (n : Node)
    (a : ActionF) (e : String)
    (hc : s.compiled = true) (hn : findNode st.node s.nodes = some n) (ha : n.action = some a)
    (hm : ∀ br, n.branches = some br → br.type ≠ "message")
    (he : (execWrap a st.bs).err = some e) (hb : s.actionErrorBranches = false)
    (ht : s.actionErrorNode ≠ "") :
    step s st pending =
      { stride := some { frm := stateCopy st,
                         to := some { node := s.actionErrorNode, bs := some (actErrBs e st.bs) },
                         consumed := none, emitted := (exeOut (execWrap a st.bs).exe).2 },
        err := none } := by
  unfold step
  cases hbr : n.branches with
  | none =>
    simp only [hc, hn, ha, he, hbr, hb]
    generalize (execWrap a st.bs).exe = x
    rcases x with _ | ⟨_ | b, em⟩ <;> simp [ht] <;> exact ⟨rfl, rfl⟩
  | some br =>
    have := hm br hbr
    simp only [hc, hn, ha, he, hbr, hb]
    generalize (execWrap a st.bs).exe = x
    rcases x with _ | ⟨_ | b, em⟩ <;> simp [this, ht] <;> exact ⟨rfl, rfl⟩

theorem step_action_err_ret (s : Spec) (st : State) (pending : Option V) (n : Node)
    (a : ActionF) (e : String)
    (hc : s.compiled = true) (hn : findNode st.node s.nodes = some n) (ha : n.action = some a)
    (hm : ∀ br, n.branches = some br → br.type ≠ "message")
    (he : (execWrap a st.bs).err = some e) (hb : s.actionErrorBranches = false)
    (ht : s.actionErrorNode = "") :
    step s st pending = { stride := none, err := some (.action e) } := by
  unfold step
  cases hbr : n.branches with
  | none =>
    simp [hc, hn, ha, he, hbr, hb, ht]
  | some br =>
    have := hm br hbr
    simp [hc, hn, ha, he, hbr, hb, ht, this]

/-- every way a step can go -/
inductive StepCase (s : Spec) (st : State) (pending : Option V) : Prop
  | nostride (h : (step s st pending).stride = none)
  | noaction (n : Node) (hn : findNode st.node s.nodes = some n) (ha : n.action = none)
      (h : step s st pending = stepRest st n st.bs [] pending)
      (hc : s.compiled = true) (hs : n.hasSource = false)
  | ok (n : Node) (a : ActionF) (hn : findNode st.node s.nodes = some n) (ha : n.action = some a)
      (hm : ∀ br, n.branches = some br → br.type ≠ "message")
      (he : (execWrap a st.bs).err = none)
      (h : step s st pending =
        stepRest st n (some (exeOut (execWrap a st.bs).exe).1) (exeOut (execWrap a st.bs).exe).2 pending)
  | errBranches (n : Node) (a : ActionF) (e : String) (hn : findNode st.node s.nodes = some n)
      (ha : n.action = some a) (hm : ∀ br, n.branches = some br → br.type ≠ "message")
      (he : (execWrap a st.bs).err = some e)
      (h : step s st pending =
        stepRest st n (some (actErrBs e st.bs)) (exeOut (execWrap a st.bs).exe).2 pending)
  | errNode (n : Node) (a : ActionF) (e : String) (hn : findNode st.node s.nodes = some n)
      (ha : n.action = some a) (hm : ∀ br, n.branches = some br → br.type ≠ "message")
      (he : (execWrap a st.bs).err = some e)
      (h : step s st pending =
        { stride := some { frm := stateCopy st,
                           to := some { node := s.actionErrorNode, bs := some (actErrBs e st.bs) },
                           consumed := none, emitted := (exeOut (execWrap a st.bs).exe).2 },
          err := none })

theorem step_cases (s : Spec) (st : State) (pending : Option V) : StepCase s st pending := by
  cases hc : s.compiled with
  | false => exact .nostride (by rw [step_not_compiled s st pending hc])
  | true =>
  cases hn : findNode st.node s.nodes with
  | none => exact .nostride (by rw [step_unknown s st pending hc hn])
  | some n =>
  cases ha : n.action with
  | none =>
    cases hs : n.hasSource with
    | true => exact .nostride (by rw [step_uncompiled_action s st pending n hc hn ha hs])
    | false => exact .noaction n hn ha (step_noaction s st pending n hc hn ha hs) hc hs
  | some a =>
    by_cases hm : ∀ br, n.branches = some br → br.type ≠ "message"
    · cases he : (execWrap a st.bs).err with
      | none => exact .ok n a hn ha hm he (step_action_ok s st pending n a hc hn ha hm he)
      | some e =>
        cases hb : s.actionErrorBranches with
        | true =>
          exact .errBranches n a e hn ha hm he
            (step_action_err_branches s st pending n a e hc hn ha hm he hb)
        | false =>
          by_cases ht : s.actionErrorNode = ""
          · exact .nostride (by rw [step_action_err_ret s st pending n a e hc hn ha hm he hb ht])
          · exact .errNode n a e hn ha hm he
              (step_action_err_node s st pending n a e hc hn ha hm he hb ht)
    · have : ∃ br, n.branches = some br ∧ br.type = "message" := by
        apply Classical.byContradiction
        intro hne
        apply hm
        intro br hbr hty
        exact hne ⟨br, hbr, hty⟩
      obtain ⟨br, hbr, hty⟩ := this
      exact .nostride (by rw [step_bad_branching s st pending n a br hc hn ha hbr hty])

theorem stepRest_stride (st : State) (n : Node) (bs : Option Bs) (em : List V) (pending : Option V) :
    ∃ sd, (stepRest st n bs em pending).stride = some sd ∧ sd.emitted = em ∧ sd.frm = stateCopy st ∧
      sd.consumed = (if (consider n.branches bs pending).2.1 then pending else none) := by
  unfold stepRest
  simp only
  split <;> exact ⟨_, rfl, rfl, rfl, rfl⟩

theorem stepRest_err (st : State) (n : Node) (bs : Option Bs) (em : List V) (pending : Option V) :
    (stepRest st n bs em pending).err = (consider n.branches bs pending).2.2 := by
  unfold stepRest
  simp only
  split <;> rfl

/-! ## `consider` and `stepRest` -/

theorem consider_msg_some (br : Branches) (bs : Option Bs) (m : V) (ht : br.type = "message") :
    (consider (some br) bs (some m)).2.1 = true := by
  unfold consider
  simp only [ht, beq_self_eq_true, if_true]
  split <;> rfl

theorem consider_msg_none (br : Branches) (bs : Option Bs) (ht : br.type = "message") :
    consider (some br) bs none = (none, true, none) := by
  unfold consider
  simp [ht]

theorem consider_nonmsg (b : Option Branches) (bs : Option Bs) (pending : Option V)
    (hm : ∀ br, b = some br → br.type ≠ "message") :
    (consider b bs pending).2.1 = false := by
  unfold consider
  cases b with
  | none => rfl
  | some br =>
    have : (br.type == "message") = false := by simpa using hm br rfl
    simp only [this]
    simp only [Bool.false_eq_true, if_false]
    split <;> rfl

/-- without a pending message, bindings branching does not look at the message -/
theorem consider_nonmsg_pending (b : Option Branches) (bs : Option Bs) (p q : Option V)
    (hm : ∀ br, b = some br → br.type ≠ "message") :
    consider b bs p = consider b bs q := by
  unfold consider
  cases b with
  | none => rfl
  | some br =>
    have : (br.type == "message") = false := by simpa using hm br rfl
    simp only [this]
    simp only [Bool.false_eq_true, if_false]

theorem stepRest_noaction (st : State) (n : Node) (bs : Option Bs) (em : List V) (pending : Option V)
    (ha : n.action = none) :
    stepRest st n bs em pending =
      { stride := some { frm := stateCopy st, to := (consider n.branches bs pending).1.map stateCopy,
                         consumed := if (consider n.branches bs pending).2.1 then pending else none,
                         emitted := em },
        err := (consider n.branches bs pending).2.2 } := by
  unfold stepRest
  simp [ha]

theorem stepRest_action (st : State) (n : Node) (bs : Option Bs) (em : List V) (pending : Option V)
    (a : ActionF) (ha : n.action = some a)
    (hm : ∀ br, n.branches = some br → br.type ≠ "message") :
    stepRest st n bs em pending =
      { stride := some { frm := stateCopy st,
                         to := (match (consider n.branches bs pending).1 with
                                | some t => some (stateCopy t)
                                | none => some { node := "error", bs := some (noBranchBs st bs) }),
                         consumed := none,
                         emitted := em },
        err := (consider n.branches bs pending).2.2 } := by
  unfold stepRest
  have := consider_nonmsg n.branches bs pending hm
  simp only [this, ha]
  cases (consider n.branches bs pending).1 <;> simp

/-! ## `tryAll` -/

theorem tryAll_cons_none {bs : Option Bs} {against : V} {b : Branch} (rest : List Branch)
    (h : tryBranch b bs against = .ok none) : tryAll bs against (b :: rest) = tryAll bs against rest := by
  simp only [tryAll, h]

theorem tryAll_cons_ne {bs : Option Bs} {against : V} {b : Branch} (rest : List Branch)
    (h : tryBranch b bs against ≠ .ok none) : tryAll bs against (b :: rest) = tryBranch b bs against := by
  simp only [tryAll]
  split
  · next e he => rw [he]
  · next st he => rw [he]
  · next he => exact absurd he h

theorem tryAll_eq_iff (bs : Option Bs) (against : V) (brs : List Branch)
    (r : Except StepErr (Option State)) (hr : r ≠ .ok none) :
    tryAll bs against brs = r ↔
      ∃ pre br post, brs = pre ++ br :: post ∧
        (∀ b ∈ pre, tryBranch b bs against = .ok none) ∧ tryBranch br bs against = r := by
  induction brs with
  | nil =>
    constructor
    · intro h; simp only [tryAll] at h; exact absurd h.symm hr
    · rintro ⟨pre, br, post, h, _⟩; simp at h
  | cons b rest ih =>
    constructor
    · intro h
      by_cases hb : tryBranch b bs against = .ok none
      · rw [tryAll_cons_none rest hb] at h
        obtain ⟨pre, br, post, h1, h2, h3⟩ := ih.mp h
        refine ⟨b :: pre, br, post, by rw [h1]; rfl, ?_, h3⟩
        intro x hx
        rcases List.mem_cons.mp hx with hx | hx
        · subst hx; exact hb
        · exact h2 x hx
      · rw [tryAll_cons_ne rest hb] at h
        exact ⟨[], b, rest, rfl, fun x hx => (by cases hx), h⟩
    · rintro ⟨pre, br, post, h1, h2, h3⟩
      cases pre with
      | nil =>
        simp only [List.nil_append, List.cons.injEq] at h1
        obtain ⟨rfl, rfl⟩ := h1
        rw [tryAll_cons_ne _ (by rw [h3]; exact hr), h3]
      | cons p pre' =>
        simp only [List.cons_append, List.cons.injEq] at h1
        obtain ⟨rfl, rfl⟩ := h1
        rw [tryAll_cons_none _ (h2 b List.mem_cons_self)]
        exact ih.mpr ⟨pre', br, post, rfl, fun x hx => h2 x (List.mem_cons_of_mem _ hx), h3⟩
