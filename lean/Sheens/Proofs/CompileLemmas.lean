import Sheens.Compile

/-!
# Lemmas about the `Compile` model (for property C13)

* generic facts about the hand-written traversal `mapM'`;
* the local closures of `parsePatterns` / `compile` as top-level functions (`ppBranch`, `ppNode`,
  `cBranch`, `cNode`, `compileCore`), with `rfl` unfolding lemmas;
* inversion of a successful `compile` (`compile_ok_inv`);
* `compile (decompile cs) = ok cs` from the inversion facts.
-/

namespace Compile

/-! ## `mapM'` -/

section MapM
variable {α β γ ε : Type}

theorem mapM'_nil (f : α → Except ε β) : mapM' f [] = .ok [] := rfl

theorem mapM'_cons (f : α → Except ε β) (x : α) (xs : List α) :
    mapM' f (x :: xs) =
      match f x with
      | .error e => .error e
      | .ok y => match mapM' f xs with
        | .error e => .error e
        | .ok ys => .ok (y :: ys) := rfl

/-- an element that maps to an error makes the traversal fail (maybe with an earlier error) -/
theorem mapM'_error_of_mem {f : α → Except ε β} {l : List α} {x : α} {e : ε}
    (hx : x ∈ l) (h : f x = .error e) : ∃ e', mapM' f l = .error e' := by
  induction l with
  | nil => cases hx
  | cons a as ih =>
    rw [mapM'_cons]
    cases hfa : f a with
    | error e1 => exact ⟨e1, rfl⟩
    | ok y =>
      have hx' : x ∈ as := by
        rcases List.mem_cons.mp hx with rfl | hx'
        · rw [h] at hfa; cases hfa
        · exact hx'
      obtain ⟨e', he'⟩ := ih hx'
      exact ⟨e', by simp only [he']⟩

/-- inversion of a successful cons step -/
theorem mapM'_cons_ok {f : α → Except ε β} {a : α} {as : List α} {ys : List β}
    (h : mapM' f (a :: as) = .ok ys) :
    ∃ y ys', f a = .ok y ∧ mapM' f as = .ok ys' ∧ ys = y :: ys' := by
  rw [mapM'_cons] at h
  cases hfa : f a with
  | error e1 => rw [hfa] at h; cases h
  | ok y =>
    rw [hfa] at h
    cases hr : mapM' f as with
    | error e1 => rw [hr] at h; cases h
    | ok ys' =>
      rw [hr] at h
      simp only [Except.ok.injEq] at h
      exact ⟨y, ys', rfl, rfl, h.symm⟩

/-- a successful traversal: every input has its output in the result -/
theorem mapM'_ok_mem {f : α → Except ε β} {l : List α} {ys : List β} {x : α}
    (h : mapM' f l = .ok ys) (hx : x ∈ l) : ∃ y, y ∈ ys ∧ f x = .ok y := by
  induction l generalizing ys with
  | nil => cases hx
  | cons a as ih =>
    obtain ⟨y, ys', hfa, hr, rfl⟩ := mapM'_cons_ok h
    rcases List.mem_cons.mp hx with rfl | hx'
    · exact ⟨y, List.mem_cons_self, hfa⟩
    · obtain ⟨y', hy', hf'⟩ := ih hr hx'
      exact ⟨y', List.mem_cons_of_mem _ hy', hf'⟩

/-- a successful traversal: every output comes from an input -/
theorem mapM'_ok_mem_inv {f : α → Except ε β} {l : List α} {ys : List β} {y : β}
    (h : mapM' f l = .ok ys) (hy : y ∈ ys) : ∃ x, x ∈ l ∧ f x = .ok y := by
  induction l generalizing ys with
  | nil =>
    rw [mapM'_nil] at h
    simp only [Except.ok.injEq] at h
    subst h; cases hy
  | cons a as ih =>
    obtain ⟨y0, ys', hfa, hr, rfl⟩ := mapM'_cons_ok h
    rcases List.mem_cons.mp hy with rfl | hy'
    · exact ⟨a, List.mem_cons_self, hfa⟩
    · obtain ⟨x, hx, hf'⟩ := ih hr hy'
      exact ⟨x, List.mem_cons_of_mem _ hx, hf'⟩

/-- two lists related element by element (core Lean has no `List.Forall₂`) -/
inductive Forall2 (R : α → β → Prop) : List α → List β → Prop
  | nil : Forall2 R [] []
  | cons {a b l₁ l₂} : R a b → Forall2 R l₁ l₂ → Forall2 R (a :: l₁) (b :: l₂)

/-- pointwise characterisation of success -/
theorem mapM'_ok_iff {f : α → Except ε β} {l : List α} {ys : List β} :
    mapM' f l = .ok ys ↔ Forall2 (fun x y => f x = .ok y) l ys := by
  induction l generalizing ys with
  | nil =>
    rw [mapM'_nil]
    constructor
    · intro h; simp only [Except.ok.injEq] at h; subst h; exact .nil
    · intro h; cases h; rfl
  | cons a as ih =>
    constructor
    · intro h
      obtain ⟨y, ys', hfa, hr, rfl⟩ := mapM'_cons_ok h
      exact .cons hfa (ih.mp hr)
    · intro h
      cases h with
      | cons h1 h2 =>
        rw [mapM'_cons, h1, ih.mpr h2]

theorem mapM'_congr {f g : α → Except ε β} {l : List α} (h : ∀ x, x ∈ l → f x = g x) :
    mapM' f l = mapM' g l := by
  induction l with
  | nil => rfl
  | cons a as ih =>
    rw [mapM'_cons, mapM'_cons, h a List.mem_cons_self,
      ih (fun x hx => h x (List.mem_cons_of_mem _ hx))]

theorem mapM'_map (f : β → Except ε γ) (h : α → β) (l : List α) :
    mapM' f (l.map h) = mapM' (fun x => f (h x)) l := by
  induction l with
  | nil => rfl
  | cons a as ih => rw [List.map_cons, mapM'_cons, mapM'_cons, ih]

/-- every element is mapped to itself -/
theorem mapM'_ok_self {f : α → Except ε α} {l : List α} (h : ∀ x, x ∈ l → f x = .ok x) :
    mapM' f l = .ok l := by
  induction l with
  | nil => rfl
  | cons a as ih =>
    rw [mapM'_cons, h a List.mem_cons_self, ih (fun x hx => h x (List.mem_cons_of_mem _ hx))]

/-- `f` undoes `h` on every element -/
theorem mapM'_map_ok {f : β → Except ε α} {h : α → β} {l : List α}
    (hf : ∀ x, x ∈ l → f (h x) = .ok x) : mapM' f (l.map h) = .ok l := by
  rw [mapM'_map]
  exact mapM'_ok_self hf

end MapM

/-! ## the closures of `parsePatterns` and `compile`, named -/

def ppBranch (c : Codec) (syn : String) (b : Option RawBranch) : Except CompileErr (Option RawBranch) :=
  match b with
  | none => Except.ok none
  | some b => match parseAndCanon c syn b.pattern with
    | .error e => .error e
    | .ok p => .ok (some { b with pattern := p })

def ppNode (c : Codec) (syn : String) (p : String × Option RawNode) :
    Except CompileErr (String × Option RawNode) :=
  match p.2 with
  | none => Except.ok p
  | some n =>
    match n.branching with
    | none => .ok p
    | some br => match mapM' (ppBranch c syn) br.branches with
      | .error e => .error e
      | .ok bs => .ok (p.1, some { n with branching := some { br with branches := bs } })

theorem parsePatterns_eq (c : Codec) (s : RawSpec) :
    parsePatterns c s =
      match s.nodes with
      | none => .ok s
      | some nodes =>
        match mapM' (ppNode c s.patternSyntax) nodes with
        | .error e => .error e
        | .ok ns => .ok { s with nodes := some ns, patternSyntax := "" } := rfl

def cBranch (c : Codec) (known : String → Bool) (srcOk : Source → Bool) (syn : String)
    (b : Option RawBranch) : Except CompileErr CBranch :=
  match b with
  | none => Except.error CompileErr.nullBranch
  | some b =>
    match parseAndCanon c syn b.pattern with
    | .error e => .error e
    | .ok p =>
      match compileSource known srcOk b.guard with
      | .error e => .error e
      | .ok g => .ok ({ pattern := p, guard := g, target := b.target } : CBranch)

def cNode (c : Codec) (known : String → Bool) (srcOk : Source → Bool) (syn : String)
    (p : String × Option RawNode) : Except CompileErr (String × CNode) :=
  let n : RawNode := p.2.getD { action := none, branching := none }
  match compileSource known srcOk n.action with
  | .error e => Except.error e
  | .ok a =>
    match n.branching with
    | none => .ok (p.1, ({ action := a, branches := none } : CNode))
    | some br =>
      let ty := if br.type == "" then "bindings" else br.type
      if ty != "message" && ty != "bindings" then .error (.unknownBranchingType br.type)
      else match mapM' (cBranch c known srcOk syn) br.branches with
        | .error e => .error e
        | .ok bs => .ok (p.1, { action := a, branches := some (ty, bs) })

def errName (s : RawSpec) : String := if s.errorNode == "" then "error" else s.errorNode

def nodes1 (s : RawSpec) : List (String × Option RawNode) :=
  if ((s.nodes.getD []).any (fun p => p.1 == errName s)) || s.noAutoErrorNode then s.nodes.getD []
  else s.nodes.getD [] ++ [(errName s, some { action := none, branching := none })]

/-- `compile` after `parsePatterns` -/
def compileCore (c : Codec) (known : String → Bool) (srcOk : Source → Bool) (s : RawSpec) :
    Except CompileErr CSpec :=
  match mapM' (cNode c known srcOk s.patternSyntax) (nodes1 s) with
  | .error e => .error e
  | .ok ns => .ok { name := s.name, nodes := ns, actionErrorBranches := s.actionErrorBranches,
                    actionErrorNode := s.actionErrorNode, errorNode := errName s,
                    noAutoErrorNode := s.noAutoErrorNode }

theorem compile_eq (c : Codec) (known : String → Bool) (srcOk : Source → Bool) (s0 : RawSpec) :
    compile c known srcOk s0 =
      match parsePatterns c s0 with
      | .error e => .error e
      | .ok s => compileCore c known srcOk s := rfl

/-! ## inversion of successful runs -/

theorem compileSource_ok {known : String → Bool} {srcOk : Source → Bool} {a a' : Option Source}
    (h : compileSource known srcOk a = .ok a') : a' = a := by
  unfold compileSource at h
  cases a with
  | none => simp only [Except.ok.injEq] at h; exact h.symm
  | some x =>
    simp only at h
    split at h
    · cases h
    · split at h
      · cases h
      · simp only [Except.ok.injEq] at h; exact h.symm

/-- what a compiled node satisfies: its sources compile to themselves, its branching type is resolved -/
def CNodeOK (known : String → Bool) (srcOk : Source → Bool) (nd : CNode) : Prop :=
  compileSource known srcOk nd.action = .ok nd.action ∧
  ∀ ty bs, nd.branches = some (ty, bs) →
    (ty = "message" ∨ ty = "bindings") ∧
    ∀ b, b ∈ bs → compileSource known srcOk b.guard = .ok b.guard

theorem cBranch_ok_inv {c : Codec} {known : String → Bool} {srcOk : Source → Bool} {syn : String}
    {b : Option RawBranch} {cb : CBranch} (h : cBranch c known srcOk syn b = .ok cb) :
    ∃ rb, b = some rb ∧ parseAndCanon c syn rb.pattern = .ok cb.pattern ∧
      compileSource known srcOk cb.guard = .ok cb.guard ∧ cb.guard = rb.guard ∧
      cb.target = rb.target := by
  unfold cBranch at h
  cases b with
  | none => cases h
  | some rb =>
    simp only at h
    cases hp : parseAndCanon c syn rb.pattern with
    | error e => rw [hp] at h; cases h
    | ok p =>
      rw [hp] at h
      simp only at h
      cases hg : compileSource known srcOk rb.guard with
      | error e => rw [hg] at h; cases h
      | ok g =>
        rw [hg] at h
        simp only [Except.ok.injEq] at h
        subst h
        have hgg := compileSource_ok hg
        subst hgg
        exact ⟨rb, rfl, hp, hg, rfl, rfl⟩

theorem resolved_type {ty : String}
    (h : ¬ ((ty != "message" && ty != "bindings") = true)) :
    ty = "message" ∨ ty = "bindings" := by
  simp only [Bool.and_eq_true, bne_iff_ne, ne_eq, not_and, Decidable.not_not] at h
  by_cases hm : ty = "message"
  · exact .inl hm
  · exact .inr (h hm)

theorem cNode_ok_inv {c : Codec} {known : String → Bool} {srcOk : Source → Bool} {syn : String}
    {p : String × Option RawNode} {q : String × CNode} (h : cNode c known srcOk syn p = .ok q) :
    q.1 = p.1 ∧ CNodeOK known srcOk q.2 := by
  unfold cNode at h
  simp only at h
  cases ha : compileSource known srcOk (p.2.getD { action := none, branching := none }).action with
  | error e => rw [ha] at h; cases h
  | ok a =>
    rw [ha] at h
    simp only at h
    have haa := compileSource_ok ha
    subst haa
    cases hbr : (p.2.getD { action := none, branching := none }).branching with
    | none =>
      rw [hbr] at h
      simp only [Except.ok.injEq] at h
      subst h
      refine ⟨rfl, ha, ?_⟩
      intro ty bs hh; cases hh
    | some br =>
      rw [hbr] at h
      simp only at h
      generalize (if br.type == "" then "bindings" else br.type) = ty0 at h
      split at h
      · cases h
      · rename_i hty
        have hty' := resolved_type hty
        cases hm : mapM' (cBranch c known srcOk syn) br.branches with
        | error e => rw [hm] at h; cases h
        | ok bs =>
          rw [hm] at h
          simp only [Except.ok.injEq] at h
          subst h
          refine ⟨rfl, ha, ?_⟩
          intro ty bs' hh
          simp only [Option.some.injEq, Prod.mk.injEq] at hh
          obtain ⟨rfl, rfl⟩ := hh
          refine ⟨hty', ?_⟩
          intro b hb
          obtain ⟨x, _, hx⟩ := mapM'_ok_mem_inv hm hb
          obtain ⟨rb, _, _, hg, _, _⟩ := cBranch_ok_inv hx
          exact hg

theorem errName_ne_empty (s : RawSpec) : (errName s == "") = false := by
  unfold errName
  split
  · decide
  · rename_i h; simpa using h

/-- the facts a successful `compile` leaves in its result -/
structure CompiledOK (known : String → Bool) (srcOk : Source → Bool) (cs : CSpec) : Prop where
  nodesOK : ∀ q, q ∈ cs.nodes → CNodeOK known srcOk q.2
  errNe   : (cs.errorNode == "") = false
  hasErr  : (cs.nodes.any (fun p => p.1 == cs.errorNode) || cs.noAutoErrorNode) = true

theorem nodes1_hasErr (s : RawSpec) :
    ((nodes1 s).any (fun p => p.1 == errName s) || s.noAutoErrorNode) = true := by
  unfold nodes1
  split
  · assumption
  · simp [List.any_append]

theorem compileCore_ok_inv {c : Codec} {known : String → Bool} {srcOk : Source → Bool}
    {s : RawSpec} {cs : CSpec} (h : compileCore c known srcOk s = .ok cs) :
    CompiledOK known srcOk cs := by
  unfold compileCore at h
  cases hm : mapM' (cNode c known srcOk s.patternSyntax) (nodes1 s) with
  | error e => rw [hm] at h; cases h
  | ok ns =>
    rw [hm] at h
    simp only [Except.ok.injEq] at h
    subst h
    refine ⟨?_, errName_ne_empty s, ?_⟩
    · intro q hq
      obtain ⟨x, _, hx⟩ := mapM'_ok_mem_inv hm hq
      exact (cNode_ok_inv hx).2
    · have h1 := nodes1_hasErr s
      simp only [Bool.or_eq_true, List.any_eq_true] at h1 ⊢
      rcases h1 with ⟨x, hx, hxe⟩ | h1
      · obtain ⟨y, hy, hxy⟩ := mapM'_ok_mem hm hx
        have := (cNode_ok_inv hxy).1
        exact .inl ⟨y, hy, by rw [this]; exact hxe⟩
      · exact .inr h1

theorem compile_ok_inv {c : Codec} {known : String → Bool} {srcOk : Source → Bool}
    {s : RawSpec} {cs : CSpec} (h : compile c known srcOk s = .ok cs) :
    CompiledOK known srcOk cs := by
  rw [compile_eq] at h
  cases hp : parsePatterns c s with
  | error e => rw [hp] at h; cases h
  | ok s' => rw [hp] at h; exact compileCore_ok_inv h

/-! ## compiling a dump -/

/-- every pattern of a compiled spec is a fixed point of `canonicalize` -/
def CanonFixed (c : Codec) (cs : CSpec) : Prop :=
  ∀ name nd, (name, nd) ∈ cs.nodes → ∀ ty bs, nd.branches = some (ty, bs) →
    ∀ b, b ∈ bs → canonicalize c b.pattern = .ok b.pattern

def dBranch (b : CBranch) : Option RawBranch :=
  some { pattern := b.pattern, guard := b.guard, target := b.target }

def dNode (x : String × CNode) : String × Option RawNode :=
  (x.1, some { action := x.2.action,
               branching := x.2.branches.map (fun y =>
                 { type := y.1, branches := y.2.map dBranch }) })

theorem decompile_nodes (cs : CSpec) : (decompile cs).nodes = some (cs.nodes.map dNode) := rfl

theorem decompile_syntax (cs : CSpec) : (decompile cs).patternSyntax = "" := rfl

theorem parseAndCanon_empty (c : Codec) (p : Option V) : parseAndCanon c "" p = canonicalize c p := by
  simp [parseAndCanon, parsePattern]

theorem ppBranch_dBranch {c : Codec} {b : CBranch} (h : canonicalize c b.pattern = .ok b.pattern) :
    ppBranch c "" (dBranch b) = .ok (dBranch b) := by
  simp only [ppBranch, dBranch, parseAndCanon_empty, h]

theorem ppNode_dNode {c : Codec} {x : String × CNode}
    (h : ∀ ty bs, x.2.branches = some (ty, bs) → ∀ b, b ∈ bs → canonicalize c b.pattern = .ok b.pattern) :
    ppNode c "" (dNode x) = .ok (dNode x) := by
  obtain ⟨name, nd⟩ := x
  cases hb : nd.branches with
  | none => simp only [ppNode, dNode, hb, Option.map_none]
  | some y =>
    obtain ⟨ty, bs⟩ := y
    have hm : mapM' (ppBranch c "") (bs.map dBranch) = .ok (bs.map dBranch) := by
      apply mapM'_ok_self
      intro z hz
      obtain ⟨b, hb', rfl⟩ := List.mem_map.mp hz
      exact ppBranch_dBranch (h ty bs hb b hb')
    simp only [ppNode, dNode, hb, Option.map_some, hm]

theorem parsePatterns_decompile {c : Codec} {cs : CSpec} (h : CanonFixed c cs) :
    parsePatterns c (decompile cs) = .ok (decompile cs) := by
  have hm : mapM' (ppNode c "") (cs.nodes.map dNode) = .ok (cs.nodes.map dNode) := by
    apply mapM'_ok_self
    intro z hz
    obtain ⟨x, hx, rfl⟩ := List.mem_map.mp hz
    exact ppNode_dNode (fun ty bs hb b hb' => h x.1 x.2 hx ty bs hb b hb')
  rw [parsePatterns_eq, decompile_nodes, decompile_syntax]
  simp only [hm]
  rfl

theorem cBranch_dBranch {c : Codec} {known : String → Bool} {srcOk : Source → Bool} {b : CBranch}
    (h : canonicalize c b.pattern = .ok b.pattern)
    (hg : compileSource known srcOk b.guard = .ok b.guard) :
    cBranch c known srcOk "" (dBranch b) = .ok b := by
  simp only [cBranch, dBranch, parseAndCanon_empty, h, hg]

theorem cNode_dNode {c : Codec} {known : String → Bool} {srcOk : Source → Bool} {x : String × CNode}
    (hok : CNodeOK known srcOk x.2)
    (h : ∀ ty bs, x.2.branches = some (ty, bs) → ∀ b, b ∈ bs → canonicalize c b.pattern = .ok b.pattern) :
    cNode c known srcOk "" (dNode x) = .ok x := by
  obtain ⟨name, nd⟩ := x
  obtain ⟨ha, hbr⟩ := hok
  cases hb : nd.branches with
  | none =>
    simp only [cNode, dNode, Option.getD_some, ha, hb, Option.map_none]
    cases nd; simp_all
  | some y =>
    obtain ⟨ty, bs⟩ := y
    obtain ⟨hty, hgs⟩ := hbr ty bs hb
    have hm : mapM' (cBranch c known srcOk "") (bs.map dBranch) = .ok bs := by
      apply mapM'_map_ok
      intro b hb'
      exact cBranch_dBranch (h ty bs hb b hb') (hgs b hb')
    have hty1 : (if ty == "" then "bindings" else ty) = ty := by
      rcases hty with rfl | rfl <;> decide
    have hty2 : (ty != "message" && ty != "bindings") = false := by
      rcases hty with rfl | rfl <;> decide
    simp only [cNode, dNode, Option.getD_some, ha, hb, Option.map_some, hty1, hty2, hm]
    cases nd; simp_all

theorem nodes1_decompile {known : String → Bool} {srcOk : Source → Bool} {cs : CSpec}
    (hok : CompiledOK known srcOk cs) :
    errName (decompile cs) = cs.errorNode ∧ nodes1 (decompile cs) = cs.nodes.map dNode := by
  have he : errName (decompile cs) = cs.errorNode := by
    show (if cs.errorNode == "" then "error" else cs.errorNode) = cs.errorNode
    rw [hok.errNe]; rfl
  refine ⟨he, ?_⟩
  unfold nodes1
  rw [he, decompile_nodes]
  have hany : ((cs.nodes.map dNode).any (fun p => p.1 == cs.errorNode)) =
      cs.nodes.any (fun p => p.1 == cs.errorNode) := by
    rw [List.any_map]; rfl
  show (if ((cs.nodes.map dNode).any (fun p => p.1 == cs.errorNode) || cs.noAutoErrorNode) = true
        then cs.nodes.map dNode else _) = _
  rw [hany, hok.hasErr]
  rfl

theorem compileCore_decompile {c : Codec} {known : String → Bool} {srcOk : Source → Bool} {cs : CSpec}
    (hok : CompiledOK known srcOk cs) (h : CanonFixed c cs) :
    compileCore c known srcOk (decompile cs) = .ok cs := by
  obtain ⟨he, hn⟩ := nodes1_decompile hok
  have hm : mapM' (cNode c known srcOk "") (cs.nodes.map dNode) = .ok cs.nodes := by
    apply mapM'_map_ok
    intro x hx
    exact cNode_dNode (hok.nodesOK x hx) (fun ty bs hb b hb' => h x.1 x.2 hx ty bs hb b hb')
  unfold compileCore
  rw [hn, he, decompile_syntax, hm]
  rfl

theorem compile_decompile {c : Codec} {known : String → Bool} {srcOk : Source → Bool} {cs : CSpec}
    (hok : CompiledOK known srcOk cs) (h : CanonFixed c cs) :
    compile c known srcOk (decompile cs) = .ok cs := by
  rw [compile_eq, parsePatterns_decompile h]
  exact compileCore_decompile hok h

/-! ## rejections -/

theorem parsePatterns_ok_inv {c : Codec} {s s' : RawSpec} {nodes : List (String × Option RawNode)}
    (hn : s.nodes = some nodes) (h : parsePatterns c s = .ok s') :
    ∃ ns, mapM' (ppNode c s.patternSyntax) nodes = .ok ns ∧ s'.nodes = some ns := by
  rw [parsePatterns_eq, hn] at h
  simp only at h
  cases hm : mapM' (ppNode c s.patternSyntax) nodes with
  | error e => rw [hm] at h; cases h
  | ok ns =>
    rw [hm] at h
    simp only [Except.ok.injEq] at h
    subst h
    exact ⟨ns, rfl, rfl⟩

theorem parsePatterns_error_of_node {c : Codec} {s : RawSpec} {nodes : List (String × Option RawNode)}
    {x : String × Option RawNode} {e : CompileErr}
    (hn : s.nodes = some nodes) (hx : x ∈ nodes) (h : ppNode c s.patternSyntax x = .error e) :
    ∃ e', parsePatterns c s = .error e' := by
  obtain ⟨e', he'⟩ := mapM'_error_of_mem hx h
  refine ⟨e', ?_⟩
  rw [parsePatterns_eq, hn]
  simp only [he']

theorem mem_nodes1 {s : RawSpec} {ns : List (String × Option RawNode)} {x : String × Option RawNode}
    (hn : s.nodes = some ns) (hx : x ∈ ns) : x ∈ nodes1 s := by
  unfold nodes1
  rw [hn]
  simp only [Option.getD_some]
  split
  · exact hx
  · exact List.mem_append_left _ hx

theorem compileCore_error_of_node {c : Codec} {known : String → Bool} {srcOk : Source → Bool}
    {s : RawSpec} {x : String × Option RawNode} {e : CompileErr}
    (hx : x ∈ nodes1 s) (h : cNode c known srcOk s.patternSyntax x = .error e) :
    ∃ e', compileCore c known srcOk s = .error e' := by
  obtain ⟨e', he'⟩ := mapM'_error_of_mem hx h
  refine ⟨e', ?_⟩
  unfold compileCore
  simp only [he']

/-- what `ppNode` does to a non-null node -/
theorem ppNode_ok_some {c : Codec} {syn : String} {name : String} {n : RawNode}
    {q : String × Option RawNode} (h : ppNode c syn (name, some n) = .ok q) :
    ∃ n', q = (name, some n') ∧ n'.action = n.action ∧
      ∀ br, n.branching = some br →
        ∃ bs, mapM' (ppBranch c syn) br.branches = .ok bs ∧
          n'.branching = some { br with branches := bs } := by
  unfold ppNode at h
  simp only at h
  cases hb : n.branching with
  | none =>
    rw [hb] at h
    simp only [Except.ok.injEq] at h
    subst h
    exact ⟨n, rfl, rfl, fun br hbr => by cases hbr⟩
  | some br =>
    rw [hb] at h
    simp only at h
    cases hm : mapM' (ppBranch c syn) br.branches with
    | error e => rw [hm] at h; cases h
    | ok bs =>
      rw [hm] at h
      simp only [Except.ok.injEq] at h
      subst h
      refine ⟨_, rfl, rfl, ?_⟩
      intro br' hbr'
      simp only [Option.some.injEq] at hbr'
      subst hbr'
      exact ⟨bs, hm, rfl⟩

/-- the generic rejection argument: a non-null node of the document whose parsed form fails in
    `cNode` (for any syntax) makes `compile` fail -/
theorem compile_error_of_node {c : Codec} {known : String → Bool} {srcOk : Source → Bool}
    {s : RawSpec} {nodes : List (String × Option RawNode)} {name : String} {n : RawNode}
    (hn : s.nodes = some nodes) (hm : (name, some n) ∈ nodes)
    (hbad : ∀ syn n', ppNode c s.patternSyntax (name, some n) = .ok (name, some n') →
      ∃ e, cNode c known srcOk syn (name, some n') = .error e) :
    ∃ e, compile c known srcOk s = .error e := by
  rw [compile_eq]
  cases hp : parsePatterns c s with
  | error e => exact ⟨e, rfl⟩
  | ok s' =>
    simp only
    obtain ⟨ns, hns, hs'⟩ := parsePatterns_ok_inv hn hp
    obtain ⟨q, hq, hpq⟩ := mapM'_ok_mem hns hm
    obtain ⟨n', rfl, _, _⟩ := ppNode_ok_some hpq
    obtain ⟨e, he⟩ := hbad s'.patternSyntax n' hpq
    exact compileCore_error_of_node (mem_nodes1 hs' hq) he

theorem cNode_some (c : Codec) (known : String → Bool) (srcOk : Source → Bool) (syn : String)
    (name : String) (n : RawNode) :
    cNode c known srcOk syn (name, some n) =
      match compileSource known srcOk n.action with
      | .error e => Except.error e
      | .ok a =>
        match n.branching with
        | none => .ok (name, ({ action := a, branches := none } : CNode))
        | some br =>
          if (if br.type == "" then "bindings" else br.type) != "message" &&
             (if br.type == "" then "bindings" else br.type) != "bindings"
          then .error (.unknownBranchingType br.type)
          else match mapM' (cBranch c known srcOk syn) br.branches with
            | .error e => .error e
            | .ok bs => .ok (name, ({ action := a, branches := some (if br.type == "" then "bindings" else br.type, bs) } : CNode)) := rfl

theorem cNode_error_unknown_interpreter {c : Codec} {known : String → Bool} {srcOk : Source → Bool}
    {syn name : String} {n : RawNode} {src : Source}
    (ha : n.action = some src) (hk : known src.interpreter = false) :
    ∃ e, cNode c known srcOk syn (name, some n) = .error e := by
  refine ⟨.interpreterNotFound, ?_⟩
  rw [cNode_some, ha]
  simp only [compileSource, hk, Bool.not_false, if_true]

theorem cNode_error_unknown_type {c : Codec} {known : String → Bool} {srcOk : Source → Bool}
    {syn name : String} {n : RawNode} {br : RawBranching}
    (hb : n.branching = some br)
    (ht : br.type ≠ "" ∧ br.type ≠ "message" ∧ br.type ≠ "bindings") :
    ∃ e, cNode c known srcOk syn (name, some n) = .error e := by
  rw [cNode_some, hb]
  cases compileSource known srcOk n.action with
  | error e => exact ⟨e, rfl⟩
  | ok a =>
    refine ⟨.unknownBranchingType br.type, ?_⟩
    have h1 : (br.type == "") = false := by simpa using ht.1
    have h2 : (br.type != "message" && br.type != "bindings") = true := by
      simp [ht.2.1, ht.2.2]
    simp only [h1, Bool.false_eq_true, if_false, h2, if_true]

theorem cNode_error_null_branch {c : Codec} {known : String → Bool} {srcOk : Source → Bool}
    {syn name : String} {n : RawNode} {br : RawBranching}
    (hb : n.branching = some br) (hnull : none ∈ br.branches) :
    ∃ e, cNode c known srcOk syn (name, some n) = .error e := by
  rw [cNode_some, hb]
  cases compileSource known srcOk n.action with
  | error e => exact ⟨e, rfl⟩
  | ok a =>
    simp only
    generalize (if br.type == "" then "bindings" else br.type) = ty0
    split
    · exact ⟨_, rfl⟩
    · obtain ⟨e', he'⟩ := mapM'_error_of_mem (f := cBranch c known srcOk syn) (e := .nullBranch) hnull rfl
      exact ⟨e', by simp only [he']⟩

theorem ppNode_error_bad_syntax {c : Codec} {syn name : String} {n : RawNode} {br : RawBranching}
    {b : RawBranch} (hb : n.branching = some br) (hbr : some b ∈ br.branches)
    (hs : syn ≠ "" ∧ syn ≠ "none" ∧ syn ≠ "json") :
    ∃ e, ppNode c syn (name, some n) = .error e := by
  have hpp : parsePattern c syn b.pattern = .error (.badSyntax syn) := by
    unfold parsePattern
    have h1 : (syn == "none" || syn == "") = false := by simp [hs.1, hs.2.1]
    have h2 : (syn == "json") = false := by simp [hs.2.2]
    simp only [h1, h2, Bool.false_eq_true, if_false]
  have hbb : ppBranch c syn (some b) = .error (.badSyntax syn) := by
    simp only [ppBranch, parseAndCanon, hpp]
  obtain ⟨e', he'⟩ := mapM'_error_of_mem hbr hbb
  refine ⟨e', ?_⟩
  simp only [ppNode, hb, he']

/-! ## patterns as JSON text -/

/-- a pattern written as JSON text (left alone when it cannot be marshalled) -/
def tPat (c : Codec) (p : V) : V := match c.marshal p with | some t => V.str t | none => p

def tBranch (c : Codec) (b : Option RawBranch) : Option RawBranch :=
  b.map (fun b => { b with pattern := b.pattern.map (tPat c) })

def tNode (c : Codec) (x : String × Option RawNode) : String × Option RawNode :=
  (x.1, x.2.map (fun n => { n with branching := n.branching.map (fun br =>
    { br with branches := br.branches.map (tBranch c) }) }))

/-- the document with every pattern as JSON text (this is `C13.asText`) -/
def asText' (c : Codec) (s : RawSpec) : RawSpec :=
  { s with patternSyntax := "json", nodes := s.nodes.map (fun nodes => nodes.map (tNode c)) }

theorem nullToNone_of_ne (v : V) :
    v ≠ .null → (match v with | .null => (none : Option V) | x => some x) = some v := by
  intro h
  cases v <;> first | rfl | exact absurd rfl h

theorem parsePattern_plain {c : Codec} {syn : String} (hs : syn = "" ∨ syn = "none") (p : Option V) :
    parsePattern c syn p = .ok p := by
  rcases hs with rfl | rfl <;> simp [parsePattern]

/-- a `P` pattern written as text parses back to itself -/
theorem parsePattern_text {c : Codec} {P : V → Prop}
    (rt : ∀ v, P v → ∃ t, c.marshal v = some t ∧ c.unmarshal t = some v)
    (nn : ∀ v, P v → v ≠ .null) (p : Option V) (hp : ∀ v, p = some v → P v) :
    parsePattern c "json" (p.map (tPat c)) = .ok p := by
  cases p with
  | none => simp [parsePattern]
  | some v =>
    obtain ⟨t, hm, hu⟩ := rt v (hp v rfl)
    have hne := nullToNone_of_ne v (nn v (hp v rfl))
    simp only [Option.map_some, tPat, hm]
    unfold parsePattern
    simp only [hu]
    simp
    exact hne

theorem parseAndCanon_text {c : Codec} {P : V → Prop}
    (rt : ∀ v, P v → ∃ t, c.marshal v = some t ∧ c.unmarshal t = some v)
    (nn : ∀ v, P v → v ≠ .null) {syn : String} (hs : syn = "" ∨ syn = "none")
    (p : Option V) (hp : ∀ v, p = some v → P v) :
    parseAndCanon c "json" (p.map (tPat c)) = parseAndCanon c syn p := by
  unfold parseAndCanon
  rw [parsePattern_text rt nn p hp, parsePattern_plain hs p]

theorem ppBranch_text {c : Codec} {P : V → Prop}
    (rt : ∀ v, P v → ∃ t, c.marshal v = some t ∧ c.unmarshal t = some v)
    (nn : ∀ v, P v → v ≠ .null) {syn : String} (hs : syn = "" ∨ syn = "none")
    (b : Option RawBranch) (hp : ∀ rb, b = some rb → ∀ v, rb.pattern = some v → P v) :
    ppBranch c "json" (tBranch c b) = ppBranch c syn b := by
  cases b with
  | none => rfl
  | some rb =>
    simp only [tBranch, Option.map_some, ppBranch]
    rw [parseAndCanon_text rt nn hs rb.pattern (hp rb rfl)]

theorem ppNode_text {c : Codec} {P : V → Prop}
    (rt : ∀ v, P v → ∃ t, c.marshal v = some t ∧ c.unmarshal t = some v)
    (nn : ∀ v, P v → v ≠ .null) {syn : String} (hs : syn = "" ∨ syn = "none")
    (x : String × Option RawNode)
    (hp : ∀ n, x.2 = some n → ∀ br, n.branching = some br → ∀ b, some b ∈ br.branches →
      ∀ v, b.pattern = some v → P v) :
    ppNode c "json" (tNode c x) = ppNode c syn x := by
  obtain ⟨name, on⟩ := x
  cases on with
  | none => rfl
  | some n =>
    cases hb : n.branching with
    | none =>
      simp only [ppNode, tNode, Option.map_some, hb, Option.map_none]
      cases n with
      | mk a b => simp only at hb; subst hb; rfl
    | some br =>
      have hm : mapM' (ppBranch c "json") (br.branches.map (tBranch c)) =
          mapM' (ppBranch c syn) br.branches := by
        rw [mapM'_map]
        apply mapM'_congr
        intro b hbm
        apply ppBranch_text rt nn hs
        intro rb hrb v hv
        subst hrb
        exact hp n rfl br hb rb hbm v hv
      simp only [ppNode, tNode, Option.map_some, hb, hm]

/-- every pattern of a document is in `P` (this is `C13.PatternsIn`) -/
def PatsIn (P : V → Prop) (s : RawSpec) : Prop :=
  ∀ nodes, s.nodes = some nodes → ∀ name n, (name, some n) ∈ nodes → ∀ br, n.branching = some br →
    ∀ b, some b ∈ br.branches → ∀ p, b.pattern = some p → P p

theorem parsePatterns_text {c : Codec} {P : V → Prop}
    (rt : ∀ v, P v → ∃ t, c.marshal v = some t ∧ c.unmarshal t = some v)
    (nn : ∀ v, P v → v ≠ .null) {s : RawSpec} (hs : s.patternSyntax = "" ∨ s.patternSyntax = "none")
    (hp : PatsIn P s) {nodes : List (String × Option RawNode)} (hn : s.nodes = some nodes) :
    parsePatterns c (asText' c s) = parsePatterns c s := by
  have hm : mapM' (ppNode c "json") (nodes.map (tNode c)) =
      mapM' (ppNode c s.patternSyntax) nodes := by
    rw [mapM'_map]
    apply mapM'_congr
    intro x hx
    apply ppNode_text rt nn hs
    intro n hxn br hbr b hb v hv
    obtain ⟨name, on⟩ := x
    simp only at hxn
    subst hxn
    exact hp nodes hn name n hx br hbr b hb v hv
  have h1 : (asText' c s).nodes = some (nodes.map (tNode c)) := by
    simp only [asText', hn, Option.map_some]
  have h2 : (asText' c s).patternSyntax = "json" := rfl
  rw [parsePatterns_eq, parsePatterns_eq, h1, h2, hn]
  simp only [hm]
  rfl

theorem nodes1_nonodes {s : RawSpec} (hn : s.nodes = none) :
    nodes1 s = if s.noAutoErrorNode then []
               else [(errName s, some { action := none, branching := none })] := by
  unfold nodes1
  rw [hn]
  simp

/-- without a node list the compiled spec does not depend on the pattern syntax -/
theorem compileCore_nonodes {c : Codec} {known : String → Bool} {srcOk : Source → Bool} {s : RawSpec}
    (hn : s.nodes = none) :
    compileCore c known srcOk s =
      .ok { name := s.name,
            nodes := if s.noAutoErrorNode then []
                     else [(errName s, { action := none, branches := none })],
            actionErrorBranches := s.actionErrorBranches,
            actionErrorNode := s.actionErrorNode, errorNode := errName s,
            noAutoErrorNode := s.noAutoErrorNode } := by
  unfold compileCore
  rw [nodes1_nonodes hn]
  cases s.noAutoErrorNode <;> rfl

theorem compile_text_nonodes {c : Codec} {known : String → Bool} {srcOk : Source → Bool} {s : RawSpec}
    (hn : s.nodes = none) :
    compile c known srcOk (asText' c s) = compile c known srcOk s := by
  have h1 : (asText' c s).nodes = none := by simp only [asText', hn, Option.map_none]
  have hp1 : parsePatterns c (asText' c s) = .ok (asText' c s) := by
    rw [parsePatterns_eq, h1]
  have hp2 : parsePatterns c s = .ok s := by
    rw [parsePatterns_eq, hn]
  rw [compile_eq, compile_eq, hp1, hp2]
  simp only
  rw [compileCore_nonodes h1, compileCore_nonodes hn]
  rfl

theorem compile_text {c : Codec} {P : V → Prop}
    (rt : ∀ v, P v → ∃ t, c.marshal v = some t ∧ c.unmarshal t = some v)
    (nn : ∀ v, P v → v ≠ .null) (known : String → Bool) (srcOk : Source → Bool)
    {s : RawSpec} (hs : s.patternSyntax = "" ∨ s.patternSyntax = "none") (hp : PatsIn P s) :
    compile c known srcOk (asText' c s) = compile c known srcOk s := by
  cases hn : s.nodes with
  | none => exact compile_text_nonodes hn
  | some nodes => rw [compile_eq, compile_eq, parsePatterns_text rt nn hs hp hn]

end Compile
