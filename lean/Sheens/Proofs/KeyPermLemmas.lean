import Sheens.Props.C02Exact

/-!
# Lemmas for C03 on linear patterns: re-ordering the keys of a pattern's maps

`Sheens.C03.KeyPerm` (defined in `Sheens/Props/C03Linear.lean`, which imports this file) relates a
pattern to its hereditary re-orderings.  This file proves, for an abstract relation built the same
way (`RelL` / `RelK` pointwise, then `List.Perm` on the entries of a map), that the things
`C02.match_exact` depends on are invariant:

* `EmbEq`  : the embeddings `Emb bs₀ σ · f` are the same (and string leaves are the same strings),
* `plainPat` is preserved,
* `varsOf` is the same up to `List.Perm` (hence `Linear`, `PlainVars` and the domain condition).

`Inv` packages the three; `Inv.refl`, `Inv.arr`, `Inv.obj` are the three constructors of `KeyPerm`.
-/

namespace Sheens.KeyPermLemmas

/-! ## pointwise relations on lists and on association lists (same keys) -/

inductive RelL (R : V → V → Prop) : List V → List V → Prop
  | nil : RelL R [] []
  | cons {x y : V} {xs ys : List V} : R x y → RelL R xs ys → RelL R (x :: xs) (y :: ys)

inductive RelK (R : V → V → Prop) : List (String × V) → List (String × V) → Prop
  | nil : RelK R [] []
  | cons {k : String} {x y : V} {xs ys : List (String × V)} :
      R x y → RelK R xs ys → RelK R ((k, x) :: xs) ((k, y) :: ys)

theorem RelL.imp {R S : V → V → Prop} (h : ∀ x y, R x y → S x y) {xs ys : List V}
    (hr : RelL R xs ys) : RelL S xs ys := by
  induction hr with
  | nil => exact RelL.nil
  | cons hxy _ ih => exact RelL.cons (h _ _ hxy) ih

theorem RelK.imp {R S : V → V → Prop} (h : ∀ x y, R x y → S x y) {xs ys : List (String × V)}
    (hr : RelK R xs ys) : RelK S xs ys := by
  induction hr with
  | nil => exact RelK.nil
  | cons hxy _ ih => exact RelK.cons (h _ _ hxy) ih

theorem RelL.flip {R : V → V → Prop} (h : ∀ x y, R x y → R y x) {xs ys : List V}
    (hr : RelL R xs ys) : RelL R ys xs := by
  induction hr with
  | nil => exact RelL.nil
  | cons hxy _ ih => exact RelL.cons (h _ _ hxy) ih

theorem RelK.flip {R : V → V → Prop} (h : ∀ x y, R x y → R y x) {xs ys : List (String × V)}
    (hr : RelK R xs ys) : RelK R ys xs := by
  induction hr with
  | nil => exact RelK.nil
  | cons hxy _ ih => exact RelK.cons (h _ _ hxy) ih

theorem RelL.append {R : V → V → Prop} {a a' b b' : List V} (h1 : RelL R a a')
    (h2 : RelL R b b') : RelL R (a ++ b) (a' ++ b') := by
  induction h1 with
  | nil => exact h2
  | cons hxy _ ih => exact RelL.cons hxy ih

theorem RelL.reverse {R : V → V → Prop} {a a' : List V} (h : RelL R a a') :
    RelL R a.reverse a'.reverse := by
  induction h with
  | nil => exact RelL.nil
  | cons hxy _ ih =>
    rw [List.reverse_cons, List.reverse_cons]
    exact ih.append (RelL.cons hxy RelL.nil)

/-! ## the embeddings are the same -/

/-- same string leaves -/
def StrSame (x y : V) : Prop := ∀ s, x = .str s ↔ y = .str s

/-- `x` and `y` are the same string if either is one, and have the same embeddings -/
def EmbEq (bs₀ σ : Bs) (x y : V) : Prop :=
  StrSame x y ∧ ∀ f, Emb bs₀ σ x f ↔ Emb bs₀ σ y f

theorem EmbEq.refl (bs₀ σ : Bs) (x : V) : EmbEq bs₀ σ x x :=
  ⟨fun _ => Iff.rfl, fun _ => Iff.rfl⟩

theorem EmbEq.symm {bs₀ σ : Bs} {x y : V} (h : EmbEq bs₀ σ x y) : EmbEq bs₀ σ y x :=
  ⟨fun s => (h.1 s).symm, fun f => (h.2 f).symm⟩

theorem getVariable_nonstr {x : V} (hx : ∀ s, x ≠ .str s) (xs : List V) (v : Option String)
    (acc : List V) : getVariable (x :: xs) v acc = getVariable xs v (x :: acc) := by
  cases x <;> first | rfl | exact absurd rfl (hx _)

theorem getVariable_rel {R : V → V → Prop} (hstr : ∀ x y, R x y → StrSame x y)
    {ps ps' : List V} (hps : RelL R ps ps') :
    ∀ {acc acc' : List V} {v vo : Option String} {xs : List V}, RelL R acc acc' →
      getVariable ps v acc = .ok (vo, xs) →
      ∃ xs', getVariable ps' v acc' = .ok (vo, xs') ∧ RelL R xs xs' := by
  induction hps with
  | nil =>
    intro acc acc' v vo xs hacc h
    simp only [getVariable, Except.ok.injEq, Prod.mk.injEq] at h
    obtain ⟨rfl, rfl⟩ := h
    exact ⟨acc'.reverse, by simp [getVariable], hacc.reverse⟩
  | @cons x y xs0 ys0 hxy _ ih =>
    intro acc acc' v vo xs hacc h
    by_cases hx : ∃ s, x = .str s
    · obtain ⟨s, rfl⟩ := hx
      have hy : y = .str s := ((hstr _ _ hxy) s).mp rfl
      subst hy
      by_cases hvs : isVar s = true
      · cases v with
        | none =>
          simp only [getVariable, hvs, if_true] at h ⊢
          exact ih hacc h
        | some v' =>
          simp only [getVariable, hvs, if_true] at h
          split at h <;> cases h
      · simp only [getVariable, hvs] at h ⊢
        exact ih (RelL.cons hxy hacc) h
    · have hx' : ∀ s, x ≠ .str s := fun s e => hx ⟨s, e⟩
      have hy' : ∀ s, y ≠ .str s := fun s e => hx' s (((hstr _ _ hxy) s).mpr e)
      rw [getVariable_nonstr hx'] at h
      rw [getVariable_nonstr hy']
      exact ih (RelL.cons hxy hacc) h

theorem ArrEmbX_rel {bs₀ σ : Bs} {R : V → V → Prop}
    (hemb : ∀ x y, R x y → ∀ f, Emb bs₀ σ x f → Emb bs₀ σ y f)
    {xs xs' : List V} (hr : RelL R xs xs') :
    ∀ {fs L : List V}, ArrEmbX bs₀ σ xs fs L → ArrEmbX bs₀ σ xs' fs L := by
  induction hr with
  | nil => intro fs L h; exact h
  | cons hxy _ ih =>
    intro fs L h
    cases h with
    | cons hp he hrest => exact ArrEmbX.cons hp (hemb _ _ hxy _ he) (ih hrest)

theorem Emb_arr_rel {bs₀ σ : Bs} {ps ps' : List V} (hr : RelL (EmbEq bs₀ σ) ps ps') {f : V}
    (h : Emb bs₀ σ (.arr ps) f) : Emb bs₀ σ (.arr ps') f := by
  cases h with
  | scalar hc _ => simp [isScalarConst] at hc
  | arr hg ha hvo =>
    obtain ⟨xs', hg', hxs⟩ := getVariable_rel (fun _ _ h => h.1) hr RelL.nil hg
    exact Emb.arr hg' (ArrEmbX_rel (fun _ _ h f => (h.2 f).mp) hxs ha) hvo

theorem EmbEq.arr {bs₀ σ : Bs} {ps ps' : List V} (hr : RelL (EmbEq bs₀ σ) ps ps') :
    EmbEq bs₀ σ (.arr ps) (.arr ps') :=
  ⟨fun _ => ⟨(fun h => nomatch h), (fun h => nomatch h)⟩,
   fun _ => ⟨Emb_arr_rel hr, Emb_arr_rel (hr.flip (fun _ _ h => h.symm))⟩⟩

theorem isOptVar_str {x : V} (h : isOptVar x = true) : ∃ s, x = .str s := by
  cases x <;> first | exact ⟨_, rfl⟩ | simp [isOptVar] at h

theorem ObjEmb_rel {bs₀ σ : Bs} {kvs mid : List (String × V)} (hr : RelK (EmbEq bs₀ σ) kvs mid)
    {fm : List (String × V)} (h : ObjEmb bs₀ σ kvs fm) : ObjEmb bs₀ σ mid fm := by
  induction hr with
  | nil => exact ObjEmb.nil
  | @cons k x y xs ys hxy _ ih =>
    cases h with
    | present hk hl he hrest => exact ObjEmb.present hk hl ((hxy.2 _).mp he) (ih hrest)
    | absent hk hl ho hrest =>
      obtain ⟨s, rfl⟩ := isOptVar_str ho
      have hy : y = .str s := (hxy.1 s).mp rfl
      subst hy
      exact ObjEmb.absent hk hl ho (ih hrest)

theorem Emb_obj_rel {bs₀ σ : Bs} {kvs mid : List (String × V)} (hr : RelK (EmbEq bs₀ σ) kvs mid)
    {f : V} (h : Emb bs₀ σ (.obj kvs) f) : Emb bs₀ σ (.obj mid) f := by
  cases h with
  | scalar hc _ => simp [isScalarConst] at hc
  | objEmpty => cases hr; exact Emb.objEmpty
  | objProp hk hm hva he =>
    cases hr with
    | cons hxy hrest =>
      cases hrest
      exact Emb.objProp hk hm hva ((hxy.2 _).mp he)
  | obj hne ho =>
    refine Emb.obj ?_ (ObjEmb_rel hr ho)
    cases hr with
    | nil => exact absurd rfl hne
    | cons _ _ => exact List.cons_ne_nil _ _

/-- what `ObjEmb` asks of one entry of the pattern's map -/
def EntryOK (bs₀ σ : Bs) (fm : List (String × V)) (kv : String × V) : Prop :=
  isVar kv.1 = false ∧
    ((∃ fv, lookup kv.1 fm = some fv ∧ Emb bs₀ σ kv.2 fv) ∨
     (lookup kv.1 fm = none ∧ isOptVar kv.2 = true))

theorem ObjEmb_iff_forall {bs₀ σ : Bs} {pm fm : List (String × V)} :
    ObjEmb bs₀ σ pm fm ↔ ∀ kv ∈ pm, EntryOK bs₀ σ fm kv := by
  induction pm with
  | nil => exact ⟨(fun _ _ hm => nomatch hm), (fun _ => ObjEmb.nil)⟩
  | cons kv rest ih =>
    obtain ⟨k, pv⟩ := kv
    constructor
    · intro h kv hm
      cases h with
      | present hk hl he hrest =>
        rcases List.mem_cons.mp hm with rfl | hm
        · exact ⟨hk, Or.inl ⟨_, hl, he⟩⟩
        · exact ih.mp hrest kv hm
      | absent hk hl ho hrest =>
        rcases List.mem_cons.mp hm with rfl | hm
        · exact ⟨hk, Or.inr ⟨hl, ho⟩⟩
        · exact ih.mp hrest kv hm
    · intro h
      have hrest := ih.mpr (fun kv hm => h kv (List.mem_cons_of_mem _ hm))
      obtain ⟨hk, ⟨fv, hl, he⟩ | ⟨hl, ho⟩⟩ := h (k, pv) List.mem_cons_self
      · exact ObjEmb.present hk hl he hrest
      · exact ObjEmb.absent hk hl ho hrest

theorem ObjEmb_perm {bs₀ σ : Bs} {pm pm' fm : List (String × V)} (hp : pm.Perm pm')
    (h : ObjEmb bs₀ σ pm fm) : ObjEmb bs₀ σ pm' fm :=
  ObjEmb_iff_forall.mpr (fun kv hm => ObjEmb_iff_forall.mp h kv (hp.mem_iff.mpr hm))

theorem Emb_obj_perm {bs₀ σ : Bs} {mid kvs' : List (String × V)} (hp : mid.Perm kvs') {f : V}
    (h : Emb bs₀ σ (.obj mid) f) : Emb bs₀ σ (.obj kvs') f := by
  cases h with
  | scalar hc _ => simp [isScalarConst] at hc
  | objEmpty => rw [← hp.nil_eq]; exact Emb.objEmpty
  | objProp hk hm hva he =>
    rw [← List.singleton_perm.mp hp]
    exact Emb.objProp hk hm hva he
  | obj hne ho =>
    refine Emb.obj ?_ (ObjEmb_perm hp ho)
    intro e
    subst e
    exact hne hp.eq_nil

theorem EmbEq.obj {bs₀ σ : Bs} {kvs mid kvs' : List (String × V)}
    (hr : RelK (EmbEq bs₀ σ) kvs mid) (hp : mid.Perm kvs') :
    EmbEq bs₀ σ (.obj kvs) (.obj kvs') :=
  ⟨fun _ => ⟨(fun h => nomatch h), (fun h => nomatch h)⟩,
   fun _ => ⟨fun h => Emb_obj_perm hp (Emb_obj_rel hr h),
             fun h => Emb_obj_rel (hr.flip (fun _ _ h => h.symm)) (Emb_obj_perm hp.symm h)⟩⟩

/-! ## `plainPat` is preserved -/

theorem plainPatList_rel {R : V → V → Prop}
    (hR : ∀ x y, R x y → x.plainPat = true → y.plainPat = true) {xs ys : List V}
    (hr : RelL R xs ys) (h : plainPatList xs = true) : plainPatList ys = true := by
  induction hr with
  | nil => rfl
  | cons hxy _ ih =>
    simp only [plainPatList, Bool.and_eq_true] at h ⊢
    exact ⟨hR _ _ hxy h.1, ih h.2⟩

theorem keyFresh_rel {R : V → V → Prop} {xs ys : List (String × V)} (hr : RelK R xs ys)
    (k : String) : keyFresh k xs = keyFresh k ys := by
  induction hr with
  | nil => rfl
  | cons _ _ ih => simp only [keyFresh, ih]

theorem plainPatKvs_rel {R : V → V → Prop}
    (hR : ∀ x y, R x y → x.plainPat = true → y.plainPat = true) {xs ys : List (String × V)}
    (hr : RelK R xs ys) (h : plainPatKvs xs = true) : plainPatKvs ys = true := by
  induction hr with
  | nil => rfl
  | cons hxy hrest ih =>
    simp only [plainPatKvs, Bool.and_eq_true] at h ⊢
    exact ⟨⟨hR _ _ hxy h.1.1, by rw [← keyFresh_rel hrest]; exact h.1.2⟩, ih h.2⟩

theorem keyFresh_iff {k : String} {kvs : List (String × V)} :
    keyFresh k kvs = true ↔ k ∉ kvs.map Prod.fst := by
  induction kvs with
  | nil => simp [keyFresh]
  | cons kv rest ih =>
    obtain ⟨k', v⟩ := kv
    simp only [keyFresh, Bool.and_eq_true, bne_iff_ne, ne_eq, ih, List.map_cons, List.mem_cons,
      not_or]

theorem plainPatKvs_iff {kvs : List (String × V)} :
    plainPatKvs kvs = true ↔
      (∀ kv ∈ kvs, kv.2.plainPat = true) ∧ (kvs.map Prod.fst).Nodup := by
  induction kvs with
  | nil => simp [plainPatKvs]
  | cons kv rest ih =>
    obtain ⟨k, v⟩ := kv
    simp only [plainPatKvs, Bool.and_eq_true, ih, keyFresh_iff, List.map_cons, List.nodup_cons,
      List.mem_cons, forall_eq_or_imp]
    constructor
    · rintro ⟨⟨h1, h2⟩, h3, h4⟩; exact ⟨⟨h1, h3⟩, h2, h4⟩
    · rintro ⟨⟨h1, h3⟩, h2, h4⟩; exact ⟨⟨h1, h2⟩, h3, h4⟩

theorem plainPatKvs_perm {mid kvs' : List (String × V)} (hp : mid.Perm kvs')
    (h : plainPatKvs mid = true) : plainPatKvs kvs' = true := by
  rw [plainPatKvs_iff] at h ⊢
  exact ⟨fun kv hm => h.1 kv (hp.mem_iff.mpr hm), ((hp.map Prod.fst).nodup_iff).mp h.2⟩

/-! ## the variables are the same up to order -/

theorem varsOfList_rel {R : V → V → Prop} (hR : ∀ x y, R x y → (varsOf x).Perm (varsOf y))
    {xs ys : List V} (hr : RelL R xs ys) : (varsOfList xs).Perm (varsOfList ys) := by
  induction hr with
  | nil => exact List.Perm.refl _
  | cons hxy _ ih =>
    simp only [varsOfList]
    exact (hR _ _ hxy).append ih

theorem varsOfKvs_rel {R : V → V → Prop} (hR : ∀ x y, R x y → (varsOf x).Perm (varsOf y))
    {xs ys : List (String × V)} (hr : RelK R xs ys) : (varsOfKvs xs).Perm (varsOfKvs ys) := by
  induction hr with
  | nil => exact List.Perm.refl _
  | cons hxy _ ih =>
    simp only [varsOfKvs]
    exact ((hR _ _ hxy).append_left _).append ih

theorem varsOfKvs_flatMap (kvs : List (String × V)) :
    varsOfKvs kvs =
      kvs.flatMap (fun kv => (if isVar kv.1 then [kv.1] else []) ++ varsOf kv.2) := by
  induction kvs with
  | nil => rfl
  | cons kv rest ih =>
    obtain ⟨k, v⟩ := kv
    simp only [varsOfKvs, List.flatMap_cons, ih]

theorem varsOfKvs_perm {mid kvs' : List (String × V)} (hp : mid.Perm kvs') :
    (varsOfKvs mid).Perm (varsOfKvs kvs') := by
  rw [varsOfKvs_flatMap, varsOfKvs_flatMap]
  exact hp.flatMap_right _

/-! ## the three invariants together -/

structure Inv (bs₀ σ : Bs) (p p' : V) : Prop where
  emb   : EmbEq bs₀ σ p p'
  plain : p.plainPat = true → p'.plainPat = true
  vars  : (varsOf p).Perm (varsOf p')

theorem Inv.refl (bs₀ σ : Bs) (v : V) : Inv bs₀ σ v v :=
  ⟨EmbEq.refl _ _ _, id, List.Perm.refl _⟩

theorem Inv.arr {bs₀ σ : Bs} {xs ys : List V} (hr : RelL (Inv bs₀ σ) xs ys) :
    Inv bs₀ σ (.arr xs) (.arr ys) where
  emb := EmbEq.arr (hr.imp (fun _ _ h => h.emb))
  plain := by
    intro h
    simp only [V.plainPat] at h ⊢
    exact plainPatList_rel (fun _ _ h => h.plain) hr h
  vars := by
    simp only [varsOf]
    exact varsOfList_rel (fun _ _ h => h.vars) hr

theorem Inv.obj {bs₀ σ : Bs} {kvs mid kvs' : List (String × V)}
    (hr : RelK (Inv bs₀ σ) kvs mid) (hp : mid.Perm kvs') :
    Inv bs₀ σ (.obj kvs) (.obj kvs') where
  emb := EmbEq.obj (hr.imp (fun _ _ h => h.emb)) hp
  plain := by
    intro h
    simp only [V.plainPat] at h ⊢
    exact plainPatKvs_perm hp (plainPatKvs_rel (fun _ _ h => h.plain) hr h)
  vars := by
    simp only [varsOf]
    exact (varsOfKvs_rel (fun _ _ h => h.vars) hr).trans (varsOfKvs_perm hp)

/-! ## assembly: `C02.match_exact` on both sides -/

open Sheens.C02 in
theorem Inv.order_independent {p p' f : V} {σ : Bs} (hi : Inv [] σ p p')
    (hp : p.plainPat = true) (hf : f.good = true) (hs : setLike f = true)
    (hl : Linear p) (hv : PlainVars p) (hσ : GoodBs σ)
    (hdom : ∀ k, lookup k σ ≠ none → k ∈ varsOf p ∧ isAnon k = false) :
    (∃ n rs, matchF n p f [] = .ok rs ∧ ∃ r ∈ rs, ∀ k, lookup k r = lookup k σ) ↔
    (∃ n rs, matchF n p' f [] = .ok rs ∧ ∃ r ∈ rs, ∀ k, lookup k r = lookup k σ) := by
  have hp' : p'.plainPat = true := hi.plain hp
  have hl' : Linear p' := by
    unfold Linear at hl ⊢
    exact ((hi.vars.filter _).nodup_iff).mp hl
  have hv' : PlainVars p' := fun v hm => hv v (hi.vars.mem_iff.mpr hm)
  have hdom' : ∀ k, lookup k σ ≠ none → k ∈ varsOf p' ∧ isAnon k = false :=
    fun k hk => ⟨hi.vars.mem_iff.mp (hdom k hk).1, (hdom k hk).2⟩
  rw [← match_exact p f σ hp hf hs hl hv hσ hdom,
      ← match_exact p' f σ hp' hf hs hl' hv' hσ hdom']
  exact hi.emb.2 f

end Sheens.KeyPermLemmas
