import Sheens.MatchSpec

/-!
# Well-formedness predicates for the soundness theorem (C01)

* `V.good`     : what a JSON message / bound value looks like
* `V.plainPat` : what a JSON pattern looks like
* `GoodBs`, `IneqPrebound`
-/

/-- `k` differs from every key of the association list -/
def keyFresh (k : String) : List (String × V) → Bool
  | [] => true
  | (k', _) :: rest => k != k' && keyFresh k rest

mutual
/-- hereditarily JSON-plain (no `.int/.bobj/.other`), no string beginning with '?' anywhere
    (keys included), object keys pairwise distinct -/
def V.good : V → Bool
  | .null => true
  | .bool _ => true
  | .num _ => true
  | .str s => !isVar s
  | .arr xs => goodList xs
  | .obj kvs => goodKvs kvs
  | .int _ => false
  | .bobj _ => false
  | .other _ => false
def goodList : List V → Bool
  | [] => true
  | x :: xs => x.good && goodList xs
def goodKvs : List (String × V) → Bool
  | [] => true
  | (k, v) :: rest => !isVar k && v.good && keyFresh k rest && goodKvs rest
end

mutual
/-- hereditarily JSON-plain pattern (variables allowed), object keys pairwise distinct -/
def V.plainPat : V → Bool
  | .null => true
  | .bool _ => true
  | .num _ => true
  | .str _ => true
  | .arr xs => plainPatList xs
  | .obj kvs => plainPatKvs kvs
  | .int _ => false
  | .bobj _ => false
  | .other _ => false
def plainPatList : List V → Bool
  | [] => true
  | x :: xs => x.plainPat && plainPatList xs
def plainPatKvs : List (String × V) → Bool
  | [] => true
  | (k, v) :: rest => v.plainPat && keyFresh k rest && plainPatKvs rest
end

/-- every bound value is a `good` value -/
def GoodBs (bs : Bs) : Prop := ∀ k v, lookup k bs = some v → v.good = true

/-- a variable whose name carries an inequality operator is used as documented:
    it is pre-bound in the given bindings -/
def IneqPrebound (p : V) (bs₀ : Bs) : Prop :=
  ∀ v ∈ varsOf p, ineqOf v ≠ none → lookup v bs₀ ≠ none

theorem fudge_good {f : V} (h : f.good = true) : fudge f = f := by
  cases f <;> simp_all [fudge, V.good]

theorem fudge_plainPat {p : V} (h : p.plainPat = true) : fudge p = p := by
  cases p <;> simp_all [fudge, V.plainPat]

theorem lookup_of_keyFresh {k : String} {kvs : List (String × V)} (h : keyFresh k kvs = true) :
    lookup k kvs = none := by
  induction kvs with
  | nil => rfl
  | cons kv rest ih =>
    obtain ⟨k', v⟩ := kv
    simp only [keyFresh, Bool.and_eq_true, bne_iff_ne, ne_eq] at h
    simp only [lookup, h.1, ↓reduceIte]
    exact ih h.2

theorem keyFresh_ne {k : String} {kvs : List (String × V)} (h : keyFresh k kvs = true) :
    ∀ kv ∈ kvs, kv.1 ≠ k := by
  induction kvs with
  | nil => intro kv hm; cases hm
  | cons kv rest ih =>
    obtain ⟨k', v⟩ := kv
    simp only [keyFresh, Bool.and_eq_true, bne_iff_ne, ne_eq] at h
    intro kv hm
    rcases List.mem_cons.mp hm with rfl | hm
    · exact fun e => h.1 e.symm
    · exact ih h.2 kv hm

theorem good_lookup {fm : List (String × V)} {k : String} {fv : V}
    (hg : goodKvs fm = true) (hl : lookup k fm = some fv) : fv.good = true := by
  induction fm with
  | nil => simp [lookup] at hl
  | cons kv rest ih =>
    obtain ⟨k', v⟩ := kv
    simp only [goodKvs, Bool.and_eq_true] at hg
    simp only [lookup] at hl
    split at hl
    · cases hl; exact hg.1.1.2
    · exact ih hg.2 hl

theorem goodKvs_mem {fm : List (String × V)} (hg : goodKvs fm = true) :
    ∀ kv ∈ fm, isVar kv.1 = false ∧ kv.2.good = true := by
  induction fm with
  | nil => intro kv hm; cases hm
  | cons kv rest ih =>
    obtain ⟨k', v⟩ := kv
    simp only [goodKvs, Bool.and_eq_true, Bool.not_eq_true'] at hg
    intro kv hm
    rcases List.mem_cons.mp hm with rfl | hm
    · exact ⟨hg.1.1.1, hg.1.1.2⟩
    · exact ih hg.2 kv hm

theorem goodList_mem {xs : List V} (hg : goodList xs = true) : ∀ x ∈ xs, x.good = true := by
  induction xs with
  | nil => intro x hm; cases hm
  | cons y rest ih =>
    simp only [goodList, Bool.and_eq_true] at hg
    intro x hm
    rcases List.mem_cons.mp hm with rfl | hm
    · exact hg.1
    · exact ih hg.2 x hm

theorem plainPatList_mem {xs : List V} (hg : plainPatList xs = true) :
    ∀ x ∈ xs, x.plainPat = true := by
  induction xs with
  | nil => intro x hm; cases hm
  | cons y rest ih =>
    simp only [plainPatList, Bool.and_eq_true] at hg
    intro x hm
    rcases List.mem_cons.mp hm with rfl | hm
    · exact hg.1
    · exact ih hg.2 x hm

mutual
theorem good_plainPat : (f : V) → f.good = true → f.plainPat = true
  | .null, _ => rfl
  | .bool _, _ => rfl
  | .num _, _ => rfl
  | .str _, _ => rfl
  | .arr xs, h => by
    simp only [V.plainPat]; exact goodList_plainPat xs (by simpa [V.good] using h)
  | .obj kvs, h => by
    simp only [V.plainPat]; exact goodKvs_plainPat kvs (by simpa [V.good] using h)
  | .int _, h => by simp [V.good] at h
  | .bobj _, h => by simp [V.good] at h
  | .other _, h => by simp [V.good] at h
theorem goodList_plainPat : (xs : List V) → goodList xs = true → plainPatList xs = true
  | [], _ => rfl
  | x :: xs, h => by
    simp only [goodList, Bool.and_eq_true] at h
    simp only [plainPatList, Bool.and_eq_true]
    exact ⟨good_plainPat x h.1, goodList_plainPat xs h.2⟩
theorem goodKvs_plainPat : (kvs : List (String × V)) → goodKvs kvs = true → plainPatKvs kvs = true
  | [], _ => rfl
  | (k, v) :: rest, h => by
    simp only [goodKvs, Bool.and_eq_true] at h
    simp only [plainPatKvs, Bool.and_eq_true]
    exact ⟨⟨good_plainPat v h.1.1.2, h.1.2⟩, goodKvs_plainPat rest h.2⟩
end

mutual
/-- a good value contains no variable -/
theorem good_varsOf : (f : V) → f.good = true → varsOf f = []
  | .null, _ => by simp [varsOf]
  | .bool _, _ => by simp [varsOf]
  | .num _, _ => by simp [varsOf]
  | .str s, h => by
    have : isVar s = false := by simpa [V.good] using h
    simp [varsOf, this]
  | .arr xs, h => by
    simp only [varsOf]; exact goodList_varsOf xs (by simpa [V.good] using h)
  | .obj kvs, h => by
    simp only [varsOf]; exact goodKvs_varsOf kvs (by simpa [V.good] using h)
  | .int _, h => by simp [V.good] at h
  | .bobj _, h => by simp [V.good] at h
  | .other _, h => by simp [V.good] at h
theorem goodList_varsOf : (xs : List V) → goodList xs = true → varsOfList xs = []
  | [], _ => by simp [varsOfList]
  | x :: xs, h => by
    simp only [goodList, Bool.and_eq_true] at h
    simp [varsOfList, good_varsOf x h.1, goodList_varsOf xs h.2]
theorem goodKvs_varsOf : (kvs : List (String × V)) → goodKvs kvs = true → varsOfKvs kvs = []
  | [], _ => by simp [varsOfKvs]
  | (k, v) :: rest, h => by
    simp only [goodKvs, Bool.and_eq_true, Bool.not_eq_true'] at h
    simp [varsOfKvs, h.1.1.1, good_varsOf v h.1.1.2, goodKvs_varsOf rest h.2]
end

/-- `ObjSat` only looks the pattern keys up in the fact map, so it is monotone under
    prepending a fresh key to the fact map -/
theorem ObjSat.weaken_fact {bs₀ r : Bs} {pm fm : List (String × V)} {k : String} {v : V}
    (hfresh : ∀ kv ∈ pm, kv.1 ≠ k) (h : ObjSat bs₀ r pm fm) : ObjSat bs₀ r pm ((k, v) :: fm) := by
  induction pm with
  | nil => exact ObjSat.nil
  | cons kv rest ih =>
    have hne : kv.1 ≠ k := hfresh kv List.mem_cons_self
    have hrest : ∀ kv' ∈ rest, kv'.1 ≠ k := fun kv' hm => hfresh kv' (List.mem_cons_of_mem _ hm)
    cases h with
    | present hk hl hs hr =>
      refine ObjSat.present hk ?_ hs (ih hrest hr)
      simp only [lookup]; rw [if_neg hne]; exact hl
    | absent hk hl ho hr =>
      refine ObjSat.absent hk ?_ ho (ih hrest hr)
      simp only [lookup]; rw [if_neg hne]; exact hl

mutual
/-- a good value, read as a pattern, is contained in itself -/
theorem sat_refl (bs₀ r : Bs) : (f : V) → f.good = true → Sat bs₀ r f f
  | .null, _ => Sat.scalar rfl rfl
  | .bool _, _ => Sat.scalar rfl rfl
  | .num _, _ => Sat.scalar rfl rfl
  | .str s, h => Sat.scalar (by simpa [isScalarConst, V.good] using h) rfl
  | .arr xs, h => Sat.arr (arr_refl bs₀ r xs (by simpa [V.good] using h))
  | .obj kvs, h => Sat.obj (obj_refl bs₀ r kvs (by simpa [V.good] using h))
  | .int _, h => by simp [V.good] at h
  | .bobj _, h => by simp [V.good] at h
  | .other _, h => by simp [V.good] at h
theorem arr_refl (bs₀ r : Bs) : (xs : List V) → goodList xs = true → ArrEmb bs₀ r xs xs
  | [], _ => ArrEmb.nil
  | x :: xs, h => by
    simp only [goodList, Bool.and_eq_true] at h
    exact ArrEmb.cons Pick.here (sat_refl bs₀ r x h.1) (arr_refl bs₀ r xs h.2)
theorem obj_refl (bs₀ r : Bs) : (kvs : List (String × V)) → goodKvs kvs = true →
    ObjSat bs₀ r kvs kvs
  | [], _ => ObjSat.nil
  | (k, v) :: rest, h => by
    simp only [goodKvs, Bool.and_eq_true, Bool.not_eq_true'] at h
    obtain ⟨⟨⟨hk, hv⟩, hf⟩, hr⟩ := h
    refine ObjSat.present hk (by simp [lookup]) (sat_refl bs₀ r v hv) ?_
    exact ObjSat.weaken_fact (keyFresh_ne hf) (obj_refl bs₀ r rest hr)
end

/-! ## decidability of `GoodBs` and `IneqPrebound` -/

/-- Bool version of `GoodBs`: every *visible* (first-hit) binding is good -/
def goodBsB (bs : Bs) : Bool :=
  bs.all (fun kv => match lookup kv.1 bs with | some v => v.good | none => true)

theorem lookup_mem {k : String} {v : V} {bs : List (String × V)} (h : lookup k bs = some v) :
    (k, v) ∈ bs := by
  induction bs with
  | nil => simp [lookup] at h
  | cons kv rest ih =>
    obtain ⟨k', v'⟩ := kv
    simp only [lookup] at h
    split at h
    · next heq => cases h; subst heq; exact List.mem_cons_self
    · exact List.mem_cons_of_mem _ (ih h)

theorem goodBs_iff {bs : Bs} : GoodBs bs ↔ goodBsB bs = true := by
  unfold GoodBs goodBsB
  rw [List.all_eq_true]
  constructor
  · intro h kv _
    split
    · next v hv => exact h _ _ hv
    · rfl
  · intro h k v hl
    have := h (k, v) (lookup_mem hl)
    simp only [hl] at this
    exact this

instance (bs : Bs) : Decidable (GoodBs bs) := decidable_of_iff _ goodBs_iff.symm

/-- Bool version of `IneqPrebound` -/
def ineqPreboundB (p : V) (bs₀ : Bs) : Bool :=
  (varsOf p).all (fun v => (ineqOf v).isNone || (lookup v bs₀).isSome)

theorem ineqPrebound_iff {p : V} {bs₀ : Bs} : IneqPrebound p bs₀ ↔ ineqPreboundB p bs₀ = true := by
  unfold IneqPrebound ineqPreboundB
  rw [List.all_eq_true]
  constructor
  · intro h v hv
    have := h v hv
    cases h1 : ineqOf v with
    | none => simp
    | some x =>
      cases h2 : lookup v bs₀ with
      | none => rw [h1] at this; exact absurd h2 (this (by simp))
      | some y => simp
  · intro h v hv hne
    have := h v hv
    cases h1 : ineqOf v with
    | none => exact absurd h1 hne
    | some x =>
      rw [h1] at this
      cases h2 : lookup v bs₀ with
      | none => rw [h2] at this; simp at this
      | some y => simp

instance (p : V) (bs₀ : Bs) : Decidable (IneqPrebound p bs₀) :=
  decidable_of_iff _ ineqPrebound_iff.symm
