import Sheens.Proofs.Permanent

/-!
# Value predicates that the matcher and the engine preserve

`ValPred P` says that `P : V → Prop` holds of the JSON scalars and holds of an array / object exactly
when it holds of the elements / member values.  "Hereditarily JSON-plain" (`Sheens.C09.plainV`) is
the instance of interest.  `AllBs P` lifts `P` to association lists (bindings, objects).
-/

namespace Plain

structure ValPred (P : V → Prop) : Prop where
  null : P .null
  bool : ∀ b, P (.bool b)
  num  : ∀ q, P (.num q)
  str  : ∀ s, P (.str s)
  arr  : ∀ xs, P (.arr xs) ↔ ∀ x ∈ xs, P x
  obj  : ∀ kvs, P (.obj kvs) ↔ ∀ kv ∈ kvs, P kv.2

/-- every value of the association list satisfies `P` -/
def AllBs (P : V → Prop) (bs : List (String × V)) : Prop := ∀ kv ∈ bs, P kv.2

/-- every message satisfies `P` -/
def AllMsgs (P : V → Prop) (msgs : List V) : Prop := ∀ m ∈ msgs, P m

section
variable {P : V → Prop}

theorem pred_fudge (hP : ValPred P) {v : V} (h : P v) : P (fudge v) := by
  cases v <;> first | exact h | exact hP.num _

theorem pred_scalar (hP : ValPred P) (sc : Scalar) : P sc.toV := by
  cases sc
  · exact hP.null
  · exact hP.bool _
  · exact hP.num _
  · exact hP.str _

theorem allBs_nil : AllBs P [] := fun _ h => by cases h

theorem allBs_cons {k : String} {v : V} {bs : List (String × V)} (hv : P v) (hb : AllBs P bs) :
    AllBs P ((k, v) :: bs) := by
  intro x hx
  rcases List.mem_cons.mp hx with hx | hx
  · subst hx; exact hv
  · exact hb x hx

theorem allBs_tail {kv : String × V} {bs : List (String × V)} (h : AllBs P (kv :: bs)) :
    AllBs P bs := fun x hx => h x (List.mem_cons_of_mem _ hx)

theorem all_lookup {k : String} {v : V} {bs : List (String × V)} (hb : AllBs P bs)
    (h : lookup k bs = some v) : P v := hb (k, v) (mem_of_lookup h)

theorem allBs_insertB {k : String} {v : V} {bs : Bs} (hv : P v) (hb : AllBs P bs) :
    AllBs P (insertB k v bs) := by
  intro x hx
  rcases mem_insertB hx with hx | hx
  · subst hx; exact hv
  · exact hb x hx

theorem mem_eraseB {k : String} {bs : Bs} {x : String × V} (h : x ∈ eraseB k bs) : x ∈ bs := by
  induction bs with
  | nil => exact h
  | cons kv rest ih =>
    obtain ⟨k', v'⟩ := kv
    simp only [eraseB] at h
    split at h
    · exact List.mem_cons_of_mem _ (ih h)
    · rcases List.mem_cons.mp h with h | h
      · exact h ▸ List.mem_cons_self
      · exact List.mem_cons_of_mem _ (ih h)

theorem allBs_eraseB {k : String} {bs : Bs} (hb : AllBs P bs) : AllBs P (eraseB k bs) :=
  fun x hx => hb x (mem_eraseB hx)

theorem allBs_permanentOf {bs : Bs} (hb : AllBs P bs) : AllBs P (permanentOf bs) :=
  fun x hx => hb x (List.mem_filter.mp hx).1

theorem allBs_restore {perm b : Bs} (hp : AllBs P perm) (hb : AllBs P b) :
    AllBs P (restore perm b) := by
  induction perm generalizing b with
  | nil => exact hb
  | cons kv rest ih =>
    rw [restore_cons]
    exact ih (allBs_tail hp) (allBs_insertB (hp kv List.mem_cons_self) hb)

theorem allMsgs_nil : AllMsgs P [] := fun _ h => by cases h

theorem allMsgs_append {a b : List V} (ha : AllMsgs P a) (hb : AllMsgs P b) :
    AllMsgs P (a ++ b) := by
  intro m hm
  rcases List.mem_append.mp hm with hm | hm
  · exact ha m hm
  · exact hb m hm

end

end Plain
