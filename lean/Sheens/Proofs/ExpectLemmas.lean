import Sheens.Expect

/-!
# Helper lemmas for C19 (`Expect.offer`, `Expect.runStep`)

`accepts` is treated opaquely throughout.
-/

namespace Expect

/-- the JSON lines of a chunk of events -/
def lines (evs : List Event) : List V :=
  evs.filterMap (fun e => match e with | .line v => some v | _ => none)

theorem lines_noise (evs : List Event) : lines (.noise :: evs) = lines evs := rfl
theorem lines_line (v : V) (evs : List Event) : lines (.line v :: evs) = v :: lines evs := rfl

/-- number of outstanding (expected, not yet satisfied) outputs -/
def cnt : List Output → List Bool → Nat
  | [], _ => 0
  | _ :: _, [] => 0
  | o :: os, s :: ss => (if (!o.inverted && !s) = true then 1 else 0) + cnt os ss

/-- the invariant relating the outputs, their satisfied flags and the set `L` of consumed lines -/
inductive Good (L : V → Prop) : List Output → List Bool → Prop
  | nil : Good L [] []
  | cons {o : Output} {s : Bool} {os : List Output} {ss : List Bool} :
      (s = true → o.inverted = false ∧ ∃ l, L l ∧ accepts o l = .ok true) →
      (o.inverted = true → ∀ l, L l → accepts o l ≠ .ok true) →
      Good L os ss → Good L (o :: os) (s :: ss)

theorem Good.congr {L L' : V → Prop} (hL : ∀ l, L l ↔ L' l) {outs : List Output} {sat : List Bool}
    (h : Good L outs sat) : Good L' outs sat := by
  induction h with
  | nil => exact .nil
  | cons h1 h2 _ ih =>
    refine .cons ?_ ?_ ih
    · intro hs
      obtain ⟨hi, l, hl, ha⟩ := h1 hs
      exact ⟨hi, l, (hL l).mp hl, ha⟩
    · intro hi l hl
      exact h2 hi l ((hL l).mpr hl)

theorem Good.init (outs : List Output) :
    Good (fun _ => False) outs (outs.map (fun _ => false)) := by
  induction outs with
  | nil => exact .nil
  | cons o os ih =>
    refine .cons ?_ ?_ ih
    · intro h; cases h
    · intro _ l hl; exact hl.elim

theorem cnt_init (outs : List Output) :
    cnt outs (outs.map (fun _ => false)) = (outs.filter (fun o => !o.inverted)).length := by
  induction outs with
  | nil => rfl
  | cons o os ih =>
    simp only [List.map_cons, cnt, ih, List.filter_cons]
    cases o.inverted <;> simp <;> omega

theorem Good.final {L : V → Prop} {outs : List Output} {sat : List Bool}
    (h : Good L outs sat) (hc : cnt outs sat = 0) :
    ∀ o ∈ outs, (o.inverted = false → ∃ l, L l ∧ accepts o l = .ok true) ∧
                (o.inverted = true → ∀ l, L l → accepts o l ≠ .ok true) := by
  induction h with
  | nil => intro o ho; cases ho
  | @cons o s os ss h1 h2 _ ih =>
    simp only [cnt] at hc
    have hc2 : cnt os ss = 0 := by omega
    have hc1 : (if (!o.inverted && !s) = true then 1 else 0) = 0 := by omega
    intro o' ho'
    rcases List.mem_cons.mp ho' with rfl | ho'
    · refine ⟨?_, h2⟩
      intro hi
      have hs : s = true := by
        cases s
        · simp [hi] at hc1
        · rfl
      exact (h1 hs).2
    · exact ih hc2 o' ho'

/-- one offered message preserves the invariant (with the message added to the consumed lines) and
    the count of outstanding outputs decreases by exactly the reported number -/
theorem offer_good (msg : V) {L : V → Prop} {outs : List Output} {sat : List Bool}
    (h : Good L outs sat) :
    ∀ sat' k, offer msg outs sat = .ok (sat', k) →
      Good (fun l => l = msg ∨ L l) outs sat' ∧ cnt outs sat' + k = cnt outs sat := by
  induction h with
  | nil =>
    intro sat' k ho
    simp only [offer, Except.ok.injEq, Prod.mk.injEq] at ho
    obtain ⟨rfl, rfl⟩ := ho
    exact ⟨.nil, rfl⟩
  | @cons o s os ss h1 h2 _ ih =>
    intro sat' k ho
    cases s with
    | true =>
      simp only [offer, if_true] at ho
      cases hoff : offer msg os ss with
      | error e => simp [hoff] at ho
      | ok r =>
        obtain ⟨fl, k'⟩ := r
        simp only [hoff, Except.ok.injEq, Prod.mk.injEq] at ho
        obtain ⟨rfl, rfl⟩ := ho
        obtain ⟨ihG, ihC⟩ := ih fl k' hoff
        obtain ⟨hi, l, hl, ha⟩ := h1 rfl
        refine ⟨.cons ?_ ?_ ihG, ?_⟩
        · intro _; exact ⟨hi, l, Or.inr hl, ha⟩
        · intro hi'; rw [hi] at hi'; cases hi'
        · simp only [cnt]; omega
    | false =>
      simp only [offer, Bool.false_eq_true, if_false] at ho
      cases hacc : accepts o msg with
      | error e => simp [hacc] at ho
      | ok a =>
        cases a with
        | false =>
          simp only [hacc] at ho
          cases hoff : offer msg os ss with
          | error e => simp [hoff] at ho
          | ok r =>
            obtain ⟨fl, k'⟩ := r
            simp only [hoff, Except.ok.injEq, Prod.mk.injEq] at ho
            obtain ⟨rfl, rfl⟩ := ho
            obtain ⟨ihG, ihC⟩ := ih fl k' hoff
            refine ⟨.cons ?_ ?_ ihG, ?_⟩
            · intro hs; cases hs
            · intro hi l hl
              rcases hl with rfl | hl
              · rw [hacc]; intro hc; cases hc
              · exact h2 hi l hl
            · simp only [cnt]; omega
        | true =>
          simp only [hacc] at ho
          cases hinv : o.inverted with
          | true => simp [hinv] at ho
          | false =>
            simp only [hinv, Bool.false_eq_true, if_false] at ho
            cases hoff : offer msg os ss with
            | error e => simp [hoff] at ho
            | ok r =>
              obtain ⟨fl, k'⟩ := r
              simp only [hoff, Except.ok.injEq, Prod.mk.injEq] at ho
              obtain ⟨rfl, rfl⟩ := ho
              obtain ⟨ihG, ihC⟩ := ih fl k' hoff
              refine ⟨.cons ?_ ?_ ihG, ?_⟩
              · intro _; exact ⟨hinv, msg, Or.inl rfl, hacc⟩
              · intro hi'; rw [hinv] at hi'; cases hi'
              · simp only [cnt, hinv]
                simp only [Bool.not_false, Bool.not_true, Bool.and_false, Bool.false_eq_true,
                  if_false, Bool.and_self, if_true]
                omega

/-- a completed step has consumed a chunk of events after which nothing is outstanding -/
theorem runStep_good (outs : List Output) (rest : List Event) :
    ∀ (evs : List Event) (sat : List Bool) (need : Int) (L : V → Prop),
      Good L outs sat → need = (cnt outs sat : Int) → runStep outs sat need evs = .ok rest →
      ∃ chunk sat', evs = chunk ++ rest ∧
        Good (fun l => l ∈ lines chunk ∨ L l) outs sat' ∧ cnt outs sat' = 0 := by
  intro evs
  induction evs with
  | nil => intro sat need L _ _ h; simp [runStep] at h
  | cons e evs ih =>
    intro sat need L hG hn h
    cases e with
    | timeout => simp [runStep] at h
    | eof => simp [runStep] at h
    | noise =>
      simp only [runStep] at h
      obtain ⟨chunk, sat', he, hG', hc⟩ := ih sat need L hG hn h
      refine ⟨.noise :: chunk, sat', ?_, ?_, hc⟩
      · rw [he]; rfl
      · rw [lines_noise]; exact hG'
    | line v =>
      simp only [runStep] at h
      cases hoff : offer v outs sat with
      | error e => simp [hoff] at h
      | ok r =>
        obtain ⟨sat', k⟩ := r
        simp only [hoff] at h
        obtain ⟨hG1, hC1⟩ := offer_good v hG sat' k hoff
        by_cases hz : (need - (k : Int) == 0) = true
        · simp only [hz, if_true, Except.ok.injEq] at h
          subst h
          have hz' : need - (k : Int) = 0 := by simpa using hz
          refine ⟨[.line v], sat', rfl, hG1.congr ?_, by omega⟩
          intro l
          simp [lines]
        · simp only [hz, Bool.false_eq_true, if_false] at h
          obtain ⟨chunk, sat'', he, hG', hc⟩ :=
            ih sat' (need - (k : Int)) _ hG1 (by omega) h
          refine ⟨.line v :: chunk, sat'', ?_, hG'.congr ?_, hc⟩
          · rw [he]; rfl
          · intro l
            rw [lines_line, List.mem_cons]
            constructor
            · rintro (h | h | h)
              · exact Or.inl (Or.inr h)
              · exact Or.inl (Or.inl h)
              · exact Or.inr h
            · rintro ((h | h) | h)
              · exact Or.inr (Or.inl h)
              · exact Or.inl h
              · exact Or.inr (Or.inr h)

/-- the step-level statement, for `lines` -/
theorem runStep_serves (outs : List Output) (evs rest : List Event)
    (h : runStep outs (outs.map (fun _ => false)) (needOf outs) evs = .ok rest) :
    ∃ chunk, evs = chunk ++ rest ∧
      (∀ o ∈ outs, o.inverted = false → ∃ l ∈ lines chunk, accepts o l = .ok true) ∧
      (∀ o ∈ outs, o.inverted = true → ∀ l ∈ lines chunk, accepts o l ≠ .ok true) := by
  obtain ⟨chunk, sat', he, hG, hc⟩ :=
    runStep_good outs rest evs _ _ _ (Good.init outs) (by rw [cnt_init]; rfl) h
  have hf := hG.final hc
  refine ⟨chunk, he, ?_, ?_⟩
  · intro o ho hi
    obtain ⟨l, hl, ha⟩ := (hf o ho).1 hi
    rcases hl with hl | hl
    · exact ⟨l, hl, ha⟩
    · exact hl.elim
  · intro o ho hi l hl
    exact (hf o ho).2 hi l (Or.inl hl)

end Expect
