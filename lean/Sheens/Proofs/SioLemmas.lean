import Sheens.SioCrew
import Sheens.Proofs.AssocLemmas

/-! # Lemmas about the single-loop crew model: `dedup`, `runMachine`, `runMachines`, `bfs` -/

namespace Sio

/-! ## `dedup` -/

theorem mem_dedup (l : List String) (x : String) : x ∈ dedup l ↔ x ∈ l := by
  induction l with
  | nil => simp [dedup]
  | cons y ys ih =>
    simp only [dedup, List.mem_cons, List.mem_filter, ih, bne_iff_ne, ne_eq]
    constructor
    · rintro (h | ⟨h, _⟩)
      · exact Or.inl h
      · exact Or.inr h
    · rintro (h | h)
      · exact Or.inl h
      · by_cases hxy : x = y
        · exact Or.inl hxy
        · exact Or.inr ⟨h, hxy⟩

theorem dedup_nodup (l : List String) : (dedup l).Nodup := by
  induction l with
  | nil => simp [dedup]
  | cons y ys ih =>
    simp only [dedup, List.nodup_cons, List.mem_filter, bne_iff_ne, ne_eq, not_and, Decidable.not_not]
    refine ⟨fun _ => trivial, ?_⟩
    exact List.Pairwise.filter _ ih

/-! ## one round -/

/-- the body of the `RunMachines` loop -/
def rmStep (resolve : V → Option Spec) (asOp : V → Option CrewOp) (msg : V)
    (acc : Crew × List (List V)) (mid : String) : Crew × List (List V) :=
  let (c, batches) := acc
  if mid == captainId then
    (match find mid c.machines, asOp msg with
     | some _, some op => (doOp resolve c op, batches)
     | _, _ => (c, batches))
  else if mid == timersId then (c, batches)
  else
    match find mid c.machines with
    | none => (c, batches)
    | some m =>
      let (c', em) := runMachine c mid m msg
      (c', if em.isEmpty then batches else batches ++ [em])

theorem runMachines_eq (resolve : V → Option Spec) (asOp : V → Option CrewOp) (c : Crew) (msg : V) :
    runMachines resolve asOp c msg = (dedup (toMachines c msg)).foldl (rmStep resolve asOp msg) (c, []) := rfl

/-- `runMachine` touches only its own machine and keeps the limit -/
theorem runMachine_limit (c : Crew) (mid : String) (m : Machine) (msg : V) :
    (runMachine c mid m msg).1.limit = c.limit := by
  unfold runMachine
  split
  · rfl
  · simp only
    split <;> rfl

theorem runMachine_find_ne (c : Crew) (mid : String) (m : Machine) (msg : V) (k : String) (h : k ≠ mid) :
    find k (runMachine c mid m msg).1.machines = find k c.machines := by
  unfold runMachine
  split
  · rfl
  · simp only
    split
    · exact find_put_ne _ _ h
    · rfl

theorem runMachine_find_self (c : Crew) (mid : String) (m : Machine) (msg : V) (spec : Spec)
    (hm : find mid c.machines = some m) (hs : m.spec = some spec) :
    find mid (runMachine c mid m msg).1.machines =
      some (match lastTo (walk spec m.state [msg] c.limit (fun _ => false)).strides with
            | some t => { m with state := stateCopy t }
            | none => m) := by
  unfold runMachine
  rw [hs]
  simp only
  cases lastTo (walk spec m.state [msg] c.limit (fun _ => false)).strides with
  | some t => exact find_put_self _ _ _
  | none => exact hm

/-- without crew operations, one step of the loop touches only the machine it visits -/
theorem rmStep_find_ne (resolve : V → Option Spec) (msg : V) (acc : Crew × List (List V))
    (mid k : String) (h : k ≠ mid) :
    find k (rmStep resolve (fun _ => none) msg acc mid).1.machines = find k acc.1.machines := by
  obtain ⟨c, batches⟩ := acc
  simp only [rmStep]
  split
  · split <;> first | rfl | (next h2 => simp at h2)
  · split
    · rfl
    · split
      · rfl
      · next m hm => exact runMachine_find_ne c mid m msg k h

theorem rmStep_limit (resolve : V → Option Spec) (msg : V) (acc : Crew × List (List V)) (mid : String) :
    (rmStep resolve (fun _ => none) msg acc mid).1.limit = acc.1.limit := by
  obtain ⟨c, batches⟩ := acc
  simp only [rmStep]
  split
  · split <;> first | rfl | (next h2 => simp at h2)
  · split
    · rfl
    · split
      · rfl
      · next m hm => exact runMachine_limit c mid m msg

theorem rmFold_find_notin (resolve : V → Option Spec) (msg : V) (k : String) (l : List String) :
    ∀ acc : Crew × List (List V), k ∉ l →
      find k (l.foldl (rmStep resolve (fun _ => none) msg) acc).1.machines = find k acc.1.machines := by
  induction l with
  | nil => intro acc _; rfl
  | cons x xs ih =>
    intro acc h
    simp only [List.mem_cons, not_or] at h
    simp only [List.foldl_cons]
    rw [ih _ h.2]
    exact rmStep_find_ne resolve msg acc x k h.1

theorem rmFold_limit (resolve : V → Option Spec) (msg : V) (l : List String) :
    ∀ acc : Crew × List (List V),
      (l.foldl (rmStep resolve (fun _ => none) msg) acc).1.limit = acc.1.limit := by
  induction l with
  | nil => intro acc; rfl
  | cons x xs ih =>
    intro acc
    simp only [List.foldl_cons]
    rw [ih _]
    exact rmStep_limit resolve msg acc x

theorem rmStep_find_self (resolve : V → Option Spec) (asOp : V → Option CrewOp) (msg : V)
    (acc : Crew × List (List V)) (mid : String) (m : Machine) (spec : Spec)
    (hc : mid ≠ captainId) (ht : mid ≠ timersId)
    (hm : find mid acc.1.machines = some m) (hs : m.spec = some spec) :
    find mid (rmStep resolve asOp msg acc mid).1.machines =
      some (match lastTo (walk spec m.state [msg] acc.1.limit (fun _ => false)).strides with
            | some t => { m with state := stateCopy t }
            | none => m) := by
  obtain ⟨c, batches⟩ := acc
  simp only at hm
  have h1 : (mid == captainId) = false := by simpa using hc
  have h2 : (mid == timersId) = false := by simpa using ht
  simp only [rmStep, h1, h2, hm, Bool.false_eq_true, if_false]
  exact runMachine_find_self c mid m msg spec hm hs

end Sio
