import Sheens.Match

/-!
# Fuel monotonicity of the matcher

One statement per function of the `mutual` block (`MonoX n`: if the result at fuel `n` is not
`diverge`, the result at fuel `n+1` is the same), proved simultaneously by induction on the fuel.
-/

namespace Sheens.Total

/-- the "fuel exhausted" value of the `Sum`-valued loops -/
abbrev dvg {α : Type} : Sum MRes α := .inl .diverge

def MonoF (n : Nat) : Prop :=
  ∀ p f bs, matchF n p f bs ≠ .diverge → matchF (n+1) p f bs = matchF n p f bs
def MonoStr (n : Nat) : Prop :=
  ∀ s f bs, matchStr n s f bs ≠ .diverge → matchStr (n+1) s f bs = matchStr n s f bs
def MonoBound (n : Nat) : Prop :=
  ∀ b f bs, matchBound n b f bs ≠ .diverge → matchBound (n+1) b f bs = matchBound n b f bs
def MonoObj (n : Nat) : Prop :=
  ∀ pm f bs, matchObj n pm f bs ≠ .diverge → matchObj (n+1) pm f bs = matchObj n pm f bs
def MonoArr (n : Nat) : Prop :=
  ∀ ps f bs, matchArr n ps f bs ≠ .diverge → matchArr (n+1) ps f bs = matchArr n ps f bs
def MonoLoop (n : Nat) : Prop :=
  ∀ xs fxs bsss fxas e, loopXs n xs fxs bsss fxas e ≠ dvg →
    loopXs (n+1) xs fxs bsss fxas e = loopXs n xs fxs bsss fxas e
def MonoCat (n : Nat) : Prop :=
  ∀ bsss pat fxas, arraycat n bsss pat fxas ≠ dvg →
    arraycat (n+1) bsss pat fxas = arraycat n bsss pat fxas
def MonoOne (n : Nat) : Prop :=
  ∀ bss pat mm todo, arrayOne n bss pat mm todo ≠ dvg →
    arrayOne (n+1) bss pat mm todo = arrayOne n bss pat mm todo
def MonoWith (n : Nat) : Prop :=
  ∀ bss p f, matchWith n bss p f ≠ .diverge → matchWith (n+1) bss p f = matchWith n bss p f
def MonoMapcat (n : Nat) : Prop :=
  ∀ bss pm fm, mapcat n bss pm fm ≠ .diverge → mapcat (n+1) bss pm fm = mapcat n bss pm fm
def MonoGather (n : Nat) : Prop :=
  ∀ bss k v fm, propGather n bss k v fm ≠ .diverge →
    propGather (n+1) bss k v fm = propGather n bss k v fm

/-- close a goal whose hypothesis `h` says "the caller does not diverge" after the callee `hC` did -/
macro "fuel_dead" h:ident hC:ident : tactic =>
  `(tactic| (rw [$hC:ident] at $h:ident; exact absurd rfl $h))

theorem mono_F_step {n} (ihS : MonoStr n) (ihO : MonoObj n) (ihA : MonoArr n) : MonoF (n+1) := by
  intro p f bs h
  simp only [matchF] at h ⊢
  generalize fudge p = q at h ⊢
  cases q <;> simp only at h ⊢
  · exact ihS _ _ _ h
  · exact ihA _ _ _ h
  · exact ihO _ _ _ h

theorem mono_bound_step {n} (ihM : MonoF n) : MonoBound (n+1) := by
  intro b f bs h
  simp only [matchBound] at h ⊢
  split
  · next t =>
    simp only at h
    split
    · rfl
    · next hv => rw [if_neg hv] at h; exact ihM _ _ _ h
  · next hb =>
    split at h
    · next t => exact absurd rfl (hb t)
    · exact ihM _ _ _ h

theorem mono_str_step {n} (ihB : MonoBound n) : MonoStr (n+1) := by
  intro s f bs h
  simp only [matchStr] at h ⊢
  split
  · rfl
  · next h1 =>
    rw [if_neg h1] at h
    split
    · rfl
    · next h2 =>
      rw [if_neg h2] at h
      split
      · rfl
      · next hi =>
        rw [hi] at h
        simp only at h ⊢
        split
        · next b hb => rw [hb] at h; exact ihB _ _ _ h
        · rfl

theorem mono_obj_step {n} (ihC : MonoMapcat n) (ihG : MonoGather n) : MonoObj (n+1) := by
  intro pm f bs h
  simp only [matchObj] at h ⊢
  split
  · next fm =>
    simp only at h
    split
    · rfl
    · next h1 =>
      rw [if_neg h1] at h
      split
      · rfl
      · next h2 =>
        rw [if_neg h2] at h
        split
        · next k v =>
          simp only at h
          split
          · next hk => rw [if_pos hk] at h; exact ihG _ _ _ _ h
          · next hk => rw [if_neg hk] at h; exact ihC _ _ _ h
        · next hne =>
          split at h
          · next k v => exact absurd rfl (hne k v)
          · exact ihC _ _ _ h
  · rfl

theorem mono_with_step {n} (ihM : MonoF n) (ihW : MonoWith n) : MonoWith (n+1) := by
  intro bss p f h
  cases bss with
  | nil => simp only [matchWith]
  | cons bs rest =>
    simp only [matchWith] at h ⊢
    cases hM : matchF n p f bs with
    | diverge => fuel_dead h hM
    | err e => rw [ihM p f bs (by simp [hM]), hM]
    | ok r1 =>
      rw [ihM p f bs (by simp [hM]), hM]; rw [hM] at h; simp only at h ⊢
      cases hW : matchWith n rest p f with
      | diverge => fuel_dead h hW
      | err e => rw [ihW rest p f (by simp [hW]), hW]
      | ok r2 => rw [ihW rest p f (by simp [hW]), hW]

theorem mono_mapcat_step {n} (ihW : MonoWith n) (ihC : MonoMapcat n) : MonoMapcat (n+1) := by
  intro bss pm fm h
  cases pm with
  | nil => simp only [mapcat]
  | cons kv rest =>
    obtain ⟨k, v⟩ := kv
    simp only [mapcat] at h ⊢
    split
    · rfl
    · next hk =>
      rw [if_neg hk] at h
      cases hl : lookup k fm with
      | none =>
        rw [hl] at h; simp only at h ⊢
        split
        · next ho => rw [if_pos ho] at h; exact ihC _ _ _ h
        · rfl
      | some fv =>
        rw [hl] at h; simp only at h ⊢
        cases hW : matchWith n bss v fv with
        | diverge => fuel_dead h hW
        | err e => rw [ihW _ _ _ (by simp [hW]), hW]
        | ok acc =>
          rw [ihW _ _ _ (by simp [hW]), hW]; rw [hW] at h
          cases acc with
          | nil => rfl
          | cons a as => simp only at h ⊢; exact ihC _ _ _ h

theorem mono_gather_step {n} (ihW : MonoWith n) (ihG : MonoGather n) : MonoGather (n+1) := by
  intro bss k v fm h
  cases fm with
  | nil => simp only [propGather]
  | cons kv rest =>
    obtain ⟨fk, fv⟩ := kv
    simp only [propGather] at h ⊢
    cases hW : matchWith n bss (.str k) (.str fk) with
    | diverge => fuel_dead h hW
    | err e => rw [ihW _ _ _ (by simp [hW]), hW]
    | ok ext =>
      rw [ihW _ _ _ (by simp [hW]), hW]; rw [hW] at h; simp only at h ⊢
      cases he : ext.isEmpty
      case true =>
        simp only [he, if_true] at h ⊢
        cases hG : propGather n bss k v rest with
        | diverge => fuel_dead h hG
        | err e => rw [ihG _ _ _ _ (by simp [hG]), hG]
        | ok more => rw [ihG _ _ _ _ (by simp [hG]), hG]
      case false =>
        simp only [he, Bool.false_eq_true, if_false] at h ⊢
        cases hW2 : matchWith n ext v fv with
        | diverge => fuel_dead h hW2
        | err e => rw [ihW _ _ _ (by simp [hW2]), hW2]
        | ok ext2 =>
          rw [ihW _ _ _ (by simp [hW2]), hW2]; rw [hW2] at h; simp only at h ⊢
          cases hG : propGather n bss k v rest with
          | diverge => fuel_dead h hG
          | err e => rw [ihG _ _ _ _ (by simp [hG]), hG]
          | ok more => rw [ihG _ _ _ _ (by simp [hG]), hG]

theorem mono_one_step {n} (ihW : MonoWith n) (ihO : MonoOne n) : MonoOne (n+1) := by
  intro bss pat mm todo h
  cases todo with
  | nil => simp only [arrayOne]
  | cons jf todo =>
    obtain ⟨j, fact⟩ := jf
    simp only [arrayOne] at h ⊢
    cases hW : matchWith n bss pat fact with
    | diverge => fuel_dead h hW
    | err e => rw [ihW _ _ _ (by simp [hW]), hW]
    | ok acc =>
      rw [ihW _ _ _ (by simp [hW]), hW]; rw [hW] at h; simp only at h ⊢
      cases hO : arrayOne n bss pat mm todo with
      | inl r =>
        have hr : r ≠ .diverge := by intro hr; subst hr; fuel_dead h hO
        rw [ihO _ _ _ _ (by rw [hO]; intro hc; cases hc; exact hr rfl), hO]
      | inr x => rw [ihO _ _ _ _ (by simp [hO]), hO]

theorem mono_cat_step {n} (ihO : MonoOne n) (ihC : MonoCat n) : MonoCat (n+1) := by
  intro bsss pat fxas h
  cases bsss with
  | nil => simp only [arraycat]
  | cons bss bsss =>
    cases fxas with
    | nil => simp only [arraycat]
    | cons mm fxas =>
      simp only [arraycat] at h ⊢
      cases hO : arrayOne n bss pat mm mm with
      | inl r =>
        have hr : r ≠ .diverge := by intro hr; subst hr; fuel_dead h hO
        rw [ihO _ _ _ _ (by rw [hO]; intro hc; cases hc; exact hr rfl), hO]
      | inr x =>
        rw [ihO _ _ _ _ (by simp [hO]), hO]; rw [hO] at h; simp only at h ⊢
        cases hC : arraycat n bsss pat fxas with
        | inl r =>
          have hr : r ≠ .diverge := by intro hr; subst hr; fuel_dead h hC
          rw [ihC _ _ _ (by rw [hC]; intro hc; cases hc; exact hr rfl), hC]
        | inr y => rw [ihC _ _ _ (by simp [hC]), hC]

theorem mono_loop_step {n} (ihC : MonoCat n) (ihL : MonoLoop n) : MonoLoop (n+1) := by
  intro xs fxs bsss fxas e h
  cases xs with
  | nil => simp only [loopXs]
  | cons x xs =>
    simp only [loopXs] at h ⊢
    cases hs : x.scalar? with
    | some sc =>
      rw [hs] at h; simp only at h ⊢
      split
      · next hc => rw [if_pos hc] at h; exact ihL _ _ _ _ _ h
      · rfl
    | none =>
      rw [hs] at h; simp only at h ⊢
      split
      · rfl
      · next he =>
        rw [if_neg he] at h
        cases hC : arraycat n bsss x fxas with
        | inl r =>
          have hr : r ≠ .diverge := by intro hr; subst hr; fuel_dead h hC
          rw [ihC _ _ _ (by rw [hC]; intro hc; cases hc; exact hr rfl), hC]
        | inr y =>
          rw [ihC _ _ _ (by simp [hC]), hC]; rw [hC] at h; simp only at h ⊢
          split
          · rfl
          · next hb => rw [if_neg hb] at h; exact ihL _ _ _ _ _ h

theorem mono_arr_step {n} (ihC : MonoCat n) (ihL : MonoLoop n) : MonoArr (n+1) := by
  intro ps f bs h
  simp only [matchArr] at h ⊢
  split
  · rfl
  · next v xs hg =>
    rw [hg] at h; simp only at h
    split
    · next fa =>
      simp only at h
      cases hL : loopXs n xs (indexScalars fa []) [[bs]] [indexStruct fa 0] (indexStruct fa 0).isEmpty with
      | inl r =>
        have hr : r ≠ .diverge := by intro hr; subst hr; fuel_dead h hL
        rw [ihL _ _ _ _ _ (by rw [hL]; intro hc; cases hc; exact hr rfl), hL]
      | inr y =>
        obtain ⟨fxs', bsss, fxas⟩ := y
        rw [ihL _ _ _ _ _ (by simp [hL]), hL]; rw [hL] at h; simp only at h ⊢
        cases v with
        | none => rfl
        | some vn =>
          simp only at h ⊢
          cases hC : arraycat n bsss (.str vn) (fxas.map (fun m => m ++ leftovers fxs' fa.length)) with
          | inl r =>
            have hr : r ≠ .diverge := by intro hr; subst hr; fuel_dead h hC
            rw [ihC _ _ _ (by rw [hC]; intro hc; cases hc; exact hr rfl), hC]
          | inr y => rw [ihC _ _ _ (by simp [hC]), hC]
    · rfl

/-- all eleven functions together -/
theorem mono_all : ∀ n,
    MonoF n ∧ MonoBound n ∧ MonoStr n ∧ MonoObj n ∧ MonoArr n ∧ MonoWith n ∧ MonoMapcat n ∧
    MonoGather n ∧ MonoOne n ∧ MonoCat n ∧ MonoLoop n := by
  intro n
  induction n with
  | zero =>
    refine ⟨?_, ?_, ?_, ?_, ?_, ?_, ?_, ?_, ?_, ?_, ?_⟩
    · intro p f bs h; simp [matchF] at h
    · intro b f bs h; simp [matchBound] at h
    · intro s f bs h; simp [matchStr] at h
    · intro pm f bs h; simp [matchObj] at h
    · intro ps f bs h; simp [matchArr] at h
    · intro bss p f h; simp [matchWith] at h
    · intro bss pm fm h; simp [mapcat] at h
    · intro bss k v fm h; simp [propGather] at h
    · intro bss pat mm todo h; simp [arrayOne] at h
    · intro bsss pat fxas h; simp [arraycat] at h
    · intro xs fxs bsss fxas e h; simp [loopXs] at h
  | succ n ih =>
    obtain ⟨ihM, ihB, ihS, ihO, ihA, ihW, ihMc, ihG, ihOne, ihCat, ihL⟩ := ih
    exact ⟨mono_F_step ihS ihO ihA, mono_bound_step ihM, mono_str_step ihB,
      mono_obj_step ihMc ihG, mono_arr_step ihCat ihL, mono_with_step ihM ihW,
      mono_mapcat_step ihW ihMc, mono_gather_step ihW ihG, mono_one_step ihW ihOne,
      mono_cat_step ihOne ihCat, mono_loop_step ihCat ihL⟩

/-- a sequence that keeps every value different from `d` is constant from there on -/
theorem stable_le {α : Type} {d : α} {g : Nat → α} (hs : ∀ n, g n ≠ d → g (n+1) = g n)
    {n m : Nat} (hle : n ≤ m) (h : g n ≠ d) : g m = g n := by
  induction hle with
  | refl => rfl
  | step _ ih => rw [hs _ (by rw [ih]; exact h), ih]

theorem matchF_le {n m : Nat} (hle : n ≤ m) {p f : V} {bs : Bs} (h : matchF n p f bs ≠ .diverge) :
    matchF m p f bs = matchF n p f bs :=
  stable_le (g := fun n => matchF n p f bs) (fun n => (mono_all n).1 p f bs) hle h
theorem matchBound_le {n m : Nat} (hle : n ≤ m) {b f : V} {bs : Bs}
    (h : matchBound n b f bs ≠ .diverge) : matchBound m b f bs = matchBound n b f bs :=
  stable_le (g := fun n => matchBound n b f bs) (fun n => (mono_all n).2.1 b f bs) hle h
theorem matchStr_le {n m : Nat} (hle : n ≤ m) {s : String} {f : V} {bs : Bs}
    (h : matchStr n s f bs ≠ .diverge) : matchStr m s f bs = matchStr n s f bs :=
  stable_le (g := fun n => matchStr n s f bs) (fun n => (mono_all n).2.2.1 s f bs) hle h
theorem matchObj_le {n m : Nat} (hle : n ≤ m) {pm : List (String × V)} {f : V} {bs : Bs}
    (h : matchObj n pm f bs ≠ .diverge) : matchObj m pm f bs = matchObj n pm f bs :=
  stable_le (g := fun n => matchObj n pm f bs) (fun n => (mono_all n).2.2.2.1 pm f bs) hle h
theorem matchArr_le {n m : Nat} (hle : n ≤ m) {ps : List V} {f : V} {bs : Bs}
    (h : matchArr n ps f bs ≠ .diverge) : matchArr m ps f bs = matchArr n ps f bs :=
  stable_le (g := fun n => matchArr n ps f bs) (fun n => (mono_all n).2.2.2.2.1 ps f bs) hle h
theorem matchWith_le {n m : Nat} (hle : n ≤ m) {bss : List Bs} {p f : V}
    (h : matchWith n bss p f ≠ .diverge) : matchWith m bss p f = matchWith n bss p f :=
  stable_le (g := fun n => matchWith n bss p f) (fun n => (mono_all n).2.2.2.2.2.1 bss p f) hle h
theorem mapcat_le {n m : Nat} (hle : n ≤ m) {bss : List Bs} {pm fm : List (String × V)}
    (h : mapcat n bss pm fm ≠ .diverge) : mapcat m bss pm fm = mapcat n bss pm fm :=
  stable_le (g := fun n => mapcat n bss pm fm) (fun n => (mono_all n).2.2.2.2.2.2.1 bss pm fm) hle h
theorem propGather_le {n m : Nat} (hle : n ≤ m) {bss : List Bs} {k : String} {v : V}
    {fm : List (String × V)} (h : propGather n bss k v fm ≠ .diverge) :
    propGather m bss k v fm = propGather n bss k v fm :=
  stable_le (g := fun n => propGather n bss k v fm)
    (fun n => (mono_all n).2.2.2.2.2.2.2.1 bss k v fm) hle h
theorem arrayOne_le {n m : Nat} (hle : n ≤ m) {bss : List Bs} {pat : V} {mm todo : List (Nat × V)}
    (h : arrayOne n bss pat mm todo ≠ dvg) :
    arrayOne m bss pat mm todo = arrayOne n bss pat mm todo :=
  stable_le (g := fun n => arrayOne n bss pat mm todo)
    (fun n => (mono_all n).2.2.2.2.2.2.2.2.1 bss pat mm todo) hle h
theorem arraycat_le {n m : Nat} (hle : n ≤ m) {bsss : List (List Bs)} {pat : V}
    {fxas : List (List (Nat × V))} (h : arraycat n bsss pat fxas ≠ dvg) :
    arraycat m bsss pat fxas = arraycat n bsss pat fxas :=
  stable_le (g := fun n => arraycat n bsss pat fxas)
    (fun n => (mono_all n).2.2.2.2.2.2.2.2.2.1 bsss pat fxas) hle h
theorem loopXs_le {n m : Nat} (hle : n ≤ m) {xs : List V} {fxs : List Scalar}
    {bsss : List (List Bs)} {fxas : List (List (Nat × V))} {e : Bool}
    (h : loopXs n xs fxs bsss fxas e ≠ dvg) :
    loopXs m xs fxs bsss fxas e = loopXs n xs fxs bsss fxas e :=
  stable_le (g := fun n => loopXs n xs fxs bsss fxas e)
    (fun n => (mono_all n).2.2.2.2.2.2.2.2.2.2 xs fxs bsss fxas e) hle h

end Sheens.Total
