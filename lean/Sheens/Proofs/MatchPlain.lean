import Sheens.Proofs.PlainLemmas

/-!
# The matcher binds only parts of the message and numbers

A variant of the simultaneous induction of `MatchExtends.lean`: for a value predicate `P`
(`ValPred`), when the message and the given bindings satisfy `P`, so does every result.  The message
is generalised to "any `f` with `P f`" in every statement, since the recursive calls are on
sub-values of the message, on `.str fk` keys and on left-over scalars.  Nothing is asked of the
pattern.
-/

namespace Plain

section
variable (P : V → Prop)

def AllL (bss : List Bs) : Prop := ∀ b ∈ bss, AllBs P b
def AllLL (bsss : List (List Bs)) : Prop := ∀ l ∈ bsss, AllL P l
def AllIx (m : List (Nat × V)) : Prop := ∀ e ∈ m, P e.2
def AllIxs (ms : List (List (Nat × V))) : Prop := ∀ m ∈ ms, AllIx P m

def GMatch (n : Nat) : Prop :=
  ∀ p f bs rs, P f → AllBs P bs → matchF n p f bs = .ok rs → AllL P rs
def GBound (n : Nat) : Prop :=
  ∀ b f bs rs, P f → AllBs P bs → matchBound n b f bs = .ok rs → AllL P rs
def GStr (n : Nat) : Prop :=
  ∀ s f bs rs, P f → AllBs P bs → matchStr n s f bs = .ok rs → AllL P rs
def GObj (n : Nat) : Prop :=
  ∀ pm f bs rs, P f → AllBs P bs → matchObj n pm f bs = .ok rs → AllL P rs
def GArr (n : Nat) : Prop :=
  ∀ ps f bs rs, P f → AllBs P bs → matchArr n ps f bs = .ok rs → AllL P rs
def GWith (n : Nat) : Prop :=
  ∀ bss p f rs, P f → AllL P bss → matchWith n bss p f = .ok rs → AllL P rs
def GMapcat (n : Nat) : Prop :=
  ∀ bss pm fm rs, AllBs P fm → AllL P bss → mapcat n bss pm fm = .ok rs → AllL P rs
def GGather (n : Nat) : Prop :=
  ∀ bss k v fm rs, AllBs P fm → AllL P bss → propGather n bss k v fm = .ok rs → AllL P rs
def GOne (n : Nat) : Prop :=
  ∀ bss pat mm todo a f, AllL P bss → AllIx P mm → AllIx P todo →
    arrayOne n bss pat mm todo = .inr (a, f) → AllLL P a ∧ AllIxs P f
def GCat (n : Nat) : Prop :=
  ∀ bsss pat fxas a f, AllLL P bsss → AllIxs P fxas →
    arraycat n bsss pat fxas = .inr (a, f) → AllLL P a ∧ AllIxs P f
def GLoop (n : Nat) : Prop :=
  ∀ xs fxs bsss fxas flag fxs' bsss' fxas', AllLL P bsss → AllIxs P fxas →
    loopXs n xs fxs bsss fxas flag = .inr (fxs', bsss', fxas') → AllLL P bsss' ∧ AllIxs P fxas'
end

section
variable {P : V → Prop}

theorem allL_nil : AllL P [] := fun _ h => by cases h
theorem allL_single {bs : Bs} (h : AllBs P bs) : AllL P [bs] := by
  intro b hb
  simp at hb; subst hb; exact h
theorem allL_append {a b : List Bs} (ha : AllL P a) (hb : AllL P b) : AllL P (a ++ b) := by
  intro x hx
  rcases List.mem_append.mp hx with hx | hx
  · exact ha x hx
  · exact hb x hx
theorem allL_flatten {l : List (List Bs)} (h : AllLL P l) : AllL P l.flatten := by
  intro x hx
  obtain ⟨l', h1, h2⟩ := List.mem_flatten.mp hx
  exact h l' h1 x h2
theorem allLL_nil : AllLL P [] := fun _ h => by cases h
theorem allLL_single {l : List Bs} (h : AllL P l) : AllLL P [l] := by
  intro b hb
  simp at hb; subst hb; exact h
theorem allLL_cons {l : List Bs} {ls : List (List Bs)} (h : AllL P l) (hs : AllLL P ls) :
    AllLL P (l :: ls) := by
  intro x hx
  rcases List.mem_cons.mp hx with hx | hx
  · subst hx; exact h
  · exact hs x hx
theorem allLL_append {a b : List (List Bs)} (ha : AllLL P a) (hb : AllLL P b) :
    AllLL P (a ++ b) := by
  intro x hx
  rcases List.mem_append.mp hx with hx | hx
  · exact ha x hx
  · exact hb x hx
theorem allIxs_nil : AllIxs P [] := fun _ h => by cases h
theorem allIxs_cons {m : List (Nat × V)} {ms : List (List (Nat × V))} (h : AllIx P m)
    (hs : AllIxs P ms) : AllIxs P (m :: ms) := by
  intro x hx
  rcases List.mem_cons.mp hx with hx | hx
  · subst hx; exact h
  · exact hs x hx
theorem allIxs_append {a b : List (List (Nat × V))} (ha : AllIxs P a) (hb : AllIxs P b) :
    AllIxs P (a ++ b) := by
  intro x hx
  rcases List.mem_append.mp hx with hx | hx
  · exact ha x hx
  · exact hb x hx
theorem allIx_append {a b : List (Nat × V)} (ha : AllIx P a) (hb : AllIx P b) :
    AllIx P (a ++ b) := by
  intro x hx
  rcases List.mem_append.mp hx with hx | hx
  · exact ha x hx
  · exact hb x hx

theorem allIx_indexStruct {fa : List V} (h : ∀ x ∈ fa, P x) (i : Nat) :
    AllIx P (indexStruct fa i) := by
  induction fa generalizing i with
  | nil => intro e he; cases he
  | cons x xs ih =>
    have ih' := fun j => ih (fun y hy => h y (List.mem_cons_of_mem _ hy)) j
    simp only [indexStruct]
    split
    · exact ih' _
    · intro e he
      rcases List.mem_cons.mp he with he | he
      · subst he; exact h x List.mem_cons_self
      · exact ih' _ e he

theorem allIx_leftovers (hP : ValPred P) (ss : List Scalar) (i : Nat) :
    AllIx P (leftovers ss i) := by
  induction ss generalizing i with
  | nil => intro e he; cases he
  | cons s ss ih =>
    simp only [leftovers]
    intro e he
    rcases List.mem_cons.mp he with he | he
    · subst he; exact pred_scalar hP s
    · exact ih _ e he

theorem good_with_step {n : Nat} (ihM : GMatch P n) (ihW : GWith P n) : GWith P (n+1) := by
  intro bss p f rs hf hb h
  cases bss with
  | nil => simp [matchWith] at h; subst h; exact allL_nil
  | cons bs rest =>
    have hbs : AllBs P bs := hb bs List.mem_cons_self
    have hrest : AllL P rest := fun b hb' => hb b (List.mem_cons_of_mem _ hb')
    clear hb
    simp only [matchWith] at h
    split at h
    · next r1 h1 =>
      split at h
      · next r2 h2 =>
        cases h
        exact allL_append (ihM p f bs r1 hf hbs h1) (ihW rest p f r2 hf hrest h2)
      · next hne => rename_i e; cases e <;> simp_all
    · next hne => rename_i e; cases e <;> simp_all

theorem good_mapcat_step {n : Nat} (ihW : GWith P n) (ihC : GMapcat P n) :
    GMapcat P (n+1) := by
  intro bss pm fm rs hfm hb h
  cases pm with
  | nil => simp only [mapcat] at h; cases h; exact hb
  | cons kv rest =>
    obtain ⟨k, v⟩ := kv
    simp only [mapcat] at h
    split at h
    · cases h
    · split at h
      · split at h
        · exact ihC bss rest fm rs hfm hb h
        · cases h; exact allL_nil
      · next fv hl =>
        have hfv : P fv := all_lookup hfm hl
        split at h
        · cases h; exact allL_nil
        · next acc hne hacc =>
          exact ihC acc rest fm rs hfm (ihW bss v fv acc hfv hb hacc) h
        · next hne1 hne2 => rename_i e; cases e <;> simp_all

theorem good_gather_step (hP : ValPred P) {n : Nat} (ihW : GWith P n) (ihG : GGather P n) :
    GGather P (n+1) := by
  intro bss k v fm rs hfm hb h
  cases fm with
  | nil => simp only [propGather] at h; cases h; exact allL_nil
  | cons kv rest =>
    obtain ⟨fk, fv⟩ := kv
    have hfv : P fv := hfm (fk, fv) List.mem_cons_self
    have hrest : AllBs P rest := allBs_tail hfm
    clear hfm
    simp only [propGather] at h
    split at h
    · next ext hext =>
      have hE : AllL P ext := ihW bss _ _ ext (hP.str fk) hb hext
      split at h
      · next ext2 hext2 =>
        split at h
        · next more hmore =>
          cases h
          refine allL_append ?_ (ihG bss k v rest more hrest hb hmore)
          split at hext2
          · cases hext2; exact allL_nil
          · exact ihW ext v fv ext2 hfv hE hext2
        · next hne => rename_i e; cases e <;> simp_all
      · next hne => rename_i e; cases e <;> simp_all
    · next hne => rename_i e; cases e <;> simp_all

theorem good_inequal (hP : ValPred P) {f : V} {bs : Bs} {s : String} {rs : List Bs}
    (hb : AllBs P bs) (h : inequal f bs s = some rs) : AllL P rs := by
  unfold inequal at h
  split at h
  · cases h
  · split at h
    · cases h
    · split at h
      · cases h
      · split at h
        · cases h
        · split at h
          · cases h; exact allL_nil
          · split at h
            · split at h
              · cases h
              · split at h
                · cases h; exact allL_single hb
                · cases h; exact allL_nil
            · cases h
              exact allL_single (allBs_cons (hP.num _) hb)

theorem good_bound_step {n : Nat} (ihM : GMatch P n) : GBound P (n+1) := by
  intro b f bs rs hf hb h
  simp only [matchBound] at h
  split at h
  · split at h
    · split at h
      · split at h
        · cases h; exact allL_single hb
        · cases h; exact allL_nil
      · cases h; exact allL_nil
    · exact ihM _ f bs rs hf hb h
  · exact ihM b f bs rs hf hb h

theorem good_str_step (hP : ValPred P) {n : Nat} (ihB : GBound P n) : GStr P (n+1) := by
  intro s f bs rs hf hb h
  simp only [matchStr] at h
  split at h
  · split at h
    · split at h
      · cases h; exact allL_single hb
      · cases h; exact allL_nil
    · cases h; exact allL_nil
  · split at h
    · cases h; exact allL_single hb
    · split at h
      · next rs' hq => cases h; exact good_inequal hP hb hq
      · split at h
        · next b hl => exact ihB b f bs rs hf hb h
        · next hl => cases h; exact allL_single (allBs_cons hf hb)

theorem good_obj_step (hP : ValPred P) {n : Nat} (ihC : GMapcat P n) (ihG : GGather P n) :
    GObj P (n+1) := by
  intro pm f bs rs hf hb h
  simp only [matchObj] at h
  split at h
  · next fm =>
    have hfm : AllBs P fm := (hP.obj fm).mp hf
    split at h
    · cases h; exact allL_single hb
    · split at h
      · cases h
      · split at h
        · next k v =>
          split at h
          · exact ihG [bs] _ _ fm rs hfm (allL_single hb) h
          · exact ihC [bs] _ fm rs hfm (allL_single hb) h
        · exact ihC [bs] pm fm rs hfm (allL_single hb) h
  · cases h; exact allL_nil

theorem good_match_step (hP : ValPred P) {n : Nat} (ihS : GStr P n) (ihO : GObj P n)
    (ihA : GArr P n) : GMatch P (n+1) := by
  intro p f bs rs hf hb h
  have hf' : P (fudge f) := pred_fudge hP hf
  unfold matchF at h
  split at h
  · simp only [matchNull] at h
    split at h <;> cases h
    · exact allL_single hb
    · exact allL_nil
  · simp only [matchBool] at h
    split at h
    · split at h <;> cases h
      · exact allL_single hb
      · exact allL_nil
    · cases h; exact allL_nil
  · simp only [matchNum] at h
    split at h
    · split at h <;> cases h
      · exact allL_single hb
      · exact allL_nil
    · cases h; exact allL_nil
  · exact ihS _ _ bs rs hf' hb h
  · exact ihO _ _ bs rs hf' hb h
  · exact ihA _ _ bs rs hf' hb h
  · cases h

theorem good_one_step {n : Nat} (ihW : GWith P n) (ihO : GOne P n) : GOne P (n+1) := by
  intro bss pat mm todo a f hb hmm htodo h
  cases todo with
  | nil => simp only [arrayOne] at h; cases h; exact ⟨allLL_nil, allIxs_nil⟩
  | cons e todo =>
    obtain ⟨j, fact⟩ := e
    have hfact : P fact := htodo (j, fact) List.mem_cons_self
    have htodo' : AllIx P todo := fun x hx => htodo x (List.mem_cons_of_mem _ hx)
    clear htodo
    simp only [arrayOne] at h
    split at h
    · next acc hacc =>
      split at h
      · cases h
      · next a' f' hrec =>
        obtain ⟨ha', hf'⟩ := ihO bss pat mm todo a' f' hb hmm htodo' hrec
        split at h
        · cases h; exact ⟨ha', hf'⟩
        · cases h
          refine ⟨allLL_cons (ihW bss pat fact _ hfact hb hacc) ha', allIxs_cons ?_ hf'⟩
          intro e he
          exact hmm e (List.mem_filter.mp he).1
    · cases h

theorem good_cat_step {n : Nat} (ihO : GOne P n) (ihC : GCat P n) : GCat P (n+1) := by
  intro bsss pat fxas a f hb hfx h
  cases bsss with
  | nil => simp only [arraycat] at h; cases h; exact ⟨allLL_nil, allIxs_nil⟩
  | cons bss bsss =>
    cases fxas with
    | nil => simp only [arraycat] at h; cases h; exact ⟨allLL_nil, allIxs_nil⟩
    | cons mm fxas =>
      have hbss : AllL P bss := hb bss List.mem_cons_self
      have hbsss : AllLL P bsss := fun x hx => hb x (List.mem_cons_of_mem _ hx)
      have hmm : AllIx P mm := hfx mm List.mem_cons_self
      have hfxas : AllIxs P fxas := fun x hx => hfx x (List.mem_cons_of_mem _ hx)
      clear hb hfx
      simp only [arraycat] at h
      split at h
      · cases h
      · next a1 f1 h1 =>
        split at h
        · cases h
        · next a2 f2 h2 =>
          cases h
          obtain ⟨x1, y1⟩ := ihO bss pat mm mm a1 f1 hbss hmm hmm h1
          obtain ⟨x2, y2⟩ := ihC bsss pat fxas a2 f2 hbsss hfxas h2
          exact ⟨allLL_append x1 x2, allIxs_append y1 y2⟩

theorem good_loop_step {n : Nat} (ihC : GCat P n) (ihL : GLoop P n) : GLoop P (n+1) := by
  intro xs fxs bsss fxas flag fxs' bsss' fxas' hb hfx h
  cases xs with
  | nil =>
    simp only [loopXs] at h
    cases h
    exact ⟨hb, hfx⟩
  | cons x xs =>
    simp only [loopXs] at h
    split at h
    · split at h
      · exact ihL xs _ bsss fxas flag fxs' bsss' fxas' hb hfx h
      · cases h
    · split at h
      · cases h
      · split at h
        · cases h
        · next b1 f1 hcat =>
          obtain ⟨x1, y1⟩ := ihC bsss x fxas b1 f1 hb hfx hcat
          split at h
          · cases h
          · exact ihL xs fxs b1 f1 flag fxs' bsss' fxas' x1 y1 h

theorem good_arr_step (hP : ValPred P) {n : Nat} (ihC : GCat P n) (ihL : GLoop P n) :
    GArr P (n+1) := by
  intro ps f bs rs hf hb h
  simp only [matchArr] at h
  split at h
  · cases h
  · next v xs hgv =>
    split at h
    · next fa =>
      have hfa : ∀ x ∈ fa, P x := (hP.arr fa).mp hf
      split at h
      · next r' hl =>
        subst h
        have := loopXs_inl _ _ _ _ _ _ _ hl
        subst this; exact allL_nil
      · next fxs' bsss fxas hl =>
        obtain ⟨hbsss, hfxas⟩ := ihL xs _ _ _ _ fxs' bsss fxas (allLL_single (allL_single hb))
          (allIxs_cons (allIx_indexStruct hfa 0) allIxs_nil) hl
        split at h
        · cases h; exact allL_flatten hbsss
        · next vn =>
          split at h
          · next r' hcat =>
            subst h
            exact absurd rfl (arraycat_inl _ _ _ _ _ hcat rs)
          · next bsss' fx' hcat =>
            have hfxas' : AllIxs P (fxas.map (fun m => m ++ leftovers fxs' fa.length)) := by
              intro m hm
              obtain ⟨m0, hm0, rfl⟩ := List.mem_map.mp hm
              exact allIx_append (hfxas m0 hm0) (allIx_leftovers hP _ _)
            obtain ⟨hb', _⟩ := ihC bsss _ _ bsss' fx' hbsss hfxas' hcat
            split at h
            · cases h; exact allL_flatten hbsss
            · cases h; exact allL_flatten hb'
    · cases h; exact allL_nil

theorem good_all (hP : ValPred P) : ∀ n,
    GMatch P n ∧ GBound P n ∧ GStr P n ∧ GObj P n ∧ GArr P n ∧ GWith P n ∧ GMapcat P n ∧
    GGather P n ∧ GOne P n ∧ GCat P n ∧ GLoop P n := by
  intro n
  induction n with
  | zero =>
    refine ⟨?_, ?_, ?_, ?_, ?_, ?_, ?_, ?_, ?_, ?_, ?_⟩
    · intro p f bs rs _ _ h; simp [matchF] at h
    · intro b f bs rs _ _ h; simp [matchBound] at h
    · intro s f bs rs _ _ h; simp [matchStr] at h
    · intro pm f bs rs _ _ h; simp [matchObj] at h
    · intro ps f bs rs _ _ h; simp [matchArr] at h
    · intro bss p f rs _ _ h; simp [matchWith] at h
    · intro bss pm fm rs _ _ h; simp [mapcat] at h
    · intro bss k v fm rs _ _ h; simp [propGather] at h
    · intro bss pat mm todo a f _ _ _ h; simp [arrayOne] at h
    · intro bsss pat fxas a f _ _ h; simp [arraycat] at h
    · intro xs fxs bsss fxas flag fxs' bsss' fxas' _ _ h; simp [loopXs] at h
  | succ n ih =>
    obtain ⟨ihM, ihB, ihS, ihO, ihA, ihW, ihMc, ihG, ihOne, ihCat, ihL⟩ := ih
    exact ⟨good_match_step hP ihS ihO ihA, good_bound_step ihM, good_str_step hP ihB,
      good_obj_step hP ihMc ihG, good_arr_step hP ihCat ihL, good_with_step ihM ihW,
      good_mapcat_step ihW ihMc, good_gather_step hP ihW ihG, good_one_step ihW ihOne,
      good_cat_step ihOne ihCat, good_loop_step ihCat ihL⟩

end

/-- the matcher only binds parts of the message and numbers -/
theorem matchF_pred {P : V → Prop} (hP : ValPred P) {n : Nat} {p f : V} {bs : Bs} {rs : List Bs}
    (hf : P f) (hb : AllBs P bs) (h : matchF n p f bs = .ok rs) : ∀ r ∈ rs, AllBs P r :=
  (good_all hP n).1 p f bs rs hf hb h

end Plain
