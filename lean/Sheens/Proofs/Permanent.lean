import Sheens.Proofs.EngineLemmas
import Sheens.Proofs.MatchExtends

/-!
# Permanent bindings survive `execWrap`, the matcher, guards and a whole step

Bindings are association lists with first-hit `lookup`, while `restore` writes the permanent pairs
back one after the other (last write wins).  On lists with duplicate keys the two disagree, which
cannot happen in Go (maps have no duplicate keys): `NoDupKeys` says the keys are pairwise distinct.
-/

/-- the keys of an association list are pairwise distinct (always so for a Go map) -/
def NoDupKeys (bs : Bs) : Prop := List.Pairwise (fun a b => a.1 ≠ b.1) bs

theorem lookup_none_of_forall {k : String} {bs : Bs} (h : ∀ kv ∈ bs, kv.1 ≠ k) :
    lookup k bs = none := by
  induction bs with
  | nil => rfl
  | cons kv rest ih =>
    obtain ⟨k', v'⟩ := kv
    simp only [lookup]
    split
    · next heq => exact absurd heq.symm (h (k', v') List.mem_cons_self)
    · exact ih (fun x hx => h x (List.mem_cons_of_mem _ hx))

theorem forall_of_lookup_none {k : String} {bs : Bs} (h : lookup k bs = none) :
    ∀ kv ∈ bs, kv.1 ≠ k := by
  induction bs with
  | nil => intro kv hkv; cases hkv
  | cons kv rest ih =>
    obtain ⟨k', v'⟩ := kv
    simp only [lookup] at h
    split at h
    · cases h
    · next hne =>
      intro x hx
      rcases List.mem_cons.mp hx with hx | hx
      · subst hx; exact fun heq => hne heq.symm
      · exact ih h x hx

theorem mem_of_lookup {k : String} {v : V} {bs : Bs} (h : lookup k bs = some v) : (k, v) ∈ bs := by
  induction bs with
  | nil => cases h
  | cons kv rest ih =>
    obtain ⟨k', v'⟩ := kv
    simp only [lookup] at h
    split at h
    · next heq => cases h; subst heq; exact List.mem_cons_self
    · exact List.mem_cons_of_mem _ (ih h)

theorem lookup_of_mem_nodup {k : String} {v : V} {bs : Bs} (hnd : NoDupKeys bs) (h : (k, v) ∈ bs) :
    lookup k bs = some v := by
  induction bs with
  | nil => cases h
  | cons kv rest ih =>
    obtain ⟨k', v'⟩ := kv
    obtain ⟨h1, h2⟩ := List.pairwise_cons.mp hnd
    simp only [lookup]
    rcases List.mem_cons.mp h with h | h
    · cases h; simp
    · split
      · next heq => exact absurd heq.symm (h1 (k, v) h)
      · exact ih h2 h

theorem nodup_cons_fresh {s : String} {v : V} {bs : Bs} (h : lookup s bs = none)
    (hnd : NoDupKeys bs) : NoDupKeys ((s, v) :: bs) :=
  List.pairwise_cons.mpr ⟨fun x hx heq => forall_of_lookup_none h x hx heq.symm, hnd⟩

theorem mem_insertB {k : String} {v : V} {bs : Bs} {x : String × V} (h : x ∈ insertB k v bs) :
    x = (k, v) ∨ x ∈ bs := by
  induction bs with
  | nil => simp [insertB] at h; exact Or.inl h
  | cons kv rest ih =>
    obtain ⟨k', v'⟩ := kv
    simp only [insertB] at h
    split at h
    · rcases List.mem_cons.mp h with h | h
      · exact Or.inl h
      · exact Or.inr (List.mem_cons_of_mem _ h)
    · rcases List.mem_cons.mp h with h | h
      · exact Or.inr (h ▸ List.mem_cons_self)
      · rcases ih h with h | h
        · exact Or.inl h
        · exact Or.inr (List.mem_cons_of_mem _ h)

theorem nodup_insertB {k : String} {v : V} {bs : Bs} (hnd : NoDupKeys bs) :
    NoDupKeys (insertB k v bs) := by
  induction bs with
  | nil => exact List.pairwise_singleton _ _
  | cons kv rest ih =>
    obtain ⟨k', v'⟩ := kv
    obtain ⟨h1, h2⟩ := List.pairwise_cons.mp hnd
    simp only [insertB]
    split
    · next heq =>
      subst heq
      exact List.pairwise_cons.mpr ⟨h1, h2⟩
    · next hne =>
      refine List.pairwise_cons.mpr ⟨?_, ih h2⟩
      intro x hx
      rcases mem_insertB hx with hx | hx
      · subst hx; exact fun heq => hne heq.symm
      · exact h1 x hx

theorem restore_cons (kv : String × V) (perm b : Bs) :
    restore (kv :: perm) b = restore perm (insertB kv.1 kv.2 b) := rfl

theorem nodup_restore {perm b : Bs} (hnd : NoDupKeys b) : NoDupKeys (restore perm b) := by
  induction perm generalizing b with
  | nil => exact hnd
  | cons kv rest ih => rw [restore_cons]; exact ih (nodup_insertB hnd)

theorem lookup_restore_not_key {k : String} {perm b : Bs} (h : ∀ kv ∈ perm, kv.1 ≠ k) :
    lookup k (restore perm b) = lookup k b := by
  induction perm generalizing b with
  | nil => rfl
  | cons kv rest ih =>
    rw [restore_cons, ih (fun x hx => h x (List.mem_cons_of_mem _ hx))]
    exact lookup_insertB_ne _ _ (fun heq => h kv List.mem_cons_self heq.symm)

theorem lookup_restore_mem {k : String} {v : V} {perm b : Bs} (hnd : NoDupKeys perm)
    (h : (k, v) ∈ perm) : lookup k (restore perm b) = some v := by
  induction perm generalizing b with
  | nil => cases h
  | cons kv rest ih =>
    obtain ⟨h1, h2⟩ := List.pairwise_cons.mp hnd
    rw [restore_cons]
    rcases List.mem_cons.mp h with h | h
    · subst h
      rw [lookup_restore_not_key (fun x hx heq => h1 x hx heq.symm)]
      exact lookup_insertB_self _ _ _
    · exact ih h2 h

/-- what `restore` guarantees for a permanent binding of duplicate-free bindings -/
theorem lookup_restore_permanent {k : String} {v : V} {bs b : Bs} (hnd : NoDupKeys bs)
    (hk : isPermanent k = true) (hv : lookup k bs = some v) :
    lookup k (restore (permanentOf bs) b) = some v := by
  apply lookup_restore_mem
  · exact List.Pairwise.filter _ hnd
  · unfold permanentOf
    exact List.mem_filter.mpr ⟨mem_of_lookup hv, hk⟩

/-- the property the step preserves -/
def Keeps (k : String) (v : V) (c : Bs) : Prop := NoDupKeys c ∧ lookup k c = some v

theorem execWrap_keeps {g : ActionF} {c b : Bs} {em : List V} {k : String} {v : V}
    (hk : isPermanent k = true) (hc : Keeps k v c)
    (hx : (execWrap g (some c)).exe = some (some b, em)) : lookup k b = some v := by
  unfold execWrap at hx
  simp only [copyB] at hx
  split at hx
  · cases hx
  · cases hx
  · cases hx
    exact lookup_restore_permanent hc.1 hk hc.2

/-- a duplicate-free result of the raw action stays duplicate-free through `execWrap` -/
theorem execWrap_nodup {a : ActionF} {bs : Option Bs} {b0 : Bs} {em0 : List V}
    (h0 : (a bs).exe = some (some b0, em0)) (hnd : NoDupKeys b0) :
    ∃ b, (execWrap a bs).exe = some (some b, em0) ∧ NoDupKeys b := by
  unfold execWrap
  simp only [h0]
  exact ⟨_, rfl, nodup_restore hnd⟩

theorem stepRel_nodup : StepRel (fun bs r => NoDupKeys bs → NoDupKeys r) :=
  ⟨fun _ h => h, fun h1 h2 h => h2 (h1 h), fun hl hnd => nodup_cons_fresh hl hnd⟩

theorem matchF_keeps {n : Nat} {p f : V} {c r : Bs} {rs : List Bs} {k : String} {v : V}
    (hc : Keeps k v c) (h : matchF n p f c = .ok rs) (hr : r ∈ rs) : Keeps k v r :=
  ⟨matchF_rel stepRel_nodup h r hr hc.1, matchF_extends h hr k v hc.2⟩

/-! ## guards, branches, `consider` -/

theorem guardLoop_keeps {g : ActionF} {cs : List Bs} {b : Bs} {k : String} {v : V}
    (hk : isPermanent k = true) (hcs : ∀ c ∈ cs, Keeps k v c)
    (h : guardLoop g cs = .ok (some b)) : lookup k b = some v := by
  induction cs with
  | nil => simp [guardLoop] at h
  | cons c rest ih =>
    simp only [guardLoop] at h
    split at h
    · cases h
    · split at h
      · next b' em hx =>
        cases h
        exact execWrap_keeps hk (hcs c List.mem_cons_self) hx
      · exact ih (fun x hx => hcs x (List.mem_cons_of_mem _ hx)) h

theorem filterMap_id_map_some (l : List Bs) : (l.map some).filterMap id = l := by
  induction l with
  | nil => rfl
  | cons c cs ih => simp

/-- the candidates of a branch tried on bindings that are there -/
theorem candidates_keeps {b : Branch} {c : Bs} {against : V} {bss : List (Option Bs)}
    {k : String} {v : V} (hc : Keeps k v c) (h : candidates b (some c) against = .ok bss) :
    ∃ l : List Bs, bss = l.map some ∧ ∀ x ∈ l, Keeps k v x := by
  unfold candidates at h
  split at h
  · cases h
    exact ⟨[c], rfl, fun x hx => by simp at hx; subst hx; exact hc⟩
  · next p hp =>
    unfold matchTop at h
    simp only [copyB] at h
    cases hm : matchF matchFuel p against c with
    | ok rs =>
      rw [hm] at h
      simp only [matchErrOf] at h
      cases h
      exact ⟨rs, rfl, fun x hx => matchF_keeps hc hm hx⟩
    | err e => rw [hm] at h; simp only [matchErrOf] at h; cases h
    | diverge => rw [hm] at h; simp only [matchErrOf] at h; cases h

theorem tryBranch_keeps {b : Branch} {c : Bs} {against : V} {t : State} {k : String} {v : V}
    (hk : isPermanent k = true) (hc : Keeps k v c)
    (h : tryBranch b (some c) against = .ok (some t)) :
    ∃ tb, t.bs = some tb ∧ lookup k tb = some v := by
  unfold tryBranch at h
  split at h
  · cases h
  · next bss hcand =>
    obtain ⟨l, hl, hkeep⟩ := candidates_keeps hc hcand
    subst hl
    simp only at h
    split at h
    · cases h
    · cases h
    · next x hch =>
      cases h
      refine ⟨x, rfl, ?_⟩
      split at hch
      · -- no guard
        rcases l with _ | ⟨y, _ | ⟨z, l'⟩⟩
        · simp at hch
        · simp only [List.map] at hch
          cases hch
          exact (hkeep _ List.mem_cons_self).2
        · simp at hch
      · next g hg =>
        split at hch
        · next heq =>
          rcases l with _ | ⟨y, _ | ⟨z, l'⟩⟩ <;> simp at heq
        · rw [filterMap_id_map_some] at hch
          exact guardLoop_keeps hk hkeep hch

theorem tryAll_keeps {brs : List Branch} {c : Bs} {against : V} {t : State} {k : String} {v : V}
    (hk : isPermanent k = true) (hc : Keeps k v c)
    (h : tryAll (some c) against brs = .ok (some t)) :
    ∃ tb, t.bs = some tb ∧ lookup k tb = some v := by
  obtain ⟨pre, br, post, _, _, h3⟩ := (tryAll_eq_iff (some c) against brs _ (by simp)).mp h
  exact tryBranch_keeps hk hc h3

theorem consider_keeps {b : Option Branches} {c : Bs} {pending : Option V} {t : State}
    {k : String} {v : V} (hk : isPermanent k = true) (hc : Keeps k v c)
    (h : (consider b (some c) pending).1 = some t) :
    ∃ tb, t.bs = some tb ∧ lookup k tb = some v := by
  unfold consider at h
  split at h
  · cases h
  · next br =>
    simp only at h
    split at h
    · split at h
      · cases h
      · next m =>
        split at h
        · cases h
        · next to hto => exact tryAll_keeps hk hc (by rw [hto]; exact congrArg _ h)
    · split at h
      · cases h
      · next to hto => exact tryAll_keeps hk hc (by rw [hto]; exact congrArg _ h)

/-! ## the whole step -/

theorem perm_ne_error {k : String} (hk : isPermanent k = true) : k ≠ "error" := by
  intro h; subst h; exact absurd hk (by decide)
theorem perm_ne_actionError {k : String} (hk : isPermanent k = true) : k ≠ "actionError" := by
  intro h; subst h; exact absurd hk (by decide)
theorem perm_ne_lastNode {k : String} (hk : isPermanent k = true) : k ≠ "lastNode" := by
  intro h; subst h; exact absurd hk (by decide)
theorem perm_ne_lastBindings {k : String} (hk : isPermanent k = true) : k ≠ "lastBindings" := by
  intro h; subst h; exact absurd hk (by decide)

theorem lookup_actErrBs {k : String} (hk : isPermanent k = true) (e : String) (bs : Option Bs) :
    lookup k (actErrBs e bs) = lookup k (copyB bs) := by
  unfold actErrBs
  rw [lookup_insertB_ne _ _ (perm_ne_error hk), lookup_insertB_ne _ _ (perm_ne_actionError hk)]

theorem lookup_noBranchBs {k : String} (hk : isPermanent k = true) (st : State) (bs : Option Bs) :
    lookup k (noBranchBs st bs) = lookup k (copyB bs) := by
  unfold noBranchBs
  rw [lookup_insertB_ne _ _ (perm_ne_lastBindings hk), lookup_insertB_ne _ _ (perm_ne_lastNode hk),
    lookup_insertB_ne _ _ (perm_ne_error hk)]

theorem keeps_actErrBs {k : String} {v : V} {bs : Bs} (hk : isPermanent k = true)
    (hc : Keeps k v bs) (e : String) : Keeps k v (actErrBs e (some bs)) :=
  ⟨nodup_insertB (nodup_insertB hc.1), by rw [lookup_actErrBs hk]; exact hc.2⟩

/-- target of `stepRest` for an action node, from bindings that keep the permanent binding -/
theorem stepRest_action_keeps {st : State} {n : Node} {a : ActionF} {c : Bs} {em : List V}
    {pending : Option V} {sd : Stride} {t : State} {k : String} {v : V}
    (ha : n.action = some a) (hm : ∀ br, n.branches = some br → br.type ≠ "message")
    (hk : isPermanent k = true) (hc : Keeps k v c)
    (hs : (stepRest st n (some c) em pending).stride = some sd) (ht : sd.to = some t) :
    ∃ tb, t.bs = some tb ∧ lookup k tb = some v := by
  rw [stepRest_action _ _ _ _ _ a ha hm] at hs
  cases hs
  simp only at ht
  split at ht
  · next t' hcons =>
    cases ht
    obtain ⟨tb, h1, h2⟩ := consider_keeps hk hc hcons
    exact ⟨tb, by simp only [stateCopy, h1, copyB], h2⟩
  · cases ht
    exact ⟨_, rfl, by rw [lookup_noBranchBs hk]; exact hc.2⟩
