import Sheens.Proofs.Pick

/-!
# Soundness of the matcher, everything except the array arm

All statements are relative to the *given* bindings `bs₀` and a fixed list `vs` of variable names
(the variables of the top-level pattern).  `PB vs bs₀` is `IneqPrebound` phrased on `vs`.
-/

/-- where a new key may come from: a variable of the pattern, or the base of an inequality variable -/
def SrcL (vs : List String) (k : String) : Prop :=
  k ∈ vs ∨ k ∈ vs.filterMap (fun v => (ineqOf v).map (·.2))

def PB (vs : List String) (bs₀ : Bs) : Prop :=
  ∀ v ∈ vs, ineqOf v ≠ none → lookup v bs₀ ≠ none

/-- invariant of the current bindings -/
structure Cur (bs₀ bs : Bs) : Prop where
  ext  : Extends bs₀ bs
  good : GoodBs bs

/-- what a single result `r` must satisfy relative to the starting bindings `bs` -/
structure Post (vs : List String) (bs r : Bs) : Prop where
  ext  : Extends bs r
  good : GoodBs r
  keys : ∀ k, lookup k r ≠ none → lookup k bs ≠ none ∨ SrcL vs k

theorem Post.refl {vs : List String} {bs : Bs} (hg : GoodBs bs) : Post vs bs bs :=
  ⟨Extends.refl _, hg, fun _ h => Or.inl h⟩

theorem Post.trans {vs : List String} {a b c : Bs} (h1 : Post vs a b) (h2 : Post vs b c) :
    Post vs a c :=
  ⟨h1.ext.trans h2.ext, h2.good, fun k hk => by
    rcases h2.keys k hk with h | h
    · exact h1.keys k h
    · exact Or.inr h⟩

theorem Cur.post {vs : List String} {bs₀ bs r : Bs} (hi : Cur bs₀ bs) (hp : Post vs bs r) :
    Cur bs₀ r := ⟨hi.ext.trans hp.ext, hp.good⟩

theorem varsOf_str_mem {s : String} {vs : List String} (hv : isVar s = true)
    (h : varsOf (.str s) ⊆ vs) : s ∈ vs := by
  apply h
  simp [varsOf, hv]

section
variable (bs₀ : Bs) (vs : List String)

def StmtMatch (n : Nat) : Prop :=
  ∀ p f bs rs, p.plainPat = true → f.good = true → varsOf p ⊆ vs → Cur bs₀ bs →
    matchF n p f bs = .ok rs → ∀ r ∈ rs, Post vs bs r ∧ Sat bs₀ r p f
def StmtBound (n : Nat) : Prop :=
  ∀ b f bs rs, b.good = true → f.good = true → Cur bs₀ bs →
    matchBound n b f bs = .ok rs → ∀ r ∈ rs, Post vs bs r ∧ Sat bs₀ r b f
def StmtStr (n : Nat) : Prop :=
  ∀ s f bs rs, f.good = true → varsOf (.str s) ⊆ vs → Cur bs₀ bs →
    matchStr n s f bs = .ok rs → ∀ r ∈ rs, Post vs bs r ∧ Sat bs₀ r (.str s) f
def StmtObj (n : Nat) : Prop :=
  ∀ pm f bs rs, plainPatKvs pm = true → f.good = true → varsOfKvs pm ⊆ vs → Cur bs₀ bs →
    matchObj n pm f bs = .ok rs → ∀ r ∈ rs, Post vs bs r ∧ Sat bs₀ r (.obj pm) f
def StmtArr (n : Nat) : Prop :=
  ∀ ps f bs rs, plainPatList ps = true → f.good = true → varsOfList ps ⊆ vs → Cur bs₀ bs →
    matchArr n ps f bs = .ok rs → ∀ r ∈ rs, Post vs bs r ∧ Sat bs₀ r (.arr ps) f
def StmtWith (n : Nat) : Prop :=
  ∀ bss p f rs, p.plainPat = true → f.good = true → varsOf p ⊆ vs → (∀ bs ∈ bss, Cur bs₀ bs) →
    matchWith n bss p f = .ok rs → ∀ r ∈ rs, ∃ bs ∈ bss, Post vs bs r ∧ Sat bs₀ r p f
def StmtMapcat (n : Nat) : Prop :=
  ∀ bss pm fm rs, plainPatKvs pm = true → goodKvs fm = true → varsOfKvs pm ⊆ vs →
    (∀ bs ∈ bss, Cur bs₀ bs) →
    mapcat n bss pm fm = .ok rs → ∀ r ∈ rs, ∃ bs ∈ bss, Post vs bs r ∧ ObjSat bs₀ r pm fm
def StmtGather (n : Nat) : Prop :=
  ∀ bss k v fm rs, v.plainPat = true → (∀ kv ∈ fm, isVar kv.1 = false ∧ kv.2.good = true) →
    k ∈ vs → varsOf v ⊆ vs → (∀ bs ∈ bss, Cur bs₀ bs) →
    propGather n bss k v fm = .ok rs → ∀ r ∈ rs, ∃ bs ∈ bss, Post vs bs r ∧
      ∃ fk fv, (fk, fv) ∈ fm ∧ Sat bs₀ r (.str k) (.str fk) ∧ Sat bs₀ r v fv
end

section
variable {bs₀ : Bs} {vs : List String}

theorem sound_with_step {n : Nat} (ihM : StmtMatch bs₀ vs n) (ihW : StmtWith bs₀ vs n) :
    StmtWith bs₀ vs (n+1) := by
  intro bss p f rs hp hg hv hbss h r hr
  cases bss with
  | nil => simp [matchWith] at h; subst h; cases hr
  | cons bs rest =>
    simp only [matchWith] at h
    split at h
    · next r1 h1 =>
      split at h
      · next r2 h2 =>
        cases h
        rcases List.mem_append.mp hr with hr | hr
        · exact ⟨bs, List.mem_cons_self, ihM p f bs r1 hp hg hv (hbss bs List.mem_cons_self) h1 r hr⟩
        · obtain ⟨b, hb, hx⟩ := ihW rest p f r2 hp hg hv
            (fun b hb => hbss b (List.mem_cons_of_mem _ hb)) h2 r hr
          exact ⟨b, List.mem_cons_of_mem _ hb, hx⟩
      · next hne => rename_i e; cases e <;> simp_all
    · next hne => rename_i e; cases e <;> simp_all

theorem sound_mapcat_step {n : Nat} (ihW : StmtWith bs₀ vs n) (ihC : StmtMapcat bs₀ vs n) :
    StmtMapcat bs₀ vs (n+1) := by
  intro bss pm fm rs hp hg hv hbss h r hr
  cases pm with
  | nil =>
    simp only [mapcat] at h; cases h
    exact ⟨r, hr, Post.refl (hbss r hr).good, ObjSat.nil⟩
  | cons kv rest =>
    obtain ⟨k, v⟩ := kv
    simp only [plainPatKvs, Bool.and_eq_true] at hp
    have hvv : varsOf v ⊆ vs := fun x hx => hv (by simp [varsOfKvs, hx])
    have hvr : varsOfKvs rest ⊆ vs := fun x hx => hv (by simp [varsOfKvs, hx])
    simp only [mapcat] at h
    split at h
    · cases h
    · next hk =>
      have hk' : isVar k = false := by simpa using hk
      split at h
      · next hl =>
        split at h
        · next ho =>
          obtain ⟨b, hb, hpost, hs⟩ := ihC bss rest fm rs hp.2 hg hvr hbss h r hr
          exact ⟨b, hb, hpost, ObjSat.absent hk' hl ho hs⟩
        · cases h; cases hr
      · next fv hl =>
        have hfv : fv.good = true := good_lookup hg hl
        split at h
        · cases h; cases hr
        · next acc hne hacc =>
          have hAcc := ihW bss v fv acc hp.1.1 hfv hvv hbss hacc
          have hAccInv : ∀ b ∈ acc, Cur bs₀ b := fun b hb => by
            obtain ⟨b0, hb0, hpost, _⟩ := hAcc b hb; exact (hbss b0 hb0).post hpost
          obtain ⟨b1, hb1, hpost1, hs1⟩ := ihC acc rest fm rs hp.2 hg hvr hAccInv h r hr
          obtain ⟨b0, hb0, hpost0, hs0⟩ := hAcc b1 hb1
          exact ⟨b0, hb0, hpost0.trans hpost1, ObjSat.present hk' hl (hs0.mono hpost1.ext) hs1⟩
        · next hne1 hne2 => rename_i e; cases e <;> simp_all

theorem sound_gather_step {n : Nat} (ihW : StmtWith bs₀ vs n) (ihG : StmtGather bs₀ vs n) :
    StmtGather bs₀ vs (n+1) := by
  intro bss k v fm rs hp hfm hk hv hbss h r hr
  cases fm with
  | nil => simp only [propGather] at h; cases h; cases hr
  | cons kv rest =>
    obtain ⟨fk, fv⟩ := kv
    have hfk := hfm (fk, fv) List.mem_cons_self
    have hrest : ∀ kv ∈ rest, isVar kv.1 = false ∧ kv.2.good = true :=
      fun kv hm => hfm kv (List.mem_cons_of_mem _ hm)
    have hkv : varsOf (.str k) ⊆ vs := by
      intro x hx
      simp only [varsOf] at hx
      split at hx
      · simp at hx; subst hx; exact hk
      · cases hx
    simp only [propGather] at h
    split at h
    · next ext hext =>
      have hExt := ihW bss (.str k) (.str fk) ext rfl (by simpa [V.good] using hfk.1) hkv hbss hext
      split at h
      · next ext2 hext2 =>
        split at h
        · next more hmore =>
          cases h
          rcases List.mem_append.mp hr with hr | hr
          · split at hext2
            · cases hext2; cases hr
            · have hExtInv : ∀ b ∈ ext, Cur bs₀ b := fun b hb => by
                obtain ⟨b0, hb0, hpost, _⟩ := hExt b hb; exact (hbss b0 hb0).post hpost
              obtain ⟨b1, hb1, hpost1, hs1⟩ := ihW ext v fv ext2 hp hfk.2 hv hExtInv hext2 r hr
              obtain ⟨b0, hb0, hpost0, hs0⟩ := hExt b1 hb1
              exact ⟨b0, hb0, hpost0.trans hpost1, fk, fv, List.mem_cons_self,
                hs0.mono hpost1.ext, hs1⟩
          · obtain ⟨b, hb, hpost, fk', fv', hm, h1, h2⟩ :=
              ihG bss k v rest more hp hrest hk hv hbss hmore r hr
            exact ⟨b, hb, hpost, fk', fv', List.mem_cons_of_mem _ hm, h1, h2⟩
        · next hne => rename_i e; cases e <;> simp_all
      · next hne => rename_i e; cases e <;> simp_all
    · next hne => rename_i e; cases e <;> simp_all

theorem isScalarConst_of_const {s : String} (h : isVar s = false) :
    isScalarConst (.str s) = true := by
  simp [isScalarConst, h]

theorem asNum_good {f : V} {a : Rat} (hg : f.good = true) (h : asNum f = some a) : f = .num a := by
  cases f <;> simp_all [asNum, V.good]

/-- `inequal` declines ⇒ the inequality reading is off for every later result -/
theorem inequal_none {f : V} {bs r : Bs} {s : String}
    (hinv : Cur bs₀ bs) (he : Extends bs r) (h : inequal f bs s = none) :
    ineqActive bs₀ r s f = false := by
  unfold ineqActive
  split
  · rfl
  · next op base hio =>
    split
    · rfl
    · next bv hbv =>
      have hbv' := hinv.ext _ _ hbv
      unfold inequal at h
      rw [hbv'] at h
      simp only at h
      cases hb : asNum bv with
      | none => simp
      | some b =>
        rw [hb] at h
        simp only at h
        cases ha : asNum f with
        | none => simp
        | some a =>
          rw [ha, hio] at h
          simp only at h
          split at h
          · cases h
          · split at h
            · next c' hc' =>
              rw [he _ _ hc']
              split at h
              · next hn => simp [hn]
              · split at h <;> cases h
            · cases h

/-- `inequal` answers ⇒ every answer satisfies the `ineq` constructor -/
theorem inequal_some {f : V} {bs : Bs} {s : String} {rs : List Bs} (hPB : PB vs bs₀) (hs : s ∈ vs)
    (hinv : Cur bs₀ bs) (h : inequal f bs s = some rs) :
    ∀ r ∈ rs, Post vs bs r ∧ Sat bs₀ r (.str s) f := by
  intro r hr
  unfold inequal at h
  split at h
  · cases h
  · next x hx =>
    split at h
    · cases h
    · next b hb =>
      split at h
      · cases h
      · next a ha =>
        split at h
        · cases h
        · next op vv hio =>
          -- the bound is the given one
          have hx0 : lookup s bs₀ = some x := by
            have hne := hPB s hs (by rw [hio]; simp)
            cases h0 : lookup s bs₀ with
            | none => exact absurd h0 hne
            | some y =>
              have := hinv.ext _ _ h0
              rw [hx] at this; cases this; rfl
          split at h
          · cases h; cases hr
          · next hrel =>
            have hrel' : op.rel a b = true := by simpa using hrel
            split at h
            · next c' hc' =>
              split at h
              · cases h
              · next c hc =>
                split at h
                · next hca =>
                  cases h
                  simp at hr; subst hr; subst hca
                  exact ⟨Post.refl hinv.good, Sat.ineq hio hx0 hb ha hrel' hc' hc⟩
                · cases h; cases hr
            · next hnone =>
              cases h
              simp at hr; subst hr
              refine ⟨⟨extends_cons_fresh hnone, goodBs_cons (by simp [V.good]) hinv.good, ?_⟩, ?_⟩
              · intro k hk
                simp only [lookup] at hk
                split at hk
                · next hkv =>
                  subst hkv
                  refine Or.inr (Or.inr ?_)
                  simp only [List.mem_filterMap]
                  exact ⟨s, hs, by rw [hio]; rfl⟩
                · exact Or.inl hk
              · exact Sat.ineq (cv := .num a) hio hx0 hb ha hrel' (by simp [lookup]) (by simp [asNum])

theorem sound_bound_step {n : Nat} (ihM : StmtMatch bs₀ vs n) : StmtBound bs₀ vs (n+1) := by
  intro b f bs rs hb hg hinv h r hr
  have hvb : varsOf b ⊆ vs := by rw [good_varsOf b hb]; intro x hx; cases hx
  simp only [matchBound] at h
  split at h
  · next t =>
    split at h
    · next hv => simp [V.good, hv] at hb
    · exact ihM _ f bs rs (good_plainPat _ hb) hg hvb hinv h r hr
  · exact ihM b f bs rs (good_plainPat b hb) hg hvb hinv h r hr

theorem sound_str_step {n : Nat} (hPB : PB vs bs₀) (ihB : StmtBound bs₀ vs n) :
    StmtStr bs₀ vs (n+1) := by
  intro s f bs rs hg hvs hinv h r hr
  have here : Post vs bs bs := Post.refl hinv.good
  simp only [matchStr] at h
  split at h
  · next hc =>
    have hc' : isVar s = false := by simpa using hc
    split at h
    · next t =>
      split at h
      · next heq =>
        cases h; simp at hr; subst hr; subst heq
        exact ⟨here, Sat.scalar (isScalarConst_of_const hc') rfl⟩
      · cases h; cases hr
    · cases h; cases hr
  · next hv =>
    have hv' : isVar s = true := by simpa using hv
    have hs : s ∈ vs := varsOf_str_mem hv' hvs
    split at h
    · next ha =>
      cases h; simp at hr; subst hr
      have : s = "?" := by simpa [isAnon] using ha
      subst this; exact ⟨here, Sat.anon⟩
    · split at h
      · next rs' hq =>
        cases h
        exact inequal_some hPB hs hinv hq r hr
      · next hq =>
        split at h
        · next b hl =>
          have hb : b.good = true := hinv.good s b hl
          obtain ⟨hpost, hsat⟩ := ihB b f bs rs hb hg hinv h r hr
          exact ⟨hpost, Sat.var hv' (inequal_none hinv hpost.ext hq) (hpost.ext s b hl) hsat⟩
        · next hl =>
          cases h; simp at hr; subst hr
          have hext : Extends bs ((s, f) :: bs) := extends_cons_fresh hl
          refine ⟨⟨hext, goodBs_cons hg hinv.good, ?_⟩, ?_⟩
          · intro k hk
            simp only [lookup] at hk
            split at hk
            · next hks => subst hks; exact Or.inr (Or.inl hs)
            · exact Or.inl hk
          · exact Sat.var hv' (inequal_none hinv hext hq) (by simp [lookup])
              (sat_refl _ _ f hg)

theorem sound_obj_step {n : Nat} (ihC : StmtMapcat bs₀ vs n) (ihG : StmtGather bs₀ vs n) :
    StmtObj bs₀ vs (n+1) := by
  intro pm f bs rs hp hg hv hinv h r hr
  have here : Post vs bs bs := Post.refl hinv.good
  have hone : ∀ b ∈ [bs], Cur bs₀ b := by intro b hb; simp at hb; subst hb; exact hinv
  simp only [matchObj] at h
  split at h
  · next fm =>
    have hgm : goodKvs fm = true := by simpa [V.good] using hg
    have hmap : ∀ rs, mapcat n [bs] pm fm = .ok rs → ∀ r ∈ rs,
        Post vs bs r ∧ Sat bs₀ r (.obj pm) (.obj fm) := by
      intro rs h r hr
      obtain ⟨b, hb, hpost, hs⟩ := ihC [bs] pm fm rs hp hgm hv hone h r hr
      simp at hb; subst hb
      exact ⟨hpost, Sat.obj hs⟩
    split at h
    · next he =>
      cases h; simp at hr; subst hr
      have : pm = [] := by simpa using he
      subst this; exact ⟨here, Sat.objEmpty⟩
    · next hne =>
      split at h
      · cases h
      · next hnb =>
        split at h
        · next k v =>
          split at h
          · next hk =>
            simp only [plainPatKvs, Bool.and_eq_true] at hp
            have hkvs : k ∈ vs := hv (by simp [varsOfKvs, hk])
            have hvv : varsOf v ⊆ vs := fun x hx => hv (by simp [varsOfKvs, hx])
            obtain ⟨b, hb, hpost, fk, fv, hm, h1, h2⟩ :=
              ihG [bs] k v fm rs hp.1.1 (goodKvs_mem hgm) hkvs hvv hone h r hr
            simp at hb; subst hb
            exact ⟨hpost, Sat.objProp hk hm h1 h2⟩
          · exact hmap rs h r hr
        · exact hmap rs h r hr
  · cases h; cases hr

theorem sound_match_step {n : Nat} (ihS : StmtStr bs₀ vs n) (ihO : StmtObj bs₀ vs n)
    (ihA : StmtArr bs₀ vs n) : StmtMatch bs₀ vs (n+1) := by
  intro p f bs rs hp hg hv hinv h r hr
  have here : Post vs bs bs := Post.refl hinv.good
  unfold matchF at h
  rw [fudge_plainPat hp, fudge_good hg] at h
  cases p with
  | int _ => simp [V.plainPat] at hp
  | bobj _ => simp [V.plainPat] at hp
  | other _ => simp [V.plainPat] at hp
  | arr ps => exact ihA ps f bs rs (by simpa [V.plainPat] using hp) hg (by simpa [varsOf] using hv) hinv h r hr
  | null =>
    simp only [matchNull] at h
    split at h <;> cases h
    · simp at hr; subst hr; exact ⟨here, Sat.scalar rfl rfl⟩
    · cases hr
  | bool a =>
    simp only [matchBool] at h
    split at h
    · split at h <;> cases h
      · next heq => simp at hr; subst hr; subst heq; exact ⟨here, Sat.scalar rfl rfl⟩
      · cases hr
    · cases h; cases hr
  | num a =>
    simp only [matchNum] at h
    split at h
    · split at h <;> cases h
      · next heq => simp at hr; subst hr; subst heq; exact ⟨here, Sat.scalar rfl rfl⟩
      · cases hr
    · cases h; cases hr
  | str s => exact ihS s f bs rs hg hv hinv h r hr
  | obj pm => exact ihO pm f bs rs (by simpa [V.plainPat] using hp) hg (by simpa [varsOf] using hv) hinv h r hr

end
