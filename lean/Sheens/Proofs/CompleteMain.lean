import Sheens.Proofs.CompleteLists

/-!
# Completeness (C02), part 3: along an embedding, every successful run contains a result `⊆ σ`

`MainF p f`: if `matchF n p f bs` returns `ok rs` from bindings `bs ⊆ σ`, some `r ∈ rs` is still
`⊆ σ` (and binds the non-optional variables of `p`).  One lemma per constructor of
`Emb / ObjEmb / ArrEmbX`; `main_all` assembles them with the recursor.
-/

namespace Sheens.Complete

/-- extra hypothesis (see `Sheens.C02`): the counterpart of a numerically pre-bound inequality
    variable is, if `σ` assigns it at all, numeric -/
def IBN (vs : List String) (bs₀ σ : Bs) : Prop :=
  ∀ v ∈ vs, ∀ op base bv c, ineqOf v = some (op, base) → lookup v bs₀ = some bv →
    (asNum bv).isSome = true → lookup base σ = some c → (asNum c).isSome = true

/-- side conditions, fixed for the whole run -/
structure Side (bs₀ σ : Bs) (vs : List String) : Prop where
  pb : PB vs bs₀
  ibn : IBN vs bs₀ σ
  goodσ : GoodBs σ

def MainF (bs₀ σ : Bs) (vs : List String) (p f : V) : Prop :=
  ∀ n bs rs, Inv bs₀ σ bs → Ok σ (varsOf p) bs → (∀ k ∈ varsOf p, k ∈ vs) → p.plainPat = true →
    f.good = true → setLike f = true → matchF n p f bs = .ok rs →
    ∃ r ∈ rs, Res bs₀ σ bs (varsOf p) r

def MainKvs (bs₀ σ : Bs) (vs : List String) (pm fm : List (String × V)) : Prop :=
  (∀ kv ∈ pm, isVar kv.1 = false) ∧
  ∀ n bss rs b, b ∈ bss → Inv bs₀ σ b → Ok σ (varsOfKvs pm) b → (∀ k ∈ varsOfKvs pm, k ∈ vs) →
    plainPatKvs pm = true → goodKvs fm = true → setLikeKvs fm = true →
    mapcat n bss pm fm = .ok rs → ∃ r ∈ rs, Res bs₀ σ b (varsOfKvs pm) r

/-- all-branches invariant: distinct indexes, and the number of facts still on offer -/
def Q (fxs : List Scalar) (k : Nat) : List Bs → List (Nat × V) → Prop :=
  fun _ mm => IdxNodup mm ∧ mm.length + fxs.length = k

/-- the branch that follows the embedding -/
structure GB (fs : List V) (fxs : List Scalar) (flag : Bool) (b : Bs) (bss : List Bs)
    (mm : List (Nat × V)) : Prop where
  mem : b ∈ bss
  perm : fs.Perm (remOf mm fxs)
  flag : flag = true → mm = []
  struct : ∀ e ∈ mm, e.2.scalar? = none

/-- an early exit, if any, is an `ok` -/
def NotBad {α : Type} (out : Sum MRes α) : Prop := ∀ r, out = .inl r → ∃ rs, r = .ok rs

def MainLoop (bs₀ σ : Bs) (vs : List String) (xs fs L : List V) : Prop :=
  ∀ n fxs bsss fxas flag b bss mm,
    Inv bs₀ σ b → Ok σ (varsOfList xs) b → (∀ x ∈ xs, ∀ k ∈ varsOf x, k ∈ vs) →
    (∀ x ∈ xs, x.plainPat = true) → (∀ x ∈ xs, isVarV x = false) →
    (∀ x ∈ fs, x.good = true ∧ setLike x = true) →
    MemBr bss mm bsss fxas → GB fs fxs flag b bss mm → Brs (Q fxs fs.length) bsss fxas →
    NotBad (loopXs n xs fxs bsss fxas flag) →
    ∃ fxs' bsss' fxas' r bss' mm', loopXs n xs fxs bsss fxas flag = .inr (fxs', bsss', fxas') ∧
      MemBr bss' mm' bsss' fxas' ∧ r ∈ bss' ∧ Res bs₀ σ b (varsOfList xs) r ∧
      L.Perm (remOf mm' fxs') ∧ Brs (Q fxs' L.length) bsss' fxas' ∧ (∀ x ∈ L, x ∈ fs)

section
variable {bs₀ σ : Bs} {vs : List String}

/-- the result is the unchanged bindings -/
theorem Res.self {bs : Bs} {W : List String} (hi : Inv bs₀ σ bs)
    (hb : ∀ v ∈ W, isOptVar (.str v) = false → isAnon v = false → lookup v bs ≠ none) :
    Res bs₀ σ bs W bs :=
  ⟨hi, Extends.refl _, fun _ h => Or.inl h, hb⟩

/-! ## scalars -/

theorem scalar_self {p : V} {n : Nat} {bs : Bs} {rs : List Bs} (hc : isScalarConst p = true)
    (h : matchF n p p bs = .ok rs) : rs = [bs] := by
  cases n with
  | zero => simp [matchF] at h
  | succ n =>
    cases p with
    | null => simp [matchF, fudge, matchNull] at h; exact h.symm
    | bool a => simp [matchF, fudge, matchBool] at h; exact h.symm
    | num a => simp [matchF, fudge, matchNum] at h; exact h.symm
    | str s =>
      have hv : isVar s = false := by simpa [isScalarConst] using hc
      cases n with
      | zero => simp [matchF, fudge, matchStr] at h
      | succ n => simp [matchF, fudge, matchStr, hv] at h; exact h.symm
    | _ => simp [isScalarConst] at hc

theorem scalarConst_vars {p : V} (hc : isScalarConst p = true) : varsOf p = [] := by
  cases p <;> simp_all [isScalarConst, varsOf]

theorem scalarConst_of_good {f : V} (hg : f.good = true) (hs : isScalarV f = true) :
    isScalarConst f = true := by
  cases f <;> simp_all [isScalarConst, isScalarV, V.good]

theorem bound_scalar_self {f : V} {n : Nat} {bs : Bs} {rs : List Bs} (hg : f.good = true)
    (hs : isScalarV f = true) (h : matchBound n f f bs = .ok rs) : rs = [bs] := by
  have hc := scalarConst_of_good hg hs
  cases n with
  | zero => simp [matchBound] at h
  | succ n =>
    simp only [matchBound] at h
    split at h
    · next t =>
      have hv : isVar t = false := by simpa [isScalarConst] using hc
      rw [if_neg (by simp [hv])] at h
      exact scalar_self hc h
    · exact scalar_self hc h

theorem main_scalar {p f : V} (hc : isScalarConst p = true) (he : p = f) : MainF bs₀ σ vs p f := by
  intro n bs rs hinv _ _ _ _ _ h
  subst he
  have := scalar_self hc h
  subst this
  rw [scalarConst_vars hc]
  exact ⟨bs, List.mem_singleton.mpr rfl, Res.refl_nil hinv⟩

/-! ## variables -/

theorem inequal_none_of_inactive (hS : Side bs₀ σ vs) {f : V} {bs : Bs} {v : String} (hv : v ∈ vs)
    (hinv : Inv bs₀ σ bs) (hia : ineqActive bs₀ σ v f = false) (hlk : lookup v bs = some f) :
    inequal f bs v = none := by
  unfold inequal
  rw [hlk]
  simp only
  cases ha : asNum f with
  | none => rfl
  | some a =>
    simp only
    cases hio : ineqOf v with
    | none => rfl
    | some ob =>
      obtain ⟨op, base⟩ := ob
      exfalso
      have hne := hS.pb v hv (by rw [hio]; simp)
      cases hbv : lookup v bs₀ with
      | none => exact hne hbv
      | some bv =>
        have h1 := hinv.ext0 _ _ hbv
        rw [hlk] at h1
        cases h1
        unfold ineqActive at hia
        rw [hio] at hia
        simp only [hbv, ha, Option.isSome_some, Bool.and_self, Bool.true_and] at hia
        cases hc : lookup base σ with
        | none => rw [hc] at hia; simp at hia
        | some c =>
          rw [hc] at hia
          simp only at hia
          have := hS.ibn v hv op base f c hio hbv (by rw [ha]; rfl) hc
          rw [hia] at this
          cases this

theorem main_var {v : String} {f : V} (hS : Side bs₀ σ vs) (hv : isVar v = true)
    (hvar : VarAt bs₀ σ v f) : MainF bs₀ σ vs (.str v) f := by
  intro n bs rs hinv hok hvs _ hg _ h
  rw [varsOf_str_var hv] at hok hvs ⊢
  have hvin : v ∈ vs := hvs v (List.mem_singleton.mpr rfl)
  cases n with
  | zero => simp [matchF] at h
  | succ n =>
    unfold matchF at h
    rw [fudge_good hg, show fudge (V.str v) = V.str v from rfl] at h
    simp only at h
    cases n with
    | zero => simp [matchStr] at h
    | succ n =>
      simp only [matchStr, hv, Bool.not_true, Bool.false_eq_true, if_false] at h
      by_cases ha : isAnon v = true
      · rw [if_pos ha] at h
        cases h
        refine ⟨bs, List.mem_singleton.mpr rfl, Res.self hinv ?_⟩
        intro w hw _ hna
        rw [List.mem_singleton.mp hw, ha] at hna
        cases hna
      · rw [if_neg ha] at h
        rcases hvar with h1 | ⟨_, hia, hl⟩ | ⟨op, base, bv, b, a, cv, hio, hbv, hb, hfa, hrel, hcv, hca⟩
        · exact absurd h1 ha
        · cases hlk : lookup v bs with
          | none =>
            have hq : inequal f bs v = none := by unfold inequal; rw [hlk]
            rw [hq] at h
            simp only [hlk] at h
            cases h
            refine ⟨_, List.mem_singleton.mpr rfl, ⟨?_, ?_, ?_⟩, extends_cons_fresh hlk, ?_, ?_⟩
            · exact hinv.ext0.trans (extends_cons_fresh hlk)
            · exact goodBs_cons hg hinv.good
            · intro k w hk
              simp only [lookup] at hk
              split at hk
              · next hkv => cases hk; rw [hkv]; exact hl
              · exact hinv.sub k w hk
            · intro k hk
              simp only [lookup] at hk
              split at hk
              · next hkv => exact Or.inr (Or.inl (List.mem_singleton.mpr hkv))
              · exact Or.inl hk
            · intro w hw _ _
              rw [List.mem_singleton.mp hw]
              simp [lookup]
          | some x =>
            have hx : x = f := by
              have := hinv.sub _ _ hlk
              rw [hl] at this
              cases this; rfl
            subst hx
            have hq := inequal_none_of_inactive hS hvin hinv hia hlk
            rw [hq] at h
            simp only [hlk] at h
            have hsc : isScalarV x = true :=
              hok v (List.mem_singleton.mpr rfl) (Or.inl (by rw [hlk]; simp)) x hl
            have := bound_scalar_self hg hsc h
            subst this
            refine ⟨bs, List.mem_singleton.mpr rfl, Res.self hinv ?_⟩
            intro w hw _ _
            rw [List.mem_singleton.mp hw, hlk]
            simp
        · have hlk : lookup v bs = some bv := hinv.ext0 _ _ hbv
          have hrel' : (!op.rel a b) = false := by rw [hrel]; rfl
          cases hc : lookup base bs with
          | some c' =>
            have hc' : c' = cv := by
              have := hinv.sub _ _ hc
              rw [hcv] at this
              cases this; rfl
            subst hc'
            have hq : inequal f bs v = some [bs] := by
              unfold inequal
              simp only [hlk, hb, hfa, hio, hrel', hc, hca, Bool.false_eq_true, if_false, if_true]
            rw [hq] at h
            simp only at h
            cases h
            refine ⟨bs, List.mem_singleton.mpr rfl, Res.self hinv ?_⟩
            intro w hw _ _
            rw [List.mem_singleton.mp hw, hlk]
            simp
          | none =>
            have hq : inequal f bs v = some [(base, .num a) :: bs] := by
              unfold inequal
              simp only [hlk, hb, hfa, hio, hrel', hc, Bool.false_eq_true, if_false]
            rw [hq] at h
            simp only at h
            cases h
            have hcvn : cv = .num a := asNum_good (hS.goodσ _ _ hcv) hca
            refine ⟨_, List.mem_singleton.mpr rfl, ⟨?_, ?_, ?_⟩, extends_cons_fresh hc, ?_, ?_⟩
            · exact hinv.ext0.trans (extends_cons_fresh hc)
            · exact goodBs_cons (by simp [V.good]) hinv.good
            · intro k w hk
              simp only [lookup] at hk
              split at hk
              · next hkv => cases hk; rw [hkv, hcv, hcvn]
              · exact hinv.sub k w hk
            · intro k hk
              simp only [lookup] at hk
              split at hk
              · next hkv =>
                refine Or.inr (Or.inr ?_)
                intro y hy
                rw [hkv, hcv] at hy
                cases hy
                rw [hcvn]; rfl
              · exact Or.inl hk
            · intro w hw _ _
              rw [List.mem_singleton.mp hw]
              exact bound_mono (extends_cons_fresh hc) (by rw [hlk]; simp)

/-! ## objects -/

theorem mem_ne_nil {α} {a : α} {l : List α} (h : a ∈ l) : l ≠ [] := by
  intro hl; rw [hl] at h; cases h

theorem main_objEmpty {fm : List (String × V)} : MainF bs₀ σ vs (.obj []) (.obj fm) := by
  intro n bs rs hinv _ _ _ _ _ h
  have hW : varsOf (.obj []) = [] := by simp [varsOf, varsOfKvs]
  rw [hW]
  cases n with
  | zero => simp [matchF] at h
  | succ n =>
    cases n with
    | zero => simp [matchF, fudge, matchObj] at h
    | succ n =>
      simp [matchF, fudge, matchObj] at h
      subst h
      exact ⟨bs, List.mem_singleton.mpr rfl, Res.refl_nil hinv⟩

theorem main_kvs_nil {fm : List (String × V)} : MainKvs bs₀ σ vs [] fm := by
  refine ⟨(by intro kv h; cases h), ?_⟩
  intro n bss rs b hb hinv _ _ _ _ _ h
  have hW : varsOfKvs [] = [] := by simp [varsOfKvs]
  rw [hW]
  cases n with
  | zero => simp [mapcat] at h
  | succ n =>
    simp only [mapcat] at h
    cases h
    exact ⟨b, hb, Res.refl_nil hinv⟩

theorem main_kvs_present {k : String} {pv fv : V} {rest fm : List (String × V)}
    (hk : isVar k = false) (hl : lookup k fm = some fv) (ih1 : MainF bs₀ σ vs pv fv)
    (ih2 : MainKvs bs₀ σ vs rest fm) : MainKvs bs₀ σ vs ((k, pv) :: rest) fm := by
  refine ⟨?_, ?_⟩
  · intro kv hkv
    rcases List.mem_cons.mp hkv with rfl | hkv
    · exact hk
    · exact ih2.1 kv hkv
  intro n bss rs b hb hinv hok hvs hpp hgm hsl h
  have hW : varsOfKvs ((k, pv) :: rest) = varsOf pv ++ varsOfKvs rest := by simp [varsOfKvs, hk]
  rw [hW] at hok hvs ⊢
  simp only [plainPatKvs, Bool.and_eq_true] at hpp
  cases n with
  | zero => simp [mapcat] at h
  | succ n =>
    simp only [mapcat, hk, Bool.false_eq_true, if_false, hl] at h
    cases hWi : matchWith n bss pv fv with
    | diverge => rw [hWi] at h; cases h
    | err e => rw [hWi] at h; cases h
    | ok acc =>
      obtain ⟨m, rs1, hF, hsub⟩ := with_complete bss n pv fv acc b hWi hb
      obtain ⟨r1, hr1, hres1⟩ := ih1 m b rs1 hinv hok.left
        (fun x hx => hvs x (List.mem_append_left _ hx)) hpp.1.1 (good_lookup hgm hl)
        (setLikeKvs_lookup hsl hl) hF
      have hr1acc := hsub r1 hr1
      rw [hWi] at h
      cases acc with
      | nil => cases hr1acc
      | cons a as =>
        simp only at h
        obtain ⟨r2, hr2, hres2⟩ := ih2.2 n _ rs r1 hr1acc hres1.inv (hok.right hres1)
          (fun x hx => hvs x (List.mem_append_right _ hx)) hpp.2 hgm hsl h
        exact ⟨r2, hr2, hres1.seq hres2⟩

theorem main_kvs_absent {k : String} {pv : V} {rest fm : List (String × V)}
    (hk : isVar k = false) (hl : lookup k fm = none) (ho : isOptVar pv = true)
    (ih2 : MainKvs bs₀ σ vs rest fm) : MainKvs bs₀ σ vs ((k, pv) :: rest) fm := by
  refine ⟨?_, ?_⟩
  · intro kv hkv
    rcases List.mem_cons.mp hkv with rfl | hkv
    · exact hk
    · exact ih2.1 kv hkv
  intro n bss rs b hb hinv hok hvs hpp hgm hsl h
  have hW : varsOfKvs ((k, pv) :: rest) = varsOf pv ++ varsOfKvs rest := by simp [varsOfKvs, hk]
  rw [hW] at hok hvs ⊢
  simp only [plainPatKvs, Bool.and_eq_true] at hpp
  cases n with
  | zero => simp [mapcat] at h
  | succ n =>
    simp only [mapcat, hk, Bool.false_eq_true, if_false, hl, ho, if_true] at h
    obtain ⟨r, hr, hres⟩ := ih2.2 n bss rs b hb hinv hok.suffix
      (fun x hx => hvs x (List.mem_append_right _ hx)) hpp.2 hgm hsl h
    refine ⟨r, hr, hres.mono (fun x hx => List.mem_append_right _ hx) ?_⟩
    intro x hx
    rcases List.mem_append.mp hx with hx | hx
    · exact Or.inr (optVar_vars ho x hx)
    · exact Or.inl hx

theorem main_obj {pm fm : List (String × V)} (hne : pm ≠ []) (ih2 : MainKvs bs₀ σ vs pm fm) :
    MainF bs₀ σ vs (.obj pm) (.obj fm) := by
  intro n bs rs hinv hok hvs hpp hg hsl h
  have hW : varsOf (.obj pm) = varsOfKvs pm := by simp [varsOf]
  rw [hW] at hok hvs ⊢
  have hpp' : plainPatKvs pm = true := by simpa [V.plainPat] using hpp
  have hg' : goodKvs fm = true := by simpa [V.good] using hg
  have hsl' : setLikeKvs fm = true := by simpa [setLike] using hsl
  cases n with
  | zero => simp [matchF] at h
  | succ n =>
    unfold matchF at h
    rw [show fudge (V.obj pm) = V.obj pm from rfl, show fudge (V.obj fm) = V.obj fm from rfl] at h
    simp only at h
    cases n with
    | zero => simp [matchObj] at h
    | succ n =>
      have he : pm.isEmpty = false := by
        cases pm with
        | nil => exact absurd rfl hne
        | cons _ _ => rfl
      have hbad : checkBadPropVars pm = false := by
        unfold checkBadPropVars
        have : pm.any (fun kv => isVar kv.1) = false :=
          List.any_eq_false.mpr (fun kv hkv => by simp [ih2.1 kv hkv])
        rw [this]; simp
      simp only [matchObj, he, hbad, Bool.false_eq_true, if_false] at h
      have hmc : mapcat n [bs] pm fm = .ok rs := by
        split at h
        · next k v =>
          have := ih2.1 (k, v) List.mem_cons_self
          simp only at this
          rw [if_neg (by simp [this])] at h
          exact h
        · exact h
      exact ih2.2 n [bs] rs bs (List.mem_singleton.mpr rfl) hinv hok hvs hpp' hg' hsl' hmc

theorem main_objProp {k fk : String} {pv fv : V} {fm : List (String × V)} (hS : Side bs₀ σ vs)
    (hk : isVar k = true) (hm : (fk, fv) ∈ fm) (hvar : VarAt bs₀ σ k (.str fk))
    (ih1 : MainF bs₀ σ vs pv fv) : MainF bs₀ σ vs (.obj [(k, pv)]) (.obj fm) := by
  intro n bs rs hinv hok hvs hpp hg hsl h
  have hW : varsOf (.obj [(k, pv)]) = [k] ++ varsOf pv := by simp [varsOf, varsOfKvs, hk]
  rw [hW] at hok hvs ⊢
  have hpp' : pv.plainPat = true := by
    have : plainPatKvs [(k, pv)] = true := by simpa [V.plainPat] using hpp
    simp only [plainPatKvs, Bool.and_eq_true] at this
    exact this.1.1
  have hg' : goodKvs fm = true := by simpa [V.good] using hg
  have hsl' : setLikeKvs fm = true := by simpa [setLike] using hsl
  have hfk := goodKvs_mem hg' (fk, fv) hm
  cases n with
  | zero => simp [matchF] at h
  | succ n =>
    unfold matchF at h
    rw [show fudge (V.obj [(k, pv)]) = V.obj [(k, pv)] from rfl,
      show fudge (V.obj fm) = V.obj fm from rfl] at h
    simp only at h
    cases n with
    | zero => simp [matchObj] at h
    | succ n =>
      simp [matchObj, checkBadPropVars, hk] at h
      obtain ⟨m, ext, hw, hext⟩ := gather_complete fm n rs h hm
      obtain ⟨m1, rs1, hF1, hsub1⟩ := with_complete [bs] m (.str k) (.str fk) ext bs hw
        (List.mem_singleton.mpr rfl)
      have hv1 := main_var hS hk hvar m1 bs rs1 hinv (by rw [varsOf_str_var hk]; exact hok.left)
        (by rw [varsOf_str_var hk]; exact fun x hx => hvs x (List.mem_append_left _ hx)) rfl
        (by simpa [V.good] using hfk.1) (by simp [setLike]) hF1
      rw [varsOf_str_var hk] at hv1
      obtain ⟨r1, hr1, hres1⟩ := hv1
      have hr1e := hsub1 r1 hr1
      obtain ⟨m', ext2, hw2, hsub2⟩ := hext (mem_ne_nil hr1e)
      obtain ⟨m2, rs2, hF2, hsub3⟩ := with_complete ext m' pv fv ext2 r1 hw2 hr1e
      obtain ⟨r2, hr2, hres2⟩ := ih1 m2 r1 rs2 hres1.inv (hok.right hres1)
        (fun x hx => hvs x (List.mem_append_right _ hx)) hpp' hfk.2
        (setLikeKvs_mem hsl' (fk, fv) hm) hF2
      exact ⟨r2, hsub2 r2 (hsub3 r2 hr2), hres1.seq hres2⟩

/-! ## arrays -/

theorem emb_scalar_eq {x f : V} {sc : Scalar} (he : Emb bs₀ σ x f) (hsc : x.scalar? = some sc)
    (hnv : isVarV x = false) : x = f := by
  cases he with
  | scalar _ heq => exact heq
  | var hv _ => simp [isVarV, hv] at hnv
  | objEmpty => simp [V.scalar?] at hsc
  | objProp _ _ _ _ => simp [V.scalar?] at hsc
  | obj _ _ => simp [V.scalar?] at hsc
  | arr _ _ _ => simp [V.scalar?] at hsc

theorem emb_struct {x f : V} (he : Emb bs₀ σ x f) (hsc : x.scalar? = none) : f.scalar? = none := by
  cases he with
  | scalar hc heq => cases x <;> simp_all [isScalarConst, V.scalar?]
  | var _ _ => simp [V.scalar?] at hsc
  | objEmpty => rfl
  | objProp _ _ _ _ => rfl
  | obj _ _ => rfl
  | arr _ _ _ => rfl

theorem filter_step {mm : List (Nat × V)} {j : Nat} {fact : V} (hn : IdxNodup mm)
    (hm : (j, fact) ∈ mm) : IdxNodup (mm.filter (fun e => e.1 != j)) ∧
      (mm.filter (fun e => e.1 != j)).length + 1 = mm.length := by
  obtain ⟨a, c, hab, hf⟩ := split_of_mem hn hm
  rw [hf]
  refine ⟨?_, ?_⟩
  · rw [hab] at hn; exact idxNodup_remove a hn
  · rw [hab]; simp; omega

theorem remOf_remove {mm : List (Nat × V)} {j : Nat} {fact : V} {fxs : List Scalar}
    (hn : IdxNodup mm) (hm : (j, fact) ∈ mm) :
    (remOf mm fxs).Perm (fact :: remOf (mm.filter (fun e => e.1 != j)) fxs) := by
  obtain ⟨a, c, hab, hf⟩ := split_of_mem hn hm
  rw [hf, hab]
  simp only [remOf, List.map_append, List.map_cons, List.append_assoc, List.cons_append]
  exact List.perm_middle

theorem remOf_erase {mm : List (Nat × V)} {fxs : List Scalar} {sc : Scalar} (hm : sc ∈ fxs) :
    (remOf mm fxs).Perm (sc.toV :: remOf mm (fxs.erase sc)) := by
  have h1 : (fxs.map Scalar.toV).Perm (sc.toV :: (fxs.erase sc).map Scalar.toV) :=
    (List.perm_cons_erase hm).map Scalar.toV
  unfold remOf
  exact (List.Perm.append_left _ h1).trans List.perm_middle

theorem mem_remOf {mm : List (Nat × V)} {fxs : List Scalar} {f : V} :
    f ∈ remOf mm fxs ↔ (∃ j, (j, f) ∈ mm) ∨ ∃ sc ∈ fxs, sc.toV = f := by
  unfold remOf
  rw [List.mem_append, List.mem_map, List.mem_map]
  constructor
  · rintro (⟨e, he, rfl⟩ | h)
    · exact Or.inl ⟨e.1, he⟩
    · exact Or.inr h
  · rintro (⟨j, hj⟩ | h)
    · exact Or.inl ⟨(j, f), hj, rfl⟩
    · exact Or.inr h

theorem leftovers_has {ss : List Scalar} {sc : Scalar} (h : sc ∈ ss) :
    ∀ i, ∃ j, (j, sc.toV) ∈ leftovers ss i := by
  induction ss with
  | nil => cases h
  | cons s ss ih =>
    intro i
    simp only [leftovers]
    rcases List.mem_cons.mp h with rfl | h
    · exact ⟨i, List.mem_cons_self⟩
    · obtain ⟨j, hj⟩ := ih h (i+1)
      exact ⟨j, List.mem_cons_of_mem _ hj⟩

theorem main_loop_nil {fs : List V} : MainLoop bs₀ σ vs [] fs fs := by
  intro n fxs bsss fxas flag b bss mm hinv _ _ _ _ _ hmb hgb hQ hnb
  have hW : varsOfList [] = [] := by simp [varsOfList]
  rw [hW]
  cases n with
  | zero =>
    obtain ⟨rs, hrs⟩ := hnb .diverge (by simp [loopXs])
    cases hrs
  | succ n =>
    exact ⟨fxs, bsss, fxas, b, bss, mm, by simp [loopXs], hmb, hgb.mem, Res.refl_nil hinv,
      hgb.perm, hQ, fun _ h => h⟩

theorem main_loop_cons {x f : V} {xs fs fs' L : List V} (hpick : Pick f fs fs')
    (hemb : Emb bs₀ σ x f) (ih1 : MainF bs₀ σ vs x f) (ih3 : MainLoop bs₀ σ vs xs fs' L) :
    MainLoop bs₀ σ vs (x :: xs) fs L := by
  intro n fxs bsss fxas flag b bss mm hinv hok hvs hpp hnv hfs hmb hgb hQ hnb
  have hW : varsOfList (x :: xs) = varsOf x ++ varsOfList xs := by simp [varsOfList]
  rw [hW] at hok ⊢
  have hperm := hpick.perm
  have hlen : fs.length = fs'.length + 1 := by simpa using hperm.length_eq
  have hfmem : f ∈ remOf mm fxs := hgb.perm.mem_iff.mp hpick.mem
  have hfs' : ∀ y ∈ fs', y.good = true ∧ setLike y = true := fun y hy => hfs y (hpick.sub y hy)
  have hxvs : ∀ k ∈ varsOf x, k ∈ vs := hvs x List.mem_cons_self
  have hvs' : ∀ y ∈ xs, ∀ k ∈ varsOf y, k ∈ vs := fun y hy => hvs y (List.mem_cons_of_mem _ hy)
  have hpp' : ∀ y ∈ xs, y.plainPat = true := fun y hy => hpp y (List.mem_cons_of_mem _ hy)
  have hnv' : ∀ y ∈ xs, isVarV y = false := fun y hy => hnv y (List.mem_cons_of_mem _ hy)
  cases n with
  | zero =>
    obtain ⟨rs, hrs⟩ := hnb .diverge (by simp [loopXs])
    cases hrs
  | succ n =>
    cases hsc : x.scalar? with
    | some sc =>
      have hxf : x = f := emb_scalar_eq hemb hsc (hnv x List.mem_cons_self)
      have hfv : f = sc.toV := by rw [← hxf]; exact scalar_toV hsc
      have hscm : sc ∈ fxs := by
        rcases mem_remOf.mp hfmem with ⟨j, hj⟩ | ⟨s, hs, hst⟩
        · have := hgb.struct _ hj
          simp only at this
          rw [hfv, toV_scalar] at this
          cases this
        · rw [hfv] at hst
          rw [← toV_inj hst]; exact hs
      have hstep : loopXs (n+1) (x :: xs) fxs bsss fxas flag =
          loopXs n xs (fxs.erase sc) bsss fxas flag := by
        simp only [loopXs, hsc, List.contains_iff_mem.mpr hscm, if_true]
      have hx0 : varsOf x = [] := scalarConst_vars (scalar_const hsc (hnv x List.mem_cons_self))
      rw [hx0] at hok ⊢
      simp only [List.nil_append] at hok ⊢
      rw [hstep] at hnb ⊢
      have hgb' : GB fs' (fxs.erase sc) flag b bss mm := by
        refine ⟨hgb.mem, ?_, hgb.flag, hgb.struct⟩
        have h1 : (f :: fs').Perm (f :: remOf mm (fxs.erase sc)) := by
          refine hperm.symm.trans (hgb.perm.trans ?_)
          rw [hfv]; exact remOf_erase hscm
        exact h1.cons_inv
      have hQ' : Brs (Q (fxs.erase sc) fs'.length) bsss fxas := by
        refine hQ.imp ?_
        intro _ mm0 ⟨h1, h2⟩
        refine ⟨h1, ?_⟩
        have := List.length_erase_of_mem hscm
        have hpos : 0 < fxs.length := List.length_pos_of_mem hscm
        omega
      obtain ⟨fxs', bsss', fxas', r, bss', mm', e1, e2, e3, e4, e5, e6, e7⟩ :=
        ih3 n (fxs.erase sc) bsss fxas flag b bss mm hinv hok hvs' hpp' hnv' hfs' hmb hgb' hQ' hnb
      exact ⟨fxs', bsss', fxas', r, bss', mm', e1, e2, e3, e4, e5, e6,
        fun y hy => hpick.sub y (e7 y hy)⟩
    | none =>
      have hfsc : f.scalar? = none := emb_struct hemb hsc
      obtain ⟨j, hj⟩ : ∃ j, (j, f) ∈ mm := by
        rcases mem_remOf.mp hfmem with h | ⟨s, _, hst⟩
        · exact h
        · rw [← hst, toV_scalar] at hfsc; cases hfsc
      have hflag : flag = false := by
        cases flag with
        | false => rfl
        | true => have := hgb.flag rfl; rw [this] at hj; cases hj
      subst hflag
      have hQmm := hQ.of_memBr hmb
      cases hcat : arraycat n bsss x fxas with
      | inl r =>
        have hstep : loopXs (n+1) (x :: xs) fxs bsss fxas false = .inl r := by
          simp only [loopXs, hsc, hcat, Bool.false_eq_true, if_false]
        obtain ⟨rs, hrs⟩ := hnb r hstep
        exact absurd hrs (arraycat_inl _ _ _ _ _ hcat rs)
      | inr y =>
        obtain ⟨bsss1, fxas1⟩ := y
        obtain ⟨m, acc, hw, hacc⟩ := cat_complete hmb n bsss1 fxas1 hcat hj
        obtain ⟨m1, rs1, hF, hsub⟩ := with_complete bss m x f acc b hw hgb.mem
        obtain ⟨r1, hr1, hres1⟩ := ih1 m1 b rs1 hinv hok.left hxvs (hpp x List.mem_cons_self)
          (hfs f hpick.mem).1 (hfs f hpick.mem).2 hF
        have hr1acc := hsub r1 hr1
        have hmb1 := hacc (mem_ne_nil hr1acc)
        have hne1 : bsss1.isEmpty = false := by
          have := mem_ne_nil hmb1.mem_left
          cases bsss1 with
          | nil => exact absurd rfl this
          | cons _ _ => rfl
        have hstep : loopXs (n+1) (x :: xs) fxs bsss fxas false =
            loopXs n xs fxs bsss1 fxas1 false := by
          simp only [loopXs, hsc, hcat, hne1, Bool.false_eq_true, if_false]
        rw [hstep] at hnb ⊢
        have hgb' : GB fs' fxs false r1 acc (mm.filter (fun e => e.1 != j)) := by
          refine ⟨hr1acc, ?_, (fun h => by cases h),
            fun e he => hgb.struct e (List.mem_filter.mp he).1⟩
          have h1 : (f :: fs').Perm (f :: remOf (mm.filter (fun e => e.1 != j)) fxs) :=
            hperm.symm.trans (hgb.perm.trans (remOf_remove hQmm.1 hj))
          exact h1.cons_inv
        have hQ' : Brs (Q fxs fs'.length) bsss1 fxas1 := by
          refine (cat_shape bsss fxas n bsss1 fxas1 hQ hcat).imp ?_
          intro _ mm' ⟨bss0, mm0, j0, fact0, ⟨hn0, hl0⟩, hm0, he0⟩
          obtain ⟨h1, h2⟩ := filter_step hn0 hm0
          rw [he0]
          exact ⟨h1, by omega⟩
        obtain ⟨fxs', bsss', fxas', r, bss', mm', e1, e2, e3, e4, e5, e6, e7⟩ :=
          ih3 n fxs bsss1 fxas1 false r1 acc _ hres1.inv (hok.right hres1) hvs' hpp' hnv' hfs'
            hmb1 hgb' hQ' hnb
        exact ⟨fxs', bsss', fxas', r, bss', mm', e1, e2, e3, hres1.seq e4, e5, e6,
          fun y hy => hpick.sub y (e7 y hy)⟩

theorem main_arr {ps xs fs L : List V} {vo : Option String} (hS : Side bs₀ σ vs)
    (hvar : match vo with
      | none => True
      | some v => (∃ f ∈ L, VarAt bs₀ σ v f) ∨ (isOptVar (.str v) = true ∧ L = []))
    (hgv : getVariable ps none [] = .ok (vo, xs)) (ih3 : MainLoop bs₀ σ vs xs fs L) :
    MainF bs₀ σ vs (.arr ps) (.arr fs) := by
  intro n bs rs hinv hok hvs hpp hg hsl h
  have hW : varsOf (.arr ps) = varsOfList ps := by simp [varsOf]
  rw [hW] at hok hvs ⊢
  have hpp' : plainPatList ps = true := by simpa [V.plainPat] using hpp
  have hfa : goodList fs = true := by simpa [V.good] using hg
  have hsl' : scalarsNodup fs = true ∧ setLikeList fs = true := by simpa [setLike] using hsl
  have hfs : ∀ x ∈ fs, x.good = true ∧ setLike x = true :=
    fun x hx => ⟨goodList_mem hfa x hx, setLikeList_mem hsl'.2 x hx⟩
  cases n with
  | zero => simp [matchF] at h
  | succ n =>
    unfold matchF at h
    rw [show fudge (V.arr ps) = V.arr ps from rfl, show fudge (V.arr fs) = V.arr fs from rfl] at h
    simp only at h
    cases n with
    | zero => simp [matchArr] at h
    | succ n =>
      simp only [matchArr, hgv] at h
      have hperm0 := index_perm0 hsl'.1
      have hmb : MemBr [bs] (indexStruct fs 0) [[bs]] [indexStruct fs 0] := MemBr.here
      have hgb : GB fs (indexScalars fs []) (indexStruct fs 0).isEmpty bs [bs]
          (indexStruct fs 0) :=
        ⟨List.mem_singleton.mpr rfl, hperm0, fun h => List.isEmpty_iff.mp h,
          fun e he => indexStruct_struct he⟩
      have hQ : Brs (Q (indexScalars fs []) fs.length) [[bs]] [indexStruct fs 0] := by
        refine Brs.cons ⟨indexStruct_nodup, ?_⟩ Brs.nil
        have := hperm0.length_eq
        simp [remOf] at this
        omega
      have hnb : NotBad (loopXs n xs (indexScalars fs []) [[bs]] [indexStruct fs 0]
          (indexStruct fs 0).isEmpty) := by
        intro r hr
        rw [hr] at h
        exact ⟨rs, h⟩
      rcases getVariable_none ps [] vo xs hgv with ⟨hv1, hxs, hnv⟩ | ⟨s, a, c, hv1, hsv, hps, hxs, hnv⟩
      · -- no variable
        subst hv1
        simp only [List.reverse_nil, List.nil_append] at hxs
        subst hxs
        obtain ⟨fxs', bsss', fxas', r, bss', mm', e1, e2, e3, e4, _, _, _⟩ :=
          ih3 n _ _ _ _ bs [bs] _ hinv hok (fun x hx k hk => hvs k (varsOfList_mem_sub hx k hk))
            (plainPatList_mem hpp') hnv hfs hmb hgb hQ hnb
        rw [e1] at h
        simp only at h
        cases h
        exact ⟨r, List.mem_flatten.mpr ⟨bss', e2.mem_left, e3⟩, e4⟩
      · -- one variable `s`
        subst hv1
        simp only [List.reverse_nil, List.nil_append] at hxs
        subst hxs
        subst hps
        have hpv := varsOfList_split (a := a) (b := c) hsv
        have hok' : Ok σ (varsOfList (a ++ c) ++ [s]) bs := hok.perm hpv.symm
        have hsub : ∀ x ∈ a ++ c, x ∈ a ++ V.str s :: c := by
          intro x hx
          rcases List.mem_append.mp hx with h | h
          · exact List.mem_append_left _ h
          · exact List.mem_append_right _ (List.mem_cons_of_mem _ h)
        have hsvs : s ∈ vs := hvs s (hpv.mem_iff.mp (List.mem_append_right _ (List.mem_singleton.mpr rfl)))
        obtain ⟨fxs', bsss', fxas', r, bss', mm', e1, e2, e3, e4, e5, e6, e7⟩ :=
          ih3 n _ _ _ _ bs [bs] _ hinv hok'.left
            (fun x hx k hk => hvs k (varsOfList_mem_sub (hsub x hx) k hk))
            (fun x hx => plainPatList_mem hpp' x (hsub x hx)) hnv hfs hmb hgb hQ hnb
        rw [e1] at h
        simp only at h
        cases hcat : arraycat n bsss' (.str s)
            (fxas'.map (fun m => m ++ leftovers fxs' fs.length)) with
        | inl r' =>
          rw [hcat] at h
          simp only at h
          exact absurd h (arraycat_inl _ _ _ _ _ hcat rs)
        | inr y =>
          obtain ⟨bsss2, f2⟩ := y
          rw [hcat] at h
          simp only at h
          rcases hvar with ⟨f, hfL, hva⟩ | ⟨hopt, hL⟩
          · have hfrem : f ∈ remOf mm' fxs' := e5.mem_iff.mp hfL
            obtain ⟨j, hj⟩ : ∃ j, (j, f) ∈ mm' ++ leftovers fxs' fs.length := by
              rcases mem_remOf.mp hfrem with ⟨j, hj⟩ | ⟨sc, hsc, hst⟩
              · exact ⟨j, List.mem_append_left _ hj⟩
              · obtain ⟨j, hj⟩ := leftovers_has hsc fs.length
                rw [hst] at hj
                exact ⟨j, List.mem_append_right _ hj⟩
            have hmb2 := e2.map_right (fun m => m ++ leftovers fxs' fs.length)
            obtain ⟨m, acc, hw, hacc⟩ := cat_complete hmb2 n bsss2 f2 hcat hj
            obtain ⟨m1, rs1, hF, hsub1⟩ := with_complete bss' m (.str s) f acc r hw e3
            have hfg := hfs f (e7 f hfL)
            have hv1 := main_var hS hsv hva m1 r rs1 e4.inv
              (by rw [varsOf_str_var hsv]; exact hok'.right e4)
              (by rw [varsOf_str_var hsv]; intro k hk; rw [List.mem_singleton.mp hk]; exact hsvs)
              rfl hfg.1 hfg.2 hF
            rw [varsOf_str_var hsv] at hv1
            obtain ⟨r2, hr2, hres2⟩ := hv1
            have hr2acc := hsub1 r2 hr2
            have hmb3 := hacc (mem_ne_nil hr2acc)
            have hne : bsss2.isEmpty = false := by
              have := mem_ne_nil hmb3.mem_left
              cases bsss2 with
              | nil => exact absurd rfl this
              | cons _ _ => rfl
            rw [hne] at h
            simp only [Bool.false_and, Bool.false_eq_true, if_false] at h
            cases h
            exact ⟨r2, List.mem_flatten.mpr ⟨acc, hmb3.mem_left, hr2acc⟩, (e4.seq hres2).perm hpv⟩
          · subst hL
            have hbr : Brs (fun _ mm => mm = []) bsss'
                (fxas'.map (fun m => m ++ leftovers fxs' fs.length)) := by
              refine e6.map_right _ ?_
              intro _ mm0 ⟨_, hl⟩
              simp only [List.length_nil] at hl
              have h1 : mm0 = [] := List.eq_nil_of_length_eq_zero (by omega)
              have h2 : fxs' = [] := List.eq_nil_of_length_eq_zero (by omega)
              rw [h1, h2]; rfl
            have hnil : bsss2 = [] := cat_empty hbr (fun _ _ h => h) hcat
            subst hnil
            simp only [List.isEmpty_nil, hopt, Bool.and_self, if_true] at h
            cases h
            refine ⟨r, List.mem_flatten.mpr ⟨bss', e2.mem_left, e3⟩, e4.mono ?_ ?_⟩
            · intro v hv
              exact hpv.mem_iff.mp (List.mem_append_left _ hv)
            · intro v hv
              rcases List.mem_append.mp (hpv.mem_iff.mpr hv) with h | h
              · exact Or.inl h
              · rw [List.mem_singleton.mp h]; exact Or.inr hopt

/-! ## all constructors together -/

theorem main_all (hS : Side bs₀ σ vs) {p f : V} (h : Emb bs₀ σ p f) : MainF bs₀ σ vs p f := by
  refine Emb.rec (bs₀ := bs₀) (σ := σ)
    (motive_1 := fun p f _ => MainF bs₀ σ vs p f)
    (motive_2 := fun pm fm _ => MainKvs bs₀ σ vs pm fm)
    (motive_3 := fun xs fs L _ => MainLoop bs₀ σ vs xs fs L)
    ?_ ?_ ?_ ?_ ?_ ?_ ?_ ?_ ?_ ?_ ?_ h
  · intro p f hc he; exact main_scalar hc he
  · intro v f hv hvar; exact main_var hS hv hvar
  · intro fm; exact main_objEmpty
  · intro k fm fk fv pv hk hm hvar _ ih; exact main_objProp hS hk hm hvar ih
  · intro pm fm hne _ ih; exact main_obj hne ih
  · intro ps vo xs fs L hgv _ hvar ih; exact main_arr hS hvar hgv ih
  · intro fm; exact main_kvs_nil
  · intro k fm fv pv rest hk hl _ _ ih1 ih2; exact main_kvs_present hk hl ih1 ih2
  · intro k fm pv rest hk hl ho _ ih; exact main_kvs_absent hk hl ho ih
  · intro fs; exact main_loop_nil
  · intro f fs fs' p ps L hpick hemb _ ih1 ih3; exact main_loop_cons hpick hemb ih1 ih3

end

end Sheens.Complete
