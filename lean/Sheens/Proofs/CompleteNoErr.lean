import Sheens.Proofs.CompleteBasic

/-!
# Completeness (C02), part 4: no branch of the search raises an error

The matcher explores every backtracking branch, and an error in any of them is the result of the
whole run.  `patOK p`: every array sub-pattern has at most one variable (`getVariable` succeeds) and
no map sub-pattern mixes a property variable with other keys.  For such a pattern, a `good` message
and `good` bindings, no function of the block returns `err` (`noerr_all`); an embedded pattern is
`patOK` (`emb_patOK`).
-/

namespace Sheens.Complete

mutual
def patOK : V → Bool
  | .arr ps => (match getVariable ps none [] with | .ok _ => true | .error _ => false) && patOKList ps
  | .obj pm => !checkBadPropVars pm && patOKKvs pm
  | _ => true
def patOKList : List V → Bool
  | [] => true
  | x :: xs => patOK x && patOKList xs
def patOKKvs : List (String × V) → Bool
  | [] => true
  | (_, v) :: rest => patOK v && patOKKvs rest
end

theorem patOKList_mem {xs : List V} (h : patOKList xs = true) : ∀ x ∈ xs, patOK x = true := by
  induction xs with
  | nil => intro x hx; cases hx
  | cons y xs ih =>
    simp only [patOKList, Bool.and_eq_true] at h
    intro x hx
    rcases List.mem_cons.mp hx with rfl | hx
    · exact h.1
    · exact ih h.2 x hx

theorem patOKList_of_mem {xs : List V} (h : ∀ x ∈ xs, patOK x = true) : patOKList xs = true := by
  induction xs with
  | nil => rfl
  | cons y xs ih =>
    simp only [patOKList, Bool.and_eq_true]
    exact ⟨h y List.mem_cons_self, ih (fun x hx => h x (List.mem_cons_of_mem _ hx))⟩

/-! ## good values are `patOK` -/

theorem getVariable_novar (l : List V) : ∀ (v : Option String) (acc : List V),
    (∀ x ∈ l, isVarV x = false) → getVariable l v acc = .ok (v, acc.reverse ++ l) := by
  induction l with
  | nil => intro v acc _; simp [getVariable]
  | cons x xs ih =>
    intro v acc h
    have hx := h x List.mem_cons_self
    have hxs : ∀ y ∈ xs, isVarV y = false := fun y hy => h y (List.mem_cons_of_mem _ hy)
    cases x
    case str t =>
      have ht : isVar t = false := by simpa [isVarV] using hx
      simp only [getVariable, ht, Bool.false_eq_true, if_false]
      rw [ih v _ hxs]; simp
    all_goals
      simp only [getVariable]
      rw [ih v _ hxs]; simp

theorem good_notVar {x : V} (h : x.good = true) : isVarV x = false := by
  cases x <;> simp_all [isVarV, V.good]

theorem checkBad_of_nonvar {pm : List (String × V)} (h : ∀ kv ∈ pm, isVar kv.1 = false) :
    checkBadPropVars pm = false := by
  unfold checkBadPropVars
  have : pm.any (fun kv => isVar kv.1) = false :=
    List.any_eq_false.mpr (fun kv hkv => by simp [h kv hkv])
  rw [this]; simp

mutual
theorem good_patOK : (f : V) → f.good = true → patOK f = true
  | .null, _ => rfl
  | .bool _, _ => rfl
  | .num _, _ => rfl
  | .str _, _ => rfl
  | .arr xs, h => by
    have hg : goodList xs = true := by simpa [V.good] using h
    simp only [patOK, Bool.and_eq_true]
    refine ⟨?_, goodList_patOK xs hg⟩
    rw [getVariable_novar xs none [] (fun x hx => good_notVar (goodList_mem hg x hx))]
  | .obj kvs, h => by
    have hg : goodKvs kvs = true := by simpa [V.good] using h
    simp only [patOK, Bool.and_eq_true, Bool.not_eq_true']
    exact ⟨checkBad_of_nonvar (fun kv hkv => (goodKvs_mem hg kv hkv).1), goodKvs_patOK kvs hg⟩
  | .int _, h => by simp [V.good] at h
  | .bobj _, h => by simp [V.good] at h
  | .other _, h => by simp [V.good] at h
theorem goodList_patOK : (xs : List V) → goodList xs = true → patOKList xs = true
  | [], _ => rfl
  | x :: xs, h => by
    simp only [goodList, Bool.and_eq_true] at h
    simp only [patOKList, Bool.and_eq_true]
    exact ⟨good_patOK x h.1, goodList_patOK xs h.2⟩
theorem goodKvs_patOK : (kvs : List (String × V)) → goodKvs kvs = true → patOKKvs kvs = true
  | [], _ => rfl
  | (k, v) :: rest, h => by
    simp only [goodKvs, Bool.and_eq_true] at h
    simp only [patOKKvs, Bool.and_eq_true]
    exact ⟨good_patOK v h.1.1.2, goodKvs_patOK rest h.2⟩
end

/-! ## the statements -/

def NE_Bound (bs₀ : Bs) (_vs : List String) (n : Nat) : Prop :=
  ∀ b f bs e, b.good = true → f.good = true → Cur bs₀ bs → matchBound n b f bs ≠ .err e
def NE_Str (bs₀ : Bs) (_vs : List String) (n : Nat) : Prop :=
  ∀ s f bs e, f.good = true → Cur bs₀ bs → matchStr n s f bs ≠ .err e

section
variable (bs₀ : Bs) (vs : List String)

/-- all-branches invariant of the array loops -/
def PBr : List Bs → List (Nat × V) → Prop :=
  fun bss mm => (∀ e ∈ mm, e.2.good = true) ∧ ∀ bs ∈ bss, Cur bs₀ bs

def NE_F (n : Nat) : Prop :=
  ∀ p f bs e, p.plainPat = true → patOK p = true → f.good = true → varsOf p ⊆ vs → Cur bs₀ bs →
    matchF n p f bs ≠ .err e
def NE_Obj (n : Nat) : Prop :=
  ∀ pm f bs e, plainPatKvs pm = true → checkBadPropVars pm = false → patOKKvs pm = true →
    f.good = true → varsOfKvs pm ⊆ vs → Cur bs₀ bs → matchObj n pm f bs ≠ .err e
def NE_Arr (n : Nat) : Prop :=
  ∀ ps f bs e, plainPatList ps = true → (∃ r, getVariable ps none [] = .ok r) →
    patOKList ps = true → f.good = true → varsOfList ps ⊆ vs → Cur bs₀ bs →
    matchArr n ps f bs ≠ .err e
def NE_With (n : Nat) : Prop :=
  ∀ bss p f e, p.plainPat = true → patOK p = true → f.good = true → varsOf p ⊆ vs →
    (∀ bs ∈ bss, Cur bs₀ bs) → matchWith n bss p f ≠ .err e
def NE_Mapcat (n : Nat) : Prop :=
  ∀ bss pm fm e, plainPatKvs pm = true → patOKKvs pm = true → (∀ kv ∈ pm, isVar kv.1 = false) →
    goodKvs fm = true → varsOfKvs pm ⊆ vs → (∀ bs ∈ bss, Cur bs₀ bs) →
    mapcat n bss pm fm ≠ .err e
def NE_Gather (n : Nat) : Prop :=
  ∀ bss k v fm e, v.plainPat = true → patOK v = true →
    (∀ kv ∈ fm, isVar kv.1 = false ∧ kv.2.good = true) → k ∈ vs → varsOf v ⊆ vs →
    (∀ bs ∈ bss, Cur bs₀ bs) → propGather n bss k v fm ≠ .err e
def NE_One (n : Nat) : Prop :=
  ∀ bss pat mm todo e, pat.plainPat = true → patOK pat = true → varsOf pat ⊆ vs →
    (∀ x ∈ todo, x.2.good = true) → (∀ bs ∈ bss, Cur bs₀ bs) →
    arrayOne n bss pat mm todo ≠ .inl (.err e)
def NE_Cat (n : Nat) : Prop :=
  ∀ bsss pat fxas e, pat.plainPat = true → patOK pat = true → varsOf pat ⊆ vs →
    Brs (PBr bs₀) bsss fxas → arraycat n bsss pat fxas ≠ .inl (.err e)
def NE_Loop (n : Nat) : Prop :=
  ∀ xs fxs bsss fxas flag e,
    (∀ x ∈ xs, x.plainPat = true ∧ patOK x = true ∧ varsOf x ⊆ vs ∧ isVarV x = false) →
    Brs (PBr bs₀) bsss fxas → loopXs n xs fxs bsss fxas flag ≠ .inl (.err e)
end

section
variable {bs₀ : Bs} {vs : List String}

theorem sWith (hPB : PB vs bs₀) (n : Nat) : StmtWith bs₀ vs n := (sound_all hPB n).2.2.2.2.2.1
theorem sCat (hPB : PB vs bs₀) (n : Nat) : StmtCat bs₀ vs n :=
  (sound_all hPB n).2.2.2.2.2.2.2.2.2.1
theorem sLoop (hPB : PB vs bs₀) (n : Nat) : StmtLoop bs₀ vs n :=
  (sound_all hPB n).2.2.2.2.2.2.2.2.2.2

/-- the results of `matchWith` keep the invariant of the current bindings -/
theorem with_cur (hPB : PB vs bs₀) {n : Nat} {bss acc : List Bs} {p f : V}
    (hp : p.plainPat = true) (hg : f.good = true) (hv : varsOf p ⊆ vs)
    (hbss : ∀ bs ∈ bss, Cur bs₀ bs) (h : matchWith n bss p f = .ok acc) :
    ∀ r ∈ acc, Cur bs₀ r := by
  intro r hr
  obtain ⟨b, hb, hpost, _⟩ := sWith hPB n bss p f acc hp hg hv hbss h r hr
  exact (hbss b hb).post hpost

theorem ne_F_step {n : Nat} (ihS : NE_Str bs₀ vs n) (ihO : NE_Obj bs₀ vs n)
    (ihA : NE_Arr bs₀ vs n) : NE_F bs₀ vs (n+1) := by
  intro p f bs e hp hok hg hv hcur
  unfold matchF
  rw [fudge_plainPat hp, fudge_good hg]
  cases p with
  | int _ => simp [V.plainPat] at hp
  | bobj _ => simp [V.plainPat] at hp
  | other _ => simp [V.plainPat] at hp
  | null => simp only [matchNull]; split <;> simp
  | bool a =>
    simp only [matchBool]
    split
    · split <;> simp
    · simp
  | num a =>
    simp only [matchNum]
    split
    · split <;> simp
    · simp
  | str s => exact ihS s f bs e hg hcur
  | obj pm =>
    simp only [patOK, Bool.and_eq_true, Bool.not_eq_true'] at hok
    exact ihO pm f bs e (by simpa [V.plainPat] using hp) hok.1 hok.2 hg
      (by simpa [varsOf] using hv) hcur
  | arr ps =>
    simp only [patOK, Bool.and_eq_true] at hok
    refine ihA ps f bs e (by simpa [V.plainPat] using hp) ?_ hok.2 hg
      (by simpa [varsOf] using hv) hcur
    cases hgv : getVariable ps none [] with
    | ok r => exact ⟨r, rfl⟩
    | error e' => rw [hgv] at hok; simp at hok

theorem ne_bound_step {n : Nat} (ihM : NE_F bs₀ vs n) : NE_Bound bs₀ vs (n+1) := by
  intro b f bs e hb hg hcur
  have hvb : varsOf b ⊆ vs := by rw [good_varsOf b hb]; intro x hx; cases hx
  have hgen := ihM b f bs e (good_plainPat b hb) (good_patOK b hb) hg hvb hcur
  simp only [matchBound]
  split
  · next t =>
    split
    · next hv => simp [V.good, hv] at hb
    · exact hgen
  · exact hgen

theorem ne_str_step {n : Nat} (ihB : NE_Bound bs₀ vs n) : NE_Str bs₀ vs (n+1) := by
  intro s f bs e hg hcur
  simp only [matchStr]
  split
  · split
    · split <;> simp
    · simp
  · split
    · simp
    · split
      · simp
      · split
        · next b hl => exact ihB b f bs e (hcur.good s b hl) hg hcur
        · simp

theorem ne_with_step {n : Nat} (ihM : NE_F bs₀ vs n) (ihW : NE_With bs₀ vs n) :
    NE_With bs₀ vs (n+1) := by
  intro bss p f e hp hok hg hv hbss
  cases bss with
  | nil => simp [matchWith]
  | cons bs rest =>
    simp only [matchWith]
    cases hM : matchF n p f bs with
    | err e' => exact absurd hM (ihM p f bs e' hp hok hg hv (hbss bs List.mem_cons_self))
    | diverge => simp
    | ok r1 =>
      simp only
      cases hW : matchWith n rest p f with
      | err e' =>
        exact absurd hW (ihW rest p f e' hp hok hg hv
          (fun b hb => hbss b (List.mem_cons_of_mem _ hb)))
      | diverge => simp
      | ok r2 => simp

theorem ne_mapcat_step (hPB : PB vs bs₀) {n : Nat} (ihW : NE_With bs₀ vs n)
    (ihC : NE_Mapcat bs₀ vs n) : NE_Mapcat bs₀ vs (n+1) := by
  intro bss pm fm e hp hok hkeys hg hv hbss
  cases pm with
  | nil => simp [mapcat]
  | cons kv rest =>
    obtain ⟨k, v⟩ := kv
    simp only [plainPatKvs, Bool.and_eq_true] at hp
    simp only [patOKKvs, Bool.and_eq_true] at hok
    have hk : isVar k = false := hkeys (k, v) List.mem_cons_self
    have hkeys' : ∀ kv ∈ rest, isVar kv.1 = false :=
      fun kv hkv => hkeys kv (List.mem_cons_of_mem _ hkv)
    have hvv : varsOf v ⊆ vs := fun x hx => hv (by simp [varsOfKvs, hx])
    have hvr : varsOfKvs rest ⊆ vs := fun x hx => hv (by simp [varsOfKvs, hx])
    simp only [mapcat, hk, Bool.false_eq_true, if_false]
    cases hl : lookup k fm with
    | none =>
      simp only
      split
      · exact ihC bss rest fm e hp.2 hok.2 hkeys' hg hvr hbss
      · simp
    | some fv =>
      simp only
      have hfv : fv.good = true := good_lookup hg hl
      cases hW : matchWith n bss v fv with
      | err e' => exact absurd hW (ihW bss v fv e' hp.1.1 hok.1 hfv hvv hbss)
      | diverge => simp
      | ok acc =>
        cases acc with
        | nil => simp
        | cons a as =>
          simp only
          exact ihC _ rest fm e hp.2 hok.2 hkeys' hg hvr
            (with_cur hPB hp.1.1 hfv hvv hbss hW)

theorem ne_gather_step (hPB : PB vs bs₀) {n : Nat} (ihW : NE_With bs₀ vs n)
    (ihG : NE_Gather bs₀ vs n) : NE_Gather bs₀ vs (n+1) := by
  intro bss k v fm e hp hok hfm hk hv hbss
  cases fm with
  | nil => simp [propGather]
  | cons kv rest =>
    obtain ⟨fk, fv⟩ := kv
    have hfk := hfm (fk, fv) List.mem_cons_self
    have hrest : ∀ kv ∈ rest, isVar kv.1 = false ∧ kv.2.good = true :=
      fun kv hm => hfm kv (List.mem_cons_of_mem _ hm)
    have hkv : varsOf (.str k) ⊆ vs := by
      intro x hx
      simp only [varsOf] at hx
      split at hx
      · simp at hx; subst hx; exact hk
      · cases hx
    have hfkg : (V.str fk).good = true := by simpa [V.good] using hfk.1
    have hrec := ihG bss k v rest
    simp only [propGather]
    cases hW : matchWith n bss (.str k) (.str fk) with
    | err e' => exact absurd hW (ihW bss _ _ e' rfl rfl hfkg hkv hbss)
    | diverge => simp
    | ok ext =>
      simp only
      have hcur' := with_cur hPB (p := .str k) rfl hfkg hkv hbss hW
      cases he : ext.isEmpty with
      | true =>
        simp only [if_true]
        cases hG : propGather n bss k v rest with
        | err e' => exact absurd hG (hrec e' hp hok hrest hk hv hbss)
        | diverge => simp
        | ok more => simp
      | false =>
        simp only [Bool.false_eq_true, if_false]
        cases hW2 : matchWith n ext v fv with
        | err e' => exact absurd hW2 (ihW ext v fv e' hp hok hfk.2 hv hcur')
        | diverge => simp
        | ok ext2 =>
          simp only
          cases hG : propGather n bss k v rest with
          | err e' => exact absurd hG (hrec e' hp hok hrest hk hv hbss)
          | diverge => simp
          | ok more => simp

theorem ne_obj_step {n : Nat} (ihC : NE_Mapcat bs₀ vs n) (ihG : NE_Gather bs₀ vs n) :
    NE_Obj bs₀ vs (n+1) := by
  intro pm f bs e hp hbad hok hg hv hcur
  have hone : ∀ b ∈ [bs], Cur bs₀ b := by intro b hb; simp at hb; subst hb; exact hcur
  simp only [matchObj]
  split
  · next fm =>
    have hgm : goodKvs fm = true := by simpa [V.good] using hg
    split
    · simp
    · next hne =>
      rw [hbad]
      simp only [Bool.false_eq_true, if_false]
      split
      · next k v =>
        simp only [plainPatKvs, Bool.and_eq_true] at hp
        simp only [patOKKvs, Bool.and_eq_true] at hok
        split
        · next hk =>
          exact ihG [bs] k v fm e hp.1.1 hok.1 (goodKvs_mem hgm) (hv (by simp [varsOfKvs, hk]))
            (fun x hx => hv (by simp [varsOfKvs, hx])) hone
        · next hk =>
          refine ihC [bs] [(k, v)] fm e (by simp [plainPatKvs, hp.1.1, keyFresh]) (by simp [patOKKvs, hok.1])
            ?_ hgm hv hone
          intro kv hkv
          simp at hkv; subst hkv
          simpa using hk
      · next hns =>
        refine ihC [bs] pm fm e hp hok ?_ hgm hv hone
        -- more than one key, so `checkBadPropVars` decides
        cases pm with
        | nil => simp at hne
        | cons kv1 rest =>
          cases rest with
          | nil => exact absurd rfl (hns kv1.1 kv1.2)
          | cons kv2 rest =>
            unfold checkBadPropVars at hbad
            have hlen : decide ((kv1 :: kv2 :: rest).length > 1) = true := by simp
            rw [hlen, Bool.true_and] at hbad
            intro kv hkv
            have := List.any_eq_false.mp hbad kv hkv
            simpa using this
  · simp

theorem ne_one_step {n : Nat} (ihW : NE_With bs₀ vs n) (ihO : NE_One bs₀ vs n) :
    NE_One bs₀ vs (n+1) := by
  intro bss pat mm todo e hp hok hv hgood hbss
  cases todo with
  | nil => simp [arrayOne]
  | cons jf todo =>
    obtain ⟨j, fact⟩ := jf
    simp only [arrayOne]
    cases hW : matchWith n bss pat fact with
    | err e' =>
      exact absurd hW (ihW bss pat fact e' hp hok (hgood (j, fact) List.mem_cons_self) hv hbss)
    | diverge => simp
    | ok acc =>
      simp only
      cases hO : arrayOne n bss pat mm todo with
      | inl r =>
        simp only
        intro hc
        cases hc
        exact ihO bss pat mm todo e hp hok hv
          (fun x hx => hgood x (List.mem_cons_of_mem _ hx)) hbss hO
      | inr y =>
        obtain ⟨a, f⟩ := y
        simp only
        split <;> simp

theorem ne_cat_step {n : Nat} (ihO : NE_One bs₀ vs n) (ihC : NE_Cat bs₀ vs n) :
    NE_Cat bs₀ vs (n+1) := by
  intro bsss pat fxas e hp hok hv hbrs
  cases hbrs with
  | nil => simp [arraycat]
  | @cons bss mm bsss fxas hp1 hrest =>
    simp only [arraycat]
    cases hO : arrayOne n bss pat mm mm with
    | inl r =>
      simp only
      intro hc
      cases hc
      exact ihO bss pat mm mm e hp hok hv hp1.1 hp1.2 hO
    | inr y =>
      simp only
      cases hC : arraycat n bsss pat fxas with
      | inl r =>
        simp only
        intro hc
        cases hc
        exact ihC bsss pat fxas e hp hok hv hrest hC
      | inr z => simp

/-- the branch lists produced by `arraycat` keep the all-branches invariant -/
theorem cat_pbr (hPB : PB vs bs₀) {n : Nat} {bsss : List (List Bs)} {pat : V}
    {fxas : List (List (Nat × V))} {a f} (hp : pat.plainPat = true) (hv : varsOf pat ⊆ vs)
    (hbrs : Brs (PBr bs₀) bsss fxas) (h : arraycat n bsss pat fxas = .inr (a, f)) :
    Brs (PBr bs₀) a f := by
  have := sCat hPB n (PBr bs₀) bsss pat fxas a f hp hv (fun _ _ h => h) hbrs h
  refine this.imp ?_
  intro acc mm' ⟨bss, mm, hP, j, fact, _, hmm', hacc⟩
  refine ⟨?_, ?_⟩
  · intro e he
    rw [hmm'] at he
    exact hP.1 e (List.mem_filter.mp he).1
  · intro r hr
    obtain ⟨b, hb, hpost, _⟩ := hacc r hr
    exact (hP.2 b hb).post hpost

theorem ne_loop_step (hPB : PB vs bs₀) {n : Nat} (ihC : NE_Cat bs₀ vs n)
    (ihL : NE_Loop bs₀ vs n) : NE_Loop bs₀ vs (n+1) := by
  intro xs fxs bsss fxas flag e hxs hbrs
  cases xs with
  | nil => simp [loopXs]
  | cons x xs =>
    obtain ⟨hxp, hxo, hxv, _⟩ := hxs x List.mem_cons_self
    have hxs' : ∀ y ∈ xs, y.plainPat = true ∧ patOK y = true ∧ varsOf y ⊆ vs ∧ isVarV y = false :=
      fun y hy => hxs y (List.mem_cons_of_mem _ hy)
    simp only [loopXs]
    split
    · split
      · exact ihL xs _ bsss fxas flag e hxs' hbrs
      · simp
    · split
      · simp
      · cases hC : arraycat n bsss x fxas with
        | inl r =>
          simp only
          intro hc
          cases hc
          exact ihC bsss x fxas e hxp hxo hxv hbrs hC
        | inr y =>
          obtain ⟨b1, f1⟩ := y
          simp only
          split
          · simp
          · exact ihL xs fxs b1 f1 flag e hxs' (cat_pbr hPB hxp hxv hbrs hC)

theorem ne_arr_step (hPB : PB vs bs₀) {n : Nat} (ihC : NE_Cat bs₀ vs n) (ihL : NE_Loop bs₀ vs n) :
    NE_Arr bs₀ vs (n+1) := by
  intro ps f bs e hp hgvok hok hg hv hcur
  obtain ⟨⟨v, xs⟩, hgv⟩ := hgvok
  simp only [matchArr, hgv]
  split
  · next fa =>
    have hfa : goodList fa = true := by simpa [V.good] using hg
    have hps : ∀ x ∈ ps, x.plainPat = true ∧ patOK x = true ∧ varsOf x ⊆ vs := by
      intro x hx
      exact ⟨plainPatList_mem hp x hx, patOKList_mem hok x hx,
        fun k hk => hv (varsOfList_mem_sub hx k hk)⟩
    have hinitB : Brs (BInv bs₀ vs bs fa [] (indexScalars fa [])) [[bs]] [indexStruct fa 0] :=
      Brs.cons (BInv.init hcur.good hfa) Brs.nil
    have hinit : Brs (PBr bs₀) [[bs]] [indexStruct fa 0] :=
      hinitB.imp (fun bss mm inv => ⟨inv.goodFacts, inv.cur hcur⟩)
    -- the non-variable elements, and the variable (if any)
    have hxs : (∀ x ∈ xs, x.plainPat = true ∧ patOK x = true ∧ varsOf x ⊆ vs ∧ isVarV x = false) ∧
        ∀ vn, v = some vn → varsOf (.str vn) ⊆ vs := by
      rcases getVariable_none ps [] v xs hgv with ⟨hv1, hxs, hnv⟩ | ⟨s, a, b, hv1, hsv, hpsab, hxs, hnv⟩
      · simp only [List.reverse_nil, List.nil_append] at hxs
        subst hxs
        refine ⟨fun x hx => ⟨(hps x hx).1, (hps x hx).2.1, (hps x hx).2.2, hnv x hx⟩, ?_⟩
        intro vn hvn; rw [hv1] at hvn; cases hvn
      · simp only [List.reverse_nil, List.nil_append] at hxs
        subst hxs
        subst hpsab
        refine ⟨?_, ?_⟩
        · intro x hx
          have hx' : x ∈ a ++ V.str s :: b := by
            rcases List.mem_append.mp hx with h | h
            · exact List.mem_append_left _ h
            · exact List.mem_append_right _ (List.mem_cons_of_mem _ h)
          exact ⟨(hps x hx').1, (hps x hx').2.1, (hps x hx').2.2, hnv x hx⟩
        · intro vn hvn
          rw [hv1] at hvn; cases hvn
          exact (hps (.str s) (List.mem_append_right _ List.mem_cons_self)).2.2
    cases hL : loopXs n xs (indexScalars fa []) [[bs]] [indexStruct fa 0]
        (indexStruct fa 0).isEmpty with
    | inl r =>
      simp only
      intro hc
      subst hc
      exact ihL xs _ _ _ _ e hxs.1 hinit hL
    | inr y =>
      obtain ⟨fxs', bsss, fxas⟩ := y
      simp only
      cases v with
      | none => simp
      | some vn =>
        simp only
        obtain ⟨hfin, hsub⟩ := sLoop hPB n bs fa xs _ _ _ _ [] fxs' bsss fxas hcur
          (fun x hx => ⟨(hxs.1 x hx).1, (hxs.1 x hx).2.2.1, (hxs.1 x hx).2.2.2⟩) hinitB hL
        have hbrs : Brs (PBr bs₀) bsss (fxas.map (fun m => m ++ leftovers fxs' fa.length)) := by
          refine hfin.map_right _ ?_
          intro bss mm inv
          refine ⟨?_, inv.cur hcur⟩
          intro e' he'
          rcases List.mem_append.mp he' with he' | he'
          · exact inv.goodFacts e' he'
          · obtain ⟨sc, h1, h2⟩ := leftovers_mem he'
            rw [h2]
            exact indexScalars_good hfa sc (hsub sc h1)
        cases hC : arraycat n bsss (.str vn) (fxas.map (fun m => m ++ leftovers fxs' fa.length)) with
        | inl r =>
          simp only
          intro hc
          subst hc
          exact ihC bsss (.str vn) _ e rfl rfl (hxs.2 vn rfl) hbrs hC
        | inr z =>
          simp only
          split <;> simp
  · simp

theorem noerr_all (hPB : PB vs bs₀) : ∀ n,
    NE_F bs₀ vs n ∧ NE_Bound bs₀ vs n ∧ NE_Str bs₀ vs n ∧ NE_Obj bs₀ vs n ∧ NE_Arr bs₀ vs n ∧
    NE_With bs₀ vs n ∧ NE_Mapcat bs₀ vs n ∧ NE_Gather bs₀ vs n ∧ NE_One bs₀ vs n ∧
    NE_Cat bs₀ vs n ∧ NE_Loop bs₀ vs n := by
  intro n
  induction n with
  | zero =>
    refine ⟨?_, ?_, ?_, ?_, ?_, ?_, ?_, ?_, ?_, ?_, ?_⟩
    · intro p f bs e _ _ _ _ _; simp [matchF]
    · intro b f bs e _ _ _; simp [matchBound]
    · intro s f bs e _ _; simp [matchStr]
    · intro pm f bs e _ _ _ _ _ _; simp [matchObj]
    · intro ps f bs e _ _ _ _ _ _; simp [matchArr]
    · intro bss p f e _ _ _ _ _; simp [matchWith]
    · intro bss pm fm e _ _ _ _ _ _; simp [mapcat]
    · intro bss k v fm e _ _ _ _ _ _; simp [propGather]
    · intro bss pat mm todo e _ _ _ _ _; simp [arrayOne]
    · intro bsss pat fxas e _ _ _ _; simp [arraycat]
    · intro xs fxs bsss fxas flag e _ _; simp [loopXs]
  | succ n ih =>
    obtain ⟨ihM, ihB, ihS, ihO, ihA, ihW, ihMc, ihG, ihOne, ihCat, ihL⟩ := ih
    exact ⟨ne_F_step ihS ihO ihA, ne_bound_step ihM, ne_str_step ihB, ne_obj_step ihMc ihG,
      ne_arr_step hPB ihCat ihL, ne_with_step ihM ihW, ne_mapcat_step hPB ihW ihMc,
      ne_gather_step hPB ihW ihG, ne_one_step ihW ihOne, ne_cat_step ihOne ihCat,
      ne_loop_step hPB ihCat ihL⟩

end

/-! ## an embedded pattern is `patOK` -/

theorem patOKList_insert {a b : List V} {s : String} (h : patOKList (a ++ b) = true) :
    patOKList (a ++ V.str s :: b) = true := by
  refine patOKList_of_mem ?_
  intro x hx
  rcases List.mem_append.mp hx with hx | hx
  · exact patOKList_mem h x (List.mem_append_left _ hx)
  · rcases List.mem_cons.mp hx with rfl | hx
    · rfl
    · exact patOKList_mem h x (List.mem_append_right _ hx)

theorem emb_patOK {bs₀ σ : Bs} {p f : V} (h : Emb bs₀ σ p f) : patOK p = true := by
  refine Emb.rec (bs₀ := bs₀) (σ := σ)
    (motive_1 := fun p _ _ => patOK p = true)
    (motive_2 := fun pm _ _ => patOKKvs pm = true ∧ ∀ kv ∈ pm, isVar kv.1 = false)
    (motive_3 := fun xs _ _ _ => patOKList xs = true)
    ?_ ?_ ?_ ?_ ?_ ?_ ?_ ?_ ?_ ?_ ?_ h
  · intro p f hc _
    cases p <;> simp_all [isScalarConst, patOK]
  · intro v f _ _; rfl
  · intro fm; simp [patOK, checkBadPropVars, patOKKvs]
  · intro k fm fk fv pv _ _ _ _ ih
    simp [patOK, checkBadPropVars, patOKKvs, ih]
  · intro pm fm _ _ ih
    simp only [patOK, Bool.and_eq_true, Bool.not_eq_true']
    exact ⟨checkBad_of_nonvar ih.2, ih.1⟩
  · intro ps vo xs fs L hgv _ _ ih
    simp only [patOK, hgv, Bool.true_and]
    rcases getVariable_none ps [] vo xs hgv with ⟨_, hxs, _⟩ | ⟨s, a, b, _, _, hps, hxs, _⟩
    · simp only [List.reverse_nil, List.nil_append] at hxs
      rw [← hxs]; exact ih
    · simp only [List.reverse_nil, List.nil_append] at hxs
      rw [hps]
      rw [hxs] at ih
      exact patOKList_insert ih
  · intro fm; exact ⟨rfl, by intro kv h; cases h⟩
  · intro k fm fv pv rest hk _ _ _ ih1 ih2
    refine ⟨by simp [patOKKvs, ih1, ih2.1], ?_⟩
    intro kv hkv
    rcases List.mem_cons.mp hkv with rfl | hkv
    · exact hk
    · exact ih2.2 kv hkv
  · intro k fm pv rest hk _ ho _ ih2
    have hpv : patOK pv = true := by
      cases pv <;> first | rfl | simp [isOptVar] at ho
    refine ⟨by simp [patOKKvs, hpv, ih2.1], ?_⟩
    intro kv hkv
    rcases List.mem_cons.mp hkv with rfl | hkv
    · exact hk
    · exact ih2.2 kv hkv
  · intro fs; rfl
  · intro f fs fs' p ps L _ _ _ ih1 ih3
    simp [patOKList, ih1, ih3]

end Sheens.Complete
