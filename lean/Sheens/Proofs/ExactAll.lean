import Sheens.Proofs.ExactArr

/-! # Exact soundness, all arms together: simultaneous induction on the fuel -/

namespace Sheens.Exact

theorem exact_all : ∀ n,
    XMatch n ∧ XObj n ∧ XArr n ∧ XWith n ∧ XMapcat n ∧ XGather n ∧ XOne n ∧ XCat n ∧ XLoop n := by
  intro n
  induction n with
  | zero =>
    refine ⟨?_, ?_, ?_, ?_, ?_, ?_, ?_, ?_, ?_⟩
    · intro p f bs rs _ _ _ _ _ h; simp [matchF] at h
    · intro pm f bs rs _ _ _ _ _ h; simp [matchObj] at h
    · intro ps f bs rs _ _ _ _ _ h; simp [matchArr] at h
    · intro bss p f rs _ _ _ _ _ h; simp [matchWith] at h
    · intro bss pm fm rs _ _ _ _ _ h; simp [mapcat] at h
    · intro bss k v fm rs _ _ _ _ _ _ h; simp [propGather] at h
    · intro bss pat mm todo a f _ _ _ _ _ _ h; simp [arrayOne] at h
    · intro P bsss pat fxas a f _ _ _ _ _ h; simp [arraycat] at h
    · intro bs fa xs fxs bsss fxas flag done fxs' bsss' fxas' _ _ _ _ _ h; simp [loopXs] at h
  | succ n ih =>
    obtain ⟨ihM, ihO, ihA, ihW, ihMc, ihG, ihOne, ihCat, ihL⟩ := ih
    exact ⟨x_match_step ihO ihA, x_obj_step ihMc ihG, x_arr_step ihCat ihL, x_with_step ihM ihW,
      x_mapcat_step ihW ihMc, x_gather_step ihW ihG, x_one_step ihW ihOne,
      x_cat_step ihOne ihCat, x_loop_step ihCat ihL⟩

/-- every result of a run from the empty bindings on a linear pattern with plain variables is an
    embedding, binds only non-anonymous variables of the pattern -/
theorem exact_sound (n : Nat) (p f : V) (rs : List Bs) (r : Bs)
    (hp : p.plainPat = true) (hf : f.good = true) (hl : Lin (varsOf p)) (hv : PV (varsOf p))
    (h : matchF n p f [] = .ok rs) (hr : r ∈ rs) :
    Emb [] r p f ∧ (∀ k, lookup k r ≠ none → k ∈ varsOf p ∧ isAnon k = false) := by
  obtain ⟨hpost, hemb⟩ := (exact_all n).1 p f [] rs hp hf hl hv (fun _ _ _ => rfl) h r hr
  refine ⟨hemb, fun k hk => ?_⟩
  rcases hpost.keys k hk with h' | h'
  · exact absurd rfl h'
  · exact h'

end Sheens.Exact
