import Sheens.Proofs.ExactSound

/-!
# Exact soundness, part 3: the array arm (`arrayOne`, `arraycat`, `loopXs`, `matchArr`)

`XInv` is `BInv` of `ArrBasic.lean` with `ArrEmbX []` for `ArrEmbL` (no `skip`: there is no optional
variable) and `XPost (varsOfList done)` for `Post`.
-/

namespace Sheens.Exact

open Sheens.Complete (varsOfList_append varsOf_str_var varsOfList_split varsOfList_mem_sub)

/-- what one `arrayOne` step delivers for the new branch `(acc, mm')` made from `(bss, mm)` -/
def XStep (pat : V) (bss : List Bs) (mm : List (Nat × V)) (acc : List Bs) (mm' : List (Nat × V)) :
    Prop :=
  ∃ j fact, (j, fact) ∈ mm ∧ mm' = mm.filter (fun e => e.1 != j) ∧
    ∀ r ∈ acc, ∃ b ∈ bss, XPost (varsOf pat) b r ∧ Emb [] r pat fact

/-- invariant for one backtracking branch -/
structure XInv (bs : Bs) (fa done : List V) (fxs : List Scalar) (bss : List Bs)
    (mm : List (Nat × V)) : Prop where
  goodFacts : ∀ e ∈ mm, e.2.good = true
  nodup : IdxNodup mm
  each : ∀ r ∈ bss, XPost (varsOfList done) bs r ∧
    ∃ L, ArrEmbX [] r done fa L ∧ PickAll (remOf mm fxs) L

def XOne (n : Nat) : Prop :=
  ∀ bss pat mm todo a f, pat.plainPat = true → Lin (varsOf pat) → PV (varsOf pat) →
    (∀ e ∈ todo, e.2.good = true) → (∀ e ∈ todo, e ∈ mm) → (∀ bs ∈ bss, Fresh (varsOf pat) bs) →
    arrayOne n bss pat mm todo = .inr (a, f) → Brs (XStep pat bss mm) a f

def XCat (n : Nat) : Prop :=
  ∀ (P : List Bs → List (Nat × V) → Prop) bsss pat fxas a f, pat.plainPat = true →
    Lin (varsOf pat) → PV (varsOf pat) →
    (∀ bss mm, P bss mm → (∀ e ∈ mm, e.2.good = true) ∧ ∀ bs ∈ bss, Fresh (varsOf pat) bs) →
    Brs P bsss fxas → arraycat n bsss pat fxas = .inr (a, f) →
    Brs (fun acc mm' => ∃ bss mm, P bss mm ∧ XStep pat bss mm acc mm') a f

def XLoop (n : Nat) : Prop :=
  ∀ bs fa xs fxs bsss fxas flag done fxs' bsss' fxas',
    (∀ x ∈ xs, x.plainPat = true ∧ isVarV x = false) →
    Lin (varsOfList (done ++ xs)) → PV (varsOfList (done ++ xs)) →
    Fresh (varsOfList (done ++ xs)) bs →
    Brs (XInv bs fa done fxs) bsss fxas →
    loopXs n xs fxs bsss fxas flag = .inr (fxs', bsss', fxas') →
    Brs (XInv bs fa (done ++ xs) fxs') bsss' fxas' ∧ ∀ sc ∈ fxs', sc ∈ fxs

theorem x_one_step {n : Nat} (ihW : XWith n) (ihO : XOne n) : XOne (n+1) := by
  intro bss pat mm todo a f hp hl hpv hgood hsub hbss h
  cases todo with
  | nil => simp only [arrayOne] at h; cases h; exact Brs.nil
  | cons e todo =>
    obtain ⟨j, fact⟩ := e
    have hfact : fact.good = true := hgood (j, fact) List.mem_cons_self
    simp only [arrayOne] at h
    split at h
    · next acc hacc =>
      split at h
      · cases h
      · next a' f' hrec =>
        have hR := ihO bss pat mm todo a' f' hp hl hpv
          (fun e he => hgood e (List.mem_cons_of_mem _ he))
          (fun e he => hsub e (List.mem_cons_of_mem _ he)) hbss hrec
        split at h
        · cases h; exact hR
        · cases h
          refine Brs.cons ?_ hR
          exact ⟨j, fact, hsub _ List.mem_cons_self, rfl,
            ihW bss pat fact acc hp hfact hl hpv hbss hacc⟩
    · cases h

theorem x_cat_step {n : Nat} (ihO : XOne n) (ihC : XCat n) : XCat (n+1) := by
  intro P bsss pat fxas a f hp hl hpv hP hbrs h
  cases hbrs with
  | nil => simp only [arraycat] at h; cases h; exact Brs.nil
  | @cons bss mm bsss fxas hp1 hrest =>
    simp only [arraycat] at h
    split at h
    · cases h
    · next a1 f1 h1 =>
      split at h
      · cases h
      · next a2 f2 h2 =>
        cases h
        obtain ⟨hg, hc⟩ := hP bss mm hp1
        have r1 := ihO bss pat mm mm a1 f1 hp hl hpv hg (fun e he => he) hc h1
        have r2 := ihC P bsss pat fxas a2 f2 hp hl hpv hP hrest h2
        exact (r1.imp (fun acc mm' hs => ⟨bss, mm, hp1, hs⟩)).append r2

theorem varsOfList_snoc (done : List V) (x : V) :
    varsOfList (done ++ [x]) = varsOfList done ++ varsOf x := by
  rw [varsOfList_append]; simp [varsOfList]

/-- one structured step for one result branch -/
theorem XInv.step_struct {bs : Bs} {fa done : List V} {fxs : List Scalar} {bss acc : List Bs}
    {mm mm' : List (Nat × V)} {x : V}
    (inv : XInv bs fa done fxs bss mm) (hstep : XStep x bss mm acc mm') :
    XInv bs fa (done ++ [x]) fxs acc mm' := by
  obtain ⟨j, fact, hm, rfl, hacc⟩ := hstep
  obtain ⟨a, b, hab, hf⟩ := split_of_mem inv.nodup hm
  refine ⟨?_, ?_, ?_⟩
  · intro e he; exact inv.goodFacts e ((List.mem_filter.mp he).1)
  · rw [hf]
    have hn := inv.nodup
    rw [hab] at hn
    exact idxNodup_remove a hn
  · intro r hr
    obtain ⟨b1, hb1, hpost, hsat⟩ := hacc r hr
    obtain ⟨hpost0, L, hemb, hpick⟩ := inv.each b1 hb1
    refine ⟨by rw [varsOfList_snoc]; exact hpost0.seq hpost, ?_⟩
    have hrem : remOf mm fxs = (a.map (·.2)) ++ fact :: (b.map (·.2) ++ fxs.map Scalar.toV) := by
      simp [remOf, hab]
    rw [hrem] at hpick
    obtain ⟨L', hp1, hp2⟩ := hpick.remove
    refine ⟨L', (hemb.mono hpost.ext).snoc hp1 hsat, ?_⟩
    simpa [remOf, hf] using hp2

/-- one scalar step (all branches share the scalar set) -/
theorem XInv.step_scalar {bs : Bs} {fa done : List V} {fxs : List Scalar} {bss : List Bs}
    {mm : List (Nat × V)} {x : V} {sc : Scalar}
    (inv : XInv bs fa done fxs bss mm) (hsc : x.scalar? = some sc)
    (hv : isVarV x = false) (hm : sc ∈ fxs) :
    XInv bs fa (done ++ [x]) (fxs.erase sc) bss mm := by
  obtain ⟨l1, l2, _, hl, he⟩ := List.exists_erase_eq hm
  refine ⟨inv.goodFacts, inv.nodup, ?_⟩
  intro r hr
  obtain ⟨hpost, L, hemb, hpick⟩ := inv.each r hr
  refine ⟨hpost.sub (fun v hv => by rw [varsOfList_snoc]; exact List.mem_append_left _ hv), ?_⟩
  have hrem : remOf mm fxs =
      (mm.map (·.2) ++ l1.map Scalar.toV) ++ sc.toV :: l2.map Scalar.toV := by
    simp [remOf, hl]
  rw [hrem] at hpick
  obtain ⟨L', hp1, hp2⟩ := hpick.remove
  refine ⟨L', hemb.snoc hp1 (Emb.scalar (scalar_const hsc hv) (scalar_toV hsc)), ?_⟩
  simpa [remOf, he] using hp2

theorem x_loop_step {n : Nat} (ihC : XCat n) (ihL : XLoop n) : XLoop (n+1) := by
  intro bs fa xs fxs bsss fxas flag done fxs' bsss' fxas' hxs hl hpv hfr hbrs h
  cases xs with
  | nil =>
    simp only [loopXs] at h
    cases h
    exact ⟨by simpa using hbrs, fun _ h => h⟩
  | cons x xs =>
    obtain ⟨hxp, hxn⟩ := hxs x List.mem_cons_self
    have hxs' : ∀ y ∈ xs, y.plainPat = true ∧ isVarV y = false :=
      fun y hy => hxs y (List.mem_cons_of_mem _ hy)
    have happ : done ++ x :: xs = (done ++ [x]) ++ xs := by simp
    rw [happ] at hl hpv hfr ⊢
    simp only [loopXs] at h
    split at h
    · next sc hsc =>
      split at h
      · next hc =>
        have hm : sc ∈ fxs := List.contains_iff_mem.mp hc
        have hbrs' : Brs (XInv bs fa (done ++ [x]) (fxs.erase sc)) bsss fxas :=
          hbrs.imp (fun bss mm inv => inv.step_scalar hsc hxn hm)
        obtain ⟨r1, r2⟩ := ihL bs fa xs _ bsss fxas flag _ fxs' bsss' fxas' hxs' hl hpv hfr hbrs' h
        exact ⟨r1, fun sc' h' => List.mem_of_mem_erase (r2 sc' h')⟩
      · cases h
    · split at h
      · cases h
      · split at h
        · cases h
        · next b1 f1 hcat =>
          split at h
          · cases h
          · -- the variables: `varsOfList done ++ (varsOf x ++ varsOfList xs)`
            have hsplit : varsOfList (done ++ [x] ++ xs) =
                varsOfList done ++ (varsOf x ++ varsOfList xs) := by
              rw [varsOfList_append, varsOfList_snoc, List.append_assoc]
            have hl2 := hl
            have hfr2 := hfr
            rw [hsplit] at hl2 hfr2
            have hxsub : ∀ v ∈ varsOf x, v ∈ varsOfList (done ++ [x] ++ xs) := by
              intro v hv; rw [hsplit]
              exact List.mem_append_right _ (List.mem_append_left _ hv)
            have hstep := ihC (XInv bs fa done fxs) bsss x fxas b1 f1 hxp hl2.right.left
              (hpv.sub hxsub)
              (fun bss mm inv => ⟨inv.goodFacts, fun b hb =>
                ((hfr2.step hl2 (inv.each b hb).1).sub
                  (fun v hv => List.mem_append_left _ hv))⟩) hbrs hcat
            have hbrs' : Brs (XInv bs fa (done ++ [x]) fxs) b1 f1 :=
              hstep.imp (fun acc mm' ⟨bss, mm, inv, hs⟩ => inv.step_struct hs)
            exact ihL bs fa xs fxs b1 f1 flag _ fxs' bsss' fxas' hxs' hl hpv hfr hbrs' h

/-- the invariant at loop entry -/
theorem XInv.init {bs : Bs} {fa : List V} (hfa : goodList fa = true) :
    XInv bs fa [] (indexScalars fa []) [bs] (indexStruct fa 0) := by
  refine ⟨?_, indexStruct_nodup, ?_⟩
  · intro e he
    exact goodList_mem hfa _ (indexStruct_mem he).2
  · intro r hr
    simp at hr; subst hr
    refine ⟨XPost.refl _ _, fa, ArrEmbX.nil, ?_⟩
    have := index_pickAll fa [] 0 [] [] (by simpa using PickAll.nil)
    simpa [remOf] using this

/-- what the variable step needs from a finished branch -/
def XFin (bs : Bs) (fa xs : List V) (bss : List Bs) (mm : List (Nat × V)) : Prop :=
  (∀ e ∈ mm, e.2.good = true) ∧
  ∀ r ∈ bss, XPost (varsOfList xs) bs r ∧ ∃ L, ArrEmbX [] r xs fa L ∧ ∀ e ∈ mm, e.2 ∈ L

theorem XInv.fin {bs fa xs fxs bss mm} (k : Nat) (inv : XInv bs fa xs fxs bss mm)
    (hfxs : ∀ sc ∈ fxs, sc.toV.good = true) :
    XFin bs fa xs bss (mm ++ leftovers fxs k) := by
  have hmem : ∀ e ∈ mm ++ leftovers fxs k, e.2 ∈ remOf mm fxs := by
    intro e he
    rcases List.mem_append.mp he with he | he
    · exact List.mem_append_left _ (List.mem_map_of_mem he)
    · obtain ⟨sc, h1, h2⟩ := leftovers_mem he
      rw [h2]
      exact List.mem_append_right _ (List.mem_map_of_mem h1)
  refine ⟨?_, ?_⟩
  · intro e he
    rcases List.mem_append.mp he with he | he
    · exact inv.goodFacts e he
    · obtain ⟨sc, h1, h2⟩ := leftovers_mem he
      rw [h2]; exact hfxs sc h1
  · intro r hr
    obtain ⟨hpost, L, hemb, hpick⟩ := inv.each r hr
    exact ⟨hpost, L, hemb, fun e he => hpick.mem (hmem e he)⟩

theorem x_arr_step {n : Nat} (ihC : XCat n) (ihL : XLoop n) : XArr (n+1) := by
  intro ps f bs rs hp hg hl hpv hfr h r hr
  simp only [matchArr] at h
  split at h
  · cases h
  · next v xs hgv =>
    split at h
    · next fa =>
      have hfa : goodList fa = true := by simpa [V.good] using hg
      split at h
      · next r' hlp =>
        subst h
        have := loopXs_inl _ _ _ _ _ _ _ hlp
        subst this; cases hr
      · next fxs' bsss fxas hlp =>
        have hps : ∀ x ∈ ps, x.plainPat = true := plainPatList_mem hp
        have hinit : Brs (XInv bs fa [] (indexScalars fa [])) [[bs]] [indexStruct fa 0] :=
          Brs.cons (XInv.init hfa) Brs.nil
        have hgv0 := hgv
        rcases getVariable_none ps [] v xs hgv with
          ⟨hv1, hxs, hnv⟩ | ⟨s, a, b, hv1, hsv, hpsab, hxs, hnv⟩
        · -- no variable
          subst hv1
          simp only [List.reverse_nil, List.nil_append] at hxs
          subst hxs
          simp only at h
          cases h
          obtain ⟨hfin, _⟩ := ihL bs fa xs _ _ _ _ [] fxs' bsss fxas
            (fun x hx => ⟨hps x hx, hnv x hx⟩) (by simpa using hl) (by simpa using hpv)
            (by simpa using hfr) hinit hlp
          obtain ⟨bss, hb1, hb2⟩ := List.mem_flatten.mp hr
          obtain ⟨mm, inv⟩ := hfin.mem hb1
          obtain ⟨hpost, L, hemb, _⟩ := inv.each r hb2
          simp only [List.nil_append] at hpost hemb
          exact ⟨hpost, Emb.arr hgv0 hemb trivial⟩
        · -- one variable `s`, `ps = a ++ s :: b`, `xs = a ++ b`
          subst hv1
          simp only [List.reverse_nil, List.nil_append] at hxs
          subst hxs
          subst hpsab
          have hperm := varsOfList_split (a := a) (b := b) hsv
          have hl2 : Lin (varsOfList (a ++ b) ++ [s]) := hl.perm hperm.symm
          have hsubL : ∀ v ∈ varsOfList (a ++ b) ++ [s], v ∈ varsOfList (a ++ V.str s :: b) :=
            fun v hv => hperm.mem_iff.mp hv
          have hfr2 : Fresh (varsOfList (a ++ b) ++ [s]) bs := hfr.sub hsubL
          have hpv2 : PV (varsOfList (a ++ b) ++ [s]) := hpv.sub hsubL
          have hxsOK : ∀ x ∈ a ++ b, x.plainPat = true ∧ isVarV x = false := by
            intro x hx
            have hx' : x ∈ a ++ V.str s :: b := by
              rcases List.mem_append.mp hx with h | h
              · exact List.mem_append_left _ h
              · exact List.mem_append_right _ (List.mem_cons_of_mem _ h)
            exact ⟨hps x hx', hnv x hx⟩
          obtain ⟨hfin, hsub⟩ := ihL bs fa (a ++ b) _ _ _ _ [] fxs' bsss fxas hxsOK
            (by simpa using hl2.left)
            (by simpa using hpv2.sub (fun _ hx => List.mem_append_left _ hx))
            (by simpa using hfr2.sub (fun _ hx => List.mem_append_left _ hx)) hinit hlp
          simp only [List.nil_append] at hfin
          have hfxs' : ∀ sc ∈ fxs', sc.toV.good = true :=
            fun sc h => indexScalars_good hfa sc (hsub sc h)
          simp only at h
          split at h
          · next r' hcat =>
            subst h
            exact absurd rfl (arraycat_inl _ _ _ _ _ hcat rs)
          · next bsss' fx' hcat =>
            have hsvars : varsOf (.str s) = [s] := varsOf_str_var hsv
            have hfin' := hfin.map_right (fun m => m ++ leftovers fxs' fa.length)
              (Q := XFin bs fa (a ++ b))
              (fun bss mm inv => inv.fin fa.length hfxs')
            have hstep := ihC (XFin bs fa (a ++ b)) bsss (.str s) _ bsss' fx' rfl
              (by rw [hsvars]; exact hl2.right)
              (by rw [hsvars]; exact hpv2.sub (fun _ hx => List.mem_append_right _ hx))
              (fun bss mm fin => ⟨fin.1, fun b hb => by
                rw [hsvars]; exact hfr2.step hl2 (fin.2 b hb).1⟩) hfin' hcat
            split at h
            · next hc =>
              simp only [Bool.and_eq_true] at hc
              have := (hpv2 s (List.mem_append_right _ List.mem_cons_self)).1
              rw [this] at hc
              exact absurd hc.2 (by simp)
            · cases h
              obtain ⟨acc, hb1, hb2⟩ := List.mem_flatten.mp hr
              obtain ⟨mm', bss, mm, fin, j, fact, hjm, _, hacc⟩ := hstep.mem hb1
              obtain ⟨b1, hb1', hpost1, hsat⟩ := hacc r hb2
              obtain ⟨hpost0, L, hemb, hpk⟩ := fin.2 b1 hb1'
              rw [hsvars] at hpost1
              refine ⟨(hpost0.seq hpost1).sub hsubL, ?_⟩
              refine Emb.arr hgv0 (hemb.mono hpost1.ext) ?_
              exact Or.inl ⟨fact, hpk (j, fact) hjm, Emb.var_inv hsv hsat⟩
    · cases h; cases hr

end Sheens.Exact
