import Sheens.MatchSpecC
import Sheens.Proofs.All
import Sheens.Proofs.Terminates

/-!
# Completeness of the matcher (C02), part 1: invariants and bookkeeping

`Inv bs`: the current bindings extend the given ones and agree with the assignment `σ`.
`Ok W bs`: every variable of the pattern part still to be processed (`W`) that is already bound, or
occurs twice in it, takes a scalar value under `σ` (the local form of `RepeatScalar`).
`Res bs W r`: what the result `r` reached from `bs` over a pattern part with variables `W` satisfies.
-/

namespace Sheens.Complete

/-- `σ` assigns `v` a scalar (if anything) -/
def Scal (σ : Bs) (v : String) : Prop := ∀ x, lookup v σ = some x → isScalarV x = true

structure Inv (bs₀ σ bs : Bs) : Prop where
  ext0 : Extends bs₀ bs
  good : GoodBs bs
  sub  : Extends bs σ

def Ok (σ : Bs) (W : List String) (bs : Bs) : Prop :=
  ∀ v ∈ W, (lookup v bs ≠ none ∨ 2 ≤ W.count v) → Scal σ v

structure Res (bs₀ σ bs : Bs) (W : List String) (r : Bs) : Prop where
  inv : Inv bs₀ σ r
  ext : Extends bs r
  keys : ∀ v, lookup v r ≠ none → lookup v bs ≠ none ∨ v ∈ W ∨ Scal σ v
  binds : ∀ v ∈ W, isOptVar (.str v) = false → isAnon v = false → lookup v r ≠ none

theorem bound_mono {a b : Bs} {v : String} (he : Extends a b) (h : lookup v a ≠ none) :
    lookup v b ≠ none := by
  cases hl : lookup v a with
  | none => exact absurd hl h
  | some x => rw [he _ _ hl]; simp

section
variable {bs₀ σ : Bs}

theorem Res.refl_nil {bs : Bs} (hi : Inv bs₀ σ bs) : Res bs₀ σ bs [] bs :=
  ⟨hi, Extends.refl _, fun _ h => Or.inl h, fun _ h => nomatch h⟩

theorem Res.seq {bs r1 r2 : Bs} {W1 W2 : List String} (h1 : Res bs₀ σ bs W1 r1)
    (h2 : Res bs₀ σ r1 W2 r2) : Res bs₀ σ bs (W1 ++ W2) r2 := by
  refine ⟨h2.inv, h1.ext.trans h2.ext, ?_, ?_⟩
  · intro v hv
    rcases h2.keys v hv with h | h | h
    · rcases h1.keys v h with h' | h' | h'
      · exact Or.inl h'
      · exact Or.inr (Or.inl (List.mem_append_left _ h'))
      · exact Or.inr (Or.inr h')
    · exact Or.inr (Or.inl (List.mem_append_right _ h))
    · exact Or.inr (Or.inr h)
  · intro v hv ho ha
    rcases List.mem_append.mp hv with h | h
    · exact bound_mono h2.ext (h1.binds v h ho ha)
    · exact h2.binds v h ho ha

/-- change the variable list: same members up to additional optional variables -/
theorem Res.mono {bs r : Bs} {W W' : List String} (h : Res bs₀ σ bs W r)
    (h1 : ∀ v ∈ W, v ∈ W') (h2 : ∀ v ∈ W', v ∈ W ∨ isOptVar (.str v) = true) :
    Res bs₀ σ bs W' r := by
  refine ⟨h.inv, h.ext, ?_, ?_⟩
  · intro v hv
    rcases h.keys v hv with h' | h' | h'
    · exact Or.inl h'
    · exact Or.inr (Or.inl (h1 v h'))
    · exact Or.inr (Or.inr h')
  · intro v hv ho ha
    rcases h2 v hv with h' | h'
    · exact h.binds v h' ho ha
    · rw [h'] at ho; cases ho

theorem Res.perm {bs r : Bs} {W W' : List String} (hp : W.Perm W') (h : Res bs₀ σ bs W r) :
    Res bs₀ σ bs W' r :=
  h.mono (fun _ hv => hp.mem_iff.mp hv) (fun _ hv => Or.inl (hp.mem_iff.mpr hv))

theorem Ok.left {W1 W2 : List String} {bs : Bs} (h : Ok σ (W1 ++ W2) bs) : Ok σ W1 bs := by
  intro v hv hc
  refine h v (List.mem_append_left _ hv) ?_
  rcases hc with hc | hc
  · exact Or.inl hc
  · right; rw [List.count_append]; omega

theorem Ok.suffix {W1 W2 : List String} {bs : Bs} (h : Ok σ (W1 ++ W2) bs) : Ok σ W2 bs := by
  intro v hv hc
  refine h v (List.mem_append_right _ hv) ?_
  rcases hc with hc | hc
  · exact Or.inl hc
  · right; rw [List.count_append]; omega

theorem Ok.right {W1 W2 : List String} {bs r : Bs} (h : Ok σ (W1 ++ W2) bs)
    (hr : Res bs₀ σ bs W1 r) : Ok σ W2 r := by
  intro v hv hc
  rcases hc with hc | hc
  · rcases hr.keys v hc with h' | h' | h'
    · exact h v (List.mem_append_right _ hv) (Or.inl h')
    · refine h v (List.mem_append_right _ hv) (Or.inr ?_)
      rw [List.count_append]
      have h1 : 1 ≤ W1.count v := List.one_le_count_iff.mpr h'
      have h2 : 1 ≤ W2.count v := List.one_le_count_iff.mpr hv
      omega
    · exact h'
  · refine h v (List.mem_append_right _ hv) (Or.inr ?_)
    rw [List.count_append]; omega

theorem Ok.perm {W W' : List String} {bs : Bs} (hp : W.Perm W') (h : Ok σ W bs) : Ok σ W' bs := by
  intro v hv hc
  refine h v (hp.mem_iff.mpr hv) ?_
  rcases hc with hc | hc
  · exact Or.inl hc
  · right; rw [hp.count_eq]; exact hc

end

/-! ## variables of pattern lists -/

theorem varsOfList_append (a b : List V) : varsOfList (a ++ b) = varsOfList a ++ varsOfList b := by
  induction a with
  | nil => simp [varsOfList]
  | cons x a ih => simp [varsOfList, ih]

theorem varsOf_str_var {s : String} (h : isVar s = true) : varsOf (.str s) = [s] := by
  simp [varsOf, h]

theorem varsOfList_split {a b : List V} {s : String} (h : isVar s = true) :
    (varsOfList (a ++ b) ++ [s]).Perm (varsOfList (a ++ V.str s :: b)) := by
  rw [varsOfList_append, varsOfList_append]
  simp only [varsOfList, varsOf_str_var h]
  have : varsOfList a ++ ([s] ++ varsOfList b) = varsOfList a ++ s :: varsOfList b := by simp
  rw [this]
  refine List.Perm.trans ?_ (List.perm_middle (a := s)).symm
  have h2 : (varsOfList a ++ varsOfList b ++ [s]).Perm ([s] ++ (varsOfList a ++ varsOfList b)) :=
    List.perm_append_comm
  simpa using h2

theorem varsOfList_mem_sub {ps : List V} {x : V} (hx : x ∈ ps) : ∀ k ∈ varsOf x, k ∈ varsOfList ps := by
  induction ps with
  | nil => cases hx
  | cons y ps ih =>
    intro k hk
    simp only [varsOfList, List.mem_append]
    rcases List.mem_cons.mp hx with rfl | hx
    · exact Or.inl hk
    · exact Or.inr (ih hx k hk)

/-- the variables of an optional-variable pattern are optional -/
theorem optVar_vars {pv : V} (h : isOptVar pv = true) : ∀ v ∈ varsOf pv, isOptVar (.str v) = true := by
  intro v hv
  cases pv with
  | str s =>
    simp only [varsOf] at hv
    split at hv
    · simp at hv; subst hv; exact h
    · cases hv
  | _ => simp [isOptVar] at h

/-! ## `setLike` descends -/

theorem setLikeList_mem {xs : List V} (h : setLikeList xs = true) : ∀ x ∈ xs, setLike x = true := by
  induction xs with
  | nil => intro x hx; cases hx
  | cons y xs ih =>
    simp only [setLikeList, Bool.and_eq_true] at h
    intro x hx
    rcases List.mem_cons.mp hx with rfl | hx
    · exact h.1
    · exact ih h.2 x hx

theorem setLikeKvs_mem {fm : List (String × V)} (h : setLikeKvs fm = true) :
    ∀ kv ∈ fm, setLike kv.2 = true := by
  induction fm with
  | nil => intro x hx; cases hx
  | cons y xs ih =>
    obtain ⟨k, v⟩ := y
    simp only [setLikeKvs, Bool.and_eq_true] at h
    intro x hx
    rcases List.mem_cons.mp hx with rfl | hx
    · exact h.1
    · exact ih h.2 x hx

theorem setLikeKvs_lookup {fm : List (String × V)} {k : String} {fv : V}
    (h : setLikeKvs fm = true) (hl : lookup k fm = some fv) : setLike fv = true :=
  setLikeKvs_mem h (k, fv) (Sheens.Total.lookup_mem' hl)

/-! ## parallel branch lists: membership at the same position -/

inductive MemBr : List Bs → List (Nat × V) → List (List Bs) → List (List (Nat × V)) → Prop
  | here  : MemBr bss mm (bss :: bsss) (mm :: fxas)
  | there : MemBr bss mm bsss fxas → MemBr bss mm (x :: bsss) (y :: fxas)

theorem MemBr.mem_left {bss mm bsss fxas} (h : MemBr bss mm bsss fxas) : bss ∈ bsss := by
  induction h with
  | here => exact List.mem_cons_self
  | there _ ih => exact List.mem_cons_of_mem _ ih

theorem MemBr.append_left {bss mm a f} (a' : List (List Bs)) (f' : List (List (Nat × V)))
    (h : MemBr bss mm a f) : MemBr bss mm (a ++ a') (f ++ f') := by
  induction h with
  | here => exact MemBr.here
  | there _ ih => exact MemBr.there ih

theorem MemBr.append_right {bss mm a' f'} {a : List (List Bs)} {f : List (List (Nat × V))}
    (hl : a.length = f.length) (h : MemBr bss mm a' f') : MemBr bss mm (a ++ a') (f ++ f') := by
  induction a generalizing f with
  | nil =>
    cases f with
    | nil => exact h
    | cons _ _ => simp at hl
  | cons x a ih =>
    cases f with
    | nil => simp at hl
    | cons y f => exact MemBr.there (ih (by simpa using hl))

theorem MemBr.map_right {bss mm bsss fxas} (g : List (Nat × V) → List (Nat × V))
    (h : MemBr bss mm bsss fxas) : MemBr bss (g mm) bsss (fxas.map g) := by
  induction h with
  | here => exact MemBr.here
  | there _ ih => exact MemBr.there ih

theorem _root_.Brs.length_eq {P} {a : List (List Bs)} {f : List (List (Nat × V))} (h : Brs P a f) :
    a.length = f.length := by
  induction h with
  | nil => rfl
  | cons _ _ ih => simp [ih]

theorem _root_.Brs.of_memBr {P} {bss mm} {a : List (List Bs)} {f : List (List (Nat × V))} (h : Brs P a f)
    (hm : MemBr bss mm a f) : P bss mm := by
  induction hm with
  | here => cases h with | cons hp _ => exact hp
  | there _ ih => cases h with | cons _ hr => exact ih hr

theorem _root_.Brs.all_right {P} {a : List (List Bs)} {f : List (List (Nat × V))} (h : Brs P a f) :
    ∀ mm ∈ f, ∃ bss, P bss mm := by
  induction h with
  | nil => intro mm hm; cases hm
  | cons hp _ ih =>
    intro mm hm
    rcases List.mem_cons.mp hm with rfl | hm
    · exact ⟨_, hp⟩
    · exact ih mm hm

end Sheens.Complete
