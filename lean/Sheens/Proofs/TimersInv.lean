import Sheens.Timers

/-!
# Timers: basic lemmas, the inductive invariant, and its preservation
-/

namespace Timers

/-! ## `lookupT` / `eraseT` -/

theorem lookupT_some_mem {id : Tid} {g : Gen} :
    ∀ {t : List (Tid × Gen)}, lookupT id t = some g → (id, g) ∈ t
  | [], h => by simp [lookupT] at h
  | (i, g0) :: r, h => by
    simp only [lookupT] at h
    split at h
    next hi =>
      cases h; subst hi; exact List.mem_cons_self
    next hi =>
      exact List.mem_cons_of_mem _ (lookupT_some_mem h)

theorem lookupT_none_iff {id : Tid} :
    ∀ {t : List (Tid × Gen)}, lookupT id t = none ↔ id ∉ t.map (·.1)
  | [] => by simp [lookupT]
  | (i, g0) :: r => by
    simp only [lookupT]
    split
    next hi => subst hi; simp
    next hi =>
      rw [lookupT_none_iff (t := r)]
      simp only [List.map_cons, List.mem_cons, not_or]
      constructor
      · intro h; exact ⟨fun e => hi e.symm, h⟩
      · intro h; exact h.2

theorem lookupT_of_mem {id : Tid} {g : Gen} :
    ∀ {t : List (Tid × Gen)}, (t.map (·.1)).Nodup → (id, g) ∈ t → lookupT id t = some g
  | [], _, h => by simp at h
  | (i, g0) :: r, hn, h => by
    simp only [List.map_cons, List.nodup_cons] at hn
    simp only [lookupT]
    rcases List.mem_cons.mp h with h | h
    · cases h; simp
    · have : i ≠ id := by
        intro e; subst e
        exact hn.1 (List.mem_map.mpr ⟨(i, g), h, rfl⟩)
      simp only [this, if_false]
      exact lookupT_of_mem hn.2 h

theorem mem_eraseT {id : Tid} {e : Tid × Gen} {t : List (Tid × Gen)} :
    e ∈ eraseT id t ↔ e ∈ t ∧ e.1 ≠ id := by
  simp [eraseT]

theorem lookupT_eraseT_self (id : Tid) (t : List (Tid × Gen)) : lookupT id (eraseT id t) = none := by
  rw [lookupT_none_iff]
  intro h
  obtain ⟨e, he, hid⟩ := List.mem_map.mp h
  exact (mem_eraseT.mp he).2 hid

theorem eraseT_ids_nodup {id : Tid} {t : List (Tid × Gen)} (h : (t.map (·.1)).Nodup) :
    ((eraseT id t).map (·.1)).Nodup := by
  unfold eraseT
  exact List.Nodup.sublist (List.Sublist.map _ List.filter_sublist) h

/-! ## `procOf` / `finish` -/

theorem procOf_gen {g : Gen} {p : Proc} : ∀ {ps : List Proc}, procOf g ps = some p → p.gen = g
  | [], h => by simp [procOf] at h
  | q :: r, h => by
    simp only [procOf] at h
    split at h
    next hq => cases h; exact hq
    next hq => exact procOf_gen h

def fin (g : Gen) (p : Proc) : Proc := if p.gen = g then { p with phase := .finished } else p

theorem fin_gen (g : Gen) (p : Proc) : (fin g p).gen = p.gen := by
  unfold fin; split <;> rfl

theorem fin_id (g : Gen) (p : Proc) : (fin g p).id = p.id := by
  unfold fin; split <;> rfl

theorem fin_due (g : Gen) (p : Proc) : (fin g p).due = p.due := by
  unfold fin; split <;> rfl

theorem fin_phase_ne {g : Gen} {p : Proc} (h : p.gen ≠ g) : (fin g p).phase = p.phase := by
  unfold fin; simp [h]

theorem procOf_finish (g g' : Gen) : ∀ (ps : List Proc),
    procOf g' (finish g ps) = (procOf g' ps).map (fin g)
  | [] => by simp [finish, procOf]
  | q :: r => by
    have ih := procOf_finish g g' r
    simp only [finish, List.map_cons, procOf] at ih ⊢
    have hg : (if q.gen = g then { q with phase := Phase.finished } else q).gen = q.gen := fin_gen g q
    rw [hg]
    split
    next h => simp [fin]
    next h => exact ih

/-! ## counting lemma for the `filter … length == 1` observations -/

theorem filter_length_one {α β : Type} [DecidableEq β] (f : α → β) :
    ∀ (l : List α), (l.map f).Nodup → ∀ e ∈ l, (l.filter (fun e' => f e' == f e)).length = 1
  | [], _, e, he => by simp at he
  | a :: r, hn, e, he => by
    simp only [List.map_cons, List.nodup_cons] at hn
    rcases List.mem_cons.mp he with h | h
    · subst h
      have : r.filter (fun e' => f e' == f e) = [] := by
        rw [List.filter_eq_nil_iff]
        intro x hx hfx
        have : f x = f e := by simpa using hfx
        exact hn.1 (this ▸ List.mem_map.mpr ⟨x, hx, rfl⟩)
      simp [this]
    · have hne : f a ≠ f e := by
        intro e'; exact hn.1 (e' ▸ List.mem_map.mpr ⟨e, h, rfl⟩)
      have := filter_length_one f r hn.2 e h
      simp [hne, this]

/-! ## the state updates of `step`, named -/

def remSt (id : Tid) (g : Gen) (s : St) : St :=
  { s with table := eraseT id s.table, closed := g :: s.closed, cancelled := g :: s.cancelled }

def newProc (id : Tid) (delay : Nat) (s : St) : Proc :=
  { gen := s.nextGen, id := id, due := s.now + delay, phase := .waiting }

def freshSt (id : Tid) (delay : Nat) (s : St) : St :=
  { s with table := (id, s.nextGen) :: s.table,
           procs := newProc id delay s :: s.procs,
           nextGen := s.nextGen + 1, accepted := s.nextGen :: s.accepted }

def fireSt (g : Gen) (p : Proc) (s : St) : St :=
  { s with table := eraseT p.id s.table, procs := finish g s.procs, fired := (g, s.now) :: s.fired }

def retireSt (g : Gen) (s : St) : St := { s with procs := finish g s.procs }

def tickSt (s : St) : St := { s with now := s.now + 1 }

theorem step_add {rep : Bool} {s s' : St} {id : Tid} {d : Nat}
    (h : step rep s (.add id d) = some s') :
    (lookupT id s.table = none ∧ s' = freshSt id d s) ∨
    (∃ old, rep = true ∧ lookupT id s.table = some old ∧ s' = freshSt id d (remSt id old s)) := by
  simp only [step] at h
  split at h
  next hl => cases h; exact .inl ⟨hl, rfl⟩
  next old hl =>
    split at h
    next hr => cases h; exact .inr ⟨old, hr, hl, rfl⟩
    next => cases h

theorem step_add_none {rep : Bool} {s : St} {id : Tid} {d : Nat} (hl : lookupT id s.table = none) :
    step rep s (.add id d) = some (freshSt id d s) := by
  simp only [step, hl]; rfl

theorem step_rem {rep : Bool} {s s' : St} {id : Tid} (h : step rep s (.rem id) = some s') :
    ∃ g, lookupT id s.table = some g ∧ s' = remSt id g s := by
  simp only [step] at h
  split at h
  next => cases h
  next g hl => cases h; exact ⟨g, hl, rfl⟩

theorem step_rem_some {rep : Bool} {s : St} {id : Tid} {g : Gen} (hl : lookupT id s.table = some g) :
    step rep s (.rem id) = some (remSt id g s) := by
  simp only [step, hl]; rfl

theorem step_tick {rep : Bool} {s s' : St} (h : step rep s .tick = some s') : s' = tickSt s := by
  simp only [step] at h; cases h; rfl

theorem step_due {rep : Bool} {s s' : St} {g : Gen} (h : step rep s (.due g) = some s') :
    ∃ p, procOf g s.procs = some p ∧ p.phase = .waiting ∧ p.due ≤ s.now ∧
      ((lookupT p.id s.table = some g ∧ s' = fireSt g p s) ∨
       (lookupT p.id s.table ≠ some g ∧ s' = retireSt g s)) := by
  simp only [step] at h
  split at h
  next p hp =>
    split at h
    next hc =>
      simp only [Bool.and_eq_true, beq_iff_eq, decide_eq_true_eq] at hc
      split at h
      next hl =>
        cases h
        exact ⟨p, hp, hc.1, hc.2, .inl ⟨by simpa using hl, rfl⟩⟩
      next hl =>
        cases h
        exact ⟨p, hp, hc.1, hc.2, .inr ⟨by simpa using hl, rfl⟩⟩
    next => cases h
  next => cases h

theorem step_due_fire {rep : Bool} {s : St} {g : Gen} {p : Proc} (hp : procOf g s.procs = some p)
    (hw : p.phase = .waiting) (hd : p.due ≤ s.now) (hl : lookupT p.id s.table = some g) :
    step rep s (.due g) = some (fireSt g p s) := by
  simp only [step, hp, hw, hl]
  simp [hd, fireSt]

theorem step_seeCancel {rep : Bool} {s s' : St} {g : Gen} (h : step rep s (.seeCancel g) = some s') :
    ∃ p, procOf g s.procs = some p ∧ p.phase = .waiting ∧ g ∈ s.closed ∧ s' = retireSt g s := by
  simp only [step] at h
  split at h
  next p hp =>
    split at h
    next hc =>
      simp only [Bool.and_eq_true, beq_iff_eq, List.contains_iff_mem] at hc
      cases h
      exact ⟨p, hp, hc.1, hc.2, rfl⟩
    next => cases h
  next => cases h

/-! ## the invariant -/

structure Inv (s : St) : Prop where
  ids : (s.table.map (·.1)).Nodup
  live : ∀ id g, (id, g) ∈ s.table → ∃ p, procOf g s.procs = some p ∧ p.id = id ∧ p.phase = .waiting
  procLt : ∀ g p, procOf g s.procs = some p → g < s.nextGen
  accLt : ∀ g, g ∈ s.accepted → g < s.nextGen
  cancLt : ∀ g, g ∈ s.cancelled → g < s.nextGen
  tabAcc : ∀ id g, (id, g) ∈ s.table → g ∈ s.accepted
  tabNF : ∀ id g t, (id, g) ∈ s.table → (g, t) ∉ s.fired
  tabNC : ∀ id g, (id, g) ∈ s.table → g ∉ s.cancelled
  pend : ∀ g, g ∈ s.accepted → (∀ t, (g, t) ∉ s.fired) → g ∉ s.cancelled → ∃ id, (id, g) ∈ s.table
  firedNodup : (s.fired.map (·.1)).Nodup
  fired : ∀ g t, (g, t) ∈ s.fired → ∃ p, procOf g s.procs = some p ∧ p.due ≤ t
  firedNC : ∀ g t, (g, t) ∈ s.fired → g ∉ s.cancelled
  closed : ∀ g, g ∈ s.closed → g ∈ s.cancelled

theorem Inv.init : Inv St.init := by
  constructor <;> simp [St.init, procOf]

/-- in a state satisfying the invariant the table is injective in the generation -/
theorem Inv.tab_gen_inj {s : St} (h : Inv s) {id id' : Tid} {g : Gen}
    (h1 : (id, g) ∈ s.table) (h2 : (id', g) ∈ s.table) : id = id' := by
  obtain ⟨p, hp, hid, _⟩ := h.live id g h1
  obtain ⟨p', hp', hid', _⟩ := h.live id' g h2
  rw [hp] at hp'; cases hp'; rw [← hid, ← hid']

theorem Inv.tab_id_inj {s : St} (h : Inv s) {id : Tid} {g g' : Gen}
    (h1 : (id, g) ∈ s.table) (h2 : (id, g') ∈ s.table) : g = g' := by
  have a := lookupT_of_mem h.ids h1
  have b := lookupT_of_mem h.ids h2
  rw [a] at b; cases b; rfl

theorem Inv.tick {s : St} (h : Inv s) : Inv (tickSt s) := by
  exact ⟨h.ids, h.live, h.procLt, h.accLt, h.cancLt, h.tabAcc, h.tabNF, h.tabNC, h.pend, h.firedNodup,
    h.fired, h.firedNC, h.closed⟩

theorem Inv.rem {s : St} (h : Inv s) {id : Tid} {g : Gen} (hl : lookupT id s.table = some g) :
    Inv (remSt id g s) := by
  have hm := lookupT_some_mem hl
  refine ⟨eraseT_ids_nodup h.ids, ?_, h.procLt, h.accLt, ?_, ?_, ?_, ?_, ?_, h.firedNodup, h.fired, ?_, ?_⟩
  · intro id' g' he
    exact h.live id' g' (mem_eraseT.mp he).1
  · intro g' hg'
    rcases List.mem_cons.mp hg' with e | e
    · subst e; exact h.accLt _ (h.tabAcc _ _ hm)
    · exact h.cancLt _ e
  · intro id' g' he
    exact h.tabAcc id' g' (mem_eraseT.mp he).1
  · intro id' g' t he
    exact h.tabNF id' g' t (mem_eraseT.mp he).1
  · intro id' g' he hc
    have he' := mem_eraseT.mp he
    rcases List.mem_cons.mp hc with e | e
    · subst e
      exact he'.2 (h.tab_gen_inj he'.1 hm)
    · exact h.tabNC id' g' he'.1 e
  · intro g' ha hf hc
    have hc' : g' ≠ g ∧ g' ∉ s.cancelled := by
      simpa [remSt] using hc
    obtain ⟨id', hid'⟩ := h.pend g' ha hf hc'.2
    refine ⟨id', mem_eraseT.mpr ⟨hid', ?_⟩⟩
    intro e
    have e' : id' = id := e
    subst e'
    exact hc'.1 (h.tab_id_inj hid' hm)
  · intro g' t hf hc
    rcases List.mem_cons.mp hc with e | e
    · subst e; exact h.tabNF _ _ t hm hf
    · exact h.firedNC g' t hf e
  · intro g' hc
    rcases List.mem_cons.mp hc with e | e
    · subst e; exact List.mem_cons_self
    · exact List.mem_cons_of_mem _ (h.closed _ e)

theorem procOf_cons_ne {g' : Gen} {q : Proc} {ps : List Proc} (h : q.gen ≠ g') :
    procOf g' (q :: ps) = procOf g' ps := by
  simp [procOf, h]

theorem Inv.fresh {s : St} (h : Inv s) {id : Tid} (d : Nat) (hl : lookupT id s.table = none) :
    Inv (freshSt id d s) := by
  have hfl : ∀ g t, (g, t) ∈ s.fired → g < s.nextGen := by
    intro g t hf
    obtain ⟨p, hp, _⟩ := h.fired g t hf
    exact h.procLt g p hp
  have htl : ∀ id' g, (id', g) ∈ s.table → g < s.nextGen := fun id' g hm =>
    h.accLt g (h.tabAcc id' g hm)
  have hprocs : (freshSt id d s).procs = newProc id d s :: s.procs := rfl
  have hpo : ∀ g' p, procOf g' s.procs = some p → procOf g' (freshSt id d s).procs = some p := by
    intro g' p hp
    rw [hprocs, procOf_cons_ne]
    · exact hp
    · exact (Nat.ne_of_lt (h.procLt g' p hp)).symm
  constructor
  · show (((id, s.nextGen) :: s.table).map (·.1)).Nodup
    simp only [List.map_cons, List.nodup_cons]
    exact ⟨lookupT_none_iff.mp hl, h.ids⟩
  · intro id' g' hm
    rcases List.mem_cons.mp hm with e | e
    · cases e
      exact ⟨newProc id d s, by rw [hprocs]; simp [newProc, procOf], rfl, rfl⟩
    · obtain ⟨p, hp, hpi, hpw⟩ := h.live id' g' e
      exact ⟨p, hpo g' p hp, hpi, hpw⟩
  · intro g' p hp
    show g' < s.nextGen + 1
    rw [hprocs] at hp
    by_cases e : s.nextGen = g'
    · exact e ▸ Nat.lt_succ_self _
    · rw [procOf_cons_ne e] at hp
      exact Nat.lt_succ_of_lt (h.procLt g' p hp)
  · intro g' hg'
    show g' < s.nextGen + 1
    rcases List.mem_cons.mp hg' with e | e
    · exact e ▸ Nat.lt_succ_self _
    · exact Nat.lt_succ_of_lt (h.accLt g' e)
  · intro g' hg'
    show g' < s.nextGen + 1
    exact Nat.lt_succ_of_lt (h.cancLt g' hg')
  · intro id' g' hm
    rcases List.mem_cons.mp hm with e | e
    · cases e; exact List.mem_cons_self
    · exact List.mem_cons_of_mem _ (h.tabAcc id' g' e)
  · intro id' g' t hm hf
    rcases List.mem_cons.mp hm with e | e
    · cases e
      exact Nat.lt_irrefl _ (hfl _ t hf)
    · exact h.tabNF id' g' t e hf
  · intro id' g' hm hc
    rcases List.mem_cons.mp hm with e | e
    · cases e
      exact Nat.lt_irrefl _ (h.cancLt _ hc)
    · exact h.tabNC id' g' e hc
  · intro g' ha hf hc
    rcases List.mem_cons.mp ha with e | e
    · subst e; exact ⟨id, List.mem_cons_self⟩
    · obtain ⟨id', hid'⟩ := h.pend g' e hf hc
      exact ⟨id', List.mem_cons_of_mem _ hid'⟩
  · exact h.firedNodup
  · intro g' t hf
    obtain ⟨p, hp, hd⟩ := h.fired g' t hf
    exact ⟨p, hpo g' p hp, hd⟩
  · exact h.firedNC
  · exact h.closed

theorem Inv.retire {s : St} (h : Inv s) {g : Gen} (hn : ∀ id, (id, g) ∉ s.table) :
    Inv (retireSt g s) := by
  refine ⟨h.ids, ?_, ?_, h.accLt, h.cancLt, h.tabAcc, h.tabNF, h.tabNC, h.pend, h.firedNodup, ?_,
    h.firedNC, h.closed⟩
  · intro id' g' hm
    obtain ⟨p, hp, hpi, hpw⟩ := h.live id' g' hm
    refine ⟨fin g p, ?_, by rw [fin_id]; exact hpi, ?_⟩
    · show procOf g' (finish g s.procs) = some (fin g p)
      rw [procOf_finish, hp]; rfl
    · rw [fin_phase_ne]; exact hpw
      rw [procOf_gen hp]
      intro e; subst e; exact hn id' hm
  · intro g' p hp
    change procOf g' (finish g s.procs) = some p at hp
    rw [procOf_finish] at hp
    cases hq : procOf g' s.procs with
    | none => rw [hq] at hp; cases hp
    | some q => exact h.procLt g' q hq
  · intro g' t hf
    obtain ⟨p, hp, hd⟩ := h.fired g' t hf
    refine ⟨fin g p, ?_, by rw [fin_due]; exact hd⟩
    show procOf g' (finish g s.procs) = some (fin g p)
    rw [procOf_finish, hp]; rfl

theorem Inv.fire {s : St} (h : Inv s) {g : Gen} {p : Proc} (hp : procOf g s.procs = some p)
    (hd : p.due ≤ s.now) (hl : lookupT p.id s.table = some g) : Inv (fireSt g p s) := by
  have hm := lookupT_some_mem hl
  refine ⟨eraseT_ids_nodup h.ids, ?_, ?_, h.accLt, h.cancLt, ?_, ?_, ?_, ?_, ?_, ?_, ?_, h.closed⟩
  · intro id' g' he
    have he' := mem_eraseT.mp he
    obtain ⟨q, hq, hqi, hqw⟩ := h.live id' g' he'.1
    refine ⟨fin g q, ?_, by rw [fin_id]; exact hqi, ?_⟩
    · show procOf g' (finish g s.procs) = some (fin g q)
      rw [procOf_finish, hq]; rfl
    · rw [fin_phase_ne]; exact hqw
      rw [procOf_gen hq]
      intro e; subst e
      exact he'.2 (h.tab_gen_inj he'.1 hm)
  · intro g' q hq
    change procOf g' (finish g s.procs) = some q at hq
    rw [procOf_finish] at hq
    cases hq' : procOf g' s.procs with
    | none => rw [hq'] at hq; cases hq
    | some q' => exact h.procLt g' q' hq'
  · intro id' g' he
    exact h.tabAcc id' g' (mem_eraseT.mp he).1
  · intro id' g' t he hf
    have he' := mem_eraseT.mp he
    rcases List.mem_cons.mp hf with e | e
    · cases e
      exact he'.2 (h.tab_gen_inj he'.1 hm)
    · exact h.tabNF id' g' t he'.1 e
  · intro id' g' he
    exact h.tabNC id' g' (mem_eraseT.mp he).1
  · intro g' ha hf hc
    have hne : g' ≠ g := by
      intro e; subst e
      exact hf s.now List.mem_cons_self
    obtain ⟨id', hid'⟩ := h.pend g' ha (fun t ht => hf t (List.mem_cons_of_mem _ ht)) hc
    refine ⟨id', mem_eraseT.mpr ⟨hid', ?_⟩⟩
    intro e
    have e' : id' = p.id := e
    rw [e'] at hid'
    exact hne (h.tab_id_inj hid' hm)
  · show (((g, s.now) :: s.fired).map (·.1)).Nodup
    simp only [List.map_cons, List.nodup_cons]
    refine ⟨?_, h.firedNodup⟩
    intro hc
    obtain ⟨e, he, heg⟩ := List.mem_map.mp hc
    obtain ⟨g0, t0⟩ := e
    cases heg
    exact h.tabNF _ _ t0 hm he
  · intro g' t hf
    rcases List.mem_cons.mp hf with e | e
    · cases e
      refine ⟨fin g p, ?_, by rw [fin_due]; exact hd⟩
      show procOf g (finish g s.procs) = some (fin g p)
      rw [procOf_finish, hp]; rfl
    · obtain ⟨q, hq, hqd⟩ := h.fired g' t e
      refine ⟨fin g q, ?_, by rw [fin_due]; exact hqd⟩
      show procOf g' (finish g s.procs) = some (fin g q)
      rw [procOf_finish, hq]; rfl
  · intro g' t hf
    rcases List.mem_cons.mp hf with e | e
    · cases e; exact h.tabNC _ _ hm
    · exact h.firedNC g' t e

theorem Inv.step {rep : Bool} {s s' : St} {a : Act} (h : Inv s) (hs : step rep s a = some s') :
    Inv s' := by
  cases a with
  | add id d =>
    rcases step_add hs with ⟨hl, e⟩ | ⟨old, _, hl, e⟩
    · subst e; exact h.fresh d hl
    · subst e
      exact (h.rem hl).fresh d (lookupT_eraseT_self id s.table)
  | rem id =>
    obtain ⟨g, hl, e⟩ := step_rem hs
    subst e; exact h.rem hl
  | tick => rw [step_tick hs]; exact h.tick
  | due g =>
    obtain ⟨p, hp, hw, hd, ⟨hl, e⟩ | ⟨hl, e⟩⟩ := step_due hs
    · subst e; exact h.fire hp hd hl
    · subst e
      apply h.retire
      intro id hm
      obtain ⟨q, hq, hqi, _⟩ := h.live id g hm
      rw [hp] at hq; cases hq
      subst hqi
      exact hl (lookupT_of_mem h.ids hm)
  | seeCancel g =>
    obtain ⟨p, hp, hw, hc, e⟩ := step_seeCancel hs
    subst e
    apply h.retire
    intro id hm
    exact h.tabNC id g hm (h.closed g hc)

theorem Inv.run {rep : Bool} : ∀ (tr : List Act) {s s' : St}, Inv s → run rep s tr = some s' → Inv s'
  | [], s, s', h, hr => by
    simp only [Timers.run] at hr; cases hr; exact h
  | a :: as, s, s', h, hr => by
    simp only [Timers.run] at hr
    split at hr
    next s1 hs => exact Inv.run as (h.step hs) hr
    next => cases hr

/-! ## the Bool observations follow from the invariant -/

theorem Inv.firedOnce {s : St} (h : Inv s) : firedOnce s = true := by
  unfold Timers.firedOnce
  rw [List.all_eq_true]
  intro g hg
  have hn : ((s.fired.map (·.1)).map (fun x : Gen => x)).Nodup := by
    rw [show (fun x : Gen => x) = id from rfl, List.map_id]; exact h.firedNodup
  have := filter_length_one (fun x : Gen => x) (s.fired.map (·.1)) hn g hg
  simpa using this

theorem Inv.neverEarly {s : St} (h : Inv s) : neverEarly s = true := by
  unfold Timers.neverEarly
  rw [List.all_eq_true]
  rintro ⟨g, t⟩ hf
  obtain ⟨p, hp, hd⟩ := h.fired g t hf
  simp only [hp]
  simpa using hd

theorem Inv.neverBoth {s : St} (h : Inv s) : neverBoth s = true := by
  unfold Timers.neverBoth
  rw [List.all_eq_true]
  rintro ⟨g, t⟩ hf
  have := h.firedNC g t hf
  simpa using this

theorem mem_pendingGens {s : St} {g : Gen} : g ∈ pendingGens s ↔ ∃ id, (id, g) ∈ s.table := by
  unfold pendingGens
  rw [List.mem_map]
  constructor
  · rintro ⟨⟨id, g'⟩, he, rfl⟩; exact ⟨id, he⟩
  · rintro ⟨id, he⟩; exact ⟨(id, g), he, rfl⟩

theorem mem_map_fst {α β : Type} {l : List (α × β)} {a : α} : a ∈ l.map (·.1) ↔ ∃ b, (a, b) ∈ l := by
  rw [List.mem_map]
  constructor
  · rintro ⟨⟨a', b⟩, he, rfl⟩; exact ⟨b, he⟩
  · rintro ⟨b, he⟩; exact ⟨(a, b), he, rfl⟩

theorem Inv.tableIsPending {s : St} (h : Inv s) : tableIsPending s = true := by
  unfold Timers.tableIsPending
  rw [Bool.and_eq_true, List.all_eq_true, List.all_eq_true]
  constructor
  · intro g ha
    rw [beq_iff_eq, Bool.eq_iff_iff]
    simp only [List.contains_iff_mem, Bool.and_eq_true, Bool.not_eq_true', Bool.eq_false_iff, ne_eq,
      mem_pendingGens, mem_map_fst]
    constructor
    · rintro ⟨id, hm⟩
      exact ⟨fun ⟨t, ht⟩ => h.tabNF id g t hm ht, h.tabNC id g hm⟩
    · rintro ⟨hf, hc⟩
      exact h.pend g ha (fun t ht => hf ⟨t, ht⟩) hc
  · intro g hg
    obtain ⟨id, hm⟩ := mem_pendingGens.mp hg
    simpa using h.tabAcc id g hm

theorem Inv.tableLive {s : St} (h : Inv s) : tableLive s = true := by
  unfold Timers.tableLive
  rw [List.all_eq_true]
  rintro ⟨id, g⟩ hm
  obtain ⟨p, hp, hi, hw⟩ := h.live id g hm
  simp only [hp]
  simp [hi, hw]

theorem Inv.tableIdsDistinct {s : St} (h : Inv s) : tableIdsDistinct s = true := by
  unfold Timers.tableIdsDistinct
  rw [List.all_eq_true]
  intro e he
  have := filter_length_one (fun x : Tid × Gen => x.1) s.table h.ids e he
  simpa using this

/-! ## restart -/

def restartProcs (t : List (Tid × Gen)) (ps : List Proc) : List Proc :=
  (t.filterMap (fun (id, g) => (procOf g ps).map (fun p => (id, g, p.due)))).map
    (fun (id, g, due) => { gen := g, id := id, due := due, phase := .waiting })

theorem restart_procs (s : St) : (restart s).procs = restartProcs s.table s.procs := rfl

theorem restartProcs_cons {i : Tid} {g0 : Gen} {r : List (Tid × Gen)} {ps : List Proc} {p0 : Proc}
    (h : procOf g0 ps = some p0) :
    restartProcs ((i, g0) :: r) ps =
      { gen := g0, id := i, due := p0.due, phase := .waiting } :: restartProcs r ps := by
  simp [restartProcs, h]

theorem procOf_restartProcs {ps : List Proc} : ∀ (t : List (Tid × Gen)),
    (∀ id g, (id, g) ∈ t → ∃ p, procOf g ps = some p ∧ p.id = id) →
    ∀ {id : Tid} {g : Gen} {p : Proc}, (id, g) ∈ t → procOf g ps = some p →
      procOf g (restartProcs t ps) = some { gen := g, id := p.id, due := p.due, phase := .waiting }
  | [], _, _, _, _, hm, _ => by simp at hm
  | (i, g0) :: r, hall, id, g, p, hm, hp => by
    obtain ⟨p0, hp0, hi0⟩ := hall i g0 List.mem_cons_self
    rw [restartProcs_cons hp0]
    by_cases e : g0 = g
    · subst e
      rw [hp0] at hp; cases hp
      simp [procOf, hi0]
    · rw [procOf_cons_ne e]
      have hm' : (id, g) ∈ r := by
        rcases List.mem_cons.mp hm with h | h
        · cases h; exact absurd rfl e
        · exact h
      exact procOf_restartProcs r (fun id g h => hall id g (List.mem_cons_of_mem _ h)) hm' hp

end Timers
