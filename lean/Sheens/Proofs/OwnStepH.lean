import Sheens.Proofs.OwnStep

/-!
# `stepH`: one lemma with everything (C06)

`stepH` is cut into the action part (`actionH`) and the part after it (`finishH`), exactly as the
text of `stepH` reads (`stepH_eq` is `rfl`), and so is the pure `step` (`actionP`, `stepRest`).
-/

namespace Sheens.C06
open Own

/-! ## the pieces -/

/-- `e.Bs == nil: e.Bs = NewBindings()` -/
def ensureH (h1 : Heap) (exe : Option (Option Addr × List V)) : Heap × Addr × List V :=
  match exe with
  | none => let (hh, x) := h1.alloc []; (hh, x, [])
  | some (none, em) => let (hh, x) := h1.alloc []; (hh, x, em)
  | some (some b, em) => (h1, b, em)

/-- what follows from an action's error, heap level -/
def actionErrH (s : SpecH) (st : StateH) (stride0 : StrideH) (e : String) (emitted : List V)
    (h2 : Heap) : Heap × Sum StepOutH (Option Addr × List V) :=
  let (h3, b2) := copyH h2 st.bs
  let h4 := writeH (writeH h3 b2 "actionError" (.str e)) b2 "error" (.str e)
  if !s.actionErrorBranches then
    if s.actionErrorNode == "" then (h4, .inl { stride := none, err := some (.action e) })
    else
      let (h5, b3) := copyH h4 (some b2)
      (h5, .inl { stride := some { stride0 with emitted := emitted,
                                                 to := some { node := s.actionErrorNode, bs := some b3 } },
                  err := none })
  else (h4, .inr (some b2, emitted))

/-- the action of a node and what follows from its error, heap level -/
def actionH (s : SpecH) (st : StateH) (stride0 : StrideH) (a : Act) (h0 : Heap) :
    Heap × Sum StepOutH (Option Addr × List V) :=
  let (h1, out) := execWrapH a st.bs h0
  let (h2, ebs, emitted) := ensureH h1 out.exe
  match out.err with
  | none => (h2, .inr (some ebs, emitted))
  | some e => actionErrH s st stride0 e emitted h2

/-- branches, `To`, and the "no branch followed" error state, heap level -/
def finishH (st : StateH) (n : NodeH) (stride0 : StrideH) (bs : Option Addr) (emitted : List V)
    (pending : Option V) (h5 : Heap) : Heap × StepOutH :=
  match considerH n.branches bs pending h5 with
  | (h6, (to, consumed, err)) =>
    let (h7, to') : Heap × Option StateH :=
      match to with
      | none => (h6, none)
      | some t => let (hh, x) := copyH h6 t.bs; (hh, some { node := t.node, bs := some x })
    let stride1 : StrideH := { stride0 with emitted := emitted,
                                             consumed := if consumed then pending else none,
                                             to := to' }
    if to.isNone && n.action.isSome then
      let (h8, b) := copyH h7 bs
      let h9 := writeH (writeH (writeH h8 b "error" (.str "Action node followed no branch"))
                            b "lastNode" (.str st.node))
                      b "lastBindings" (.obj (copyB (content h8 st.bs)))
      (h9, { stride := some { stride1 with to := some { node := "error", bs := some b } }, err := err })
    else (h7, { stride := some stride1, err := err })

theorem stepH_eq (s : SpecH) (st : StateH) (pending : Option V) (h : Heap) :
    stepH s st pending h =
      if !s.compiled then (h, { stride := none, err := some .notCompiled }) else
      match findNodeH st.node s.nodes with
      | none => (h, { stride := none, err := some (.unknownNode st.node) })
      | some n =>
        if n.action.isNone && n.hasSource then (h, { stride := none, err := some (.uncompiledAction st.node) }) else
        if n.action.isSome && (match n.branches with | some b => b.type == "message" | none => false) then
          (h, { stride := none, err := some (.badBranching st.node) }) else
        let (h0, fa) := copyH h st.bs
        let stride0 : StrideH := { frm := { node := st.node, bs := some fa }, to := none, consumed := none, emitted := [] }
        match (match n.action with
               | none => (h0, .inr (st.bs, []))
               | some a => actionH s st stride0 a h0 : Heap × Sum StepOutH (Option Addr × List V)) with
        | (h5, .inl r) => (h5, r)
        | (h5, .inr (bs, emitted)) => finishH st n stride0 bs emitted pending h5 := rfl

/-- what follows from an action's error, pure -/
def actionErrP (s : Spec) (st : State) (e : String) (emitted : List V) : Sum StepOut (Option Bs × List V) :=
  let stride0 : Stride := { frm := stateCopy st, to := none, consumed := none, emitted := [] }
  let b2 := insertB "error" (.str e) (insertB "actionError" (.str e) (copyB st.bs))
  if !s.actionErrorBranches then
    if s.actionErrorNode == "" then .inl { stride := none, err := some (.action e) }
    else .inl { stride := some { stride0 with emitted := emitted,
                                                to := some { node := s.actionErrorNode, bs := some b2 } },
                err := none }
  else .inr (some b2, emitted)

/-- the action of a node and what follows from its error, pure -/
def actionP (s : Spec) (st : State) (a : ActionF) : Sum StepOut (Option Bs × List V) :=
  let out := execWrap a st.bs
  match out.err with
  | none => .inr (some (exeOut out.exe).1, (exeOut out.exe).2)
  | some e => actionErrP s st e (exeOut out.exe).2

theorem step_eq (s : Spec) (st : State) (pending : Option V) :
    step s st pending =
      if !s.compiled then { stride := none, err := some .notCompiled } else
      match findNode st.node s.nodes with
      | none => { stride := none, err := some (.unknownNode st.node) }
      | some n =>
        if n.action.isNone && n.hasSource then { stride := none, err := some (.uncompiledAction st.node) } else
        if n.action.isSome && (match n.branches with | some b => b.type == "message" | none => false) then
          { stride := none, err := some (.badBranching st.node) } else
        match (match n.action with
               | none => .inr (st.bs, [])
               | some a => actionP s st a : Sum StepOut (Option Bs × List V)) with
        | .inl r => r
        | .inr (bs, emitted) => stepRest st n bs emitted pending := rfl

/-! ## `Copy()` and `bs[k] = v` -/

theorem copyH_spec {h : Heap} (hi : Inv h) (oa : Option Addr) :
    Grows h (copyH h oa).1 ∧ (copyH h oa).2 = h.next ∧
    (copyH h oa).1.get h.next = some (copyB (content h oa)) ∧ (copyH h oa).1.next = h.next + 1 :=
  ⟨Grows.alloc hi (nodup_copyB_content hi oa), rfl, get_alloc_self _ _, rfl⟩

theorem writeH_spec {base h : Heap} (hg : Grows base h) {a : Addr} (h1 : base.next ≤ a) {c : Bs}
    (hget : h.get a = some c) (k : String) (v : V) :
    Grows base (writeH h a k v) ∧ (writeH h a k v).get a = some (insertB k v c) ∧
    (writeH h a k v).next = h.next := by
  unfold writeH
  rw [hget]
  exact ⟨Grows.set_fresh hg h1 (get_lt hg.inv.1 hget) (nodup_insertB (clean_get hg.inv.2 hget)),
    get_set_self _ _ _, rfl⟩

theorem alloc_of_get {h : Heap} (hi : Inv h) {a : Addr} {c : Bs} (hget : h.get a = some c) : Alloc h a :=
  ⟨get_lt hi.1 hget, by rw [hget]; rfl⟩

/-! ## `finishH` -/

theorem finishH_spec (st : StateH) (n : NodeH)
    (hn : ∀ br, n.branches = some br → ∀ x ∈ br.branches, ∀ g, x.guard = some g → ActOk g)
    (stride0 : StrideH) (fa : Addr) (hfrm : stride0.frm = { node := st.node, bs := some fa })
    {h5 : Heap} (hi : Inv h5) {bs : Option Addr} (hbs : OptAlloc h5 bs) (hst : OptAlloc h5 st.bs)
    (hfa : h5.get fa = some (copyB (content h5 st.bs))) (emitted : List V) (pending : Option V)
    {h' : Heap} {o : StepOutH} (hr : finishH st n stride0 bs emitted pending h5 = (h', o)) :
    Grows h5 h' ∧
    o.abs h' = stepRest (st.abs h5) n.abs (content h5 bs) emitted pending ∧
    (∀ sd, o.stride = some sd → sd.frm = stride0.frm ∧
       ∀ t, sd.to = some t → ∃ b, t.bs = some b ∧ h5.next ≤ b ∧ Alloc h' b) := by
  unfold finishH at hr
  cases hco : considerH n.branches bs pending h5 with
  | mk h6 r6 =>
  obtain ⟨to, consumed, err⟩ := r6
  obtain ⟨g1, halto, hab⟩ := considerH_spec n.branches hn hi hbs hco
  rw [hco] at hr
  simp only at hr
  have hfa5 : fa < h5.next := get_lt hi.1 hfa
  have hfrmabs : ∀ {hx : Heap}, Grows h5 hx → stride0.frm.abs hx = stateCopy (st.abs h5) := by
    intro hx gx
    rw [hfrm]
    simp only [StateH.abs, stateCopy, content_some]
    rw [gx.same fa hfa5, hfa]
  have hpure : stepRest (st.abs h5) n.abs (content h5 bs) emitted pending =
      (if (to.map (StateH.abs h6)).isNone && n.action.isSome then
        { stride := some { frm := stateCopy (st.abs h5),
                           to := some { node := "error", bs := some (noBranchBs (st.abs h5) (content h5 bs)) },
                           consumed := if consumed then pending else none, emitted := emitted },
          err := err }
      else
        { stride := some { frm := stateCopy (st.abs h5), to := (to.map (StateH.abs h6)).map stateCopy,
                           consumed := if consumed then pending else none, emitted := emitted },
          err := err }) := by
    unfold stepRest
    have : (n.abs).branches = n.branches.map BranchesH.abs := rfl
    rw [this, ← hab]
    simp only [NodeH.abs, Option.isSome_map]
  rw [hpure]
  cases to with
  | some t =>
    simp only [Option.isNone_some, Bool.false_and, Bool.false_eq_true, if_false, Option.map_some] at hr ⊢
    obtain ⟨g2, hx, hgx, hnx⟩ := copyH_spec g1.inv t.bs
    generalize copyH h6 t.bs = q at hr g2 hx hgx hnx
    obtain ⟨h7, x⟩ := q
    simp only at hr g2 hx hgx hnx
    subst hx
    cases hr
    have g := g1.trans g2
    refine ⟨g, ?_, ?_⟩
    · simp only [StepOutH.abs, StrideH.abs, Option.map_some]
      rw [hfrmabs g]
      simp only [StateH.abs, stateCopy, content_some, hgx]
    · intro sd hsd
      cases hsd
      refine ⟨rfl, ?_⟩
      intro t' ht'
      cases ht'
      exact ⟨_, rfl, g1.mono, alloc_of_get g.inv hgx⟩
  | none =>
    simp only [Option.isNone_none, Bool.true_and, Option.map_none] at hr ⊢
    cases hact : n.action.isSome with
    | false =>
      simp only [hact, Bool.false_eq_true, if_false] at hr ⊢
      cases hr
      refine ⟨g1, ?_, ?_⟩
      · simp only [StepOutH.abs, StrideH.abs, Option.map_some, Option.map_none]
        rw [hfrmabs g1]
      · intro sd hsd
        cases hsd
        exact ⟨rfl, fun t' ht' => by cases ht'⟩
    | true =>
      simp only [hact, if_true] at hr ⊢
      obtain ⟨g2, hx, hgx, hnx⟩ := copyH_spec g1.inv bs
      generalize copyH h6 bs = q at hr g2 hx hgx hnx
      obtain ⟨h8, b⟩ := q
      simp only at hr g2 hx hgx hnx
      subst hx
      cases hr
      obtain ⟨g3, hg3, _⟩ := writeH_spec g2 (Nat.le_refl _) hgx "error" (.str "Action node followed no branch")
      obtain ⟨g4, hg4, _⟩ := writeH_spec g3 (Nat.le_refl _) hg3 "lastNode" (.str st.node)
      obtain ⟨g5, hg5, _⟩ := writeH_spec g4 (Nat.le_refl _) hg4 "lastBindings"
        (.obj (copyB (content h8 st.bs)))
      have g := g1.trans g5
      refine ⟨g, ?_, ?_⟩
      · simp only [StepOutH.abs, StrideH.abs, Option.map_some]
        rw [hfrmabs g]
        simp only [StateH.abs, content_some, hg5]
        rw [(g1.trans g2).content hst, g1.content hbs]
        rfl
      · intro sd hsd
        cases hsd
        refine ⟨rfl, ?_⟩
        intro t' ht'
        cases ht'
        exact ⟨_, rfl, g1.mono, alloc_of_get g.inv hg5⟩

/-! ## the action part -/

/-- the pure reading of an execution -/
def absExe (h : Heap) (exe : Option (Option Addr × List V)) : Option (Option Bs × List V) :=
  exe.map (fun p => (content h p.1, p.2))

theorem ensureH_spec {h1 : Heap} (hi : Inv h1) {exe : Option (Option Addr × List V)}
    (hal : ∀ x em, exe = some (some x, em) → Alloc h1 x) :
    Grows h1 (ensureH h1 exe).1 ∧
    (ensureH h1 exe).1.get (ensureH h1 exe).2.1 = some (exeOut (absExe h1 exe)).1 ∧
    (ensureH h1 exe).2.2 = (exeOut (absExe h1 exe)).2 := by
  rcases exe with _ | ⟨_ | b, em⟩
  · exact ⟨Grows.alloc hi List.Pairwise.nil, get_alloc_self _ _, rfl⟩
  · exact ⟨Grows.alloc hi List.Pairwise.nil, get_alloc_self _ _, rfl⟩
  · have hb := hal b em rfl
    refine ⟨Grows.refl hi, ?_⟩
    simp only [ensureH, absExe, Option.map_some, content_some]
    rw [hb.get_eq]
    exact ⟨rfl, rfl⟩

/-- the pure reading of what the action part hands on -/
def absAfter (h : Heap) : Sum StepOutH (Option Addr × List V) → Sum StepOut (Option Bs × List V)
  | .inl o => .inl (o.abs h)
  | .inr (bs, em) => .inr (content h bs, em)

theorem actionErrH_spec (s : SpecH) (st : StateH) (stride0 : StrideH) (fa : Addr)
    (hfrm : stride0 = { frm := { node := st.node, bs := some fa }, to := none, consumed := none, emitted := [] })
    (e : String) (emitted : List V) {h2 : Heap} (hi : Inv h2)
    (hfa : h2.get fa = some (copyB (content h2 st.bs)))
    {h5 : Heap} {res : Sum StepOutH (Option Addr × List V)}
    (hr : actionErrH s st stride0 e emitted h2 = (h5, res)) :
    Grows h2 h5 ∧ absAfter h5 res = actionErrP s.abs (st.abs h2) e emitted ∧
    (∀ bs em, res = .inr (bs, em) → OptAlloc h5 bs) ∧
    (∀ o sd, res = .inl o → o.stride = some sd → sd.frm = stride0.frm ∧
       ∀ t, sd.to = some t → ∃ b, t.bs = some b ∧ h2.next ≤ b ∧ Alloc h5 b) := by
  unfold actionErrH at hr
  unfold actionErrP
  have hfa2 : fa < h2.next := get_lt hi.1 hfa
  obtain ⟨g2, hx, hgx, hnx⟩ := copyH_spec hi st.bs
  generalize copyH h2 st.bs = q at hr g2 hx hgx hnx
  obtain ⟨h3, b2⟩ := q
  simp only at hr g2 hx hgx hnx
  subst hx
  obtain ⟨g3, hg3, hn3⟩ := writeH_spec g2 (Nat.le_refl _) hgx "actionError" (.str e)
  obtain ⟨g4, hg4, hn4⟩ := writeH_spec g3 (Nat.le_refl _) hg3 "error" (.str e)
  generalize hh4 : writeH (writeH h3 h2.next "actionError" (V.str e)) h2.next "error" (V.str e) = h4
    at hr g4 hg4 hn4
  have hb2 : Alloc h4 h2.next := alloc_of_get g4.inv hg4
  simp only [SpecH.abs, StateH.abs]
  rcases Bool.eq_false_or_eq_true s.actionErrorBranches with hb | hb
  · simp only [hb, Bool.not_true, Bool.false_eq_true, if_false] at hr ⊢
    cases hr
    refine ⟨g4, ?_, ?_, ?_⟩
    · simp only [absAfter, content_some, hg4]
    · intro bs em hbe
      cases hbe
      exact optAlloc_some hb2
    · intro o sd ho
      cases ho
  · simp only [hb, Bool.not_false, if_true] at hr ⊢
    rcases Bool.eq_false_or_eq_true (s.actionErrorNode == "") with hn | hn
    · simp only [hn, if_true] at hr ⊢
      cases hr
      refine ⟨g4, rfl, ?_, ?_⟩
      · intro bs em hbe
        cases hbe
      · intro o sd ho hsd
        cases ho
        cases hsd
    · simp only [hn, Bool.false_eq_true, if_false] at hr ⊢
      obtain ⟨g5, hx5, hgx5, hnx5⟩ := copyH_spec g4.inv (some h2.next)
      generalize copyH h4 (some h2.next) = q at hr g5 hx5 hgx5 hnx5
      obtain ⟨h5', b3⟩ := q
      simp only at hr g5 hx5 hgx5 hnx5
      subst hx5
      cases hr
      have g := g4.trans g5
      refine ⟨g, ?_, ?_, ?_⟩
      · simp only [absAfter, StepOutH.abs, StrideH.abs, Option.map_some, hfrm, StateH.abs, content_some,
          hgx5, hg4, g.same fa hfa2, hfa, stateCopy, copyB]
      · intro bs em hbe
        cases hbe
      · intro o sd ho hsd
        cases ho
        cases hsd
        refine ⟨rfl, ?_⟩
        intro t ht
        cases ht
        refine ⟨_, rfl, ?_, alloc_of_get g.inv hgx5⟩
        rw [← hh4] at hn4 ⊢
        rw [hn4, hn3, hnx]
        exact Nat.le_succ _

theorem actionH_spec (s : SpecH) (st : StateH) (stride0 : StrideH) (fa : Addr)
    (hfrm : stride0 = { frm := { node := st.node, bs := some fa }, to := none, consumed := none, emitted := [] })
    {a : Act} (ha : ActOk a) {h0 : Heap} (hi : Inv h0) (hst : OptAlloc h0 st.bs)
    (hfa : h0.get fa = some (copyB (content h0 st.bs)))
    {h5 : Heap} {res : Sum StepOutH (Option Addr × List V)}
    (hr : actionH s st stride0 a h0 = (h5, res)) :
    Grows h0 h5 ∧ absAfter h5 res = actionP s.abs (st.abs h0) a.pure ∧
    (∀ bs em, res = .inr (bs, em) → OptAlloc h5 bs) ∧
    (∀ o sd, res = .inl o → o.stride = some sd → sd.frm = stride0.frm ∧
       ∀ t, sd.to = some t → ∃ b, t.bs = some b ∧ h0.next ≤ b ∧ Alloc h5 b) := by
  unfold actionH at hr
  unfold actionP
  have hfa0 : fa < h0.next := get_lt hi.1 hfa
  cases hw : execWrapH a st.bs h0 with
  | mk h1 out =>
  obtain ⟨g1, hal, hab⟩ := execWrapH_spec ha hi hst hw
  rw [hw] at hr
  simp only at hr
  obtain ⟨g2, hge, hem⟩ := ensureH_spec g1.inv hal
  generalize ensureH h1 out.exe = q at hr g2 hge hem
  obtain ⟨h2, ebs, emitted⟩ := q
  simp only at hr g2 hge hem
  have g02 := g1.trans g2
  have hexe : absExe h1 out.exe = (execWrap a.pure (content h0 st.bs)).exe := by rw [← hab]; rfl
  have herr : out.err = (execWrap a.pure (content h0 st.bs)).err := by rw [← hab]; rfl
  simp only [StateH.abs]
  rw [← hexe, ← herr]
  rcases he : out.err with _ | e
  · simp only [he] at hr ⊢
    cases hr
    refine ⟨g02, ?_, ?_, ?_⟩
    · simp only [absAfter, content_some, hge, hem]
    · intro bs em hbe
      cases hbe
      exact optAlloc_some (alloc_of_get g2.inv hge)
    · intro o sd ho
      cases ho
  · simp only [he] at hr ⊢
    have hfa2 : h2.get fa = some (copyB (content h2 st.bs)) := by
      rw [g02.same fa hfa0, hfa, g02.content hst]
    obtain ⟨g3, hab3, hinr, hinl⟩ :=
      actionErrH_spec s st stride0 fa hfrm e emitted g02.inv hfa2 hr
    refine ⟨g02.trans g3, ?_, hinr, ?_⟩
    · rw [hab3, hem]
      simp only [StateH.abs, g02.content hst]
    · intro o sd ho hsd
      obtain ⟨h1', h2'⟩ := hinl o sd ho hsd
      refine ⟨h1', ?_⟩
      intro t ht
      obtain ⟨b, hb1, hb2, hb3⟩ := h2' t ht
      exact ⟨b, hb1, Nat.le_trans g02.mono hb2, hb3⟩

/-! ## `stepH` -/

theorem findNodeH_mem {k : String} : ∀ {l : List (String × NodeH)} {n : NodeH},
    findNodeH k l = some n → ∃ k', (k', n) ∈ l := by
  intro l
  induction l with
  | nil => intro n h; cases h
  | cons kn rest ih =>
    intro n h
    obtain ⟨k', n'⟩ := kn
    simp only [findNodeH] at h
    split at h
    · cases h; exact ⟨k', List.mem_cons_self⟩
    · obtain ⟨k'', hk⟩ := ih h
      exact ⟨k'', List.mem_cons_of_mem _ hk⟩

theorem findNode_abs (k : String) (l : List (String × NodeH)) :
    findNode k (l.map (fun kn => (kn.1, kn.2.abs))) = (findNodeH k l).map NodeH.abs := by
  induction l with
  | nil => rfl
  | cons kn rest ih =>
    obtain ⟨k', n'⟩ := kn
    simp only [List.map_cons, findNode, findNodeH]
    split
    · rfl
    · exact ih

theorem node_ok {s : SpecH} (hs : s.Good) (hk : KeepsClean s) {k : String} {n : NodeH}
    (hn : findNodeH k s.nodes = some n) :
    (∀ a, n.action = some a → ActOk a) ∧
    (∀ br, n.branches = some br → ∀ x ∈ br.branches, ∀ g, x.guard = some g → ActOk g) := by
  obtain ⟨k', hmem⟩ := findNodeH_mem hn
  obtain ⟨hs1, hs2⟩ := hs (k', n) hmem
  obtain ⟨hk1, hk2⟩ := hk (k', n) hmem
  exact ⟨fun a ha => ⟨hs1 a ha, hk1 a ha⟩,
    fun br hbr x hx g hg => ⟨hs2 br hbr x hx g hg, hk2 br hbr x hx g hg⟩⟩

/-- everything about one `Spec.Step` at heap level -/
theorem stepH_spec (s : SpecH) (hs : s.Good) (hk : KeepsClean s) (st : StateH) (pending : Option V)
    {h : Heap} (hi : Inv h) (hst : OptAlloc h st.bs) {h' : Heap} {o : StepOutH}
    (hr : stepH s st pending h = (h', o)) :
    Grows h h' ∧ o.abs h' = step s.abs (st.abs h) pending ∧
    (∀ sd, o.stride = some sd → sd.frm.bs = some h.next ∧ Alloc h' h.next ∧
       ∀ t, sd.to = some t → ∃ b, t.bs = some b ∧ h.next < b ∧ Alloc h' b) := by
  rw [stepH_eq] at hr
  rw [step_eq]
  have hc : s.abs.compiled = s.compiled := rfl
  have hfn : findNode (st.abs h).node s.abs.nodes = (findNodeH st.node s.nodes).map NodeH.abs :=
    findNode_abs _ _
  rw [hc, hfn]
  rcases Bool.eq_false_or_eq_true s.compiled with hcomp | hcomp
  case inr =>
    simp only [hcomp, Bool.not_false, if_true] at hr ⊢
    cases hr
    exact ⟨Grows.refl hi, rfl, fun sd hsd => by cases hsd⟩
  simp only [hcomp, Bool.not_true, Bool.false_eq_true, if_false] at hr ⊢
  cases hnode : findNodeH st.node s.nodes with
  | none =>
    simp only [hnode, Option.map_none] at hr ⊢
    cases hr
    exact ⟨Grows.refl hi, rfl, fun sd hsd => by cases hsd⟩
  | some n =>
  obtain ⟨hact, hgd⟩ := node_ok hs hk hnode
  simp only [hnode, Option.map_some] at hr ⊢
  have e1 : n.abs.action.isNone = n.action.isNone := by simp only [NodeH.abs, Option.isNone_map]
  have e2 : n.abs.action.isSome = n.action.isSome := by simp only [NodeH.abs, Option.isSome_map]
  have e3 : (match n.abs.branches with | some b => b.type == "message" | none => false) =
      (match n.branches with | some b => b.type == "message" | none => false) := by
    simp only [NodeH.abs]
    cases n.branches <;> rfl
  have e4 : n.abs.hasSource = n.hasSource := rfl
  rw [e1, e2, e3, e4]
  rcases Bool.eq_false_or_eq_true (n.action.isNone && n.hasSource) with hc1 | hc1
  case inl =>
    simp only [hc1, if_true] at hr ⊢
    cases hr
    exact ⟨Grows.refl hi, rfl, fun sd hsd => by cases hsd⟩
  simp only [hc1, Bool.false_eq_true, if_false] at hr ⊢
  rcases Bool.eq_false_or_eq_true
    (n.action.isSome && (match n.branches with | some b => b.type == "message" | none => false))
    with hc2 | hc2
  case inl =>
    simp only [hc2, if_true] at hr ⊢
    cases hr
    exact ⟨Grows.refl hi, rfl, fun sd hsd => by cases hsd⟩
  simp only [hc2, Bool.false_eq_true, if_false] at hr ⊢
  -- stride.From = st.Copy()
  obtain ⟨g0, hx0, hgx0, hnx0⟩ := copyH_spec hi st.bs
  generalize copyH h st.bs = q at hr g0 hx0 hgx0 hnx0
  obtain ⟨h0, fa⟩ := q
  simp only at hr g0 hx0 hgx0 hnx0
  subst hx0
  have hst0 : OptAlloc h0 st.bs := g0.optAlloc hst
  have hc0 : content h0 st.bs = content h st.bs := g0.content hst
  have hfa0 : h0.get h.next = some (copyB (content h0 st.bs)) := by rw [hc0]; exact hgx0
  have hfaA : Alloc h0 h.next := alloc_of_get g0.inv hgx0
  have hstabs : st.abs h0 = st.abs h := by simp only [StateH.abs, hc0]
  have hlt : h.next < h0.next := by rw [hnx0]; exact Nat.lt_succ_self _
  cases hna : n.action with
  | none =>
    have : n.abs.action = none := by simp only [NodeH.abs, hna, Option.map_none]
    simp only [hna, this] at hr ⊢
    obtain ⟨g1, hab, hfr⟩ := finishH_spec st n hgd _ h.next rfl g0.inv hst0 hst0 hfa0 [] pending hr
    refine ⟨g0.trans g1, ?_, ?_⟩
    · rw [hab, hstabs, hc0]
      rfl
    · intro sd hsd
      obtain ⟨f1, f2⟩ := hfr sd hsd
      refine ⟨by rw [f1], g1.alloc_of hfaA, ?_⟩
      intro t ht
      obtain ⟨b, hb1, hb2, hb3⟩ := f2 t ht
      exact ⟨b, hb1, Nat.lt_of_lt_of_le hlt hb2, hb3⟩
  | some a =>
    have : n.abs.action = some a.pure := by simp only [NodeH.abs, hna, Option.map_some]
    simp only [hna, this] at hr ⊢
    cases hah : actionH s st
        { frm := { node := st.node, bs := some h.next }, to := none, consumed := none, emitted := [] }
        a h0 with
    | mk h5 res =>
    obtain ⟨g1, hab1, hinr, hinl⟩ := actionH_spec s st _ h.next rfl (hact a hna) g0.inv hst0 hfa0 hah
    rw [hah] at hr
    rw [hstabs] at hab1
    rw [← hab1]
    cases res with
    | inl r =>
      simp only [absAfter] at hr ⊢
      cases hr
      refine ⟨g0.trans g1, rfl, ?_⟩
      intro sd hsd
      obtain ⟨f1, f2⟩ := hinl _ sd rfl hsd
      refine ⟨by rw [f1], g1.alloc_of hfaA, ?_⟩
      intro t ht
      obtain ⟨b, hb1, hb2, hb3⟩ := f2 t ht
      exact ⟨b, hb1, Nat.lt_of_lt_of_le hlt hb2, hb3⟩
    | inr p =>
      obtain ⟨bs, em⟩ := p
      simp only [absAfter] at hr ⊢
      have g01 := g0.trans g1
      have hst5 : OptAlloc h5 st.bs := g01.optAlloc hst
      have hc5 : content h5 st.bs = content h st.bs := g01.content hst
      have hfa5 : h5.get h.next = some (copyB (content h5 st.bs)) := by
        rw [g1.same _ hlt, hc5]; exact hgx0
      obtain ⟨g2, hab, hfr⟩ :=
        finishH_spec st n hgd _ h.next rfl g1.inv (hinr bs em rfl) hst5 hfa5 em pending hr
      refine ⟨g01.trans g2, ?_, ?_⟩
      · rw [hab]
        simp only [StateH.abs, hc5]
      · intro sd hsd
        obtain ⟨f1, f2⟩ := hfr sd hsd
        refine ⟨by rw [f1], g2.alloc_of (g1.alloc_of hfaA), ?_⟩
        intro t ht
        obtain ⟨b, hb1, hb2, hb3⟩ := f2 t ht
        exact ⟨b, hb1, Nat.lt_of_lt_of_le hlt (Nat.le_trans g1.mono hb2), hb3⟩

/-- `stepH_spec` about the two components of the result -/
theorem stepH_spec' (s : SpecH) (hs : s.Good) (hk : KeepsClean s) (st : StateH) (pending : Option V)
    {h : Heap} (hi : Inv h) (hst : OptAlloc h st.bs) :
    Grows h (stepH s st pending h).1 ∧
    (stepH s st pending h).2.abs (stepH s st pending h).1 = step s.abs (st.abs h) pending ∧
    (∀ sd, (stepH s st pending h).2.stride = some sd →
       sd.frm.bs = some h.next ∧ Alloc (stepH s st pending h).1 h.next ∧
       ∀ t, sd.to = some t → ∃ b, t.bs = some b ∧ h.next < b ∧ Alloc (stepH s st pending h).1 b) :=
  stepH_spec s hs hk st pending hi hst rfl

end Sheens.C06
