import Sheens.Oracle

/-!
# The executable oracle `satB` is sound for `Sat`

Simultaneous induction on the fuel for `satB/objSatB/arrEmbB`; each arm of `satB` is one
constructor of `Sat`.
-/

namespace Sheens.Total

theorem picks_pick {α : Type} : ∀ (l : List α) (x : α) (rest : List α),
    (x, rest) ∈ picks l → Pick x l rest := by
  intro l
  induction l with
  | nil => intro x rest h; simp [picks] at h
  | cons y ys ih =>
    intro x rest h
    simp only [picks, List.mem_cons, List.mem_map] at h
    rcases h with h | ⟨⟨z, zs⟩, hm, he⟩
    · cases h; exact Pick.here
    · cases he; exact Pick.there (ih _ _ hm)

section
variable (bs₀ r : Bs)

def SatS (n : Nat) : Prop := ∀ p f, satB n bs₀ r p f = true → Sat bs₀ r p f
def ObjS (n : Nat) : Prop := ∀ pm fm, objSatB n bs₀ r pm fm = true → ObjSat bs₀ r pm fm
def ArrS (n : Nat) : Prop := ∀ ps fs, arrEmbB n bs₀ r ps fs = true → ArrEmb bs₀ r ps fs
end

variable {bs₀ r : Bs}

theorem objS_step {n} (ihS : SatS bs₀ r n) (ihO : ObjS bs₀ r n) : ObjS bs₀ r (n+1) := by
  intro pm fm h
  cases pm with
  | nil => exact ObjSat.nil
  | cons kv rest =>
    obtain ⟨k, pv⟩ := kv
    simp only [objSatB, Bool.and_eq_true, Bool.not_eq_true'] at h
    obtain ⟨⟨hk, hm⟩, hr⟩ := h
    cases hl : lookup k fm with
    | none => rw [hl] at hm; exact ObjSat.absent hk hl hm (ihO _ _ hr)
    | some fv => rw [hl] at hm; exact ObjSat.present hk hl (ihS _ _ hm) (ihO _ _ hr)

theorem arrS_step {n} (ihS : SatS bs₀ r n) (ihA : ArrS bs₀ r n) : ArrS bs₀ r (n+1) := by
  intro ps fs h
  cases ps with
  | nil => exact ArrEmb.nil
  | cons p ps =>
    simp only [arrEmbB, Bool.or_eq_true, List.any_eq_true, Bool.and_eq_true] at h
    rcases h with ⟨⟨f, fs'⟩, hm, h1, h2⟩ | ⟨ho, h2⟩
    · exact ArrEmb.cons (picks_pick _ _ _ hm) (ihS _ _ h1) (ihA _ _ h2)
    · exact ArrEmb.skip ho (ihA _ _ h2)

theorem satS_str {n} (ihS : SatS bs₀ r n) (s : String) (f : V)
    (h : satB (n+1) bs₀ r (.str s) f = true) : Sat bs₀ r (.str s) f := by
  simp only [satB] at h
  split at h
  · next hv =>
    split at h
    · next t =>
      have : s = t := by simpa using h
      subst this
      exact Sat.scalar (by simpa [isScalarConst] using hv) rfl
    · cases h
  · next hv =>
    have hv' : isVar s = true := by simpa using hv
    split at h
    · next ha =>
      have : s = "?" := by simpa [isAnon] using ha
      subst this; exact Sat.anon
    · split at h
      · split at h
        · next op base bv a hio hlb hf =>
          split at h
          · next b cv hb hc =>
            simp only [Bool.and_eq_true, beq_iff_eq] at h
            exact Sat.ineq hio hlb hb hf h.1 hc h.2
          · cases h
        · cases h
      · next hi =>
        split at h
        · next b hl => exact Sat.var hv' (by simpa using hi) hl (ihS _ _ h)
        · cases h

theorem satS_obj {n} (ihS : SatS bs₀ r n) (ihO : ObjS bs₀ r n) (pm : List (String × V)) (f : V)
    (h : satB (n+1) bs₀ r (.obj pm) f = true) : Sat bs₀ r (.obj pm) f := by
  simp only [satB] at h
  split at h
  · next fm =>
    split at h
    · exact Sat.objEmpty
    · next k pv =>
      split at h
      · next hk =>
        simp only [List.any_eq_true, Bool.and_eq_true] at h
        obtain ⟨⟨fk, fv⟩, hm, h1, h2⟩ := h
        exact Sat.objProp hk hm (ihS _ _ h1) (ihS _ _ h2)
      · exact Sat.obj (ihO _ _ h)
    · exact Sat.obj (ihO _ _ h)
  · cases h

theorem satS_step {n} (ihS : SatS bs₀ r n) (ihO : ObjS bs₀ r n) (ihA : ArrS bs₀ r n) :
    SatS bs₀ r (n+1) := by
  intro p f h
  cases p with
  | null =>
    simp only [satB] at h
    split at h
    · exact Sat.scalar rfl rfl
    · cases h
  | bool a =>
    simp only [satB] at h
    split at h
    · next b => have : a = b := by simpa using h
                subst this; exact Sat.scalar rfl rfl
    · cases h
  | num a =>
    simp only [satB] at h
    split at h
    · next b => have : a = b := by simpa using h
                subst this; exact Sat.scalar rfl rfl
    · cases h
  | str s => exact satS_str ihS s f h
  | obj pm => exact satS_obj ihS ihO pm f h
  | arr ps =>
    simp only [satB] at h
    split at h
    · exact Sat.arr (ihA _ _ h)
    · cases h
  | int i => simp [satB] at h
  | bobj kvs => simp [satB] at h
  | other t => simp [satB] at h

theorem oracle_all (bs₀ r : Bs) : ∀ n, SatS bs₀ r n ∧ ObjS bs₀ r n ∧ ArrS bs₀ r n := by
  intro n
  induction n with
  | zero =>
    refine ⟨?_, ?_, ?_⟩
    · intro p f h; simp [satB] at h
    · intro pm fm h; simp [objSatB] at h
    · intro ps fs h; simp [arrEmbB] at h
  | succ n ih =>
    obtain ⟨ihS, ihO, ihA⟩ := ih
    exact ⟨satS_step ihS ihO ihA, objS_step ihS ihO, arrS_step ihS ihA⟩

end Sheens.Total
