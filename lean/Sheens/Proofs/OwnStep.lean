import Sheens.Proofs.OwnHeap

/-!
# One invariant lemma per function of the ownership layer (C06)

For each of `execWrapH`, `guardLoopH`, `candidatesH`, `tryBranchH`, `tryAllH`, `considerH`: run on a
well-formed clean heap with arguments that exist, the resulting heap `Grows` out of the given one,
every address in the result exists, and the pure reading of the result is the pure function
(`Engine.lean`) on the pure reading of the arguments.
-/

namespace Sheens.C06
open Own

/-- an action or guard that keeps the contract and hands back clean heaps -/
structure ActOk (a : Act) : Prop where
  resp  : Respects a
  clean : ∀ h arg, Clean h → Clean (a.run h arg).1

theorem optAlloc_lt {h : Heap} {arg : Option Addr} (harg : OptAlloc h arg) :
    ∀ x, arg = some x → x < h.next := fun x hx => (harg x hx).1

theorem run_grows {a : Act} (ha : ActOk a) {h : Heap} (hi : Inv h) {arg : Option Addr}
    (harg : OptAlloc h arg) : Grows h (a.run h arg).1 :=
  ⟨⟨ha.resp.wf h arg hi.1 (optAlloc_lt harg), ha.clean h arg hi.2⟩, ha.resp.mono h arg,
   fun x hx => ha.resp.frame h arg x hx⟩

theorem Grows.contents {h h' : Heap} (hg : Grows h h') {cs : List Addr} (hcs : ∀ c ∈ cs, Alloc h c) :
    contents h' cs = contents h cs := by
  unfold C06.contents
  apply List.map_congr_left
  intro c hc
  rw [hg.same c (hcs c hc).1]

/-! ## `execWrapH` -/

theorem execWrapH_spec {a : Act} (ha : ActOk a) {h : Heap} (hi : Inv h) {arg : Option Addr}
    (harg : OptAlloc h arg) {h' : Heap} {o : ExecOutH} (hr : execWrapH a arg h = (h', o)) :
    Grows h h' ∧ (∀ x em, o.exe = some (some x, em) → Alloc h' x) ∧
    absOut h' o = execWrap a.pure (content h arg) := by
  have g1 := run_grows ha hi harg
  have hres := ha.resp.result h arg
  have href := ha.resp.refines h arg hi.1 (optAlloc_lt harg)
  unfold execWrapH at hr
  generalize hrun : a.run h arg = p at hr g1 hres href
  obtain ⟨h1, out⟩ := p
  simp only at hr g1 hres href
  unfold execWrap
  simp only
  rw [← href]
  rcases hx : out.exe with _ | ⟨_ | r, em⟩
  · simp only [hx] at hr
    cases hr
    refine ⟨g1, fun x em h => (by cases h), ?_⟩
    simp only [absOut, hx, Option.map, content, Option.bind]
  · simp only [hx] at hr
    cases hr
    refine ⟨g1, fun x em h => (by cases h), ?_⟩
    simp only [absOut, hx, Option.map, content, Option.bind]
  · simp only [hx] at hr
    cases hr
    obtain ⟨hor, hlt, hsome⟩ := hres r em hi.1 harg hx
    have hal : Alloc h1 r := ⟨hlt, hsome⟩
    have hget := hal.get_eq
    generalize (h1.get r).getD [] = c at hget
    have hndc : NoDupKeys c := clean_get g1.inv.2 hget
    have g2 : Grows h (restoreH h1 r (permanentOf (copyB (content h arg)))) := by
      unfold restoreH
      rw [hget]
      simp only [Option.getD]
      rcases hor with hor | hor
      · -- the action handed back the map it was given
        subst hor
        have hlt0 : r < h.next := (harg r rfl).1
        have hc0 : h.get r = some c := by rw [← g1.same r hlt0]; exact hget
        simp only [content, Option.bind, hc0, copyB]
        rw [restore_permanentOf_self hndc]
        exact g1.trans (Grows.set_same g1.inv hget)
      · exact Grows.set_fresh g1 hor hlt (nodup_restore hndc)
    refine ⟨g2, ?_, ?_⟩
    · intro x em' hxe
      cases hxe
      refine ⟨Nat.lt_of_lt_of_le hlt (by unfold restoreH; exact Nat.le_refl _), ?_⟩
      unfold restoreH
      rw [get_set_self]
      rfl
    · simp only [absOut, hx, Option.map, content, Option.bind, hget]
      unfold restoreH
      rw [get_set_self, hget]
      rfl

/-- the part of the result that the callers look at -/
theorem absOut_err (h : Heap) (o : ExecOutH) : (absOut h o).err = o.err := rfl

theorem absOut_exe_none {h : Heap} {o : ExecOutH} (hx : o.exe = none) : (absOut h o).exe = none := by
  simp only [absOut, hx, Option.map]

theorem absOut_exe_nil {h : Heap} {o : ExecOutH} {em : List V} (hx : o.exe = some (none, em)) :
    (absOut h o).exe = some (none, em) := by
  simp only [absOut, hx, Option.map, content, Option.bind]

theorem absOut_exe_some {h : Heap} {o : ExecOutH} {r : Addr} {em : List V}
    (hx : o.exe = some (some r, em)) (hal : Alloc h r) :
    (absOut h o).exe = some (some ((h.get r).getD []), em) := by
  simp only [absOut, hx, Option.map, content, Option.bind]
  rw [← hal.get_eq]

/-! ## `guardLoopH` -/

/-- the pure reading of a chosen map -/
def absChoice (h : Heap) : Except StepErr (Option Addr) → Except StepErr (Option Bs)
  | .error e => .error e
  | .ok oa => .ok (content h oa)

theorem guardLoopH_spec {g : Act} (hg : ActOk g) : ∀ (cs : List Addr) {h : Heap}, Inv h →
    (∀ c ∈ cs, Alloc h c) → ∀ {h' : Heap} {r : Except StepErr (Option Addr)},
    guardLoopH g cs h = (h', r) →
    Grows h h' ∧ (∀ x, r = .ok (some x) → Alloc h' x) ∧
    absChoice h' r = guardLoop g.pure (contents h cs) := by
  intro cs
  induction cs with
  | nil =>
    intro h hi _ h' r hr
    simp only [guardLoopH] at hr
    cases hr
    exact ⟨Grows.refl hi, fun x hx => (by cases hx), rfl⟩
  | cons c cs ih =>
    intro h hi hcs h' r hr
    have hc := hcs c List.mem_cons_self
    simp only [guardLoopH] at hr
    cases hw : execWrapH g (some c) h with
    | mk h1 out =>
    rw [hw] at hr
    simp only at hr
    obtain ⟨g1, hal, hab⟩ := execWrapH_spec hg hi (optAlloc_some hc) hw
    have hcont : content h (some c) = some ((h.get c).getD []) := hc.get_eq
    rw [hcont] at hab
    have hpure : guardLoop g.pure (contents h (c :: cs)) =
        (match (absOut h1 out).err with
         | some e => .error (.guard e)
         | none =>
           match (absOut h1 out).exe with
           | some (some b, _) => .ok (some b)
           | _ => guardLoop g.pure (contents h cs)) := by
      rw [hab]; rfl
    rw [hpure, absOut_err]
    rcases he : out.err with _ | e
    · simp only [he] at hr ⊢
      rcases hx : out.exe with _ | ⟨_ | b, em⟩
      · simp only [hx] at hr
        obtain ⟨g2, hal2, hab2⟩ :=
          ih g1.inv (fun x hxm => g1.alloc_of (hcs x (List.mem_cons_of_mem _ hxm))) hr
        rw [absOut_exe_none hx]
        simp only
        rw [hab2, g1.contents (fun x hxm => hcs x (List.mem_cons_of_mem _ hxm))]
        exact ⟨g1.trans g2, hal2, rfl⟩
      · simp only [hx] at hr
        obtain ⟨g2, hal2, hab2⟩ :=
          ih g1.inv (fun x hxm => g1.alloc_of (hcs x (List.mem_cons_of_mem _ hxm))) hr
        rw [absOut_exe_nil hx]
        simp only
        rw [hab2, g1.contents (fun x hxm => hcs x (List.mem_cons_of_mem _ hxm))]
        exact ⟨g1.trans g2, hal2, rfl⟩
      · simp only [hx] at hr
        cases hr
        have hb := hal b em hx
        rw [absOut_exe_some hx hb]
        simp only
        refine ⟨g1, fun x hxe => (by cases hxe; exact hb), ?_⟩
        simp only [absChoice, content, Option.bind]
        rw [← hb.get_eq]
    · simp only [he] at hr ⊢
      cases hr
      exact ⟨g1, fun x hxe => (by cases hxe), rfl⟩

/-! ## `candidatesH` -/

/-- the pure reading of a list of candidates -/
def absCands (h : Heap) : Except StepErr (List (Option Addr)) → Except StepErr (List (Option Bs))
  | .error e => .error e
  | .ok l => .ok (l.map (content h))

theorem nodup_copyB_content {h : Heap} (hi : Inv h) (bs : Option Addr) :
    NoDupKeys (copyB (content h bs)) := by
  cases bs with
  | none => exact List.Pairwise.nil
  | some x =>
    cases hg : h.get x with
    | none => simp only [content, Option.bind, hg, copyB]; exact List.Pairwise.nil
    | some b => simp only [content, Option.bind, hg, copyB]; exact clean_get hi.2 hg

theorem map_get_of_alloc {h : Heap} {as : List Addr} (hal : ∀ x ∈ as, Alloc h x) :
    (as.map some).map (content h) = (contents h as).map some := by
  induction as with
  | nil => rfl
  | cons a rest ih =>
    simp only [List.map_cons, C06.contents] at ih ⊢
    rw [ih (fun x hx => hal x (List.mem_cons_of_mem _ hx))]
    simp only [content, Option.bind]
    rw [← (hal a List.mem_cons_self).get_eq]

theorem candidatesH_spec (b : BranchH) {h : Heap} (hi : Inv h) {bs : Option Addr}
    (hbs : OptAlloc h bs) {against : V} {h' : Heap} {r : Except StepErr (List (Option Addr))}
    (hr : candidatesH b bs against h = (h', r)) :
    Grows h h' ∧ (∀ l, r = .ok l → ∀ oc ∈ l, OptAlloc h' oc) ∧
    absCands h' r = candidates b.abs (content h bs) against := by
  unfold candidatesH at hr
  unfold candidates
  simp only [BranchH.abs]
  rcases hp : b.pattern with _ | p
  · simp only [hp] at hr ⊢
    cases hr
    refine ⟨Grows.refl hi, ?_, rfl⟩
    intro l hl oc hoc
    cases hl
    simp only [List.mem_singleton] at hoc
    subst hoc
    exact hbs
  · simp only [hp] at hr ⊢
    cases hm : matchTop p against (copyB (content h bs)) with
    | err e =>
      simp only [hm, matchErrOf] at hr ⊢
      cases hr
      exact ⟨Grows.refl hi, fun l hl => (by cases hl), rfl⟩
    | diverge =>
      simp only [hm, matchErrOf] at hr ⊢
      cases hr
      exact ⟨Grows.refl hi, fun l hl => (by cases hl), rfl⟩
    | ok l =>
      simp only [hm, matchErrOf] at hr ⊢
      have hnd : ∀ x ∈ l, NoDupKeys x := fun x hx =>
        matchF_rel stepRel_nodup hm x hx (nodup_copyB_content hi bs)
      obtain ⟨g1, hal, hcon⟩ := allocAll_spec l h hi hnd
      generalize allocAll h l = q at hr g1 hal hcon
      obtain ⟨h1, as⟩ := q
      simp only at hr g1 hal hcon
      cases hr
      refine ⟨g1, ?_, ?_⟩
      · intro l' hl' oc hoc
        cases hl'
        obtain ⟨x, hx, rfl⟩ := List.mem_map.mp hoc
        exact optAlloc_some (hal x hx).1
      · simp only [absCands]
        rw [map_get_of_alloc (fun x hx => (hal x hx).1), hcon]
        rfl

/-! ## `tryBranchH` -/

/-- the choice among the candidates (the middle of `Branch.try`), heap level -/
def chooseH (b : BranchH) (bss : List (Option Addr)) (h1 : Heap) : Heap × Except StepErr (Option Addr) :=
  match b.guard with
  | none =>
    match bss with
    | [] => (h1, .ok none)
    | [c] => (h1, .ok c)
    | _ => (h1, .error .tooManyBindingss)
  | some g =>
    match bss with
    | [none] =>
      let (h2, out) := execWrapH g none h1
      (match out.err with
       | some e => (h2, .error (.guard e))
       | none => match out.exe with
         | some (some b', _) => (h2, .ok (some b'))
         | _ => (h2, .ok none))
    | _ => guardLoopH g (bss.filterMap id) h1

/-- the choice among the candidates, pure -/
def choose (b : Branch) (bss : List (Option Bs)) : Except StepErr (Option Bs) :=
  match b.guard with
  | none =>
    match bss with
    | [] => .ok none
    | [c] => .ok c
    | _ => .error .tooManyBindingss
  | some g =>
    match bss with
    | [none] =>
      let out := execWrap g none
      (match out.err with
       | some e => .error (.guard e)
       | none => match out.exe with
         | some (some b', _) => .ok (some b')
         | _ => .ok none)
    | _ => guardLoop g (bss.filterMap id)

theorem tryBranchH_eq (b : BranchH) (bs : Option Addr) (against : V) (h : Heap) :
    tryBranchH b bs against h =
      match candidatesH b bs against h with
      | (h1, .error e) => (h1, .error e)
      | (h1, .ok bss) =>
        match chooseH b bss h1 with
        | (h2, .error e) => (h2, .error e)
        | (h2, .ok none) => (h2, .ok none)
        | (h2, .ok (some c)) =>
          (h2, .ok (some { node := targetOf b.abs ((h2.get c).getD []), bs := some c })) := rfl

theorem tryBranch_eq (b : Branch) (bs : Option Bs) (against : V) :
    tryBranch b bs against =
      match candidates b bs against with
      | .error e => .error e
      | .ok bss =>
        match choose b bss with
        | .error e => .error e
        | .ok none => .ok none
        | .ok (some c) => .ok (some { node := targetOf b c, bs := some c }) := rfl

theorem filterMap_contents {h : Heap} : ∀ {bss : List (Option Addr)}, (∀ oc ∈ bss, OptAlloc h oc) →
    (bss.map (content h)).filterMap id = contents h (bss.filterMap id) := by
  intro bss
  induction bss with
  | nil => intro _; rfl
  | cons oc rest ih =>
    intro hal
    have ih' := ih (fun x hx => hal x (List.mem_cons_of_mem _ hx))
    cases oc with
    | none =>
      simp only [List.map_cons, content, Option.bind, List.filterMap_cons, id] at ih' ⊢
      exact ih'
    | some x =>
      have hx := (hal (some x) List.mem_cons_self) x rfl
      simp only [List.map_cons, content, Option.bind, List.filterMap_cons, id, C06.contents] at ih' ⊢
      rw [hx.get_eq]
      simp only [Option.getD_some, List.cons.injEq, true_and]
      exact ih'

theorem mem_filterMap_id {bss : List (Option Addr)} {x : Addr} (hx : x ∈ bss.filterMap id) :
    some x ∈ bss := by
  obtain ⟨a, ha, hax⟩ := List.mem_filterMap.mp hx
  simp only [id] at hax
  subst hax
  exact ha

theorem chooseH_spec (b : BranchH) (hg : ∀ g, b.guard = some g → ActOk g) {h : Heap} (hi : Inv h)
    {bss : List (Option Addr)} (hal : ∀ oc ∈ bss, OptAlloc h oc) {h' : Heap}
    {r : Except StepErr (Option Addr)} (hr : chooseH b bss h = (h', r)) :
    Grows h h' ∧ (∀ x, r = .ok (some x) → Alloc h' x) ∧
    absChoice h' r = choose b.abs (bss.map (content h)) := by
  unfold chooseH at hr
  unfold choose
  simp only [BranchH.abs]
  rcases hgd : b.guard with _ | g
  · simp only [hgd, Option.map] at hr ⊢
    rcases bss with _ | ⟨c, _ | ⟨d, rest⟩⟩
    · simp only at hr
      cases hr
      exact ⟨Grows.refl hi, fun x hx => (by cases hx), rfl⟩
    · simp only at hr
      cases hr
      refine ⟨Grows.refl hi, ?_, rfl⟩
      intro x hx
      cases hx
      exact hal (some x) List.mem_cons_self x rfl
    · simp only at hr
      cases hr
      exact ⟨Grows.refl hi, fun x hx => (by cases hx), rfl⟩
  · have hgo := hg g hgd
    simp only [hgd, Option.map] at hr ⊢
    have hloop : ∀ {h' r}, guardLoopH g (bss.filterMap id) h = (h', r) →
        Grows h h' ∧ (∀ x, r = .ok (some x) → Alloc h' x) ∧
        absChoice h' r = guardLoop g.pure ((bss.map (content h)).filterMap id) := by
      intro h' r hr
      have := guardLoopH_spec hgo (bss.filterMap id) hi
        (fun c hc => hal (some c) (mem_filterMap_id hc) c rfl) hr
      rw [filterMap_contents hal]
      exact this
    rcases bss with _ | ⟨c, _ | ⟨d, rest⟩⟩
    · exact hloop hr
    · cases c with
      | some x =>
        have hx := hal (some x) List.mem_cons_self x rfl
        have := hloop hr
        simp only [List.map_cons, List.map_nil, content, Option.bind] at this ⊢
        rw [hx.get_eq] at this ⊢
        exact this
      | none =>
        simp only at hr
        simp only [List.map_cons, List.map_nil, content, Option.bind]
        cases hw : execWrapH g none h with
        | mk h1 out =>
        rw [hw] at hr
        simp only at hr
        obtain ⟨g1, halx, hab⟩ := execWrapH_spec hgo hi (optAlloc_none h) hw
        simp only [content, Option.bind] at hab
        rw [← hab, absOut_err]
        rcases he : out.err with _ | e
        · simp only [he] at hr ⊢
          rcases hx : out.exe with _ | ⟨_ | b', em⟩
          · simp only [hx] at hr
            cases hr
            rw [absOut_exe_none hx]
            exact ⟨g1, fun x hxe => (by cases hxe), rfl⟩
          · simp only [hx] at hr
            cases hr
            rw [absOut_exe_nil hx]
            exact ⟨g1, fun x hxe => (by cases hxe), rfl⟩
          · simp only [hx] at hr
            cases hr
            have hb := halx b' em hx
            rw [absOut_exe_some hx hb]
            simp only
            refine ⟨g1, fun x hxe => (by cases hxe; exact hb), ?_⟩
            simp only [absChoice, content, Option.bind]
            rw [← hb.get_eq]
        · simp only [he] at hr ⊢
          cases hr
          exact ⟨g1, fun x hxe => (by cases hxe), rfl⟩
    · have hr' : guardLoopH g (List.filterMap id (c :: d :: rest)) h = (h', r) := by
        split at hr
        · next heq => simp at heq
        · exact hr
      have := hloop hr'
      split
      · next heq => simp at heq
      · exact this

/-- the pure reading of the outcome of a branch -/
def absTo (h : Heap) : Except StepErr (Option StateH) → Except StepErr (Option State)
  | .error e => .error e
  | .ok t => .ok (t.map (StateH.abs h))

theorem tryBranchH_spec (b : BranchH) (hg : ∀ g, b.guard = some g → ActOk g) {h : Heap} (hi : Inv h)
    {bs : Option Addr} (hbs : OptAlloc h bs) {against : V} {h' : Heap}
    {r : Except StepErr (Option StateH)} (hr : tryBranchH b bs against h = (h', r)) :
    Grows h h' ∧ (∀ t, r = .ok (some t) → OptAlloc h' t.bs) ∧
    absTo h' r = tryBranch b.abs (content h bs) against := by
  rw [tryBranchH_eq] at hr
  rw [tryBranch_eq]
  cases hcd : candidatesH b bs against h with
  | mk h1 r1 =>
  obtain ⟨g1, hal1, hab1⟩ := candidatesH_spec b hi hbs hcd
  rw [hcd] at hr
  rw [← hab1]
  cases r1 with
  | error e =>
    simp only at hr
    cases hr
    exact ⟨g1, fun t ht => (by cases ht), rfl⟩
  | ok bss =>
    simp only [absCands] at hr ⊢
    cases hch : chooseH b bss h1 with
    | mk h2 r2 =>
    obtain ⟨g2, hal2, hab2⟩ := chooseH_spec b hg g1.inv (hal1 bss rfl) hch
    rw [hch] at hr
    rw [← hab2]
    cases r2 with
    | error e =>
      simp only at hr
      cases hr
      exact ⟨g1.trans g2, fun t ht => (by cases ht), rfl⟩
    | ok oc =>
      cases oc with
      | none =>
        simp only at hr
        cases hr
        exact ⟨g1.trans g2, fun t ht => (by cases ht), rfl⟩
      | some c =>
        simp only at hr
        cases hr
        have hc := hal2 c rfl
        refine ⟨g1.trans g2, fun t ht => (by cases ht; exact optAlloc_some hc), ?_⟩
        simp only [absChoice, content, Option.bind]
        rw [hc.get_eq]
        simp only [absTo, Option.map, StateH.abs, content, Option.bind, Option.getD_some]
        rw [hc.get_eq]
        simp only [Option.getD_some]

/-! ## `tryAllH` -/

theorem tryAllH_spec {bs : Option Addr} {against : V} : ∀ (brs : List BranchH),
    (∀ b ∈ brs, ∀ g, b.guard = some g → ActOk g) → ∀ {h : Heap}, Inv h → OptAlloc h bs →
    ∀ {h' : Heap} {r : Except StepErr (Option StateH)}, tryAllH bs against brs h = (h', r) →
    Grows h h' ∧ (∀ t, r = .ok (some t) → OptAlloc h' t.bs) ∧
    absTo h' r = tryAll (content h bs) against (brs.map BranchH.abs) := by
  intro brs
  induction brs with
  | nil =>
    intro _ h hi _ h' r hr
    simp only [tryAllH] at hr
    cases hr
    exact ⟨Grows.refl hi, fun t ht => (by cases ht), rfl⟩
  | cons b rest ih =>
    intro hg h hi hbs h' r hr
    simp only [tryAllH] at hr
    simp only [List.map_cons, tryAll]
    cases htb : tryBranchH b bs against h with
    | mk h1 r1 =>
    obtain ⟨g1, hal1, hab1⟩ := tryBranchH_spec b (hg b List.mem_cons_self) hi hbs htb
    rw [htb] at hr
    rw [← hab1]
    cases r1 with
    | error e =>
      simp only at hr
      cases hr
      exact ⟨g1, fun t ht => (by cases ht), rfl⟩
    | ok ot =>
      cases ot with
      | some t =>
        simp only at hr
        cases hr
        exact ⟨g1, hal1, rfl⟩
      | none =>
        simp only at hr
        obtain ⟨g2, hal2, hab2⟩ :=
          ih (fun x hx => hg x (List.mem_cons_of_mem _ hx)) g1.inv (g1.optAlloc hbs) hr
        rw [g1.content hbs] at hab2
        exact ⟨g1.trans g2, hal2, hab2⟩

/-! ## `considerH` -/

theorem considerH_spec (b : Option BranchesH)
    (hg : ∀ br, b = some br → ∀ x ∈ br.branches, ∀ g, x.guard = some g → ActOk g)
    {h : Heap} (hi : Inv h) {bs : Option Addr} (hbs : OptAlloc h bs) {pending : Option V}
    {h' : Heap} {to : Option StateH} {consumed : Bool} {err : Option StepErr}
    (hr : considerH b bs pending h = (h', (to, consumed, err))) :
    Grows h h' ∧ (∀ t, to = some t → OptAlloc h' t.bs) ∧
    (to.map (StateH.abs h'), consumed, err) =
      consider (b.map BranchesH.abs) (content h bs) pending := by
  unfold considerH at hr
  unfold consider
  cases b with
  | none =>
    simp only at hr
    cases hr
    exact ⟨Grows.refl hi, fun t ht => (by cases ht), rfl⟩
  | some br =>
    have hg' := hg br rfl
    simp only [Option.map, BranchesH.abs] at hr ⊢
    by_cases hty : (br.type == "message") = true
    · simp only [hty, if_true] at hr ⊢
      cases pending with
      | none =>
        simp only at hr
        cases hr
        exact ⟨Grows.refl hi, fun t ht => (by cases ht), rfl⟩
      | some m =>
        simp only at hr ⊢
        cases hta : tryAllH bs m br.branches h with
        | mk h1 r1 =>
        obtain ⟨g1, hal1, hab1⟩ := tryAllH_spec br.branches hg' hi hbs hta
        rw [hta] at hr
        rw [← hab1]
        cases r1 with
        | error e =>
          simp only at hr
          cases hr
          exact ⟨g1, fun t ht => (by cases ht), rfl⟩
        | ok ot =>
          simp only at hr
          cases hr
          exact ⟨g1, fun t ht => hal1 t (by rw [ht]), rfl⟩
    · simp only [hty] at hr ⊢
      cases hta : tryAllH bs (.obj (copyB (content h bs))) br.branches h with
      | mk h1 r1 =>
      obtain ⟨g1, hal1, hab1⟩ := tryAllH_spec br.branches hg' hi hbs hta
      rw [hta] at hr
      rw [← hab1]
      cases r1 with
      | error e =>
        simp only at hr
        cases hr
        exact ⟨g1, fun t ht => (by cases ht), rfl⟩
      | ok ot =>
        simp only at hr
        cases hr
        exact ⟨g1, fun t ht => hal1 t (by rw [ht]), rfl⟩

end Sheens.C06
