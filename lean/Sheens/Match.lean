import Sheens.Value

/-!
# Model of `match/match.go`

Arm for arm: `Matcher.match` (`matchF` + one function per type-switch arm),
`mapcatMatch` (`mapcat`, `propGather`), `arraycatMatch` (`arraycat`, `arrayOne`),
`matchWithBindingss` (`matchWith`), `getVariable`, `inequal`, `combine`
(`List.flatten`).  `DefaultMatcher`'s three switches are on (checked by the
regenerated facts).

Every function of the `mutual` block matches on the fuel and decrements it, so
the recursion is structural and concrete instances evaluate in the kernel.
Fuel `0` = `diverge` models Go's unbounded recursion (`match` re-enters itself
on a *bound value*, which is not structurally smaller than the pattern).
-/

/-- `getVariable`: first variable and the non-variables (in order). -/
def getVariable : List V → Option String → List V → Except MatchErr (Option String × List V)
  | [], v, acc => .ok (v, acc.reverse)
  | (.str s) :: xs, v, acc =>
    if isVar s then
      match v with
      | none => getVariable xs (some s) acc
      | some v' => if v' = s then .error .repeatedVar else .error .multiVar
    else getVariable xs v (.str s :: acc)
  | x :: xs, v, acc => getVariable xs v (x :: acc)

/-- the scalar set `fxs` (a Go map keyed by the scalar), as a de-duplicated list -/
def indexScalars : List V → List Scalar → List Scalar
  | [], acc => acc.reverse
  | x :: xs, acc =>
    match x.scalar? with
    | some sc => if acc.contains sc then indexScalars xs acc else indexScalars xs (sc :: acc)
    | none => indexScalars xs acc

/-- the structured index `fxa : map[int]interface{}` -/
def indexStruct : List V → Nat → List (Nat × V)
  | [], _ => []
  | x :: xs, i =>
    match x.scalar? with
    | some _ => indexStruct xs (i+1)
    | none => (i, x) :: indexStruct xs (i+1)

/-- "merge left-over facts": remaining scalars get fresh indexes from `len(fa)` on -/
def leftovers : List Scalar → Nat → List (Nat × V)
  | [], _ => []
  | s :: ss, i => (i, s.toV) :: leftovers ss (i+1)

def matchNull (f : V) (bs : Bs) : MRes :=
  match f with
  | .null => .ok [bs]
  | _ => .ok []
def matchBool (a : Bool) (f : V) (bs : Bs) : MRes :=
  match f with
  | .bool b => if a = b then .ok [bs] else .ok []
  | _ => .ok []
def matchNum (a : Rat) (f : V) (bs : Bs) : MRes :=
  match f with
  | .num b => if a = b then .ok [bs] else .ok []
  | _ => .ok []

/-- `checkForBadPropertyVariables` -/
def checkBadPropVars (pm : List (String × V)) : Bool :=
  pm.length > 1 && pm.any (fun kv => isVar kv.1)

inductive IneqOp where
  | le | ge | ne | gt | lt
  deriving Repr, DecidableEq

/-- The operator scan of `inequal` (order `<=, >=, !=, >, <`; names of length ≤ 2 are not inequalities). -/
def ineqOf (v : String) : Option (IneqOp × String) :=
  match v.toList with
  | '?' :: '<' :: '=' :: rest => some (.le, String.ofList ('?' :: rest))
  | '?' :: '>' :: '=' :: rest => some (.ge, String.ofList ('?' :: rest))
  | '?' :: '!' :: '=' :: rest => some (.ne, String.ofList ('?' :: rest))
  | '?' :: '>' :: c :: rest => some (.gt, String.ofList ('?' :: c :: rest))
  | '?' :: '<' :: c :: rest => some (.lt, String.ofList ('?' :: c :: rest))
  | _ => none

def IneqOp.rel : IneqOp → Rat → Rat → Bool
  | .le, a, b => a ≤ b
  | .ge, a, b => b ≤ a
  | .ne, a, b => a != b
  | .gt, a, b => b < a
  | .lt, a, b => a < b

/-- `fudge(x).(float64)` -/
def asNum : V → Option Rat
  | .num q => some q
  | .int i => some i
  | _ => none

/-- `Matcher.inequal`; `none` = "not using" (fall through to ordinary variable handling). -/
def inequal (f : V) (bs : Bs) (v : String) : Option (List Bs) :=
  match lookup v bs with
  | none => none
  | some x =>
    match asNum x with
    | none => none
    | some b =>
      match asNum f with
      | none => none
      | some a =>
        match ineqOf v with
        | none => none
        | some (op, vv) =>
          if !(op.rel a b) then some []
          else
            match lookup vv bs with
            | some c' =>
              match asNum c' with
              | none => none
              | some c => if c = a then some [bs] else some []
            | none => some [(vv, .num a) :: bs]

mutual
/-- `Matcher.match` -/
def matchF : Nat → V → V → Bs → MRes
  | 0, _, _, _ => .diverge
  | n+1, p, f, bs =>
    match fudge p with
    | .null => matchNull (fudge f) bs
    | .bool a => matchBool a (fudge f) bs
    | .num a => matchNum a (fudge f) bs
    | .str s => matchStr n s (fudge f) bs
    | .obj pm => matchObj n pm (fudge f) bs
    | .arr ps => matchArr n ps (fudge f) bs
    | _ => .err .unknownPatternType

/-- the `case string` arm -/
def matchStr : Nat → String → V → Bs → MRes
  | 0, _, _, _ => .diverge
  | n+1, s, f, bs =>
    if !isVar s then
      match f with
      | .str t => if s = t then .ok [bs] else .ok []
      | _ => .ok []
    else if isAnon s then .ok [bs]
    else
      match inequal f bs s with
      | some r => .ok r
      | none =>
        match lookup s bs with
        | some b => matchBound n b f bs
        | none => .ok [(s, f) :: bs]

/-- a bound value: one that looks like a variable is compared as a constant, anything else is
    re-used as a sub-pattern -/
def matchBound : Nat → V → V → Bs → MRes
  | 0, _, _, _ => .diverge
  | n+1, b, f, bs =>
    match b with
    | .str t =>
      if isVar t then
        match f with
        | .str u => if t = u then .ok [bs] else .ok []
        | _ => .ok []
      else matchF n b f bs
    | _ => matchF n b f bs

/-- the `case map[string]interface{}` arm -/
def matchObj : Nat → List (String × V) → V → Bs → MRes
  | 0, _, _, _ => .diverge
  | n+1, pm, f, bs =>
    match f with
    | .obj fm =>
      if pm.isEmpty then .ok [bs]
      else if checkBadPropVars pm then .err .badPropVar
      else
        match pm with
        | [(k, v)] => if isVar k then propGather n [bs] k v fm else mapcat n [bs] pm fm
        | _ => mapcat n [bs] pm fm
    | _ => .ok []

/-- the `case []interface{}` arm -/
def matchArr : Nat → List V → V → Bs → MRes
  | 0, _, _, _ => .diverge
  | n+1, ps, f, bs =>
      match getVariable ps none [] with
      | .error e => .err e
      | .ok (v, xs) =>
        match f with
        | .arr fa =>
          let fxs := indexScalars fa []
          let fxa := indexStruct fa 0
          match loopXs n xs fxs [[bs]] [fxa] fxa.isEmpty with
          | .inl r => r
          | .inr (fxs', bsss, fxas) =>
            let fxas' := fxas.map (fun m => m ++ leftovers fxs' fa.length)
            match v with
            | none => .ok bsss.flatten
            | some vn =>
              match arraycat n bsss (.str vn) fxas' with
              | .inl r => r
              | .inr (bsss', _) =>
                if bsss'.isEmpty && isOptVar (.str vn) then .ok bsss.flatten else .ok bsss'.flatten
        | _ => .ok []

/-- iterate the non-variable pattern elements; `inl` = early result -/
def loopXs : Nat → List V → List Scalar → List (List Bs) → List (List (Nat × V)) → Bool →
    Sum MRes (List Scalar × List (List Bs) × List (List (Nat × V)))
  | 0, _, _, _, _, _ => .inl .diverge
  | _+1, [], fxs, bsss, fxas, _ => .inr (fxs, bsss, fxas)
  | n+1, x :: xs, fxs, bsss, fxas, fxaEmpty =>
    match x.scalar? with
    | some sc =>
      if fxs.contains sc then loopXs n xs (fxs.erase sc) bsss fxas fxaEmpty
      else .inl (.ok [])
    | none =>
      if fxaEmpty then .inl (.ok [])
      else
        match arraycat n bsss x fxas with
        | .inl r => .inl r
        | .inr (bsss', fxas') =>
          if bsss'.isEmpty then .inl (.ok []) else loopXs n xs fxs bsss' fxas' fxaEmpty

/-- `arraycatMatch`: for every (bss, remaining facts) branch and every remaining fact, try the pattern -/
def arraycat : Nat → List (List Bs) → V → List (List (Nat × V)) →
    Sum MRes (List (List Bs) × List (List (Nat × V)))
  | 0, _, _, _ => .inl .diverge
  | _+1, [], _, _ => .inr ([], [])
  | _+1, _ :: _, _, [] => .inr ([], [])
  | n+1, bss :: bsss, pat, mm :: fxas =>
    match arrayOne n bss pat mm mm with
    | .inl r => .inl r
    | .inr (a1, f1) =>
      match arraycat n bsss pat fxas with
      | .inl r => .inl r
      | .inr (a2, f2) => .inr (a1 ++ a2, f1 ++ f2)

/-- inner loop of `arraycatMatch` over the facts of one branch -/
def arrayOne : Nat → List Bs → V → List (Nat × V) → List (Nat × V) →
    Sum MRes (List (List Bs) × List (List (Nat × V)))
  | 0, _, _, _, _ => .inl .diverge
  | _+1, _, _, _, [] => .inr ([], [])
  | n+1, bss, pat, mm, (j, fact) :: todo =>
    match matchWith n bss pat fact with
    | .ok acc =>
      match arrayOne n bss pat mm todo with
      | .inl r => .inl r
      | .inr (a, f) =>
        if acc.isEmpty then .inr (a, f)
        else .inr (acc :: a, (mm.filter (fun e => e.1 != j)) :: f)
    | e => .inl e

/-- `matchWithBindingss` -/
def matchWith : Nat → List Bs → V → V → MRes
  | 0, _, _, _ => .diverge
  | _+1, [], _, _ => .ok []
  | n+1, bs :: rest, p, f =>
    match matchF n p f bs with
    | .ok r1 =>
      match matchWith n rest p f with
      | .ok r2 => .ok (r1 ++ r2)
      | e => e
    | e => e

/-- `mapcatMatch`, constant keys -/
def mapcat : Nat → List Bs → List (String × V) → List (String × V) → MRes
  | 0, _, _, _ => .diverge
  | _+1, bss, [], _ => .ok bss
  | n+1, bss, (k, v) :: rest, fm =>
    if isVar k then .err .badPropVar   -- unreachable after `checkBadPropVars` unless it is the sole key (handled by `propGather`)
    else
      match lookup k fm with
      | none => if isOptVar v then mapcat n bss rest fm else .ok []
      | some fv =>
        match matchWith n bss v fv with
        | .ok [] => .ok []
        | .ok acc => mapcat n acc rest fm
        | e => e

/-- `mapcatMatch`, the property-variable case (sole key is a variable): gather over the fact's keys -/
def propGather : Nat → List Bs → String → V → List (String × V) → MRes
  | 0, _, _, _, _ => .diverge
  | _+1, _, _, _, [] => .ok []
  | n+1, bss, k, v, (fk, fv) :: rest =>
    match matchWith n bss (.str k) (.str fk) with
    | .ok ext =>
      let here : MRes := if ext.isEmpty then .ok [] else matchWith n ext v fv
      match here with
      | .ok ext2 =>
        match propGather n bss k v rest with
        | .ok more => .ok (ext2 ++ more)
        | e => e
      | e => e
    | e => e
end

/-- Enough fuel for every terminating run the driver is asked about. -/
def matchFuel : Nat := 4000

/-- `Match`/`Matches` with the default matcher. -/
def matchTop (p f : V) (bs : Bs) : MRes := matchF matchFuel p f bs
