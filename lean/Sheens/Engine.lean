import Sheens.Match

/-!
# Model of `core/step.go` and `core/actions.go` (the repaired tree)

`FuncAction.Exec` (`execWrap`), `Branch.target`, `Branch.try` (`tryBranch`,
`guardLoop`), `Branches.consider` (`tryAll`, `consider`), `Spec.Step` (`step`),
`Spec.Walk` (`walkLoop`, `walk`).

Go's partiality is explicit: a possibly-nil bindings map is `Option Bs`, a
possibly-nil `*Execution` is `Option …`, and every operation that can panic in
Go is an `Outcome.panic` arm.  Actions and guards are arbitrary functions
`ActionF` returning any of the four nil/non-nil combinations of
`(*Execution, error)`.  Traces are not modelled (no property speaks about them).
-/

/-- what an `Action.F` returns: `exe = none` is a nil `*Execution`; inside, the bindings may be nil -/
structure ExecOut where
  exe : Option (Option Bs × List V)   -- (Bs, Emitted)
  err : Option String

abbrev ActionF := Option Bs → ExecOut

structure Branch where
  pattern : Option V
  guard   : Option ActionF
  target  : String

structure Branches where
  type     : String
  branches : List Branch

structure Node where
  action    : Option ActionF
  hasSource : Bool              -- `ActionSource != nil`
  branches  : Option Branches

structure Spec where
  name                : String
  nodes               : List (String × Node)
  actionErrorBranches : Bool
  actionErrorNode     : String
  compiled            : Bool

structure State where
  node : String
  bs   : Option Bs

structure Stride where
  frm      : State
  to       : Option State
  consumed : Option V
  emitted  : List V

inductive StepErr where
  | notCompiled | unknownNode (n : String) | uncompiledAction (n : String) | badBranching (n : String)
  | action (msg : String) | guard (msg : String) | matchErr (e : MatchErr) | tooManyBindingss | diverged
  | nilStride

def findNode (k : String) : List (String × Node) → Option Node
  | [] => none
  | (k', n) :: rest => if k = k' then some n else findNode k rest

/-- Go: `bs.Copy()` of a possibly-nil map is a non-nil map -/
def copyB : Option Bs → Bs
  | none => []
  | some b => b

def permanentOf (bs : Bs) : Bs := bs.filter (fun kv => isPermanent kv.1)

def restore (perm : Bs) (b : Bs) : Bs := perm.foldl (fun acc kv => insertB kv.1 kv.2 acc) b

/-- `FuncAction.Exec` (core/actions.go): gather the permanent bindings, run, write them back
    when there are bindings to write into, and make sure an `*Execution` is returned. -/
def execWrap (a : ActionF) (bs : Option Bs) : ExecOut :=
  let permanent := permanentOf (copyB bs)
  let out := a bs
  match out.exe with
  | none => { exe := some (none, []), err := out.err }              -- `exe = NewExecution(nil)`
  | some (none, em) => { exe := some (none, em), err := out.err }
  | some (some b, em) => { exe := some (some (restore permanent b), em), err := out.err }

def isTargetVar (s : String) : Bool :=
  match s.toList with
  | '@' :: _ => true
  | _ => false

/-- `Branch.target` -/
def targetOf (b : Branch) (bs : Bs) : String :=
  if !bs.isEmpty && isTargetVar b.target then
    match lookup (String.ofList (b.target.toList.drop 1)) bs with
    | some (.str s) => s
    | _ => b.target
  else b.target

/-- guard loop over the candidates: the first whose guard returns non-nil bindings -/
def guardLoop (g : ActionF) : List Bs → Except StepErr (Option Bs)
  | [] => .ok none
  | c :: cs =>
    let out := execWrap g (some c)
    match out.err with
    | some e => .error (.guard e)
    | none =>
      match out.exe with
      | some (some b, _) => .ok (some b)
      | _ => guardLoop g cs

def matchErrOf : MRes → Except StepErr (List Bs)
  | .ok bss => .ok bss
  | .err e => .error (.matchErr e)
  | .diverge => .error .diverged

/-- candidates of a branch: no pattern = the bindings as they are (possibly nil) -/
def candidates (b : Branch) (bs : Option Bs) (against : V) : Except StepErr (List (Option Bs)) :=
  match b.pattern with
  | none => .ok [bs]
  | some p => (matchErrOf (matchTop p against (copyB bs))).map (fun l => l.map some)

/-- `Branch.try` -/
def tryBranch (b : Branch) (bs : Option Bs) (against : V) : Except StepErr (Option State) :=
  match candidates b bs against with
  | .error e => .error e
  | .ok bss =>
    let chosen : Except StepErr (Option Bs) :=
      match b.guard with
      | none =>
        match bss with
        | [] => .ok none
        | [c] => .ok c
        | _ => .error .tooManyBindingss
      | some g =>
        -- `Guard.Exec(ctx, candidate, props)`: a nil candidate is passed as nil
        match bss with
        | [none] =>
          let out := execWrap g none
          (match out.err with
           | some e => .error (.guard e)
           | none => match out.exe with
             | some (some b', _) => .ok (some b')
             | _ => .ok none)
        | _ => guardLoop g (bss.filterMap id)
    match chosen with
    | .error e => .error e
    | .ok none => .ok none
    | .ok (some c) => .ok (some { node := targetOf b c, bs := some c })

def tryAll (bs : Option Bs) (against : V) : List Branch → Except StepErr (Option State)
  | [] => .ok none
  | b :: rest =>
    match tryBranch b bs against with
    | .error e => .error e
    | .ok (some st) => .ok (some st)
    | .ok none => tryAll bs against rest

/-- `Branches.consider`: (to, consumed?, err) -/
def consider (b : Option Branches) (bs : Option Bs) (pending : Option V) :
    Option State × Bool × Option StepErr :=
  match b with
  | none => (none, false, none)
  | some br =>
    let consumer := br.type == "message"
    if consumer then
      match pending with
      | none => (none, true, none)
      | some m =>
        match tryAll bs m br.branches with
        | .error e => (none, true, some e)
        | .ok to => (to, true, none)
    else
      match tryAll bs (.obj (copyB bs)) br.branches with
      | .error e => (none, false, some e)
      | .ok to => (to, false, none)

def stateCopy (st : State) : State := { node := st.node, bs := some (copyB st.bs) }

structure StepOut where
  stride : Option Stride
  err    : Option StepErr

/-- `Spec.Step` -/
def step (s : Spec) (st : State) (pending : Option V) : StepOut :=
  if !s.compiled then { stride := none, err := some .notCompiled } else
  match findNode st.node s.nodes with
  | none => { stride := none, err := some (.unknownNode st.node) }
  | some n =>
    if n.action.isNone && n.hasSource then { stride := none, err := some (.uncompiledAction st.node) } else
    if n.action.isSome && (match n.branches with | some b => b.type == "message" | none => false) then
      { stride := none, err := some (.badBranching st.node) } else
    let stride0 : Stride := { frm := stateCopy st, to := none, consumed := none, emitted := [] }
    -- the action, if any: `inl` = return now, `inr` = go on to the branches with (bs, emitted)
    let afterAction : Sum StepOut (Option Bs × List V) :=
      match n.action with
      | none => .inr (st.bs, [])
      | some a =>
        let out := execWrap a st.bs
        let (ebs, emitted) : Bs × List V :=
          match out.exe with
          | none => ([], [])                       -- not reachable through `execWrap`
          | some (none, em) => ([], em)            -- nil bindings: `e.Bs = NewBindings()`
          | some (some b, em) => (b, em)
        match out.err with
        | none => .inr (some ebs, emitted)
        | some e =>
          let b2 := insertB "error" (.str e) (insertB "actionError" (.str e) (copyB st.bs))
          if !s.actionErrorBranches then
            if s.actionErrorNode == "" then .inl { stride := none, err := some (.action e) }
            else .inl { stride := some { stride0 with emitted := emitted,
                                                        to := some { node := s.actionErrorNode, bs := some b2 } },
                        err := none }
          else .inr (some b2, emitted)
    match afterAction with
    | .inl r => r
    | .inr (bs, emitted) =>
      let (to, consumed, err) := consider n.branches bs pending
      let stride1 : Stride := { stride0 with emitted := emitted,
                                              consumed := if consumed then pending else none,
                                              to := to.map stateCopy }
      if to.isNone && n.action.isSome then
        let b := insertB "lastBindings" (.obj (copyB st.bs))
                  (insertB "lastNode" (.str st.node)
                    (insertB "error" (.str "Action node followed no branch") (copyB bs)))
        { stride := some { stride1 with to := some { node := "error", bs := some b } }, err := err }
      else { stride := some stride1, err := err }

inductive StopReason where
  | done | limited | breakpoint
  deriving DecidableEq, Repr

structure Walked where
  strides   : List Stride
  remaining : List V
  stopped   : StopReason

def errText (specName : String) : StepErr → String
  | .notCompiled => "spec \"" ++ specName ++ "\" not compiled"
  | .unknownNode n => "node \"" ++ n ++ "\" not found in spec \"" ++ specName ++ "\""
  | .uncompiledAction n => "uncompiled action at node \"" ++ n ++ "\" in spec \"" ++ specName ++ "\""
  | .badBranching n => "branching at node \"" ++ n ++ "\" in spec \"" ++ specName ++ "\" has \"message\" branching and an action"
  | .action m => m
  | .guard m => m
  | .matchErr .badPropVar => "badPropVar"
  | .matchErr .multiVar => "multiVar"
  | .matchErr .repeatedVar => "repeatedVar"
  | .matchErr .unknownPatternType => "unknownPatternType"
  | .tooManyBindingss => "too many bindingss"
  | .diverged => "diverged"
  | .nilStride => "nil stride"

/-- a pending message: Go `nil` (JSON null) is "no message" -/
def pendingOf : List V → Option V
  | [] => none
  | .null :: _ => none
  | m :: _ => some m

/-- one iteration of `Spec.Walk` without the bookkeeping: `Step`, a stride made up when `Step`
    returned none, and the transition to the error node when `Step` returned an error -/
def walkStride (s : Spec) (st : State) (pending : Option V) : Stride :=
  let out := step s st pending
  let stride : Stride := match out.stride with
    | some x => x
    | none => { frm := stateCopy st, to := none, consumed := none, emitted := [] }
  match out.err with
  | none => stride
  | some e =>
    if st.node == "error" then stride
    else
      let b := insertB "lastBindings" (.obj (copyB st.bs))
                (insertB "lastNode" (.str st.node)
                  (insertB "error" (.str (errText s.name e)) (copyB st.bs)))
      { stride with to := some { node := "error", bs := some b } }

/-- the loop of `Spec.Walk`; the first argument counts the remaining iterations -/
def walkLoop (s : Spec) (bp : State → Bool) :
    Nat → State → List V → List Stride → Walked
  | 0, _, pendings, acc => { strides := acc.reverse, remaining := pendings, stopped := .limited }
  | i+1, st, pendings, acc =>
    if bp st then { strides := acc.reverse, remaining := pendings, stopped := .breakpoint } else
    let stride := walkStride s st (pendingOf pendings)
    let pendings' := if stride.consumed.isSome then pendings.drop 1 else pendings
    match stride.to with
    | none =>
      if pendings'.isEmpty then { strides := (stride :: acc).reverse, remaining := [], stopped := .done }
      else if stride.consumed.isNone then { strides := (stride :: acc).reverse, remaining := [], stopped := .done }
      else walkLoop s bp i st pendings' (stride :: acc)
    | some to => walkLoop s bp i (stateCopy to) pendings' (stride :: acc)

def defaultLimit : Int := 100

/-- `Spec.Walk`; `limit = none` is a nil `*Control` -/
def walk (s : Spec) (st : State) (msgs : List V) (limit : Option Int) (bp : State → Bool) : Walked :=
  let l : Int := match limit with | none => defaultLimit | some l => l
  walkLoop s bp l.toNat st msgs []

def consumedOf (w : Walked) : List V := w.strides.filterMap (·.consumed)
def emittedOf (w : Walked) : List V := w.strides.flatMap (·.emitted)
def lastTo : List Stride → Option State
  | [] => none
  | s :: rest => match lastTo rest with
    | some t => some t
    | none => s.to
/-- `Walked.To()`, falling back to the start state -/
def finalState (st : State) (w : Walked) : State := (lastTo w.strides).getD st

/-- a node that consumes a pending message: message branching and no action -/
def canConsume (s : Spec) (node : String) : Bool :=
  s.compiled &&
    (match findNode node s.nodes with
     | some n => n.action.isNone && !n.hasSource &&
        (match n.branches with | some b => b.type == "message" | none => false)
     | none => false)
