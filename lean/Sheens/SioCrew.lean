import Sheens.ES

/-!
# Model of the single-loop crew host `sio/crew.go` (+ `captainspec.go`, the consumer fold of `stdio.go`)

`toMachines`/`allMachines`/`RunMachines`/`RunMachine`/`ProcessMsg` (breadth-first queue),
`SetMachine`/`DeleteMachine`/`DoOp`, `GetChanged` with its suppression cache, the reference
consumer's fold over reported changes (`applyChanges`) and the boot path (`rebuild`).

Machines are real engine machines (`walk` over a `Spec`).  The captain is modelled by what its
native action does to the crew (`doOp`); its own state is not part of any view.  The timers service
machine is a machine id that ordinary routing must skip; its behaviour is in `Sheens/Timers*.lean`.
Go's map iteration orders are list orders here; observations are compared as multisets where the
code leaves the order unspecified.
-/

namespace Sio

def captainId : String := "captain"
def timersId : String := "timers"

structure Machine where
  spec  : Option Spec     -- the Specter; none = no spec (inert)
  src   : Option V        -- the SpecSource as plain data
  state : State

structure Changed where
  state   : Option State
  src     : Option V
  deleted : Bool

structure Crew where
  machines : List (String × Machine)
  changed  : List (String × Changed)
  previous : List (String × Changed)
  limit    : Option Int          -- `Conf.Ctl`

def find {α : Type} (k : String) : List (String × α) → Option α
  | [] => none
  | (k', v) :: rest => if k = k' then some v else find k rest

def put {α : Type} (k : String) (v : α) : List (String × α) → List (String × α)
  | [] => [(k, v)]
  | (k', v') :: rest => if k = k' then (k, v) :: rest else (k', v') :: put k v rest

def del {α : Type} (k : String) : List (String × α) → List (String × α)
  | [] => []
  | (k', v') :: rest => if k = k' then del k rest else (k', v') :: del k rest

/-- `DefaultState` -/
def defaultState (s : Option State) : State :=
  match s with
  | none => { node := "start", bs := some [] }
  | some st => { node := if st.node == "" then "start" else st.node, bs := some (copyB st.bs) }

def emptyChanged : Changed := { state := none, src := none, deleted := false }

/-- `Crew.change`: the cached change record of a machine -/
def changeOf (c : Crew) (mid : String) : Changed := (find mid c.changed).getD emptyChanged

/-- `SetMachine` for an ordinary machine id; `resolve` is `ResolveSpecSource` + `Compile` -/
def setMachine (resolve : V → Option Spec) (c : Crew) (mid : String) (src : Option V) (state : Option State) : Crew :=
  let (m, _isNew) : Machine × Bool :=
    match find mid c.machines with
    | none => ({ spec := none, src := none, state := defaultState state }, true)
    | some m =>
      (match state with
       | some _ => { m with state := defaultState state }
       | none => m, false)
  let ch := changeOf c mid
  let ch := match src with | some s => { ch with src := some s } | none => ch
  let ch := match state with | some _ => { ch with state := some (defaultState state) } | none => ch
  let changed := if src.isSome || state.isSome then put mid ch c.changed else c.changed
  let m := match src with
    | some s => { m with src := some s, spec := resolve s }
    | none => m
  { c with machines := put mid m c.machines, changed := changed }

/-- `DeleteMachine` -/
def deleteMachine (c : Crew) (mid : String) : Crew :=
  { c with machines := del mid c.machines,
           changed := put mid { (changeOf c mid) with deleted := true } c.changed }

/-- `allMachines`: everybody except the service machines -/
def allMachines (c : Crew) : List String :=
  (c.machines.map (·.1)).filter (fun m => m != timersId && m != captainId)

/-- `toMachines` -/
def toMachines (c : Crew) (msg : V) : List String :=
  match msg with
  | .obj kvs =>
    (match lookup "to" kvs with
     | some (.str s) => if s == "*" then allMachines c else [s]
     | some (.arr xs) => xs.filterMap (fun x => match x with | .str s => some s | _ => none)
     | _ => allMachines c)
  | _ => allMachines c

def dedup : List String → List String
  | [] => []
  | x :: xs => x :: (dedup xs).filter (· != x)

/-- a crew operation as the captain reads it off a message: updates `(mid, src?, state?)` and deletions -/
structure CrewOp where
  update : List (String × Option V × Option State)
  delete : List String

/-- `DoOp`: updates first, then deletions -/
def doOp (resolve : V → Option Spec) (c : Crew) (op : CrewOp) : Crew :=
  let c := op.update.foldl (fun c (mid, src, st) => setMachine resolve c mid src st) c
  op.delete.foldl deleteMachine c

/-- `RunMachine` for an ordinary machine: walk one message, keep the new state, record the change;
    returns the emitted messages of the walk -/
def runMachine (c : Crew) (mid : String) (m : Machine) (msg : V) : Crew × List V :=
  match m.spec with
  | none => (c, [])
  | some spec =>
    let w := walk spec m.state [msg] c.limit (fun _ => false)
    match lastTo w.strides with
    | some t =>
      let t := stateCopy t
      ({ c with machines := put mid { m with state := t } c.machines,
                changed := put mid { (changeOf c mid) with state := some t } c.changed },
       emittedOf w)
    | none => (c, emittedOf w)

/-- `RunMachines`: present the message once to each addressed machine that exists.
    `asOp` reads a crew operation off a message (the captain's `AsCrewOp`). -/
def runMachines (resolve : V → Option Spec) (asOp : V → Option CrewOp) (c : Crew) (msg : V) :
    Crew × List (List V) :=
  (dedup (toMachines c msg)).foldl
    (fun (acc : Crew × List (List V)) mid =>
      let (c, batches) := acc
      if mid == captainId then
        (match find mid c.machines, asOp msg with
         | some _, some op => (doOp resolve c op, batches)
         | _, _ => (c, batches))
      else if mid == timersId then (c, batches)   -- the timers service; see Sheens/TimersSio.lean
      else
        match find mid c.machines with
        | none => (c, batches)
        | some m =>
          let (c', em) := runMachine c mid m msg
          (c', if em.isEmpty then batches else batches ++ [em]))
    (c, [])

/-- `ProcessMsg`'s breadth-first loop; `fuel` bounds the number of processed messages
    (the code has no limit: a ping-pong of emissions does not terminate) -/
def bfs (resolve : V → Option Spec) (asOp : V → Option CrewOp) :
    Nat → Crew → List V → List (List V) → Option (Crew × List (List V))
  | 0, _, _ :: _, _ => none
  | _, c, [], acc => some (c, acc)
  | n+1, c, msg :: pending, acc =>
    let (c', batches) := runMachines resolve asOp c msg
    bfs resolve asOp n c' (pending ++ batches.flatten) (acc ++ batches)

/-- `GetChanged`: net changes since the last call, without the captain, suppressing a report equal
    to the previous one for that machine (`same` is equality of the JSON texts) -/
def getChanged (same : Changed → Changed → Bool) (c : Crew) : Crew × List (String × Changed) :=
  let net : List (String × Changed) :=
    (c.changed.filter (fun p => p.1 != captainId)).map (fun (mid, ch) =>
      if ch.deleted then (mid, { state := none, src := none, deleted := true })
      else (mid, { state := ch.state.map stateCopy, src := ch.src, deleted := false }))
  let step := fun (acc : List (String × Changed) × List (String × Changed)) (p : String × Changed) =>
    let (prev, out) := acc
    if p.2.deleted then (del p.1 prev, out ++ [p])
    else
      match find p.1 prev with
      | some q => if same p.2 q then (prev, out) else (put p.1 p.2 prev, out ++ [p])
      | none => (put p.1 p.2 prev, out ++ [p])
  let (prev', out) := net.foldl step (c.previous, [])
  ({ c with changed := [], previous := prev' }, out)

structure Result where
  changed : List (String × Changed)
  emitted : List (List V)

/-- `ProcessMsg` -/
def processMsg (resolve : V → Option Spec) (asOp : V → Option CrewOp) (same : Changed → Changed → Bool)
    (fuel : Nat) (c : Crew) (msg : V) : Option (Crew × Result) :=
  match bfs resolve asOp fuel c [msg] [] with
  | none => none
  | some (c', emitted) =>
    let (c'', changed) := getChanged same c'
    some (c'', { changed := changed, emitted := emitted })

/-! ## The reference consumer (`stdio.go`) and the boot path (`siostd/main.go`) -/

structure Stored where
  state : Option State
  src   : Option V

/-- apply the reported changes to a store, as `Stdio` does -/
def applyChanges (store : List (String × Stored)) (changes : List (String × Changed)) : List (String × Stored) :=
  changes.foldl (fun st (mid, ch) =>
    if ch.deleted then del mid st
    else
      let old := (find mid st).getD { state := none, src := none }
      let s1 := match ch.state with | some x => { old with state := some (stateCopy x) } | none => old
      let s2 := match ch.src with | some x => { s1 with src := some x } | none => s1
      put mid s2 st) store

/-- boot a crew from a store: `SetMachine(mid, m.SpecSource, m.State)` for every stored machine -/
def rebuild (resolve : V → Option Spec) (limit : Option Int) (store : List (String × Stored)) : Crew :=
  let c0 : Crew := { machines := [(captainId, { spec := none, src := none, state := defaultState none }),
                                  (timersId, { spec := none, src := none, state := defaultState none })],
                     changed := [], previous := [], limit := limit }
  let c := store.foldl (fun c (mid, s) => setMachine resolve c mid s.src s.state) c0
  { c with changed := [] }

/-- what a store must know about an ordinary machine: node, bindings and spec source;
    a machine stored without a state is at the default state -/
def liveView (c : Crew) : List (String × State × Option V) :=
  (c.machines.filter (fun p => p.1 != captainId && p.1 != timersId)).map
    (fun (mid, m) => (mid, stateCopy m.state, m.src))

def storeView (store : List (String × Stored)) : List (String × State × Option V) :=
  (store.filter (fun p => p.1 != captainId && p.1 != timersId)).map
    (fun (mid, s) => (mid, defaultState s.state, s.src))

end Sio
