/-!
# The updatable spec as an atomic register (`core/specter.go`)

`SetSpec` is one atomic pointer store, `Spec()` one atomic pointer load, and every processing call
evaluates `Spec()` once (regenerated facts).  A history is a sequence of events of the register and
of the processing calls; the version a call works with is the one its load returned.
-/

namespace Specter

inductive Ev where
  | write (v : Nat)          -- SetSpec(version v)
  | begin_ (call : Nat)      -- a processing call starts
  | load (call : Nat)        -- … evaluates Spec()
  | end_ (call : Nat)        -- … and returns
  deriving DecidableEq, Repr

/-- the register's value after a prefix of the history (initial version `v0`) -/
def current (v0 : Nat) : List Ev → Nat
  | [] => v0
  | .write v :: rest => current v rest
  | _ :: rest => current v0 rest

/-- the version call `c` loaded: the register's value at its `load` event -/
def loaded (v0 : Nat) (c : Nat) : List Ev → Option Nat
  | [] => none
  | .load c' :: rest => if c' = c then some v0 else loaded v0 c rest
  | .write v :: rest => loaded v c rest
  | _ :: rest => loaded v0 c rest

/-- the versions that were current at some moment between `begin_ c` and `end_ c` -/
def currentDuring (v0 : Nat) (c : Nat) : List Ev → Bool → List Nat
  | [], _ => []
  | .begin_ c' :: rest, inside => if c' = c then v0 :: currentDuring v0 c rest true else currentDuring v0 c rest inside
  | .end_ c' :: rest, inside => if c' = c then [] else currentDuring v0 c rest inside
  | .write v :: rest, inside => if inside then v :: currentDuring v c rest inside else currentDuring v c rest inside
  | _ :: rest, inside => currentDuring v0 c rest inside

/-- a call is well formed in a history: begin, then exactly one load, then end -/
def wellFormed (c : Nat) (h : List Ev) : Prop :=
  ∃ a b d, h = a ++ [.begin_ c] ++ b ++ [.load c] ++ d ∧
    (∀ e ∈ a, e ≠ .begin_ c ∧ e ≠ .load c ∧ e ≠ .end_ c) ∧
    (∀ e ∈ b, e ≠ .begin_ c ∧ e ≠ .load c ∧ e ≠ .end_ c) ∧
    (∀ e ∈ d, e ≠ .begin_ c ∧ e ≠ .load c)

end Specter
