import Sheens.MatchSpec

/-!
# Embeddings: the declarative side of match *completeness* (C02)

`Emb bs₀ σ p f`: the assignment `σ` (which extends the given bindings `bs₀`) makes the pattern `p`,
so instantiated, contained in the message `f`, with `σ` *exact* at variable positions: a variable
stands for the whole message value at its position.  Extra keys of message objects and extra
elements of message arrays are simply not mentioned.

The supported fragment is built in: an array pattern splits (by `getVariable`) into at most one
variable and the other elements, which are matched by *distinct* message elements; a variable
property name is the sole key of its map.  An optional variable may stay unbound only where nothing
is left for it (absent key; no left-over array element).
-/

def isScalarV : V → Bool
  | .null | .bool _ | .num _ | .str _ => true
  | _ => false

/-- a variable position: the anonymous variable matches anything; an inequality variable (operator
    in the name, numerically pre-bound, numeric message value, counterpart absent or numeric) demands
    the relation and binds the counterpart; any other variable is bound to exactly the message value -/
def VarAt (bs₀ σ : Bs) (v : String) (f : V) : Prop :=
  isAnon v = true ∨
  (isAnon v = false ∧ ineqActive bs₀ σ v f = false ∧ lookup v σ = some f) ∨
  (∃ op base bv b a cv, ineqOf v = some (op, base) ∧ lookup v bs₀ = some bv ∧ asNum bv = some b ∧
      asNum f = some a ∧ op.rel a b = true ∧ lookup base σ = some cv ∧ asNum cv = some a)

mutual
inductive Emb (bs₀ σ : Bs) : V → V → Prop
  | scalar   : isScalarConst p = true → p = f → Emb bs₀ σ p f
  | var      : isVar v = true → VarAt bs₀ σ v f → Emb bs₀ σ (.str v) f
  | objEmpty : Emb bs₀ σ (.obj []) (.obj fm)
  | objProp  : isVar k = true → (fk, fv) ∈ fm → VarAt bs₀ σ k (.str fk) → Emb bs₀ σ pv fv →
               Emb bs₀ σ (.obj [(k, pv)]) (.obj fm)
  | obj      : pm ≠ [] → ObjEmb bs₀ σ pm fm → Emb bs₀ σ (.obj pm) (.obj fm)
  /-- the non-variable elements `xs` are matched by distinct message elements leaving `L`; the
      variable, if any, takes one of the left-over elements, or — if optional — stays out when
      nothing is left -/
  | arr      : getVariable ps none [] = .ok (vo, xs) → ArrEmbX bs₀ σ xs fs L →
               (match vo with
                | none => True
                | some v => (∃ f ∈ L, VarAt bs₀ σ v f) ∨ (isOptVar (.str v) = true ∧ L = [])) →
               Emb bs₀ σ (.arr ps) (.arr fs)
inductive ObjEmb (bs₀ σ : Bs) : List (String × V) → List (String × V) → Prop
  | nil     : ObjEmb bs₀ σ [] fm
  | present : isVar k = false → lookup k fm = some fv → Emb bs₀ σ pv fv → ObjEmb bs₀ σ rest fm →
              ObjEmb bs₀ σ ((k, pv) :: rest) fm
  | absent  : isVar k = false → lookup k fm = none → isOptVar pv = true → ObjEmb bs₀ σ rest fm →
              ObjEmb bs₀ σ ((k, pv) :: rest) fm
inductive ArrEmbX (bs₀ σ : Bs) : List V → List V → List V → Prop
  | nil  : ArrEmbX bs₀ σ [] fs fs
  | cons : Pick f fs fs' → Emb bs₀ σ p f → ArrEmbX bs₀ σ ps fs' L → ArrEmbX bs₀ σ (p :: ps) fs L
end

mutual
/-- arrays are sets: no array anywhere in the value has two equal scalar members -/
def setLike : V → Bool
  | .arr xs => scalarsNodup xs && setLikeList xs
  | .obj kvs => setLikeKvs kvs
  | _ => true
def setLikeList : List V → Bool
  | [] => true
  | x :: xs => setLike x && setLikeList xs
def setLikeKvs : List (String × V) → Bool
  | [] => true
  | (_, v) :: rest => setLike v && setLikeKvs rest
def scalarsNodup : List V → Bool
  | [] => true
  | x :: xs =>
    (match x.scalar? with
     | some s => !(xs.any (fun y => y.scalar? == some s))
     | none => true) && scalarsNodup xs
end

/-- number of occurrences of a variable in a pattern -/
def occurrences (v : String) (p : V) : Nat := ((varsOf p).filter (· == v)).length

/-- repeated variables (used twice, or pre-bound) take scalar values -/
def RepeatScalar (p : V) (bs₀ σ : Bs) : Prop :=
  ∀ v x, lookup v σ = some x → (2 ≤ occurrences v p ∨ lookup v bs₀ ≠ none) → isScalarV x = true

/-- optional variables occur once and are not pre-bound -/
def OptOnce (p : V) (bs₀ : Bs) : Prop :=
  ∀ v ∈ varsOf p, isOptVar (.str v) = true → occurrences v p = 1 ∧ lookup v bs₀ = none
