import Sheens.GoSem
import Sheens.Match

/-!
# Running the translated matcher

`ofV` places a model value on the interpreter's heap (a JSON object becomes a map
object whose insertion order is the list order), `runMatch` calls the translated
`Matcher.Match` of `DefaultMatcher` — both taken from the regenerated program —
and `readBss` reads the result back into the model's types.
-/

namespace Go

mutual
def ofV : V → Heap → GV × Heap
  | .null, h => (.nil, h)
  | .bool b, h => (.bool b, h)
  | .num q, h => (.f64 q, h)
  | .str s, h => (.str s, h)
  | .arr xs, h => let (vs, h1) := ofVs xs h; (.slice vs, h1)
  | .obj kvs, h => let (es, h1) := ofKvs kvs [] h; (.ref h1.length, h1 ++ [{ ty := "map[string]interface{}", kvs := es }])
  | .int i, h => (.numT .i64 i, h)
  | .bobj kvs, h => let (es, h1) := ofKvs kvs [] h; (.ref h1.length, h1 ++ [{ ty := "Bindings", kvs := es }])
  | .other t, h => (.other t, h)
def ofVs : List V → Heap → List GV × Heap
  | [], h => ([], h)
  | x :: xs, h => let (v, h1) := ofV x h; let (vs, h2) := ofVs xs h1; (v :: vs, h2)
/-- later duplicates of a key overwrite in place, as repeated Go map stores do -/
def ofKvs : List (String × V) → List (GV × GV) → Heap → List (GV × GV) × Heap
  | [], acc, h => (acc, h)
  | (k, x) :: rest, acc, h => let (v, h1) := ofV x h; ofKvs rest (minsert (.str k) v acc) h1
end

/-- read a value back (fuel: depth) -/
def toV : Nat → Heap → GV → V
  | 0, _, _ => .other "depth"
  | _+1, _, .nil => .null
  | _+1, _, .bool b => .bool b
  | _+1, _, .f64 q => .num q
  | _+1, _, .int i => .int i
  | _+1, _, .numT _ i => .int i
  | _+1, _, .str s => .str s
  | n+1, h, .slice xs => .arr (xs.map (toV n h))
  | n+1, h, .ref a =>
    match heapGet h a with
    | some o =>
      let kvs := o.kvs.filterMap (fun (k, v) => match k with | .str s => some (s, toV n h v) | _ => none)
      if o.ty = "Bindings" then .bobj kvs else .obj kvs
    | none => .other "dangling"
  | _+1, _, .err m => .other ("error:" ++ m)
  | _+1, _, .other t => .other t

def readBs (h : Heap) (v : GV) : Option Bs :=
  match v with
  | .ref a => (heapGet h a).map (fun o => o.kvs.filterMap (fun (k, x) => match k with | .str s => some (s, toV 64 h x) | _ => none))
  | _ => none

inductive RunRes where
  | ok (bss : List Bs)
  | err (text : String)
  | fail (f : Fail)
  deriving Repr

/-- the globals of a program, evaluated in order on an empty heap -/
def initGlobals (fuel : Nat) (p : Prog) : R (Env × Heap) :=
  p.globals.foldl (fun acc (x, e) =>
    match acc with
    | .error er => .error er
    | .ok (g, h) =>
      match eval1 fuel p g [] h e with
      | .error er => .error er
      | .ok (v, h1) => .ok ((x, v) :: g, h1)) (.ok ([], []))

/-- `DefaultMatcher.Match(p, f, bs)` of the translated program -/
def runMatch (fuel : Nat) (prog : Prog) (p f : V) (bs : Bs) : RunRes :=
  match initGlobals fuel prog with
  | .error er => .fail er
  | .ok (g, h0) =>
    let (gp, h1) := ofV p h0
    let (gf, h2) := ofV f h1
    let (gb, h3) := ofV (.bobj bs) h2
    match envGet "DefaultMatcher" g with
    | none => .fail (.stuck "no DefaultMatcher")
    | some m =>
      match callFn fuel prog g ".Match" m [gp, gf, gb] h3 with
      | .error er => .fail er
      | .ok ([res, e], h4) =>
        match e with
        | .nil =>
          match sliceElems res with
          | some rs =>
            match rs.mapM (readBs h4) with
            | some bss => .ok bss
            | none => .fail (.stuck "result is not a list of maps")
          | none => .fail (.stuck "result is not a slice")
        | ev => .err (errorText h4 ev)
      | .ok _ => .fail (.stuck "Match did not return two values")

end Go

/-! ## Running the translated `tools.Analyze`

The structural view of a compiled spec (`Tools.TSpec`) is laid out on the interpreter's heap the
way `core.Spec` is in Go — `*Spec{Nodes: map[string]*Node}`, `*Node{Action, ActionSource,
Branches}`, `*Branches{Branches: []*Branch}`, `*Branch{Target, Guard, GuardSource}`,
`*ActionSource{Interpreter}` — and the translated `Analyze` is called on it. -/

namespace Go

def allocObj (h : Heap) (ty : String) (kvs : List (GV × GV)) : GV × Heap :=
  (.ref h.length, h ++ [{ ty := ty, kvs := kvs }])

def srcObj (h : Heap) (interp : Option String) : GV × Heap :=
  match interp with
  | some i => allocObj h "ActionSource" [(.str "Interpreter", .str i)]
  | none => (.nil, h)

def ofBranches (h : Heap) : List (String × Bool × Option String) → List GV × Heap
  | [] => ([], h)
  | (target, hasGuard, gi) :: rest =>
    let (gs, h1) := srcObj h gi
    let (guard, h2) : GV × Heap := if hasGuard && gi.isNone then allocObj h1 "FuncAction" [] else (.nil, h1)
    let (b, h3) := allocObj h2 "Branch" [(.str "Target", .str target), (.str "Guard", guard), (.str "GuardSource", gs)]
    let (bs, h4) := ofBranches h3 rest
    (b :: bs, h4)

/-- nodes as (name, hasAction, actionInterp, branches) -/
def ofNodes (h : Heap) : List (String × Bool × Option String × Option (List (String × Bool × Option String))) →
    List (GV × GV) × Heap
  | [] => ([], h)
  | (name, hasAction, ai, brs) :: rest =>
    let (src, h1) := srcObj h ai
    let (act, h2) : GV × Heap := if hasAction && ai.isNone then allocObj h1 "FuncAction" [] else (.nil, h1)
    let (bv, h3) : GV × Heap := match brs with
      | none => (.nil, h2)
      | some bl =>
        let (bs, h') := ofBranches h2 bl
        allocObj h' "Branches" [(.str "Branches", .slice bs)]
    let (nd, h4) := allocObj h3 "Node" [(.str "Action", act), (.str "ActionSource", src), (.str "Branches", bv)]
    let (more, h5) := ofNodes h4 rest
    ((.str name, nd) :: more, h5)

def strsOf (h : Heap) (o : MapObj) (f : String) : List String :=
  match mlookup (.str f) o.kvs with
  | some v => (match sliceElems v with
      | some xs => xs.filterMap (fun x => match x with | .str s => some s | _ => none)
      | none => [])
  | none => let _ := h; []

def natOf (o : MapObj) (f : String) : Nat :=
  match mlookup (.str f) o.kvs with
  | some (.int i) => i.toNat
  | _ => 0

structure AnalysisOut where
  nodeCount : Nat
  branches : Nat
  actions : Nat
  guards : Nat
  terminal : List String
  orphans : List String
  emptyTargets : List String
  missing : List String
  targetVars : List String
  interpreters : List String

/-- `Analyze(spec)` of the translated program -/
def runAnalyze (fuel : Nat) (prog : Prog)
    (nodes : List (String × Bool × Option String × Option (List (String × Bool × Option String)))) :
    Except String AnalysisOut :=
  let (ns, h1) := ofNodes [] nodes
  let (nm, h2) := allocObj h1 "map[string]*core.Node" ns
  let (sp, h3) := allocObj h2 "Spec" [(.str "Nodes", nm)]
  match callFn fuel prog [] "Analyze" .nil [sp] h3 with
  | .error (.fuel) => .error "fuel"
  | .error (.panic m) => .error ("panic:" ++ m)
  | .error (.stuck m) => .error ("stuck:" ++ m)
  | .ok ([.ref a, .nil], h4) =>
    match heapGet h4 a with
    | some o => .ok { nodeCount := natOf o "NodeCount", branches := natOf o "Branches", actions := natOf o "Actions",
                      guards := natOf o "Guards", terminal := strsOf h4 o "TerminalNodes", orphans := strsOf h4 o "Orphans",
                      emptyTargets := strsOf h4 o "EmptyTargets", missing := strsOf h4 o "MissingTargets",
                      targetVars := strsOf h4 o "BranchTargetVariables", interpreters := strsOf h4 o "Interpreters" }
    | none => .error "dangling result"
  | .ok _ => .error "unexpected result shape"

end Go

/-! ## Running the translated routing functions of the sio crew (`Crew.toMachines`, `Crew.allMachines`) -/

namespace Go

/-- `c.toMachines(ctx, msg)` of the translated program on a crew with the machines `ids` (in map
    order = list order) -/
def runToMachines (fuel : Nat) (prog : Prog) (ids : List String) (msg : V) : Except String (List String) :=
  match initGlobals fuel prog with
  | .error _ => .error "globals"
  | .ok (g, h0) =>
    let (ms, h1) : List (GV × GV) × Heap := ids.foldl (fun (acc : List (GV × GV) × Heap) id =>
      let (m, h') := allocObj acc.2 "Machine" [(.str "Id", .str id)]
      (acc.1 ++ [(.str id, m)], h')) ([], h0)
    let (mm, h2) := allocObj h1 "map[string]*crew.Machine" ms
    let (c, h3) := allocObj h2 "Crew" [(.str "Machines", mm)]
    let (gm, h4) := ofV msg h3
    match callFn fuel prog g ".toMachines" c [.other "context", gm] h4 with
    | .error (.fuel) => .error "fuel"
    | .error (.panic m) => .error ("panic:" ++ m)
    | .error (.stuck m) => .error ("stuck:" ++ m)
    | .ok ([res, .nil], _) =>
      match sliceElems res with
      | some xs => .ok (xs.filterMap (fun x => match x with | .str s => some s | _ => none))
      | none => .error "result is not a slice"
    | .ok _ => .error "unexpected result shape"

end Go
