import Sheens.GoSem
import Sheens.Match

/-!
# Running the translated matcher

`ofV` places a model value on the interpreter's heap (a JSON object becomes a map
object whose insertion order is the list order), `runMatch` calls the translated
`Matcher.Match` of `DefaultMatcher` — both taken from the regenerated program —
and `readBss` reads the result back into the model's types.
-/

namespace Go

mutual
def ofV : V → Heap → GV × Heap
  | .null, h => (.nil, h)
  | .bool b, h => (.bool b, h)
  | .num q, h => (.f64 q, h)
  | .str s, h => (.str s, h)
  | .arr xs, h => let (vs, h1) := ofVs xs h; (.slice vs, h1)
  | .obj kvs, h => let (es, h1) := ofKvs kvs [] h; (.ref h1.length, h1 ++ [{ ty := "map[string]interface{}", kvs := es }])
  | .int i, h => (.numT .i64 i, h)
  | .bobj kvs, h => let (es, h1) := ofKvs kvs [] h; (.ref h1.length, h1 ++ [{ ty := "Bindings", kvs := es }])
  | .other t, h => (.other t, h)
def ofVs : List V → Heap → List GV × Heap
  | [], h => ([], h)
  | x :: xs, h => let (v, h1) := ofV x h; let (vs, h2) := ofVs xs h1; (v :: vs, h2)
/-- later duplicates of a key overwrite in place, as repeated Go map stores do -/
def ofKvs : List (String × V) → List (GV × GV) → Heap → List (GV × GV) × Heap
  | [], acc, h => (acc, h)
  | (k, x) :: rest, acc, h => let (v, h1) := ofV x h; ofKvs rest (minsert (.str k) v acc) h1
end

/-- read a value back (fuel: depth) -/
def toV : Nat → Heap → GV → V
  | 0, _, _ => .other "depth"
  | _+1, _, .nil => .null
  | _+1, _, .bool b => .bool b
  | _+1, _, .f64 q => .num q
  | _+1, _, .int i => .int i
  | _+1, _, .numT _ i => .int i
  | _+1, _, .str s => .str s
  | n+1, h, .slice xs => .arr (xs.map (toV n h))
  | n+1, h, .ref a =>
    match heapGet h a with
    | some o =>
      let kvs := o.kvs.filterMap (fun (k, v) => match k with | .str s => some (s, toV n h v) | _ => none)
      if o.ty = "Bindings" then .bobj kvs else .obj kvs
    | none => .other "dangling"
  | _+1, _, .err m => .other ("error:" ++ m)
  | _+1, _, .other t => .other t

def readBs (h : Heap) (v : GV) : Option Bs :=
  match v with
  | .ref a => (heapGet h a).map (fun o => o.kvs.filterMap (fun (k, x) => match k with | .str s => some (s, toV 64 h x) | _ => none))
  | _ => none

inductive RunRes where
  | ok (bss : List Bs)
  | err (text : String)
  | fail (f : Fail)
  deriving Repr

/-- the globals of a program, evaluated in order on an empty heap -/
def initGlobals (fuel : Nat) (p : Prog) : R (Env × Heap) :=
  p.globals.foldl (fun acc (x, e) =>
    match acc with
    | .error er => .error er
    | .ok (g, h) =>
      match eval1 fuel p g [] h e with
      | .error er => .error er
      | .ok (v, h1) => .ok ((x, v) :: g, h1)) (.ok ([], []))

/-- `DefaultMatcher.Match(p, f, bs)` of the translated program -/
def runMatch (fuel : Nat) (prog : Prog) (p f : V) (bs : Bs) : RunRes :=
  match initGlobals fuel prog with
  | .error er => .fail er
  | .ok (g, h0) =>
    let (gp, h1) := ofV p h0
    let (gf, h2) := ofV f h1
    let (gb, h3) := ofV (.bobj bs) h2
    match envGet "DefaultMatcher" g with
    | none => .fail (.stuck "no DefaultMatcher")
    | some m =>
      match callFn fuel prog g ".Match" m [gp, gf, gb] h3 with
      | .error er => .fail er
      | .ok ([res, e], h4) =>
        match e with
        | .nil =>
          match sliceElems res with
          | some rs =>
            match rs.mapM (readBs h4) with
            | some bss => .ok bss
            | none => .fail (.stuck "result is not a list of maps")
          | none => .fail (.stuck "result is not a slice")
        | ev => .err (errorText h4 ev)
      | .ok _ => .fail (.stuck "Match did not return two values")

end Go
